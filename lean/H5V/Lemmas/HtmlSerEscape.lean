import H5V.Model.HtmlSer
import H5V.Spec.HtmlEscape
/-!
Helper lemmas for C07, part 1: `write_escaped`.

* `escBytes` — the structural (index-free) byte function the loop computes;
* `writeEscaped_eq` — the loop with its `search_start` / `next_special` arithmetic equals it and
  reaches none of its panic branches;
* `escBytes_utf8` — on UTF-8 input it equals UTF-8 of the character-level `escape`, provided the
  0xC2 defect is fixed or the string avoids U+0080–U+00BF other than U+00A0.
-/
namespace H5V.Lemmas.HtmlSerEscape
open H5V.Model.HtmlSer H5V.Spec.HtmlEscape

/-- what `write_escaped` appends, by recursion on the bytes -/
def escBytes (cfg : Cfg) (attr : Bool) : Bytes → Bytes
  | [] => []
  | b :: rest =>
    if b == 0x26 then bAmp ++ escBytes cfg attr rest
    else if b == 0x22 && attr then bQuot ++ escBytes cfg attr rest
    else if b == 0x3C then bLt ++ escBytes cfg attr rest
    else if b == 0x3E then bGt ++ escBytes cfg attr rest
    else if b == 0xC2 then
      if rest.head? == some 0xA0 then bNbsp ++ escBytes cfg attr rest.tail
      else (if cfg.fixC2 then [b] else []) ++ escBytes cfg attr rest
    else b :: escBytes cfg attr rest
termination_by l => l.length
decreasing_by all_goals (simp; try omega)


/-- bytes at which the search of `find_next_escaped_character` stops -/
def special (attr : Bool) (b : UInt8) : Bool :=
  (b == (if attr then 0x22 else 0x3C) || b == 0x3C || b == 0x3E) || (b == 0x26 || b == 0xC2)

theorem findTwo {α} (p3 p2 : α → Bool) (l : List α) :
    ((l.take ((l.findIdx? p3).getD l.length)).findIdx? p2).getD ((l.findIdx? p3).getD l.length)
      = l.findIdx (fun x => p3 x || p2 x) := by
  induction l with
  | nil => simp
  | cons b t ih =>
    rw [List.findIdx_cons, List.findIdx?_cons]
    cases h3 : p3 b with
    | true => simp
    | false =>
      cases h2 : p2 b with
      | true =>
        cases List.findIdx? p3 t <;> simp [List.findIdx?_cons, h2]
      | false =>
        simp only [Bool.or_self, cond_false]
        rw [← ih]
        cases hm : List.findIdx? p3 t with
        | none =>
          simp [List.findIdx?_cons, h2]
        | some k =>
          simp [List.findIdx?_cons, h2]
          cases List.findIdx? p2 t with
          | none => simp
          | some j => simp [Option.guard]; split <;> simp

/-- `memchr3` then `memchr2` on the prefix = first position of any of the five bytes -/
theorem findNextEscaped_eq (attr : Bool) (l : Bytes) :
    findNextEscaped (if attr then 0x22 else 0x3C) l = l.findIdx (special attr) := by
  unfold findNextEscaped memchr3 memchr2
  exact findTwo _ _ l

theorem escBytes_nil (cfg : Cfg) (attr : Bool) : escBytes cfg attr [] = [] := by
  rw [escBytes]

theorem escBytes_plain (cfg : Cfg) (attr : Bool) (b : UInt8) (rest : Bytes)
    (h : special attr b = false) : escBytes cfg attr (b :: rest) = b :: escBytes cfg attr rest := by
  rw [escBytes]
  simp only [special, Bool.or_eq_false_iff] at h
  obtain ⟨⟨⟨h1, h2⟩, h3⟩, h4, h5⟩ := h
  have hq : (b == 0x22 && attr) = false := by
    cases attr <;> simp_all
  simp [h2, h3, h4, h5, hq]

theorem escBytes_plain_append (cfg : Cfg) (attr : Bool) (pre rest : Bytes)
    (h : ∀ b ∈ pre, special attr b = false) :
    escBytes cfg attr (pre ++ rest) = pre ++ escBytes cfg attr rest := by
  induction pre with
  | nil => rfl
  | cons b t ih =>
    rw [List.cons_append, escBytes_plain cfg attr b _ (h b (by simp)), ih (fun x hx => h x (by simp [hx]))]
    rfl

theorem take_findIdx_plain (attr : Bool) (l : Bytes) :
    ∀ b ∈ l.take (l.findIdx (special attr)), special attr b = false := by
  intro b hb
  rw [List.mem_iff_getElem] at hb
  obtain ⟨i, hi, rfl⟩ := hb
  have hi' : i < l.findIdx (special attr) := by
    simp [List.length_take] at hi; omega
  have := List.not_of_lt_findIdx hi'
  simpa using this

/-- the loop, started at `searchStart`, appends `escBytes` of the remaining bytes; no panic branch
is reachable; `bytes.length - searchStart + 1` iterations of fuel are enough -/
theorem loop_eq (cfg : Cfg) (attr : Bool) (bytes : Bytes) :
    ∀ fuel ss out, ss ≤ bytes.length → bytes.length - ss < fuel →
      writeEscapedLoop cfg attr bytes fuel ss out
        = .ok (out ++ escBytes cfg attr (bytes.drop ss)) := by
  intro fuel
  induction fuel with
  | zero => intro ss out _ h; omega
  | succ fuel ih =>
    intro ss out hle hfuel
    unfold writeEscapedLoop
    by_cases hlt : ss < bytes.length
    · simp only [hlt, if_true]
      have hnl : ¬ bytes.length < ss := by omega
      simp only [hnl, if_false]
      rw [findNextEscaped_eq]
      generalize hrest : bytes.drop ss = rest
      have hrl : rest.length = bytes.length - ss := by rw [← hrest]; simp
      generalize hk : rest.findIdx (special attr) = k
      have hkle : k ≤ rest.length := by rw [← hk]; exact List.findIdx_le_length
      have hnp : ¬ (k + ss < ss ∨ bytes.length < k + ss) := by omega
      simp only [hnp, if_false]
      have htake : (bytes.take (k + ss)).drop ss = rest.take k := by
        rw [List.drop_take, hrest]; congr 1; omega
      rw [htake]
      have hplain : ∀ b ∈ rest.take k, special attr b = false := by
        rw [← hk]; exact take_findIdx_plain attr rest
      have hsplit : escBytes cfg attr rest = rest.take k ++ escBytes cfg attr (rest.drop k) := by
        conv => lhs; rw [← List.take_append_drop k rest]
        exact escBytes_plain_append cfg attr _ _ hplain
      by_cases hend : k + ss = bytes.length
      · have : rest.drop k = [] := by
          apply List.drop_eq_nil_of_le; omega
        simp [hend, hsplit, this, escBytes_nil]
      · have hne : ¬ ((k + ss == bytes.length) = true) := by simpa using hend
        simp only [hne]
        have hklt : k < rest.length := by omega
        have hget : bytes[k + ss]? = some rest[k] := by
          rw [← List.getElem?_eq_getElem hklt, ← hrest, List.getElem?_drop]; congr 1; omega
        have hspec : special attr rest[k] = true := by
          have := List.findIdx_getElem (xs := rest) (p := special attr) (w := by rw [hk]; exact hklt)
          simpa [hk] using this
        have hdrop : rest.drop k = rest[k] :: bytes.drop (k + ss + 1) := by
          rw [List.drop_eq_getElem_cons hklt]; congr 1
          rw [← hrest, List.drop_drop]; congr 1; omega
        have hget1 : bytes[k + ss + 1]? = (bytes.drop (k + ss + 1)).head? := by
          rw [List.head?_drop]
        rw [hget, hsplit, hdrop]
        generalize rest[k] = b at hspec
        generalize htl : bytes.drop (k + ss + 1) = tl at *
        have hfuel' : bytes.length - (k + ss + 1) < fuel := by omega
        have hle' : k + ss + 1 ≤ bytes.length := by omega
        simp only []
        rw [escBytes]
        by_cases h1 : (b == 0x26) = true
        · simp only [h1, if_true]; rw [ih _ _ hle' hfuel', htl]; simp
        simp only [h1, Bool.false_eq_true, if_false]
        by_cases h2 : (b == 0x22) = true
        · have ha : attr = true := by
            cases attr
            · simp [special] at hspec; simp_all
            · rfl
          subst ha
          simp only [h2, if_true, Bool.and_self]
          rw [ih _ _ hle' hfuel', htl]; simp
        have h2' : (b == 0x22 && attr) = false := by simp_all
        simp only [h2, Bool.false_eq_true, if_false]
        by_cases h3 : (b == 0x3C) = true
        · simp only [h3, if_true]; rw [ih _ _ hle' hfuel', htl]; simp
        simp only [h3, Bool.false_eq_true, if_false]
        by_cases h4 : (b == 0x3E) = true
        · simp only [h4, if_true]; rw [ih _ _ hle' hfuel', htl]; simp
        simp only [h4, Bool.false_eq_true, if_false]
        have h5 : (b == 0xC2) = true := by
          cases attr <;> simp_all [special]
        simp only [h5, if_true, Bool.true_and]
        rw [hget1]
        by_cases h6 : (tl.head? == some 0xA0) = true
        · simp only [h6, if_true]
          have hle'' : k + ss + 1 + 1 ≤ bytes.length := by
            have : tl ≠ [] := by intro h0; simp [h0] at h6
            have : 0 < tl.length := List.length_pos_iff.mpr this
            rw [← htl] at this; simp at this; omega
          rw [ih _ _ hle'' (by omega)]
          have : bytes.drop (k + ss + 1 + 1) = tl.tail := by
            rw [← htl, List.tail_drop]
          rw [this]; simp
        · simp only [h6]
          rw [ih _ _ hle' hfuel', htl]
          cases cfg.fixC2 <;> simp
    · have : ss = bytes.length := by omega
      simp [this, escBytes_nil]

/-- `write_escaped` never panics and appends exactly `escBytes` -/
theorem writeEscaped_eq (cfg : Cfg) (attr : Bool) (bytes out : Bytes) :
    writeEscaped cfg attr bytes out = .ok (out ++ escBytes cfg attr bytes) := by
  unfold writeEscaped
  rw [loop_eq cfg attr bytes _ 0 out (by omega) (by omega)]
  simp

/-! ### bytes of UTF-8 text -/

theorem ofNat_beq (n m : Nat) (hn : n < 256) (hm : m < 256) :
    ((UInt8.ofNat n) == (UInt8.ofNat m)) = decide (n = m) := by
  rw [Bool.eq_iff_iff]
  simp only [beq_iff_eq, decide_eq_true_eq]
  rw [← UInt8.toNat_inj, UInt8.toNat_ofNat', UInt8.toNat_ofNat']
  simp [Nat.mod_eq_of_lt hn, Nat.mod_eq_of_lt hm]

theorem special_ofNat (attr : Bool) (n : Nat) (hn : n < 256) :
    special attr (UInt8.ofNat n) =
      (decide (n = (if attr then 34 else 60)) || decide (n = 60) || decide (n = 62) || (decide (n = 38) || decide (n = 194))) := by
  unfold special
  have h34 : (UInt8.ofNat n == 0x22) = decide (n = 34) := ofNat_beq n 34 hn (by omega)
  have h60 : (UInt8.ofNat n == 0x3C) = decide (n = 60) := ofNat_beq n 60 hn (by omega)
  have h62 : (UInt8.ofNat n == 0x3E) = decide (n = 62) := ofNat_beq n 62 hn (by omega)
  have h38 : (UInt8.ofNat n == 0x26) = decide (n = 38) := ofNat_beq n 38 hn (by omega)
  have h194 : (UInt8.ofNat n == 0xC2) = decide (n = 194) := ofNat_beq n 194 hn (by omega)
  cases attr
  · simp only [Bool.false_eq_true, if_false]; rw [h60, h62, h38, h194]
  · simp only [if_true]; rw [h34, h60, h62, h38, h194]


theorem plain_ofNat (cfg attr) (n : Nat) (rest : Bytes) (hn : n < 256)
    (h : n ≠ 34 ∧ n ≠ 60 ∧ n ≠ 62 ∧ n ≠ 38 ∧ n ≠ 194) :
    escBytes cfg attr (UInt8.ofNat n :: rest) = UInt8.ofNat n :: escBytes cfg attr rest := by
  apply escBytes_plain
  rw [special_ofNat attr n hn]
  cases attr <;> simp <;> omega

theorem char_eq_iff (c : Char) (d : Char) : c = d ↔ c.toNat = d.toNat := Char.toNat_inj.symm

/-- characters whose escaping the code as it is gets wrong: U+0080 – U+00BF except U+00A0 -/
def c2Victim (c : Char) : Bool := decide (0x80 ≤ c.toNat ∧ c.toNat ≤ 0xBF ∧ c.toNat ≠ 0xA0)

theorem escBytes_char (cfg : Cfg) (attr : Bool) (c : Char) (rest : Bytes)
    (hok : cfg.fixC2 = true ∨ c2Victim c = false) :
    escBytes cfg attr (String.utf8EncodeChar c ++ rest)
      = utf8 (escChar attr c) ++ escBytes cfg attr rest := by
  have hv : c.val.toNat = c.toNat := rfl
  have hvalid : c.toNat < 0x110000 := by
    have := c.valid; rw [← hv]; cases this <;> simp_all <;> omega
  by_cases h38 : c.toNat = 38
  · have : c = '&' := (char_eq_iff c '&').mpr h38
    subst this
    rw [show String.utf8EncodeChar '&' = [UInt8.ofNat 38] from by decide,
        show escChar attr '&' = eAmp from by simp [escChar],
        show utf8 eAmp = bAmp from by decide, List.singleton_append, escBytes]
    simp
  by_cases h60 : c.toNat = 60
  · have : c = '<' := (char_eq_iff c '<').mpr h60
    subst this
    rw [show String.utf8EncodeChar '<' = [UInt8.ofNat 60] from by decide,
        show escChar attr '<' = eLt from by simp [escChar],
        show utf8 eLt = bLt from by decide, List.singleton_append, escBytes]
    simp
  by_cases h62 : c.toNat = 62
  · have : c = '>' := (char_eq_iff c '>').mpr h62
    subst this
    rw [show String.utf8EncodeChar '>' = [UInt8.ofNat 62] from by decide,
        show escChar attr '>' = eGt from by simp [escChar],
        show utf8 eGt = bGt from by decide, List.singleton_append, escBytes]
    simp
  by_cases h160 : c.toNat = 160
  · have : c = ' ' := (char_eq_iff c ' ').mpr h160
    subst this
    rw [show String.utf8EncodeChar ' ' = [UInt8.ofNat 194, UInt8.ofNat 160] from by decide,
        show escChar attr ' ' = eNbsp from by simp [escChar],
        show utf8 eNbsp = bNbsp from by decide, List.cons_append, List.cons_append, List.nil_append, escBytes]
    simp
  by_cases h34 : c.toNat = 34 ∧ attr = true
  · have : c = '"' := (char_eq_iff c '"').mpr h34.1
    subst this
    obtain ⟨_, rfl⟩ := h34
    rw [show String.utf8EncodeChar '"' = [UInt8.ofNat 34] from by decide,
        show escChar true '"' = eQuot from by simp [escChar],
        show utf8 eQuot = bQuot from by decide, List.singleton_append, escBytes]
    simp
  -- no escaping: the character is copied
  have hesc : escChar attr c = [c] := by
    unfold escChar
    rw [if_neg (by rw [char_eq_iff]; exact h38), if_neg (by rw [char_eq_iff]; exact h160),
        if_neg (by rw [char_eq_iff]; exact h60), if_neg (by rw [char_eq_iff]; exact h62),
        if_neg (by rw [char_eq_iff]; exact h34)]
  rw [hesc, show utf8 [c] = String.utf8EncodeChar c from by simp [utf8]]
  unfold String.utf8EncodeChar
  simp only [hv]
  have hvic : cfg.fixC2 = true ∨ ¬ (0x80 ≤ c.toNat ∧ c.toNat ≤ 0xBF ∧ c.toNat ≠ 0xA0) := by
    rcases hok with h | h
    · exact Or.inl h
    · right; simpa [c2Victim] using h
  generalize c.toNat = v at *
  by_cases c1 : v ≤ 127
  · simp only [c1, if_true, List.singleton_append]
    by_cases hq : v = 34
    · subst hq
      have ha : attr = false := by cases attr <;> simp_all
      subst ha
      apply escBytes_plain
      rw [special_ofNat false 34 (by omega)]; simp
    · exact plain_ofNat cfg attr v rest (by omega) (by omega)
  simp only [c1, if_false]
  by_cases c2 : v ≤ 2047
  · simp only [c2, if_true, List.cons_append, List.nil_append]
    by_cases hc2 : v / 64 % 32 + 192 = 194
    · -- lead byte 0xC2, not NBSP
      have hfix : cfg.fixC2 = true := by
        rcases hvic with h | h
        · exact h
        · exfalso; apply h; omega
      have hb2plain := plain_ofNat cfg attr (v % 64 + 128) rest (by omega) (by omega)
      have hb2ne : (UInt8.ofNat (v % 64 + 128) == (0xA0 : UInt8)) = false := by
        rw [show (UInt8.ofNat (v % 64 + 128) == (0xA0 : UInt8)) = decide (v % 64 + 128 = 160) from
          ofNat_beq _ 160 (by omega) (by omega)]
        simp; omega
      rw [hc2]
      generalize UInt8.ofNat (v % 64 + 128) = b2 at *
      rw [escBytes]
      simp [hb2ne, hfix, hb2plain]
    · rw [plain_ofNat cfg attr _ _ (by omega) (by omega), plain_ofNat cfg attr _ _ (by omega) (by omega)]
  simp only [c2, if_false]
  by_cases c3 : v ≤ 65535
  · simp only [c3, if_true, List.cons_append, List.nil_append]
    rw [plain_ofNat cfg attr _ _ (by omega) (by omega), plain_ofNat cfg attr _ _ (by omega) (by omega),
        plain_ofNat cfg attr _ _ (by omega) (by omega)]
  · simp only [c3, if_false, List.cons_append, List.nil_append]
    rw [plain_ofNat cfg attr _ _ (by omega) (by omega), plain_ofNat cfg attr _ _ (by omega) (by omega),
        plain_ofNat cfg attr _ _ (by omega) (by omega), plain_ofNat cfg attr _ _ (by omega) (by omega)]

theorem utf8_append (a b : List Char) : utf8 (a ++ b) = utf8 a ++ utf8 b := by
  simp [utf8]

theorem utf8_cons (c : Char) (s : List Char) : utf8 (c :: s) = String.utf8EncodeChar c ++ utf8 s := by
  simp [utf8]

/-- on UTF-8 input the byte function is UTF-8 of the character-level escape — for every string
once the 0xC2 defect is fixed, and for strings without U+0080–U+00BF (other than U+00A0) before -/
theorem escBytes_utf8 (cfg : Cfg) (attr : Bool) (s : List Char)
    (h : cfg.fixC2 = true ∨ ∀ c ∈ s, c2Victim c = false) :
    escBytes cfg attr (utf8 s) = utf8 (escape attr s) := by
  induction s with
  | nil => simp [utf8, escape, escBytes_nil]
  | cons c s ih =>
    rw [utf8_cons, escBytes_char cfg attr c _ (by
      rcases h with h | h
      · exact Or.inl h
      · exact Or.inr (h c (by simp)))]
    rw [ih (by
      rcases h with h | h
      · exact Or.inl h
      · exact Or.inr (fun x hx => h x (by simp [hx])))]
    simp [escape, utf8_append]

end H5V.Lemmas.HtmlSerEscape
