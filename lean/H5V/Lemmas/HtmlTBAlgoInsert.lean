import H5V.Lemmas.HtmlTBAlgoReconstruct
import H5V.Lemmas.HtmlTBAlgoNoah
/-!
(g) push onto the list of active formatting elements (Noah's Ark), (m) clear the list up to the last
marker, (k) insert a character / a comment, the `onlyAddToElementStack` form of (j), and "pop all the
nodes off the stack of open elements" of "stop parsing".
-/
namespace H5V.Lemmas.HtmlTBAlgo
open H5V.Model.HtmlTB
open H5V.Model.Dom (Id SinkOp Output Dom QualName Attr NodeOrText ElementFlags NodeData)
open H5V.Lemmas.Dom
open H5V.Lemmas.HtmlTBSpec (NamesOk toName)
open H5V.Spec.TreeAlgo2
open H5V.Spec.TreeAlgo (Name)

/-! ### (g) Noah's Ark -/

def cfTail (tag : Tag) : M Id := do
  let elem ← insertElement true nsHtml tag.name tag.attrs tag.hadDup
  modS fun s => { s with activeFormatting := s.activeFormatting ++ [.element elem tag] }
  pure elem

theorem createFormattingElementFor_eq (tag : Tag) :
    createFormattingElementFor tag = (do
      let ms := (afEndToMarker (← getS).activeFormatting).filter (fun (x : Nat × Id × Tag) => tag.equivModuloAttrOrder x.2.2)
      if ms.length ≥ 3 then
        match ms.getLast? with
        | some (i, _, _) => afRemove i "mod.rs:1530"
        | none => panicAt "matches-no-index" "mod.rs:1532" "expect(\"matches with no index\")"
      cfTail tag) := rfl

theorem tot_afRemove' (s : State) (i : Nat) (site : String) (hi : i < s.activeFormatting.length) :
    Tot (afRemove i site) s (fun _ s' calls =>
      s' = { s with activeFormatting := s.activeFormatting.eraseIdx i } ∧ calls = []) := by
  unfold afRemove
  refine tot_getS_bind ?_
  simp only [hi, if_true]
  unfold setAF
  exact tot_modS rfl rfl ⟨rfl, rfl⟩

/-- **(g)** `create_formatting_element_for(tag)`: the Noah's Ark clause on the list, "insert an HTML
element" for the token, and the push onto the list.  `af1`: the list after the Noah's Ark removal. -/
theorem tot_createFormattingElementFor (s : State) (tag : Tag) (hok : ElemsOk s.dom s.openElems)
    (hhead : HeadOk s.dom s.openElems) :
    Tot (createFormattingElementFor tag) s (fun elem s' calls => ∃ af1 L,
      s' = { s with openElems := s.openElems ++ [elem], activeFormatting := af1 ++ [.element elem tag],
                    dom := s'.dom, traceRev := s'.traceRev } ∧
      (af1 ++ [FormatEntry.element elem tag]).map entryOpt
        = Spec.TreeAlgo.noahPush sameEntry (s.activeFormatting.map entryOpt) (elem, tag) ∧
      s.dom.size ≤ elem ∧ s'.dom.isElement elem = true ∧ nameOf s'.dom elem = ⟨nsHtml, tag.name⟩ ∧
      (∀ tc, TcOk s.dom tc → edits calls = L.map (editCall tc)) ∧
      ∀ rest log0, insertHtmlElement tagCtx (absState { s with activeFormatting := af1 } (elem :: rest) log0) tag
        = some ({ absState { s with activeFormatting := af1 } rest (log0 ++ L) with
                    stack := absStack s.dom s.openElems ++ [⟨elem, ⟨nsHtml, tag.name⟩⟩] }, ⟨elem, ⟨nsHtml, tag.name⟩⟩)) := by
  -- the tail, run on the list `af1`
  have htail : ∀ (s1 : State) (af1 : List FormatEntry), s1 = { s with activeFormatting := af1 } →
      (∀ new, (af1 ++ [FormatEntry.element new tag]).map entryOpt
        = Spec.TreeAlgo.noahPush sameEntry (s.activeFormatting.map entryOpt) (new, tag)) →
      Tot (cfTail tag) s1 (fun elem s' calls => ∃ af1 L,
        s' = { s with openElems := s.openElems ++ [elem], activeFormatting := af1 ++ [.element elem tag],
                      dom := s'.dom, traceRev := s'.traceRev } ∧
        (af1 ++ [FormatEntry.element elem tag]).map entryOpt
          = Spec.TreeAlgo.noahPush sameEntry (s.activeFormatting.map entryOpt) (elem, tag) ∧
        s.dom.size ≤ elem ∧ s'.dom.isElement elem = true ∧ nameOf s'.dom elem = ⟨nsHtml, tag.name⟩ ∧
        (∀ tc, TcOk s.dom tc → edits calls = L.map (editCall tc)) ∧
        ∀ rest log0, insertHtmlElement tagCtx (absState { s with activeFormatting := af1 } (elem :: rest) log0) tag
          = some ({ absState { s with activeFormatting := af1 } rest (log0 ++ L) with
                      stack := absStack s.dom s.openElems ++ [⟨elem, ⟨nsHtml, tag.name⟩⟩] }, ⟨elem, ⟨nsHtml, tag.name⟩⟩)) := by
    intro s1 af1 hs1 hnoah
    have hdom1 : s1.dom = s.dom := by rw [hs1]
    have hopen1 : s1.openElems = s.openElems := by rw [hs1]
    unfold cfTail
    refine tot_bind (tot_conseq (tot_insertElement_spec s1 true nsHtml tag (by rw [hdom1, hopen1]; exact hok)
      (by rw [hdom1, hopen1]; exact hhead)) fun elem s2 c2 _ ⟨hs2, hfresh, hel, hnm, L, hL, hspec⟩ => ?_)
    refine tot_bind (tot_modS rfl rfl ?_)
    refine tot_pure ⟨af1, L, ?_, hnoah elem, by rw [← hdom1]; exact hfresh, hel, hnm, ?_, ?_⟩
    · rw [hs2]; simp only [if_true]; rw [hs1]
    · intro tc htc; simpa using hL tc (by rw [hdom1]; exact htc)
    · intro rest log0
      have := hspec rest log0
      unfold insertHtmlElement
      rw [nsHtml_eq]
      rw [hs1] at this
      exact this
  rw [createFormattingElementFor_eq]
  refine tot_getS_bind ?_
  simp only []
  by_cases h3 : ((afEndToMarker s.activeFormatting).filter (fun (x : Nat × Id × Tag) => tag.equivModuloAttrOrder x.2.2)).length ≥ 3
  · simp only [h3, if_true]
    obtain ⟨i, h, t, hl, hi, _, _⟩ := noah_list_ge s.activeFormatting tag 0 h3
    rw [hl]
    simp only []
    refine tot_bind (tot_conseq (tot_afRemove' s i "mod.rs:1530" hi) fun _ s1 c1 _ ⟨hs1, hc1⟩ => ?_)
    subst hc1
    refine htail s1 (s.activeFormatting.eraseIdx i) hs1 ?_
    intro new
    obtain ⟨i', h', t', hl', _, _, heq⟩ := noah_list_ge s.activeFormatting tag new h3
    rw [hl] at hl'; cases hl'
    exact heq
  · simp only [h3, if_false]
    refine htail s s.activeFormatting rfl ?_
    intro new
    exact noah_list_lt s.activeFormatting tag new (by omega)

/-! ### (m) clear the list of active formatting elements up to the last marker -/

theorem tot_clearActiveFormattingToMarker (s : State) :
    Tot clearActiveFormattingToMarker s (fun _ s' calls => calls = [] ∧ ∃ af',
      s' = { s with activeFormatting := af' } ∧ absList af' = clearToLastMarker (absList s.activeFormatting)) := by
  unfold clearActiveFormattingToMarker
  exact tot_modS rfl rfl ⟨rfl, _, rfl, clearToMarker_eq s.activeFormatting⟩

/-! ### (k) insert a character, insert a comment -/

theorem tot_insertAppropriately (s : State) (child : NodeOrText) (ov : Option Id) (hok : ElemsOk s.dom s.openElems)
    (hov : ∀ t, ov = some t → s.dom.isElement t = true) (place : Place Id)
    (hspec : appropriatePlace (absStack s.dom s.openElems) s.fosterParenting (ov.map (elemOf s.dom)) = some place) :
    Tot (insertAppropriately child ov) s (fun _ s' calls => SameTB s s' ∧
      edits calls = [(insertOp (ipOf (tcOf s.dom) place) child, .unit)]) := by
  unfold insertAppropriately
  refine tot_query_bind (tot_appropriatePlace s ov hok hov place hspec) fun s1 c1 _ hs1 hc1 => ?_
  refine tot_conseq (tot_insertAt s1 _ child) fun _ s2 c2 _ ⟨hs2, hc2⟩ => ?_
  refine ⟨hs1.trans hs2, ?_⟩
  rw [edits_append, hc1, hc2]
  cases h : ipOf (tcOf s.dom) place <;> simp [edits, insertOp, isEdit]

/-- **(k)** `append_text` is "insert a character" -/
theorem tot_appendText (s : State) (text : Str) (hok : ElemsOk s.dom s.openElems) (hhead : HeadOk s.dom s.openElems) :
    Tot (appendText text) s (fun r s' calls => r = .done ∧ SameTB s s' ∧ ∃ L,
      edits calls = L.map (editCall (tcOf s.dom)) ∧
      ∀ sup log0, insertCharacters (absState s sup log0) text = some (absState s sup (log0 ++ L))) := by
  obtain ⟨h0, hh0, hnt, _⟩ := hhead
  obtain ⟨place, hplace, _⟩ := appropriatePlace_some (absStack s.dom s.openElems) s.fosterParenting none
    (elemOf s.dom h0) (by rw [absStack_head?, hh0]; rfl) hnt
  unfold appendText
  refine tot_bind (tot_conseq (tot_insertAppropriately s (.text text) none hok (by simp) place hplace)
    fun _ s1 c1 _ ⟨hs1, hc1⟩ => ?_)
  refine tot_pure ⟨rfl, hs1, [Edit.insertText place text], by simpa [editCall] using hc1, ?_⟩
  intro sup log0
  have h1 : appropriatePlace (absState s sup log0).stack (absState s sup log0).fosterParenting none = some place := hplace
  simp only [insertCharacters, h1, Option.map_some]
  rfl

theorem tot_createComment (s : State) (text : Str) :
    Tot (sinkNode (.createComment text)) s (fun c s' calls => SameTB s s' ∧ calls = [(.createComment text, .node c)] ∧
      s.dom.size ≤ c) := by
  unfold sinkNode
  refine tot_bind (tot_sink trivial ?_)
  intro d' out ha
  have : out = .node s.dom.size := by
    unfold Dom.apply Dom.applyV at ha
    simp only [Dom.createComment, Dom.alloc] at ha
    cases ha; rfl
  subst this
  exact tot_pure ⟨SameTB.afterCall .., rfl, Nat.le_refl _⟩

/-- **(k)** `append_comment` is "insert a comment" (at the appropriate place) -/
theorem tot_appendComment (s : State) (text : Str) (hok : ElemsOk s.dom s.openElems) (hhead : HeadOk s.dom s.openElems) :
    Tot (appendComment text) s (fun r s' calls => r = .done ∧ SameTB s s' ∧ ∃ c L, s.dom.size ≤ c ∧
      edits calls = L.map (editCall (tcOf s.dom)) ∧
      ∀ rest log0, insertComment (absState s (c :: rest) log0) text = some (absState s rest (log0 ++ L))) := by
  obtain ⟨h0, hh0, hnt, _⟩ := hhead
  obtain ⟨place, hplace, _⟩ := appropriatePlace_some (absStack s.dom s.openElems) s.fosterParenting none
    (elemOf s.dom h0) (by rw [absStack_head?, hh0]; rfl) hnt
  unfold appendComment
  refine tot_bind (tot_conseq (tot_createComment s text) fun c s1 c1 he1 ⟨hs1, hc1, hfresh⟩ => ?_)
  subst hc1
  have hst1 := he1.stable
  have hplace1 : appropriatePlace (absStack s1.dom s1.openElems) s1.fosterParenting ((none : Option Id).map (elemOf s1.dom)) = some place := by
    rw [hs1.openElems, hs1.fosterParenting, absStack_stable hok hst1]; exact hplace
  refine tot_bind (tot_conseq (tot_insertAppropriately s1 (.node c) none (by rw [hs1.openElems]; exact hok.stable hst1)
    (by simp) place hplace1) fun _ s2 c2 _ ⟨hs2, hc2⟩ => ?_)
  refine tot_pure ⟨rfl, hs1.trans hs2, c, [Edit.createComment c text, Edit.insert place c], hfresh, ?_, ?_⟩
  · simp only [List.append_nil, edits_append, hc2, List.map_cons, List.map_nil, editCall]
    have htc : ipOf (tcOf s1.dom) place = ipOf (tcOf s.dom) place := by
      cases place with
      | lastChildOf x => rfl
      | foster t p => rfl
      | inTemplateContentsOf x =>
        simp only [ipOf]
        -- the node is on the stack
        obtain ⟨place', hp', hn'⟩ := appropriatePlace_some (absStack s.dom s.openElems) s.fosterParenting none
          (elemOf s.dom h0) (by rw [absStack_head?, hh0]; rfl) hnt
        rw [hplace] at hp'; cases hp'
        rcases hn' x (by simp [placeNodes]) with hm | ⟨t, ht, _⟩
        · rw [absStack_ids] at hm; rw [tcOf_stable hst1 (hok x hm)]
        · cases ht
    rw [htc]
    simp [edits, isEdit]
  · intro rest log0
    have h1 : appropriatePlace (absState s (c :: rest) log0).stack (absState s (c :: rest) log0).fosterParenting none = some place := hplace
    simp only [insertComment, h1, Option.bind_some, PState.newNode]
    rfl

theorem tot_sinkUnit_unit' {op : SinkOp} (s : State) (ht : Tame op)
    (hu : ∀ d d' out, Dom.apply d op = .ok (d', out) → out = .unit) :
    Tot (sinkUnit op) s (fun _ s' calls => SameTB s s' ∧ calls = [(op, .unit)]) := by
  refine tot_conseq (tot_sinkUnit s ht) fun _ s' calls _ ⟨d', out, ha, hs, hc⟩ => ?_
  have := hu _ _ _ ha
  subst this
  exact ⟨hs ▸ SameTB.afterCall .., hc⟩

theorem unit_append' (p : Id) (c : NodeOrText) : ∀ d d' out, Dom.apply d (.append p c) = .ok (d', out) → out = .unit :=
  fun _ _ _ h => apply_insertOp_out (ip := .lastChild p) h

/-- `append_comment_to_doc` / `append_comment_to_html`: "insert a comment" as the last child of the
`Document` object / of the first element of the stack -/
theorem tot_appendCommentToDoc (s : State) (text : Str) :
    Tot (appendCommentToDoc text) s (fun r s' calls => r = .done ∧ SameTB s s' ∧ ∃ c L, s.dom.size ≤ c ∧
      edits calls = L.map (editCall (tcOf s.dom)) ∧
      ∀ rest log0, insertCommentAsLastChildOf (absState s (c :: rest) log0) s.docHandle text
        = some (absState s rest (log0 ++ L))) := by
  unfold appendCommentToDoc
  refine tot_bind (tot_conseq (tot_createComment s text) fun c s1 c1 _ ⟨hs1, hc1, hfresh⟩ => ?_)
  subst hc1
  refine tot_getS_bind ?_
  have hdoc : s1.docHandle = s.docHandle := by unfold SameTB at hs1; rw [hs1]
  rw [hdoc]
  refine tot_bind (tot_conseq (tot_sinkUnit_unit' s1 trivial (unit_append' s.docHandle (.node c))) fun _ s2 c2 _ ⟨hs2, hc2⟩ => ?_)
  subst hc2
  refine tot_pure ⟨rfl, hs1.trans hs2, c, [Edit.createComment c text, Edit.insert (.lastChildOf s.docHandle) c], hfresh, ?_, ?_⟩
  · simp [edits, isEdit, editCall, ipOf, insertOp]
  · intro rest log0
    simp only [insertCommentAsLastChildOf, PState.newNode, Option.map_some]
    rfl

theorem tot_htmlElemFn {s : State} {h : Id} (hh : s.openElems.head? = some h) : Tot htmlElemFn s (QueryQ s h) := by
  unfold htmlElemFn
  refine tot_getS_bind ?_
  simp only [hh]
  exact tot_pure ⟨rfl, SameTB.refl s, rfl⟩

theorem tot_appendCommentToHtml (s : State) (text : Str) (h0 : Id) (hh : s.openElems.head? = some h0) :
    Tot (appendCommentToHtml text) s (fun r s' calls => r = .done ∧ SameTB s s' ∧ ∃ c L, s.dom.size ≤ c ∧
      edits calls = L.map (editCall (tcOf s.dom)) ∧
      ∀ rest log0, insertCommentAsLastChildOf (absState s (c :: rest) log0) h0 text
        = some (absState s rest (log0 ++ L))) := by
  unfold appendCommentToHtml
  refine tot_query_bind (tot_htmlElemFn hh) fun s0 c0 he0 hs0 hc0 => ?_
  refine tot_bind (tot_conseq (tot_createComment s0 text) fun c s1 c1 _ ⟨hs1, hc1, hfresh⟩ => ?_)
  subst hc1
  refine tot_bind (tot_conseq (tot_sinkUnit_unit' s1 trivial (unit_append' h0 (.node c))) fun _ s2 c2 _ ⟨hs2, hc2⟩ => ?_)
  subst hc2
  refine tot_pure ⟨rfl, (hs0.trans hs1).trans hs2, c, [Edit.createComment c text, Edit.insert (.lastChildOf h0) c],
    Nat.le_trans he0.stable.size hfresh, ?_, ?_⟩
  · rw [edits_append, hc0]
    simp [edits, isEdit, editCall, ipOf, insertOp]
  · intro rest log0
    simp only [insertCommentAsLastChildOf, PState.newNode, Option.map_some]
    rfl

/-! ### (j) with *onlyAddToElementStack* -/

/-- `insert_foreign_element(tag, ns, only_add_to_element_stack)` is "insert a foreign element" for
element types that are not form-associated (html5ever does not run the form-association step here; it
uses the function for `template` only) -/
theorem tot_insertForeignElement (s : State) (tag : Tag) (ns : Str) (onlyAdd : Bool) (hok : ElemsOk s.dom s.openElems)
    (hhead : HeadOk s.dom s.openElems)
    (hnf : Spec.TreeAlgo.inHtml formAssociatedElements ⟨ns, tag.name⟩ = false) :
    Tot (H5V.Model.HtmlTB.insertForeignElement tag ns onlyAdd) s (fun elem s' calls => ∃ L,
      s' = { s with openElems := s.openElems ++ [elem], dom := s'.dom, traceRev := s'.traceRev } ∧
      s.dom.size ≤ elem ∧ s'.dom.isElement elem = true ∧ nameOf s'.dom elem = ⟨ns, tag.name⟩ ∧
      edits calls = L.map (editCall (tcOf s.dom)) ∧
      ∀ rest log0, Spec.TreeAlgo2.insertForeignElement tagCtx (absState s (elem :: rest) log0) tag ns onlyAdd
        = some ({ absState s rest (log0 ++ L) with
                    stack := absStack s.dom s.openElems ++ [⟨elem, ⟨ns, tag.name⟩⟩] }, ⟨elem, ⟨ns, tag.name⟩⟩)) := by
  obtain ⟨h0, hh0, hnt, _⟩ := hhead
  obtain ⟨place, hplace, _⟩ := appropriatePlace_some (absStack s.dom s.openElems) s.fosterParenting none
    (elemOf s.dom h0) (by rw [absStack_head?, hh0]; rfl) hnt
  unfold H5V.Model.HtmlTB.insertForeignElement
  refine tot_query_bind (tot_appropriatePlace s none hok (by simp) place hplace) fun s1 c1 he1 hs1 hc1 => ?_
  refine tot_bind (tot_conseq (tot_createElementWithFlags s1 ns tag) fun elem s2 c2 he2 ⟨hs2, hc2, hfresh, hel, hnm⟩ => ?_)
  subst hc2
  have hspec : ∀ (ins : List (Edit Id Tag)) rest log0, ins = (if onlyAdd then [] else [Edit.insert place elem]) →
      Spec.TreeAlgo2.insertForeignElement tagCtx (absState s (elem :: rest) log0) tag ns onlyAdd
        = some ({ absState s rest (log0 ++ ([Edit.create elem ns tag] ++ ins)) with
                    stack := absStack s.dom s.openElems ++ [⟨elem, ⟨ns, tag.name⟩⟩] }, ⟨elem, ⟨ns, tag.name⟩⟩) := by
    intro ins rest log0 hins
    unfold Spec.TreeAlgo2.insertForeignElement
    simp only [absState, hplace, Option.bind_some, PState.newNode, Option.map_some]
    have : associatesWithForm ⟨ns, tagCtx.tokName tag⟩ (tagCtx.tokHasFormAttr tag) true
        ((absStack s.dom s.openElems).any fun e => e.name.isHtml "template") = false := by
      unfold associatesWithForm; rw [show tagCtx.tokName tag = tag.name from rfl, hnf]; rfl
    cases s.formElem with
    | none => simp [hins]; rfl
    | some f => simp only [this, Bool.false_eq_true, if_false]; simp [hins]; rfl
  have hS2 : SameTB s s2 := hs1.trans hs2
  by_cases ho : onlyAdd = true
  · subst ho
    simp only [Bool.not_true, Bool.false_eq_true, if_false]
    refine tot_bind (tot_conseq (tot_push s2 elem) fun _ s3 c3 _ ⟨hs3, hc3⟩ => ?_)
    subst hc3
    refine tot_pure ⟨[Edit.create elem ns tag], ?_, Nat.le_trans he1.stable.size hfresh, ?_, ?_, ?_, ?_⟩
    · rw [hs3, hS2.openElems]; unfold SameTB at hS2; rw [hS2]
    · rw [hs3]; exact hel
    · rw [hs3]; exact hnm
    · rw [edits_append, hc1]
      simp [edits, isEdit, editCall, createCall]
    · intro rest log0
      have := hspec [] rest log0 (by simp)
      simpa using this
  · have ho' : onlyAdd = false := by simpa using ho
    subst ho'
    simp only [Bool.not_false, if_true]
    refine tot_bind (tot_conseq (tot_insertAt s2 _ (.node elem)) fun _ s3 c3 he3 ⟨hs3, hc3⟩ => ?_)
    subst hc3
    refine tot_bind (tot_conseq (tot_push s3 elem) fun _ s4 c4 _ ⟨hs4, hc4⟩ => ?_)
    subst hc4
    have hS3 : SameTB s s3 := hS2.trans hs3
    refine tot_pure ⟨[Edit.create elem ns tag, Edit.insert place elem], ?_, Nat.le_trans he1.stable.size hfresh, ?_, ?_, ?_, ?_⟩
    · rw [hs4, hS3.openElems]; unfold SameTB at hS3; rw [hS3]
    · rw [hs4]; exact isElement_stable he3.stable hel
    · rw [hs4]; show nameOf s3.dom elem = _; rw [nameOf_stable he3.stable hel]; exact hnm
    · simp only [edits_append, hc1, List.nil_append, List.append_nil, List.map_cons, List.map_nil, editCall]
      have e1 : ∀ c : Call, isEdit c.1 = true → edits [c] = [c] := by
        intro c hc; simp [edits, hc]
      have e2 : ∀ (ip : InsertionPoint) (ch : NodeOrText), isEdit (insertOp ip ch) = true := by
        intro ip ch; cases ip <;> rfl
      rw [e1 _ rfl, e1 _ (e2 _ _)]; rfl
    · intro rest log0
      have := hspec [Edit.insert place elem] rest log0 (by simp)
      simpa using this

/-! ### "stop parsing": pop all the nodes off the stack of open elements -/

theorem tot_endLoop : ∀ (l : List Id) (s : State), Tot (endLoop l) s (fun _ s' calls => SameTB s s' ∧ edits calls = []) := by
  intro l
  induction l with
  | nil => intro s; exact tot_pure ⟨SameTB.refl _, rfl⟩
  | cons e rest ih =>
    intro s
    unfold endLoop
    refine tot_bind (tot_conseq (tot_sinkUnit s trivial) fun _ s1 c1 _ ⟨d', out, _, hs1, hc1⟩ => ?_)
    refine tot_conseq (ih s1) fun _ s2 c2 _ ⟨hs2, hc2⟩ => ⟨?_, ?_⟩
    · exact (hs1 ▸ SameTB.afterCall ..).trans hs2
    · rw [edits_append, hc2, hc1]; rfl

/-- `TokenSink::end`: every node is popped off the stack of open elements (the sink is told, no DOM
operation is made) -/
theorem tot_finishTB (s : State) :
    Tot finishTB s (fun _ s' calls => s' = { s with openElems := [], dom := s'.dom, traceRev := s'.traceRev } ∧
      edits calls = []) := by
  unfold finishTB
  refine tot_getS_bind ?_
  refine tot_bind (tot_modS rfl rfl ?_)
  refine tot_conseq (tot_endLoop s.openElems.reverse _) fun _ s2 c2 _ ⟨hs2, hc2⟩ => ⟨?_, by simpa using hc2⟩
  unfold SameTB at hs2; rw [hs2]

end H5V.Lemmas.HtmlTBAlgo
