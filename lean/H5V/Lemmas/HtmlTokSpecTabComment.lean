import H5V.Lemmas.HtmlTokSpecTac
set_option linter.unusedSimpArgs false
set_option linter.unusedVariables false
/-!
# C01 simulation — table lemmas (`TabOk`) for the comment states and the CDATA section states

One theorem per state of the model's `transChar`: the specification, reading the same character,
reaches a configuration related (`RegCore`) to the model's result. `tab_comment_cdata` dispatches.
-/
namespace H5V.Lemmas.HtmlTokSpec
open H5V.Model.HtmlTok
open H5V.Spec.HtmlTokenizer (St Tok Emit Tree Switch Ctl ReturnSt)

set_option maxHeartbeats 1600000 in
/-- 13.2.5.43 Comment start state (on `<` and on anything else the specification reconsumes in the comment state: two steps) -/
theorem tab_commentStart (o : Opts) (ho : o.exactErrors = false) (pol : Pol) (tree : Tree)
    (m : Mach) (t : Tok) (c : Char) (rest : Str) (h : RegCore m t) (hr : m.reconsume = false)
    (hs : m.state = .commentStart) : TabOk tree t c rest (transChar o pol m c) := by
  tab_state h hs c ['-', '\x00', '>', '<']

set_option maxHeartbeats 1600000 in
/-- 13.2.5.44 Comment start dash state -/
theorem tab_commentStartDash (o : Opts) (ho : o.exactErrors = false) (pol : Pol) (tree : Tree)
    (m : Mach) (t : Tok) (c : Char) (rest : Str) (h : RegCore m t) (hr : m.reconsume = false)
    (hs : m.state = .commentStartDash) : TabOk tree t c rest (transChar o pol m c) := by
  tab_state h hs c ['-', '\x00', '>', '<']

set_option maxHeartbeats 1600000 in
/-- 13.2.5.45 Comment state; the specification may also be in the comment less-than sign (bang) state (`altSt`) -/
theorem tab_comment (o : Opts) (ho : o.exactErrors = false) (pol : Pol) (tree : Tree)
    (m : Mach) (t : Tok) (c : Char) (rest : Str) (h : RegCore m t) (hr : m.reconsume = false)
    (hs : m.state = .comment) : TabOk tree t c rest (transChar o pol m c) := by
  tab_state h hs c ['<', '-', '\x00', '!']

set_option maxHeartbeats 1600000 in
/-- 13.2.5.46 Comment less-than sign state -/
theorem tab_commentLessThanSign (o : Opts) (ho : o.exactErrors = false) (pol : Pol) (tree : Tree)
    (m : Mach) (t : Tok) (c : Char) (rest : Str) (h : RegCore m t) (hr : m.reconsume = false)
    (hs : m.state = .commentLessThanSign) : TabOk tree t c rest (transChar o pol m c) := by
  tab_state h hs c ['!', '<']

set_option maxHeartbeats 1600000 in
/-- 13.2.5.47 Comment less-than sign bang state -/
theorem tab_commentLessThanSignBang (o : Opts) (ho : o.exactErrors = false) (pol : Pol) (tree : Tree)
    (m : Mach) (t : Tok) (c : Char) (rest : Str) (h : RegCore m t) (hr : m.reconsume = false)
    (hs : m.state = .commentLessThanSignBang) : TabOk tree t c rest (transChar o pol m c) := by
  tab_state h hs c ['-']

set_option maxHeartbeats 1600000 in
/-- 13.2.5.48 Comment less-than sign bang dash state -/
theorem tab_commentLessThanSignBangDash (o : Opts) (ho : o.exactErrors = false) (pol : Pol) (tree : Tree)
    (m : Mach) (t : Tok) (c : Char) (rest : Str) (h : RegCore m t) (hr : m.reconsume = false)
    (hs : m.state = .commentLessThanSignBangDash) : TabOk tree t c rest (transChar o pol m c) := by
  tab_state h hs c ['-']

set_option maxHeartbeats 1600000 in
/-- 13.2.5.49 Comment less-than sign bang dash dash state -/
theorem tab_commentLessThanSignBangDashDash (o : Opts) (ho : o.exactErrors = false) (pol : Pol) (tree : Tree)
    (m : Mach) (t : Tok) (c : Char) (rest : Str) (h : RegCore m t) (hr : m.reconsume = false)
    (hs : m.state = .commentLessThanSignBangDashDash) : TabOk tree t c rest (transChar o pol m c) := by
  tab_state h hs c ['>']

set_option maxHeartbeats 1600000 in
/-- 13.2.5.50 Comment end dash state; the specification may also be in the comment less-than sign bang dash state -/
theorem tab_commentEndDash (o : Opts) (ho : o.exactErrors = false) (pol : Pol) (tree : Tree)
    (m : Mach) (t : Tok) (c : Char) (rest : Str) (h : RegCore m t) (hr : m.reconsume = false)
    (hs : m.state = .commentEndDash) : TabOk tree t c rest (transChar o pol m c) := by
  tab_state h hs c ['-', '\x00', '<']

set_option maxHeartbeats 1600000 in
/-- 13.2.5.51 Comment end state; the specification may also be in the comment less-than sign bang dash dash state -/
theorem tab_commentEnd (o : Opts) (ho : o.exactErrors = false) (pol : Pol) (tree : Tree)
    (m : Mach) (t : Tok) (c : Char) (rest : Str) (h : RegCore m t) (hr : m.reconsume = false)
    (hs : m.state = .commentEnd) : TabOk tree t c rest (transChar o pol m c) := by
  tab_state h hs c ['>', '!', '-', '<', '\x00']

set_option maxHeartbeats 1600000 in
/-- 13.2.5.52 Comment end bang state -/
theorem tab_commentEndBang (o : Opts) (ho : o.exactErrors = false) (pol : Pol) (tree : Tree)
    (m : Mach) (t : Tok) (c : Char) (rest : Str) (h : RegCore m t) (hr : m.reconsume = false)
    (hs : m.state = .commentEndBang) : TabOk tree t c rest (transChar o pol m c) := by
  tab_state h hs c ['-', '>', '\x00', '<']

set_option maxHeartbeats 1600000 in
/-- 13.2.5.41 Bogus comment state -/
theorem tab_bogusComment (o : Opts) (ho : o.exactErrors = false) (pol : Pol) (tree : Tree)
    (m : Mach) (t : Tok) (c : Char) (rest : Str) (h : RegCore m t) (hr : m.reconsume = false)
    (hs : m.state = .bogusComment) : TabOk tree t c rest (transChar o pol m c) := by
  tab_state h hs c ['>', '\x00']

set_option maxHeartbeats 1600000 in
/-- 13.2.5.69 CDATA section state (the model collects the text in `tempBuf`: `cdataBuf` in `OutRel`) -/
theorem tab_cdataSection (o : Opts) (ho : o.exactErrors = false) (pol : Pol) (tree : Tree)
    (m : Mach) (t : Tok) (c : Char) (rest : Str) (h : RegCore m t) (hr : m.reconsume = false)
    (hs : m.state = .cdataSection) : TabOk tree t c rest (transChar o pol m c) := by
  tab_state h hs c [']', '\x00']

set_option maxHeartbeats 1600000 in
/-- 13.2.5.70 CDATA section bracket state -/
theorem tab_cdataSectionBracket (o : Opts) (ho : o.exactErrors = false) (pol : Pol) (tree : Tree)
    (m : Mach) (t : Tok) (c : Char) (rest : Str) (h : RegCore m t) (hr : m.reconsume = false)
    (hs : m.state = .cdataSectionBracket) : TabOk tree t c rest (transChar o pol m c) := by
  tab_state h hs c [']', '\x00']

set_option maxHeartbeats 1600000 in
/-- 13.2.5.71 CDATA section end state -/
theorem tab_cdataSectionEnd (o : Opts) (ho : o.exactErrors = false) (pol : Pol) (tree : Tree)
    (m : Mach) (t : Tok) (c : Char) (rest : Str) (h : RegCore m t) (hr : m.reconsume = false)
    (hs : m.state = .cdataSectionEnd) : TabOk tree t c rest (transChar o pol m c) := by
  tab_state h hs c [']', '>', '\x00']

/-- the comment and CDATA section states together -/
theorem tab_comment_cdata (o : Opts) (ho : o.exactErrors = false) (pol : Pol) (tree : Tree)
    (m : Mach) (t : Tok) (c : Char) (rest : Str) (h : RegCore m t) (hr : m.reconsume = false)
    (hs : m.state = .commentStart ∨ m.state = .commentStartDash ∨ m.state = .comment ∨ m.state = .commentLessThanSign ∨
          m.state = .commentLessThanSignBang ∨ m.state = .commentLessThanSignBangDash ∨
          m.state = .commentLessThanSignBangDashDash ∨ m.state = .commentEndDash ∨ m.state = .commentEnd ∨
          m.state = .commentEndBang ∨ m.state = .bogusComment ∨ m.state = .cdataSection ∨
          m.state = .cdataSectionBracket ∨ m.state = .cdataSectionEnd) :
    TabOk tree t c rest (transChar o pol m c) := by
  rcases hs with hs | hs | hs | hs | hs | hs | hs | hs | hs | hs | hs | hs | hs | hs
  · exact tab_commentStart o ho pol tree m t c rest h hr hs
  · exact tab_commentStartDash o ho pol tree m t c rest h hr hs
  · exact tab_comment o ho pol tree m t c rest h hr hs
  · exact tab_commentLessThanSign o ho pol tree m t c rest h hr hs
  · exact tab_commentLessThanSignBang o ho pol tree m t c rest h hr hs
  · exact tab_commentLessThanSignBangDash o ho pol tree m t c rest h hr hs
  · exact tab_commentLessThanSignBangDashDash o ho pol tree m t c rest h hr hs
  · exact tab_commentEndDash o ho pol tree m t c rest h hr hs
  · exact tab_commentEnd o ho pol tree m t c rest h hr hs
  · exact tab_commentEndBang o ho pol tree m t c rest h hr hs
  · exact tab_bogusComment o ho pol tree m t c rest h hr hs
  · exact tab_cdataSection o ho pol tree m t c rest h hr hs
  · exact tab_cdataSectionBracket o ho pol tree m t c rest h hr hs
  · exact tab_cdataSectionEnd o ho pol tree m t c rest h hr hs

end H5V.Lemmas.HtmlTokSpec
