import H5V.Lemmas.XmlTokChunk
/-!
`step` respects the dead-`current_char` simulation; big-step runs; the chunk-merging theorem for the
XML tokenizer model (port of `H5V.Lemmas.HtmlTokRuns`).
-/
namespace H5V.Model.XmlTok

/-! ### `step` respects `Sim` -/

theorem preprocess_setCC (o : Opts) (m : Mach) (a x : Char) (xs : Str) :
    preprocess o (m.setCurrentChar a) x xs =
      match preprocess o m x xs with
      | (some c, m', i') => (some c, m', i')
      | (none, m', i') => (none, m'.setCurrentChar a, i') := by
  unfold preprocess
  simp only [setCurrentChar_ignoreLf, setIgnoreLf_setCurrentChar, foldChar_setCurrentChar]
  repeat' split
  all_goals simp_all

theorem getChar_setCC (o : Opts) (m : Mach) (a : Char) (inp : Str) (hr : m.reconsume = false) :
    getChar o (m.setCurrentChar a) inp =
      match getChar o m inp with
      | (some c, m', i') => (some c, m', i')
      | (none, m', i') => (none, m'.setCurrentChar a, i') := by
  unfold getChar
  simp only [setCurrentChar_reconsume, hr, Bool.false_eq_true, ↓reduceIte]
  cases inp with
  | nil => rfl
  | cons x xs => exact preprocess_setCC o m a x xs

/-- how a read result relates when only the (dead) `current_char` differs -/
def liftSetCC (a : Char) (r : Option SetRes × Mach × Str) : Option SetRes × Mach × Str :=
  match r with
  | (some (.fromSet c), m', i') => (some (.fromSet c), m', i')
  | (some (.notFromSet b), m', i') => (some (.notFromSet b), m'.setCurrentChar a, i')
  | (none, m', i') => (none, m'.setCurrentChar a, i')

theorem popExceptFrom_setCC (o : Opts) (S : List Char) (m : Mach) (a : Char) (inp : Str)
    (hr : m.reconsume = false) :
    popExceptFrom o S (m.setCurrentChar a) inp = liftSetCC a (popExceptFrom o S m inp) := by
  unfold popExceptFrom
  simp only [setCurrentChar_reconsume, setCurrentChar_ignoreLf]
  split
  · rw [getChar_setCC o m a inp hr]
    cases hg : getChar o m inp with
    | mk c r => obtain ⟨m1, i1⟩ := r; cases c <;> simp [liftSetCC]
  · cases inp with
    | nil => simp [liftSetCC]
    | cons x xs =>
      simp only
      split
      · rw [preprocess_setCC]
        cases hg : preprocess o m x xs with
        | mk c r => obtain ⟨m1, i1⟩ := r; cases c <;> simp [liftSetCC]
      · simp [liftSetCC]

theorem deadCC_of_fields {m m1 : Mach} (hd : deadCC m) (h1 : m1.state = m.state)
    (h2 : m1.reconsume = false) (h3 : m1.charRef = m.charRef) : deadCC m1 :=
  ⟨h2, by rw [h3]; exact hd.2.1, by rw [h1]; exact hd.2.2⟩

/-- **`step` respects the simulation** -/
theorem step_sim (o : Opts) (m1 m2 : Mach) (inp : Str) (h : Sim m1 m2) :
    RSim (step o m1 inp) (step o m2 inp) := by
  rcases h with h | ⟨hd, a, ha⟩
  · subst h; exact RSim.refl _
  · subst ha
    obtain ⟨hr, hcr, hk⟩ := hd
    rw [step_popExcept o m1 inp hcr hk,
      step_popExcept o (m1.setCurrentChar a) inp (by simp [hcr]) (by simp [hk])]
    simp only [setCurrentChar_state]
    rw [popExceptFrom_setCC o _ m1 a inp hr]
    cases hp : popExceptFrom o (setOf m1.state) m1 inp with
    | mk c r =>
      obtain ⟨m', i'⟩ := r
      obtain ⟨_, _, f3, f4⟩ := popExceptFrom_fields o _ m1 m' inp i' c hp
      cases c with
      | none =>
        obtain ⟨_, _, g3⟩ := popExceptFrom_none o _ m1 m' inp i' hp
        have hrec : m'.reconsume = false := by
          rcases g3 with ⟨_, g4⟩ | ⟨_, _, g4⟩ <;> subst g4 <;> simp [hr]
        simp only [liftSetCC, contSet, RSim]
        exact ⟨Or.inr ⟨deadCC_of_fields ⟨hr, hcr, hk⟩ f3 hrec f4, a, rfl⟩, trivial⟩
      | some s =>
        cases s with
        | fromSet c => simp only [liftSetCC]; exact RSim.refl _
        | notFromSet b =>
          -- a run is only produced on the fast path, which leaves the machine alone
          have hm' : m' = m1 := by
            unfold popExceptFrom at hp
            split at hp
            · cases hg : getChar o m1 inp with
              | mk c r => obtain ⟨m2, i2⟩ := r; rw [hg] at hp; cases c <;> simp at hp
            · cases inp with
              | nil => simp at hp
              | cons x xs =>
                simp only at hp
                split at hp
                · cases hg : preprocess o m1 x xs with
                  | mk c r => obtain ⟨m2, i2⟩ := r; rw [hg] at hp; cases c <;> simp at hp
                · simp only [Prod.mk.injEq] at hp; exact hp.2.1.symm
          subst hm'
          simp only [liftSetCC, contSet]
          rw [transSet_setCC]
          obtain ⟨hst, hcr', hrec, hsig⟩ := transSet_notFromSet m' b hk
          generalize transSet m' (.notFromSet b) = T at hst hcr' hrec hsig ⊢
          obtain ⟨T1, T2⟩ := T
          simp only at hst hcr' hrec hsig ⊢
          subst hsig
          have hdead : deadCC T1 := ⟨by rw [hrec, hr], by rw [hcr', hcr], by rw [hst]; exact hk⟩
          have hsim : Sim T1 (T1.setCurrentChar a) := Or.inr ⟨hdead, a, rfl⟩
          simp [ofSig, RSim, hsim]

/-! ### big-step runs -/

/-- `RunsTo m inp m'`: starting the tokenizer loop (`XmlTokenizer::run`) on machine `m` with unread
input `inp`, it consumes all of `inp` and returns `Done` ("needs more input") in machine `m'` -/
inductive RunsTo (o : Opts) : Mach → Str → Mach → Prop
  | susp {m inp m'} : step o m inp = .suspend m' [] → RunsTo o m inp m'
  | cont {m inp m1 i1 m'} : step o m inp = .cont m1 i1 → RunsTo o m1 i1 m' → RunsTo o m inp m'

/-- one step onward from an `RSim`-related step result -/
theorem runsTo_of_rsim (o : Opts) {ma mb : Mach} {ia ib : Str} {m' : Mach}
    (ih : ∀ x y i, Sim x y → RunsTo o y i m' → ∃ m'', RunsTo o x i m'' ∧ Sim m'' m')
    (hrs : RSim (step o ma ia) (step o mb ib)) (hrun : RunsTo o mb ib m') :
    ∃ m'', RunsTo o ma ia m'' ∧ Sim m'' m' := by
  cases hrun with
  | susp hs =>
    rw [hs] at hrs
    cases hsa : step o ma ia with
    | suspend x i =>
      rw [hsa] at hrs
      obtain ⟨h1, h2⟩ := hrs
      subst h2
      exact ⟨x, RunsTo.susp hsa, h1⟩
    | cont x i => rw [hsa] at hrs; exact absurd hrs (by simp [RSim])
    | panic e => rw [hsa] at hrs; exact absurd hrs (by simp [RSim])
  | cont hs hr =>
    rw [hs] at hrs
    cases hsa : step o ma ia with
    | cont x i =>
      rw [hsa] at hrs
      obtain ⟨h1, h2⟩ := hrs
      subst h2
      obtain ⟨m'', hr', hs'⟩ := ih x _ i h1 hr
      exact ⟨m'', RunsTo.cont hsa hr', hs'⟩
    | suspend x i => rw [hsa] at hrs; exact absurd hrs (by simp [RSim])
    | panic e => rw [hsa] at hrs; exact absurd hrs (by simp [RSim])

/-- runs from `Sim`-related machines on the same input end in `Sim`-related machines -/
theorem runsTo_sim (o : Opts) {y : Mach} {i : Str} {m' : Mach}
    (hrun : RunsTo o y i m') : ∀ x, Sim x y → ∃ m'', RunsTo o x i m'' ∧ Sim m'' m' := by
  induction hrun with
  | @susp m0 inp0 m0' hs =>
    intro x hsim
    have hrs := step_sim o x m0 inp0 hsim
    rw [hs] at hrs
    cases hsa : step o x inp0 with
    | suspend x1 i1 =>
      rw [hsa] at hrs
      obtain ⟨h1, h2⟩ := hrs
      subst h2
      exact ⟨x1, RunsTo.susp hsa, h1⟩
    | cont _ _ => rw [hsa] at hrs; exact absurd hrs (by simp [RSim])
    | panic _ => rw [hsa] at hrs; exact absurd hrs (by simp [RSim])
  | @cont m0 inp0 m1 i1 m0' hs hr ih =>
    intro x hsim
    have hrs := step_sim o x m0 inp0 hsim
    rw [hs] at hrs
    cases hsa : step o x inp0 with
    | cont x1 i1 =>
      rw [hsa] at hrs
      obtain ⟨h1, h2⟩ := hrs
      subst h2
      obtain ⟨m'', hr', hs'⟩ := ih x1 h1
      exact ⟨m'', RunsTo.cont hsa hr', hs'⟩
    | suspend _ _ => rw [hsa] at hrs; exact absurd hrs (by simp [RSim])
    | panic _ => rw [hsa] at hrs; exact absurd hrs (by simp [RSim])

/-- **chunk merging.** If the tokenizer, fed `a`, runs to suspension in `m1`, and then, fed `b`,
runs to suspension in `m2`, then fed `a ++ b` in one piece it runs to suspension in a machine
equal to `m2` up to a dead `current_char` — in particular with the same tokens and parse errors
delivered to the sink. -/
theorem runsTo_chunk (o : Opts) {m : Mach} {a : Str} {m1 : Mach}
    (hrun : RunsTo o m a m1) :
    Good m → m.atEof = false → ∀ (b : Str) (m2 : Mach), RunsTo o m1 b m2 →
      ∃ m2', RunsTo o m (a ++ b) m2' ∧ Sim m2' m2 := by
  induction hrun with
  | @susp m0 inp0 m0' hs =>
    intro hg hat b m2 hr2
    obtain ⟨_, hrs, _, _⟩ := step_resume o m0 m0' inp0 [] b hg hat hs
    exact runsTo_of_rsim o (fun x y i hsim hr => runsTo_sim o hr x hsim) hrs hr2
  | @cont m0 inp0 mx ix m0' hs hr ih =>
    intro hg hat b m2 hr2
    have hmono := step_mono o m0 inp0 b (fun _ => hg.eatOk) hat (by rw [hs]; rfl)
    rw [hs] at hmono
    obtain ⟨hgx, hax⟩ := step_good o m0 inp0 mx hg hat (by rw [hs]; rfl)
    obtain ⟨m2', hr', hsim⟩ := ih hgx hax b m2 hr2
    exact ⟨m2', RunsTo.cont hmono hr', hsim⟩

/-- the invariant and `at_eof` at the end of a run -/
theorem runsTo_good (o : Opts) {m : Mach} {a : Str} {m1 : Mach}
    (hrun : RunsTo o m a m1) : Good m → m.atEof = false → Good m1 ∧ m1.atEof = false := by
  induction hrun with
  | @susp m0 inp0 m0' hs =>
    intro hg hat
    exact step_good o m0 inp0 m0' hg hat (by rw [hs]; rfl)
  | @cont m0 inp0 mx ix m0' hs hr ih =>
    intro hg hat
    obtain ⟨hgx, hax⟩ := step_good o m0 inp0 mx hg hat (by rw [hs]; rfl)
    exact ih hgx hax

/-- a session: the chunks are fed one after the other, each run to suspension -/
inductive Session (o : Opts) : Mach → List Str → Mach → Prop
  | nil {m} : Session o m [] m
  | cons {m c m1 cs mf} : RunsTo o m c m1 → Session o m1 cs mf → Session o m (c :: cs) mf

/-- **chunk independence of the tokenizer loop**: whatever the partition of the input into
chunks (empty and one-character chunks included), the one-piece run reaches a machine equal, up
to a dead `current_char`, to the one the chunked session reaches -/
theorem session_flatten (o : Opts) {m : Mach} {cs : List Str} {mf : Mach}
    (hs : Session o m cs mf) : Good m → m.atEof = false →
    (cs = [] ∧ mf = m) ∨ ∃ mf', RunsTo o m cs.flatten mf' ∧ Sim mf' mf := by
  induction hs with
  | nil => intro _ _; exact Or.inl ⟨rfl, rfl⟩
  | @cons m0 c m1 cs0 mf0 hr hsess ih =>
    intro hg hat
    right
    obtain ⟨hg1, hat1⟩ := runsTo_good o hr hg hat
    rcases ih hg1 hat1 with ⟨hnil, hmf⟩ | ⟨mf', hr', hsim⟩
    · subst hnil
      rw [hmf]
      exact ⟨m1, by simpa using hr, Sim.refl _⟩
    · obtain ⟨m2', hr2, hsim2⟩ := runsTo_chunk o hr hg hat cs0.flatten mf' hr'
      exact ⟨m2', by simpa using hr2, Sim.trans hsim2 hsim⟩

end H5V.Model.XmlTok
