import H5V.Lemmas.HtmlTBSafeLoops
/-!
# Tree-builder safety, part 5: the handle invariant `HInv`, creating and inserting nodes
-/
namespace H5V.Lemmas.TBSafe
open H5V.Model.HtmlTB
open H5V.Model.Dom (Id QualName Attr NodeOrText SinkOp Output ElementFlags QuirksMode Dom NodeData Node)

variable {al : Allow}

def htmlName : EName := ⟨nsHtml, "html".toList⟩
def tmplName : EName := ⟨nsHtml, "template".toList⟩
def headName : EName := ⟨nsHtml, "head".toList⟩
def formName : EName := ⟨nsHtml, "form".toList⟩

/-- the tag names that enter the list of active formatting elements -/
def fmtNames : List String :=
  ["a", "b", "big", "code", "em", "font", "i", "nobr", "s", "small", "strike", "strong", "tt", "u"]

/-- a `template` element carries template contents -/
def TcOk (d : Dom) (h : Id) : Prop :=
  nm d h = tmplName → ∃ q tc ip, sigOf d h = some (q, some tc, ip)

/-- **the handle invariant**: every handle the builder holds is an element node of the sink; HTML
`template` elements on the stack have template contents; an entry of the list of active formatting
elements is an HTML element with the name of its tag, one of the formatting names; the head pointer
is a `head`, the form pointer a `form` -/
structure HInv (s : State) : Prop where
  open_el : AllEl s.dom s.openElems
  open_tc : ∀ h ∈ s.openElems, TcOk s.dom h
  af : ∀ h t, FormatEntry.element h t ∈ s.activeFormatting →
    IsEl s.dom h ∧ nm s.dom h = ⟨nsHtml, t.name⟩ ∧ isOneOf t.name fmtNames = true
  head : ∀ h, s.headElem = some h → IsEl s.dom h ∧ nm s.dom h = headName
  form : ∀ h, s.formElem = some h → IsEl s.dom h ∧ nm s.dom h = formName
  ctx : ∀ h, s.contextElem = some h → IsEl s.dom h

theorem TcOk.ext {d d' : Dom} {h : Id} (he : Ext d d') (hi : IsEl d h) (ht : TcOk d h) : TcOk d' h := by
  intro hn
  rw [nm_ext he hi] at hn
  obtain ⟨q, tc, ip, hs⟩ := ht hn
  exact ⟨q, tc, ip, he h _ hs⟩

/-- the invariant survives anything that extends the DOM and only shrinks the two lists -/
theorem HInv.of_fr {s s' : State} (h : HInv s) (f : Fr s s') (ho : ∀ x ∈ s'.openElems, x ∈ s.openElems)
    (ha : ∀ e ∈ s'.activeFormatting, e ∈ s.activeFormatting) : HInv s' where
  open_el := fun x hx => (h.open_el x (ho x hx)).ext f.ext
  open_tc := fun x hx => (h.open_tc x (ho x hx)).ext f.ext (h.open_el x (ho x hx))
  af := fun x t hx => by
    obtain ⟨h1, h2, h3⟩ := h.af x t (ha _ hx)
    exact ⟨h1.ext f.ext, by rw [nm_ext f.ext h1]; exact h2, h3⟩
  head := fun x hx => by
    rw [f.headElem] at hx
    obtain ⟨h1, h2⟩ := h.head x hx
    exact ⟨h1.ext f.ext, by rw [nm_ext f.ext h1]; exact h2⟩
  form := fun x hx => by
    rw [f.formElem] at hx
    obtain ⟨h1, h2⟩ := h.form x hx
    exact ⟨h1.ext f.ext, by rw [nm_ext f.ext h1]; exact h2⟩
  ctx := fun x hx => by
    rw [f.contextElem] at hx
    exact (h.ctx x hx).ext f.ext

theorem HInv.of_st {s s' : State} {l : List Id} (h : HInv s) (st : St s s' l) (ho : ∀ x ∈ l, x ∈ s.openElems) :
    HInv s' :=
  h.of_fr st.fr (by rw [st.openElems]; exact ho) (by rw [st.af]; exact fun _ h => h)

theorem HInv.of_same {s s' : State} (h : HInv s) (st : Same s s') : HInv s' := h.of_st st (fun _ h => h)

theorem HInv.of_qf {s s' : State} (h : HInv s) (q : QF s s') : HInv s' := h.of_same q.same

/-! ### `create_element` -/

theorem sigOf_alloc_new (d : Dom) (data : NodeData) : sigOf (d.alloc data).1 d.size = sigData data := by
  unfold sigOf; rw [H5V.Lemmas.Dom.dataOf_alloc]; simp

theorem sigOf_alloc_old (d : Dom) (data : NodeData) {h : Id} (hh : h ≠ d.size) :
    sigOf (d.alloc data).1 h = sigOf d h := by
  unfold sigOf; rw [H5V.Lemmas.Dom.dataOf_alloc]; simp [hh]

theorem createElement_spec (d : Dom) (name : QualName) (attrs : List Attr) (flags : ElementFlags) :
    sigOf d (d.createElement name attrs flags).2 = none ∧
    ∃ tc, sigOf (d.createElement name attrs flags).1 (d.createElement name attrs flags).2
        = some (name, tc, flags.mathmlIP) ∧ (flags.template = true → tc.isSome) := by
  unfold Dom.createElement
  split
  · rename_i ht
    refine ⟨sigOf_none_of_ge (by simp [Dom.alloc, Dom.size]), some d.size, ?_, fun _ => rfl⟩
    have : ((d.alloc NodeData.document).1.alloc (.element name attrs (some (d.alloc NodeData.document).2) flags.mathmlIP)).2
        = (d.alloc NodeData.document).1.size := rfl
    rw [this, sigOf_alloc_new]; rfl
  · refine ⟨sigOf_none_of_ge (by simp [Dom.alloc, Dom.size]), none, ?_, fun h => by simp_all⟩
    have : (d.alloc (.element name attrs none flags.mathmlIP)).2 = d.size := rfl
    rw [this, sigOf_alloc_new]; rfl

/-- what `create_element` returns: a node that was not an element before, is an element with the
requested name now, and has template contents when the `template` flag was set -/
structure Created (s s' : State) (r : Id) (name : QualName) (tmpl : Bool) : Prop where
  qf : QF s s'
  fresh : sigOf s.dom r = none
  el : IsEl s'.dom r
  nm : nm s'.dom r = ⟨name.ns, name.loc⟩
  tc : tmpl = true → ∃ q tc ip, sigOf s'.dom r = some (q, some tc, ip)

theorem sat_createElementWithFlags {name : QualName} {attrs : List Attr} {hadDup : Bool} {s : State} :
    Sat (createElementWithFlags name attrs hadDup) s
      (fun r s' => Created s s' r name (name.ns == nsHtml && isName name.loc "template")) := by
  unfold createElementWithFlags sinkNode
  simp only
  refine Sat.bind (sat_sink (Q := fun o s' => ∃ r, o = .node r ∧
      Created s s' r name (name.ns == nsHtml && isName name.loc "template"))
    (Or.inr ⟨_, _, apply_createElement _ _ _ _⟩) ?_) ?_
  · intro d' out h
    have h' := h
    rw [apply_createElement] at h
    cases h
    obtain ⟨hf, tc, hs, htc⟩ := createElement_spec s.dom name attrs
      { template := name.ns == nsHtml && isName name.loc "template",
        mathmlIP := (if name.ns == nsMathml && isName name.loc "annotation-xml" then
          attrs.any (fun a => a.name.ns == [] && isName a.name.loc "encoding" &&
            (eqIgnoreAsciiCase a.value "text/html".toList ||
             eqIgnoreAsciiCase a.value "application/xhtml+xml".toList)) else false),
        hadDuplicateAttributes := hadDup }
    refine ⟨_, rfl, ⟨qf_of_apply h', hf, ⟨_, hs⟩, ?_, ?_⟩⟩
    · show TBSafe.nm _ _ = _
      unfold TBSafe.nm; rw [hs]; rfl
    · intro ht
      have := htc ht
      cases tc with
      | none => simp at this
      | some t => exact ⟨_, _, _, hs⟩
  · rintro o s' ⟨r, rfl, hc⟩
    exact sat_pure hc

theorem Created.ne {s s' : State} {r : Id} {name : QualName} {t : Bool} (h : Created s s' r name t)
    {x : Id} (hx : IsEl s.dom x) : x ≠ r := by
  rintro rfl
  obtain ⟨y, hy⟩ := hx
  rw [h.fresh] at hy; cases hy

theorem sat_createComment {text : Str} {s : State} :
    Sat (sinkNode (.createComment text)) s (fun _ s' => QF s s') := by
  unfold sinkNode
  refine Sat.bind (sat_sink (Q := fun o s' => (∃ r, o = .node r) ∧ QF s s')
    (Or.inr ⟨_, _, apply_createComment _ _⟩) ?_) ?_
  · intro d' out h
    have h' := h
    rw [apply_createComment] at h; cases h
    exact ⟨⟨_, rfl⟩, qf_of_apply h'⟩
  · rintro o s' ⟨⟨r, rfl⟩, hq⟩
    exact sat_pure hq

/-! ### `appropriate_place_for_insertion`, `insert_at` -/

theorem namedP_tmpl {d : Dom} {h : Id} (hn : namedP d "template".toList h = true) : nm d h = tmplName := by
  unfold namedP at hn
  cases hh : nm d h with
  | mk ns loc =>
    rw [hh] at hn
    simp only [Bool.and_eq_true, beq_iff_eq] at hn
    rw [hn.1, hn.2]; rfl

theorem sat_templateContents {h : Id} {s : State} (_hi : IsEl s.dom h) (ht : TcOk s.dom h)
    (hn : namedP s.dom "template".toList h = true) :
    Sat (sinkNode (.getTemplateContents h)) s (fun _ s' => QF s s') := by
  obtain ⟨q, tc, ip, hs⟩ := ht (namedP_tmpl hn)
  exact (sat_getTemplateContents hs).mono (fun _ _ h => h.2)

theorem sat_fosterLoop : ∀ (l : List Id) (s : State), AllEl s.dom l → (∀ h ∈ l, TcOk s.dom h) →
    s.openElems ≠ [] → (∀ x, l.getLast? = some x → namedP s.dom "table".toList x = false) →
    Sat (fosterLoop l) s (fun _ s' => QF s s') := by
  intro l
  induction l with
  | nil =>
    intro s _ _ hne _
    unfold fosterLoop
    cases hl : s.openElems with
    | nil => exact absurd hl hne
    | cons r rest =>
      refine (sat_htmlElem hl).bind ?_
      rintro x s' ⟨rfl, rfl⟩
      exact sat_pure (QF.refl _)
  | cons elem rest ih =>
    intro s hall htc hne hlast
    unfold fosterLoop
    have hel := hall elem List.mem_cons_self
    refine (sat_htmlElemNamed hel).bind ?_
    rintro b s1 ⟨rfl, hq1⟩
    split
    · rename_i hb
      have hn : namedP s1.dom "template".toList elem = true := by
        unfold namedP; rw [nm_ext hq1.ext hel]; exact hb
      refine (sat_templateContents (hel.ext hq1.ext) ((htc elem List.mem_cons_self).ext hq1.ext hel) hn).bind ?_
      intro c s2 hq2
      exact sat_pure (hq1.trans hq2)
    · refine (sat_htmlElemNamed (hel.ext hq1.ext)).bind ?_
      rintro b2 s2 ⟨rfl, hq2⟩
      split
      · rename_i hb2
        cases rest with
        | nil =>
          exfalso
          have := hlast elem rfl
          unfold namedP at this
          rw [nm_ext hq1.ext hel] at hb2
          rw [this] at hb2; cases hb2
        | cons prev rest' => exact sat_pure (hq1.trans hq2)
      · have hq := hq1.trans hq2
        have hall' : AllEl s.dom rest := hall.sub (fun x hx => List.mem_cons_of_mem _ hx)
        refine (ih s2 (hall'.ext hq.ext) ?_ ?_ ?_).mono (fun _ s3 h3 => hq.trans h3)
        · intro h hh
          exact (htc h (List.mem_cons_of_mem _ hh)).ext hq.ext (hall' h hh)
        · rw [hq.openElems]; exact hne
        · intro x hx
          have hxm : x ∈ rest := getLast?_mem hx
          unfold namedP
          rw [hall'.nm_eq hq.ext hxm]
          have hne' : rest ≠ [] := by intro e; subst e; simp at hx
          exact hlast x (by rw [List.getLast?_cons_of_ne_nil hne']; exact hx)

/-- what `appropriate_place_for_insertion` needs: a non-empty stack of elements whose bottom is not a
`table`, templates with contents, and the same for the override target -/
structure PlaceOk (s : State) (ov : Option Id) : Prop where
  ne : s.openElems ≠ []
  el : AllEl s.dom s.openElems
  tc : ∀ h ∈ s.openElems, TcOk s.dom h
  bottom : ∀ r rest, s.openElems = r :: rest → namedP s.dom "table".toList r = false
  ov_el : ∀ t, ov = some t → IsEl s.dom t ∧ TcOk s.dom t

theorem sat_appropriatePlaceForInsertion {ov : Option Id} {s : State} (hp : PlaceOk s ov) :
    Sat (appropriatePlaceForInsertion ov) s (fun _ s' => QF s s') := by
  unfold appropriatePlaceForInsertion
  obtain ⟨cur, hcur⟩ := getLast?_of_ne_nil hp.ne
  have htail : ∀ (target : Id), IsEl s.dom target → TcOk s.dom target →
      Sat (do
        let __do_lift ← getS
        if __do_lift.fosterParenting = true then do
            let foster ← elemIn target fosterTarget
            if (!foster) = true then do
                let __do_lift ← htmlElemNamed target "template"
                if __do_lift = true then do
                    let contents ← sinkNode (SinkOp.getTemplateContents target)
                    pure (InsertionPoint.lastChild contents)
                  else pure (InsertionPoint.lastChild target)
              else do
                let __do_lift ← getS
                fosterLoop __do_lift.openElems.reverse
          else do
            let foster ← pure false
            if (!foster) = true then do
                let __do_lift ← htmlElemNamed target "template"
                if __do_lift = true then do
                    let contents ← sinkNode (SinkOp.getTemplateContents target)
                    pure (InsertionPoint.lastChild contents)
                  else pure (InsertionPoint.lastChild target)
              else do
                let __do_lift ← getS
                fosterLoop __do_lift.openElems.reverse) s (fun _ s' => QF s s') := by
    intro target htel httc
    refine sat_getS_bind ?_
    split <;>
      (first
        | refine Sat.bind (Q := fun _ s1 => QF s s1) ((sat_elemIn htel).mono (fun _ _ h => h.2)) ?_
        | refine Sat.bind (Q := fun _ s1 => QF s s1) (sat_pure (QF.refl s)) ?_) <;>
      (intro foster s1 hq1
       split
       · refine (sat_htmlElemNamed (htel.ext hq1.ext)).bind ?_
         rintro b s2 ⟨rfl, hq2⟩
         split
         · rename_i hb
           refine (sat_templateContents ((htel.ext hq1.ext).ext hq2.ext)
             ((httc.ext hq1.ext htel).ext hq2.ext (htel.ext hq1.ext)) ?_).bind ?_
           · unfold namedP; rw [nm_ext hq2.ext (htel.ext hq1.ext)]; exact hb
           · intro c s3 hq3; exact sat_pure ((hq1.trans hq2).trans hq3)
         · exact sat_pure (hq1.trans hq2)
       · refine sat_getS_bind ?_
         have hrev : ∀ x ∈ s1.openElems.reverse, x ∈ s.openElems := by
           intro x hx; rw [hq1.openElems] at hx; exact List.mem_reverse.mp hx
         refine (sat_fosterLoop _ s1 ((hp.el.sub hrev).ext hq1.ext) ?_ ?_ ?_).mono (fun _ s2 h2 => hq1.trans h2)
         · intro h hh
           exact (hp.tc h (hrev h hh)).ext hq1.ext (hp.el h (hrev h hh))
         · rw [hq1.openElems]; exact hp.ne
         · intro x hx
           rw [hq1.openElems] at hx
           cases hl : s.openElems with
           | nil => exact absurd hl hp.ne
           | cons r rest =>
             rw [hl] at hx
             have : x = r := by simpa using hx.symm
             subst this
             unfold namedP
             rw [nm_ext hq1.ext (hp.el x (by rw [hl]; exact List.mem_cons_self))]
             exact hp.bottom x rest hl)
  cases ov with
  | some t =>
    dsimp only
    refine Sat.bind (Q := fun r s' => r = t ∧ s' = s) (sat_pure ⟨rfl, rfl⟩) ?_
    rintro target s0 ⟨rfl, rfl⟩
    exact htail target (hp.ov_el target rfl).1 (hp.ov_el target rfl).2
  | none =>
    dsimp only
    refine (sat_currentNode hcur).bind ?_
    rintro target s0 ⟨rfl, rfl⟩
    exact htail target (hp.el target (getLast?_mem hcur)) (hp.tc target (getLast?_mem hcur))

theorem sat_insertAt {p : InsertionPoint} {child : NodeOrText} {s : State} :
    Sat (insertAt p child) s (fun _ s' => QF s s') := by
  unfold H5V.Model.HtmlTB.insertAt
  cases p with
  | lastChild parent => exact sat_sinkUnit_mut trivial
  | beforeSibling sib => exact sat_sinkUnit_mut trivial
  | tableFosterParenting e pe => exact sat_sinkUnit_mut trivial

theorem sat_insertAppropriately {child : NodeOrText} {ov : Option Id} {s : State} (hp : PlaceOk s ov) :
    Sat (insertAppropriately child ov) s (fun _ s' => QF s s') := by
  unfold insertAppropriately
  refine (sat_appropriatePlaceForInsertion hp).bind ?_
  intro p s1 hq1
  exact sat_insertAt.mono (fun _ s2 h2 => hq1.trans h2)

theorem PlaceOk.of_qf {s s' : State} {ov : Option Id} (hp : PlaceOk s ov) (hq : QF s s') : PlaceOk s' ov where
  ne := by rw [hq.openElems]; exact hp.ne
  el := by rw [hq.openElems]; exact hp.el.ext hq.ext
  tc := by
    rw [hq.openElems]
    exact fun h hh => (hp.tc h hh).ext hq.ext (hp.el h hh)
  bottom := by
    rw [hq.openElems]
    intro r rest hl
    unfold namedP
    rw [nm_ext hq.ext (hp.el r (by rw [hl]; exact List.mem_cons_self))]
    exact hp.bottom r rest hl
  ov_el := fun t ht => ⟨(hp.ov_el t ht).1.ext hq.ext, (hp.ov_el t ht).2.ext hq.ext (hp.ov_el t ht).1⟩

/-! ### `insert_element` -/

/-- the result of `insert_element`: a fresh element with the requested name, pushed or not -/
structure Inserted (s s' : State) (r : Id) (ns name : Str) (pushIt : Bool) : Prop where
  fr : Fr s s'
  af : s'.activeFormatting = s.activeFormatting
  openElems : s'.openElems = if pushIt then s.openElems ++ [r] else s.openElems
  fresh : ∀ x, IsEl s.dom x → x ≠ r
  el : IsEl s'.dom r
  nm : nm s'.dom r = ⟨ns, name⟩
  tc : TcOk s'.dom r

theorem sat_insertElement {pushIt : Bool} {ns name : Str} {attrs : List Attr} {hadDup : Bool} {s : State}
    (hp : PlaceOk s none) :
    Sat (insertElement pushIt ns name attrs hadDup) s (fun r s' => Inserted s s' r ns name pushIt) := by
  unfold insertElement
  refine (sat_appropriatePlaceForInsertion hp).bind ?_
  intro ip s1 hq1
  dsimp only
  refine sat_getS_bind ?_
  have hrest : ∀ (elem : Id) (s3 s4 : State), Created s3 s4 elem { pfx := none, ns := ns, loc := name }
        (ns == nsHtml && isName name "template") → QF s s3 →
      ∀ s5, QF s4 s5 →
      Sat (do
        insertAt ip (NodeOrText.node elem)
        if pushIt = true then do
            push elem
            pure elem
          else pure elem) s5 (fun r s' => Inserted s s' r ns name pushIt) := by
    intro elem s3 s4 hc hq3 s5 hq5
    refine sat_insertAt.bind ?_
    intro _ s6 hq6
    have hq46 : QF s4 s6 := hq5.trans hq6
    have hq : QF s s6 := (hq3.trans hc.qf).trans hq46
    have hel : IsEl s6.dom elem := hc.el.ext hq46.ext
    have hnm : nm s6.dom elem = ⟨ns, name⟩ := by rw [nm_ext hq46.ext hc.el]; exact hc.nm
    have htc : TcOk s6.dom elem := by
      intro hn
      rw [hnm] at hn
      have : (ns == nsHtml && isName name "template") = true := by
        simp only [tmplName, EName.mk.injEq] at hn
        simp [hn.1, hn.2, isName]
      obtain ⟨q, tc, ip', hs⟩ := hc.tc this
      exact ⟨q, tc, ip', hq46.ext _ _ hs⟩
    have hfresh : ∀ x, IsEl s.dom x → x ≠ elem := fun x hx => hc.ne (hx.ext hq3.ext)
    split
    · rename_i hpush
      refine sat_push.bind ?_
      rintro _ s7 rfl
      exact sat_pure ⟨hq.fr.withOpen _, hq.activeFormatting, by simp [hpush, hq.openElems], hfresh, hel, hnm, htc⟩
    · rename_i hpush
      exact sat_pure ⟨hq.fr, hq.activeFormatting, by simp [hpush, hq.openElems], hfresh, hel, hnm, htc⟩
  have htail : ∀ (fa : Bool) (s2 : State), QF s1 s2 → (fa = true → s1.formElem.isSome = true) →
      Sat (do
        let elem ← createElementWithFlags { pfx := none, ns := ns, loc := name } attrs hadDup
        if fa = true then do
            let __do_lift ← getS
            match __do_lift.formElem with
              | some form => do
                sinkUnit (SinkOp.associateWithForm elem form ip.nodes.fst ip.nodes.snd)
                insertAt ip (NodeOrText.node elem)
                if pushIt = true then do
                    push elem
                    pure elem
                  else pure elem
              | none => do
                panicAt "unwrap-none" "mod.rs:1401" "form_elem unwrap"
                insertAt ip (NodeOrText.node elem)
                if pushIt = true then do
                    push elem
                    pure elem
                  else pure elem
          else do
            insertAt ip (NodeOrText.node elem)
            if pushIt = true then do
                push elem
                pure elem
              else pure elem) s2 (fun r s' => Inserted s s' r ns name pushIt) := by
    intro fa s2 hq2 hfa
    refine sat_createElementWithFlags.bind ?_
    intro elem s3 hc
    split
    · rename_i hfat
      refine sat_getS_bind ?_
      have hsome : s3.formElem.isSome = true := by
        rw [hc.qf.formElem, hq2.formElem]; exact hfa hfat
      cases hf : s3.formElem with
      | none => rw [hf] at hsome; cases hsome
      | some form =>
        dsimp only
        refine (sat_sinkUnit_total ⟨_, _, apply_assoc _ _ _ _ _⟩).bind ?_
        intro _ s4 hq4
        exact hrest elem s2 s3 hc (hq1.trans hq2) s4 hq4
    · exact hrest elem s2 s3 hc (hq1.trans hq2) s3 (QF.refl _)
  split
  · rename_i hfa
    refine (sat_inHtmlElemNamed (by rw [hq1.openElems]; exact hp.el.ext hq1.ext)).bind ?_
    rintro b s2 ⟨-, hq2⟩
    have hsome : s1.formElem.isSome = true := by
      simp only [Bool.and_eq_true] at hfa; exact hfa.2
    split
    · refine Sat.bind (Q := fun fa s' => fa = false ∧ s' = s2) (sat_pure ⟨rfl, rfl⟩) ?_
      rintro fa s2' ⟨rfl, rfl⟩
      exact htail false s2' hq2 (fun h => by cases h)
    · refine Sat.bind (Q := fun fa s' => s' = s2) (sat_pure rfl) ?_
      rintro fa s2' rfl
      exact htail fa s2' hq2 (fun _ => hsome)
  · refine Sat.bind (Q := fun fa s' => fa = false ∧ s' = s1) (sat_pure ⟨rfl, rfl⟩) ?_
    rintro fa s2' ⟨rfl, rfl⟩
    exact htail false s2' (QF.refl _) (fun h => by cases h)

theorem Inserted.hinv {s s' : State} {r : Id} {ns name : Str} {pushIt : Bool} (hi : HInv s)
    (h : Inserted s s' r ns name pushIt) : HInv s' where
  open_el := by
    rw [h.openElems]
    intro x hx
    split at hx
    · rcases List.mem_append.mp hx with hx | hx
      · exact (hi.open_el x hx).ext h.fr.ext
      · rw [List.mem_singleton.mp hx]; exact h.el
    · exact (hi.open_el x hx).ext h.fr.ext
  open_tc := by
    rw [h.openElems]
    intro x hx
    split at hx
    · rcases List.mem_append.mp hx with hx | hx
      · exact (hi.open_tc x hx).ext h.fr.ext (hi.open_el x hx)
      · rw [List.mem_singleton.mp hx]; exact h.tc
    · exact (hi.open_tc x hx).ext h.fr.ext (hi.open_el x hx)
  af := fun x t hx => by
    rw [h.af] at hx
    obtain ⟨h1, h2, h3⟩ := hi.af x t hx
    exact ⟨h1.ext h.fr.ext, by rw [nm_ext h.fr.ext h1]; exact h2, h3⟩
  head := fun x hx => by
    rw [h.fr.headElem] at hx
    obtain ⟨h1, h2⟩ := hi.head x hx
    exact ⟨h1.ext h.fr.ext, by rw [nm_ext h.fr.ext h1]; exact h2⟩
  form := fun x hx => by
    rw [h.fr.formElem] at hx
    obtain ⟨h1, h2⟩ := hi.form x hx
    exact ⟨h1.ext h.fr.ext, by rw [nm_ext h.fr.ext h1]; exact h2⟩
  ctx := fun x hx => by
    rw [h.fr.contextElem] at hx
    exact (hi.ctx x hx).ext h.fr.ext

end H5V.Lemmas.TBSafe
