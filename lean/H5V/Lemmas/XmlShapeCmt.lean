import H5V.Lemmas.XmlShapeLexTab
/-!
C17, shape of parsed trees, part 5b (tokenizer side): the comment states.

`LexE` (the invariant of `XmlShapeLexTab`) carries `GtScanP m.comment`: every `>` already in the comment
register stands where the XML tokenizer would not have ended the comment (`GtOk` of the text before it).
To push a `>` the comment state must know `GtOk` of the register; this file adds the state-dependent facts
about the register that make it so (`CmtOK`), proves them through the ten comment states of the
`get_char!` table (`transChar_cmt`), and shows that no other state enters a comment state
(`transChar_cmtOf`).  The full invariant is `Lex m = LexE m ∧ CmtOK (cmtOf m.state) m`.

The comment state is entered by RECONSUMING a character `c` from seven other states; whether `c` may be
pushed depends on `c` (`CR p c`), so between two steps the clause for the comment state mentions the
reconsume flag and `current_char`; the table itself is entered with `CmtPre` (the flag consumed, `c` in hand).
-/
namespace H5V.Lemmas.XmlShapeLex
open H5V.Model.XmlTok H5V.Lemmas.XmlRT

inductive CMode | none | c0 | cC | cLt | cLtB | cED
deriving DecidableEq, Repr

def cmtOf : State → CMode
  | .commentStart | .commentStartDash => .c0
  | .comment => .cC
  | .commentLessThan => .cLt
  | .commentLessThanBang | .commentLessThanBangDash | .commentLessThanBangDashDash => .cLtB
  | .commentEndDash => .cED
  | _ => .none

/-- between two steps -/
def CmtOK : CMode → Mach → Prop
  | .none, _ => True
  | .c0, m => m.comment = []
  | .cC, m => CW m.comment ∨ (m.reconsume = true ∧ CR m.comment m.currentChar)
  | .cLt, m => m.comment.getLast? = some '<'
  | .cLtB, m => ['<', '!'] <:+ m.comment
  | .cED, m => m.comment ≠ [] ∧ m.comment.getLast? ≠ some '-'

/-- when the table is about to see `c` -/
def CmtPre : CMode → Mach → Char → Prop
  | .cC, m, c => CR m.comment c
  | .none, _, _ => True
  | .c0, m, _ => m.comment = []
  | .cLt, m, _ => m.comment.getLast? = some '<'
  | .cLtB, m, _ => ['<', '!'] <:+ m.comment
  | .cED, m, _ => m.comment ≠ [] ∧ m.comment.getLast? ≠ some '-'

/-- **the lexical invariant of the tokenizer model** -/
def Lex (m : Mach) : Prop := LexE m ∧ CmtOK (cmtOf m.state) m

def LexT (m : Mach) (c : Char) : Prop := LexE m ∧ CmtPre (cmtOf m.state) m c

theorem Lex.of_none {m : Mach} (h : LexE m) (hs : cmtOf m.state = .none) : Lex m :=
  ⟨h, by rw [hs]; trivial⟩

/-! ### list facts -/

theorem snoc_of_last {p : Str} {a : Char} (h : p.getLast? = some a) : ∃ q, p = q ++ [a] := by
  rcases List.eq_nil_or_concat p with rfl | ⟨q, x, e⟩
  · simp at h
  · rw [List.concat_eq_append] at e; subst e
    rw [getLast_snoc] at h; injection h with h; subst h
    exact ⟨q, rfl⟩

theorem not_ends2_of_last {p : Str} {a b x : Char} (h : p.getLast? = some x) (hx : x ≠ b) : ¬ [a, b] <:+ p := by
  intro e
  have := last_of_ends (u := [a]) e
  rw [h] at this; injection this with this; exact hx this

theorem not_ends3_of_last {p : Str} {a b d x : Char} (h : p.getLast? = some x) (hx : x ≠ d) : ¬ [a, b, d] <:+ p := by
  intro e
  have := last_of_ends (u := [a, b]) e
  rw [h] at this; injection this with this; exact hx this

theorem last_of_ltb {p : Str} (h : ['<', '!'] <:+ p) : p.getLast? = some '!' := last_of_ends (u := ['<']) h

theorem gtOk_of_ltb {p : Str} (h : ['<', '!'] <:+ p) : GtOk p := by
  obtain ⟨q, rfl⟩ := h
  refine ⟨by simp, ?_, ?_, ?_⟩
  · intro e
    have := congrArg List.length e
    simp at this
  · exact not_ends2_of_last (x := '!') (by simp) (by decide)
  · intro e
    have e' : (['-', '-'] ++ ['!']) <:+ ((q ++ ['<']) ++ ['!']) := by simpa using e
    rw [ends_snoc] at e'
    have e'' : (['-'] ++ ['-']) <:+ (q ++ ['<']) := e'.2
    rw [ends_snoc] at e''
    exact absurd e''.1 (by decide)

theorem gtOk_of_lt {p : Str} (h : p.getLast? = some '<') : GtOk p := by
  obtain ⟨q, rfl⟩ := snoc_of_last h
  exact gtOk_snoc (by decide) (by decide)

/-! ### the comment states of the `get_char!` table -/

theorem transChar_cmt (o : Opts) {m : Mach} {c : Char} (h : LexT m c) (hcc : m.currentChar = c)
    (hst : isCmtSt m.state = true) : Lex (transChar o m c).1 := by
  obtain ⟨he, hp⟩ := h
  unfold transChar
  split
  -- tagState … piAfter: not comment states
  iterate 9 (rename_i hs; rw [hs] at hst; cases hst)
  -- commentStart
  · rename_i hs
    rw [hs] at hp
    have hp : m.comment = [] := hp
    dsimp only
    split
    · exact ⟨Lex_to_other he _ rfl, hp⟩
    · split
      · exact Lex.of_none (Lex_to_other (Lex_emitComment (Lex_badChar he o)) _ rfl) rfl
      · rename_i h1 h2
        refine ⟨Lex_reconsumeTo_other he _ rfl, Or.inr ⟨rfl, ?_⟩⟩
        show CR m.comment m.currentChar
        rw [hp, hcc]
        exact ⟨fun e => absurd e h2, fun e => absurd e h1, fun _ => ends_nil_snoc (u := ['-'])⟩
  -- commentStartDash
  · rename_i hs
    rw [hs] at hp
    have hp : m.comment = [] := hp
    dsimp only
    split
    · exact Lex.of_none (Lex_to_other he _ rfl) rfl
    · split
      · exact Lex.of_none (Lex_to_other (Lex_emitComment (Lex_badChar he o)) _ rfl) rfl
      · rename_i h1 h2
        refine ⟨Lex_reconsumeTo_other (Lex_pushComment he (Or.inl (by decide))) _ rfl, Or.inr ⟨rfl, ?_⟩⟩
        show CR (m.comment ++ ['-']) m.currentChar
        rw [hp, hcc]
        exact ⟨fun e => absurd e h2, fun e => absurd e h1, fun _ => by decide⟩
  -- comment
  · rename_i hs
    rw [hs] at hp
    have hp : CR m.comment c := hp
    dsimp only
    split
    · refine ⟨Lex_to_other (Lex_pushComment he (Or.inl (by decide))) _ rfl, ?_⟩
      show (m.comment ++ ['<']).getLast? = some '<'
      simp
    · split
      · rename_i h1 h2
        exact ⟨Lex_to_other he _ rfl, hp.2.1 h2⟩
      · rename_i h1 h2
        have hpush : c ≠ '>' ∨ GtOk m.comment := by
          by_cases e : c = '>'
          · exact Or.inr (hp.1 e)
          · exact Or.inl e
        refine ⟨Lex_pushComment he hpush, ?_⟩
        show CmtOK (cmtOf m.state) (pushComment c m)
        rw [hs]
        exact Or.inl (CW_push hp h2)
  -- commentLessThan
  · rename_i hs
    rw [hs] at hp
    have hp : m.comment.getLast? = some '<' := hp
    obtain ⟨q, hq⟩ := snoc_of_last hp
    dsimp only
    split
    · refine ⟨Lex_to_other (Lex_pushComment he (Or.inl (by decide))) _ rfl, ?_⟩
      show ['<', '!'] <:+ (m.comment ++ ['!'])
      rw [hq]
      exact ⟨q, by simp⟩
    · split
      · refine ⟨Lex_pushComment he (Or.inl (by decide)), ?_⟩
        show CmtOK (cmtOf m.state) (pushComment '<' m)
        rw [hs]
        show (m.comment ++ ['<']).getLast? = some '<'
        simp
      · rename_i h1 h2
        refine ⟨Lex_reconsumeTo_other he _ rfl, Or.inr ⟨rfl, ?_⟩⟩
        show CR m.comment m.currentChar
        rw [hcc]
        refine ⟨fun _ => gtOk_of_lt hp, fun _ => ⟨by rw [hq]; simp, by rw [hp]; decide⟩, fun e => absurd e h1⟩
  -- commentLessThanBang
  · rename_i hs
    rw [hs] at hp
    have hp : ['<', '!'] <:+ m.comment := hp
    dsimp only
    split
    · exact ⟨Lex_to_other he _ rfl, hp⟩
    · rename_i h1
      refine ⟨Lex_reconsumeTo_other he _ rfl, Or.inr ⟨rfl, ?_⟩⟩
      show CR m.comment m.currentChar
      rw [hcc]
      exact ⟨fun _ => gtOk_of_ltb hp, fun e => absurd e h1,
        fun _ => not_ends2_of_last (last_of_ltb hp) (by decide)⟩
  -- commentLessThanBangDash
  · rename_i hs
    rw [hs] at hp
    have hp : ['<', '!'] <:+ m.comment := hp
    dsimp only
    split
    · exact ⟨Lex_to_other he _ rfl, hp⟩
    · refine ⟨Lex_reconsumeTo_other he _ rfl, ?_⟩
      show m.comment ≠ [] ∧ m.comment.getLast? ≠ some '-'
      have hl := last_of_ltb hp
      refine ⟨?_, by rw [hl]; decide⟩
      intro e; rw [e] at hl; simp at hl
  -- commentLessThanBangDashDash
  · dsimp only
    split
    · exact Lex.of_none (Lex_reconsumeTo_other he _ rfl) rfl
    · exact Lex.of_none (Lex_reconsumeTo_other (Lex_badChar he o) _ rfl) rfl
  -- commentEndDash
  · rename_i hs
    rw [hs] at hp
    have hp : m.comment ≠ [] ∧ m.comment.getLast? ≠ some '-' := hp
    dsimp only
    split
    · exact Lex.of_none (Lex_to_other he _ rfl) rfl
    · rename_i h1
      refine ⟨Lex_reconsumeTo_other (Lex_pushComment he (Or.inl (by decide))) _ rfl, Or.inr ⟨rfl, ?_⟩⟩
      show CR (m.comment ++ ['-']) m.currentChar
      rw [hcc]
      have hne2 : ¬ ['-', '-'] <:+ (m.comment ++ ['-']) := by
        intro e
        have e' : (['-'] ++ ['-']) <:+ (m.comment ++ ['-']) := e
        rw [ends_snoc] at e'
        exact hp.2 (last_of_ends (u := []) e'.2)
      refine ⟨fun _ => ⟨by simp, ?_, hne2, not_ends3_of_last (getLast_snoc _ _) (by decide)⟩,
        fun e => absurd e h1, fun _ => hne2⟩
      intro e
      have := congrArg List.length e
      simp at this
      exact hp.1 this
  -- commentEnd
  · dsimp only
    split
    · exact Lex.of_none (Lex_to_other (Lex_emitComment he) _ rfl) rfl
    · split
      · exact Lex.of_none (Lex_to_other he _ rfl) rfl
      · split
        · rename_i hs _ _ _
          refine ⟨Lex_pushComment he (Or.inl (by decide)), ?_⟩
          show CmtOK (cmtOf m.state) (pushComment '-' m)
          rw [hs]; trivial
        · rename_i h1 h2 h3
          refine ⟨Lex_reconsumeTo_other (Lex_appendComment he _ (by decide)) _ rfl, Or.inr ⟨rfl, ?_⟩⟩
          show CR (m.comment ++ "--".toList) m.currentChar
          rw [hcc]
          exact ⟨fun e => absurd e h1, fun e => absurd e h3, fun e => absurd e h2⟩
  -- commentEndBang
  · dsimp only
    split
    · refine ⟨Lex_to_other (Lex_appendComment he _ (by decide)) _ rfl, ?_⟩
      show m.comment ++ "--!".toList ≠ [] ∧ (m.comment ++ "--!".toList).getLast? ≠ some '-'
      have e : "--!".toList = ['-', '-'] ++ ['!'] := by decide
      rw [e, ← List.append_assoc, getLast_snoc]
      exact ⟨by simp, by decide⟩
    · split
      · exact Lex.of_none (Lex_to_other (Lex_emitComment (Lex_badChar he o)) _ rfl) rfl
      · rename_i h1 h2
        refine ⟨Lex_reconsumeTo_other (Lex_appendComment he _ (by decide)) _ rfl, Or.inr ⟨rfl, ?_⟩⟩
        show CR (m.comment ++ "--!".toList) m.currentChar
        rw [hcc]
        have e : "--!".toList = ['-', '-'] ++ ['!'] := by decide
        refine ⟨fun e => absurd e h2, fun e => absurd e h1, fun _ => ?_⟩
        rw [e, ← List.append_assoc]
        exact not_ends2_of_last (getLast_snoc _ _) (by decide)
  -- everything after: not comment states
  all_goals (rename_i hs; rw [hs] at hst; cases hst)

/-- outside the comment states the `get_char!` table never enters one (the PI state may enter the bogus
comment state, which needs nothing) -/
theorem transChar_cmtOf (o : Opts) (m : Mach) (c : Char) (hst : isCmtSt m.state = false) :
    cmtOf (transChar o m c).1.state = .none := by
  unfold transChar
  split
  all_goals first
    | (dsimp only; (repeat' split) <;> simp [cmtOf, *]; done)
    | (rename_i hs; rw [hs] at hst; exact absurd hst (by decide))
    | (rename_i hs; simp [hs, cmtOf])

theorem lexT_lexE {m : Mach} {c : Char} (h : LexT m c) : LexE m := h.1

/-- **the `get_char!` table preserves the lexical invariant** -/
theorem transChar_lex (o : Opts) {m : Mach} {c : Char} (h : LexT m c) (hc : QC c) (hcc : m.currentChar = c) :
    Lex (transChar o m c).1 := by
  cases hst : isCmtSt m.state with
  | true => exact transChar_cmt o h hcc hst
  | false => exact Lex.of_none (transChar_lexE o h.1 hc hst) (transChar_cmtOf o m c hst)

end H5V.Lemmas.XmlShapeLex
