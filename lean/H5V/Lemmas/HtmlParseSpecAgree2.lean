import H5V.Lemmas.HtmlParseSpecAgree
import H5V.Lemmas.HtmlParseSpecNoEsc
/-!
Capstone, part: **`agrees_of_stream`** — for a document parse whose delivered token stream is protocol-abiding
and on which the model and `Spec.TreeModes` run in lock-step (`StreamData`), the policy `polOfTree (treeOfSpec c)`
of the specification's coupling agrees with the tree-builder model on every history the joint run passes through
while it can still consult the sink (`Before Hf`: the histories followed by at least one more token).
-/
namespace H5V.Lemmas.ParseSpec
open H5V.Model.HtmlTB
open H5V.Model.Dom (Id SinkOp Output Dom QualName Attr NodeOrText ElementFlags NodeData QuirksMode)
open H5V.Lemmas.HtmlTBAlgo
open H5V.Lemmas.HtmlTBModes
open H5V.Lemmas.TBSafe (TI HInv SInv)
open H5V.Props.C04TB (docStart)
open H5V.Spec.TreeModes (STok ETok IMode Config Out TokSwitch XOp Op Step Edition)
open H5V.Model.HtmlTB.Joint (JState absorb polOf conv convTag toSinkRes)
open H5V.Lemmas.JointChunk
open H5V.Lemmas.HtmlTokSpec (flat flatTok PolTree)
open H5V.Spec.HtmlTokenizer (Emit Tree Switch)
open H5V.Spec.Parse (Cfg treeOfSpec stateAfter treeTok treeTag lastSwitch acnForeign)

/-- the joint state of a document parse before the first token -/
def j0Of (opts : Opts) : JState := { tb := docStart opts }

/-- the histories after which at least one more token is delivered -/
def Before (Hf : TOut) (X : TOut) : Prop := ∃ Y, Hf = Y ++ X ∧ convAll Y.reverse ≠ []

/-- what is known about the token stream of a finished document parse: `Hf` everything the tokenizer delivered
(newest first), `j3` the joint state after it, `x'` the specification's auxiliary state at the end -/
structure StreamData (opts : Opts) (c : Cfg) (Hf : TOut) (j3 : JState) (x' : Aux) : Prop where
  tree : c.tree = cfgOf (docStart opts)
  hist : absorb Hf.reverse (j0Of opts) = .ok j3
  lock : Lock (cfgOf (docStart opts)) c.fuel (docStart opts) { supply := c.supply } (convAll Hf.reverse) j3.tb x'
  resp : Respects2 (docStart opts) (convAll Hf.reverse)
  single : SingleChars Hf

theorem good_docStart (opts : Opts) : H5V.Props.C03.GoodS (docStart opts) :=
  ⟨(fun e he => by cases he), (fun p hp => by cases hp)⟩

/-- the start of a document parse satisfies the invariant of the specification's run -/
theorem xinv_docStart (opts : Opts) : XInv (docStart opts) := by
  intro x hx _
  refine H5V.Lemmas.ModesInv.Good.plain' (m := .initial) (by show imode (docStart opts).mode = _; rfl) (by decide) ?_ ?_
  · intro n t hm; cases hm
  · intro m hm; cases hm

theorem mem_convAll {l : List (TTok × Nat)} {p : TTok × Nat} (hp : p ∈ l) {tt : TokToken} (hc : conv p.1 = some tt) :
    (tt, p.2) ∈ convAll l := by
  unfold convAll
  rw [List.mem_filterMap]
  exact ⟨p, hp, by rw [hc]; rfl⟩

/-- the answers collected by the joint driver only grow -/
theorem absorb_results : ∀ (toks : List (TTok × Nat)) (j j' : JState), absorb toks j = .ok j' →
    ∀ r ∈ j.results, r ∈ j'.results
  | [], j, j', h => by cases h; exact fun _ hr => hr
  | (t, line) :: rest, j, j', h => by
    rw [absorb_cons] at h
    cases hc : conv t with
    | none => rw [hc] at h; exact absorb_results rest j j' h
    | some tt =>
      rw [hc] at h
      simp only at h
      cases hp : (processToken tt line).run j.tb with
      | error e => rw [hp] at h; cases h
      | ok v =>
        obtain ⟨r, tb⟩ := v
        rw [hp] at h
        simp only at h
        by_cases hcnd : (!isTagT tt && r != .continue_) = true
        · rw [if_pos hcnd] at h; cases h
        · rw [if_neg hcnd] at h
          intro r' hr'
          refine absorb_results rest _ j' h r' ?_
          show r' ∈ (if r == .continue_ then j.results else r :: j.results)
          split
          · exact hr'
          · exact List.mem_cons_of_mem _ hr'

/-- delivering one tag token -/
theorem absorb_tag {tag : H5V.Model.HtmlTok.Tag} {l : Nat} {j j' : JState}
    (h : absorb [(H5V.Model.HtmlTok.Token.tag tag, l)] j = .ok j') :
    ∃ r, (processToken (.tag (convTag tag)) l).run j.tb = .ok (r, j'.tb) ∧ (r ≠ .continue_ → r ∈ j'.results) := by
  rw [absorb_cons] at h
  simp only [conv] at h
  cases hp : (processToken (.tag (convTag tag)) l).run j.tb with
  | error e => rw [hp] at h; cases h
  | ok v =>
    obtain ⟨r, tb⟩ := v
    rw [hp] at h
    simp only [isTagT, Bool.not_true, Bool.false_and, Bool.false_eq_true, if_false] at h
    have h' : Except.ok _ = Except.ok j' := h
    cases h'
    refine ⟨r, rfl, fun hr => ?_⟩
    show r ∈ (if r == .continue_ then j.results else r :: j.results)
    have : (r == SinkResult.continue_) = false := by simpa using hr
    rw [this]
    simp

section
variable {opts : Opts} {c : Cfg} {Hf : TOut} {j3 : JState} {x' : Aux}

/-- the two sides after a history that is followed by at least one more token -/
theorem StreamData.pre (hq : opts.quirksMode = .noQuirks) (d : StreamData opts c Hf j3 x') {X Y : TOut}
    (hXY : Hf = Y ++ X) (hY : convAll Y.reverse ≠ []) {jx : JState} (hjx : absorb X.reverse (j0Of opts) = .ok jx) :
    ∃ xp, Lock (cfgOf (docStart opts)) c.fuel (docStart opts) { supply := c.supply } (convAll X.reverse) jx.tb xp ∧
      AuxOk jx.tb xp ∧ MInv jx.tb ∧ TI jx.tb ∧ H5V.Props.C03.GoodS jx.tb ∧ cfgOf jx.tb = cfgOf (docStart opts) ∧
      stateAfter c (flat X) = .ok (absF jx.tb xp) := by
  have hts : convAll Hf.reverse = convAll X.reverse ++ convAll Y.reverse := by
    rw [hXY, List.reverse_append, convAll_append]
  have hl := d.lock
  rw [hts] at hl
  obtain ⟨sp, xp, h1, h2⟩ := Lock.split hl
  have hmod := absorb_model _ _ _ hjx
  have hsp : jx.tb = sp := h1.det hmod
  subst hsp
  have hresp : Respects2 (docStart opts) (convAll X.reverse ++ convAll Y.reverse) := by rw [← hts]; exact d.resp
  have hne := h1.noEof hY hresp
  have hneX : NoEof X := by
    intro p hp he
    have hm : (TokToken.eof, p.2) ∈ convAll X.reverse :=
      mem_convAll (l := X.reverse) (p := p) (by simpa using hp) (by rw [he]; rfl)
    exact hne _ hm rfl
  have hsX : SingleChars X := fun p hp => d.single p (by rw [hXY]; simp [hp])
  obtain ⟨a1, a2, a3, _⟩ := h1.inv (H5V.Props.C04TB.C04_tb_inv_new opts) (H5V.Props.C02.minv_docStart opts)
  refine ⟨xp, h1, h1.aux (H5V.Props.C02.auxOk_docStart opts _) hne, a2, a1, h1.good (good_docStart opts), a3, ?_⟩
  unfold stateAfter
  rw [← specToks_convAll X hsX hneX, d.tree]
  have := (h1.runStd (xinv_docStart opts _ (H5V.Props.C02.auxOk_docStart opts _))).1
  rw [H5V.Props.C02.absF_docStart opts hq] at this
  exact this

theorem StreamData.agC (hq : opts.quirksMode = .noQuirks) (d : StreamData opts c Hf j3 x') {X : TOut}
    (hP : Before Hf X) : AgC (polOfTree (treeOfSpec c)) (j0Of opts) X := by
  intro jx hjx
  obtain ⟨Y, hXY, hY⟩ := hP
  obtain ⟨xp, _, haux, hminv, _, _, hcfg, hst⟩ := d.pre hq hXY hY hjx
  show (match stateAfter c (flat X) with | .ok s => acnForeign c.tree s | .error _ => false) = tbCdata jx
  rw [hst]
  obtain ⟨s1, hs1⟩ := acn_bridge hminv xp haux
  unfold tbCdata
  rw [hs1, d.tree, hcfg]

theorem tbTag_of_run {jx : JState} {tag : H5V.Model.HtmlTok.Tag} {l : Nat} {r : SinkResult} {s1 : State}
    (hg : H5V.Props.C03.GoodS jx.tb) (h : (processToken (.tag (convTag tag)) l).run jx.tb = .ok (r, s1)) :
    tbTag jx tag = toSinkRes r := by
  have hsim := H5V.Props.C03.C03_tb_sim_step (.tag (convTag tag)) l 1 jx.tb jx.tb hg.sim
  have h' : processToken (.tag (convTag tag)) l jx.tb = .ok (r, s1) := h
  rw [h'] at hsim
  unfold tbTag
  cases h1 : (processToken (.tag (convTag tag)) 1).run jx.tb with
  | error e =>
    have h1' : processToken (.tag (convTag tag)) 1 jx.tb = .error e := h1
    rw [h1'] at hsim
    exact hsim.elim
  | ok v =>
    obtain ⟨r', t'⟩ := v
    have h1' : processToken (.tag (convTag tag)) 1 jx.tb = .ok (r', t') := h1
    rw [h1'] at hsim
    obtain ⟨e, _, _⟩ := hsim
    subst e
    rfl

theorem answer_eq {r : SinkResult} {o : Out Id} (hrel : OutRelR r {} o)
    (hesc : ∀ e, r ≠ SinkResult.rawData (.scriptDataEscaped e)) :
    sinkResOf (H5V.Spec.Parse.switchOf o.switch) = np (toSinkRes r) := by
  cases r with
  | continue_ =>
    obtain ⟨h1, _⟩ := hrel
    rw [h1]; rfl
  | script n =>
    obtain ⟨_, h1⟩ := hrel
    rw [h1]; rfl
  | plaintext =>
    obtain ⟨h1, _⟩ := hrel
    rw [h1]; rfl
  | rawData k =>
    obtain ⟨h1, _⟩ := hrel
    rw [h1]
    cases k with
    | rcdata => rfl
    | rawtext => rfl
    | scriptData => rfl
    | scriptDataEscaped e => exact absurd rfl (hesc e)
  | encodingIndicator e =>
    obtain ⟨h1, _⟩ := hrel
    rw [h1]; rfl

theorem StreamData.agT (hq : opts.quirksMode = .noQuirks) (d : StreamData opts c Hf j3 x') {X : TOut}
    {tag : H5V.Model.HtmlTok.Tag} {l : Nat} (hP : Before Hf ((H5V.Model.HtmlTok.Token.tag tag, l) :: X)) :
    AgT (polOfTree (treeOfSpec c)) (j0Of opts) X tag := by
  intro jx hjx
  obtain ⟨Y, hXY, hY⟩ := hP
  -- the joint state after the tag
  have hh := d.hist
  rw [hXY, List.reverse_append, List.reverse_cons] at hh
  obtain ⟨jx', hjx', hrest⟩ := absorb_append_ok hh
  obtain ⟨jx0, hjx0, htag⟩ := absorb_append_ok hjx'
  rw [hjx] at hjx0
  cases hjx0
  obtain ⟨r, hrun, hres⟩ := absorb_tag htag
  -- the state before the tag
  have hXY0 : Hf = (Y ++ [(H5V.Model.HtmlTok.Token.tag tag, l)]) ++ X := by rw [hXY]; simp
  have hY0 : convAll (Y ++ [(H5V.Model.HtmlTok.Token.tag tag, l)]).reverse ≠ [] := by
    rw [List.reverse_append, convAll_append]
    simp [convAll, conv]
  obtain ⟨xp0, hl0, _, _, _, hgood, _, _⟩ := d.pre hq hXY0 hY0 hjx
  -- the state after the tag
  have hjx'' : absorb ((H5V.Model.HtmlTok.Token.tag tag, l) :: X).reverse (j0Of opts) = .ok jx' := by
    rw [List.reverse_cons]; exact hjx'
  obtain ⟨xp, hl, _, _, _, _, _, hst⟩ := d.pre hq hXY hY hjx''
  have hcv : convAll ((H5V.Model.HtmlTok.Token.tag tag, l) :: X).reverse =
      convAll X.reverse ++ [(TokToken.tag (convTag tag), l)] := by
    rw [List.reverse_cons, convAll_append]; rfl
  rw [hcv] at hl
  obtain ⟨sp0, xq, r0, hlq, hs⟩ := Lock.last hl
  have hsp0 : jx.tb = sp0 := hlq.det (absorb_model _ _ _ hjx)
  subst hsp0
  have hr0 : r0 = r := by
    have := hs.run
    rw [hrun] at this
    cases this; rfl
  subst hr0
  rcases hs.spec with ⟨h0, _⟩ | ⟨st, o, _, ho, hrel, _⟩
  · simp [specTokOf] at h0
  · show sinkResOf (match stateAfter c (Emit.tag tag :: flat X) with | .ok s => lastSwitch s | .error _ => Switch.none)
        = np (tbTag jx tag)
    have hfl : flat ((H5V.Model.HtmlTok.Token.tag tag, l) :: X) = Emit.tag tag :: flat X := rfl
    rw [hfl] at hst
    rw [hst, tbTag_of_run hgood hrun]
    have hlast : lastSwitch (absF jx'.tb xp) = H5V.Spec.Parse.switchOf o.switch := by
      unfold lastSwitch
      show (match xp.outs.getLast? with | some o => H5V.Spec.Parse.switchOf o.switch | none => Switch.none) = _
      rw [ho]
      simp
    simp only [hlast]
    refine answer_eq hrel (fun e he => ?_)
    rw [he] at hrun
    have := processToken_rawKind _ _ _ _ _ hrun
    simp at this

/-- **the bridge**: the policy of the specification's coupling agrees with the tree-builder model on every
history the joint run passes through while it can still consult the sink -/
theorem agrees_of_stream (hq : opts.quirksMode = .noQuirks) (d : StreamData opts c Hf j3 x') :
    Agrees (polOfTree (treeOfSpec c)) (j0Of opts) (Before Hf) where
  suf := by
    rintro Z X ⟨Y, hY, hne⟩
    refine ⟨Y ++ Z, by rw [hY, List.append_assoc], ?_⟩
    rw [List.reverse_append, convAll_append]
    intro h
    exact hne (List.append_eq_nil_iff.mp h).2
  tag := fun X tag l hP => d.agT hq hP
  cdata := fun X hP => d.agC hq hP

end

end H5V.Lemmas.ParseSpec
