import H5V.Lemmas.HtmlTBSkelShapeTable
/-!
C06, second invariant layer, part 29: the InTable rules (also used by InTableBody and InRow), InTableText.
-/
namespace H5V.Props.C06
open H5V.Model.Dom hiding Str
open H5V.Model.HtmlTB hiding Str
open H5V.Lemmas.Dom
set_option synthInstance.maxSize 4096
set_option synthInstance.maxHeartbeats 400000

theorem Good.setFp {r : Id} {s : State} (h : Good r s) (b : Bool) : Good r { s with fosterParenting := b } := by
  obtain ⟨up, ph, hs, _⟩ := h
  exact ⟨up, ph, ⟨hs.core.free rfl rfl rfl rfl rfl rfl rfl rfl rfl rfl rfl, hs.fits⟩, fun _ => FPok.triv _ _⟩

theorem Out.setFp {r : Id} {s : State} {res : ProcessResult} (h : Out r s res) (b : Bool) :
    Out r { s with fosterParenting := b } res := by
  cases res with
  | reprocess m t => exact ⟨Good.setFp h.1 b, h.2⟩
  | reprocessForeign t => exact ⟨Good.setFp h.1 b, h.2⟩
  | done => exact Good.setFp h b
  | doneAckSelfClosing => exact Good.setFp h b
  | splitWhitespace t => exact Good.setFp h b
  | script n => exact Good.setFp h b
  | toPlaintext => exact Good.setFp h b
  | toRawData k => exact Good.setFp h b
  | encodingIndicator e => exact Good.setFp h b

/-- `foster_parent_in_body`: the InBody rules with the foster-parenting flag set -/
theorem fosterParentInBody_good {tok : Token} [ht : TokW tok] {r : Id} {s s' : State} {m : Mode}
    {res : ProcessResult} (hg : Good r s) (hm : s.mode = m) (hbl : isBL m = true)
    (hside : ∀ tag, tok = .tag tag → GenEnd tag m) (e : fosterParentInBody tok s = .ok (res, s')) : Out r s' res := by
  unfold fosterParentInBody at e
  obtain ⟨_, s1, e1, e2⟩ := bind_ok.mp e
  obtain ⟨_, rfl⟩ := modS_ok.mp e1
  obtain ⟨res1, s2, e3, e4⟩ := bind_ok.mp e2
  obtain ⟨_, s3, e5, e6⟩ := bind_ok.mp e4
  obtain ⟨_, rfl⟩ := modS_ok.mp e5
  obtain ⟨rfl, rfl⟩ := pure_ok.mp e6
  have h2 : Out r s2 res1 := stepInBody_good2 (hg.setFp true) hm hbl hside e3
  exact h2.setFp false


/-- a table-structure element is inserted on a current node that admits it -/
theorem insertStruct_big {m : Mode} {r : Id} {ph : Phase} {s s' : State} {name : Str} {attrs : List Attr}
    {dup : Bool} {el t : Id} (hb : Big m r ph s) (ht : s.openElems.getLast? = some t)
    (hpred : predOk ⟨nsHtml, name⟩ (nm s.dom t) = true)
    (hname : htmlIn ⟨nsHtml, name⟩ ["html", "body", "head", "frameset"] = false)
    (hnt : (⟨nsHtml, name⟩ : EName) ≠ hN "template")
    (e : insertElement true nsHtml name attrs dup s = .ok (el, s')) :
    Big m r ph s' ∧ s'.mode = s.mode ∧ s'.origMode = s.origMode ∧ nm s'.dom el = ⟨nsHtml, name⟩ ∧
      s'.openElems = s.openElems ++ [el] := by
  obtain ⟨h1, h2, h3, h4, _, _, h7, _⟩ := insertElement_gen hb
    (fun _ => ⟨fun t' ht' => by rw [ht] at ht'; cases ht'; exact hpred, hname, fun h => absurd h hnt⟩) e
  simp only [if_true] at h7
  exact ⟨h1, h2, h3, h4, h7⟩

/-- no element above the root is called `html` -/
theorem Big.not_html {m : Mode} {r : Id} {ph : Phase} {s : State} (h : Big m r ph s) {t : Id}
    (ht : t ∈ s.openElems) (hr : t ≠ r) : nm s.dom t ≠ hN "html" := by
  obtain ⟨up, b0, u0, hc, hup, hb0⟩ := h.bottom
  obtain ⟨_, _, hbb, _, _⟩ := id h
  intro hn
  rw [hc.stack] at ht
  rcases List.mem_cons.mp ht with h1 | h1
  · exact hr h1
  · rw [hup] at h1
    rcases List.mem_cons.mp h1 with h2 | h2
    · subst h2
      obtain ⟨a, ha, heq⟩ := htmlIn_eq hb0
      rw [hn] at heq
      simp only [List.mem_cons, List.not_mem_nil, or_false] at ha
      rcases ha with rfl | rfl | rfl <;> (revert heq; decide)
    · have hbb' : BodyBase s.dom s.headElem up ph := by
        obtain ⟨up2, hc2, hbb2, _, _⟩ := id h
        have : up2 = up := by
          have h3 := hc2.stack; rw [hc.stack] at h3; exact (List.cons.inj h3).2.symm
        rw [← this]; exact hbb2
      have := hc.bh4 hbb'.notPf t (by rw [hup]; exact h2)
      rw [hn] at this; revert this; decide

theorem mem_up_of_last {r t : Id} {l up : List Id} (hst : l = r :: up) (ht : l.getLast? = some t) (hr : t ≠ r) :
    t ∈ up := by
  have := List.mem_of_getLast? ht
  rw [hst] at this
  rcases List.mem_cons.mp this with h1 | h1
  · exact absurd h1 hr
  · exact h1

/-- the end tags that reach the generic end-tag arm of the InBody rules from a table mode -/
theorem genEnd_of {tag : Tag} {m : Mode}
    (hex : ∀ a ∈ ["html", "table", "caption", "colgroup", "tbody", "td", "tfoot", "th", "thead", "tr", "body"],
      tag.isEnd [a] = false) : GenEnd tag m := by
  intro hk h2 hkeep
  left
  have hke : tag.kind = .endTag := by
    cases hq : tag.kind with
    | endTag => rfl
    | startTag => rw [hq] at hk; exact absurd rfl hk
  have hexn : ∀ a ∈ ["html", "table", "template", "caption", "colgroup", "tbody", "td", "tfoot", "th", "thead", "tr",
      "body"], tag.name ≠ a.toList := by
    intro a ha hname
    have hsingle : tag.isEnd [a] = true := by
      unfold Tag.isEnd isOneOf
      rw [hke, hname]
      simp
    by_cases hat : a = "template"
    · subst hat
      exact h2 (by rw [hsingle]; simp)
    · have := hex a (by
        simp only [List.mem_cons, List.not_mem_nil, or_false] at ha ⊢
        rcases ha with rfl | rfl | rfl | rfl | rfl | rfl | rfl | rfl | rfl | rfl | rfl | rfl <;> simp at hat ⊢)
      rw [hsingle] at this; cases this
  rcases keepName_cases hkeep with hst | hb
  · exfalso
    unfold constrained at hst
    obtain ⟨a, ha, heq⟩ := htmlIn_eq hst
    have hname : tag.name = a.toList := congrArg EName.loc heq
    simp only [List.mem_cons, List.not_mem_nil, or_false] at ha
    rcases ha with rfl | rfl | rfl | rfl | rfl | rfl | rfl | rfl <;> exact hexn _ (by simp) hname
  · obtain ⟨a, ha, heq⟩ := htmlIn_eq hb
    have hname : tag.name = a.toList := congrArg EName.loc heq
    simp only [List.mem_cons, List.not_mem_nil, or_false] at ha
    rcases ha with rfl | rfl | rfl | rfl | rfl | rfl
    · exact absurd hname (hexn _ (by simp))
    · exact absurd hname (hexn _ (by simp))
    · exact absurd hname (hexn _ (by simp))
    · exact absurd hname (hexn _ (by simp))
    · rw [hname]; decide
    · rw [hname]; decide


def isT3 (m : Mode) : Prop := m = .inTable ∨ m = .inTableBody ∨ m = .inRow

theorem isT3.bl {m : Mode} (h : isT3 m) : isBL m = true := by
  rcases h with rfl | rfl | rfl <;> rfl

/-- `process_chars_in_table` -/
theorem processCharsInTable_good {tok : Token} [ht : TokW tok] (hnt : ∀ tag, tok ≠ .tag tag) {r : Id} {s s' : State}
    {m : Mode} {res : ProcessResult} (hg : Good r s) (hm : s.mode = m) (h3 : isT3 m)
    (e : processCharsInTable tok s = .ok (res, s')) : Out r s' res := by
  have hbl := h3.bl
  unfold processCharsInTable at e
  obtain ⟨b, s1, e1, e2⟩ := bind_ok.mp e
  have q1 : QS s s1 := IsQ.q _ _ _ e1
  have hg1 := hg.qs q1
  have hm1 : s1.mode = m := q1.mode.trans hm
  rcases ite_run e2 with ⟨_, e2⟩ | ⟨_, e2⟩
  · rw [getS_bind] at e2
    rcases ite_run e2 with ⟨_, e2⟩ | ⟨_, e2⟩
    · obtain ⟨_, _, h1, _⟩ := bind_ok.mp e2
      exact absurd h1 panicAt_ok
    · obtain ⟨_, s2, e3, e4⟩ := bind_ok.mp e2
      obtain ⟨_, rfl⟩ := modS_ok.mp e3
      obtain ⟨rfl, rfl⟩ := pure_ok.mp e4
      refine ⟨?_, ht⟩
      obtain ⟨up, ph, hs, _⟩ := hg1
      have hfit := fits_of_fitsM hbl hm1 hs.fits
      refine Good.mk' (up := up) (ph := ph) ⟨hs.core.modes (m' := .inTableText) (om' := some s1.mode) rfl
        (by intro o ho; cases ho; exact hs.core.late.ml.mode), ?_⟩
      show FitsM _ up ph
      unfold FitsM
      exact ⟨s1.mode, rfl, by rw [hm1]; exact h3, by rw [hm1]; exact hfit⟩
  · obtain ⟨_, s2, e3, e4⟩ := bind_ok.mp e2
    have q2 := qs_parseError e3
    refine fosterParentInBody_good (hg1.qs q2) (q2.mode.trans hm1) hbl (fun tag h => absurd h (hnt tag)) e4


/-- "clear the stack back to a table (table body, table row) context" in the mode whose witness is
one of the names `wl` -/
theorem popCtxM {m : Mode} {ctx : EName → Bool} {wl : List String} {r : Id} {ph : Phase} {s s' : State} {u : Unit}
    (hctx : ∀ n, ctx n = true → n = hN "html" ∨ htmlIn n wl = true)
    (hwl : ∀ n, htmlIn n wl = true → ctx n = true)
    (hneed : ∀ d up, Need d m up ↔ ∃ x ∈ up, htmlIn (nm d x) wl = true)
    (htm : ctx (hN "template") = true)
    (hb : Big m r ph s) (e : popUntilCurrent ctx s = .ok (u, s')) :
    Big m r ph s' ∧ s'.mode = s.mode ∧ s'.origMode = s.origMode ∧
      ∃ t, s'.openElems.getLast? = some t ∧ htmlIn (nm s'.dom t) wl = true ∧ t ≠ r := by
  obtain ⟨up, hc, _, hn, _⟩ := id hb
  obtain ⟨x, hx, hxw⟩ := (hneed _ _).mp hn
  obtain ⟨h1, h2, h3, t, ht, htc, htr⟩ := popCtx_big (m' := .inBody) hb
    ⟨x, by rw [hc.stack]; exact List.mem_cons_of_mem _ hx, hc.up_ne_root hx, hwl _ hxw⟩ htm e
    (fun _ _ _ => trivial)
  have htw : htmlIn (nm s'.dom t) wl = true := by
    rcases hctx _ htc with hh | hh
    · exact absurd hh (h1.not_html (List.mem_of_getLast? ht) htr)
    · exact hh
  exact ⟨h1.reNeed (fun up' hup => (hneed _ _).mpr ⟨t, mem_up_of_last hup ht htr, htw⟩), h2, h3, t, ht, htw, htr⟩


theorem popTable {r : Id} {ph : Phase} {s s' : State} {u : Unit} (hb : Big .inTable r ph s)
    (e : popUntilCurrent tableScope s = .ok (u, s')) :
    Big .inTable r ph s' ∧ s'.mode = s.mode ∧ s'.origMode = s.origMode ∧
      ∃ t, s'.openElems.getLast? = some t ∧ htmlIn (nm s'.dom t) ["table", "template"] = true ∧ t ≠ r :=
  popCtxM (wl := ["table", "template"])
    (fun n hn => by
      obtain ⟨a, ha, rfl⟩ := htmlIn_eq hn
      simp only [List.mem_cons, List.not_mem_nil, or_false] at ha
      rcases ha with rfl | rfl | rfl
      · exact Or.inl rfl
      · exact Or.inr (by decide)
      · exact Or.inr (by decide))
    (fun n hn => by
      obtain ⟨a, ha, rfl⟩ := htmlIn_eq hn
      simp only [List.mem_cons, List.not_mem_nil, or_false] at ha
      rcases ha with rfl | rfl <;> decide)
    (fun _ _ => Iff.rfl) (by decide) hb e

theorem popTBody {r : Id} {ph : Phase} {s s' : State} {u : Unit} (hb : Big .inTableBody r ph s)
    (e : popUntilCurrent tableBodyContext s = .ok (u, s')) :
    Big .inTableBody r ph s' ∧ s'.mode = s.mode ∧ s'.origMode = s.origMode ∧
      ∃ t, s'.openElems.getLast? = some t ∧ htmlIn (nm s'.dom t) ["tbody", "tfoot", "thead", "template"] = true ∧
        t ≠ r :=
  popCtxM (wl := ["tbody", "tfoot", "thead", "template"])
    (fun n hn => by
      obtain ⟨a, ha, rfl⟩ := htmlIn_eq hn
      simp only [List.mem_cons, List.not_mem_nil, or_false] at ha
      rcases ha with rfl | rfl | rfl | rfl | rfl
      · exact Or.inr (by decide)
      · exact Or.inr (by decide)
      · exact Or.inr (by decide)
      · exact Or.inr (by decide)
      · exact Or.inl rfl)
    (fun n hn => by
      obtain ⟨a, ha, rfl⟩ := htmlIn_eq hn
      simp only [List.mem_cons, List.not_mem_nil, or_false] at ha
      rcases ha with rfl | rfl | rfl | rfl <;> decide)
    (fun _ _ => Iff.rfl) (by decide) hb e

theorem popRow {r : Id} {ph : Phase} {s s' : State} {u : Unit} (hb : Big .inRow r ph s)
    (e : popUntilCurrent tableRowContext s = .ok (u, s')) :
    Big .inRow r ph s' ∧ s'.mode = s.mode ∧ s'.origMode = s.origMode ∧
      ∃ t, s'.openElems.getLast? = some t ∧ htmlIn (nm s'.dom t) ["tr", "template"] = true ∧ t ≠ r :=
  popCtxM (wl := ["tr", "template"])
    (fun n hn => by
      obtain ⟨a, ha, rfl⟩ := htmlIn_eq hn
      simp only [List.mem_cons, List.not_mem_nil, or_false] at ha
      rcases ha with rfl | rfl | rfl
      · exact Or.inr (by decide)
      · exact Or.inr (by decide)
      · exact Or.inl rfl)
    (fun n hn => by
      obtain ⟨a, ha, rfl⟩ := htmlIn_eq hn
      simp only [List.mem_cons, List.not_mem_nil, or_false] at ha
      rcases ha with rfl | rfl <;> decide)
    (fun _ _ => Iff.rfl) (by decide) hb e

/-- a table-structure element is inserted on the context node, and the mode is switched -/
theorem sectionIns {m m' : Mode} {wl names : List String} {name : Str} {attrs : List Attr} {dup : Bool}
    {r el t : Id} {ph : Phase} {s1 s2 : State}
    (hname : ∃ a ∈ names, name = a.toList) (hb : Big m r ph s1)
    (ht : s1.openElems.getLast? = some t) (htw : htmlIn (nm s1.dom t) wl = true)
    (hpred : ∀ a ∈ names, ∀ p ∈ wl, predOk (hN a) (hN p) = true)
    (hnm : ∀ a ∈ names, htmlIn (hN a) ["html", "body", "head", "frameset", "template"] = false)
    (hbl' : isBL m' = true)
    (hneed' : ∀ d up e0, e0 ∈ up → (∃ a ∈ names, nm d e0 = hN a) → Need d m' up)
    (e1 : insertElement true nsHtml name attrs dup s1 = .ok (el, s2)) :
    Big m' r ph { s2 with mode := m' } ∧ s2.origMode = s1.origMode := by
  obtain ⟨a, ha, rfl⟩ := hname
  obtain ⟨p, hp, hpn⟩ := htmlIn_eq htw
  have hk := hnm a ha
  obtain ⟨h1, h2, h3, h4, h5⟩ := insertStruct_big (name := a.toList) hb ht (by rw [hpn]; exact hpred a ha p hp)
    (by
      cases hq : htmlIn (⟨nsHtml, a.toList⟩ : EName) ["html", "body", "head", "frameset"] with
      | false => rfl
      | true =>
        obtain ⟨b, hb', heq⟩ := htmlIn_eq hq
        have : hN a = hN b := heq
        rw [this] at hk
        simp only [List.mem_cons, List.not_mem_nil, or_false] at hb'
        rcases hb' with rfl | rfl | rfl | rfl <;> exact absurd hk (by decide))
    (by
      intro heq
      have : hN a = hN "template" := heq
      rw [this] at hk; exact absurd hk (by decide)) e1
  refine ⟨(h1.reNeed (fun up hup => hneed' _ up el ?_ ⟨a, ha, h4⟩)).setMode (isLate_of_bl hbl'), h3⟩
  obtain ⟨up1, hc1, _⟩ := hb
  rw [h5, hc1.stack] at hup
  have : r :: (up1 ++ [el]) = r :: up := hup
  rw [← (List.cons.inj this).2]; simp


/-- `pop_until(P)` when an element satisfying `P` is in table scope -/
theorem popUntilScope {m m' : Mode} {r : Id} {ph : Phase} {s s' : State} {P : EName → Bool} {k : Nat}
    (hb : Big m r ph s) (hi : InScP tableScope P s)
    (hP : ∀ n, P n = true → htmlIn n ["html", "body", "head", "template"] = false)
    (e : popUntil P s = .ok (k, s'))
    (hneed : ∀ up', s'.openElems = r :: up' → Need s'.dom m' up') :
    Big m' r ph s' ∧ s'.mode = s.mode ∧ s'.origMode = s.origMode := by
  obtain ⟨popped, p, hcase⟩ := popUntil_sem e
  refine ⟨hb.popScope hi hP p ?_ hneed, by rw [p.rest], by rw [p.rest]⟩
  intro below x above hst hx hab y hy
  rcases hcase with ⟨m0, above', rfl, hm0, hab'⟩ | ⟨hemp, hall⟩
  · have hps := p.stack
    rw [hst] at hps
    obtain ⟨_, h2, h3⟩ := last_split_unique (p := fun z => P (nm s.dom z)) hps hx hm0
      (fun z hz => (hab z hz).1) hab'
    rcases List.mem_cons.mp hy with h1 | h1
    · left; rw [h1, h2]
    · right; rw [h3]; exact h1
  · exfalso
    have hps := p.stack
    rw [hemp, hst] at hps
    simp only [List.nil_append] at hps
    have := hall x (by rw [← hps]; simp)
    rw [hx] at this; cases this

theorem namedP_table_ok : ∀ n, namedP "table".toList n = true → htmlIn n ["html", "body", "head", "template"] = false := by
  intro n hn; rw [namedP_eq hn]; decide


theorem reset_good_set {m : Mode} {r : Id} {ph : Phase} {s s1 s' : State} {m' : Mode} {u : Unit} (hb : Big m r ph s)
    (e1 : resetInsertionMode s = .ok (m', s1)) (e2 : setMode m' s1 = .ok (u, s')) : Good r s' := by
  obtain ⟨up, hc, hbs⟩ := hb.base
  exact Good.mk' (reset_shape hc hbs e1 e2).1

theorem reset_good_re {m : Mode} {r : Id} {ph : Phase} {s s1 : State} {m' : Mode} (hb : Big m r ph s)
    (e1 : resetInsertionMode s = .ok (m', s1)) : Good r { s1 with mode := m' } := by
  obtain ⟨up, hc, hbs⟩ := hb.base
  obtain ⟨q, hfit, hn1, hn2⟩ := reset_fits hc hbs e1
  have hc1 := hc.qs q
  refine Good.mk' (up := up) (ph := ph) ⟨hc1.modes (isLate_of_fits hfit) hc1.late.ml.orig, ?_⟩
  refine fitsM_of_fits hn1 hn2 rfl ?_
  show Fits s1.dom s1.headElem m' up ph
  have : s1.headElem = s.headElem := by rw [q.rest]
  rw [this]; exact hfit.congr (fun x _ => q.nm x)

theorem Good.bigOf {r : Id} {s : State} {m : Mode} (h : Good r s) (hm : s.mode = m) (hbl : isBL m = true) :
    ∃ ph, Big m r ph s := h.big hm hbl

theorem isEnd_single_false {tag : Tag} {l : List String} {a : String} (h : tag.isEnd l = false) (ha : a ∈ l) :
    tag.isEnd [a] = false := by
  cases hq : tag.isEnd [a] with
  | false => rfl
  | true =>
    obtain ⟨b, hb, hn, hk⟩ := name_of_isEnd hq
    simp only [List.mem_cons, List.not_mem_nil, or_false] at hb
    subst hb
    have : tag.isEnd l = true := by
      unfold Tag.isEnd isOneOf
      simp only [Bool.and_eq_true, beq_iff_eq, List.any_eq_true]
      exact ⟨hk, b, ha, hn.symm⟩
    rw [h] at this; cases this

theorem bool_false_of_not {b : Bool} (h : ¬ b = true) : b = false := by
  cases b with
  | false => rfl
  | true => exact absurd rfl h

set_option maxHeartbeats 1600000 in
/-- **the InTable rules**, used in the modes InTable, InTableBody, InRow (the latter two do not pass
on the start tags of table-structure elements) -/
theorem stepInTable_good {tok : Token} [ht : TokW tok] {r : Id} {s s' : State} {m : Mode} {res : ProcessResult}
    (hg : Good r s) (hm : s.mode = m) (h3 : isT3 m)
    (hside : m ≠ .inTable → ∀ tag, tok = .tag tag →
      tag.isStart ["caption", "colgroup", "col", "tbody", "tfoot", "thead", "td", "th", "tr"] = false)
    (e : stepInTable tok s = .ok (res, s')) : Out r s' res := by
  have hbl := h3.bl
  unfold stepInTable at e
  cases tok with
  | nullChar => dsimp only at e; exact processCharsInTable_good (by intro t h; cases h) hg hm h3 e
  | chars st text => dsimp only at e; exact processCharsInTable_good (by intro t h; cases h) hg hm h3 e
  | comment text =>
    dsimp only at e
    exact (inferInstance : RB (appendComment text)).good hg hm hbl e
  | eof => dsimp only at e; exact stepInBody_good2 hg hm hbl (by intro t h; cases h) e
  | tag tag =>
    dsimp only at e
    obtain ⟨ph, hb⟩ := hg.big hm hbl
    have unexp : unexpected s = .ok (res, s') → Out r s' res := by
      intro e0
      obtain ⟨q, rfl⟩ := qs_unexpected e0
      exact hg.qs q
    -- the arms for the table-structure start tags: the mode is InTable
    have hT : ∀ l, tag.isStart l = true → (∀ a ∈ l, a ∈ ["caption", "colgroup", "col", "tbody", "tfoot", "thead", "td",
        "th", "tr"]) → m = .inTable := by
      intro l hl hsub
      cases hq : decide (m = .inTable) with
      | true => exact of_decide_eq_true hq
      | false =>
        have := hside (of_decide_eq_false hq) tag rfl
        rw [isStart_sub hl hsub] at this; cases this
    rcases ite_run e with ⟨h1, e⟩ | ⟨h1, e⟩
    · -- <caption>
      have hmT := hT _ h1 (by decide); subst hmT
      obtain ⟨_, s1, e1, e2⟩ := bind_ok.mp e
      obtain ⟨hb1, hm1, _, t, ht1, htw, _⟩ := popTable hb e1
      obtain ⟨_, s2, e3, e4⟩ := bind_ok.mp e2
      obtain ⟨hb2, hm2, _⟩ := (inferInstance : PB pushMarker).p _ _ _ _ _ _ hb1 e3
      unfold pushMarker at e3
      obtain ⟨_, rfl⟩ := modS_ok.mp e3
      obtain ⟨el, s3, e5, e6⟩ := bind_ok.mp e4
      unfold insertElementFor at e5
      obtain ⟨a, ha, hn, _⟩ := name_of_isStart h1
      obtain ⟨hb3, _⟩ := sectionIns (m' := .inCaption) (wl := ["table", "template"]) (names := ["caption"])
        ⟨a, ha, hn⟩ hb2 ht1 htw (by decide) (by decide) rfl (fun _ _ _ _ _ => trivial) e5
      obtain ⟨_, s4, e7, e8⟩ := bind_ok.mp e6
      unfold setMode at e7
      obtain ⟨_, rfl⟩ := modS_ok.mp e7
      obtain ⟨rfl, rfl⟩ := pure_ok.mp e8
      exact hb3.good rfl rfl
    rcases ite_run e with ⟨h2, e⟩ | ⟨h2, e⟩
    · -- <colgroup>
      have hmT := hT _ h2 (by decide); subst hmT
      obtain ⟨_, s1, e1, e2⟩ := bind_ok.mp e
      obtain ⟨hb1, hm1, _, t, ht1, htw, _⟩ := popTable hb e1
      obtain ⟨el, s3, e5, e6⟩ := bind_ok.mp e2
      unfold insertElementFor at e5
      obtain ⟨a, ha, hn, _⟩ := name_of_isStart h2
      obtain ⟨hb3, _⟩ := sectionIns (m' := .inColumnGroup) (wl := ["table", "template"]) (names := ["colgroup"])
        ⟨a, ha, hn⟩ hb1 ht1 htw (by decide) (by decide) rfl (fun _ _ _ _ _ => trivial) e5
      obtain ⟨_, s4, e7, e8⟩ := bind_ok.mp e6
      unfold setMode at e7
      obtain ⟨_, rfl⟩ := modS_ok.mp e7
      obtain ⟨rfl, rfl⟩ := pure_ok.mp e8
      exact hb3.good rfl rfl
    rcases ite_run e with ⟨h3', e⟩ | ⟨h3', e⟩
    · -- <col>
      have hmT := hT _ h3' (by decide); subst hmT
      obtain ⟨_, s1, e1, e2⟩ := bind_ok.mp e
      obtain ⟨hb1, hm1, _, t, ht1, htw, _⟩ := popTable hb e1
      obtain ⟨el, s3, e5, e6⟩ := bind_ok.mp e2
      unfold insertPhantom at e5
      obtain ⟨hb3, _⟩ := sectionIns (m' := .inColumnGroup) (wl := ["table", "template"]) (names := ["colgroup"])
        ⟨"colgroup", by simp, rfl⟩ hb1 ht1 htw (by decide) (by decide) rfl (fun _ _ _ _ _ => trivial) e5
      obtain ⟨rfl, rfl⟩ := pure_ok.mp e6
      exact ⟨hb3.good rfl rfl, inferInstance⟩
    rcases ite_run e with ⟨h4, e⟩ | ⟨h4, e⟩
    · -- <tbody>, <tfoot>, <thead>
      have hmT := hT _ h4 (by decide); subst hmT
      obtain ⟨_, s1, e1, e2⟩ := bind_ok.mp e
      obtain ⟨hb1, hm1, _, t, ht1, htw, _⟩ := popTable hb e1
      obtain ⟨el, s3, e5, e6⟩ := bind_ok.mp e2
      unfold insertElementFor at e5
      obtain ⟨a, ha, hn, _⟩ := name_of_isStart h4
      obtain ⟨hb3, _⟩ := sectionIns (m' := .inTableBody) (wl := ["table", "template"])
        (names := ["tbody", "tfoot", "thead"]) ⟨a, ha, hn⟩ hb1 ht1 htw (by decide) (by decide) rfl
        (fun d up e0 he0 ⟨a', ha', hn'⟩ => ⟨e0, he0, by
          rw [hn']
          simp only [List.mem_cons, List.not_mem_nil, or_false] at ha'
          rcases ha' with rfl | rfl | rfl <;> decide⟩) e5
      obtain ⟨_, s4, e7, e8⟩ := bind_ok.mp e6
      unfold setMode at e7
      obtain ⟨_, rfl⟩ := modS_ok.mp e7
      obtain ⟨rfl, rfl⟩ := pure_ok.mp e8
      exact hb3.good rfl rfl
    rcases ite_run e with ⟨h5, e⟩ | ⟨h5, e⟩
    · -- <td>, <th>, <tr>
      have hmT := hT _ h5 (by decide); subst hmT
      obtain ⟨_, s1, e1, e2⟩ := bind_ok.mp e
      obtain ⟨hb1, hm1, _, t, ht1, htw, _⟩ := popTable hb e1
      obtain ⟨el, s3, e5, e6⟩ := bind_ok.mp e2
      unfold insertPhantom at e5
      obtain ⟨hb3, _⟩ := sectionIns (m' := .inTableBody) (wl := ["table", "template"]) (names := ["tbody"])
        ⟨"tbody", by simp, rfl⟩ hb1 ht1 htw (by decide) (by decide) rfl
        (fun d up e0 he0 ⟨a', ha', hn'⟩ => ⟨e0, he0, by
          rw [hn']
          simp only [List.mem_cons, List.not_mem_nil, or_false] at ha'
          subst ha'; decide⟩) e5
      obtain ⟨rfl, rfl⟩ := pure_ok.mp e6
      exact ⟨hb3.good rfl rfl, inferInstance⟩
    rcases ite_run e with ⟨h6, e⟩ | ⟨h6, e⟩
    · -- <table>
      obtain ⟨_, s1, e1, e2⟩ := bind_ok.mp e
      have q1 := (qs_unexpected e1).1
      have hb1 := hb.qs q1
      obtain ⟨b, s2, e3, e4⟩ := bind_ok.mp e2
      unfold inScopeNamed inScopeNamedS at e3
      obtain ⟨q2, hi⟩ := inScope_inScP e3
      rcases ite_run e4 with ⟨hbt, e4⟩ | ⟨_, e4⟩
      · obtain ⟨k, s3, e5, e6⟩ := bind_ok.mp e4
        unfold popUntilNamed popUntilNamedS at e5
        obtain ⟨hb3, _, _⟩ := popUntilScope (m' := .inBody) (hb1.qs q2) ((hi hbt).qs q2) namedP_table_ok e5
          (fun _ _ => trivial)
        obtain ⟨m', s4, e7, e8⟩ := bind_ok.mp e6
        obtain ⟨rfl, rfl⟩ := pure_ok.mp e8
        exact ⟨reset_good_re hb3 e7, inferInstance⟩
      · obtain ⟨rfl, rfl⟩ := pure_ok.mp e4
        exact (hg.qs q1).qs q2
    rcases ite_run e with ⟨h7, e⟩ | ⟨h7, e⟩
    · -- </table>
      obtain ⟨b, s2, e3, e4⟩ := bind_ok.mp e
      unfold inScopeNamed inScopeNamedS at e3
      obtain ⟨q2, hi⟩ := inScope_inScP e3
      rcases ite_run e4 with ⟨hbt, e4⟩ | ⟨_, e4⟩
      · obtain ⟨k, s3, e5, e6⟩ := bind_ok.mp e4
        unfold popUntilNamed popUntilNamedS at e5
        obtain ⟨hb3, _, _⟩ := popUntilScope (m' := .inBody) (hb.qs q2) ((hi hbt).qs q2) namedP_table_ok e5
          (fun _ _ => trivial)
        obtain ⟨m', s4, e7, e8⟩ := bind_ok.mp e6
        obtain ⟨_, s5, e9, e10⟩ := bind_ok.mp e8
        obtain ⟨rfl, rfl⟩ := pure_ok.mp e10
        exact reset_good_set hb3 e7 e9
      · obtain ⟨_, s5, e4', e9⟩ := bind_ok.mp e4
        obtain ⟨rfl, rfl⟩ := pure_ok.mp e9
        exact (hg.qs q2).qs (qs_unexpected e4').1
    rcases ite_run e with ⟨h8, e⟩ | ⟨h8, e⟩
    · exact unexp e
    rcases ite_run e with ⟨h9, e⟩ | ⟨h9, e⟩
    · -- style, script, template
      refine (rb_headTags tag ?_).good hg hm hbl e
      rcases Bool.or_eq_true_iff.mp h9 with h | h
      · rw [isStart_sub h (by decide)]; rfl
      · rw [h]; simp
    have hgen : GenEnd tag m := genEnd_of (by
      intro a ha
      have h7' := bool_false_of_not h7
      have h8' := bool_false_of_not h8
      have h9' : tag.isEnd ["template"] = false := by
        have := bool_false_of_not h9
        simp only [Bool.or_eq_false_iff] at this
        exact this.2
      simp only [List.mem_cons, List.not_mem_nil, or_false] at ha
      rcases ha with rfl | rfl | rfl | rfl | rfl | rfl | rfl | rfl | rfl | rfl | rfl
      · exact isEnd_single_false h8' (by simp)
      · exact h7'
      · exact isEnd_single_false h8' (by simp)
      · exact isEnd_single_false h8' (by simp)
      · exact isEnd_single_false h8' (by simp)
      · exact isEnd_single_false h8' (by simp)
      · exact isEnd_single_false h8' (by simp)
      · exact isEnd_single_false h8' (by simp)
      · exact isEnd_single_false h8' (by simp)
      · exact isEnd_single_false h8' (by simp)
      · exact isEnd_single_false h8' (by simp))
    rcases ite_run e with ⟨h10, e⟩ | ⟨h10, e⟩
    · -- <input>
      obtain ⟨_, s1, e1, e2⟩ := bind_ok.mp e
      have q1 := (qs_unexpected e1).1
      rcases ite_run e2 with ⟨_, e2⟩ | ⟨_, e2⟩
      · obtain ⟨el, s2, e3, e4⟩ := bind_ok.mp e2
        obtain ⟨rfl, rfl⟩ := pure_ok.mp e4
        unfold insertAndPopElementFor at e3
        obtain ⟨a, ha, hn, _⟩ := name_of_isStart h10
        simp only [List.mem_cons, List.not_mem_nil, or_false] at ha
        subst ha
        rw [hn] at e3
        obtain ⟨hb2, hm2, _⟩ := insertElement_big (hb.qs q1) (by decide) e3
        exact hb2.good (hm2.trans (q1.mode.trans hm)) hbl
      · exact fosterParentInBody_good (hg.qs q1) (q1.mode.trans hm) hbl (fun t ht' => by cases ht'; exact hgen) e2
    rcases ite_run e with ⟨h11, e⟩ | ⟨h11, e⟩
    · -- <form>
      obtain ⟨_, s1, e1, e2⟩ := bind_ok.mp e
      have q1 := (qs_unexpected e1).1
      obtain ⟨a, ha, hn, _⟩ := name_of_isStart h11
      simp only [List.mem_cons, List.not_mem_nil, or_false] at ha
      subst ha
      have tail : ∀ (doIt : Bool) (s2 : State), QS s s2 →
          (if doIt = true then
            insertAndPopElementFor tag >>= fun e => (modS fun s => { s with formElem := some e }) >>= fun _ =>
              pure ProcessResult.done
           else pure ProcessResult.done) s2 = .ok (res, s') → Out r s' res := by
        intro doIt s2 q12 e4
        rcases ite_run e4 with ⟨_, e4⟩ | ⟨_, e4⟩
        · obtain ⟨el, s3, e5, e6⟩ := bind_ok.mp e4
          obtain ⟨_, s4, e7, e8⟩ := bind_ok.mp e6
          obtain ⟨rfl, rfl⟩ := pure_ok.mp e8
          obtain ⟨_, rfl⟩ := modS_ok.mp e7
          unfold insertAndPopElementFor at e5
          rw [hn] at e5
          obtain ⟨hb3, hm3, _, hnm3, hel3, _⟩ := insertElement_big (hb.qs q12) (by decide) e5
          have hb4 : Big m r ph { s3 with formElem := some el } :=
            hb3.upd rfl rfl rfl rfl rfl rfl rfl rfl rfl hb3.afok
              (fun f hf => by cases hf; exact ⟨hnm3, hel3⟩) (fun h => h)
          exact hb4.good (hm3.trans (q12.mode.trans hm)) hbl
        · obtain ⟨rfl, rfl⟩ := pure_ok.mp e4
          exact hg.qs q12
      obtain ⟨b, s2, e3, e4⟩ := bind_ok.mp e2
      have q2 := (inHtmlElemNamed_sem e3).1
      rcases ite_run e4 with ⟨_, e4⟩ | ⟨_, e4⟩
      · obtain ⟨doIt, s3, e5, e6⟩ := bind_ok.mp e4
        obtain ⟨rfl, rfl⟩ := pure_ok.mp e5
        exact tail _ _ (q1.trans q2) e6
      · rw [getS_bind] at e4
        obtain ⟨doIt, s3, e5, e6⟩ := bind_ok.mp e4
        obtain ⟨rfl, rfl⟩ := pure_ok.mp e5
        exact tail _ _ (q1.trans q2) e6
    · -- anything else
      obtain ⟨_, s1, e1, e2⟩ := bind_ok.mp e
      have q1 := (qs_unexpected e1).1
      exact fosterParentInBody_good (hg.qs q1) (q1.mode.trans hm) hbl (fun t ht' => by cases ht'; exact hgen) e2


theorem modeOk_inTable : ModeOk .inTable := by
  intro tok ht r s res s' hg hm e
  exact stepInTable_good hg hm (Or.inl rfl) (fun h => absurd rfl h) e

/-! ### InTableText -/

theorem Core.setPtt {s : State} {r : Id} {up : List Id} {ph : Phase} (hc : Core s r up ph)
    {l : List (SplitStatus × Str)} (hl : ∀ p ∈ l, p.2 ≠ []) : Core { s with pendingTableText := l } r up ph :=
  ⟨hc.late.setPtt hl, hc.stack, hc.rdoc, hc.nodup, hc.tg, hc.afn, hc.tc, hc.tmm, hc.form, hc.rtu, hc.rnd, hc.kids,
    hc.elems, hc.bh, hc.afx, hc.adj⟩

theorem Big.setPtt {m : Mode} {r : Id} {ph : Phase} {s : State} (h : Big m r ph s)
    {l : List (SplitStatus × Str)} (hl : ∀ p ∈ l, p.2 ≠ []) : Big m r ph { s with pendingTableText := l } := by
  obtain ⟨up, hc, hbb, hn, _⟩ := h
  exact ⟨up, hc.setPtt hl, hbb, hn, FPok.triv _ _⟩

theorem Big.setFp {m : Mode} {r : Id} {ph : Phase} {s : State} (h : Big m r ph s) (b : Bool) :
    Big m r ph { s with fosterParenting := b } := by
  obtain ⟨up, hc, hbb, hn, _⟩ := h
  exact ⟨up, hc.free rfl rfl rfl rfl rfl rfl rfl rfl rfl rfl rfl, hbb, hn, FPok.triv _ _⟩

theorem flushPendingFoster_big {m : Mode} {r : Id} {ph : Phase} : ∀ (l : List (SplitStatus × Str)) (s s' : State)
    (u : Unit), (∀ p ∈ l, p.2 ≠ []) → Big m r ph s → flushPendingFoster l s = .ok (u, s') →
      Big m r ph s' ∧ s'.mode = s.mode ∧ s'.origMode = s.origMode
  | [], s, s', u, _, hb, e => by
    unfold flushPendingFoster at e
    obtain ⟨_, rfl⟩ := pure_ok.mp e
    exact ⟨hb, rfl, rfl⟩
  | (split, text) :: rest, s, s', u, hl, hb, e => by
    unfold flushPendingFoster at e
    obtain ⟨res1, s1, e1, e2⟩ := bind_ok.mp e
    have hne : text ≠ [] := hl (split, text) (by simp)
    haveI : NE text := ⟨hne⟩
    unfold fosterParentInBody at e1
    obtain ⟨_, sa, ea, e3⟩ := bind_ok.mp e1
    obtain ⟨_, rfl⟩ := modS_ok.mp ea
    obtain ⟨res2, sb, eb, e4⟩ := bind_ok.mp e3
    obtain ⟨_, sc, ec, e5⟩ := bind_ok.mp e4
    obtain ⟨_, rfl⟩ := modS_ok.mp ec
    obtain ⟨rfl, rfl⟩ := pure_ok.mp e5
    obtain ⟨hbb, hmb, hob⟩ := (inferInstance : PB (stepInBody (.chars split text))).p _ _ _ _ _ _ (hb.setFp true) eb
    have hb1 : Big m r ph { sb with fosterParenting := false } := hbb.setFp false
    cases res2 with
    | done =>
      dsimp only at e2
      obtain ⟨h1, h2, h3⟩ := flushPendingFoster_big rest _ s' u (fun p hp => hl p (List.mem_cons_of_mem _ hp)) hb1 e2
      exact ⟨h1, h2.trans hmb, h3.trans hob⟩
    | _ => exact absurd e2 panicAt_ok

theorem flushPendingPlain_big {m : Mode} {r : Id} {ph : Phase} : ∀ (l : List (SplitStatus × Str)) (s s' : State)
    (u : Unit), (∀ p ∈ l, p.2 ≠ []) → Big m r ph s → flushPendingPlain l s = .ok (u, s') →
      Big m r ph s' ∧ s'.mode = s.mode ∧ s'.origMode = s.origMode
  | [], s, s', u, _, hb, e => by
    unfold flushPendingPlain at e
    obtain ⟨_, rfl⟩ := pure_ok.mp e
    exact ⟨hb, rfl, rfl⟩
  | (split, text) :: rest, s, s', u, hl, hb, e => by
    unfold flushPendingPlain at e
    obtain ⟨res1, s1, e1, e2⟩ := bind_ok.mp e
    haveI : NE text := ⟨hl (split, text) (by simp)⟩
    obtain ⟨hbb, hmb, hob⟩ := (inferInstance : PB (appendText text)).p _ _ _ _ _ _ hb e1
    obtain ⟨h1, h2, h3⟩ := flushPendingPlain_big rest _ s' u (fun p hp => hl p (List.mem_cons_of_mem _ hp)) hbb e2
    exact ⟨h1, h2.trans hmb, h3.trans hob⟩

theorem modeOk_inTableText : ModeOk .inTableText := by
  intro tok ht r s res s' hg hm e
  obtain ⟨up, ph, hs, _⟩ := id hg
  have hf := hs.fits
  unfold FitsM at hf
  rw [hm] at hf
  obtain ⟨om, ho, h3, hfit⟩ : ∃ om, s.origMode = some om ∧ (om = .inTable ∨ om = .inTableBody ∨ om = .inRow) ∧
    Fits s.dom s.headElem om up ph := hf
  have hbl : isBL om = true := isT3.bl h3
  obtain ⟨hbb, hneed⟩ := bl_of_fits hbl hfit
  have hb : Big om r ph s := ⟨up, hs.core, hbb, hneed, FPok.triv _ _⟩
  have e' : stepInTableText tok s = .ok (res, s') := e
  have e0' := e'
  unfold stepInTableText at e'
  -- the tokens other than characters
  have other : ∀ t : Token, TokW t → (∀ sp tx, t ≠ .chars sp tx) → t ≠ .nullChar →
      stepInTableText t s = .ok (res, s') → Out r s' res := by
    intro t htw hn1 hn2 e0
    have hl := hs.core.late.st.ptt
    have hb1 : Big om r ph { s with pendingTableText := [] } := hb.setPtt (by intro p hp; cases hp)
    -- the end: back to the original mode
    have fin : ∀ s2 : State, Big om r ph s2 → s2.origMode = s.origMode →
        (getS >>= fun s => match s.origMode with
          | none => panicAt "unwrap-none" "rules.rs:1172" "orig_mode.take().unwrap()"
          | some m => set { s with origMode := none } >>= fun _ => pure (ProcessResult.reprocess m t)) s2
          = .ok (res, s') → Out r s' res := by
      intro s2 hb2 ho2 e4
      rw [getS_bind] at e4
      rw [ho2, ho] at e4
      dsimp only at e4
      obtain ⟨_, s3, e5, e6⟩ := bind_ok.mp e4
      obtain ⟨rfl, rfl⟩ := pure_ok.mp e6
      rw [set_ok.mp e5]
      refine ⟨?_, htw⟩
      obtain ⟨up2, hc2, hbb2, hn2', _⟩ := hb2
      refine Good.mk' (up := up2) (ph := ph) ⟨hc2.modes (isLate_of_bl hbl) (by intro o h0; cases h0), ?_⟩
      exact fitsM_of_bl hbl rfl (fits_of_bl hbl hbb2 hn2')
    unfold stepInTableText at e0
    cases t <;> first
      | exact absurd rfl (hn1 _ _)
      | exact absurd rfl hn2
      | (dsimp only at e0
         rw [getS_bind] at e0
         obtain ⟨_, s1, e1, e2⟩ := bind_ok.mp e0
         obtain ⟨_, rfl⟩ := modS_ok.mp e1
         rcases ite_run e2 with ⟨_, e2⟩ | ⟨_, e2⟩
         · obtain ⟨_, s1', e5, e6⟩ := bind_ok.mp e2
           have q5 := qs_parseError e5
           obtain ⟨_, s2, e7, e8⟩ := bind_ok.mp e6
           obtain ⟨g1, g2, g3⟩ := flushPendingFoster_big _ _ _ _ hl (hb1.qs q5) e7
           exact fin s2 g1 (g3.trans (by rw [q5.rest])) e8
         · obtain ⟨_, s2, e7, e8⟩ := bind_ok.mp e2
           obtain ⟨g1, g2, g3⟩ := flushPendingPlain_big s.pendingTableText { s with pendingTableText := [] } s2 _ hl
             hb1 e7
           exact fin s2 g1 g3 e8)
  cases tok with
  | nullChar =>
    dsimp only at e'
    obtain ⟨q, rfl⟩ := qs_unexpected e'
    exact hg.qs q
  | chars split text =>
    dsimp only at e'
    obtain ⟨_, s1, e1, e2⟩ := bind_ok.mp e'
    obtain ⟨rfl, rfl⟩ := pure_ok.mp e2
    obtain ⟨_, rfl⟩ := modS_ok.mp e1
    refine Good.mk' (up := up) (ph := ph) ⟨hs.core.setPtt ?_, hs.fits⟩
    intro p hp
    simp only [List.mem_append, List.mem_singleton] at hp
    rcases hp with hp | rfl
    · exact hs.core.late.st.ptt p hp
    · exact ht.ne _ _ rfl
  | comment c => exact other (.comment c) inferInstance (by intro _ _ h; cases h) (by intro h; cases h) e0'
  | eof => exact other .eof inferInstance (by intro _ _ h; cases h) (by intro h; cases h) e0'
  | tag tg => exact other (.tag tg) inferInstance (by intro _ _ h; cases h) (by intro h; cases h) e0'

end H5V.Props.C06
