import H5V.Lemmas.HtmlTBFuelTable
/-!
# The fuel of `process_to_completion`, part 13: all rules, `process_token`, token lists

`allDec : AllDec` — every rule of the 21 insertion modes decreases the measure; then `process_token` and
`processTokens` without the allowance `al.fuel` (the proofs are those of `HtmlTBSafeRun` with
`sat_processToCompletion2` in place of `sat_processToCompletion`).
-/
namespace H5V.Lemmas.TBFuel
open H5V.Model.HtmlTB
open H5V.Model.HtmlTok (TagKind)
open H5V.Model.Dom (Id QualName Attr NodeOrText SinkOp Output ElementFlags QuirksMode Dom NodeData Node)
open H5V.Lemmas.TBSafe
open H5V.Lemmas.TBC (ok_bind ok_pure ok_getS_bind ok_modS_bind ok_ite ok_bind_pure)

variable {al : Allow}

theorem headE' : HeadE := headE
theorem bodyE' : BodyE := bodyE headE
theorem tableE' : TableE := tableE headE bodyE'

/-- **every rule decreases the measure** -/
theorem allDec : AllDec := by
  intro tok s ht r s' h
  unfold step at h
  cases hm : s.mode <;> rw [hm] at h <;> dsimp only at h
  · exact dj_stepInitial tok s r s' ht hm h
  · exact dj_stepBeforeHtml tok s r s' ht hm h
  · exact dj_stepBeforeHead bodyE' tok s r s' ht hm h
  · exact dj_stepInHead headE' tok s r s' ht hm h
  · exact dj_stepInHeadNoscript headE' bodyE' tok s r s' ht hm h
  · exact dj_stepAfterHead headE' bodyE' tok s r s' ht hm h
  · exact dj_body bodyE' (fun _ => by decide) s r s' ht hm h
  · exact dj_stepText tok s r s' ht hm h
  · exact dj_stepInTable tableE' tok s r s' ht hm h
  · exact dj_stepInTableText tok s r s' ht hm h
  · exact dj_stepInCaption bodyE' tok s r s' ht hm h
  · exact dj_stepInColumnGroup headE' bodyE' tok s r s' ht hm h
  · exact dj_stepInTableBody tableE' tok s r s' ht hm h
  · exact dj_stepInRow tableE' tok s r s' ht hm h
  · exact dj_stepInCell bodyE' tok s r s' ht hm h
  · exact dj_stepInTemplate headE' bodyE' tok s r s' ht hm h
  · exact dj_stepAfterBody bodyE' tok s r s' ht hm h
  · exact dj_stepInFrameset headE' bodyE' tok s r s' ht hm h
  · exact dj_stepAfterFrameset headE' bodyE' tok s r s' ht hm h
  · exact dj_stepAfterAfterBody bodyE' tok s r s' ht hm h
  · exact dj_stepAfterAfterFrameset headE' bodyE' tok s r s' ht hm h

/-! ### `process_token` -/

theorem charsToken_pos {b : Bool} {x : Str} {t : Token} (h : charsToken b x = some t) : 1 ≤ tokenCharLen t := by
  unfold charsToken at h
  by_cases hc : (dropIgnoredLf b x).isEmpty = true
  · rw [if_pos hc] at h; cases h
  · rw [if_neg hc] at h
    cases h
    show 1 ≤ (dropIgnoredLf b x).length
    cases hl : dropIgnoredLf b x with
    | nil => rw [hl] at hc; exact absurd rfl hc
    | cons a l => simp

theorem sat_ptFinish2 (hall : AllSpec (al := al)) (hd : AllDec) {tb : Option Token} {s : State} (ht : TI s)
    (hprot : ∀ t, tb = some t → Prot s t)
    (hpos : ∀ t, tb = some t → isCharsTok t = true → 1 ≤ tokenCharLen t) :
    Sat (ptFinish tb) s (fun _ s' => TI s') := by
  unfold ptFinish
  cases tb with
  | none => exact sat_pure ht
  | some t =>
    dsimp only
    refine sat_getS_bind ?_
    refine sat_processToCompletion2 hall hd _ t [] s ht ⟨fun _ => rfl, hpos t rfl, fun _ h => by cases h⟩
      (hprot t rfl) (mu_le_ptcFuel s t)

theorem sat_processToken2 (hall : AllSpec (al := al)) (hd : AllDec) {token : TokToken} {line : Nat} {s : State}
    (ht : TI s) (hprot : s.mode = .text → al.text ∨ okTextTok token = true) :
    Sat (processToken token line) s (fun _ s' => TI s') := by
  unfold processToken
  refine sat_getS_bind ?_
  dsimp only
  refine sat_ite_jp (Q := fun s1 => TI s1 ∧ s1.mode = s.mode)
    (fun _ => (sat_sinkUnit_total ⟨_, _, apply_setLine _ _⟩).mono (fun _ s1 hq => ⟨ht.of_qf hq, hq.mode⟩))
    (fun _ => ⟨ht, rfl⟩) ?_
  rintro s1 ⟨ht1, hm1⟩
  refine sat_getS_bind ?_
  refine sat_modS_bind ?_
  have ht2 : TI { s1 with ignoreLf := false } := ht1.withIgnoreLf false
  have hfin0 : ∀ (tb : Option Token) (s3 : State), TI s3 → (∀ t, tb = some t → Prot s3 t) →
      (∀ t, tb = some t → isCharsTok t = true → 1 ≤ tokenCharLen t) →
      Sat (ptFinish tb) s3 (fun _ s' => TI s') :=
    fun tb s3 h3 hp3 hpos => sat_ptFinish2 hall hd h3 hp3 hpos
  have hfin : ∀ (tb : Option Token) (s3 : State), TI s3 → (∀ t, tb = some t → Prot s3 t) →
      ((∀ t, tb = some t → isCharsTok t = false) ∨ ∃ b x, tb = charsToken b x) →
      Sat (ptFinish tb) s3 (fun _ s' => TI s') := by
    intro tb s3 h3 hp3 hk
    refine hfin0 tb s3 h3 hp3 ?_
    intro t ht hc
    rcases hk with hk | ⟨b, x, hk⟩
    · rw [hk t ht] at hc; cases hc
    · rw [hk] at ht; exact charsToken_pos ht
  have hprot2 : ∀ t, (textTok t = true ∨ (okTextTok token = true → textTok t = true)) →
      Prot { s1 with ignoreLf := false } t := by
    intro t h hmt
    have hmt' : s.mode = .text := by rw [← hm1]; exact hmt
    rcases hprot hmt' with h1 | h1
    · exact Or.inl h1
    · rcases h with h | h
      · exact Or.inr h
      · exact Or.inr (h h1)
  cases token with
  | parseError e =>
    dsimp only
    refine (sat_sinkUnit_total ⟨_, _, apply_parseError _ _⟩).bind ?_
    intro _ s3 hq3
    refine sat_modS_bind ?_
    refine Sat.bind (Q := fun tb s4 => tb = none ∧ TI s4) (sat_pure ⟨rfl, (ht2.of_qf hq3).withIgnoreLf _⟩) ?_
    rintro tb s4 ⟨rfl, ht4⟩
    exact hfin none s4 ht4 (fun t h => by cases h) (Or.inl (fun t h => by cases h))
  | doctype dt =>
    dsimp only
    refine sat_getS_bind ?_
    by_cases hmi : ({ s1 with ignoreLf := false } : State).mode = .initial
    · have hmi' : (({ s1 with ignoreLf := false } : State).mode == Mode.initial) = true := by
        rw [hmi]; rfl
      rw [if_pos hmi']
      refine sat_getS_bind ?_
      dsimp only
      have hS : ∀ s5, Same { s1 with ignoreLf := false } s5 →
          TI ({ s5 with mode := .beforeHtml } : State) := by
        intro s5 hs
        have ht5 : TI s5 := ht2.of_same hs
        have hm5 : s5.mode = .initial := by rw [hs.fr.mode]; exact hmi
        have hs5' : SInv .initial s5 := by rw [← hm5]; exact ht5.s
        refine ⟨ht5.h.withMode _, ?_⟩
        show SInv .beforeHtml { s5 with mode := .beforeHtml }
        refine SInv.withMode ?_ _
        exact ⟨(fun h => by cases h), hs5'.stack, (fun h => by cases h), hs5'.headIn, (fun h => by cases h),
          (fun h => by cases h), (fun _ => hs5'.pending (by decide)), hs5'.tmpl, hs5'.tmodes⟩
      refine sat_ite_jp (Q := fun s3 => Same { s1 with ignoreLf := false } s3)
        (fun _ => sat_parseError.mono (fun _ _ h => h.same)) (fun _ => Same.refl _) ?_
      intro s3 hs3
      refine sat_getS_bind ?_
      refine sat_ite_jp (Q := fun s4 => Same { s1 with ignoreLf := false } s4)
        (fun _ => (sat_sinkUnit_mut (op := SinkOp.appendDoctypeToDocument _ _ _) trivial).mono
          (fun _ _ h => hs3.trans h.same)) (fun _ => hs3) ?_
      intro s4 hs4
      refine sat_setQuirksMode.bind ?_
      intro _ s5 hs5
      refine sat_setMode.bind ?_
      rintro _ s6 rfl
      refine Sat.bind (Q := fun tb s7 => tb = none ∧ TI s7) (sat_pure ⟨rfl, hS s5 (hs4.trans hs5)⟩) ?_
      rintro tb s7 ⟨rfl, ht7⟩
      exact hfin none s7 ht7 (fun t h => by cases h) (Or.inl (fun t h => by cases h))
    · have hmi' : (({ s1 with ignoreLf := false } : State).mode == Mode.initial) = false := by
        cases hm : ({ s1 with ignoreLf := false } : State).mode <;> first | rfl | exact absurd hm hmi
      rw [hmi']
      simp only [Bool.false_eq_true, if_false]
      refine sat_getS_bind ?_
      have hrest : ∀ s3, TI s3 → Sat (parseError "DOCTYPE in body" >>= fun _ =>
          (pure none : M (Option Token)) >>= fun tb => ptFinish tb) s3 (fun _ s' => TI s') := by
        intro s3 ht3
        refine sat_parseError.bind ?_
        intro _ s4 hq4
        refine Sat.bind (Q := fun tb s5 => tb = none ∧ TI s5) (sat_pure ⟨rfl, ht3.of_qf hq4⟩) ?_
        rintro tb s5 ⟨rfl, ht5⟩
        exact hfin none s5 ht5 (fun t h => by cases h) (Or.inl (fun t h => by cases h))
      by_cases hmt : ({ s1 with ignoreLf := false } : State).mode = .inTableText
      · have hmt' : (({ s1 with ignoreLf := false } : State).mode == Mode.inTableText) = true := by
          rw [hmt]; rfl
        rw [if_pos hmt']
        refine (sat_flushPendingTableText ht2 hmt).bind ?_
        rintro m s3 ⟨hi3, hs3⟩
        refine sat_setMode.bind ?_
        rintro _ s4 rfl
        exact hrest _ ⟨hi3.withMode m, hs3.withMode m⟩
      · have hmt' : (({ s1 with ignoreLf := false } : State).mode == Mode.inTableText) = false := by
          cases hm : ({ s1 with ignoreLf := false } : State).mode <;> first | rfl | exact absurd hm hmt
        rw [hmt']
        simp only [Bool.false_eq_true, if_false]
        exact hrest _ ht2
  | tag t =>
    refine Sat.bind (Q := fun tb s4 => tb = some (.tag t) ∧ s4 = { s1 with ignoreLf := false }) (sat_pure ⟨rfl, rfl⟩) ?_
    rintro tb s4 ⟨rfl, rfl⟩
    exact hfin (some (.tag t)) _ ht2 (fun t' h => by cases h; exact hprot2 _ (Or.inr (fun h => h)))
      (Or.inl (fun t' h => by cases h; rfl))
  | comment c =>
    refine Sat.bind (Q := fun tb s4 => tb = some (.comment c) ∧ s4 = { s1 with ignoreLf := false }) (sat_pure ⟨rfl, rfl⟩) ?_
    rintro tb s4 ⟨rfl, rfl⟩
    exact hfin (some (.comment c)) _ ht2 (fun t' h => by cases h; exact hprot2 _ (Or.inr (fun h => by cases h)))
      (Or.inl (fun t' h => by cases h; rfl))
  | nullChar =>
    refine Sat.bind (Q := fun tb s4 => tb = some .nullChar ∧ s4 = { s1 with ignoreLf := false }) (sat_pure ⟨rfl, rfl⟩) ?_
    rintro tb s4 ⟨rfl, rfl⟩
    exact hfin (some .nullChar) _ ht2 (fun t' h => by cases h; exact hprot2 _ (Or.inr (fun h => by cases h)))
      (Or.inl (fun t' h => by cases h; rfl))
  | eof =>
    refine Sat.bind (Q := fun tb s4 => tb = some .eof ∧ s4 = { s1 with ignoreLf := false }) (sat_pure ⟨rfl, rfl⟩) ?_
    rintro tb s4 ⟨rfl, rfl⟩
    exact hfin (some .eof) _ ht2 (fun t' h => by cases h; exact hprot2 _ (Or.inl rfl))
      (Or.inl (fun t' h => by cases h; rfl))
  | chars x =>
    refine Sat.bind (Q := fun tb s4 => tb = charsToken s1.ignoreLf x ∧ s4 = { s1 with ignoreLf := false })
      (sat_pure ⟨rfl, rfl⟩) ?_
    rintro tb s4 ⟨rfl, rfl⟩
    exact hfin _ _ ht2 (fun t' h => hprot2 _ (Or.inl (textTok_charsToken h))) (Or.inr ⟨_, _, rfl⟩)


theorem sat_processTokens2 (hall : AllSpec (al := al)) (hd : AllDec) :
    ∀ (toks : List (TokToken × Nat)) (acc : List SinkResult) (s : State),
    TI s → (al.text ∨ Respects s toks) → Sat (processTokens toks acc) s (fun _ s' => TI s') := by
  intro toks
  induction toks with
  | nil => intro acc s ht _; exact sat_pure ht
  | cons t rest ih =>
    intro acc s ht hresp
    obtain ⟨tk, line⟩ := t
    unfold processTokens
    have hprot : s.mode = .text → al.text ∨ okTextTok tk = true := by
      intro hm
      rcases hresp with h | h
      · exact Or.inl h
      · exact Or.inr (h.1 hm)
    have h1 := sat_processToken2 (line := line) hall hd ht hprot
    -- keep the run equation for `Respects`
    have h2 := sat_with_run h1
    refine h2.bind ?_
    rintro r s1 ⟨ht1, hrun⟩
    refine ih _ s1 ht1 ?_
    rcases hresp with h | h
    · exact Or.inl h
    · exact Or.inr (h.2 r s1 hrun)


end H5V.Lemmas.TBFuel
