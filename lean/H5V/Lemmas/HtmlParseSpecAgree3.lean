import H5V.Lemmas.HtmlParseSpecAgree2
/-!
Capstone, part: the bridge **for every grouping of the character tokens** (`agrees_of_streamX`).

The tokenizer model delivers most text one character per token, but `emit_temp_buf` (CDATA sections, `</xy` inside
RCDATA / RAWTEXT / script data) delivers runs.  The specification's tokenizer emits one token per character, and
`Spec.TreeModes.run` is not known to be invariant under regrouping.  So here the lock-step run of the tree
builder and the specification is taken over the EXPLODED stream `explode ts` (every character token cut into
single characters): by C03 (`C03_tree_resplit_run`) the tree builder fed `explode ts` passes through states that
are `Sim`-related (equal up to the trace of sink calls, the line counter, the parse-error log and the cutting of
the pending table text) to those of the actual run, and `Sim`-related states give the same answers to the
tokenizer (`C03_tb_sim_step`, `adjustedCurrentNodeForeign_resp`).
-/
namespace H5V.Lemmas.ParseSpec
open H5V.Model.HtmlTB
open H5V.Model.Dom (Id SinkOp Output Dom QualName Attr NodeOrText ElementFlags NodeData QuirksMode)
open H5V.Lemmas.HtmlTBAlgo
open H5V.Lemmas.HtmlTBModes
open H5V.Lemmas.TBSafe (TI HInv SInv)
open H5V.Props.C04TB (docStart)
open H5V.Spec.TreeModes (STok ETok IMode Config Out TokSwitch XOp Op Step Edition)
open H5V.Model.HtmlTB.Joint (JState absorb polOf conv convTag toSinkRes)
open H5V.Lemmas.JointChunk
open H5V.Lemmas.HtmlTokSpec (flat flatTok PolTree)
open H5V.Spec.HtmlTokenizer (Emit Tree Switch)
open H5V.Spec.Parse (Cfg treeOfSpec stateAfter treeTok treeTag lastSwitch acnForeign)
open H5V.Props.C03 (Resplit RunAlike C03_tree_resplit_run)

/-! ### the exploded stream -/

/-- a character token cut into single characters -/
def explodeTok : TokToken × Nat → List (TokToken × Nat)
  | (.chars x, l) => x.map fun c => (.chars [c], l)
  | p => [p]

def explode (ts : List (TokToken × Nat)) : List (TokToken × Nat) := ts.flatMap explodeTok

theorem explode_append (a b : List (TokToken × Nat)) : explode (a ++ b) = explode a ++ explode b := by
  simp [explode]

/-- whenever an EMPTY character token arrives (the tokenizer delivers one for `<![CDATA[]]>`: `emit_temp_buf` with
an empty buffer), the tree builder's `ignore_lf` flag is clear.  (`process_token` takes the flag before it looks
at the token, so an empty character token would clear a pending "ignore the next LF"; the specification has no
token there.  The flag is only set by `pre` / `listing` / `textarea` start tags, after which no CDATA section
can start — this is a property of the joint run that is not proved here, so it is a hypothesis, checked along
the run.) -/
def EmptyOk : State → List (TokToken × Nat) → Prop
  | _, [] => True
  | s, (t, line) :: rest =>
    (t = .chars [] → s.ignoreLf = false) ∧ ∀ r s', (processToken t line).run s = .ok (r, s') → EmptyOk s' rest

def emptyOkB : State → List (TokToken × Nat) → Bool
  | _, [] => true
  | s, (t, line) :: rest =>
    (t != .chars [] || !s.ignoreLf) &&
    match (processToken t line).run s with
    | .ok (_, s') => emptyOkB s' rest
    | .error _ => true

theorem emptyOk_of_B : ∀ (toks : List (TokToken × Nat)) (s : State), emptyOkB s toks = true → EmptyOk s toks
  | [], _, _ => trivial
  | (t, line) :: rest, s, h => by
    simp only [emptyOkB, Bool.and_eq_true, Bool.or_eq_true, bne_iff_ne, ne_eq, Bool.not_eq_true'] at h
    refine ⟨fun e => ?_, fun r s' hr => ?_⟩
    · rcases h.1 with h1 | h1
      · exact absurd e h1
      · exact h1
    · have h3 := h.2
      rw [hr] at h3
      exact emptyOk_of_B rest s' h3

theorem emptyOk_prefix : ∀ (p q : List (TokToken × Nat)) (s : State), EmptyOk s (p ++ q) → EmptyOk s p
  | [], _, _, _ => trivial
  | (_, _) :: p, q, _, h => ⟨h.1, fun r s' hr => emptyOk_prefix p q s' (h.2 r s' hr)⟩

theorem resplit_chars (l : Nat) : ∀ (x : List Char), x ≠ [] →
    Resplit [(TokToken.chars x, l)] (x.map fun c => (TokToken.chars [c], l))
  | [], h => absurd rfl h
  | [c], _ => Resplit.refl _
  | c :: c' :: xs, _ => by
    have h1 : Resplit [(TokToken.chars ([c] ++ (c' :: xs)), l)] [(.chars [c], l), (.chars (c' :: xs), l)] :=
      Resplit.split [c] (c' :: xs) l l l (by simp) (by simp)
    have h2 := resplit_chars l (c' :: xs) (by simp)
    exact Resplit.trans h1 (Resplit.append (Resplit.refl [(.chars [c], l)]) h2)

theorem resplit_explodeTok (t : TokToken) (l : Nat) (h : t ≠ .chars []) : Resplit [(t, l)] (explodeTok (t, l)) := by
  cases t with
  | chars x =>
    have hx : x ≠ [] := fun e => h (by rw [e])
    exact resplit_chars l x hx
  | _ => exact Resplit.refl _

/-- an empty character token only moves the line counter (when `ignore_lf` is clear) -/
theorem empty_chars_run (l : Nat) {s : State} (hs : H5V.Lemmas.TBSplit.Sim s s) (hlf : s.ignoreLf = false) :
    ∃ s1, processToken (.chars []) l s = .ok (.continue_, s1) ∧ H5V.Lemmas.TBSplit.Sim s1 s := by
  rw [H5V.Lemmas.TBSplit.processToken_apply, H5V.Lemmas.TBSplit.bind_apply]
  obtain ⟨tr, h1⟩ := H5V.Lemmas.TBSplit.lineIf_apply l s.currentLine s
  rw [h1]
  simp only
  rw [H5V.Lemmas.TBSplit.processTokenRest_chars]
  have hd : (dropIgnoredLf (H5V.Lemmas.TBSplit.upd s tr s.currentLine s.dom.errorsRev s.pendingTableText).ignoreLf
      ([] : List Char)).isEmpty = true := by
    unfold dropIgnoredLf
    split <;> rfl
  rw [if_pos hd]
  have hc : H5V.Lemmas.TBSplit.clearLf (H5V.Lemmas.TBSplit.upd s tr s.currentLine s.dom.errorsRev s.pendingTableText)
      = H5V.Lemmas.TBSplit.upd s tr s.currentLine s.dom.errorsRev s.pendingTableText := by
    cases s
    simp only at hlf
    subst hlf
    rfl
  rw [hc]
  exact ⟨_, rfl, (H5V.Lemmas.TBSplit.sim_upd_self hs tr).symm⟩

theorem processTokens_one_ok {t : TokToken} {l : Nat} {acc acc' : List SinkResult} {s s' : State}
    (h : processTokens [(t, l)] acc s = .ok (acc', s')) : ∃ r, (processToken t l).run s = .ok (r, s') := by
  obtain ⟨r, s1, h1, h2⟩ := processTokens_cons_ok (rest := []) h
  have h2' : (pure (if r == .continue_ then acc else r :: acc) : M (List SinkResult)) s1 = .ok (acc', s') := h2
  cases h2'
  exact ⟨r, h1⟩

/-- **the tree builder fed the exploded stream** (character tokens cut into single characters, empty ones
erased) runs like the tree builder fed the stream itself -/
theorem runAlike_explode : ∀ (ts : List (TokToken × Nat)) (acc : List SinkResult) (s t : State),
    H5V.Lemmas.TBSplit.Sim s t → EmptyOk s ts →
    H5V.Lemmas.TBSplit.RelR (fun _ => True) (processTokens ts acc s) (processTokens (explode ts) acc t)
  | [], acc, s, t, hst, _ => by
    show H5V.Lemmas.TBSplit.RelR _ (processTokens [] acc s) (processTokens [] acc t)
    unfold processTokens
    exact ⟨rfl, trivial, hst⟩
  | (tk, l) :: rest, acc, s, t, hst, he => by
    obtain ⟨he1, he2⟩ := he
    have hex : explode ((tk, l) :: rest) = explodeTok (tk, l) ++ explode rest := by
      simp [explode]
    rw [hex]
    by_cases hemp : tk = .chars []
    · subst hemp
      obtain ⟨s1, hr1, hs1⟩ := empty_chars_run l hst.left (he1 rfl)
      have hx : explodeTok (TokToken.chars [], l) = [] := rfl
      rw [hx, List.nil_append]
      show H5V.Lemmas.TBSplit.RelR _ ((processToken (.chars []) l >>= fun r => processTokens rest
        (if r == .continue_ then acc else r :: acc)) s) _
      rw [H5V.Lemmas.TBSplit.bind_apply, hr1]
      exact runAlike_explode rest acc s1 t (hs1.trans hst) (he2 _ _ hr1)
    · have hhead := C03_tree_resplit_run (resplit_explodeTok tk l hemp) acc s t hst
      have hL : processTokens ((tk, l) :: rest) acc s =
          (processTokens [(tk, l)] acc >>= fun acc' => processTokens rest acc') s := by
        rw [← H5V.Props.C03.processTokens_append]; rfl
      rw [hL, H5V.Props.C03.processTokens_append, H5V.Lemmas.TBSplit.bind_apply, H5V.Lemmas.TBSplit.bind_apply]
      cases h1 : processTokens [(tk, l)] acc s with
      | error e =>
        rw [h1] at hhead
        cases h2 : processTokens (explodeTok (tk, l)) acc t with
        | error e' => trivial
        | ok v => rw [h2] at hhead; exact hhead.elim
      | ok v =>
        obtain ⟨acc', s'⟩ := v
        rw [h1] at hhead
        cases h2 : processTokens (explodeTok (tk, l)) acc t with
        | error e' => rw [h2] at hhead; exact hhead.elim
        | ok w =>
          obtain ⟨acc'', t'⟩ := w
          rw [h2] at hhead
          obtain ⟨e, _, hs'⟩ := hhead
          subst e
          obtain ⟨r, hr⟩ := processTokens_one_ok h1
          exact runAlike_explode rest acc' s' t' hs' (he2 r s' hr)

theorem mem_explode_eof {ts : List (TokToken × Nat)} {l : Nat} (h : (TokToken.eof, l) ∈ ts) :
    (TokToken.eof, l) ∈ explode ts := by
  unfold explode
  rw [List.mem_flatMap]
  exact ⟨_, h, by simp [explodeTok]⟩

theorem specToks_chars_map (l : Nat) : ∀ (s : List Char),
    specToks (s.map fun c => (TokToken.chars [c], l)) = s.map fun c => Spec.TreeModes.Token.chars [c]
  | [] => rfl
  | c :: cs => by
    have ih := specToks_chars_map l cs
    unfold specToks at ih ⊢
    rw [List.map_cons, List.filterMap_cons, List.map_cons, ← ih]
    rfl

/-- the exploded history is, token for token, the history of the specification's tokenizer — whatever the
grouping of the characters was -/
theorem specToks_explode_one (t : TTok) (l : Nat) (he : t ≠ .eof) :
    specToks (explode (convAll [(t, l)])) = (flatTok t).map treeTok := by
  cases t with
  | doctype d => rfl
  | tag t =>
    simp only [convAll, explode, explodeTok, specToks, List.filterMap_cons, List.filterMap_nil, conv, Option.map_some,
      List.flatMap_cons, List.flatMap_nil, List.append_nil, specTokOf, flatTok, List.map_cons, List.map_nil, treeTok,
      specTag_convTag]
    rfl
  | comment c => rfl
  | chars s =>
    have e : explode (convAll [(H5V.Model.HtmlTok.Token.chars s, l)]) = s.map fun c => (TokToken.chars [c], l) := by
      simp [convAll, explode, explodeTok, conv]
    rw [e, specToks_chars_map]
    simp only [flatTok, List.map_map]
    rfl
  | nullChar => rfl
  | eof => exact absurd rfl he
  | error m => rfl
  | pause b => rfl

theorem specToks_explode_convAll : ∀ (out : TOut), NoEof out →
    specToks (explode (convAll out.reverse)) = (flat out).reverse.map treeTok
  | [], _ => rfl
  | (t, l) :: rest, he => by
    have ih := specToks_explode_convAll rest (fun p hp => he p (by simp [hp]))
    rw [List.reverse_cons, convAll_append, explode_append, specToks_append, ih,
      specToks_explode_one t l (he (t, l) (by simp))]
    show _ = (((flatTok t).reverse ++ flat rest).reverse).map treeTok
    rw [List.reverse_append, List.reverse_reverse, List.map_append]

/-! ### the data of a finished parse, exploded -/

/-- as `StreamData`, with the lock-step run taken over the exploded stream; `se` is the state in which the tree
builder ends when it is fed the exploded stream -/
structure StreamDataX (opts : Opts) (c : Cfg) (Hf : TOut) (j3 : JState) (se : State) (x' : Aux) : Prop where
  tree : c.tree = cfgOf (docStart opts)
  hist : absorb Hf.reverse (j0Of opts) = .ok j3
  lock : Lock (cfgOf (docStart opts)) c.fuel (docStart opts) { supply := c.supply } (explode (convAll Hf.reverse)) se x'
  resp : Respects2 (docStart opts) (explode (convAll Hf.reverse))
  emptyOk : EmptyOk (docStart opts) (convAll Hf.reverse)
  eofHead : ∃ l rest, Hf = (H5V.Model.HtmlTok.Token.eof, l) :: rest

section
variable {opts : Opts} {c : Cfg} {Hf : TOut} {j3 : JState} {se : State} {x' : Aux}

/-- the tree builder fed the exploded prefix is in a state `Sim`-related to the state of the actual run -/
theorem sim_of_lock {X : TOut} {jx : JState} (hjx : absorb X.reverse (j0Of opts) = .ok jx)
    (hn : EmptyOk (docStart opts) (convAll X.reverse)) {cfg : Config Id} {fuel : Nat} {x xp : Aux} {sp : State}
    (hl : Lock cfg fuel (docStart opts) x (explode (convAll X.reverse)) sp xp) : H5V.Props.C03.SimS jx.tb sp := by
  have hmod := absorb_model _ _ _ hjx
  obtain ⟨res, hres⟩ := hl.model ([] : List SinkResult)
  have hra := runAlike_explode _ [] (docStart opts) (docStart opts) (good_docStart opts).sim hn
  have h1 : processTokens (convAll X.reverse) [] (docStart opts) = .ok (jx.results, jx.tb) := hmod
  have h2 : processTokens (explode (convAll X.reverse)) [] (docStart opts) = .ok (res, sp) := hres
  rw [h1, h2] at hra
  exact hra.2.2

theorem StreamDataX.pre (hq : opts.quirksMode = .noQuirks) (d : StreamDataX opts c Hf j3 se x') {X Y : TOut}
    (hXY : Hf = Y ++ X) (hY : convAll Y.reverse ≠ []) {jx : JState} (hjx : absorb X.reverse (j0Of opts) = .ok jx) :
    ∃ sp xp, Lock (cfgOf (docStart opts)) c.fuel (docStart opts) { supply := c.supply }
        (explode (convAll X.reverse)) sp xp ∧ H5V.Props.C03.SimS jx.tb sp ∧
      AuxOk sp xp ∧ MInv sp ∧ TI sp ∧ cfgOf sp = cfgOf (docStart opts) ∧
      stateAfter c (flat X) = .ok (absF sp xp) := by
  have hts : convAll Hf.reverse = convAll X.reverse ++ convAll Y.reverse := by
    rw [hXY, List.reverse_append, convAll_append]
  have hne := d.emptyOk
  rw [hts] at hne
  have hnX := emptyOk_prefix _ _ _ hne
  have hYx : explode (convAll Y.reverse) ≠ [] := by
    obtain ⟨le, reste, hE⟩ := d.eofHead
    cases Y with
    | nil => exact absurd rfl hY
    | cons y Y' =>
      rw [hE] at hXY
      simp only [List.cons_append, List.cons.injEq] at hXY
      obtain ⟨rfl, _⟩ := hXY
      intro h0
      have hm : (TokToken.eof, le) ∈ convAll ((H5V.Model.HtmlTok.Token.eof, le) :: Y').reverse :=
        mem_convAll (l := ((H5V.Model.HtmlTok.Token.eof, le) :: Y').reverse) (p := (H5V.Model.HtmlTok.Token.eof, le))
          (by simp) rfl
      have := mem_explode_eof hm
      rw [h0] at this
      cases this
  have htsx : explode (convAll Hf.reverse) = explode (convAll X.reverse) ++ explode (convAll Y.reverse) := by
    rw [hts, explode_append]
  have hl := d.lock
  rw [htsx] at hl
  obtain ⟨sp, xp, h1, h2⟩ := Lock.split hl
  have hresp : Respects2 (docStart opts) (explode (convAll X.reverse) ++ explode (convAll Y.reverse)) := by
    rw [← htsx]; exact d.resp
  have hnoeof := h1.noEof hYx hresp
  have hneX : NoEof X := by
    intro p hp he
    have hm : (TokToken.eof, p.2) ∈ convAll X.reverse :=
      mem_convAll (l := X.reverse) (p := p) (List.mem_reverse.mpr hp) (by rw [he]; rfl)
    exact hnoeof _ (mem_explode_eof hm) rfl
  obtain ⟨a1, a2, a3, _⟩ := h1.inv (H5V.Props.C04TB.C04_tb_inv_new opts) (H5V.Props.C02.minv_docStart opts)
  refine ⟨sp, xp, h1, sim_of_lock hjx hnX h1, h1.aux (H5V.Props.C02.auxOk_docStart opts _) hnoeof, a2, a1, a3, ?_⟩
  unfold stateAfter
  rw [← specToks_explode_convAll X hneX, d.tree]
  have := (h1.runStd (xinv_docStart opts _ (H5V.Props.C02.auxOk_docStart opts _))).1
  rw [H5V.Props.C02.absF_docStart opts hq] at this
  exact this

theorem StreamDataX.agC (hq : opts.quirksMode = .noQuirks) (d : StreamDataX opts c Hf j3 se x') {X : TOut}
    (hP : Before Hf X) : AgC (polOfTree (treeOfSpec c)) (j0Of opts) X := by
  intro jx hjx
  obtain ⟨Y, hXY, hY⟩ := hP
  obtain ⟨sp, xp, _, hsim, haux, hminv, _, hcfg, hst⟩ := d.pre hq hXY hY hjx
  show (match stateAfter c (flat X) with | .ok s => acnForeign c.tree s | .error _ => false) = tbCdata jx
  rw [hst]
  obtain ⟨s1, hs1⟩ := acn_bridge hminv xp haux
  have hr := H5V.Lemmas.TBSplit.adjustedCurrentNodeForeign_resp jx.tb sp hsim
  have hs1' : adjustedCurrentNodeForeign sp = .ok (acnForeign (cfgOf sp) (absF sp xp), s1) := hs1
  rw [hs1'] at hr
  unfold tbCdata
  cases hj : adjustedCurrentNodeForeign.run jx.tb with
  | error e =>
    have hj' : adjustedCurrentNodeForeign jx.tb = .error e := hj
    rw [hj'] at hr
    exact hr.elim
  | ok v =>
    obtain ⟨b, t⟩ := v
    have hj' : adjustedCurrentNodeForeign jx.tb = .ok (b, t) := hj
    rw [hj'] at hr
    obtain ⟨e, _, _⟩ := hr
    simp only
    rw [e, d.tree, hcfg]

theorem StreamDataX.agT (hq : opts.quirksMode = .noQuirks) (d : StreamDataX opts c Hf j3 se x') {X : TOut}
    {tag : H5V.Model.HtmlTok.Tag} {l : Nat} (hP : Before Hf ((H5V.Model.HtmlTok.Token.tag tag, l) :: X)) :
    AgT (polOfTree (treeOfSpec c)) (j0Of opts) X tag := by
  intro jx hjx
  obtain ⟨Y, hXY, hY⟩ := hP
  -- the joint state after the tag
  have hh := d.hist
  rw [hXY, List.reverse_append, List.reverse_cons] at hh
  obtain ⟨jx', hjx', hrest⟩ := absorb_append_ok hh
  obtain ⟨jx0, hjx0, htag⟩ := absorb_append_ok hjx'
  rw [hjx] at hjx0
  cases hjx0
  obtain ⟨r, hrun, hres⟩ := absorb_tag htag
  -- the exploded run after the tag
  have hjx'' : absorb ((H5V.Model.HtmlTok.Token.tag tag, l) :: X).reverse (j0Of opts) = .ok jx' := by
    rw [List.reverse_cons]; exact hjx'
  obtain ⟨sp, xp, hl, _, _, _, _, _, hst⟩ := d.pre hq hXY hY hjx''
  have hcv : explode (convAll ((H5V.Model.HtmlTok.Token.tag tag, l) :: X).reverse) =
      explode (convAll X.reverse) ++ [(TokToken.tag (convTag tag), l)] := by
    rw [List.reverse_cons, convAll_append, explode_append]; rfl
  rw [hcv] at hl
  obtain ⟨sp0, xq, r0, hlq, hs⟩ := Lock.last hl
  -- the exploded run before the tag is `Sim`-related to the actual run
  have hnX : EmptyOk (docStart opts) (convAll X.reverse) := by
    have h := d.emptyOk
    rw [hXY, List.reverse_append, List.reverse_cons, convAll_append, convAll_append, List.append_assoc] at h
    exact emptyOk_prefix _ _ _ h
  have hsim := sim_of_lock hjx hnX hlq
  have hr0 : r0 = r := by
    have h1 := H5V.Props.C03.C03_tb_sim_step (.tag (convTag tag)) l l jx.tb sp0 hsim
    have ha : processToken (.tag (convTag tag)) l jx.tb = .ok (r, jx'.tb) := hrun
    have hb : processToken (.tag (convTag tag)) l sp0 = .ok (r0, sp) := hs.run
    rw [ha, hb] at h1
    exact h1.1.symm
  subst hr0
  rcases hs.spec with ⟨h0, _⟩ | ⟨st, o, _, ho, hrel, _⟩
  · simp [specTokOf] at h0
  · show sinkResOf (match stateAfter c (Emit.tag tag :: flat X) with | .ok s => lastSwitch s | .error _ => Switch.none)
        = np (tbTag jx tag)
    have hfl : flat ((H5V.Model.HtmlTok.Token.tag tag, l) :: X) = Emit.tag tag :: flat X := rfl
    rw [hfl] at hst
    rw [hst, tbTag_of_run hsim.good hrun]
    have hlast : lastSwitch (absF sp xp) = H5V.Spec.Parse.switchOf o.switch := by
      unfold lastSwitch
      show (match xp.outs.getLast? with | some o => H5V.Spec.Parse.switchOf o.switch | none => Switch.none) = _
      rw [ho]
      simp
    simp only [hlast]
    refine answer_eq hrel (fun e he => ?_)
    rw [he] at hrun
    have := processToken_rawKind _ _ _ _ _ hrun
    simp at this

/-- **the bridge, for every grouping of the character tokens** -/
theorem agrees_of_streamX (hq : opts.quirksMode = .noQuirks) (d : StreamDataX opts c Hf j3 se x') :
    Agrees (polOfTree (treeOfSpec c)) (j0Of opts) (Before Hf) where
  suf := by
    rintro Z X ⟨Y, hY, hne⟩
    refine ⟨Y ++ Z, by rw [hY, List.append_assoc], ?_⟩
    rw [List.reverse_append, convAll_append]
    intro h
    exact hne (List.append_eq_nil_iff.mp h).2
  tag := fun X tag l hP => d.agT hq hP
  cdata := fun X hP => d.agC hq hP

end

end H5V.Lemmas.ParseSpec
