import H5V.Lemmas.HtmlTBModesPrimIns2
import H5V.Lemmas.HtmlTBModesPrimPop
import H5V.Lemmas.HtmlTBModesPrimFmt
import H5V.Lemmas.HtmlTBModesSmall2
/-!
The "in head" rule function as a whole (`sim_inHead_tm`, `sim_inHead`, `simChars_inHead`, `modeSim_inHead`,
`modeCharSim_inHead`) and the "in template" insertion mode (`modeSim_inTemplate`, `modeCharSim_inTemplate`).

`TmOk s` ("in table text" is not on the stack of template insertion modes) is the field `MInv.tmodes`; it is
needed by the two places that "reset the insertion mode appropriately" after popping a template insertion
mode (`</template>`, EOF in "in template").
-/
namespace H5V.Lemmas.HtmlTBModes
open H5V.Model.HtmlTB
open H5V.Model.Dom (Id SinkOp Output Dom QualName Attr NodeOrText ElementFlags NodeData QuirksMode)
open H5V.Lemmas.HtmlTBAlgo
open H5V.Lemmas.TBSafe (TI HInv SInv Rooted)
open H5V.Spec.TreeAlgo2 (Elem Entry PState Ctx Edit Place)
open H5V.Spec.TreeModes (STok ETok IMode Config Out TokSwitch XOp Op Step Edition)

/-! ### the stack of template insertion modes -/

/-- the stack of template insertion modes never holds "in table text" (`MInv.tmodes`) -/
def TmOk (s : State) : Prop := ∀ m ∈ s.templateModes, m ≠ .inTableText

theorem TmOk.of_minv {s : State} (h : MInv s) : TmOk s := h.tmodes

theorem TmOk.congr {s s' : State} (h : TmOk s) (e : s'.templateModes = s.templateModes) : TmOk s' := by
  unfold TmOk; rw [e]; exact h

theorem TmOk.dropLast_getLast {s : State} (h : TmOk s) : s.templateModes.dropLast.getLast? ≠ some .inTableText := by
  intro e
  exact h _ (List.dropLast_subset _ (List.mem_of_getLast? e)) rfl

/-! ### generalities -/

/-- the call list of a run is determined by the trace -/
theorem head_calls_unique {s s' : State} {c1 c2 : List Call} (h1 : Ext2 s c1 s') (h2 : Ext2 s c2 s') : c1 = c2 := by
  have := h1.trace.symm.trans h2.trace
  exact List.reverse_inj.mp (List.append_cancel_right this)

/-- two post-conditions of the same computation -/
theorem head_pc_and {α : Type} {m : M α} {s : State} {Q1 Q2 : α → State → List Call → Prop}
    (h1 : PC m s Q1) (h2 : PC m s Q2) : PC m s (fun a s' c => Q1 a s' c ∧ Q2 a s' c) := by
  intro a s' hr
  obtain ⟨c1, e1, q1⟩ := h1 a s' hr
  obtain ⟨c2, e2, q2⟩ := h2 a s' hr
  have := head_calls_unique e1 e2
  subst this
  exact ⟨c1, e1, q1, q2⟩

theorem head_tr_withMode {s s' : State} {calls : List Call} {R : Aux → Aux → Prop} (h : Tr s s' calls R) (m : Mode) :
    Tr s { s' with mode := m } calls R := by
  obtain ⟨hm, hc, he, ids, hfi, f⟩ := h
  refine ⟨hm.withMode m, hc, he, ids, hfi, fun x rest hx hs => ?_⟩
  obtain ⟨x', l, r⟩ := f x rest hx hs
  exact ⟨x', ⟨l.aux.withMode m, l.supply, l.switch, l.script, l.outs, l.log⟩, r⟩

/-- the results that mean "done" to the specification -/
def head_plainRes (res : ProcessResult) : Prop :=
  res = .done ∨ res = .doneAckSelfClosing ∨ ∃ e, res = .encodingIndicator e

/-- the end of a rule that answers `Done` / `DoneAckSelfClosing` / `EncodingIndicator` -/
theorem head_tokPost_plain {spec : SState → Spec.TreeModes.M (Step Id)} {s s' : State} {tok : Token} {calls : List Call}
    {res : ProcessResult} (hres : head_plainRes res)
    (h : Tr s s' calls (fun x x' => spec (absF s x) = .ok (.done (absF s' x')))) :
    TokPost spec s tok res s' calls := by
  rcases hres with rfl | rfl | ⟨e, rfl⟩ <;>
    exact tokPost_of_tr h trivial fun _ x' _ _ r => ⟨x', r, AuxSame.rfl', Or.inl rfl, rfl, rfl⟩

/-- the end of a rule that answers `Reprocess(m, token)` -/
theorem head_tokPost_reprocess {spec : SState → Spec.TreeModes.M (Step Id)} {s s' : State} {tok : Token}
    {calls : List Call} {m : Mode}
    (h : Tr s s' calls (fun x x' => spec (absF s x) = .ok (.reprocess (absF { s' with mode := m } x')))) :
    TokPost spec s tok (.reprocess m tok) s' calls :=
  tokPost_of_tr h rfl fun _ x' _ _ r => ⟨x', r, AuxSame.rfl', Or.inl rfl, rfl, rfl⟩

/-- the `Aux` with the junk table text the abstract state of `s'` has (for a following switch of the mode) -/
def head_junk (s' : State) (x' : Aux) : Aux := { x' with pendingJunk := (absF s' x').pendingTableChars }

theorem head_junk_same (s' : State) (x' : Aux) :
    AuxSame x' (head_junk s' x') ∧ (head_junk s' x').stopped = x'.stopped ∧
      (head_junk s' x').out.switch = x'.out.switch ∧ (head_junk s' x').out.script = x'.out.script :=
  ⟨⟨rfl, rfl, rfl, rfl, rfl⟩, rfl, rfl, rfl⟩

theorem head_absF_junk (s' : State) (x' : Aux) (m : Mode) (hm : m ≠ .inTableText) :
    absF { s' with mode := m } (head_junk s' x') = (absF s' x').setMode (imode m) := by
  cases m <;> first | exact absurd rfl hm | rfl

/-! ### the arms of `stepInHead` as functions of their own -/

/-- "anything else": pop the current node, reprocess in "after head" -/
def head_elseM (tok : Token) : M ProcessResult := do
  let _ ← pop
  pure (.reprocess .afterHead tok)

/-- the answer to a `meta` start tag (rules.rs:194) -/
def head_metaRes (tag : Tag) : M ProcessResult :=
  match tag.getAttribute "charset" with
  | some charset => pure (.encodingIndicator charset)
  | none =>
    let isContentType := match tag.getAttribute "http-equiv" with
      | some v => eqIgnoreAsciiCase v "content-type".toList
      | none => false
    if isContentType then
      match tag.getAttribute "content" with
      | none => pure .doneAckSelfClosing
      | some content => do
        match ← extractEncoding content with
        | some enc => pure (.encodingIndicator enc)
        | none => pure .doneAckSelfClosing
    else pure .doneAckSelfClosing

/-- `<base> | <basefont> | <bgsound> | <link> | <meta>` -/
def head_voidM (tag : Tag) : M ProcessResult := do
  let _ ← insertAndPopElementFor tag
  if !isName tag.name "meta" then pure .doneAckSelfClosing
  else head_metaRes tag

/-- `<noframes> | <style> | <noscript>` -/
def head_rawM (tag : Tag) : M ProcessResult := do
  if !(← getS).opts.scriptingEnabled && isName tag.name "noscript" then
    let _ ← insertElementFor tag
    setMode .inHeadNoscript
    pure .done
  else parseRawData tag .rawtext

/-- `</head>` -/
def head_endHeadM : M ProcessResult := do
  let _ ← pop
  setMode .afterHead
  pure .done

/-- `<template>` (rules.rs:262) -/
def head_tmplStartM (tag : Tag) : M ProcessResult := do
  pushMarker
  setFramesetOk false
  setMode .inTemplate
  modS fun s => { s with templateModes := s.templateModes ++ [.inTemplate] }
  if ← shouldAttachDeclarativeShadow tag then
    let s ← getS
    let shadowHost ← match s.openElems.getLast? with
      | some h => pure h
      | none => panicAt "unwrap-none" "rules.rs:276" "open_elems.last().unwrap()"
    let shadowHost ←
      if s.contextElem.isSome && s.openElems.length == 1 then
        match s.contextElem with
        | some c => pure c
        | none => panicAt "unwrap-none" "rules.rs:278" "context_elem unwrap"
      else pure shadowHost
    let template ← insertForeignElement tag nsHtml true
    let succeeded ← sinkBool (.attachDeclarativeShadow shadowHost template tag.attrs)
    if !succeeded then
      let _ ← pop
      let _ ← insertElementFor tag
  else
    let _ ← insertElementFor tag
  pure .done

/-- `</template>` (rules.rs:295) -/
def head_tmplEndM : M ProcessResult := do
  if !(← inHtmlElemNamed "template") then
    let _ ← unexpected
  else
    generateImpliedEndTags thoroughImpliedEnd
    expectToClose "template"
    clearActiveFormattingToMarker
    modS fun s => { s with templateModes := s.templateModes.dropLast }
    setMode (← resetInsertionMode)
  pure .done

theorem stepInHead_tag (t : Tag) : stepInHead (.tag t) =
    (if t.isStart ["html"] then inBodyHtml t
    else if t.isStart ["base", "basefont", "bgsound", "link", "meta"] then head_voidM t
    else if t.isStart ["title"] then parseRawData t .rcdata
    else if t.isStart ["noframes", "style", "noscript"] then head_rawM t
    else if t.isStart ["script"] then scriptStart t
    else if t.isEnd ["head"] then head_endHeadM
    else if t.isEnd ["body", "html", "br"] then head_elseM (.tag t)
    else if t.isStart ["template"] then head_tmplStartM t
    else if t.isEnd ["template"] then head_tmplEndM
    else if t.isStart ["head"] || t.kind == .endTag then unexpected
    else head_elseM (.tag t)) := rfl

/-! ### the simple arms -/

theorem head_pc_else {s : State} (hm : MInv s) (tok : Token) :
    PC (head_elseM tok) s (fun r s' calls => r = .reprocess .afterHead tok ∧ s'.ignoreLf = s.ignoreLf ∧
      Tr s s' calls (fun x x' => absF { s' with mode := .afterHead } x' = (absF s x).pop.setMode .afterHead)) := by
  unfold head_elseM
  refine pc_seq (pc_pop hm) ?_
  rintro h s1 c1 _ ⟨-, -, hso, htr⟩
  refine pc_pure ⟨rfl, (SameButSL.of_stackOnly hso).ignoreLf, ?_⟩
  rw [List.append_nil]
  refine htr.reaux (fun _ x' => head_junk s1 x') (fun _ x' => head_junk_same s1 x') ?_
  rintro x x' hx hx' ⟨hxx, e, -⟩
  subst hxx
  rw [head_absF_junk _ _ _ (by decide), e]
  rfl

/-- "Pop the current node off the stack of open elements.  Switch the insertion mode to "after head".
Reprocess the token." -/
theorem head_pc_else_tok {s : State} (hm : MInv s) (tok : Token) :
    PC (head_elseM tok) s
      (TokPost (fun σ => pure (Step.reprocess ((Spec.TreeModes.State.pop σ).setMode .afterHead))) s tok) := by
  refine pc_conseq (head_pc_else hm tok) ?_
  rintro r s' calls _ ⟨rfl, -, htr⟩
  exact head_tokPost_reprocess (htr.conseq fun x x' _ _ e => by rw [e]; rfl)

/-- `extract_a_character_encoding_from_a_meta_element`: a computation on the attribute value, no sink call -/
theorem head_pc_extractEncoding (content : Str) (s : State) :
    PC (extractEncoding content) s (fun _ s' calls => s' = s ∧ calls = []) := by
  unfold extractEncoding
  split
  · exact pc_throw
  · exact pc_pure ⟨rfl, rfl⟩
  · split
    · exact pc_pure ⟨rfl, rfl⟩
    · exact pc_throw

theorem head_pc_metaRes (tag : Tag) (s : State) :
    PC (head_metaRes tag) s (fun r s' calls => s' = s ∧ calls = [] ∧ head_plainRes r) := by
  unfold head_metaRes
  split
  · exact pc_pure ⟨rfl, rfl, Or.inr (Or.inr ⟨_, rfl⟩)⟩
  · dsimp only
    repeat' split
    all_goals first
      | exact pc_pure ⟨rfl, rfl, Or.inr (Or.inl rfl)⟩
      | exact pc_pure ⟨rfl, rfl, Or.inr (Or.inr ⟨_, rfl⟩)⟩
      | (refine pc_seq (head_pc_extractEncoding _ s) ?_
         rintro r s1 c1 _ ⟨rfl, rfl⟩
         cases r with
         | none => exact pc_pure ⟨rfl, rfl, Or.inr (Or.inl rfl)⟩
         | some enc => exact pc_pure ⟨rfl, rfl, Or.inr (Or.inr ⟨_, rfl⟩)⟩)

/-- `<base> | <basefont> | <bgsound> | <link> | <meta>`: "Insert an HTML element for the token.
Immediately pop the current node off the stack of open elements.  Acknowledge the token's self-closing
flag, if it is set."  (html5ever's answer `EncodingIndicator` for a `meta` is "done" to the specification,
which does not model encodings) -/
theorem head_pc_void {s : State} (hm : MInv s) {t : Tag} (hp : PlainTag t) (tok : Token) :
    PC (head_voidM t) s (TokPost (fun σ => Step.done <$> Spec.TreeModes.insertVoid σ (specTag t)) s tok) := by
  unfold head_voidM
  refine pc_seq (pc_insertVoid hm hp) ?_
  rintro a s1 c1 _ ⟨-, -, -, -, -, htr⟩
  have hfin : ∀ res, head_plainRes res →
      TokPost (fun σ => Step.done <$> Spec.TreeModes.insertVoid σ (specTag t)) s tok res s1 (c1 ++ []) := fun res hres => by
    rw [List.append_nil]
    exact head_tokPost_plain hres (htr.conseq fun x x' _ _ r => by rw [r]; rfl)
  split
  · exact pc_pure (hfin _ (Or.inr (Or.inl rfl)))
  · refine pc_conseq (head_pc_metaRes t s1) ?_
    rintro r s' calls _ ⟨rfl, rfl, hr⟩
    exact hfin r hr

/-- `<noframes> | <style> | <noscript>`: the generic raw text element parsing algorithm, or (`noscript`
with the scripting flag disabled) "Insert an HTML element for the token.  Switch the insertion mode to
"in head noscript"." -/
theorem head_pc_raw {s : State} (hm : MInv s) {t : Tag} (hp : PlainTag t) (tok : Token) :
    PC (head_rawM t) s (TokPost (fun σ =>
      if (!s.opts.scriptingEnabled && decide (t.name = "noscript".toList)) = true then do
        let σ1 ← Spec.TreeModes.insertHtml' σ (specTag t)
        pure (Step.done (σ1.setMode .inHeadNoscript))
      else Step.done <$> Spec.TreeModes.genericRawText σ (specTag t)) s tok) := by
  unfold head_rawM
  refine pc_getS_bind ?_
  simp only [isName_eq]
  by_cases hc : (!s.opts.scriptingEnabled && decide (t.name = "noscript".toList)) = true
  · simp only [hc, if_true]
    refine pc_seq (pc_insertElementFor' hm hp) ?_
    rintro a s1 c1 _ ⟨-, -, -, -, -, htr1⟩
    have hm1 : MInv s1 := htr1.1
    refine pc_seq (pc_setMode_junk hm1 .inHeadNoscript (by decide)) ?_
    rintro _ s2 c2 _ ⟨-, htr2⟩
    refine pc_pure ?_
    rw [List.append_nil]
    refine head_tokPost_plain (Or.inl rfl) ((htr1.trans htr2).conseq ?_)
    rintro x x' _ _ ⟨x1, r1, -, r2⟩
    simp only [r1, r2]
    rfl
  · simp only [hc, Bool.false_eq_true, if_false]
    exact pc_parseRawData_rawtext hm hp tok

/-- `</head>`: "Pop the current node off the stack of open elements.  Switch the insertion mode to
"after head"." -/
theorem head_pc_endHead {s : State} (hm : MInv s) (tok : Token) :
    PC head_endHeadM s
      (TokPost (fun σ => pure (Step.done ((Spec.TreeModes.State.pop σ).setMode .afterHead))) s tok) := by
  unfold head_endHeadM
  refine pc_seq (pc_pop hm) ?_
  rintro h s1 c1 _ ⟨-, -, -, htr1⟩
  have hm1 : MInv s1 := htr1.1
  refine pc_seq (pc_setMode_junk hm1 .afterHead (by decide)) ?_
  rintro _ s2 c2 _ ⟨-, htr2⟩
  refine pc_pure ?_
  rw [List.append_nil]
  refine head_tokPost_plain (Or.inl rfl) ((htr1.trans htr2).conseq ?_)
  rintro x x' _ _ ⟨x1, ⟨hx1, e1, -⟩, -, r2⟩
  subst hx1
  rw [r2, e1]
  rfl

/-! ### the `template` start tag -/

/-- `should_attach_declarative_shadow(tag)` (mod.rs:1465) for a tag without a `shadowrootmode` attribute:
a query stretch (the appropriate place for inserting a node, `allow_declarative_shadow_roots`) that
answers `false` -/
theorem head_pc_shouldAttach {s : State} (hm : MInv s) {t : Tag}
    (hns : ∀ a ∈ t.attrs, a.name.loc ≠ "shadowrootmode".toList) :
    PC (shouldAttachDeclarativeShadow t) s (QueryQ s false) := by
  unfold shouldAttachDeclarativeShadow
  by_cases hne : s.openElems = []
  · exact pc_bind_false (pc_apfi_nil hne)
  obtain ⟨h0, hh0, hnt, hsp⟩ := hm.headOk hne
  obtain ⟨place, hplace, -⟩ := appropriatePlace_some (absStack s.dom s.openElems) s.fosterParenting none
    (elemOf s.dom h0) (by rw [absStack_head?, hh0]; rfl) hnt
  refine pc_query_bind (PC.of_tot (tot_appropriatePlace s none hm.elems (by intro t h; cases h) place hplace)) ?_
  intro s1 c1 he1 hs1 hc1
  have hshadow : (t.attrs.any fun a =>
      isName a.name.loc "shadowrootmode" && (a.value == "open".toList || a.value == "closed".toList)) = false := by
    rw [List.any_eq_false]
    intro a ha
    rw [isName_eq, decide_eq_false (hns a ha)]
    intro h
    cases h
  dsimp only
  rw [hshadow]
  refine pc_bind ?_
  unfold sinkBool
  refine pc_bind (pc_sink ?_)
  intro d' out ha
  rw [TBSafe.apply_allow] at ha
  cases ha
  refine pc_pure (pc_getS_bind (pc_pure ?_))
  refine ⟨rfl, hs1.trans (SameTB.afterCall ..), ?_⟩
  rw [edits_append, hc1]
  rfl

/-- the invariant after a change of the stack of template insertion modes -/
theorem head_minv_withTm {s : State} (hm : MInv s) (tm : List Mode) (h : ∀ m ∈ tm, m ≠ .inTableText) :
    MInv { s with templateModes := tm } := by
  have h0 : MInv { ({ s with templateModes := tm } : State) with templateModes := s.templateModes } := hm
  exact { h0 with tmodes := h }

/-- a change of the stack of template insertion modes (`g`: the same change on the specification's side) -/
theorem head_pc_modTm {s : State} (hm : MInv s) (f : List Mode → List Mode) (g : List IMode → List IMode)
    (hfg : ∀ l, (f l).map imode = g (l.map imode)) (hf : ∀ m ∈ f s.templateModes, m ≠ .inTableText) :
    PC (modS fun s => { s with templateModes := f s.templateModes }) s (fun _ s' calls =>
      s' = { s with templateModes := f s.templateModes } ∧
      Tr s s' calls (fun x x' => x' = x ∧
        absF s' x' = { absF s x with templateModes := g (absF s x).templateModes })) := by
  refine pc_modS rfl rfl ⟨rfl, ?_⟩
  refine (Tr.of_upd (s' := { s with templateModes := f s.templateModes }) hm rfl (fun _ h => h)
    (head_minv_withTm hm _ hf) rfl).conseq ?_
  rintro x x' _ _ hxx
  subst x'
  refine ⟨rfl, ?_⟩
  have e : absF { s with templateModes := f s.templateModes } x
      = { absF s x with templateModes := (f s.templateModes).map imode } := rfl
  rw [e, hfg]
  rfl

theorem head_tm_dropLast {s : State} (hm : MInv s) : ∀ m ∈ s.templateModes.dropLast, m ≠ .inTableText :=
  fun m h => hm.tmodes m (List.dropLast_subset _ h)

/-- `<template>` (rules.rs:262) against `inHeadStartTemplate`: the steps come in the same order (marker,
frameset-ok flag, insertion mode, stack of template insertion modes, insert the element);
`should_attach_declarative_shadow` answers `false` for a tag without `shadowrootmode` -/
theorem head_pc_tmplStart {s : State} (hm : MInv s) {t : Tag} (hwf : TagWf t) (tok : Token) :
    PC (head_tmplStartM t) s (TokPost (fun σ => Spec.TreeModes.inHeadStartTemplate σ (specTag t)) s tok) := by
  unfold head_tmplStartM
  refine pc_seq (pc_pushMarker hm) ?_
  rintro _ s1 c1 _ ⟨-, htr1⟩
  have hm1 : MInv s1 := htr1.1
  refine pc_seq (pc_setFramesetNotOk hm1) ?_
  rintro _ s2 c2 _ ⟨-, htr2⟩
  have hm2 : MInv s2 := htr2.1
  refine pc_seq (pc_setMode_junk hm2 .inTemplate (by decide)) ?_
  rintro _ s3 c3 _ ⟨-, htr3⟩
  have hm3 : MInv s3 := htr3.1
  refine pc_seq (head_pc_modTm hm3 (fun l => l ++ [.inTemplate]) (fun l => l ++ [.inTemplate])
    (fun l => by rw [List.map_append]; rfl) (fun m h => by
      rcases List.mem_append.mp h with h | h
      · exact hm3.tmodes m h
      · rw [List.mem_singleton.mp h]; decide)) ?_
  rintro _ s4 c4 _ ⟨-, htr4⟩
  have hm4 : MInv s4 := htr4.1
  refine pc_seq (head_pc_shouldAttach hm4 hwf.noShadow) ?_
  rintro b s5 c5 he5 ⟨rfl, hs5, hc5⟩
  have htr5 := Tr.of_same hm4 hs5 he5 (by rw [← edits2_edits, hc5]; rfl)
  have hm5 : MInv s5 := htr5.1
  simp only [Bool.false_eq_true, if_false]
  refine pc_seq (pc_insertElementFor' hm5 hwf.plain) ?_
  rintro a s6 c6 _ ⟨-, -, -, -, -, htr6⟩
  refine pc_pure ?_
  simp only [List.append_nil, ← List.append_assoc]
  refine head_tokPost_plain (Or.inl rfl) ((((((htr1.trans htr2).trans htr3).trans htr4).trans htr5).trans htr6).conseq ?_)
  rintro x x6 _ _ ⟨x5, ⟨x4, ⟨x3, ⟨x2, ⟨x1, ⟨hx1, r1⟩, hx2, r2⟩, hx3, r3⟩, hx4, r4⟩, hx5, r5⟩, r6⟩
  subst hx5
  subst hx4
  subst hx2
  subst hx1
  have e4 : absF s4 x5 = { ((absF s x2).insertMarker.notOk.setMode .inTemplate) with
      templateModes := ((absF s x2).insertMarker.notOk.setMode .inTemplate).templateModes ++ [.inTemplate] } := by
    rw [r4, r3, r2, ← r1]
    rfl
  simp only [Spec.TreeModes.inHeadStartTemplate]
  rw [← e4, r5, r6]
  rfl

/-! ### the `template` end tag -/

/-- step 2 of the `template` end tag: "If the current node is not a `template` element, then this is a parse error." -/
def head_tmplErr (σ : SState) : SState :=
  if σ.curIs "template" then σ else σ.err "in head: template end tag, current node is not template"

/-- `</template>` (rules.rs:295) against `inHeadEndTemplate`.  (`MInv.tmodes`: "reset the insertion mode
appropriately" must not answer "in table text".) -/
theorem head_pc_tmplEnd {s : State} (hm : MInv s) (tok : Token) :
    PC head_tmplEndM s (TokPost (fun σ => Spec.TreeModes.inHeadEndTemplate (cfgOf s) σ) s tok) := by
  have htm : TmOk s := hm.tmodes
  unfold head_tmplEndM
  refine pc_seq (head_pc_and (pc_inHtmlElemNamed_template hm)
    (PC.of_tot (pop_tot_inHtmlElemNamed s hm.elems "template"))) ?_
  rintro b s1 c1 _ ⟨htr1, -, hs1, -⟩
  have hm1 : MInv s1 := htr1.1
  have htm1 : TmOk s1 := htm.congr hs1.fields.templateModes
  cases b with
  | false =>
    simp only [Bool.not_false, if_true]
    refine pc_seq (pc_unexpected hm1) ?_
    rintro r s2 c2 _ ⟨-, htr2⟩
    refine pc_pure ?_
    rw [List.append_nil]
    refine tokPost_of_tr (htr1.trans htr2) trivial ?_
    rintro x x' hx hx' ⟨x1, ⟨hx1, e1, hb⟩, hx2, e2⟩
    subst hx2
    subst hx1
    refine ⟨{ x' with errors := x'.errors ++ ["in head: template end tag without template"] }, ?_,
      ⟨rfl, rfl, rfl, rfl, rfl⟩, Or.inl rfl, rfl, rfl⟩
    simp only [Spec.TreeModes.inHeadEndTemplate, ← hb, Bool.not_false, if_true, stepOf]
    rw [e1, e2]
    rfl
  | true =>
    simp only [Bool.not_true, Bool.false_eq_true, if_false]
    refine pc_seq (head_pc_and (pc_generateImpliedEndTags_thorough hm1)
      (PC.of_tot (tot_generateImpliedEndTags_thorough s1 hm1.elems))) ?_
    rintro _ s2 c2 _ ⟨htr2, hso2, -, -, -⟩
    have hm2 : MInv s2 := htr2.1
    have htm2 : TmOk s2 := htm1.congr (SameButSL.of_stackOnly hso2).templateModes
    -- the parse error "the current node is not a template element"
    have htr2' : Tr s1 s2 c2 (fun x x' => absF s2 x' = head_tmplErr (Spec.TreeModes.genAllImpliedThoroughly (absF s1 x))) := by
      refine htr2.reaux (fun _ x' => if (absF s2 x').curIs "template" then x' else
        { x' with errors := x'.errors ++ ["in head: template end tag, current node is not template"] }) ?_ ?_
      · intro x x'
        split <;> exact ⟨⟨rfl, rfl, rfl, rfl, rfl⟩, rfl, rfl, rfl⟩
      · rintro x x' _ _ ⟨hxx, e⟩
        subst x'
        rw [← e]
        unfold head_tmplErr
        split <;> rfl
    refine pc_seq (head_pc_and (pc_expectToClose hm2 "template")
      (show PC (expectToClose "template") s2 _ from PC.of_tot (tot_expectToCloseS s2 hm2.elems "template".toList))) ?_
    rintro _ s3 c3 _ ⟨htr3, hso3, -⟩
    have hm3 : MInv s3 := htr3.1
    have htm3 : TmOk s3 := htm2.congr (SameButSL.of_stackOnly hso3).templateModes
    refine pc_seq (pc_clearActiveFormattingToMarker hm3) ?_
    rintro _ s4 c4 _ ⟨hs4, htr4⟩
    have hm4 : MInv s4 := htr4.1
    have htm4 : TmOk s4 := htm3.congr (by rw [hs4])
    refine pc_seq (head_pc_modTm hm4 List.dropLast List.dropLast (fun l => List.map_dropLast) (head_tm_dropLast hm4)) ?_
    rintro _ s5 c5 _ ⟨hs5, htr5⟩
    have hm5 : MInv s5 := htr5.1
    have hc5 : cfgOf s5 = cfgOf s :=
      htr5.2.1.trans (htr4.2.1.trans (htr3.2.1.trans (htr2.2.1.trans htr1.2.1)))
    refine pc_seq (pc_resetInsertionMode hm5) ?_
    rintro m s6 c6 _ ⟨-, hmt, htr6⟩
    have hm6 : MInv s6 := htr6.1
    have hne : m ≠ .inTableText := fun h => htm4.dropLast_getLast (by rw [hs5] at hmt; exact hmt h)
    refine pc_seq (pc_setMode_junk hm6 m hne) ?_
    rintro _ s7 c7 _ ⟨-, htr7⟩
    refine pc_pure ?_
    simp only [List.append_nil, ← List.append_assoc]
    refine head_tokPost_plain (Or.inl rfl)
      (((((((htr1.trans htr2').trans htr3).trans htr4).trans htr5).trans htr6).trans htr7).conseq ?_)
    rintro x x7 _ _ ⟨x6, ⟨x5, ⟨x4, ⟨x3, ⟨x2, ⟨x1, ⟨hx1, e1, hb⟩, r2⟩, hx3, r3⟩, hx4, r4⟩, hx5, r5⟩, hx6, e6, r6⟩, hx7, r7⟩
    subst hx6
    subst hx5
    subst hx4
    subst hx3
    subst hx1
    have key : Spec.TreeModes.inHeadEndTemplate (cfgOf s) (absF s x1)
        = (Spec.TreeModes.resetInsertionMode (cfgOf s) (absF s5 x6) >>= fun σ => pure (Step.done σ)) := by
      rw [r5, ← r4, r3, r2, ← e1]
      simp only [Spec.TreeModes.inHeadEndTemplate, ← hb, Bool.not_true, Bool.false_eq_true, if_false, head_tmplErr]
    rw [key, ← hc5, r6, r7, e6]
    rfl

/-! ### the rule function on non-character tokens -/

set_option linter.unusedSimpArgs false

/-- **"in head", non-character tokens**, with the `</template>` arm given -/
theorem head_sim_core (tok : Token) (hch : isCharsTok tok = false) (hwf : TokWf tok) (s : State) (hm : MInv s)
    (hend : ∀ t, tok = .tag t → t.kind = .endTag → t.name = "template".toList →
      PC head_tmplEndM s (TokPost (fun σ => Spec.TreeModes.inHeadEndTemplate (cfgOf s) σ) s tok)) :
    PC (stepInHead tok) s (TokPost (fun σ => Spec.TreeModes.inHead (cfgOf s) σ (stokOf tok)) s tok) := by
  cases tok with
  | chars st text => cases hch
  | comment text =>
    simp only [stepInHead]
    refine pc_conseq (pc_appendComment' hm text) ?_
    rintro r s' calls _ ⟨rfl, htr⟩
    exact head_tokPost_plain (Or.inl rfl) (htr.conseq fun x x' _ _ hr => by
      simp only [stokOf, Spec.TreeModes.inHead, hr]; rfl)
  | eof => exact head_pc_else_tok hm _
  | nullChar =>
    refine pc_tokPost_congr (head_pc_else_tok hm _) ?_
    intro x hx
    simp only [stokOf, Spec.TreeModes.inHead, isWs_nul, Bool.false_eq_true, if_false]
  | tag t =>
    have hwt : TagWf t := hwf
    rw [stepInHead_tag]
    simp only [Tag.isStart, Tag.isEnd, isOneOf_cons, isOneOf_nil, Bool.or_false]
    cases hk : t.kind with
    | startTag =>
      simp only [stokOf, stokOfTag_start hk, Spec.TreeModes.inHead, Spec.TreeModes.Tag.is, Spec.TreeModes.Tag.isOneOf,
        strIs_eq, strIsOneOf_cons, strIsOneOf_nil, specTag_name, Bool.or_false]
      by_cases h1 : t.name = "html".toList
      · simp +decide only [h1, if_true]
        exact pc_inBodyHtml hm hwt.plain _
      by_cases h2 : t.name = "base".toList
      · simp +decide only [h2, if_true, if_false]
        exact head_pc_void hm hwt.plain _
      by_cases h3 : t.name = "basefont".toList
      · simp +decide only [h3, if_true, if_false]
        exact head_pc_void hm hwt.plain _
      by_cases h4 : t.name = "bgsound".toList
      · simp +decide only [h4, if_true, if_false]
        exact head_pc_void hm hwt.plain _
      by_cases h5 : t.name = "link".toList
      · simp +decide only [h5, if_true, if_false]
        exact head_pc_void hm hwt.plain _
      by_cases h6 : t.name = "meta".toList
      · simp +decide only [h6, if_true, if_false]
        exact head_pc_void hm hwt.plain _
      by_cases h7 : t.name = "title".toList
      · simp +decide only [h7, if_true, if_false]
        exact pc_parseRawData_rcdata hm hwt.plain _
      by_cases h8 : t.name = "noframes".toList
      · simp +decide only [h8, if_true, if_false]
        refine pc_tokPost_congr (head_pc_raw hm hwt.plain _) ?_
        intro x hx
        simp +decide only [h8, decide_true, decide_false, Bool.false_and, Bool.true_and, Bool.false_or, Bool.or_false, Bool.or_true, Bool.true_or,
          Bool.and_false, Bool.and_true, if_true, if_false, Bool.false_eq_true, Bool.not_true, Bool.not_false]
      by_cases h9 : t.name = "style".toList
      · simp +decide only [h9, if_true, if_false]
        refine pc_tokPost_congr (head_pc_raw hm hwt.plain _) ?_
        intro x hx
        simp +decide only [h9, decide_true, decide_false, Bool.false_and, Bool.true_and, Bool.false_or, Bool.or_false, Bool.or_true, Bool.true_or,
          Bool.and_false, Bool.and_true, if_true, if_false, Bool.false_eq_true, Bool.not_true, Bool.not_false]
      by_cases h10 : t.name = "noscript".toList
      · simp +decide only [h10, if_true, if_false]
        refine pc_tokPost_congr (head_pc_raw hm hwt.plain _) ?_
        intro x hx
        have hsc : (cfgOf s).scripting = s.opts.scriptingEnabled := rfl
        rw [hsc]
        cases s.opts.scriptingEnabled <;> simp +decide only [h10, decide_true, decide_false, Bool.false_and, Bool.true_and, Bool.false_or, Bool.or_false, Bool.or_true, Bool.true_or,
          Bool.and_false, Bool.and_true, if_true, if_false, Bool.false_eq_true, Bool.not_true, Bool.not_false]
      by_cases h11 : t.name = "script".toList
      · simp +decide only [h11, if_true, if_false]
        refine pc_tokPost_congr (pc_scriptStart hm hwt.plain h11 _) ?_
        intro x hx
        simp only [decide_true, decide_false, Bool.false_and, Bool.true_and, Bool.false_or, Bool.or_false, Bool.or_true, Bool.true_or,
          Bool.and_false, Bool.and_true, if_true, if_false, Bool.false_eq_true, Bool.not_true, Bool.not_false]
        unfold Spec.TreeModes.genericTextElement
        cases Spec.TreeModes.insertHtml' (absF s x) (specTag t) <;> rfl
      by_cases h12 : t.name = "template".toList
      · simp +decide only [h12, if_true, if_false]
        exact head_pc_tmplStart hm hwt _
      by_cases h13 : t.name = "head".toList
      · simp +decide only [h13, if_true, if_false]
        exact pc_unexpected_err hm _ _
      simp +decide only [h1, h2, h3, h4, h5, h6, h7, h8, h9, h10, h11, h12, h13, if_false]
      exact head_pc_else_tok hm _
    | endTag =>
      simp only [stokOf, stokOfTag_end hk, Spec.TreeModes.inHead, Spec.TreeModes.Tag.is, Spec.TreeModes.Tag.isOneOf,
        strIs_eq, strIsOneOf_cons, strIsOneOf_nil, specTag_name, Bool.or_false]
      by_cases h1 : t.name = "head".toList
      · simp +decide only [h1, if_true, if_false]
        exact head_pc_endHead hm _
      by_cases h2 : t.name = "body".toList
      · simp +decide only [h2, if_true, if_false]
        exact head_pc_else_tok hm _
      by_cases h3 : t.name = "html".toList
      · simp +decide only [h3, if_true, if_false]
        exact head_pc_else_tok hm _
      by_cases h4 : t.name = "br".toList
      · simp +decide only [h4, if_true, if_false]
        exact head_pc_else_tok hm _
      by_cases h5 : t.name = "template".toList
      · simp +decide only [h5, if_true, if_false]
        exact hend t rfl hk h5
      simp +decide only [h1, h2, h3, h4, h5, if_false]
      exact pc_unexpected_err hm _ _


/-- **"in head" on non-character tokens** (every clause; the `html` start tag is `inBodyStartHtml`, no
delegation to `stepInBody` is needed) -/
theorem sim_inHead0 : StepSimTok stepInHead Spec.TreeModes.inHead :=
  fun tok hch hwf s hm => head_sim_core tok hch hwf s hm fun _ _ _ _ => head_pc_tmplEnd hm tok

/-- the same with the (unused) hypothesis about "in body" -/
theorem sim_inHead (_hbody : StepSimTok stepInBody Spec.TreeModes.inBody) :
    StepSimTok stepInHead Spec.TreeModes.inHead := sim_inHead0

/-! ### the rule function on runs of characters -/

theorem simChars_inHead : StepSimChars stepInHead Spec.TreeModes.inHead := by
  intro st text hwf s hm hlf hdisp
  obtain ⟨hne, hnul, hcls⟩ := hwf
  cases st with
  | notSplit =>
    simp only [stepInHead]
    exact pc_pure ⟨rfl, rfl, rfl, (Tr.refl hm).conseq fun _ _ _ _ h => ⟨h, rfl⟩⟩
  | whitespace =>
    simp only [stepInHead]
    refine pc_conseq (pc_appendText hm text) ?_
    rintro r s' calls he ⟨rfl, hs, htr⟩
    refine ⟨hs.fields.ignoreLf, htr.conseq ?_⟩
    intro x x' hx hx' hr
    refine charsRunK_foldlM (m := imode s.mode) (fun σ c => Spec.TreeModes.insertChar σ c) ?_
      (fun _ _ _ h => SameDisp.insertChar h) (fun _ h => h) rfl hx.live hlf (hdisp x hx) hr
    intro σ _ c hc
    simp only [Spec.TreeModes.inHead, isWs_eq_ascii, hcls c hc, if_true]
  | notWhitespace =>
    show PC (head_elseM (.chars .notWhitespace text)) s _
    refine pc_conseq (head_pc_else hm _) ?_
    rintro r s' calls _ ⟨rfl, hlf', htr⟩
    cases text with
    | nil => exact absurd rfl hne
    | cons c cs =>
      refine ⟨rfl, hlf', c, cs, rfl, (head_tr_withMode htr .afterHead).conseq ?_⟩
      intro x x' _ _ e
      have hc : isAsciiWhitespace c = false := hcls c List.mem_cons_self
      simp only [Spec.TreeModes.inHead, isWs_eq_ascii, hc, Bool.false_eq_true, if_false]
      rw [e]
      rfl

/-! ### the insertion mode "in head" -/

theorem byModeDev_inHead {cfg : Config Id} {σ : SState} (h : σ.mode = .inHead) (tok : STok) :
    byModeDev cfg σ tok = Spec.TreeModes.inHead cfg σ tok := by
  simp [byModeDev, h, Spec.TreeModes.byMode]

theorem modeSim_inHead_at {s : State} (hm : MInv s) (hmode : s.mode = .inHead) (tok : Token)
    (hch : isCharsTok tok = false) (hwf : TokWf tok) :
    PC (step .inHead tok) s (TokPost (fun σ => byModeDev (cfgOf s) σ (stokOf tok)) s tok) := by
  refine pc_tokPost_congr (sim_inHead0 tok hch hwf s hm) ?_
  intro x hx
  exact byModeDev_inHead (by show imode s.mode = _; rw [hmode]; rfl) _

theorem modeSim_inHead : ModeSim .inHead := by
  intro tok hch hwf s _ hm hmode _
  exact modeSim_inHead_at hm hmode tok hch hwf

theorem modeCharSim_inHead : ModeCharSim .inHead := by
  intro st text hwf s _ hm hmode hlf hdisp
  have hmσ : imode s.mode = .inHead := by rw [hmode]; rfl
  show PC (stepInHead (.chars st text)) s _
  exact pc_chars_delegate simChars_inHead hwf hm hmσ hlf hdisp (fun σ1 h1 c _ => byModeDev_inHead h1 _)

/-! ### "in template": the end of the file -/

/-- the insertion mode "reset the insertion mode appropriately" switches to -/
def head_resetMode (cfg : Config Id) (σ : SState) : Spec.TreeModes.M IMode :=
  let tm : Option Spec.TreeAlgo.Mode := σ.templateModes.getLast?.bind IMode.toAlgo
  let ctxName := cfg.context.map (·.name)
  match cfg.edition with
  | .customizableSelect =>
    Spec.TreeModes.req ((Spec.TreeAlgo.resetInsertionMode ctxName σ.headPointer.isNone tm σ.names).map IMode.ofAlgo)
      "reset the insertion mode appropriately: no current template insertion mode"
  | .selectModes =>
    Spec.TreeModes.req (Spec.TreeModes.resetLegacy ctxName σ.headPointer.isNone tm σ.names)
      "reset the insertion mode appropriately: no current template insertion mode"

theorem head_reset_eq (cfg : Config Id) (σ : SState) :
    Spec.TreeModes.resetInsertionMode cfg σ = (head_resetMode cfg σ >>= fun m => pure (σ.setMode m)) := by
  unfold Spec.TreeModes.resetInsertionMode head_resetMode
  cases cfg.edition <;> rfl

theorem head_resetMode_setMode (cfg : Config Id) (σ : SState) (μ : IMode) :
    head_resetMode cfg (σ.setMode μ) = head_resetMode cfg σ := rfl

/-- "reset the insertion mode appropriately" does not look at the insertion mode -/
theorem head_reset_indep {cfg : Config Id} {σ : SState} {μ μ2 : IMode}
    (h1 : Spec.TreeModes.resetInsertionMode cfg σ = .ok (σ.setMode μ))
    (h2 : Spec.TreeModes.resetInsertionMode cfg (σ.setMode μ) = .ok ((σ.setMode μ).setMode μ2)) : μ2 = μ := by
  rw [head_reset_eq] at h1 h2
  rw [head_resetMode_setMode] at h2
  cases hr : head_resetMode cfg σ with
  | error e => rw [hr] at h1; cases h1
  | ok m0 =>
    rw [hr] at h1 h2
    have e1 : m0 = μ := congrArg (·.mode) (Except.ok.inj h1)
    have e2 : m0 = μ2 := congrArg (·.mode) (Except.ok.inj h2)
    rw [← e1, ← e2]

/-- … nor at the parse errors -/
theorem head_reset_errors {cfg : Config Id} {σ : SState} {μ : IMode} (E : List String)
    (h : Spec.TreeModes.resetInsertionMode cfg σ = .ok (σ.setMode μ)) :
    Spec.TreeModes.resetInsertionMode cfg { σ with errors := E }
      = .ok (Spec.TreeModes.State.setMode { σ with errors := E } μ) := by
  rw [head_reset_eq] at h ⊢
  have e : head_resetMode cfg { σ with errors := E } = head_resetMode cfg σ := rfl
  rw [e]
  cases hr : head_resetMode cfg σ with
  | error e => rw [hr] at h; cases h
  | ok m0 =>
    rw [hr] at h
    have e1 : m0 = μ := congrArg (·.mode) (Except.ok.inj h)
    subst e1
    rfl

theorem head_imode_inj {a b : Mode} (h : imode a = imode b) : a = b := by
  cases a <;> cases b <;> first | rfl | cases h

/-- the EOF arm of "in template" (rules.rs:1447; also reached from the EOF arm of "in body") against
`Spec.TreeModes.inTemplateEof` -/
theorem head_pc_tmplEof {s : State} (hm : MInv s) :
    PC inTemplateEof s (TokPost (fun σ => Spec.TreeModes.inTemplateEof (cfgOf s) σ) s .eof) := by
  have htm : TmOk s := hm.tmodes
  unfold inTemplateEof
  refine pc_seq (head_pc_and (pc_inHtmlElemNamed_template hm)
    (PC.of_tot (pop_tot_inHtmlElemNamed s hm.elems "template"))) ?_
  rintro b s1 c1 _ ⟨htr1, -, hs1, -⟩
  have hm1 : MInv s1 := htr1.1
  have htm1 : TmOk s1 := htm.congr hs1.fields.templateModes
  cases b with
  | false =>
    simp only [Bool.not_false, if_true]
    refine pc_pure ?_
    rw [List.append_nil]
    refine tokPost_of_tr htr1 trivial ?_
    rintro x x' hx hx' ⟨hx1, e1, hb⟩
    subst hx1
    refine ⟨{ x' with stopped := true }, ?_, ⟨rfl, rfl, rfl, rfl, rfl⟩, Or.inr ⟨rfl, rfl⟩, rfl, rfl⟩
    simp only [Spec.TreeModes.inTemplateEof, ← hb, Bool.not_false, if_true, stepOf]
    rw [e1]
    rfl
  | true =>
    simp only [Bool.not_true, Bool.false_eq_true, if_false]
    refine pc_seq (pc_unexpected_same hm1) ?_
    rintro _ s2 c2 _ ⟨-, hs2, htr2⟩
    have hm2 : MInv s2 := htr2.1
    have htm2 : TmOk s2 := htm1.congr hs2.fields.templateModes
    refine pc_seq (head_pc_and (pc_popUntilNamed hm2 "template")
      (show PC (popUntilNamed "template") s2 _ from PC.of_tot (tot_popUntilNamedS s2 hm2.elems "template".toList))) ?_
    rintro k s3 c3 _ ⟨htr3, ⟨hso3, -⟩, -⟩
    have hm3 : MInv s3 := htr3.1
    have htm3 : TmOk s3 := htm2.congr (SameButSL.of_stackOnly hso3).templateModes
    refine pc_seq (pc_clearActiveFormattingToMarker hm3) ?_
    rintro _ s4 c4 _ ⟨hs4, htr4⟩
    have hm4 : MInv s4 := htr4.1
    have htm4 : TmOk s4 := htm3.congr (by rw [hs4])
    refine pc_seq (head_pc_modTm hm4 List.dropLast List.dropLast (fun l => List.map_dropLast) (head_tm_dropLast hm4)) ?_
    rintro _ s5 c5 _ ⟨hs5, htr5⟩
    have hm5 : MInv s5 := htr5.1
    have hc5 : cfgOf s5 = cfgOf s :=
      htr5.2.1.trans (htr4.2.1.trans (htr3.2.1.trans (htr2.2.1.trans htr1.2.1)))
    refine pc_seq (pc_resetInsertionMode hm5) ?_
    rintro m s6 c6 _ ⟨hs6, hmt, htr6⟩
    have hm6 : MInv s6 := htr6.1
    have hne : m ≠ .inTableText := fun h => htm4.dropLast_getLast (by rw [hs5] at hmt; exact hmt h)
    refine pc_seq (pc_setMode_junk hm6 m hne) ?_
    rintro _ s7 c7 _ ⟨hs7, htr7⟩
    have hm7 : MInv s7 := htr7.1
    have hc7 : cfgOf s7 = cfgOf s := htr7.2.1.trans (htr6.2.1.trans hc5)
    refine pc_seq (pc_resetInsertionMode hm7) ?_
    rintro m2 s8 c8 _ ⟨hs8, hmt2, htr8⟩
    have hne2 : m2 ≠ .inTableText := by
      intro h
      have := hmt2 h
      rw [hs7, hs6.fields.templateModes, hs5] at this
      exact htm4.dropLast_getLast this
    refine pc_pure ?_
    simp only [List.append_nil, ← List.append_assoc]
    refine tokPost_of_tr ((((((htr1.trans htr2).trans htr3).trans htr4).trans htr5).trans htr6).trans htr7 |>.trans htr8) rfl ?_
    rintro x x8 _ _ ⟨x7, ⟨x6, ⟨x5, ⟨x4, ⟨x3, ⟨x2, ⟨x1, ⟨hx1, e1, hb⟩, hx2, e2⟩, hx3, r3, -⟩, hx4, r4⟩, hx5, r5⟩, hx6, e6, r6⟩, hx7, r7⟩, hx8, e8, r8⟩
    subst hx8
    subst hx6
    subst hx5
    subst hx4
    subst hx3
    subst hx2
    subst hx1
    -- the second `reset_insertion_mode` answers the same mode
    rw [hc5] at r6
    rw [hc7, r7, ← e6] at r8
    have hmm : m2 = m := head_imode_inj (head_reset_indep r6 r8)
    subst hmm
    have eS8 : absF s8 x8 = (absF s5 x6).setMode (imode m2) := by rw [← e8, r7, ← e6]
    refine ⟨{ head_junk s8 x8 with errors := x8.errors ++ ["in template: end of file"] }, ?_,
      ⟨rfl, rfl, rfl, rfl, rfl⟩, Or.inl rfl, rfl, rfl⟩
    have key : Spec.TreeModes.inTemplateEof (cfgOf s) (absF s x6)
        = (Spec.TreeModes.resetInsertionMode (cfgOf s)
            { absF s5 x6 with errors := (absF s5 x6).errors ++ ["in template: end of file"] }
              >>= fun σ => pure (Step.reprocess σ)) := by
      rw [r5, ← r4, r3, ← e2, ← e1]
      simp only [Spec.TreeModes.inTemplateEof, ← hb, Bool.not_true, Bool.false_eq_true, if_false]
      rfl
    rw [key, head_reset_errors _ r6]
    have eF : absF { s8 with mode := m2 } { head_junk s8 x8 with errors := x8.errors ++ ["in template: end of file"] }
        = { absF { s8 with mode := m2 } (head_junk s8 x8) with errors := x8.errors ++ ["in template: end of file"] } := rfl
    simp only [stepOf, applyRes]
    rw [eF, head_absF_junk _ _ _ hne2, eS8]
    subst hx7
    rfl

/-! ### the insertion mode "in template" -/

/-- "Pop the current template insertion mode off the stack of template insertion modes.  Push `m` onto
the stack of template insertion modes.  Switch the insertion mode to `m`, and reprocess the token." -/
theorem head_pc_switchTo {s : State} (hm : MInv s) (m : Mode) (hne : m ≠ .inTableText) (tok : Token) :
    PC (setTemplateMode m >>= fun _ => pure (ProcessResult.reprocess m tok)) s
      (TokPost (fun σ => pure (Step.reprocess
        { σ with templateModes := σ.templateModes.dropLast ++ [imode m], mode := imode m })) s tok) := by
  unfold setTemplateMode
  refine pc_seq (head_pc_modTm hm (fun l => l.dropLast ++ [m]) (fun l => l.dropLast ++ [imode m])
    (fun l => by rw [List.map_append, List.map_dropLast]; rfl) (fun m' h => by
      rcases List.mem_append.mp h with h | h
      · exact head_tm_dropLast hm m' h
      · rw [List.mem_singleton.mp h]; exact hne)) ?_
  rintro _ s1 c1 _ ⟨-, htr⟩
  refine pc_pure ?_
  rw [List.append_nil]
  refine tokPost_of_tr htr rfl ?_
  rintro x x' _ _ ⟨hxx, e⟩
  subst x'
  refine ⟨head_junk s1 x, ?_, (head_junk_same s1 x).1, Or.inl rfl, rfl, rfl⟩
  simp only [stepOf, applyRes]
  rw [head_absF_junk _ _ _ hne, e]
  rfl

/-- **"in template", non-character tokens**, with the delegations to "in head" and "in body" given for this state -/
theorem head_sim_inTemplate_at {s : State} (hm : MInv s) (tok : Token) (hch : isCharsTok tok = false)
    (hwf : TokWf tok)
    (hhead : PC (stepInHead tok) s (TokPost (fun σ => Spec.TreeModes.inHead (cfgOf s) σ (stokOf tok)) s tok))
    (hbody : PC (stepInBody tok) s (TokPost (fun σ => Spec.TreeModes.inBody (cfgOf s) σ (stokOf tok)) s tok)) :
    PC (stepInTemplate tok) s (TokPost (fun σ => Spec.TreeModes.inTemplate (cfgOf s) σ (stokOf tok)) s tok) := by
  cases tok with
  | chars st text => cases hch
  | comment text =>
    simp only [stepInTemplate, stokOf, Spec.TreeModes.inTemplate]
    exact hbody
  | eof =>
    simp only [stepInTemplate, stokOf, Spec.TreeModes.inTemplate]
    exact head_pc_tmplEof hm
  | nullChar =>
    simp only [stepInTemplate]
    refine pc_tokPost_congr (pc_unexpected_err hm _ "in body: U+0000") ?_
    intro x hx
    simp only [stokOf, Spec.TreeModes.inTemplate, Spec.TreeModes.inBody, beq_self_eq_true, if_true]
  | tag t =>
    simp only [stepInTemplate, Tag.isStart, Tag.isEnd, isOneOf_cons, isOneOf_nil, Bool.or_false]
    cases hk : t.kind with
    | startTag =>
      simp only [stokOf, stokOfTag_start hk, Spec.TreeModes.inTemplate, Spec.TreeModes.Tag.is, Spec.TreeModes.Tag.isOneOf,
        strIs_eq, strIsOneOf_cons, strIsOneOf_nil, specTag_name, Bool.or_false]
      cases hg1 : (decide (t.name = "base".toList) || (decide (t.name = "basefont".toList) || (decide (t.name = "bgsound".toList) || (decide (t.name = "link".toList) || (decide (t.name = "meta".toList) || (decide (t.name = "noframes".toList) || (decide (t.name = "script".toList) || (decide (t.name = "style".toList) || (decide (t.name = "template".toList) || decide (t.name = "title".toList)))))))))) with
      | true =>
        simp +decide only [Bool.true_and, Bool.and_true, Bool.false_and, Bool.and_false, Bool.true_or, Bool.or_true, Bool.false_or, Bool.or_false, if_true, if_false, Bool.false_eq_true]
        exact pc_tokPost_congr hhead (fun x hx => by simp only [stokOf, stokOfTag_start hk])
      | false =>
      simp +decide only [Bool.true_and, Bool.and_true, Bool.false_and, Bool.and_false, Bool.true_or, Bool.or_true, Bool.false_or, Bool.or_false, if_true, if_false, Bool.false_eq_true]
      cases hg2 : (decide (t.name = "caption".toList) || (decide (t.name = "colgroup".toList) || (decide (t.name = "tbody".toList) || (decide (t.name = "tfoot".toList) || decide (t.name = "thead".toList))))) with
      | true =>
        simp +decide only [Bool.true_and, Bool.and_true, Bool.false_and, Bool.and_false, Bool.true_or, Bool.or_true, Bool.false_or, Bool.or_false, if_true, if_false, Bool.false_eq_true]
        exact head_pc_switchTo hm .inTable (by decide) _
      | false =>
      simp +decide only [Bool.true_and, Bool.and_true, Bool.false_and, Bool.and_false, Bool.true_or, Bool.or_true, Bool.false_or, Bool.or_false, if_true, if_false, Bool.false_eq_true]
      cases hg3 : decide (t.name = "col".toList) with
      | true =>
        simp +decide only [Bool.true_and, Bool.and_true, Bool.false_and, Bool.and_false, Bool.true_or, Bool.or_true, Bool.false_or, Bool.or_false, if_true, if_false, Bool.false_eq_true]
        exact head_pc_switchTo hm .inColumnGroup (by decide) _
      | false =>
      simp +decide only [Bool.true_and, Bool.and_true, Bool.false_and, Bool.and_false, Bool.true_or, Bool.or_true, Bool.false_or, Bool.or_false, if_true, if_false, Bool.false_eq_true]
      cases hg4 : decide (t.name = "tr".toList) with
      | true =>
        simp +decide only [Bool.true_and, Bool.and_true, Bool.false_and, Bool.and_false, Bool.true_or, Bool.or_true, Bool.false_or, Bool.or_false, if_true, if_false, Bool.false_eq_true]
        exact head_pc_switchTo hm .inTableBody (by decide) _
      | false =>
      simp +decide only [Bool.true_and, Bool.and_true, Bool.false_and, Bool.and_false, Bool.true_or, Bool.or_true, Bool.false_or, Bool.or_false, if_true, if_false, Bool.false_eq_true]
      cases hg5 : (decide (t.name = "td".toList) || decide (t.name = "th".toList)) with
      | true =>
        simp +decide only [Bool.true_and, Bool.and_true, Bool.false_and, Bool.and_false, Bool.true_or, Bool.or_true, Bool.false_or, Bool.or_false, if_true, if_false, Bool.false_eq_true]
        exact head_pc_switchTo hm .inRow (by decide) _
      | false =>
      simp +decide only [Bool.true_and, Bool.and_true, Bool.false_and, Bool.and_false, Bool.true_or, Bool.or_true, Bool.false_or, Bool.or_false, if_true, if_false, Bool.false_eq_true]
      exact head_pc_switchTo hm .inBody (by decide) _
    | endTag =>
      simp only [stokOf, stokOfTag_end hk, Spec.TreeModes.inTemplate, Spec.TreeModes.Tag.is, Spec.TreeModes.Tag.isOneOf,
        strIs_eq, strIsOneOf_cons, strIsOneOf_nil, specTag_name, Bool.or_false]
      cases hg1 : decide (t.name = "template".toList) with
      | true =>
        simp +decide only [Bool.true_and, Bool.and_true, Bool.false_and, Bool.and_false, Bool.true_or, Bool.or_true, Bool.false_or, Bool.or_false, if_true, if_false, Bool.false_eq_true]
        exact pc_tokPost_congr hhead (fun x hx => by simp only [stokOf, stokOfTag_end hk])
      | false =>
      simp +decide only [Bool.true_and, Bool.and_true, Bool.false_and, Bool.and_false, Bool.true_or, Bool.or_true, Bool.false_or, Bool.or_false, if_true, if_false, Bool.false_eq_true]
      exact pc_unexpected_err hm _ _

theorem byModeDev_inTemplate {cfg : Config Id} {σ : SState} (h : σ.mode = .inTemplate) (tok : STok) :
    byModeDev cfg σ tok = Spec.TreeModes.inTemplate cfg σ tok := by
  simp [byModeDev, h, Spec.TreeModes.byMode]

theorem modeSim_inTemplate_at {s : State} (hm : MInv s) (hmode : s.mode = .inTemplate) (tok : Token)
    (hch : isCharsTok tok = false) (hwf : TokWf tok)
    (hhead : PC (stepInHead tok) s (TokPost (fun σ => Spec.TreeModes.inHead (cfgOf s) σ (stokOf tok)) s tok))
    (hbody : PC (stepInBody tok) s (TokPost (fun σ => Spec.TreeModes.inBody (cfgOf s) σ (stokOf tok)) s tok)) :
    PC (step .inTemplate tok) s (TokPost (fun σ => byModeDev (cfgOf s) σ (stokOf tok)) s tok) := by
  refine pc_tokPost_congr (head_sim_inTemplate_at hm tok hch hwf hhead hbody) ?_
  intro x hx
  exact byModeDev_inTemplate (by show imode s.mode = _; rw [hmode]; rfl) _

theorem modeSim_inTemplate (hhead : StepSimTok stepInHead Spec.TreeModes.inHead)
    (hbody : StepSimTok stepInBody Spec.TreeModes.inBody) : ModeSim .inTemplate := by
  intro tok hch hwf s _ hm hmode _
  exact modeSim_inTemplate_at hm hmode tok hch hwf (hhead tok hch hwf s hm) (hbody tok hch hwf s hm)

/-- "in template" with "in head" discharged by `sim_inHead0` -/
theorem modeSim_inTemplate' (hbody : StepSimTok stepInBody Spec.TreeModes.inBody) : ModeSim .inTemplate :=
  modeSim_inTemplate sim_inHead0 hbody

theorem modeCharSim_inTemplate (hbodyc : StepSimChars stepInBody Spec.TreeModes.inBody) : ModeCharSim .inTemplate := by
  intro st text hwf s _ hm hmode hlf hdisp
  have hmσ : imode s.mode = .inTemplate := by rw [hmode]; rfl
  show PC (stepInBody (.chars st text)) s _
  refine pc_chars_delegate hbodyc hwf hm hmσ hlf hdisp ?_
  intro σ1 h1 c _
  rw [byModeDev_inTemplate h1]
  rfl

end H5V.Lemmas.HtmlTBModes
