import H5V.Spec.CharRef
import H5V.Props.C14
/-!
Bridges between the standard's vocabulary (`H5V.Spec.CharRef`: table identifiers, ASCII digits,
the numeric end state) and the model's (`entityLookup` with `build.rs`'s prefix closure, `toDigit`,
the wrapping accumulator, `numericValue`). Used by `H5V.Props.C14Run`.
-/
namespace H5V.Props.C14
open H5V H5V.Model.HtmlTok

/-! ### characters -/

theorem char_le (a b : Char) : a ≤ b ↔ a.toNat ≤ b.toNat := by
  rw [Char.le_def, UInt32.le_iff_toNat_le]; rfl

theorem char_eq_of_toNat {a b : Char} (h : a.toNat = b.toNat) : a = b := by
  apply Char.ext
  apply UInt32.toNat_inj.mp
  exact h

theorem isAlnum_eq (c : Char) : Spec.CharRef.isAlnum c = isAsciiAlnum c := by
  unfold Spec.CharRef.isAlnum isAsciiAlnum
  rw [Bool.eq_iff_iff]
  simp only [char_le, Bool.or_eq_true, Bool.and_eq_true, decide_eq_true_eq]
  simp only [Char.reduceToNat]
  omega

theorem isAlnum_fun : Spec.CharRef.isAlnum = isAsciiAlnum := funext isAlnum_eq

theorem alnum_ne_hash {c : Char} (h : isAsciiAlnum c = true) : c ≠ '#' := by
  intro e; subst e; simp [isAsciiAlnum] at h

theorem alnum_ne_semi {c : Char} (h : isAsciiAlnum c = true) : c ≠ ';' := by
  intro e; subst e; simp [isAsciiAlnum] at h

theorem alnum_ne_eq {c : Char} (h : isAsciiAlnum c = true) : c ≠ '=' := by
  intro e; subst e; simp [isAsciiAlnum] at h

/-- the model's digit test (`char::to_digit`) is the standard's ASCII digit / ASCII hex digit -/
theorem toDigit_eq (c : Char) (base : Nat) (hb : base = 10 ∨ base = 16) :
    toDigit c base = Spec.CharRef.digitVal base c := by
  unfold toDigit Spec.CharRef.digitVal
  simp only [char_le, Char.reduceToNat]
  rcases hb with rfl | rfl
  · by_cases h1 : 48 ≤ c.toNat ∧ c.toNat ≤ 57
    · have : c.toNat - 48 < 10 := by omega
      simp [h1, this]
    · by_cases h2 : 97 ≤ c.toNat ∧ c.toNat ≤ 122
      · have : ¬ (c.toNat - 97 + 10 < 10) := by omega
        simp [h1, h2, this]
      · by_cases h3 : 65 ≤ c.toNat ∧ c.toNat ≤ 90
        · have : ¬ (c.toNat - 65 + 10 < 10) := by omega
          simp [h1, h2, h3, this]
        · simp [h1, h2, h3]
  · by_cases h1 : 48 ≤ c.toNat ∧ c.toNat ≤ 57
    · have : c.toNat - 48 < 16 := by omega
      simp [h1, this]
    · by_cases h2 : 97 ≤ c.toNat ∧ c.toNat ≤ 122
      · by_cases h4 : c.toNat ≤ 102
        · have : c.toNat - 97 + 10 < 16 := by omega
          have h5 : ¬ (65 ≤ c.toNat ∧ c.toNat ≤ 70) := by omega
          simp [h1, h2, this, h4, h5]
          omega
        · have : ¬ (c.toNat - 97 + 10 < 16) := by omega
          have h5 : ¬ (65 ≤ c.toNat ∧ c.toNat ≤ 70) := by omega
          simp [h1, h2, this, h4, h5]
      · by_cases h3 : 65 ≤ c.toNat ∧ c.toNat ≤ 90
        · by_cases h4 : c.toNat ≤ 70
          · have : c.toNat - 65 + 10 < 16 := by omega
            simp [h1, h2, h3, this, h4]
            omega
          · have : ¬ (c.toNat - 65 + 10 < 16) := by omega
            have h5 : ¬ (97 ≤ c.toNat ∧ c.toNat ≤ 102) := by omega
            simp [h1, h2, h3, this, h4, h5]
        · have h5 : ¬ (97 ≤ c.toNat ∧ c.toNat ≤ 102) := by omega
          have h6 : ¬ (65 ≤ c.toNat ∧ c.toNat ≤ 70) := by omega
          simp [h1, h2, h3, h5, h6]

set_option linter.unusedSimpArgs false in
theorem digitVal_lt (base : Nat) (hb : base = 10 ∨ base = 16) (c : Char) (d : Nat)
    (h : Spec.CharRef.digitVal base c = some d) : d < base := by
  unfold Spec.CharRef.digitVal at h
  rcases hb with rfl | rfl
  · simp at h; omega
  · simp only [beq_self_eq_true, Bool.true_and] at h
    split at h
    · simp at h; rename_i h1; simp at h1; omega
    · split at h
      · simp at h; rename_i h1; simp at h1; omega
      · split at h
        · simp at h; rename_i h1; simp at h1; omega
        · simp at h

/-! ### the table: identifiers and their initial segments -/

theorem mem_bucket_first {c : Nat} {r : Gen.Entities.Row} (h : r ∈ Gen.Entities.bucket c) :
    c ∈ Gen.Entities.firstLetters := by
  by_cases hc : c ∈ Gen.Entities.firstLetters
  · exact hc
  · exfalso
    simp only [Gen.Entities.firstLetters, List.mem_cons, List.not_mem_nil, or_false, not_or] at hc
    simp [Gen.Entities.bucket, hc] at h

theorem rowsFor_cons (c : Char) (t : Str) :
    Spec.CharRef.rowsFor (c :: t) = Gen.Entities.bucket c.toNat := by
  simp only [Spec.CharRef.rowsFor]
  exact (C14_table c.toNat).symm

/-- **identifiers.** `p` is in the first column of the WHATWG table with value `v` iff the model's
map answers `v` for it and `v` is not the "prefix only" marker. -/
theorem nameValue_iff (p : Str) (v : Nat × Nat) :
    Spec.CharRef.nameValue p = some v ↔ (entityLookup p = some v ∧ v.1 ≠ 0) := by
  cases p with
  | nil =>
    simp [Spec.CharRef.nameValue, Spec.CharRef.rowsFor, entityLookup, entityLookupN]
    intro h; rw [← h]
  | cons c t =>
    unfold Spec.CharRef.nameValue entityLookup
    rw [rowsFor_cons]
    simp only [List.map_cons, entityLookupN]
    cases hf : (Gen.Entities.bucket c.toNat).find? (fun r => r.1 == c.toNat :: List.map Char.toNat t) with
    | some r =>
      have hmem := List.mem_of_find?_eq_some hf
      have hok := row_ok (mem_bucket_first hmem) hmem
      simp only [rowOk, Bool.and_eq_true, bne_iff_ne] at hok
      simp only [Option.map_some, Option.some.injEq]
      constructor
      · intro h; subst h; exact ⟨rfl, hok.1.1.1.1.2⟩
      · intro h; exact h.1
    | none =>
      simp only [Option.map_none]
      constructor
      · intro h; simp at h
      · rintro ⟨h1, h2⟩
        split at h1
        · simp only [Option.some.injEq] at h1; subst h1; simp at h2
        · simp at h1

/-- the value of an identifier consists of Unicode scalar values -/
theorem key_valid (p : Str) (v : Nat × Nat) (h : entityLookup p = some v) (hv : v.1 ≠ 0) :
    isValidScalar v.1 = true ∧ isValidScalar v.2 = true := by
  cases p with
  | nil => simp [entityLookup, entityLookupN] at h; rw [← h] at hv; simp at hv
  | cons c t =>
    unfold entityLookup at h
    simp only [List.map_cons, entityLookupN] at h
    cases hf : (Gen.Entities.bucket c.toNat).find? (fun r => r.1 == c.toNat :: List.map Char.toNat t) with
    | some r =>
      rw [hf] at h
      simp only [Option.some.injEq] at h
      have hmem := List.mem_of_find?_eq_some hf
      have hw := C14_rows_wellformed c.toNat (mem_bucket_first hmem) r hmem
      rw [← h]; exact ⟨hw.2.2.1, hw.2.2.2⟩
    | none =>
      rw [hf] at h
      simp only at h
      split at h
      · simp only [Option.some.injEq] at h; rw [← h] at hv; simp at hv
      · simp at h

theorem nameValue_none_iff (p : Str) :
    Spec.CharRef.nameValue p = none ↔ ¬ Walk.isKey p := by
  constructor
  · intro h ⟨v, hv1, hv2⟩
    have := (nameValue_iff p v).mpr ⟨hv1, hv2⟩
    rw [h] at this; simp at this
  · intro h
    cases hv : Spec.CharRef.nameValue p with
    | none => rfl
    | some v => exact absurd ⟨v, (nameValue_iff p v).mp hv⟩ h

/-- **initial segments.** A non-empty `p` is an initial segment of some identifier iff it is in the
model's (prefix-closed) map. -/
theorem isNamePrefix_eq (c : Char) (t : Str) :
    Spec.CharRef.isNamePrefix (c :: t) = (entityLookup (c :: t)).isSome := by
  rw [Bool.eq_iff_iff]
  unfold Spec.CharRef.isNamePrefix entityLookup
  rw [rowsFor_cons]
  simp only [List.map_cons]
  rw [Walk.lookup_some_iff, List.any_eq_true]
  constructor
  · rintro ⟨r, hr, hp⟩
    exact ⟨r, hr, List.isPrefixOf_iff_prefix.mp hp⟩
  · rintro ⟨r, hr, hp⟩
    exact ⟨r, hr, List.isPrefixOf_iff_prefix.mpr hp⟩

theorem longestFrom_none (s : Str) (k : Nat)
    (h : ∀ n, 0 < n → n ≤ k → Spec.CharRef.nameValue (s.take n) = none) :
    Spec.CharRef.longestFrom s k = none := by
  induction k with
  | zero => rfl
  | succ k ih =>
    simp only [Spec.CharRef.longestFrom]
    rw [h (k + 1) (by omega) (by omega)]
    exact ih (fun n h1 h2 => h n h1 (by omega))

theorem longestFrom_some (s : Str) (k L : Nat) (v : Nat × Nat) (hL : 0 < L) (hLk : L ≤ k)
    (hv : Spec.CharRef.nameValue (s.take L) = some v)
    (h : ∀ n, L < n → n ≤ k → Spec.CharRef.nameValue (s.take n) = none) :
    Spec.CharRef.longestFrom s k = some (L, v) := by
  induction k with
  | zero => omega
  | succ k ih =>
    simp only [Spec.CharRef.longestFrom]
    by_cases e : L = k + 1
    · subst e; rw [hv]
    · rw [h (k + 1) (by omega) (by omega)]
      exact ih (by omega) (fun n h1 h2 => h n h1 (by omega))

/-- the longest identifier, from what the walk's invariant `Best` knows about the whole text -/
theorem longestName_of_best (s : Str) (mt : Option (Nat × Nat)) (len : Nat)
    (h1 : ∀ v, mt = some v → 0 < len ∧ len ≤ s.length ∧ entityLookup (s.take len) = some v ∧ v.1 ≠ 0)
    (h2 : ∀ n, Walk.bestLen mt len < n → n ≤ s.length → ¬ Walk.isKey (s.take n)) :
    Spec.CharRef.longestName s = mt.map (fun v => (len, v)) := by
  unfold Spec.CharRef.longestName
  cases mt with
  | none =>
    simp only [Option.map_none]
    apply longestFrom_none
    intro n hn1 hn2
    exact (nameValue_none_iff _).mpr (h2 n (by simpa [Walk.bestLen] using hn1) hn2)
  | some v =>
    obtain ⟨a1, a2, a3, a4⟩ := h1 v rfl
    simp only [Option.map_some]
    apply longestFrom_some s s.length len v a1 a2 ((nameValue_iff _ _).mpr ⟨a3, a4⟩)
    intro n hn1 hn2
    exact (nameValue_none_iff _).mpr (h2 n (by simpa [Walk.bestLen] using hn1) hn2)

/-! ### shape of the identifiers: ASCII alphanumerics, then possibly one final `;` -/

def alnumN (n : Nat) : Bool := (0x30 ≤ n && n ≤ 0x39) || (0x41 ≤ n && n ≤ 0x5A) || (0x61 ≤ n && n ≤ 0x7A)

def tableShape : Bool :=
  Gen.Entities.firstLetters.all (fun c => (Gen.Entities.bucket c).all (fun r => r.1.dropLast.all alnumN))

theorem tableShape_true : tableShape = true := by decide +kernel

theorem alnumN_toNat (c : Char) : alnumN c.toNat = isAsciiAlnum c := by
  rw [← isAlnum_eq]; rfl

/-- every character of an identifier except its last one is an ASCII alphanumeric -/
theorem row_shape {c : Nat} {r : Gen.Entities.Row} (hr : r ∈ Gen.Entities.bucket c) :
    ∀ x ∈ r.1.dropLast, alnumN x = true := by
  have h := tableShape_true
  unfold tableShape at h
  rw [List.all_eq_true] at h
  have h2 := h c (mem_bucket_first hr)
  rw [List.all_eq_true] at h2
  have h3 := h2 r hr
  rw [List.all_eq_true] at h3
  exact h3

/-- a text in the map none of whose initial segments (itself included) is an identifier consists
of ASCII alphanumerics only -/
theorem alnum_of_prefix_nokey (p : Str) (hl : (entityLookup p).isSome = true) (hk : ¬ Walk.isKey p) :
    ∀ x ∈ p, isAsciiAlnum x = true := by
  cases p with
  | nil => intro x hx; simp at hx
  | cons c t =>
    unfold entityLookup at hl
    simp only [List.map_cons] at hl
    rw [Walk.lookup_some_iff] at hl
    obtain ⟨r, hr, hp⟩ := hl
    have hne : r.1 ≠ c.toNat :: t.map Char.toNat := by
      intro e
      apply hk
      have hok := row_ok (mem_bucket_first hr) hr
      simp only [rowOk, Bool.and_eq_true, bne_iff_ne, beq_iff_eq] at hok
      refine ⟨r.2, ?_, hok.1.1.1.1.2⟩
      unfold entityLookup
      simp only [List.map_cons]
      rw [← e]; exact hok.1.1.1.1.1
    -- a proper prefix of `r.1` is a prefix of `r.1.dropLast`
    obtain ⟨u, hu⟩ := hp
    have hune : u ≠ [] := by
      intro e; subst e; simp at hu; exact hne hu.symm
    have hpre : (c.toNat :: t.map Char.toNat) <+: r.1.dropLast := by
      rw [← hu, List.dropLast_append_of_ne_nil hune]
      exact List.prefix_append _ _
    have hsh := row_shape hr
    intro x hx
    have hxm : x.toNat ∈ (c.toNat :: t.map Char.toNat) := by
      have : x.toNat ∈ (c :: t).map Char.toNat := List.mem_map_of_mem hx
      simpa using this
    have := hsh x.toNat (hpre.subset hxm)
    rw [alnumN_toNat] at this
    exact this

/-! ### list helpers -/

theorem dropWhile_append_all {α : Type} (p : α → Bool) (a b : List α) (h : ∀ x ∈ a, p x = true) :
    (a ++ b).dropWhile p = b.dropWhile p := by
  induction a with
  | nil => rfl
  | cons x xs ih =>
    have hx : p x = true := h x (by simp)
    simp only [List.cons_append, List.dropWhile_cons, hx, ↓reduceIte]
    exact ih (fun y hy => h y (by simp [hy]))

theorem takeWhile_append_all {α : Type} (p : α → Bool) (a b : List α) (h : ∀ x ∈ a, p x = true) :
    (a ++ b).takeWhile p = a ++ b.takeWhile p := by
  induction a with
  | nil => rfl
  | cons x xs ih =>
    have hx : p x = true := h x (by simp)
    simp only [List.cons_append, List.takeWhile_cons, hx, ↓reduceIte, List.cons.injEq, true_and]
    exact ih (fun y hy => h y (by simp [hy]))

theorem dropWhile_head_false {α : Type} (p : α → Bool) (l : List α) (f : α) (post : List α)
    (h : l.dropWhile p = f :: post) : p f = false := by
  induction l with
  | nil => simp at h
  | cons x xs ih =>
    simp only [List.dropWhile_cons] at h
    split at h
    · exact ih h
    · rename_i hx
      simp only [List.cons.injEq] at h
      rw [← h.1]; simpa using hx

theorem drop_length_takeWhile {α : Type} (p : α → Bool) (l : List α) :
    l.drop (l.takeWhile p).length = l.dropWhile p := by
  induction l with
  | nil => rfl
  | cons x xs ih =>
    simp only [List.takeWhile_cons, List.dropWhile_cons]
    split
    · simpa using ih
    · rfl

theorem takeWhile_all {α : Type} (p : α → Bool) (l : List α) : ∀ x ∈ l.takeWhile p, p x = true := by
  induction l with
  | nil => intro x hx; simp at hx
  | cons y ys ih =>
    intro x hx
    simp only [List.takeWhile_cons] at hx
    split at hx
    · rename_i hy
      simp only [List.mem_cons] at hx
      rcases hx with rfl | hx
      · exact hy
      · exact ih x hx
    · simp at hx

/-! ### numeric references -/

theorem valueOf_eq_foldl (b : Nat) (ds : List Nat) (acc : Nat) :
    valueOf b ds acc = ds.foldl (fun a d => a * b + d) acc := by
  induction ds generalizing acc with
  | nil => rfl
  | cons d ds ih => simp only [valueOf, List.foldl_cons]; exact ih _

theorem valueOf_eq (b : Nat) (ds : List Nat) : valueOf b ds 0 = Spec.CharRef.digitsValue b ds :=
  valueOf_eq_foldl b ds 0

theorem land_fffe (n : Nat) : (n &&& 0xFFFE) = 0xFFFE ↔ 0xFFFE ≤ n % 0x10000 := by
  have h1 : (n &&& 0xFFFE) / 2 = (n / 2) % 32768 := by
    have a1 : (n &&& 0xFFFE) >>> 1 = (n >>> 1) &&& ((0xFFFE : Nat) >>> 1) := Nat.shiftRight_and_distrib
    have a2 : ((0xFFFE : Nat) >>> 1) = 2 ^ 15 - 1 := by decide
    rw [a2, Nat.and_two_pow_sub_one_eq_mod] at a1
    simpa [Nat.shiftRight_eq_div_pow] using a1
  have h2 : (n &&& 0xFFFE) % 2 = 0 := by
    rw [← Nat.and_one_is_mod, Nat.and_assoc]
    have : (0xFFFE : Nat) &&& 1 = 0 := by decide
    rw [this, Nat.and_zero]
  omega

/-- the code point of the standard's numeric end state is `specNumeric` of `Props/C14.lean` -/
theorem numericEnd_fst (v : Nat) : (Spec.CharRef.numericEnd v).1 = specNumeric v := by
  unfold Spec.CharRef.numericEnd specNumeric
  by_cases h0 : v = 0
  · simp [h0]
  · by_cases h1 : v > 0x10FFFF
    · simp [h0, h1]
    · by_cases h2 : 0xD800 ≤ v ∧ v ≤ 0xDFFF
      · simp [h0, h1, h2]
      · have h2' : (decide (0xD800 ≤ v) && decide (v ≤ 0xDFFF)) = false := by
          cases hx : (decide (0xD800 ≤ v) && decide (v ≤ 0xDFFF)) with
          | false => rfl
          | true => simp at hx; exact absurd hx h2
        simp only [h0, ↓reduceIte, h1, h2', Bool.false_eq_true, h2]
        by_cases h3 : Spec.CharRef.isNoncharacter v = true
        · simp only [h3, ↓reduceIte]
          have : ¬ (0x80 ≤ v ∧ v ≤ 0x9F) := by
            unfold Spec.CharRef.isNoncharacter at h3
            simp at h3
            omega
          simp [this]
        · simp only [h3, Bool.false_eq_true, ↓reduceIte]
          split
          · show Spec.CharRef.c1 v = _
            unfold Spec.CharRef.c1
            by_cases h : 0x80 ≤ v ∧ v ≤ 0x9F
            · simp only [h, decide_true, Bool.and_self, ↓reduceIte, and_self, List.getD_eq_getElem?_getD]
              cases Spec.C1.table[v - 0x80]? with
              | none => rfl
              | some y => cases y <;> rfl
            · have : (decide (0x80 ≤ v) && decide (v ≤ 0x9F)) = false := by
                cases hx : (decide (0x80 ≤ v) && decide (v ≤ 0x9F)) with
                | false => rfl
                | true => simp at hx; exact absurd hx h
              simp only [this, h]
              rfl
          · rename_i h4
            have : ¬ (0x80 ≤ v ∧ v ≤ 0x9F) := by
              intro hc
              apply h4
              simp [Spec.CharRef.isControl, Spec.CharRef.isAsciiWhitespace]
              omega
            simp [this]

/-- the parse-error verdict of `finish_numeric` is the standard's -/
theorem numericValue_snd (cr : CharRefSt) (v : Nat)
    (hbig : (decide (cr.num > 0x10FFFF) || cr.numTooBig) = true ↔ v > 0x10FFFF)
    (hval : v ≤ 0x10FFFF → cr.num = v) :
    (numericValue cr).2 = (Spec.CharRef.numericEnd v).2 := by
  unfold numericValue Spec.CharRef.numericEnd
  dsimp only
  by_cases h1 : v > 0x10FFFF
  · have hb := hbig.mpr h1
    have hv0 : v ≠ 0 := by omega
    simp [hb, hv0, h1]
  · have hn : cr.num = v := hval (by omega)
    have hb : (decide (cr.num > 0x10FFFF) || cr.numTooBig) = false := by
      cases hx : (decide (cr.num > 0x10FFFF) || cr.numTooBig) with
      | false => rfl
      | true => exact absurd (hbig.mp hx) h1
    rw [hb]
    simp only [Bool.false_eq_true, ↓reduceIte, hn, h1]
    by_cases h0 : v = 0
    · simp [h0]
    · by_cases hs : 0xD800 ≤ v ∧ v ≤ 0xDFFF
      · simp [h0, hs]
      · have hs' : (decide (0xD800 ≤ v) && decide (v ≤ 0xDFFF)) = false := by
          cases hx : (decide (0xD800 ≤ v) && decide (v ≤ 0xDFFF)) with
          | false => rfl
          | true => simp at hx; exact absurd hx hs
        simp only [h0, decide_false, hs', Bool.or_false, Bool.false_eq_true, ↓reduceIte]
        by_cases hc : 0x80 ≤ v ∧ v ≤ 0x9F
        · have hc' : (decide (0x80 ≤ v) && decide (v ≤ 0x9F)) = true := by simp; exact hc
          have hnn : Spec.CharRef.isNoncharacter v = false := by
            unfold Spec.CharRef.isNoncharacter
            rw [Bool.eq_false_iff]; simp; omega
          have hctl : (decide (v = 0x0D) || (Spec.CharRef.isControl v && !Spec.CharRef.isAsciiWhitespace v)) = true := by
            simp [Spec.CharRef.isControl, Spec.CharRef.isAsciiWhitespace]; omega
          simp only [hc', ↓reduceIte, hnn, Bool.false_eq_true, hctl]
          split <;> rfl
        · have hc' : (decide (0x80 ≤ v) && decide (v ≤ 0x9F)) = false := by
            cases hx : (decide (0x80 ≤ v) && decide (v ≤ 0x9F)) with
            | false => rfl
            | true => simp at hx; exact absurd hx hc
          simp only [hc', Bool.false_eq_true, ↓reduceIte]
          by_cases hfd : 0xFDD0 ≤ v ∧ v ≤ 0xFDEF
          · have hnn : Spec.CharRef.isNoncharacter v = true := by
              unfold Spec.CharRef.isNoncharacter; simp; omega
            have : ((decide (0x01 ≤ v) && decide (v ≤ 0x08)) || decide (v = 0x0B) || (decide (0x0D ≤ v) && decide (v ≤ 0x1F))
                || decide (v = 0x7F) || (decide (0xFDD0 ≤ v) && decide (v ≤ 0xFDEF))) = true := by simp; omega
            simp only [this, ↓reduceIte, hnn]
          · by_cases hlo : (0x01 ≤ v ∧ v ≤ 0x08) ∨ v = 0x0B ∨ (0x0D ≤ v ∧ v ≤ 0x1F) ∨ v = 0x7F
            · have hnn : Spec.CharRef.isNoncharacter v = false := by
                unfold Spec.CharRef.isNoncharacter
                rw [Bool.eq_false_iff]; simp; omega
              have hctl : (decide (v = 0x0D) || (Spec.CharRef.isControl v && !Spec.CharRef.isAsciiWhitespace v)) = true := by
                simp [Spec.CharRef.isControl, Spec.CharRef.isAsciiWhitespace]; omega
              have : ((decide (0x01 ≤ v) && decide (v ≤ 0x08)) || decide (v = 0x0B) || (decide (0x0D ≤ v) && decide (v ≤ 0x1F))
                  || decide (v = 0x7F) || (decide (0xFDD0 ≤ v) && decide (v ≤ 0xFDEF))) = true := by simp; omega
              simp only [this, ↓reduceIte, hnn, Bool.false_eq_true, hctl]
            · have : ((decide (0x01 ≤ v) && decide (v ≤ 0x08)) || decide (v = 0x0B) || (decide (0x0D ≤ v) && decide (v ≤ 0x1F))
                  || decide (v = 0x7F) || (decide (0xFDD0 ≤ v) && decide (v ≤ 0xFDEF))) = false := by
                rw [Bool.eq_false_iff]; simp; omega
              have hctl : (decide (v = 0x0D) || (Spec.CharRef.isControl v && !Spec.CharRef.isAsciiWhitespace v)) = false := by
                rw [Bool.eq_false_iff]
                simp [Spec.CharRef.isControl, Spec.CharRef.isAsciiWhitespace]; omega
              simp only [this, Bool.false_eq_true, ↓reduceIte]
              by_cases hff : 0xFFFE ≤ v % 0x10000
              · have hl := (land_fffe v).mpr hff
                have hnn : Spec.CharRef.isNoncharacter v = true := by
                  unfold Spec.CharRef.isNoncharacter; simp; omega
                simp only [hl, ↓reduceIte, hnn]
              · have hl : ¬ (v &&& 0xFFFE) = 0xFFFE := fun e => hff ((land_fffe v).mp e)
                have hnn : Spec.CharRef.isNoncharacter v = false := by
                  unfold Spec.CharRef.isNoncharacter
                  rw [Bool.eq_false_iff]; simp; omega
                simp only [hl, ↓reduceIte, hnn, Bool.false_eq_true, hctl]

/-- **`finish_numeric` = §13.2.5.80** for a register/latch pair that stands for the value `v` -/
theorem finishNumeric_spec (o : Opts) (m : Mach) (cr : CharRefSt) (v : Nat)
    (hbig : (decide (cr.num > 0x10FFFF) || cr.numTooBig) = true ↔ v > 0x10FFFF)
    (hval : v ≤ 0x10FFFF → cr.num = v) :
    finishNumeric o m cr =
      (if (Spec.CharRef.numericEnd v).2 then numericErr o m cr.num else m,
       .ok (Char.ofNat (Spec.CharRef.numericEnd v).1)) := by
  have h1 := C14_finish_numeric o m cr v hbig hval
  have h2 := numericValue_snd cr v hbig hval
  rw [numericEnd_fst, ← h2, ← h1]
  rfl

end H5V.Props.C14
