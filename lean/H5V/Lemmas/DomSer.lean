import H5V.Lemmas.DomTree
/-! rcdom's `Serialize` impl (work-list loop) visits a well-formed tree in document order, every node once. -/
namespace H5V.Lemmas.Dom
open H5V.Model.Dom

/-- only documents and elements have children, and a `Document` node is never a child -/
structure Kinds (d : Dom) : Prop where
  parentContainer : ∀ c p, d.parentOf c = some p → d.isContainer p = true
  childNotDoc : ∀ c p, d.parentOf c = some p → d.dataOf c ≠ some .document

/-- the serializer calls the property demands for the subtree of `x`: document order, every node
once, an element's end after its descendants -/
def eventsAux (d : Dom) : Nat → Id → List SerEvent
  | 0, _ => []
  | f + 1, x =>
    match d.dataOf x with
    | some (.element name _ _ _) =>
      .startElem x :: ((d.childrenOf x).flatMap (eventsAux d f) ++ [.endElem name])
    | some (.doctype ..) => [.doctype x]
    | some (.text _) => [.text x]
    | some (.comment _) => [.comment x]
    | some (.pi ..) => [.pi x]
    | _ => []

def eventsOf (d : Dom) (x : Id) : List SerEvent := eventsAux d d.size x

theorem eventsAux_adequate {d : Dom} (hw : WF d) : ∀ (f g : Nat) (x : Id), x < d.size →
    d.size < f + depth d x → d.size < g + depth d x → eventsAux d f x = eventsAux d g x := by
  intro f
  induction f with
  | zero => intro g x hx hf _; have := depth_pos_le hw hx; omega
  | succ f ih =>
    intro g x hx hf hg
    cases g with
    | zero => have := depth_pos_le hw hx; omega
    | succ g =>
      simp only [eventsAux]
      have : (d.childrenOf x).flatMap (eventsAux d f) = (d.childrenOf x).flatMap (eventsAux d g) := by
        apply flatMap_congr'
        intro c hc
        have h1 := depth_child hw hc
        exact ih g c (child_valid hw hc) (by omega) (by omega)
      rw [this]

theorem eventsOf_unfold {d : Dom} (hw : WF d) {x : Id} (hx : x < d.size) :
    eventsOf d x = match d.dataOf x with
      | some (.element name _ _ _) =>
        .startElem x :: ((d.childrenOf x).flatMap (eventsOf d) ++ [.endElem name])
      | some (.doctype ..) => [.doctype x]
      | some (.text _) => [.text x]
      | some (.comment _) => [.comment x]
      | some (.pi ..) => [.pi x]
      | _ => [] := by
  have hpos := depth_pos_le hw hx
  cases hs : d.size with
  | zero => omega
  | succ s =>
    have hkey : (d.childrenOf x).flatMap (eventsAux d s) = (d.childrenOf x).flatMap (eventsOf d) := by
      apply flatMap_congr'
      intro c hc
      have h1 := depth_child hw hc
      unfold eventsOf
      rw [hs]
      exact eventsAux_adequate hw s (s + 1) c (child_valid hw hc) (by omega) (by omega)
    conv => lhs; rw [eventsOf, hs, eventsAux]
    rw [hkey]

/-- the work-list loop on a list of `Open` entries -/
theorem serLoop_children {d : Dom} (cs : List Id)
    (P : ∀ c ∈ cs, ∃ k, k ≤ 2 * (d.subtree c).length ∧ ∀ fuel rest,
      Dom.serLoop d (k + fuel) (.opn c :: rest) = (Dom.serLoop d fuel rest).map (eventsOf d c ++ ·)) :
    ∃ K, K ≤ 2 * (cs.flatMap (d.subtree ·)).length ∧ ∀ fuel rest,
      Dom.serLoop d (K + fuel) (cs.map .opn ++ rest) = (Dom.serLoop d fuel rest).map (cs.flatMap (eventsOf d) ++ ·) := by
  induction cs with
  | nil =>
    refine ⟨0, by simp, ?_⟩
    intro fuel rest
    simp
    cases Dom.serLoop d fuel rest <;> rfl
  | cons c t ih =>
    obtain ⟨k, hk, hc⟩ := P c (by simp)
    obtain ⟨K, hK, ht⟩ := ih (fun b hb => P b (by simp [hb]))
    refine ⟨k + K, by rw [List.flatMap_cons, List.length_append]; omega, ?_⟩
    intro fuel rest
    simp only [List.map_cons, List.cons_append, List.flatMap_cons]
    rw [Nat.add_assoc, hc, ht]
    cases Dom.serLoop d fuel rest <;> simp [Except.map]

theorem isContainer_of_child {d : Dom} (hk : Kinds d) (hw : WF d) {x c : Id} (hc : c ∈ d.childrenOf x) :
    d.isContainer x = true := hk.parentContainer c x ((hw.links c x).mpr hc)

/-- the loop visits the subtree of a (non-`Document`) node in document order and then continues -/
theorem serLoop_node {d : Dom} (hw : WF d) (hk : Kinds d) : ∀ x, x < d.size → d.dataOf x ≠ some .document →
    ∃ k, k ≤ 2 * (d.subtree x).length ∧ ∀ fuel rest,
      Dom.serLoop d (k + fuel) (.opn x :: rest) = (Dom.serLoop d fuel rest).map (eventsOf d x ++ ·) := by
  refine hw.tree_induction (P := fun x => d.dataOf x ≠ some .document →
    ∃ k, k ≤ 2 * (d.subtree x).length ∧ ∀ fuel rest,
      Dom.serLoop d (k + fuel) (.opn x :: rest) = (Dom.serLoop d fuel rest).map (eventsOf d x ++ ·)) ?_
  intro x hx ih hnd
  obtain ⟨n, hn⟩ := node?_of_lt hx
  have hdata := dataOf_of_node hn
  have hch := childrenOf_of_node hn
  -- a node that is not a container has no children
  have leaf : d.isContainer x = false → d.childrenOf x = [] := by
    intro hnc
    cases hl : d.childrenOf x with
    | nil => rfl
    | cons c t =>
      have := isContainer_of_child hk hw (x := x) (c := c) (by rw [hl]; simp)
      rw [hnc] at this; cases this
  have hsub := subtree_unfold hw hx
  have hev := eventsOf_unfold hw hx
  cases hd : n.data with
  | document => rw [hdata, hd] at hnd; exact absurd rfl hnd
  | element name attrs tc ip =>
    obtain ⟨K, hK, hloop⟩ := serLoop_children (d.childrenOf x) (fun c hc =>
      ih c hc (hk.childNotDoc c x ((hw.links c x).mpr hc)))
    refine ⟨1 + (K + 1), by rw [hsub, List.length_cons]; omega, ?_⟩
    intro fuel rest
    rw [hev, hdata, hd]
    simp only
    rw [show 1 + (K + 1) + fuel = (K + (1 + fuel)) + 1 by omega]
    simp only [Dom.serLoop, bind, Except.bind, get_ok_of hn, hd]
    rw [← hch, hloop]
    rw [show 1 + fuel = fuel + 1 by omega]
    simp only [Dom.serLoop, bind, Except.bind]
    cases Dom.serLoop d fuel rest <;> simp [Except.map]
  | doctype a b c =>
    refine ⟨1, by rw [hsub, List.length_cons]; omega, ?_⟩
    intro fuel rest
    rw [hev, hdata, hd, show 1 + fuel = fuel + 1 by omega]
    simp only [Dom.serLoop, bind, Except.bind, get_ok_of hn, hd]
    cases Dom.serLoop d fuel rest <;> simp [Except.map]
  | text a =>
    refine ⟨1, by rw [hsub, List.length_cons]; omega, ?_⟩
    intro fuel rest
    rw [hev, hdata, hd, show 1 + fuel = fuel + 1 by omega]
    simp only [Dom.serLoop, bind, Except.bind, get_ok_of hn, hd]
    cases Dom.serLoop d fuel rest <;> simp [Except.map]
  | comment a =>
    refine ⟨1, by rw [hsub, List.length_cons]; omega, ?_⟩
    intro fuel rest
    rw [hev, hdata, hd, show 1 + fuel = fuel + 1 by omega]
    simp only [Dom.serLoop, bind, Except.bind, get_ok_of hn, hd]
    cases Dom.serLoop d fuel rest <;> simp [Except.map]
  | pi a b =>
    refine ⟨1, by rw [hsub, List.length_cons]; omega, ?_⟩
    intro fuel rest
    rw [hev, hdata, hd, show 1 + fuel = fuel + 1 by omega]
    simp only [Dom.serLoop, bind, Except.bind, get_ok_of hn, hd]
    cases Dom.serLoop d fuel rest <;> simp [Except.map]


theorem visited_eventsOf {d : Dom} (hw : WF d) (hk : Kinds d) : ∀ x, x < d.size → d.dataOf x ≠ some .document →
    (eventsOf d x).filterMap Dom.SerEvent.visited = d.subtree x := by
  refine hw.tree_induction (P := fun x => d.dataOf x ≠ some .document →
    (eventsOf d x).filterMap Dom.SerEvent.visited = d.subtree x) ?_
  intro x hx ih hnd
  have leaf : d.isContainer x = false → d.childrenOf x = [] := by
    intro hnc
    cases hl : d.childrenOf x with
    | nil => rfl
    | cons c t =>
      have := isContainer_of_child hk hw (x := x) (c := c) (by rw [hl]; simp)
      rw [hnc] at this; cases this
  rw [subtree_unfold hw hx, eventsOf_unfold hw hx]
  have hkids : (d.childrenOf x).flatMap (fun c => (eventsOf d c).filterMap Dom.SerEvent.visited) =
      (d.childrenOf x).flatMap (d.subtree ·) :=
    flatMap_congr' (fun c hc => ih c hc (hk.childNotDoc c x ((hw.links c x).mpr hc)))
  cases hd : d.dataOf x with
  | none =>
    obtain ⟨n, hn⟩ := node?_of_lt hx
    rw [dataOf_of_node hn] at hd; cases hd
  | some v =>
    cases v with
    | document => exact absurd hd hnd
    | element name attrs tc ip =>
      simp only [List.filterMap_cons, Dom.SerEvent.visited, List.filterMap_append, List.filterMap_nil,
        List.append_nil, List.filterMap_flatMap]
      rw [hkids]
    | doctype a b c => simp [Dom.SerEvent.visited, leaf (by simp [Dom.isContainer, hd])]
    | text a => simp [Dom.SerEvent.visited, leaf (by simp [Dom.isContainer, hd])]
    | comment a => simp [Dom.SerEvent.visited, leaf (by simp [Dom.isContainer, hd])]
    | pi a b => simp [Dom.SerEvent.visited, leaf (by simp [Dom.isContainer, hd])]

theorem length_descendants_le {d : Dom} (hw : WF d) {x : Id} (hx : x < d.size) :
    (d.descendants x).length + 1 ≤ d.size := by
  have := length_subtree_le hw hx
  rw [subtree_unfold hw hx, List.length_cons] at this
  exact this

/-- `ChildrenOnly` serialization of any node: exactly its descendants, in document order -/
theorem serialize_childrenOnly {d : Dom} (hw : WF d) (hk : Kinds d) {root : Id} (hr : root < d.size) :
    d.serialize .childrenOnly root = .ok ((d.childrenOf root).flatMap (eventsOf d)) := by
  obtain ⟨n, hn⟩ := node?_of_lt hr
  obtain ⟨K, hK, hloop⟩ := serLoop_children (d.childrenOf root) (fun c hc =>
    serLoop_node hw hk c (child_valid hw hc) (hk.childNotDoc c root ((hw.links c root).mpr hc)))
  have hlen := length_descendants_le hw hr
  unfold Dom.descendants at hlen
  unfold Dom.serialize
  simp only [bind, Except.bind, get_ok_of hn, pure, Except.pure]
  have := hloop (2 * d.size + 2 - K) []
  rw [show K + (2 * d.size + 2 - K) = 2 * d.size + 2 by omega, List.append_nil] at this
  rw [← childrenOf_of_node hn, this]
  cases hf : 2 * d.size + 2 - K <;> simp [Dom.serLoop, Except.map]

/-- `IncludeNode` serialization of a non-`Document` node -/
theorem serialize_includeNode {d : Dom} (hw : WF d) (hk : Kinds d) {root : Id} (hr : root < d.size)
    (hnd : d.dataOf root ≠ some .document) : d.serialize .includeNode root = .ok (eventsOf d root) := by
  obtain ⟨k, hk', hloop⟩ := serLoop_node hw hk root hr hnd
  have hlen := length_subtree_le hw hr
  unfold Dom.serialize
  simp only [bind, Except.bind, pure, Except.pure]
  have := hloop (2 * d.size + 2 - k) []
  rw [show k + (2 * d.size + 2 - k) = 2 * d.size + 2 by omega] at this
  rw [this]
  cases hf : 2 * d.size + 2 - k <;> simp [Dom.serLoop, Except.map]

theorem serializeVisit_childrenOnly {d : Dom} (hw : WF d) (hk : Kinds d) {root : Id} (hr : root < d.size) :
    d.serializeVisit .childrenOnly root = .ok (d.descendants root) := by
  unfold Dom.serializeVisit
  simp only [bind, Except.bind, serialize_childrenOnly hw hk hr]
  congr 1
  rw [List.filterMap_flatMap]
  exact flatMap_congr' (fun c hc =>
    visited_eventsOf hw hk c (child_valid hw hc) (hk.childNotDoc c root ((hw.links c root).mpr hc)))

theorem serializeVisit_includeNode {d : Dom} (hw : WF d) (hk : Kinds d) {root : Id} (hr : root < d.size)
    (hnd : d.dataOf root ≠ some .document) : d.serializeVisit .includeNode root = .ok (d.subtree root) := by
  unfold Dom.serializeVisit
  simp only [bind, Except.bind, serialize_includeNode hw hk hr hnd]
  congr 1
  exact visited_eventsOf hw hk root hr hnd

end H5V.Lemmas.Dom
