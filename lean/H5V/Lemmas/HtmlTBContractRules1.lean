import H5V.Lemmas.HtmlTBContractRes
import H5V.Lemmas.HtmlTBContractIns2
import H5V.Lemmas.HtmlTBContractAA
/-!
# TreeSink contract for the HTML tree builder, part 7: the walker for the rules

* `CPP d0 c m R P` — `CP` with a predicate on the result (`stepInHead` lives at this level: the
  "in head" rules are run by `AfterHead` with the head element pushed on top of the stack, where the
  stack-order invariant `SAnc` is not available);
* terminal leaves (helpers that answer a `ProcessResult`), `cpp_leaf`;
* the delegation hypotheses `HeadH`, `BodyH`, `TableH`;
* the tactic `rs_walk` for goals `CPP …` / `CPSP …`.
-/
namespace H5V.Lemmas.TBC
open H5V.Model.HtmlTB
open H5V.Model.Dom (Id QualName Attr NodeOrText SinkOp Output ElementFlags QuirksMode Dom NodeData Node Contract)
open H5V.Lemmas.TBSafe (IsEl nm sigOf Ext)

variable {d0 : Dom}

/-- `CP` with a predicate on the result -/
def CPP (d0 : Dom) (c : List Id) {α : Type} (m : M α) (R : α → List Id) (P : α → Prop) : Prop :=
  ∀ s, CB d0 s → CtxOk c s → SatC m s (fun a s' => CB d0 s' ∧ GrowRel s s' ∧ CtxOk (R a) s' ∧ P a)

theorem cp_of_cpp {c : List Id} {α : Type} {m : M α} {R : α → List Id} {P : α → Prop} (h : CPP d0 c m R P) :
    CP d0 c m R := fun s hcb hc => (h s hcb hc).mono (fun _ _ ⟨h1, h2, h3, _⟩ => ⟨h1, h2, h3⟩)

theorem cpp_of_cp {c : List Id} {α : Type} {m : M α} {R : α → List Id} (h : CP d0 c m R) :
    CPP d0 c m R (fun _ => True) := fun s hcb hc => (h s hcb hc).mono (fun _ _ ⟨h1, h2, h3⟩ => ⟨h1, h2, h3, trivial⟩)

theorem cpp_of_cp_ok {c : List Id} {α : Type} {m : M α} {R : α → List Id} {P : α → Prop} (h : CP d0 c m R)
    (hp : ∀ s a s', m s = .ok (a, s') → P a) : CPP d0 c m R P := by
  intro s hcb hc
  exact (satc_and_ok (h s hcb hc) (hp s)).mono (fun a s' ⟨⟨h1, h2, h3⟩, h5⟩ => ⟨h1, h2, h3, h5⟩)

theorem cpsp_of_cpp {c : List Id} {α : Type} {m : M α} {R : α → List Id} {P : α → Prop} (h : CPP d0 c m R P) :
    CPSP d0 c m R P := by
  intro s hcb hsa hc
  refine (h s hcb hc).mono ?_
  rintro a s' ⟨h1, h2, h3, h4⟩
  exact ⟨h1, SAnc.grow hcb.d.inv.wf (fun h hh => lt_of_isEl (hcb.h.open_el h hh)) hsa h2, h2.ext, h3, h4⟩

theorem cpp_bind {c : List Id} {α β : Type} {m : M α} {f : α → M β} {R : α → List Id} {R' : β → List Id}
    {P : β → Prop} (h1 : CP d0 c m R) (h2 : ∀ a, CPP d0 (R a ++ c) (f a) R' P) : CPP d0 c (m >>= f) R' P := by
  intro s hcb hc
  refine (h1 s hcb hc).bind ?_
  rintro a s1 ⟨hcb1, g1, hr1⟩
  refine (h2 a s1 hcb1 (hr1.app (hc.ext g1.ext))).mono ?_
  rintro b s2 ⟨hcb2, g2, hr2, hp⟩
  exact ⟨hcb2, g1.trans g2, hr2, hp⟩

theorem cpp_bind' {c : List Id} {α β : Type} {m : M α} {f : α → M β} {R : α → List Id} {R' : β → List Id}
    {P1 : α → Prop} {P : β → Prop} (h1 : CPP d0 c m R P1) (h2 : ∀ a, P1 a → CPP d0 (R a ++ c) (f a) R' P) :
    CPP d0 c (m >>= f) R' P := by
  intro s hcb hc
  refine (h1 s hcb hc).bind ?_
  rintro a s1 ⟨hcb1, g1, hr1, hp1⟩
  refine (h2 a hp1 s1 hcb1 (hr1.app (hc.ext g1.ext))).mono ?_
  rintro b s2 ⟨hcb2, g2, hr2, hp⟩
  exact ⟨hcb2, g1.trans g2, hr2, hp⟩

theorem cpp_pure {c : List Id} {α : Type} (a : α) {R : α → List Id} {P : α → Prop} (h : ∀ x ∈ R a, x ∈ c)
    (hp : P a) : CPP d0 c (Pure.pure a : M α) R P :=
  fun s hcb hc => satc_pure ⟨hcb, GrowRel.refl s, hc.sub h, hp⟩

theorem cpp_pure_nil {c : List Id} {α : Type} (a : α) {P : α → Prop} (hp : P a) :
    CPP d0 c (Pure.pure a : M α) (fun _ => []) P := cpp_pure a (fun _ h => by cases h) hp

theorem cpp_ite {c : List Id} {α : Type} {p : Prop} [Decidable p] {a b : M α} {R : α → List Id} {P : α → Prop}
    (h1 : p → CPP d0 c a R P) (h2 : ¬p → CPP d0 c b R P) : CPP d0 c (if p then a else b) R P := by
  by_cases hp : p
  · rw [if_pos hp]; exact h1 hp
  · rw [if_neg hp]; exact h2 hp

theorem cpp_getS_bind {c : List Id} {β : Type} {f : State → M β} {R : β → List Id} {P : β → Prop}
    (h : ∀ s0, CPP d0 (stH s0 ++ c) (f s0) R P) : CPP d0 c (getS >>= f) R P := by
  intro s hcb hc
  refine satc_getS_bind ?_
  exact h s s hcb ((ctxOk_stH hcb.h).app hc)

theorem cpp_ctx_mono {c c' : List Id} {α : Type} {m : M α} {R : α → List Id} {P : α → Prop}
    (h : CPP d0 c m R P) (hs : ∀ x ∈ c, x ∈ c') : CPP d0 c' m R P :=
  fun s hcb hc => h s hcb (hc.sub hs)

theorem cpp_drop {c : List Id} {α : Type} {m : M α} {R : α → List Id} {P : α → Prop} (h : CPP d0 c m R P) :
    CPP d0 c m (fun _ => []) P := by
  intro s hcb hc
  exact (h s hcb hc).mono (fun a s' ⟨h1, h2, _, h5⟩ => ⟨h1, h2, CtxOk.nil _, h5⟩)

theorem cpp_weakenP {c : List Id} {α : Type} {m : M α} {R : α → List Id} {P P' : α → Prop}
    (h : CPP d0 c m R P) (hp : ∀ a, P a → P' a) : CPP d0 c m R P' := by
  intro s hcb hc
  exact (h s hcb hc).mono (fun a s' ⟨h1, h2, h4, h5⟩ => ⟨h1, h2, h4, hp a h5⟩)

theorem cpp_panicAt {c : List Id} {α : Type} {cls site text : String} {R : α → List Id} {P : α → Prop}
    (h : TBSafe.infixL "@sink: ".toList (cls ++ "@" ++ site ++ ": " ++ text).toList = false := by decide) :
    CPP d0 c (panicAt cls site text : M α) R P := fun _ _ _ => satc_panicAt h

/-! ### leaves: the state updates of the rules -/

theorem cp_modS_ignoreLf {c : List Id} {b : Bool} :
    CP d0 c (modS fun s => { s with ignoreLf := b }) (fun _ => []) :=
  cp_modS_shrink (fun _ => rfl) (fun _ => rfl) (fun _ => rfl) (fun _ => List.Sublist.refl _)
    (fun _ _ h => h) (fun _ _ h => h) (fun _ _ h => h) (fun _ _ h => h) (fun _ hl => ⟨hl.mode, hl.orig, hl.tm⟩)

theorem cp_modS_foster {c : List Id} {b : Bool} :
    CP d0 c (modS fun s => { s with fosterParenting := b }) (fun _ => []) :=
  cp_modS_shrink (fun _ => rfl) (fun _ => rfl) (fun _ => rfl) (fun _ => List.Sublist.refl _)
    (fun _ _ h => h) (fun _ _ h => h) (fun _ _ h => h) (fun _ _ h => h) (fun _ hl => ⟨hl.mode, hl.orig, hl.tm⟩)

theorem cp_modS_pending {c : List Id} {g : List (SplitStatus × Str) → List (SplitStatus × Str)} :
    CP d0 c (modS fun s => { s with pendingTableText := g s.pendingTableText }) (fun _ => []) :=
  cp_modS_shrink (fun _ => rfl) (fun _ => rfl) (fun _ => rfl) (fun _ => List.Sublist.refl _)
    (fun _ _ h => h) (fun _ _ h => h) (fun _ _ h => h) (fun _ _ h => h) (fun _ hl => ⟨hl.mode, hl.orig, hl.tm⟩)

theorem cp_modS_pendingPush {c : List Id} {x : SplitStatus × Str} :
    CP d0 c (modS fun s => { s with pendingTableText := s.pendingTableText ++ [x] }) (fun _ => []) :=
  cp_modS_pending (g := fun l => l ++ [x])

theorem cp_modS_pendingClear {c : List Id} :
    CP d0 c (modS fun s => { s with pendingTableText := [] }) (fun _ => []) :=
  cp_modS_pending (g := fun _ => [])

theorem cp_modS_tmPush {c : List Id} {m : Mode} (hm : m ≠ .initial) :
    CP d0 c (modS fun s => { s with templateModes := s.templateModes ++ [m] }) (fun _ => []) := by
  refine cp_modS_shrink (fun _ => rfl) (fun _ => rfl) (fun _ => rfl) (fun _ => List.Sublist.refl _)
    (fun _ _ h => h) (fun _ _ h => h) (fun _ _ h => h) (fun _ _ h => h) (fun s hl => ⟨hl.mode, hl.orig, ?_⟩)
  intro hmem
  rcases List.mem_append.mp hmem with h | h
  · exact hl.tm h
  · exact hm (List.mem_singleton.mp h).symm

theorem cp_modS_tmDropLast {c : List Id} :
    CP d0 c (modS fun s => { s with templateModes := s.templateModes.dropLast }) (fun _ => []) := by
  refine cp_modS_shrink (fun _ => rfl) (fun _ => rfl) (fun _ => rfl) (fun _ => List.Sublist.refl _)
    (fun _ _ h => h) (fun _ _ h => h) (fun _ _ h => h) (fun _ _ h => h) (fun s hl => ⟨hl.mode, hl.orig, ?_⟩)
  intro hmem
  exact hl.tm (List.dropLast_subset _ hmem)

theorem cp_modS_origMode {c : List Id} :
    CP d0 c (modS fun s => { s with origMode := some s.mode }) (fun _ => []) := by
  refine cp_modS_shrink (fun _ => rfl) (fun _ => rfl) (fun _ => rfl) (fun _ => List.Sublist.refl _)
    (fun _ _ h => h) (fun _ _ h => h) (fun _ _ h => h) (fun _ _ h => h) (fun s hl => ⟨hl.mode, ?_, hl.tm⟩)
  intro e
  exact hl.mode (Option.some.inj e)

theorem cp_modS_take {c : List Id} {n : Nat} :
    CP d0 c (modS fun s => { s with openElems := s.openElems.take n }) (fun _ => []) :=
  cp_modS_shrink (fun _ => rfl) (fun _ => rfl) (fun _ => rfl) (fun _ => List.take_sublist _ _)
    (fun _ _ h => h) (fun _ _ h => h) (fun _ _ h => h) (fun _ _ h => h) (fun _ hl => ⟨hl.mode, hl.orig, hl.tm⟩)

theorem cp_setForm {c : List Id} {h : Id} (hh : h ∈ c) :
    CP d0 c (modS fun s => { s with formElem := some h }) (fun _ => []) := by
  refine cp_modS (fun s hcb hc => ⟨⟨⟨hcb.d.inv, hcb.d.run⟩, ⟨hcb.h.docH, hcb.h.doc0, hcb.h.open_el, hcb.h.open_tc,
    hcb.h.af, hcb.h.head, ?_, hcb.h.ctx, hcb.h.headTc⟩, ⟨hcb.l.mode, hcb.l.orig, hcb.l.tm⟩⟩, GrowRel.of_sublist rfl (List.Sublist.refl _)⟩)
  intro x hx
  have : h = x := Option.some.inj hx
  subst this
  exact hc h hh

macro_rules | `(tactic| cp_leaf) => `(tactic| with_reducible exact cp_modS_ignoreLf)
macro_rules | `(tactic| cp_leaf) => `(tactic| with_reducible exact cp_modS_foster)
macro_rules | `(tactic| cp_leaf) => `(tactic| with_reducible exact cp_modS_pendingPush)
macro_rules | `(tactic| cp_leaf) => `(tactic| with_reducible exact cp_modS_pendingClear)
macro_rules | `(tactic| cp_leaf) => `(tactic| with_reducible exact cp_modS_tmPush (by decide))
macro_rules | `(tactic| cp_leaf) => `(tactic| with_reducible exact cp_modS_tmDropLast)
macro_rules | `(tactic| cp_leaf) => `(tactic| with_reducible exact cp_modS_origMode)
macro_rules | `(tactic| cp_leaf) => `(tactic| with_reducible exact cp_modS_take)
macro_rules | `(tactic| cp_leaf) => `(tactic| with_reducible exact cp_setForm (by ctx_mem))

/-! ### terminal leaves: helpers that answer a `ProcessResult` -/

theorem cpp_unexpected {c : List Id} {P : ProcessResult → Prop} (hp : P .done) :
    CPP d0 c unexpected (fun _ => []) P :=
  cpp_of_cp_ok cp_unexpected (fun _ _ _ h => by rw [res_unexpected h]; exact hp)

theorem cpp_appendText {c : List Id} {t : Str} {P : ProcessResult → Prop} (hp : P .done) :
    CPP d0 c (appendText t) (fun _ => []) P :=
  cpp_of_cp_ok cp_appendText (fun _ _ _ h => by rw [res_appendText h]; exact hp)

theorem cpp_appendComment {c : List Id} {t : Str} {P : ProcessResult → Prop} (hp : P .done) :
    CPP d0 c (appendComment t) (fun _ => []) P :=
  cpp_of_cp_ok cp_appendComment (fun _ _ _ h => by rw [res_appendComment h]; exact hp)

theorem cpp_appendCommentToDoc {c : List Id} {t : Str} {P : ProcessResult → Prop} (hp : P .done) :
    CPP d0 c (appendCommentToDoc t) (fun _ => []) P :=
  cpp_of_cp_ok cp_appendCommentToDoc (fun _ _ _ h => by rw [res_appendCommentToDoc h]; exact hp)

theorem cpp_appendCommentToHtml {c : List Id} {t : Str} {P : ProcessResult → Prop} (hp : P .done) :
    CPP d0 c (appendCommentToHtml t) (fun _ => []) P :=
  cpp_of_cp_ok cp_appendCommentToHtml (fun _ _ _ h => by rw [res_appendCommentToHtml h]; exact hp)

theorem cpp_parseRawData {c : List Id} {tag : Tag} {k : H5V.Model.HtmlTok.RawKind} {P : ProcessResult → Prop}
    (ha : AttrsOk tag.attrs) (hp : P (.toRawData k)) : CPP d0 c (parseRawData tag k) (fun _ => []) P :=
  cpp_of_cp_ok (cp_parseRawData (attrKeysNodup_of_attrsOk ha)) (fun _ _ _ h => by rw [res_parseRawData h]; exact hp)

theorem cpp_toRawTextMode {c : List Id} {k : H5V.Model.HtmlTok.RawKind} {P : ProcessResult → Prop}
    (hp : P (.toRawData k)) : CPP d0 c (toRawTextMode k) (fun _ => []) P :=
  cpp_of_cp_ok cp_toRawTextMode (fun _ _ _ h => by rw [res_toRawTextMode h]; exact hp)

theorem cp_inBodyVoid {c : List Id} {tag : Tag} (ha : AttrsOk tag.attrs) :
    CP d0 c (inBodyVoid tag) (fun _ => []) := by
  unfold inBodyVoid
  cp_walk

theorem cpp_inBodyVoid {c : List Id} {tag : Tag} {P : ProcessResult → Prop} (ha : AttrsOk tag.attrs)
    (hp : P .doneAckSelfClosing) : CPP d0 c (inBodyVoid tag) (fun _ => []) P :=
  cpp_of_cp_ok (cp_inBodyVoid ha) (fun _ _ _ h => by rw [res_inBodyVoid h]; exact hp)

theorem cpp_enterForeign {c : List Id} {tag : Tag} {ns : Str} {tok : Token} (ha : AttrsOk tag.attrs) :
    CPP d0 c (enterForeign tag ns) (fun _ => []) (ResLate tok) :=
  cpp_of_cp_ok (cp_enterForeign ha) (fun _ _ _ h => ResLate.of_noRep (res_enterForeign h))

theorem res_inBodyHtml {tag : Tag} {s s' : State} {r : ProcessResult} (h : inBodyHtml tag s = .ok (r, s')) :
    r = .done := by
  unfold inBodyHtml at h
  obtain ⟨_, s1, _, h2⟩ := ok_bind h
  obtain ⟨_, s2, _, h3⟩ := ok_bind h2
  dsimp only at h3
  refine ok_ite (P := fun r => r = .done) h3 ?_ ?_
  · intro s3 s4 r1 h4
    obtain ⟨_, s5, _, h5⟩ := ok_bind h4
    obtain ⟨_, s6, _, h6⟩ := ok_bind h5
    exact (ok_pure h6).1.symm
  · intro s3 s4 r1 h4
    exact (ok_pure h4).1.symm

theorem cpp_inBodyHtml {c : List Id} {tag : Tag} {P : ProcessResult → Prop} (ha : AttrsOk tag.attrs)
    (hp : P .done) : CPP d0 c (inBodyHtml tag) (fun _ => []) P :=
  cpp_of_cp_ok (cp_inBodyHtml (attrKeysNodup_of_attrsOk ha)) (fun _ _ _ h => by rw [res_inBodyHtml h]; exact hp)

/-! ### the delegation hypotheses -/

/-- the "in head" rules, at the `CP` level -/
def HeadH (d0 : Dom) : Prop := ∀ tok, TokOk tok → CPP d0 [] (stepInHead tok) (fun _ => []) (ResLate tok)
/-- the "in body" rules -/
def BodyH (d0 : Dom) : Prop := ∀ tok, TokOk tok → RS d0 tok (stepInBody tok)
/-- the "in table" rules -/
def TableH (d0 : Dom) : Prop := ∀ tok, TokOk tok → RS d0 tok (stepInTable tok)

theorem HeadH.cpp {c : List Id} (h : HeadH d0) {tok : Token} (ht : TokOk tok) :
    CPP d0 c (stepInHead tok) (fun _ => []) (ResLate tok) := cpp_ctx_mono (h tok ht) (fun _ hx => by cases hx)
theorem HeadH.cpsp {c : List Id} (h : HeadH d0) {tok : Token} (ht : TokOk tok) :
    CPSP d0 c (stepInHead tok) (fun _ => []) (ResLate tok) := cpsp_of_cpp (h.cpp ht)
theorem BodyH.cpsp {c : List Id} (h : BodyH d0) {tok : Token} (ht : TokOk tok) :
    CPSP d0 c (stepInBody tok) (fun _ => []) (ResLate tok) := cpsp_of_rs (h tok ht)
theorem TableH.cpsp {c : List Id} (h : TableH d0) {tok : Token} (ht : TokOk tok) :
    CPSP d0 c (stepInTable tok) (fun _ => []) (ResLate tok) := cpsp_of_rs (h tok ht)

/-- a rule judgement from the `CP` level -/
theorem rs_of_cpp {tok : Token} {m : M ProcessResult} (h : CPP d0 [] m (fun _ => []) (ResLate tok)) : RS d0 tok m :=
  cpsp_of_cpp h

theorem resLate_rep {tok : Token} {m : Mode} (h : m ≠ .initial) : ResLate tok (.reprocess m tok) := ⟨h, rfl⟩

theorem cpsp_bind_cp {c : List Id} {α β : Type} {m : M α} {f : α → M β} {R : α → List Id} {R' : β → List Id}
    {P : β → Prop} (h1 : CP d0 c m R) (h2 : ∀ a, CPSP d0 (R a ++ c) (f a) R' P) : CPSP d0 c (m >>= f) R' P :=
  cpsp_bind (cp_toCPS h1) h2

/-! ### code that writes back a state it has read -/

/-- `CPSP` at a known state -/
def CPSPat (d0 : Dom) (s : State) (c : List Id) {α : Type} (m : M α) (R : α → List Id) (P : α → Prop) : Prop :=
  CB d0 s → SAnc s.dom s.openElems → CtxOk c s →
    SatC m s (fun a s' => CB d0 s' ∧ SAnc s'.dom s'.openElems ∧ Ext s.dom s'.dom ∧ CtxOk (R a) s' ∧ P a)

theorem cpsp_at {c : List Id} {α : Type} {m : M α} {R : α → List Id} {P : α → Prop} (h : CPSP d0 c m R P)
    (s : State) : CPSPat d0 s c m R P := h s

theorem cpsp_getS_bind_at {c : List Id} {β : Type} {f : State → M β} {R : β → List Id} {P : β → Prop}
    (h : ∀ s0, CPSPat d0 s0 (stH s0 ++ c) (f s0) R P) : CPSP d0 c (getS >>= f) R P := by
  intro s hcb hsa hc
  refine satc_getS_bind ?_
  exact h s hcb hsa ((ctxOk_stH hcb.h).app hc)

theorem cpspat_set_bind {s s1 : State} {c : List Id} {β : Type} {k : Unit → M β} {R : β → List Id} {P : β → Prop}
    (h1 : CB d0 s → SAnc s.dom s.openElems → CB d0 s1 ∧ SAnc s1.dom s1.openElems ∧ Ext s.dom s1.dom)
    (hk : CPSP d0 c (k ()) R P) : CPSPat d0 s c ((set s1 : M Unit) >>= k) R P := by
  intro hcb hsa hc
  refine satc_set_bind ?_
  obtain ⟨hcb1, hsa1, he1⟩ := h1 hcb hsa
  refine (hk s1 hcb1 hsa1 (hc.ext he1)).mono ?_
  rintro b s2 ⟨hcb2, hsa2, he2, hr2, hp⟩
  exact ⟨hcb2, hsa2, he1.trans he2, hr2, hp⟩

theorem cpspat_panicAt {s : State} {c : List Id} {α : Type} {cls site text : String} {R : α → List Id} {P : α → Prop}
    (h : TBSafe.infixL "@sink: ".toList (cls ++ "@" ++ site ++ ": " ++ text).toList = false := by decide) :
    CPSPat d0 s c (panicAt cls site text : M α) R P := fun _ _ _ => satc_panicAt h

/-- `orig_mode.take()` with a mode change: the state keeps `CB`, `SAnc` -/
theorem cb_takeOrig {s : State} {m : Mode} (hm : m ≠ .initial) (hcb : CB d0 s) (hsa : SAnc s.dom s.openElems) :
    CB d0 { s with origMode := none, mode := m } ∧
      SAnc ({ s with origMode := none, mode := m } : State).dom ({ s with origMode := none, mode := m } : State).openElems ∧
      Ext s.dom ({ s with origMode := none, mode := m } : State).dom :=
  ⟨hcb.of_shrink rfl rfl rfl (fun _ h => h) (fun _ h => h) (fun _ h => h) (fun _ h => h) (fun _ h => h)
    ⟨hm, (by intro e; cases e), hcb.l.tm⟩, hsa, Ext.refl _⟩

theorem orig_late {s : State} {m : Mode} (hcb : CB d0 s) (h : s.origMode = some m) : m ≠ .initial := by
  intro e; subst e; exact hcb.l.orig h

theorem cpsp_reset_bind {c : List Id} {β : Type} {f : Mode → M β} {R : β → List Id} {P : β → Prop}
    (h : ∀ m, m ≠ .initial → CPSP d0 c (f m) R P) : CPSP d0 c (resetInsertionMode >>= f) R P := by
  intro s hcb hsa hc
  refine (satc_resetInsertionMode s hcb).bind ?_
  rintro m s1 ⟨hcb1, hg1, hm⟩
  have hsa1 := SAnc.grow hcb.d.inv.wf (fun h hh => lt_of_isEl (hcb.h.open_el h hh)) hsa hg1
  refine (h m hm s1 hcb1 hsa1 (hc.ext hg1.ext)).mono ?_
  rintro b s2 ⟨hcb2, hsa2, he2, hr2, hp⟩
  exact ⟨hcb2, hsa2, hg1.ext.trans he2, hr2, hp⟩

theorem cpp_reset_bind {c : List Id} {β : Type} {f : Mode → M β} {R : β → List Id} {P : β → Prop}
    (h : ∀ m, m ≠ .initial → CPP d0 c (f m) R P) : CPP d0 c (resetInsertionMode >>= f) R P := by
  intro s hcb hc
  refine (satc_resetInsertionMode s hcb).bind ?_
  rintro m s1 ⟨hcb1, hg1, hm⟩
  refine (h m hm s1 hcb1 (hc.ext hg1.ext)).mono ?_
  rintro b s2 ⟨hcb2, hg2, hr2, hp⟩
  exact ⟨hcb2, hg1.trans hg2, hr2, hp⟩

theorem cb_clearOrig {s : State} (hcb : CB d0 s) (hsa : SAnc s.dom s.openElems) :
    CB d0 { s with origMode := none } ∧
      SAnc ({ s with origMode := none } : State).dom ({ s with origMode := none } : State).openElems ∧
      Ext s.dom ({ s with origMode := none } : State).dom :=
  ⟨hcb.of_shrink rfl rfl rfl (fun _ h => h) (fun _ h => h) (fun _ h => h) (fun _ h => h) (fun _ h => h)
    ⟨hcb.l.mode, (by intro e; cases e), hcb.l.tm⟩, hsa, Ext.refl _⟩

/-- `let m = orig_mode.take().unwrap(); Reprocess(m, token)` -/
theorem cpsp_origReprocess {c : List Id} {tok : Token} {cls site text : String}
    (h : TBSafe.infixL "@sink: ".toList (cls ++ "@" ++ site ++ ": " ++ text).toList = false) :
    CPSP d0 c (do
      let s ← getS
      match s.origMode with
      | none => panicAt cls site text
      | some m =>
        set { s with origMode := none }
        pure (ProcessResult.reprocess m tok)) (fun _ => []) (ResLate tok) := by
  refine cpsp_getS_bind_at (fun s0 => ?_)
  intro hcb hsa hc
  cases hm : s0.origMode with
  | none => exact satc_panicAt h
  | some m =>
    dsimp only
    refine cpspat_set_bind (fun h1 h2 => cb_clearOrig h1 h2) ?_ hcb hsa hc
    exact cpsp_pure_nil _ (resLate_rep (orig_late hcb hm))

/-! ### the walker -/

/-- facts about the answer of a rule -/
syntax "rs_res" : tactic
macro_rules
  | `(tactic| rs_res) => `(tactic|
    first
      | trivial
      | assumption
      | exact resLate_rep (by decide)
      | exact resLate_rep (by assumption)
      | exact ⟨by decide, rfl⟩)

/-- terminal leaves at the `CPP` level (extensible) -/
syntax "cpp_leaf" : tactic
macro_rules
  | `(tactic| cpp_leaf) => `(tactic|
    first
      | (with_reducible refine cpp_pure_nil _ ?_) <;> rs_res
      | exact cpp_panicAt
      | (with_reducible refine cpp_unexpected ?_) <;> rs_res
      | (with_reducible refine cpp_appendText ?_) <;> rs_res
      | (with_reducible refine cpp_appendComment ?_) <;> rs_res
      | (with_reducible refine cpp_appendCommentToDoc ?_) <;> rs_res
      | (with_reducible refine cpp_appendCommentToHtml ?_) <;> rs_res
      | (with_reducible refine cpp_parseRawData (by assumption) ?_) <;> rs_res
      | (with_reducible refine cpp_toRawTextMode ?_) <;> rs_res
      | (with_reducible refine cpp_inBodyVoid (by assumption) ?_) <;> rs_res
      | with_reducible exact cpp_enterForeign (by assumption)
      | (with_reducible refine cpp_inBodyHtml (by assumption) ?_) <;> rs_res)

/-- leaves at the `CPSP` level (extensible): delegations to other rules, adoption agency, … -/
syntax "rs_leaf" : tactic
macro_rules
  | `(tactic| rs_leaf) => `(tactic|
    first
      | exact cpsp_panicAt
      | (with_reducible refine cpsp_of_cpp ?_) <;> cpp_leaf)

syntax "rs_step" : tactic
macro_rules
  | `(tactic| rs_step) => `(tactic|
    first
      | cpp_leaf
      | rs_leaf
      | with_reducible refine cpp_reset_bind (fun _ _ => ?_)
      | with_reducible refine cpsp_reset_bind (fun _ _ => ?_)
      | with_reducible refine cpp_getS_bind ?_
      | with_reducible refine cpsp_getS_bind ?_
      | with_reducible refine cpp_ite ?_ ?_
      | with_reducible refine cpsp_ite ?_ ?_
      | ((with_reducible apply cpp_bind); focus (cp_walk; done))
      | ((with_reducible apply cpsp_bind_cp); focus (cp_walk; done))
      | with_reducible intro _
      | dsimp only)

syntax "rs_walk" : tactic
macro_rules
  | `(tactic| rs_walk) => `(tactic| repeat' rs_step)

macro_rules | `(tactic| rs_leaf) => `(tactic| exact BodyH.cpsp (by assumption) (by assumption))
macro_rules | `(tactic| rs_leaf) => `(tactic| exact HeadH.cpsp (by assumption) (by assumption))
macro_rules | `(tactic| rs_leaf) => `(tactic| exact TableH.cpsp (by assumption) (by assumption))

macro_rules | `(tactic| cpp_leaf) => `(tactic| exact HeadH.cpp (by assumption) (by assumption))

theorem cp_createRoot_nil {c : List Id} : CP d0 c (createRoot []) (fun _ => []) := cp_createRoot rfl
macro_rules | `(tactic| cp_leaf) => `(tactic| with_reducible exact cp_createRoot_nil)

/-- open a rule: case split on the token, reduce the `match` -/
syntax "rs_open" : tactic
macro_rules
  | `(tactic| rs_open) => `(tactic|
    (intro tok ht
     unfold RS
     cases tok with
     | chars st text => cases st <;> (dsimp only; rs_walk)
     | tag tag =>
       have ha : AttrsOk tag.attrs := ht
       dsimp only
       rs_walk
     | _ => dsimp only; rs_walk))

end H5V.Lemmas.TBC
