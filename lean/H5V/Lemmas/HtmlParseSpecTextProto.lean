import H5V.Lemmas.HtmlParseSpecRawFam
import H5V.Lemmas.HtmlParseSpecTextMode
import H5V.Lemmas.HtmlParseSpecHist
/-!
Capstone, part: **the "text" insertion mode protocol is a FACT about the joint run** (`textAlong_of_parse`).

`Respects2` asks that while the tree builder is in the "text" insertion mode only character tokens, end tags, EOF
and parse errors arrive.  Here this is proved for the token stream of every successful joint parse, from
* the tokenizer side (`H5V.Lemmas.HtmlParseSpecRawFam`): from a raw-text family state, or inside an end tag
  (`TextSt`), a step only delivers character tokens, parse errors and at most one END tag, and stays in such a state
  unless it delivered the tag; a step delivers at most one tag, as its last token;
* the tree-builder side (`H5V.Lemmas.HtmlParseSpecTextMode`): the "text" mode is only entered by a tag token that is
  answered `RawData k` (which sends the tokenizer to the raw state `k`), and an end tag leaves it;
* the joint invariant `tb.mode = .text → TextSt m` at the step boundaries of the joint loop.
-/
namespace H5V.Lemmas.ParseSpec
open H5V.Model.HtmlTB
open H5V.Lemmas.TBSafe (TI)
open H5V.Model.HtmlTB.Joint (JState absorb polOf conv convTag toSinkRes)
open H5V.Lemmas.JointChunk
open H5V.Props.C03 (GoodS)
open H5V.Model.HtmlTok (Mach Out step clr ofSig applySinkRes emit)

abbrev TTk := H5V.Model.HtmlTok.Token

/-- the "text" clause of `TokTokOk` -/
def TextOkTok (s : State) (t : TokToken) : Prop :=
  s.mode = .text → (∃ x, t = .chars x) ∨ t = .eof ∨ (∃ tg, t = .tag tg ∧ tg.kind = .endTag) ∨ (∃ e, t = .parseError e)

/-- the clause along the model's run -/
def TextAlong : State → List (TokToken × Nat) → Prop
  | _, [] => True
  | s, (t, line) :: rest => TextOkTok s t ∧ ∀ r s', (processToken t line).run s = .ok (r, s') → TextAlong s' rest

/-- the tree builder goes from `s` to `s'` over the tokens -/
inductive TbRuns : State → List (TokToken × Nat) → State → Prop
  | nil (s : State) : TbRuns s [] s
  | cons {s s1 s' : State} {t : TokToken} {l : Nat} {r : SinkResult} {rest : List (TokToken × Nat)} :
      (processToken t l).run s = .ok (r, s1) → TbRuns s1 rest s' → TbRuns s ((t, l) :: rest) s'

theorem TbRuns.append {s s1 s2 : State} {p q : List (TokToken × Nat)} (h1 : TbRuns s p s1) (h2 : TbRuns s1 q s2) :
    TbRuns s (p ++ q) s2 := by
  induction h1 with
  | nil => exact h2
  | cons hr _ ih => exact TbRuns.cons hr (ih h2)

theorem textAlong_append : ∀ (p q : List (TokToken × Nat)) (s : State), TextAlong s p →
    (∀ s', TbRuns s p s' → TextAlong s' q) → TextAlong s (p ++ q)
  | [], _, s, _, h => h s (TbRuns.nil s)
  | (_, _) :: p, q, _, hp, h =>
    ⟨hp.1, fun r s1 hr => textAlong_append p q s1 (hp.2 r s1 hr) (fun s' hrun => h s' (TbRuns.cons hr hrun))⟩

/-- `absorb` as a `TbRuns` -/
theorem absorb_tbRuns : ∀ (toks : List (TTk × Nat)) (j j' : JState), absorb toks j = .ok j' →
    TbRuns j.tb (convAll toks) j'.tb
  | [], j, j', h => by cases h; exact TbRuns.nil _
  | (t, line) :: rest, j, j', h => by
    rw [absorb_cons] at h
    rw [convAll_cons]
    cases hc : conv t with
    | none => rw [hc] at h; exact absorb_tbRuns rest j j' h
    | some tt =>
      rw [hc] at h
      simp only at h
      cases hp : (processToken tt line).run j.tb with
      | error e => rw [hp] at h; cases h
      | ok v =>
        obtain ⟨r, tb⟩ := v
        rw [hp] at h
        simp only at h
        by_cases hcnd : (!isTagT tt && r != .continue_) = true
        · rw [if_pos hcnd] at h; cases h
        · rw [if_neg hcnd] at h
          exact TbRuns.cons hp (absorb_tbRuns rest _ j' h)

theorem TbRuns.det {s s1 s2 : State} {p : List (TokToken × Nat)} (h1 : TbRuns s p s1) (h2 : TbRuns s p s2) : s1 = s2 := by
  induction h1 with
  | nil => cases h2; rfl
  | cons hr _ ih =>
    cases h2 with
    | cons hr' h2' =>
      rw [hr] at hr'
      cases hr'
      exact ih h2'

/-- the invariants `TI` and `GoodS` along a run -/
theorem TbRuns.inv {s s' : State} {p : List (TokToken × Nat)} (h : TbRuns s p s') (ht : TI s) (hg : GoodS s) :
    TI s' ∧ GoodS s' := by
  induction h with
  | nil => exact ⟨ht, hg⟩
  | @cons s s1 s' t l r rest hr _ ih =>
    exact ih
      ((@H5V.Props.C04TB.C04_tb_no_panic_token H5V.Props.C04TB.allowAll trivial s t l ht (fun _ => Or.inl trivial)).1 r s1 hr)
      (H5V.Props.C03.C03_tb_good_preserved t l s hg hr)

/-! ### tokens -/

theorem textOk_allowed {tok : TTk} {t : TokToken} (h : AllowedInText tok ∨ tok = .eof) (hc : conv tok = some t)
    (s : State) : TextOkTok s t := by
  intro _
  cases tok with
  | chars x => cases hc; exact Or.inl ⟨x, rfl⟩
  | error m => cases hc; exact Or.inr (Or.inr (Or.inr ⟨m, rfl⟩))
  | pause b => cases hc
  | tag tg =>
    cases hc
    rcases h with h | h
    · exact Or.inr (Or.inr (Or.inl ⟨convTag tg, rfl, h⟩))
    · cases h
  | eof => cases hc; exact Or.inr (Or.inl rfl)
  | doctype d => rcases h with h | h <;> cases h
  | comment c => rcases h with h | h <;> cases h
  | nullChar => rcases h with h | h <;> cases h

theorem conv_not_tag {tok : TTk} {t : TokToken} (h : isTagTok tok = false) (hc : conv tok = some t) :
    ∀ tg, t ≠ .tag tg := by
  intro tg e
  cases tok <;> simp [conv, isTagTok] at hc h <;> rw [← hc] at e <;> cases e

/-- tokens that are not tags: if the builder is not in "text" it does not get there; if it is, the tokens have to be
allowed ones -/
theorem absorb_plain : ∀ (toks : List (TTk × Nat)) (j j' : JState), absorb toks j = .ok j' → TI j.tb → GoodS j.tb →
    (∀ p ∈ toks, isTagTok p.1 = false) →
    (j.tb.mode ≠ .text ∨ ∀ p ∈ toks, AllowedInText p.1 ∨ p.1 = .eof) →
    TextAlong j.tb (convAll toks) ∧ (j.tb.mode ≠ .text → j'.tb.mode ≠ .text)
  | [], j, j', h, _, _, _, _ => by cases h; exact ⟨trivial, id⟩
  | (t, line) :: rest, j, j', h, hti, hg, hnt, hH => by
    rw [absorb_cons] at h
    rw [convAll_cons]
    cases hc : conv t with
    | none =>
      rw [hc] at h
      exact absorb_plain rest j j' h hti hg (fun p hp => hnt p (by simp [hp]))
        (hH.imp id (fun h2 p hp => h2 p (by simp [hp])))
    | some tt =>
      rw [hc] at h
      simp only at h
      cases hp : (processToken tt line).run j.tb with
      | error e => rw [hp] at h; cases h
      | ok v =>
        obtain ⟨r, tb⟩ := v
        rw [hp] at h
        simp only at h
        by_cases hcnd : (!isTagT tt && r != .continue_) = true
        · rw [if_pos hcnd] at h; cases h
        · rw [if_neg hcnd] at h
          have hti1 := (@H5V.Props.C04TB.C04_tb_no_panic_token H5V.Props.C04TB.allowAll trivial j.tb tt line hti
            (fun _ => Or.inl trivial)).1 r tb hp
          have hg1 := H5V.Props.C03.C03_tb_good_preserved tt line j.tb hg hp
          have hstay : j.tb.mode ≠ .text → tb.mode ≠ .text := by
            intro h1 h2
            obtain ⟨tg, k, e, _⟩ := processToken_enters_text tt line j.tb tb r hti hp h1 h2
            exact conv_not_tag (hnt (t, line) (by simp)) hc tg e
          have ih := absorb_plain rest _ j' h hti1 hg1 (fun p hp => hnt p (by simp [hp]))
            (by
              rcases hH with h1 | h2
              · exact Or.inl (hstay h1)
              · exact Or.inr (fun p hp => h2 p (by simp [hp])))
          refine ⟨?_, fun h1 => ih.2 (hstay h1)⟩
          show TextAlong j.tb ((tt, line) :: convAll rest)
          refine ⟨?_, fun r' s' hr' => ?_⟩
          · rcases hH with h1 | h2
            · exact fun hm => absurd hm h1
            · exact textOk_allowed (h2 (t, line) (by simp)) hc j.tb
          · rw [hp] at hr'
            cases hr'
            exact ih.1

theorem absorb_pauses : ∀ (ps : List (TTk × Nat)) (j : JState), (∀ p ∈ ps, isPauseTok p.1 = true) →
    absorb ps j = .ok j ∧ convAll ps = []
  | [], j, _ => ⟨rfl, rfl⟩
  | (t, l) :: rest, j, h => by
    have ht := h (t, l) (by simp)
    cases t <;> simp [isPauseTok] at ht
    have ih := absorb_pauses rest j (fun p hp => h p (by simp [hp]))
    rw [absorb_cons, convAll_cons]
    exact ⟨ih.1, by simpa [conv] using ih.2⟩

/-! ### one step of the joint loop -/

theorem joint_step_text {o : TOpts} {m : Mach} {inp : H5V.Model.HtmlTok.Str} {j j1 : JState} (hm : m.out = [])
    {m1 : Mach} {i1 : H5V.Model.HtmlTok.Str} (hs : (step o (polOf j) m inp).pair? = some (m1, i1))
    (ha : absorb m1.out.reverse j = .ok j1) (hcr : CrInv m) (hJ : j.tb.mode = .text → TextSt m) (hti : TI j.tb)
    (hg : GoodS j.tb) :
    TextAlong j.tb (convAll m1.out.reverse) ∧ (j1.tb.mode = .text → TextSt (clr m1)) ∧ CrInv (clr m1) := by
  have hcr1 : CrInv m1 := step_crInv o (polOf j) m inp hcr m1 i1 hs
  refine (fun h : TextAlong j.tb (convAll m1.out.reverse) ∧ (j1.tb.mode = .text → TextSt (clr m1)) =>
    ⟨h.1, h.2, (crInv_clr m1).mpr hcr1⟩) ?_
  obtain ⟨new, hnew, hone⟩ := step_one_tag o (polOf j) m inp m1 i1 hs
  rw [hm, List.append_nil] at hnew
  -- what a step from a text state delivers
  have hallowed : j.tb.mode = .text → (∀ p ∈ new, AllowedInText p.1) ∧ ((∀ p ∈ new, isTagTok p.1 = false) → TextSt m1) := by
    intro hmode
    obtain ⟨new', hnew', h1, h2⟩ := step_textSt o (polOf j) m inp (hJ hmode) m1 i1 hs
    rw [hm, List.append_nil] at hnew'
    have : new' = new := by rw [← hnew', hnew]
    subst this
    exact ⟨h1, h2⟩
  by_cases htag : ∀ p ∈ new, isTagTok p.1 = false
  · -- no tag was delivered
    have hH : j.tb.mode ≠ .text ∨ ∀ p ∈ m1.out.reverse, AllowedInText p.1 ∨ p.1 = .eof := by
      by_cases hmode : j.tb.mode = .text
      · exact Or.inr (fun p hp => Or.inl ((hallowed hmode).1 p (by rw [← hnew]; exact List.mem_reverse.mp hp)))
      · exact Or.inl hmode
    obtain ⟨h1, h2⟩ := absorb_plain _ j j1 ha hti hg
      (fun p hp => htag p (by rw [← hnew]; exact List.mem_reverse.mp hp)) hH
    refine ⟨h1, fun hm1 => ?_⟩
    by_cases hmode : j.tb.mode = .text
    · exact (textSt_clr m1).mpr ((hallowed hmode).2 htag)
    · exact absurd hm1 (h2 hmode)
  · -- a tag was delivered: it is the newest token apart from pause markers
    have hex : ∃ a t l b, new = a ++ (H5V.Model.HtmlTok.Token.tag t, l) :: b := by
      obtain ⟨p, hp'⟩ := Classical.not_forall.mp htag
      obtain ⟨hp, hpt⟩ := Classical.not_imp.mp hp'
      obtain ⟨a, b, hab⟩ := List.append_of_mem hp
      obtain ⟨tok, l⟩ := p
      cases tok <;> simp [isTagTok] at hpt
      exact ⟨a, _, l, b, hab⟩
    obtain ⟨a, t, l, b, hab⟩ := hex
    obtain ⟨hpa, hnb⟩ := hone a b t l hab
    -- the three parts of the delivery
    have hrev : m1.out.reverse = b.reverse ++ ([(H5V.Model.HtmlTok.Token.tag t, l)] ++ a.reverse) := by
      rw [hnew, hab]; simp
    rw [hrev] at ha ⊢
    obtain ⟨jb, hjb, hrest⟩ := absorb_append_ok ha
    obtain ⟨jt, hjt, hpz⟩ := absorb_append_ok hrest
    obtain ⟨hpz1, hpz2⟩ := absorb_pauses a.reverse jt (fun p hp => hpa p (List.mem_reverse.mp hp))
    rw [hpz1] at hpz
    have hj : jt = j1 := Except.ok.inj hpz
    subst hj
    have hH : j.tb.mode ≠ .text ∨ ∀ p ∈ b.reverse, AllowedInText p.1 ∨ p.1 = .eof := by
      by_cases hmode : j.tb.mode = .text
      · exact Or.inr (fun p hp => Or.inl ((hallowed hmode).1 p (by rw [hab]; simp [List.mem_reverse.mp hp])))
      · exact Or.inl hmode
    obtain ⟨hb1, hb2⟩ := absorb_plain _ j jb hjb hti hg (fun p hp => hnb p (List.mem_reverse.mp hp)) hH
    obtain ⟨htib, hgb⟩ := (absorb_tbRuns _ _ _ hjb).inv hti hg
    obtain ⟨r, hrun, _⟩ := absorb_tag hjt
    -- the tag token in the state `jb.tb`
    have htagOk : TextOkTok jb.tb (.tag (convTag t)) := by
      intro hmb
      have hmode : j.tb.mode = .text := by
        by_cases h : j.tb.mode = .text
        · exact h
        · exact absurd hmb (hb2 h)
      have := (hallowed hmode).1 (H5V.Model.HtmlTok.Token.tag t, l) (by rw [hab]; simp)
      exact Or.inr (Or.inr (Or.inl ⟨convTag t, rfl, this⟩))
    refine ⟨?_, fun hm1 => ?_⟩
    · rw [convAll_append, convAll_append, hpz2, List.append_nil]
      refine textAlong_append _ _ _ hb1 (fun s' hs' => ?_)
      have : s' = jb.tb := hs'.det (absorb_tbRuns _ _ _ hjb)
      subst this
      exact ⟨htagOk, fun _ _ _ => trivial⟩
    · -- the state of the tokenizer after the tag
      by_cases hmb : jb.tb.mode = .text
      · -- an end tag leaves the "text" mode
        have hend : (convTag t).kind = .endTag := by
          rcases htagOk hmb with ⟨x, e⟩ | e | ⟨tg, e, hk⟩ | ⟨x, e⟩
          · cases e
          · cases e
          · cases e; exact hk
          · cases e
        exact absurd hm1 (processToken_text_endTag (convTag t) l jb.tb jt.tb r htib hrun hmb hend)
      · obtain ⟨tg, k, _, hr⟩ := processToken_enters_text _ l jb.tb jt.tb r htib hrun hmb hm1
        subst hr
        obtain ⟨q, hq1, hq2, hform⟩ := step_tag_form o (polOf j) m inp m1 i1 hs new a b t l
          (by rw [hm, List.append_nil]; exact hnew) hab
        rw [hm, List.append_nil] at hq2
        have hans : (polOf j).onTag q.out t = .rawData k := by
          rw [polOf_onTag, hq2]
          have : absorb b.reverse j = .ok jb := hjb
          rw [this]
          exact tbTag_of_run hgb hrun
        rw [hans] at hform
        rw [hform] at hs
        simp only [applySinkRes, ofSig, H5V.Model.HtmlTok.R.pair?, Option.some.injEq, Prod.mk.injEq] at hs
        obtain ⟨rfl, _⟩ := hs
        exact (textSt_clr _).mpr (textSt_of_rawData (k := k) rfl hcr1)

/-! ### runs -/

/-- what `stepOut` leaves out is a pause marker, which is not a token -/
theorem convAll_stepOut {o : TOpts} {m : Mach} {inp : H5V.Model.HtmlTok.Str} {j : JState} {m1 : Mach}
    {i1 : H5V.Model.HtmlTok.Str} (hs : (step o (polOf j) m inp).pair? = some (m1, i1)) :
    convAll (stepOut (step o (polOf j) m inp) m1).reverse = convAll m1.out.reverse := by
  unfold stepOut
  by_cases hp : (step o (polOf j) m inp).isPause = true
  · rw [if_pos hp]
    -- a pausing step ends with `applySinkRes … .script / .indicator`
    let pol0 : H5V.Model.HtmlTok.Pol := ⟨fun _ _ => .continue_, fun _ => (polOf j).cdataOk m.out⟩
    have hp0 : H5V.Model.HtmlTok.NoPause pol0 := fun _ _ => ⟨by simp [pol0], by simp [pol0]⟩
    rcases step_shift' o (polOf j) pol0 [] m inp rfl with h1 | ⟨q, tag, i, _, _, _, he, _⟩
    · have := H5V.Model.HtmlTok.step_noPause o pol0 hp0 (sh [] m) inp
      rw [h1] at this
      cases hr : step o (polOf j) m inp <;> rw [hr] at hp this <;> simp [shR, H5V.Model.HtmlTok.R.isPause] at hp this
    · rw [he] at hs hp
      generalize (polOf j).onTag q.out tag = r at hs hp
      cases r with
      | continue_ => simp [applySinkRes, ofSig, H5V.Model.HtmlTok.R.isPause] at hp
      | plaintext => simp [applySinkRes, ofSig, H5V.Model.HtmlTok.R.isPause] at hp
      | rawData k => simp [applySinkRes, ofSig, H5V.Model.HtmlTok.R.isPause] at hp
      | script =>
        simp only [applySinkRes, ofSig, H5V.Model.HtmlTok.R.pair?, Option.some.injEq, Prod.mk.injEq] at hs
        obtain ⟨rfl, _⟩ := hs
        show convAll ((H5V.Model.HtmlTok.Token.pause true, _) :: (emit q (.tag tag)).out).tail.reverse =
          convAll ((H5V.Model.HtmlTok.Token.pause true, _) :: (emit q (.tag tag)).out).reverse
        rw [List.tail_cons, List.reverse_cons, convAll_append]
        simp [convAll, conv]
      | indicator =>
        simp only [applySinkRes, ofSig, H5V.Model.HtmlTok.R.pair?, Option.some.injEq, Prod.mk.injEq] at hs
        obtain ⟨rfl, _⟩ := hs
        show convAll ((H5V.Model.HtmlTok.Token.pause false, _) :: (emit q (.tag tag)).out).tail.reverse =
          convAll ((H5V.Model.HtmlTok.Token.pause false, _) :: (emit q (.tag tag)).out).reverse
        rw [List.tail_cons, List.reverse_cons, convAll_append]
        simp [convAll, conv]
  · rw [if_neg hp]

/-- the invariants and the protocol along one step -/
theorem joint_step_text' {o : TOpts} {m : Mach} {inp : H5V.Model.HtmlTok.Str} {j j1 : JState} (hm : m.out = [])
    {m1 : Mach} {i1 : H5V.Model.HtmlTok.Str} (hs : (step o (polOf j) m inp).pair? = some (m1, i1))
    (ha : absorb m1.out.reverse j = .ok j1) (hcr : CrInv m) (hJ : j.tb.mode = .text → TextSt m) (hti : TI j.tb)
    (hg : GoodS j.tb) :
    TextAlong j.tb (convAll (stepOut (step o (polOf j) m inp) m1).reverse) ∧ (j1.tb.mode = .text → TextSt (clr m1)) ∧
      TI j1.tb ∧ GoodS j1.tb ∧ TbRuns j.tb (convAll (stepOut (step o (polOf j) m inp) m1).reverse) j1.tb ∧
      CrInv (clr m1) := by
  obtain ⟨h1, h2, h5⟩ := joint_step_text hm hs ha hcr hJ hti hg
  have hr := absorb_tbRuns _ _ _ ha
  obtain ⟨h3, h4⟩ := hr.inv hti hg
  rw [convAll_stepOut hs]
  exact ⟨h1, h2, h3, h4, hr, h5⟩

theorem jruns_text {o : TOpts} {m : Mach} {inp : H5V.Model.HtmlTok.Str} {j : JState} {m' : Mach} {j' : JState} {D : Out}
    (h : JRunsD o m inp j m' j' D) :
    m.out = [] → CrInv m → (j.tb.mode = .text → TextSt m) → TI j.tb → GoodS j.tb →
    TextAlong j.tb (convAll D.reverse) ∧ (j'.tb.mode = .text → TextSt m') ∧ TI j'.tb ∧ GoodS j'.tb ∧
      TbRuns j.tb (convAll D.reverse) j'.tb ∧ CrInv m' := by
  induction h with
  | @susp m inp j m1 j1 hs ha =>
    intro hm hcr hJ hti hg
    exact joint_step_text' hm (by rw [hs]; rfl) ha hcr hJ hti hg
  | @scriptEnd m inp j m1 j1 hs ha =>
    intro hm hcr hJ hti hg
    exact joint_step_text' hm (by rw [hs]; rfl) ha hcr hJ hti hg
  | @indicatorEnd m inp j m1 j1 hs ha =>
    intro hm hcr hJ hti hg
    exact joint_step_text' hm (by rw [hs]; rfl) ha hcr hJ hti hg
  | @cont m inp j m1 i1 j1 m' j' D hs ha _ ih =>
    intro hm hcr hJ hti hg
    obtain ⟨a1, a2, a3, a4, a5, a6⟩ := joint_step_text' hm (m1 := m1) (i1 := i1) (by rw [hs]; rfl) ha hcr hJ hti hg
    obtain ⟨b1, b2, b3, b4, b5, b6⟩ := ih rfl a6 a2 a3 a4
    rw [List.reverse_append, convAll_append]
    refine ⟨textAlong_append _ _ _ a1 (fun s' hs' => ?_), b2, b3, b4, a5.append b5, b6⟩
    rw [hs'.det a5]
    exact b1
  | @script m inp j m1 i1 j1 m' j' D hs ha _ _ ih =>
    intro hm hcr hJ hti hg
    obtain ⟨a1, a2, a3, a4, a5, a6⟩ := joint_step_text' hm (m1 := m1) (i1 := i1) (by rw [hs]; rfl) ha hcr hJ hti hg
    obtain ⟨b1, b2, b3, b4, b5, b6⟩ := ih rfl a6 a2 a3 a4
    rw [List.reverse_append, convAll_append]
    refine ⟨textAlong_append _ _ _ a1 (fun s' hs' => ?_), b2, b3, b4, a5.append b5, b6⟩
    rw [hs'.det a5]
    exact b1
  | @indicator m inp j m1 i1 j1 m' j' D hs ha _ _ ih =>
    intro hm hcr hJ hti hg
    obtain ⟨a1, a2, a3, a4, a5, a6⟩ := joint_step_text' hm (m1 := m1) (i1 := i1) (by rw [hs]; rfl) ha hcr hJ hti hg
    obtain ⟨b1, b2, b3, b4, b5, b6⟩ := ih rfl a6 a2 a3 a4
    rw [List.reverse_append, convAll_append]
    refine ⟨textAlong_append _ _ _ a1 (fun s' hs' => ?_), b2, b3, b4, a5.append b5, b6⟩
    rw [hs'.det a5]
    exact b1

/-- the tree builder's run over what a `JRunsD` delivers -/
theorem jruns_text_runs {o : TOpts} {m : Mach} {inp : H5V.Model.HtmlTok.Str} {j : JState} {m' : Mach} {j' : JState}
    {D : Out} (h : JRunsD o m inp j m' j' D) : m.out = [] → TbRuns j.tb (convAll D.reverse) j'.tb := by
  induction h with
  | @susp m inp j m1 j1 hs ha =>
    intro _
    rw [convAll_stepOut (i1 := []) (by rw [hs]; rfl)]
    exact absorb_tbRuns _ _ _ ha
  | @scriptEnd m inp j m1 j1 hs ha =>
    intro _
    rw [convAll_stepOut (i1 := []) (by rw [hs]; rfl)]
    exact absorb_tbRuns _ _ _ ha
  | @indicatorEnd m inp j m1 j1 hs ha =>
    intro _
    rw [convAll_stepOut (i1 := []) (by rw [hs]; rfl)]
    exact absorb_tbRuns _ _ _ ha
  | @cont m inp j m1 i1 j1 m' j' D hs ha _ ih =>
    intro _
    rw [List.reverse_append, convAll_append, convAll_stepOut (i1 := i1) (by rw [hs]; rfl)]
    exact (absorb_tbRuns _ _ _ ha).append (ih rfl)
  | @script m inp j m1 i1 j1 m' j' D hs ha _ _ ih =>
    intro _
    rw [List.reverse_append, convAll_append, convAll_stepOut (i1 := i1) (by rw [hs]; rfl)]
    exact (absorb_tbRuns _ _ _ ha).append (ih rfl)
  | @indicator m inp j m1 i1 j1 m' j' D hs ha _ _ ih =>
    intro _
    rw [List.reverse_append, convAll_append, convAll_stepOut (i1 := i1) (by rw [hs]; rfl)]
    exact (absorb_tbRuns _ _ _ ha).append (ih rfl)

/-! ### `Parser::finish` -/

theorem finish_text {o : TOpts} {m : Mach} {j jf : JState} {Dp : Out} {m1 : Mach} {inp : H5V.Model.HtmlTok.Str}
    {j1 : JState} {D2 : Out} {m2 : Mach} {j2 : JState} {m3 : Mach} {j3 : JState}
    (d : FinishData o m j jf Dp m1 inp j1 D2 m2 j2 m3 j3) (hm : m.out = []) (hcr0 : CrInv m)
    (hJ : j.tb.mode = .text → TextSt m) (hti : TI j.tb) (hg : GoodS j.tb) :
    TextAlong j.tb (convAll (m3.out ++ (D2 ++ Dp)).reverse) := by
  -- the flush of a pending character reference
  have hpro : TextAlong j.tb (convAll Dp.reverse) ∧ m1.out = [] ∧ (j1.tb.mode = .text → TextSt (m1.setAtEof true)) ∧
      TI j1.tb ∧ GoodS j1.tb ∧ TbRuns j.tb (convAll Dp.reverse) j1.tb ∧ CrInv (m1.setAtEof true) := by
    rcases d.pro with ⟨_, rfl, rfl, _, rfl⟩ | ⟨cr, ma, chars, mb, hcr, hce, hpc, rfl, rfl, hab⟩
    · exact ⟨trivial, hm, fun h => (textSt_setAtEof m1 true).mpr (hJ h), hti, hg, TbRuns.nil _,
        (crInv_setAtEof m1 true).mpr hcr0⟩
    · have hr := absorb_tbRuns _ _ _ hab
      obtain ⟨h3, h4⟩ := hr.inv hti hg
      obtain ⟨new, hnew, hk, hst, htk⟩ := crEof_processCharRef_out o m cr ma inp chars mb .cont hce hpc
      rw [hm, List.append_nil] at hnew
      have hcrb : CrInv ((clr mb).setAtEof true) := by
        apply crInv_of_none
        show mb.charRef = none
        have := H5V.Model.HtmlTok.processCharRef_charRef (ma.setCharRef none) chars
        rw [hpc] at this
        exact this
      have hnt : ∀ p ∈ mb.out.reverse, isTagTok p.1 = false := by
        intro p hp
        have := hk p (by rw [← hnew]; exact List.mem_reverse.mp hp)
        rcases this with ⟨x, e⟩ | ⟨e', e⟩ | e <;> rw [e] <;> rfl
      by_cases hmode : j.tb.mode = .text
      · obtain ⟨new', hnew', hal, _, hts1, hts2⟩ :=
          crEof_processCharRef_textSt o m (hJ hmode) cr ma inp chars mb .cont hcr hce hpc
        rw [hm, List.append_nil] at hnew'
        obtain ⟨g1, _⟩ := absorb_plain _ j j1 hab hti hg hnt
          (Or.inr (fun p hp => Or.inl (hal p (by rw [← hnew']; exact List.mem_reverse.mp hp))))
        exact ⟨g1, rfl, fun _ => hts2, h3, h4, hr, hcrb⟩
      · obtain ⟨g1, g2⟩ := absorb_plain _ j j1 hab hti hg hnt (Or.inl hmode)
        exact ⟨g1, rfl, fun h => absurd h (g2 hmode), h3, h4, hr, hcrb⟩
  obtain ⟨p1, p2, p3, p4, p5, p6, p7⟩ := hpro
  -- the final run
  obtain ⟨r1, r2, r3, r4, r5, _⟩ := jruns_text d.run (by show m1.out = []; exact p2) p7 p3 p4 p5
  -- `eof_step`
  have hm2 : m2.out = [] := (d.hist (j0 := j) hm [] rfl).2.2.2.1
  have heof : TextAlong j2.tb (convAll m3.out.reverse) := by
    obtain ⟨new, hnew, hnt⟩ := eofLoop_no_tag o 8 m2 m3 d.eof
    rw [hm2, List.append_nil] at hnew
    have hH : j2.tb.mode ≠ .text ∨ ∀ p ∈ m3.out.reverse, AllowedInText p.1 ∨ p.1 = .eof := by
      by_cases hmode : j2.tb.mode = .text
      · obtain ⟨new', hnew', hal⟩ := eofLoop_textSt o 8 m2 m3 (r2 hmode) d.eof
        rw [hm2, List.append_nil] at hnew'
        exact Or.inr (fun p hp => hal p (by rw [← hnew']; exact List.mem_reverse.mp hp))
      · exact Or.inl hmode
    exact (absorb_plain _ j2 j3 d.abs r3 r4 (fun p hp => hnt p (by rw [← hnew]; exact List.mem_reverse.mp hp)) hH).1
  rw [List.reverse_append, List.reverse_append, convAll_append, convAll_append]
  refine textAlong_append _ _ _ (textAlong_append _ _ _ p1 (fun s' hs' => ?_)) (fun s' hs' => ?_)
  · rw [hs'.det p6]; exact r1
  · rw [hs'.det (p6.append r5)]; exact heof

/-! ### the whole parse -/

/-- **the "text" insertion mode protocol holds along every successful joint parse** -/
theorem parse_hist_text {o : TOpts} {N : Nat} {m0 : Mach} {j0 : JState} {s : H5V.Model.HtmlTok.Str} {jf : JState}
    (hs : H5V.Props.C03.Start m0) (hcr0 : CrInv m0) (h : H5V.Props.C03.parseChunks o N m0 j0 [s] = .ok jf)
    (hti : TI j0.tb) (hg : GoodS j0.tb) (hmode : j0.tb.mode ≠ .text) :
    ∃ Hf j3, ParseHist o m0 j0 s jf Hf j3 ∧ TextAlong j0.tb (convAll Hf.reverse) := by
  obtain ⟨m1, j1, D1, Dp, mx, inp, jx, D2, m2, j2, m3, j3, hfeedJ, d, ph⟩ := parse_hist' hs h
  refine ⟨_, _, ph, ?_⟩
  have hm0 : m0.out = [] := hs.out
  -- `Parser::process`
  have hcrm0 : CrInv m0 := by
    -- a fresh tokenizer has no pending character reference (`Start` = `TInv` + …; we only need `charRef`)
    exact hcr0
  have hfeed : TextAlong j0.tb (convAll D1.reverse) ∧ m1.out = [] ∧ (j1.tb.mode = .text → TextSt m1) ∧ TI j1.tb ∧
      GoodS j1.tb ∧ TbRuns j0.tb (convAll D1.reverse) j1.tb ∧ CrInv m1 := by
    rcases hfeedJ with ⟨_, rfl, rfl, rfl⟩ | ⟨hne, hr⟩
    · exact ⟨trivial, hm0, fun h => absurd h hmode, hti, hg, TbRuns.nil _, hcrm0⟩
    · have hb : (H5V.Model.HtmlTok.feedBom m0 s).1.out = [] := by
        rcases H5V.Props.C03.feedBom_fst m0 s with e | e <;> rw [e] <;> exact hm0
      have hcb : CrInv (H5V.Model.HtmlTok.feedBom m0 s).1 := by
        rcases H5V.Props.C03.feedBom_fst m0 s with e | e <;> rw [e] <;> exact hcrm0
      obtain ⟨a1, a2, a3, a4, a5, a6⟩ := jruns_text hr hb hcb (fun h => absurd h hmode) hti hg
      exact ⟨a1, (jruns_star (j0 := j0) hr hb [] rfl).2.1, a2, a3, a4, a5, a6⟩
  obtain ⟨f1, f2, f3, f4, f5, f6, f7⟩ := hfeed
  have hfin := finish_text d f2 f7 f3 f4 f5
  have e : (m3.out ++ (D2 ++ (Dp ++ D1))).reverse = D1.reverse ++ (m3.out ++ (D2 ++ Dp)).reverse := by
    simp [List.reverse_append, List.append_assoc]
  rw [e, convAll_append]
  refine textAlong_append _ _ _ f1 (fun s' hs' => ?_)
  rw [hs'.det f6]
  exact hfin

end H5V.Lemmas.ParseSpec
