import H5V.Lemmas.BQBytes
import H5V.Spec.MetaExtract
/-!
Helpers for `H5V.Props.C19Decodes`: the slice the WHATWG "extract a character encoding from a meta
element" algorithm (`H5V.Spec.MetaExtract.extract`) returns from the UTF-8 bytes of a character list is
the UTF-8 of a run of those characters, hence valid UTF-8.

* byte level (any byte string): `extract_cut` — the result is a contiguous slice, the byte before it
  is ASCII, after it comes the end of the input or an ASCII byte;
* character level: `encBuf_split_ascii` — an ASCII byte of a UTF-8 string is a character of its own,
  so a cut next to it is a character boundary; `extract_encBuf` (both together);
* `ByteArray`: `byteArray_toList`, `toByteArray_eq_mk`, `fromUTF8?_encBuf`.

`encBuf b = b.flatMap String.utf8EncodeChar` is `H5V.Lemmas.BQBytes.encBuf`.
-/
namespace H5V.Lemmas.MetaDecodes
open H5V.Lemmas.BQBytes H5V.Spec.MetaExtract

/-! ## `ByteArray` ↔ `List UInt8` -/

theorem toList_loop (bs : ByteArray) (i : Nat) (r : List UInt8) :
    ByteArray.toList.loop bs i r = r.reverse ++ bs.data.toList.drop i := by
  fun_induction ByteArray.toList.loop bs i r with
  | case1 i r h ih =>
    rw [ih]
    have hi : i < bs.data.size := h
    have : bs.get! i = bs.data[i] := by
      simp only [ByteArray.get!]
      exact getElem!_pos bs.data i hi
    rw [this, List.reverse_cons, List.append_assoc]
    congr 1
    rw [List.singleton_append]
    exact (List.drop_eq_getElem_cons (by simpa using hi)).symm
  | case2 i r h =>
    have hi : bs.data.size ≤ i := Nat.le_of_not_lt h
    rw [List.drop_of_length_le (by simpa using hi), List.append_nil]

theorem byteArray_toList (bs : ByteArray) : bs.toList = bs.data.toList := by
  simp [ByteArray.toList, toList_loop]

theorem toByteArray_eq_mk (l : List UInt8) : l.toByteArray = ByteArray.mk l.toArray := by
  have h := List.toList_data_toByteArray (l := l)
  cases hb : l.toByteArray with
  | mk d =>
    rw [hb] at h
    simp only at h
    subst h
    rfl


/-! ## byte level: where the extraction cuts -/

/-- `t` is a suffix of `s` that starts right after an ASCII byte -/
def Cut (s t : List UInt8) : Prop := ∃ pre b, s = pre ++ b :: t ∧ b.toNat < 128

theorem Cut.trans {s t u : List UInt8} (h1 : Cut s t) (h2 : Cut t u) : Cut s u := by
  obtain ⟨p1, b1, rfl, _⟩ := h1
  obtain ⟨p2, b2, rfl, hb⟩ := h2
  exact ⟨p1 ++ b1 :: p2, b2, by simp, hb⟩

theorem Cut.cons {s t : List UInt8} {b : UInt8} (h : Cut s (b :: t)) (hb : b.toNat < 128) : Cut s t := by
  obtain ⟨p, b0, rfl, _⟩ := h
  exact ⟨p ++ [b0], b, by simp, hb⟩

theorem isWs_ascii {b : UInt8} (h : isWs b = true) : b.toNat < 128 := by
  simp only [isWs, Bool.or_eq_true, beq_iff_eq] at h
  rcases h with (((rfl | rfl) | rfl) | rfl) | rfl <;> decide

theorem toLower_ascii {b : UInt8} (h : (toLower b).toNat < 128) : b.toNat < 128 := by
  unfold toLower at h
  split at h
  · omega
  · exact h

theorem startsWith_split {s : List UInt8} (h : startsWithCharset s = true) :
    ∃ pre b, s = pre ++ b :: s.drop 7 ∧ b.toNat < 128 := by
  simp only [startsWithCharset, beq_iff_eq] at h
  match s, h with
  | b0 :: b1 :: b2 :: b3 :: b4 :: b5 :: b6 :: tl, h =>
    refine ⟨[b0, b1, b2, b3, b4, b5], b6, rfl, ?_⟩
    simp only [word, List.take_succ_cons, List.take_zero, List.map_cons,
      List.map_nil, List.cons.injEq, and_true] at h
    apply toLower_ascii
    rw [h.2.2.2.2.2.2]; decide
  | [], h | [_], h | [_, _], h | [_, _, _], h | [_, _, _, _], h | [_, _, _, _, _], h
  | [_, _, _, _, _, _], h => simp [word] at h

theorem findCharset_cut {s after : List UInt8} (h : findCharset s = some after) : Cut s after := by
  induction s with
  | nil => simp [findCharset] at h
  | cons b tl ih =>
    simp only [findCharset] at h
    split at h
    · rename_i hs
      cases h
      exact startsWith_split hs
    · obtain ⟨p, b1, e, hb⟩ := ih h
      exact ⟨b :: p, b1, by rw [e]; rfl, hb⟩

theorem Cut.skipWs {s : List UInt8} : ∀ {t : List UInt8}, Cut s t → Cut s (skipWs t)
  | [], h => h
  | b :: t, h => by
    unfold H5V.Spec.MetaExtract.skipWs
    rw [List.dropWhile_cons]
    split
    · rename_i hb
      exact Cut.skipWs (h.cons (isWs_ascii hb))
    · exact h

theorem afterEquals_cut : ∀ (n : Nat) (s rest : List UInt8), s.length ≤ n → afterEquals s = some rest → Cut s rest
  | 0, s, rest, hn, h => by
    have : s = [] := List.eq_nil_of_length_eq_zero (by omega)
    subst this
    rw [afterEquals] at h
    split at h
    · cases h
    · rename_i h1; simp [findCharset] at h1
  | n + 1, s, rest, hn, h => by
    rw [afterEquals] at h
    split at h
    · cases h
    · rename_i after hf
      have hc := (findCharset_cut hf).skipWs
      have hl := findCharset_length hf
      have hl2 := skipWs_length after
      split at h
      · rename_i r he
        cases h
        rw [he] at hc
        exact hc.cons (by decide)
      · exact hc.trans (afterEquals_cut n _ rest (by omega) h)

/-- a list is what `takeWhile` keeps, followed by nothing or by a byte that fails the test -/
theorem takeWhile_split (p : UInt8 → Bool) : ∀ (l : List UInt8),
    ∃ post, l = l.takeWhile p ++ post ∧ (post = [] ∨ ∃ b q, post = b :: q ∧ p b = false)
  | [] => ⟨[], rfl, Or.inl rfl⟩
  | x :: xs => by
    rw [List.takeWhile_cons]
    by_cases hx : p x = true
    · obtain ⟨post, e, hp⟩ := takeWhile_split p xs
      refine ⟨post, ?_, hp⟩
      simp only [hx, if_true, List.cons_append]
      rw [← e]
    · have hx' : p x = false := by simpa using hx
      exact ⟨x :: xs, by simp [hx'], Or.inr ⟨x, xs, rfl, hx'⟩⟩

/-- **where the extraction cuts** (any byte string): the result is a contiguous slice of the input;
the byte before it is ASCII; after it comes the end of the input or an ASCII byte -/
theorem extract_cut {s r : List UInt8} (h : extract s = some r) :
    ∃ pre b0 post, s = pre ++ b0 :: (r ++ post) ∧ b0.toNat < 128 ∧
      (post = [] ∨ ∃ b q, post = b :: q ∧ b.toNat < 128) := by
  unfold extract at h
  cases ha : afterEquals s with
  | none => rw [ha] at h; cases h
  | some rest =>
    rw [ha] at h
    simp only [Option.bind_some] at h
    have hc := (afterEquals_cut _ s rest (Nat.le_refl _) ha).skipWs
    unfold value at h
    split at h
    · cases h
    · rename_i q tl he
      rw [he] at hc
      split at h
      · rename_i hq
        have hqa : q.toNat < 128 := by
          simp only [Bool.or_eq_true, beq_iff_eq] at hq
          rcases hq with rfl | rfl <;> decide
        split at h
        · rename_i hcont
          cases h
          obtain ⟨pre, b0, e, hb0⟩ := hc.cons hqa
          obtain ⟨post, e2, hp⟩ := takeWhile_split (fun b => b != q) tl
          refine ⟨pre, b0, post, by rw [← e2]; exact e, hb0, ?_⟩
          rcases hp with rfl | ⟨b, q', rfl, hb⟩
          · exact Or.inl rfl
          · refine Or.inr ⟨b, q', rfl, ?_⟩
            have : b = q := by simpa using hb
            rw [this]; exact hqa
        · cases h
      · cases h
        obtain ⟨pre, b0, e, hb0⟩ := hc
        obtain ⟨post, e2, hp⟩ := takeWhile_split (fun b => !(isWs b || b == 0x3B)) (q :: tl)
        refine ⟨pre, b0, post, by rw [← e2]; exact e, hb0, ?_⟩
        rcases hp with rfl | ⟨b, q', rfl, hb⟩
        · exact Or.inl rfl
        · refine Or.inr ⟨b, q', rfl, ?_⟩
          simp only [Bool.not_eq_false', Bool.or_eq_true, beq_iff_eq] at hb
          rcases hb with hb | rfl
          · exact isWs_ascii hb
          · decide


/-! ## character level: an ASCII byte of a UTF-8 string is a character of its own -/

theorem encBuf_nil : encBuf [] = [] := rfl

theorem encBuf_cons (c : Char) (cs : List Char) : encBuf (c :: cs) = String.utf8EncodeChar c ++ encBuf cs := by
  simp [encBuf]

theorem encBuf_append (a b : List Char) : encBuf (a ++ b) = encBuf a ++ encBuf b := by
  simp [encBuf]

/-- **an ASCII byte is never inside a multi-byte sequence**: if the UTF-8 bytes of `cs` have an ASCII
byte `b` somewhere, the bytes before it, the byte itself and the bytes after it are the encodings of
three consecutive pieces of `cs` -/
theorem encBuf_split_ascii : ∀ (cs : List Char) (pre : List UInt8) {b : UInt8} {post : List UInt8},
    encBuf cs = pre ++ b :: post → b.toNat < 128 →
    ∃ a ch c, cs = a ++ ch :: c ∧ pre = encBuf a ∧ String.utf8EncodeChar ch = [b] ∧ post = encBuf c
  | [], pre, b, post, h, _ => by simp [encBuf] at h
  | ch :: rest, pre, b, post, h, hb => by
    rw [encBuf_cons] at h
    by_cases hc : ch.val.toNat < 128
    · rw [enc_ascii hc] at h
      cases pre with
      | nil =>
        simp only [List.nil_append, List.cons_append, List.cons.injEq] at h
        exact ⟨[], ch, rest, rfl, rfl, by rw [enc_ascii hc, h.1], h.2.symm⟩
      | cons p pre' =>
        simp only [List.cons_append, List.nil_append, List.cons.injEq] at h
        obtain ⟨a, ch', c, e1, e2, e3, e4⟩ := encBuf_split_ascii rest pre' h.2 hb
        refine ⟨ch :: a, ch', c, by rw [e1]; rfl, ?_, e3, e4⟩
        rw [encBuf_cons, enc_ascii hc, e2, h.1]; rfl
    · have hge : 128 ≤ ch.val.toNat := Nat.le_of_not_lt hc
      have hall := enc_nonascii_bytes hge
      rcases List.append_eq_append_iff.mp h with ⟨m, e1, e2⟩ | ⟨m, e1, e2⟩
      · obtain ⟨a, ch', c, f1, f2, f3, f4⟩ := encBuf_split_ascii rest m e2 hb
        refine ⟨ch :: a, ch', c, by rw [f1]; rfl, ?_, f3, f4⟩
        rw [encBuf_cons, e1, f2]
      · cases m with
        | nil =>
          simp only [List.append_nil, List.nil_append] at e1 e2
          obtain ⟨a, ch', c, f1, f2, f3, f4⟩ := encBuf_split_ascii rest [] (b := b) (post := post) e2.symm hb
          refine ⟨ch :: a, ch', c, by rw [f1]; rfl, ?_, f3, f4⟩
          rw [encBuf_cons, e1, ← f2, List.append_nil]
        | cons x m' =>
          simp only [List.cons_append, List.cons.injEq] at e2
          have : 128 ≤ b.toNat := hall b (by rw [e1, e2.1]; simp)
          omega

/-- cut after an ASCII byte: both sides are encodings -/
theorem encBuf_cut_after {cs : List Char} {pre : List UInt8} {b : UInt8} {t : List UInt8}
    (h : encBuf cs = pre ++ b :: t) (hb : b.toNat < 128) :
    ∃ a c, cs = a ++ c ∧ pre ++ [b] = encBuf a ∧ t = encBuf c := by
  obtain ⟨a, ch, c, e1, e2, e3, e4⟩ := encBuf_split_ascii cs pre h hb
  refine ⟨a ++ [ch], c, by rw [e1]; simp, ?_, e4⟩
  rw [encBuf_append, e2]
  simp [encBuf, e3]

/-- cut before the end or before an ASCII byte: both sides are encodings -/
theorem encBuf_cut_before {cs : List Char} {r post : List UInt8} (h : encBuf cs = r ++ post)
    (hp : post = [] ∨ ∃ b q, post = b :: q ∧ b.toNat < 128) :
    ∃ a c, cs = a ++ c ∧ r = encBuf a ∧ post = encBuf c := by
  rcases hp with rfl | ⟨b, q, rfl, hb⟩
  · exact ⟨cs, [], by simp, by simpa using h.symm, rfl⟩
  · obtain ⟨a, ch, c, e1, e2, e3, e4⟩ := encBuf_split_ascii cs r h hb
    refine ⟨a, ch :: c, e1, e2, ?_⟩
    rw [encBuf_cons, e3, e4]; rfl

/-- a character whose encoding is one ASCII byte is an ASCII character -/
theorem ascii_of_enc {ch : Char} {b : UInt8} (h : String.utf8EncodeChar ch = [b]) : ch.val.toNat < 128 := by
  by_cases hc : ch.val.toNat < 128
  · exact hc
  · obtain ⟨b0, b1, rest, e, _, _⟩ := enc_nonascii (Nat.le_of_not_lt hc)
    rw [e] at h; simp at h

/-- **the extracted slice of a UTF-8 string is the UTF-8 of a run of its characters** (item 1): if the
WHATWG extraction, run on the UTF-8 bytes of `content`, returns the bytes `r`, then
`content = a ++ d :: (b ++ c)` with `r` = the UTF-8 bytes of `b`; the character `d` before the label
is ASCII (`=`, a quote or ASCII whitespace), and the label is followed by the end of the string or by
an ASCII character (the matching quote, whitespace, `;`).  The byte-level cut of `extract_cut` is this
one: `encBuf content = encBuf a ++ enc d ++ r ++ encBuf c`. -/
theorem extract_encBuf {content : List Char} {r : List UInt8} (h : extract (encBuf content) = some r) :
    ∃ a d b c, content = a ++ d :: (b ++ c) ∧ r = encBuf b ∧ d.val.toNat < 128 ∧
      (c = [] ∨ ∃ e c', c = e :: c' ∧ e.val.toNat < 128) := by
  obtain ⟨pre, b0, post, e, hb0, hp⟩ := extract_cut h
  obtain ⟨a, d, t, e1, _, e3, e4⟩ := encBuf_split_ascii content pre e hb0
  obtain ⟨b, c, f1, f2, f3⟩ := encBuf_cut_before e4.symm hp
  refine ⟨a, d, b, c, by rw [e1, f1], f2, ascii_of_enc e3, ?_⟩
  rcases hp with rfl | ⟨x, q, rfl, hx⟩
  · exact Or.inl (encBuf_eq_nil.mp f3.symm)
  · obtain ⟨a', ch, c', g1, g2, g3, _⟩ := encBuf_split_ascii c [] (b := x) (post := q) f3.symm hx
    have : a' = [] := encBuf_eq_nil.mp g2.symm
    subst this
    exact Or.inr ⟨ch, c', g1, ascii_of_enc g3⟩

/-! ## validity -/

/-- the bytes of a character list, packed the way the model packs a slice, are valid UTF-8 -/
theorem isValidUTF8_encBuf (b : List Char) : (ByteArray.mk (encBuf b).toArray).IsValidUTF8 := by
  rw [← toByteArray_eq_mk, encBuf_toByteArray]
  exact ByteArray.isValidUTF8_utf8Encode

/-- … and read back by `String.fromUTF8?` as that character list -/
theorem fromUTF8?_encBuf (b : List Char) :
    String.fromUTF8? (ByteArray.mk (encBuf b).toArray) = some (String.ofList b) := by
  have hv := isValidUTF8_encBuf b
  simp only [String.fromUTF8?, hv, dite_true, Option.some.injEq]
  apply String.toByteArray_inj.mp
  rw [String.toByteArray_ofList, ← encBuf_toByteArray, toByteArray_eq_mk]
  rfl

end H5V.Lemmas.MetaDecodes
