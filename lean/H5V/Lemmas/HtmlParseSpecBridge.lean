import H5V.Props.C02Modes
import H5V.Props.C03Tree
/-!
Capstone (model of the whole parser = WHATWG pipeline), part: **the tree builder and the specification in
lock-step along a token list**.

`C02_model_eq_spec_modes` compares the two ends of a run.  The coupling of the tokenizer with the tree
construction stage needs more: the answers of the two sides after EVERY prefix of the token stream, for one and
the same supply of node identities.  `Lock cfg fuel s x toks s' x'` is that statement: the model goes from `s`
to `s'` over `toks`, token by token, and after each token the specification (`processTokenDev`, i.e.
`Spec.TreeModes.processToken` with the asserted-impossible case of "in cell" defined) is in the abstract state
`absF sᵢ xᵢ` of the model's state.  `lock_of_run` produces it from the per-token theorem `pc_processToken` of
`H5V.Lemmas.HtmlTBModes` (the induction of `pc_processTokens`, keeping the intermediate states).
-/
namespace H5V.Lemmas.ParseSpec
open H5V.Model.HtmlTB
open H5V.Model.Dom (Id SinkOp Output Dom QualName Attr NodeOrText ElementFlags NodeData QuirksMode)
open H5V.Lemmas.HtmlTBAlgo
open H5V.Lemmas.HtmlTBModes
open H5V.Lemmas.TBSafe (TI HInv SInv)
open H5V.Spec.TreeModes (STok ETok IMode Config Out TokSwitch XOp Op Step Edition)

/-- one token: the model's `process_token` from `s` to `s1` with answer `r`, and the specification from
`absF s x` to `absF s1 x1` -/
structure TokStep (cfg : Config Id) (fuel : Nat) (s : State) (x : Aux) (t : TokToken) (line : Nat)
    (r : SinkResult) (s1 : State) (x1 : Aux) : Prop where
  run : (processToken t line).run s = .ok (r, s1)
  ti : TI s1
  minv : MInv s1
  cfg1 : cfgOf s1 = cfgOf s
  ext : TBSafe.Ext s.dom s1.dom
  aux : x1.stopped = false → AuxOk s1 x1
  stop : x1.stopped = true → t = .eof
  log : ∃ ops calls, Ext2 s calls s1 ∧ x1.fullLog = x.fullLog ++ ops ∧
    ∀ tc, TcOk s1.dom tc → flatCalls (edits2 calls) = flatCalls (ops.map (opCall tc))
  spec : (specTokOf t = none ∧ r = .continue_ ∧ absF s1 x1 = absF s x ∧ x1.outs = x.outs) ∨
    (∃ st o, specTokOf t = some st ∧ x1.outs = x.outs ++ [o] ∧ OutRelR r {} o ∧
      processTokenDev cfg fuel (absF s x) st = .ok (absF s1 x1) ∧
      -- the UNMODIFIED specification, from a state that satisfies the invariant of its run
      (H5V.Lemmas.ModesInv.Inv (absF s x) → H5V.Lemmas.ModesInv.Inv (absF s1 x1) ∧
        Spec.TreeModes.processToken cfg fuel (absF s x) st = .ok (absF s1 x1)))

inductive Lock (cfg : Config Id) (fuel : Nat) : State → Aux → List (TokToken × Nat) → State → Aux → Prop
  | nil (s : State) (x : Aux) : Lock cfg fuel s x [] s x
  | cons {s : State} {x : Aux} {t : TokToken} {line : Nat} {r : SinkResult} {s1 : State} {x1 : Aux}
      {rest : List (TokToken × Nat)} {s' : State} {x' : Aux} :
      TokStep cfg fuel s x t line r s1 x1 → Lock cfg fuel s1 x1 rest s' x' →
      Lock cfg fuel s x ((t, line) :: rest) s' x'

theorem processTokens_cons_ok {t : TokToken} {line : Nat} {rest : List (TokToken × Nat)} {acc res : List SinkResult}
    {s s' : State} (h : (processTokens ((t, line) :: rest) acc).run s = .ok (res, s')) :
    ∃ r s1, (processToken t line).run s = .ok (r, s1) ∧
      (processTokens rest (if r == .continue_ then acc else r :: acc)).run s1 = .ok (res, s') := by
  have h' : (processToken t line >>= fun r => processTokens rest (if r == .continue_ then acc else r :: acc)) s
      = .ok (res, s') := h
  rw [H5V.Lemmas.TBSplit.bind_apply] at h'
  cases hp : processToken t line s with
  | error e => rw [hp] at h'; cases h'
  | ok v =>
    obtain ⟨r, s1⟩ := v
    rw [hp] at h'
    exact ⟨r, s1, hp, h'⟩

/-- **the lock-step run**: for a protocol-abiding token list and a successful run of the model, ONE supply of
node identities `ids` works for the whole list, and with any sufficient fuel the specification follows the
model token by token (`XInv`: the abstract states of the start state satisfy the invariant of the specification's
run, under which the Assert of "in cell" cannot fail) -/
theorem lock_of_run : ∀ (toks : List (TokToken × Nat)) (acc : List SinkResult) (s : State), TI s → MInv s → XInv s →
    Respects2 s toks → ∀ {res : List SinkResult} {s' : State}, (processTokens toks acc).run s = .ok (res, s') →
    ∃ ids, ∀ x rest, AuxOk s x → x.supply = ids ++ rest →
      ∃ x' F, x'.supply = rest ∧ ∀ fuel, F ≤ fuel → Lock (cfgOf s) fuel s x toks s' x' := by
  intro toks
  induction toks with
  | nil =>
    intro acc s _ _ _ _ res s' hrun
    have : s' = s := by
      have h : (pure acc : M (List SinkResult)) s = .ok (res, s') := hrun
      cases h; rfl
    subst this
    exact ⟨[], fun x rest _ hs => ⟨x, 0, by simpa using hs, fun _ _ => Lock.nil s' x⟩⟩
  | cons tk rest ih =>
    intro acc s ht hm hinv hresp res s' hrun
    obtain ⟨t, line⟩ := tk
    obtain ⟨hok, heof, hnext⟩ := hresp
    obtain ⟨r, s1, hr1, hr2⟩ := processTokens_cons_ok hrun
    have ht1 : TI s1 :=
      (@H5V.Props.C04TB.C04_tb_no_panic_token H5V.Props.C04TB.allowAll trivial s t line ht
        (fun _ => Or.inl trivial)).1 r s1 hr1
    obtain ⟨calls, he1, hm1, hc1, hext1, ids1, f1⟩ :=
      pc_processToken H5V.Props.C02.C02_all_modes H5V.Props.C02.C02_all_modes_chars H5V.Props.C02.C02_foreign
        foreignCharSim doctypeInitialSim t line s ht hm hok (acnHtml_of_xinv ht hm hinv) r s1 hr1
    -- the per-token facts, for any auxiliary state
    have step1 : ∀ x rst, AuxOk s x → x.supply = ids1 ++ rst →
        ∃ x1 F, x1.supply = rst ∧ ∀ fuel, F ≤ fuel → TokStep (cfgOf s) fuel s x t line r s1 x1 := by
      intro x rst hx hs
      obtain ⟨x1, hx1, hs1, ⟨ops1, e1, k1⟩, hst1, hsp⟩ := f1 x rst hx hs
      cases hsp0 : specTokOf t with
      | none =>
        rw [hsp0] at hsp
        exact ⟨x1, 0, hs1, fun fuel _ => ⟨hr1, ht1, hm1, hc1, hext1, hx1, hst1, ⟨ops1, calls, he1, e1, k1⟩,
          Or.inl ⟨hsp0, hsp.1, hsp.2.1, hsp.2.2⟩⟩⟩
      | some st =>
        rw [hsp0] at hsp
        obtain ⟨o, ho, hrel, ⟨F, hF⟩, hstd⟩ := hsp
        obtain ⟨_, F', hF'⟩ := hstd (hinv x hx)
        refine ⟨x1, max F F', hs1, fun fuel hfu => ⟨hr1, ht1, hm1, hc1, hext1, hx1, hst1, ⟨ops1, calls, he1, e1, k1⟩,
          Or.inr ⟨st, o, hsp0, ho, hrel, hF fuel (by omega), fun hi => ⟨(hstd hi).1, hF' fuel (by omega)⟩⟩⟩⟩
    by_cases hte : t = .eof
    · have hrest := heof hte
      subst hrest
      have : s' = s1 := by
        have h : (pure (if r == .continue_ then acc else r :: acc) : M (List SinkResult)) s1 = .ok (res, s') := hr2
        cases h; rfl
      subst this
      refine ⟨ids1, fun x rst hx hs => ?_⟩
      obtain ⟨x1, F, hs1, hF⟩ := step1 x rst hx hs
      exact ⟨x1, F, hs1, fun fuel hfu => Lock.cons (hF fuel hfu) (Lock.nil _ _)⟩
    · -- the invariant of the specification's run at the state between the two tokens
      have hinv1 : XInv s1 := by
        intro x1' hx1'
        obtain ⟨x, hx, hxs⟩ := auxOk_exists hm (ids1 ++ x1'.supply)
        obtain ⟨x1, hx1, _, _, hst1, hm1'⟩ := f1 x x1'.supply hx hxs
        have hlive : x1.stopped = false := by
          cases h : x1.stopped
          · rfl
          · exact absurd (hst1 h) hte
        have hi1 := (std_cons (rest := rest) (line := line) (σ2 := absF s1 x1) hm1' (hinv x hx)).1
        intro _
        exact good_absF_indep ht1 (hx1 hlive) hx1' (hi1 hlive)
      obtain ⟨ids2, f2⟩ := ih _ s1 ht1 hm1 hinv1 (hnext r s1 hr1) hr2
      refine ⟨ids1 ++ ids2, fun x rst hx hs => ?_⟩
      obtain ⟨x1, F1, hs1, hF1⟩ := step1 x (ids2 ++ rst) hx (by rw [hs, List.append_assoc])
      have hlive : x1.stopped = false := by
        cases h : x1.stopped
        · rfl
        · exact absurd ((hF1 F1 (Nat.le_refl _)).stop h) hte
      obtain ⟨x2, F2, hs2, hF2⟩ := f2 x1 rst ((hF1 F1 (Nat.le_refl _)).aux hlive) hs1
      refine ⟨x2, max F1 F2, hs2, fun fuel hfu => ?_⟩
      have h2 := hF2 fuel (by omega)
      rw [hc1] at h2
      exact Lock.cons (hF1 fuel (by omega)) h2

/-! ### what a `Lock` says -/

/-- split at any point of the list -/
theorem Lock.split {cfg : Config Id} {fuel : Nat} : ∀ {p q : List (TokToken × Nat)} {s : State} {x : Aux} {s' : State}
    {x' : Aux}, Lock cfg fuel s x (p ++ q) s' x' → ∃ sp xp, Lock cfg fuel s x p sp xp ∧ Lock cfg fuel sp xp q s' x'
  | [], q, s, x, s', x', h => ⟨s, x, Lock.nil s x, h⟩
  | (t, line) :: p, q, s, x, s', x', h => by
    cases h with
    | cons h1 h2 =>
      obtain ⟨sp, xp, h3, h4⟩ := Lock.split h2
      exact ⟨sp, xp, Lock.cons h1 h3, h4⟩

theorem Lock.append {cfg : Config Id} {fuel : Nat} {p q : List (TokToken × Nat)} {s : State} {x : Aux} {sp : State}
    {xp : Aux} {s' : State} {x' : Aux} (h1 : Lock cfg fuel s x p sp xp) (h2 : Lock cfg fuel sp xp q s' x') :
    Lock cfg fuel s x (p ++ q) s' x' := by
  induction h1 with
  | nil => exact h2
  | cons hs _ ih => exact Lock.cons hs (ih h2)

/-- the specification's run over the standard's tokens of the list -/
theorem Lock.runDev {cfg : Config Id} {fuel : Nat} {toks : List (TokToken × Nat)} {s : State} {x : Aux} {s' : State}
    {x' : Aux} (h : Lock cfg fuel s x toks s' x') : runDev cfg fuel (absF s x) (specToks toks) = .ok (absF s' x') := by
  induction h with
  | nil => rfl
  | @cons s x t line r s1 x1 rest s' x' hs _ ih =>
    rcases hs.spec with ⟨h0, _, ha, _⟩ | ⟨st, o, h0, _, _, hp, _⟩
    · have : specToks ((t, line) :: rest) = specToks rest := by simp [specToks, h0]
      rw [this, ← ha]; exact ih
    · have : specToks ((t, line) :: rest) = st :: specToks rest := by simp [specToks, h0]
      rw [this]
      simp only [H5V.Lemmas.HtmlTBModes.runDev]
      rw [hp]
      exact ih

/-- the model's run -/
theorem Lock.model {cfg : Config Id} {fuel : Nat} {toks : List (TokToken × Nat)} {s : State} {x : Aux} {s' : State}
    {x' : Aux} (h : Lock cfg fuel s x toks s' x') (acc : List SinkResult) :
    ∃ res, (processTokens toks acc).run s = .ok (res, s') := by
  induction h generalizing acc with
  | nil => exact ⟨acc, rfl⟩
  | @cons s x t line r s1 x1 rest s' x' hs _ ih =>
    obtain ⟨res, hres⟩ := ih (if r == .continue_ then acc else r :: acc)
    refine ⟨res, ?_⟩
    show (processToken t line >>= fun r => processTokens rest (if r == .continue_ then acc else r :: acc)) s = _
    rw [H5V.Lemmas.TBSplit.bind_apply]
    have : processToken t line s = .ok (r, s1) := hs.run
    rw [this]
    exact hres

/-- the invariants at the end -/
theorem Lock.inv {cfg : Config Id} {fuel : Nat} {toks : List (TokToken × Nat)} {s : State} {x : Aux} {s' : State}
    {x' : Aux} (h : Lock cfg fuel s x toks s' x') (ht : TI s) (hm : MInv s) :
    TI s' ∧ MInv s' ∧ cfgOf s' = cfgOf s ∧ TBSafe.Ext s.dom s'.dom := by
  induction h with
  | nil => exact ⟨ht, hm, rfl, TBSafe.Ext.refl _⟩
  | cons hs _ ih =>
    obtain ⟨a, b, c, d⟩ := ih hs.ti hs.minv
    exact ⟨a, b, c.trans hs.cfg1, hs.ext.trans d⟩

/-- the auxiliary state at the end is live unless the list ends with the end-of-file token -/
theorem Lock.aux {cfg : Config Id} {fuel : Nat} {toks : List (TokToken × Nat)} {s : State} {x : Aux} {s' : State}
    {x' : Aux} (h : Lock cfg fuel s x toks s' x') (hx : AuxOk s x) (hne : ∀ p ∈ toks, p.1 ≠ .eof) : AuxOk s' x' := by
  induction h with
  | nil => exact hx
  | @cons s x t line r s1 x1 rest s' x' hs _ ih =>
    have hlive : x1.stopped = false := by
      cases h : x1.stopped
      · rfl
      · exact absurd (hs.stop h) (hne (t, line) (by simp))
    exact ih (hs.aux hlive) (fun p hp => hne p (by simp [hp]))

/-- the two logs over the whole list -/
theorem Lock.log {cfg : Config Id} {fuel : Nat} {toks : List (TokToken × Nat)} {s : State} {x : Aux} {s' : State}
    {x' : Aux} (h : Lock cfg fuel s x toks s' x') :
    ∃ ops calls, Ext2 s calls s' ∧ x'.fullLog = x.fullLog ++ ops ∧
      ∀ tc, TcOk s'.dom tc → flatCalls (edits2 calls) = flatCalls (ops.map (opCall tc)) := by
  induction h with
  | nil => exact ⟨[], [], Ext2.refl _, by simp, fun _ _ => rfl⟩
  | @cons s x t line r s1 x1 rest s' x' hs hl ih =>
    obtain ⟨ops1, c1, he1, e1, k1⟩ := hs.log
    obtain ⟨ops2, c2, he2, e2, k2⟩ := ih
    refine ⟨ops1 ++ ops2, c1 ++ c2, he1.trans he2, by rw [e2, e1, List.append_assoc], fun tc htc => ?_⟩
    have hext : TBSafe.Ext s1.dom s'.dom := replay_ext he2.replay
    rw [edits2_append, flatCalls_append, List.map_append, flatCalls_append, k1 tc (tcOk_of_ext htc hext), k2 tc htc]

/-- the answers: the last token of a non-empty list that is a token of the standard -/
theorem Lock.last {cfg : Config Id} {fuel : Nat} {p : List (TokToken × Nat)} {t : TokToken} {line : Nat} {s : State}
    {x : Aux} {s' : State} {x' : Aux} (h : Lock cfg fuel s x (p ++ [(t, line)]) s' x') :
    ∃ sp xp r, Lock cfg fuel s x p sp xp ∧ TokStep cfg fuel sp xp t line r s' x' := by
  obtain ⟨sp, xp, h1, h2⟩ := Lock.split h
  cases h2 with
  | cons hs hn =>
    cases hn
    exact ⟨sp, xp, _, h1, hs⟩

/-- the domain of C03's simulation relation is preserved along the run -/
theorem Lock.good {cfg : Config Id} {fuel : Nat} {toks : List (TokToken × Nat)} {s : State} {x : Aux} {s' : State}
    {x' : Aux} (h : Lock cfg fuel s x toks s' x') (hg : H5V.Props.C03.GoodS s) : H5V.Props.C03.GoodS s' := by
  induction h with
  | nil => exact hg
  | cons hs _ ih => exact ih (H5V.Props.C03.C03_tb_good_preserved _ _ _ hg hs.run)

/-- the end-of-file token only comes last -/
theorem Lock.noEof {cfg : Config Id} {fuel : Nat} {p : List (TokToken × Nat)} {s : State} {x : Aux} {sp : State}
    {xp : Aux} (h : Lock cfg fuel s x p sp xp) {q : List (TokToken × Nat)} (hq : q ≠ [])
    (hresp : Respects2 s (p ++ q)) : ∀ t ∈ p, t.1 ≠ .eof := by
  induction h with
  | nil => intro t ht; cases ht
  | @cons s x t line r s1 x1 rest s' x' hs _ ih =>
    obtain ⟨_, heof, hnext⟩ := hresp
    intro t' ht'
    rcases List.mem_cons.mp ht' with e | e
    · subst e
      intro he
      have := heof he
      cases rest <;> simp at this
      exact hq this
    · exact ih (hnext r s1 hs.run) t' e

/-- the model's run is a function -/
theorem Lock.det {cfg : Config Id} {fuel : Nat} {toks : List (TokToken × Nat)} {s : State} {x : Aux} {s' : State}
    {x' : Aux} (h : Lock cfg fuel s x toks s' x') {acc res : List SinkResult} {s2 : State}
    (hr : (processTokens toks acc).run s = .ok (res, s2)) : s2 = s' := by
  obtain ⟨res', h'⟩ := h.model acc
  rw [h'] at hr
  cases hr
  rfl

/-- the answers to the tokenizer: the non-`Continue` answers of the model are the switches / scripts of the
specification's `outs` -/
theorem Lock.answers {cfg : Config Id} {fuel : Nat} {toks : List (TokToken × Nat)} {s : State} {x : Aux} {s' : State}
    {x' : Aux} (h : Lock cfg fuel s x toks s' x') :
    ∃ os, x'.outs = x.outs ++ os ∧ ∀ acc res s2, (processTokens toks acc).run s = .ok (res, s2) →
      res.reverse.filterMap resAnswer = acc.reverse.filterMap resAnswer ++ os.filterMap outAnswer := by
  induction h with
  | nil =>
    refine ⟨[], by simp, fun acc res s2 hr => ?_⟩
    have h : (pure acc : M (List SinkResult)) _ = .ok (res, s2) := hr
    cases h
    simp
  | @cons s x t line r s1 x1 rest s' x' hs _ ih =>
    obtain ⟨os2, ho2, hk2⟩ := ih
    have hacc : ∀ acc : List SinkResult, (if r == SinkResult.continue_ then acc else r :: acc).reverse.filterMap resAnswer
        = acc.reverse.filterMap resAnswer ++ (resAnswer r).toList := by
      intro acc
      by_cases hr : r = .continue_
      · subst hr; simp [resAnswer]
      · have : (r == SinkResult.continue_) = false := by simpa using hr
        rw [this]
        simp only [Bool.false_eq_true, if_false, List.reverse_cons, List.filterMap_append, List.filterMap_cons,
          List.filterMap_nil]
        cases resAnswer r <;> rfl
    have hrun : ∀ acc res s2, (processTokens ((t, line) :: rest) acc).run s = .ok (res, s2) →
        (processTokens rest (if r == .continue_ then acc else r :: acc)).run s1 = .ok (res, s2) := by
      intro acc res s2 h
      obtain ⟨r', s1', h1, h2⟩ := processTokens_cons_ok h
      rw [hs.run] at h1
      cases h1
      exact h2
    rcases hs.spec with ⟨_, hr, _, ho⟩ | ⟨st, o, _, ho, hrel, _, _⟩
    · refine ⟨os2, by rw [ho2, ho], fun acc res s2 h => ?_⟩
      rw [hk2 _ res s2 (hrun acc res s2 h), hacc, hr]
      simp [resAnswer]
    · refine ⟨o :: os2, by rw [ho2, ho]; simp, fun acc res s2 h => ?_⟩
      rw [hk2 _ res s2 (hrun acc res s2 h), hacc, answer_of_outRelR hrel]
      simp only [List.filterMap_cons, List.append_assoc]
      cases outAnswer o <;> rfl

/-- the UNMODIFIED specification's run over the standard's tokens of the list, from a state that satisfies the
invariant of the specification's run (under which the Assert of "in cell" cannot fail) -/
theorem Lock.runStd {cfg : Config Id} {fuel : Nat} {toks : List (TokToken × Nat)} {s : State} {x : Aux} {s' : State}
    {x' : Aux} (h : Lock cfg fuel s x toks s' x') (hi : H5V.Lemmas.ModesInv.Inv (absF s x)) :
    Spec.TreeModes.run cfg fuel (absF s x) (specToks toks) = .ok (absF s' x') ∧ H5V.Lemmas.ModesInv.Inv (absF s' x') := by
  induction h with
  | nil => exact ⟨rfl, hi⟩
  | @cons s x t line r s1 x1 rest s' x' hs _ ih =>
    rcases hs.spec with ⟨h0, _, ha, _⟩ | ⟨st, o, h0, _, _, _, hstd⟩
    · have : specToks ((t, line) :: rest) = specToks rest := by simp [specToks, h0]
      rw [this, ← ha]
      exact ih (by rw [ha]; exact hi)
    · have : specToks ((t, line) :: rest) = st :: specToks rest := by simp [specToks, h0]
      rw [this]
      obtain ⟨hi1, hp⟩ := hstd hi
      simp only [Spec.TreeModes.run]
      rw [hp]
      exact ih hi1

end H5V.Lemmas.ParseSpec
