import H5V.Model.HtmlTok
/-!
Reader lemmas for the HTML tokenizer model: every reading primitive is *monotone* in the unread
input (a completed read is unaffected by appending more input) and *resumable* (a suspended read,
re-executed after more input arrived, behaves like the read on the concatenated input).
These are the shared core of C03 / C08 / C09 (DESIGN.md 3.2.1).
-/
namespace H5V.Model.HtmlTok

/-! ### preprocess / getChar -/

theorem preprocess_mono (o : Opts) (m m' : Mach) (c c' : Char) (inp inp' e : Str)
    (h : preprocess o m c inp = (some c', m', inp')) :
    preprocess o m c (inp ++ e) = (some c', m', inp' ++ e) := by
  unfold preprocess at h ⊢
  split at h
  · split at h
    · cases inp with
      | nil => simp at h
      | cons x xs => simp_all
    · simp_all
  · simp_all

/-- a `none` from `preprocess` means: the LF after a CR was swallowed and nothing is left -/
theorem preprocess_none (o : Opts) (m m' : Mach) (c : Char) (inp inp' : Str)
    (h : preprocess o m c inp = (none, m', inp')) :
    m.ignoreLf = true ∧ c = '\n' ∧ inp = [] ∧ inp' = [] ∧ m' = m.setIgnoreLf false := by
  unfold preprocess at h
  split at h
  · split at h
    · cases inp with
      | nil => simp_all
      | cons x xs => simp at h
    · simp at h
  · simp at h

/-- resuming after `preprocess` swallowed the LF: reading `x` with the flag cleared is what the
original read would have produced had `x` been available -/
theorem preprocess_resume (o : Opts) (m : Mach) (x : Char) (rest : Str)
    (h1 : m.ignoreLf = true) :
    preprocess o m '\n' (x :: rest) = preprocess o (m.setIgnoreLf false) x rest := by
  have hf : (m.setIgnoreLf false).ignoreLf = false := rfl
  simp [preprocess, h1, hf]

theorem getChar_mono (o : Opts) (m m' : Mach) (c' : Char) (inp inp' e : Str)
    (h : getChar o m inp = (some c', m', inp')) :
    getChar o m (inp ++ e) = (some c', m', inp' ++ e) := by
  unfold getChar at h ⊢
  split
  · simp_all
  · cases inp with
    | nil => simp_all
    | cons x xs =>
      simp_all
      exact preprocess_mono o m m' x c' xs inp' e h

theorem peek_mono (m : Mach) (inp e : Str) (c : Char) (h : peek m inp = some c) :
    peek m (inp ++ e) = some c := by
  unfold peek at h ⊢
  split <;> simp_all

theorem peek_none (m : Mach) (inp : Str) (h : peek m inp = none) : m.reconsume = false ∧ inp = [] := by
  unfold peek at h
  split at h <;> simp_all

theorem discardChar_mono (m : Mach) (inp e : Str) (c : Char) (h : peek m inp = some c) :
    discardChar m (inp ++ e) = ((discardChar m inp).1, (discardChar m inp).2 ++ e) := by
  unfold discardChar
  unfold peek at h
  split <;> simp_all
  cases inp <;> simp_all

end H5V.Model.HtmlTok
