import H5V.Model.HtmlTok
import H5V.Lemmas.HtmlTokFields
/-!
Reader lemmas for the HTML tokenizer model: every reading primitive is *monotone* in the unread
input (a completed read is unaffected by appending more input) and *resumable* (a suspended read,
re-executed after more input arrived, behaves like the read on the concatenated input).
These are the shared core of C03 / C08 / C09 (DESIGN.md 3.2.1).
-/
namespace H5V.Model.HtmlTok

/-! ### preprocess / getChar -/

theorem preprocess_mono (o : Opts) (m m' : Mach) (c c' : Char) (inp inp' e : Str)
    (h : preprocess o m c inp = (some c', m', inp')) :
    preprocess o m c (inp ++ e) = (some c', m', inp' ++ e) := by
  unfold preprocess at h ⊢
  split at h
  · split at h
    · cases inp with
      | nil => simp at h
      | cons x xs => simp_all
    · simp_all
  · simp_all

/-- a `none` from `preprocess` means: the LF after a CR was swallowed and nothing is left -/
theorem preprocess_none (o : Opts) (m m' : Mach) (c : Char) (inp inp' : Str)
    (h : preprocess o m c inp = (none, m', inp')) :
    m.ignoreLf = true ∧ c = '\n' ∧ inp = [] ∧ inp' = [] ∧ m' = m.setIgnoreLf false := by
  unfold preprocess at h
  split at h
  · split at h
    · cases inp with
      | nil => simp_all
      | cons x xs => simp at h
    · simp at h
  · simp at h

/-- resuming after `preprocess` swallowed the LF: reading `x` with the flag cleared is what the
original read would have produced had `x` been available -/
theorem preprocess_resume (o : Opts) (m : Mach) (x : Char) (rest : Str)
    (h1 : m.ignoreLf = true) :
    preprocess o m '\n' (x :: rest) = preprocess o (m.setIgnoreLf false) x rest := by
  have hf : (m.setIgnoreLf false).ignoreLf = false := rfl
  simp [preprocess, h1, hf]

theorem getChar_mono (o : Opts) (m m' : Mach) (c' : Char) (inp inp' e : Str)
    (h : getChar o m inp = (some c', m', inp')) :
    getChar o m (inp ++ e) = (some c', m', inp' ++ e) := by
  unfold getChar at h ⊢
  split
  · simp_all
  · cases inp with
    | nil => simp_all
    | cons x xs =>
      simp_all
      exact preprocess_mono o m m' x c' xs inp' e h

theorem peek_mono (m : Mach) (inp e : Str) (c : Char) (h : peek m inp = some c) :
    peek m (inp ++ e) = some c := by
  unfold peek at h ⊢
  split <;> simp_all

theorem peek_none (m : Mach) (inp : Str) (h : peek m inp = none) : m.reconsume = false ∧ inp = [] := by
  unfold peek at h
  split at h <;> simp_all

theorem discardChar_mono (m : Mach) (inp e : Str) (c : Char) (h : peek m inp = some c) :
    discardChar m (inp ++ e) = ((discardChar m inp).1, (discardChar m inp).2 ++ e) := by
  unfold discardChar
  unfold peek at h
  split <;> simp_all
  cases inp <;> simp_all

/-- shape of a suspended `get_char` -/
theorem getChar_none (o : Opts) (m m' : Mach) (inp inp' : Str)
    (h : getChar o m inp = (none, m', inp')) :
    inp' = [] ∧ m.reconsume = false ∧
      ((inp = [] ∧ m' = m) ∨ (inp = ['\n'] ∧ m.ignoreLf = true ∧ m' = m.setIgnoreLf false)) := by
  unfold getChar at h
  split at h
  · simp at h
  · rename_i hr
    cases inp with
    | nil => simp at h; simp_all
    | cons x xs =>
      simp only at h
      have := preprocess_none o m m' x xs inp' h
      simp_all

/-- **resumable**: re-executing a suspended `get_char` after more input arrived is the read on the
concatenated input -/
theorem getChar_resume (o : Opts) (m m' : Mach) (inp inp' e : Str)
    (h : getChar o m inp = (none, m', inp')) :
    getChar o m' (inp' ++ e) = getChar o m (inp ++ e) := by
  obtain ⟨h1, h2, h3⟩ := getChar_none o m m' inp inp' h
  subst h1
  rcases h3 with ⟨h3, h4⟩ | ⟨h3, h4, h5⟩
  · subst h3 h4; rfl
  · subst h3 h5
    have hr' : (m.setIgnoreLf false).reconsume = false := by simp [h2]
    cases e with
    | nil =>
      simp [getChar, h2, hr', preprocess, h4]
    | cons x xs =>
      simp only [getChar, h2, hr', List.nil_append, List.cons_append, Bool.false_eq_true, ↓reduceIte]
      exact (preprocess_resume o m x xs h4).symm

/-! ### eat -/

theorem eatCmp_mono (eq : Char → Char → Bool) (s pat e : Str) (b : Bool)
    (h : eatCmp eq s pat = some b) : eatCmp eq (s ++ e) pat = some b := by
  induction s generalizing pat with
  | nil =>
    cases pat with
    | nil => simpa [eatCmp] using h
    | cons p ps => simp [eatCmp] at h
  | cons c s ih =>
    cases pat with
    | nil => simpa [eatCmp] using h
    | cons p ps =>
      simp only [List.cons_append, eatCmp] at h ⊢
      split <;> simp_all

theorem eatCmp_nil_none (eq : Char → Char → Bool) (pat : Str) (hp : pat ≠ []) :
    eatCmp eq [] pat = none := by
  cases pat with
  | nil => exact absurd rfl hp
  | cons p ps => rfl

theorem eatCmp_drop (eq : Char → Char → Bool) (s pat e : Str) (h : eatCmp eq s pat = some true) :
    (s ++ e).drop pat.length = s.drop pat.length ++ e := by
  induction s generalizing pat with
  | nil =>
    cases pat with
    | nil => simp
    | cons p ps => simp [eatCmp] at h
  | cons c s ih =>
    cases pat with
    | nil => simp
    | cons p ps =>
      simp only [eatCmp] at h
      split at h
      · simpa using ih ps h
      · simp at h

theorem eatSkipLf_mono (m : Mach) (inp e : Str) (c : Char) (h : peek m inp = some c) :
    eatSkipLf m (inp ++ e) = ((eatSkipLf m inp).1, (eatSkipLf m inp).2 ++ e) := by
  unfold eatSkipLf
  have hp := peek_mono m inp e c h
  split
  · simp only [h, hp]
    split
    · have hpk : peek (m.setIgnoreLf false) inp = some c := by simpa [peek] using h
      exact discardChar_mono (m.setIgnoreLf false) inp e c hpk
    · rfl
  · rfl

theorem eatSkipLf_none (m : Mach) (inp : Str) (h : peek m inp = none) : eatSkipLf m inp = (m, inp) := by
  unfold eatSkipLf
  split <;> simp [h]

/-- side condition under which the look-ahead stash is sound: no pending "ignore LF" while text
is stashed (preserved by every step: `Good`) -/
def EatOk (m : Mach) : Prop := m.ignoreLf = true → m.tempBuf = []

@[simp] theorem setTempBuf_setTempBuf (m : Mach) (a b : Str) :
    (m.setTempBuf a).setTempBuf b = m.setTempBuf b := rfl

theorem eatSkipLf_id (m : Mach) (inp : Str) (h : m.ignoreLf = false) : eatSkipLf m inp = (m, inp) := by
  unfold eatSkipLf; simp [h]

@[simp] theorem eatSkipLf_atEof (m : Mach) (inp : Str) : (eatSkipLf m inp).1.atEof = m.atEof := by
  unfold eatSkipLf discardChar
  repeat' split
  all_goals simp

/-- core of `eat` once the `ignore_lf` prologue is done -/
def eatCore (m1 : Mach) (all : Str) (pat : Str) (eq : Char → Char → Bool) : Option Bool × Mach × Str :=
  match eatCmp eq all pat with
  | some true => (some true, m1.setTempBuf [], all.drop pat.length)
  | some false => (some false, m1.setTempBuf [], all)
  | none =>
    if m1.atEof then (some false, m1.setTempBuf [], all)
    else (none, m1.setTempBuf all, [])

theorem eat_eq_core (m : Mach) (inp pat : Str) (eq : Char → Char → Bool) :
    eat m inp pat eq = eatCore (eatSkipLf m inp).1 ((eatSkipLf m inp).1.tempBuf ++ (eatSkipLf m inp).2) pat eq := rfl

theorem eatCore_mono (m1 m' : Mach) (all inp' e pat : Str) (eq : Char → Char → Bool) (b : Bool)
    (hat : m1.atEof = false) (h : eatCore m1 all pat eq = (some b, m', inp')) :
    eatCore m1 (all ++ e) pat eq = (some b, m', inp' ++ e) := by
  unfold eatCore at h ⊢
  cases hc : eatCmp eq all pat with
  | none => simp [hc, hat] at h
  | some b' =>
    have hc' := eatCmp_mono eq all pat e b' hc
    simp only [hc, hc'] at h ⊢
    cases b' with
    | true =>
      simp only [Prod.mk.injEq] at h ⊢
      obtain ⟨h1, h2, h3⟩ := h
      refine ⟨h1, h2, ?_⟩
      rw [← h3]
      exact eatCmp_drop eq _ pat e hc
    | false =>
      simp only [Prod.mk.injEq] at h ⊢
      obtain ⟨h1, h2, h3⟩ := h
      exact ⟨h1, h2, by rw [← h3]⟩

theorem eat_mono (m m' : Mach) (inp inp' e pat : Str) (eq : Char → Char → Bool) (b : Bool)
    (hg : EatOk m) (hpat : pat ≠ []) (hat : m.atEof = false)
    (h : eat m inp pat eq = (some b, m', inp')) :
    eat m (inp ++ e) pat eq = (some b, m', inp' ++ e) := by
  rw [eat_eq_core] at h ⊢
  cases hpk : peek m inp with
  | some c =>
    rw [eatSkipLf_mono m inp e c hpk]
    simp only [← List.append_assoc]
    exact eatCore_mono _ _ _ _ _ _ _ _ (by simp [hat]) h
  | none =>
    obtain ⟨hr, hinp⟩ := peek_none m inp hpk
    subst hinp
    cases hil : m.ignoreLf with
    | true =>
      have ht := hg hil
      rw [eatSkipLf_none m [] hpk] at h
      simp [eatCore, ht, eatCmp_nil_none eq pat hpat, hat] at h
    | false =>
      rw [eatSkipLf_id m _ hil] at h ⊢
      simp only [List.append_nil, List.nil_append] at h ⊢
      have := eatCore_mono m m' m.tempBuf inp' e pat eq b hat h
      simpa using this

/-- shape of a suspended `eat`, and **resumability**: any later `eat` (the state re-executes its
whole look-ahead sequence) behaves as on the concatenated input; the stash stays sound -/
theorem eat_none (m m' : Mach) (inp inp' pat : Str) (eq : Char → Char → Bool)
    (hg : EatOk m) (h : eat m inp pat eq = (none, m', inp')) :
    inp' = [] ∧ EatOk m' ∧ m'.atEof = m.atEof ∧
    ∀ (e pat' : Str) (eq' : Char → Char → Bool), eat m' e pat' eq' = eat m (inp ++ e) pat' eq' := by
  rw [eat_eq_core] at h
  unfold eatCore at h
  split at h
  · simp at h
  · simp at h
  · split at h
    · simp at h
    · simp only [Prod.mk.injEq, true_and] at h
      obtain ⟨h1, h2⟩ := h
      refine ⟨h2.symm, ?_, by simp [← h1], ?_⟩
      · -- EatOk m'
        subst h1
        intro hil
        simp only [setTempBuf_ignoreLf] at hil
        -- ignoreLf survived the prologue ⇒ nothing was available ⇒ the stash is the (empty) old one
        cases hpk : peek m inp with
        | none =>
          rw [eatSkipLf_none m inp hpk] at hil ⊢
          have := hg hil
          obtain ⟨_, hinp⟩ := peek_none m inp hpk
          simp [this, hinp]
        | some c =>
          exfalso
          unfold eatSkipLf at hil
          simp only [hpk] at hil
          split at hil
          · unfold discardChar at hil
            repeat' split at hil
            all_goals simp at hil
          · rename_i hx; simp [hx] at hil
      · intro e pat' eq'
        subst h1
        rw [eat_eq_core, eat_eq_core]
        cases hpk : peek m inp with
        | some c =>
          rw [eatSkipLf_mono m inp e c hpk]
          -- after the prologue saw a character the flag is clear
          have hil : (eatSkipLf m inp).1.ignoreLf = false := by
            unfold eatSkipLf
            simp only [hpk]
            split
            · unfold discardChar
              repeat' split
              all_goals simp
            · rename_i hx; simpa using hx
          rw [eatSkipLf_id _ e (by simpa using hil)]
          simp [eatCore, List.append_assoc, setTempBuf_setTempBuf]
        | none =>
          obtain ⟨hr, hinp⟩ := peek_none m inp hpk
          subst hinp
          rw [eatSkipLf_none m [] hpk]
          simp only [List.append_nil, List.nil_append]
          cases hil : m.ignoreLf with
          | true =>
            have ht := hg hil
            have : m.setTempBuf m.tempBuf = m := rfl
            rw [this]
          | false =>
            have : m.setTempBuf m.tempBuf = m := rfl
            rw [this]

/-! ### pop_except_from / data-state read -/

theorem popExceptFrom_mono (o : Opts) (set : List Char) (m m' : Mach) (r : SetRes) (inp inp' e : Str)
    (h : popExceptFrom o set m inp = (some r, m', inp')) :
    popExceptFrom o set m (inp ++ e) = (some r, m', inp' ++ e) := by
  unfold popExceptFrom at h ⊢
  split
  · rename_i hs
    simp only [hs, ↓reduceIte] at h
    cases hg : getChar o m inp with
    | mk c rest =>
      cases c with
      | none => simp [hg] at h
      | some c =>
        obtain ⟨m1, i1⟩ := rest
        rw [getChar_mono o m m1 c inp i1 e hg]
        simp_all
  · rename_i hs
    simp only [hs, Bool.false_eq_true, ↓reduceIte] at h
    cases inp with
    | nil => simp at h
    | cons x xs =>
      simp only [List.cons_append] at h ⊢
      split
      · rename_i hx
        simp only [hx, ↓reduceIte] at h
        cases hg : preprocess o m x xs with
        | mk c rest =>
          cases c with
          | none => simp [hg] at h
          | some c =>
            obtain ⟨m1, i1⟩ := rest
            rw [preprocess_mono o m m1 x c xs i1 e hg]
            simp_all
      · rename_i hx
        simp only [hx, Bool.false_eq_true, ↓reduceIte] at h
        simp_all

theorem popExceptFrom_none (o : Opts) (set : List Char) (m m' : Mach) (inp inp' : Str)
    (h : popExceptFrom o set m inp = (none, m', inp')) :
    inp' = [] ∧ m.reconsume = false ∧
      ((inp = [] ∧ m' = m) ∨ (inp = ['\n'] ∧ m.ignoreLf = true ∧ m' = m.setIgnoreLf false)) := by
  unfold popExceptFrom at h
  split at h
  · cases hg : getChar o m inp with
    | mk c rest =>
      obtain ⟨m1, i1⟩ := rest
      cases c with
      | some c => simp [hg] at h
      | none =>
        simp only [hg, Option.map_none, Prod.mk.injEq, true_and] at h
        obtain ⟨h1, h2⟩ := h
        subst h1 h2
        exact getChar_none o m m1 inp i1 hg
  · rename_i hs
    have hs' : o.exactErrors = false ∧ m.reconsume = false ∧ m.ignoreLf = false := by
      simpa [and_assoc] using hs
    cases inp with
    | nil => simp at h; simp_all
    | cons x xs =>
      simp only at h
      split at h
      · cases hg : preprocess o m x xs with
        | mk c rest =>
          obtain ⟨m1, i1⟩ := rest
          cases c with
          | some c => simp [hg] at h
          | none =>
            have := preprocess_none o m m1 x xs i1 hg
            simp_all
      · simp at h

theorem readData_mono (o : Opts) (m m' : Mach) (r : SetRes) (inp inp' e : Str)
    (h : readData o m inp = (some r, m', inp')) :
    readData o m (inp ++ e) = (some r, m', inp' ++ e) := by
  unfold readData at h ⊢
  split
  · rename_i hs
    simp only [hs, ↓reduceIte] at h
    exact popExceptFrom_mono o _ m m' r inp inp' e h
  · rename_i hs
    simp only [hs, Bool.false_eq_true, ↓reduceIte] at h
    cases inp with
    | nil => simp at h
    | cons x xs =>
      simp only [List.cons_append] at h ⊢
      split
      · rename_i hx
        simp only [hx, ↓reduceIte] at h
        have := popExceptFrom_mono o _ m m' r (x :: xs) inp' e h
        simpa using this
      · rename_i hx
        simp only [hx, Bool.false_eq_true, ↓reduceIte] at h
        simp_all

theorem readData_none (o : Opts) (m m' : Mach) (inp inp' : Str)
    (h : readData o m inp = (none, m', inp')) :
    inp' = [] ∧ m.reconsume = false ∧
      ((inp = [] ∧ m' = m) ∨ (inp = ['\n'] ∧ m.ignoreLf = true ∧ m' = m.setIgnoreLf false)) := by
  unfold readData at h
  split at h
  · exact popExceptFrom_none o _ m m' inp inp' h
  · rename_i hs
    have hs' : o.exactErrors = false ∧ m.reconsume = false ∧ m.ignoreLf = false := by
      simpa [and_assoc] using hs
    cases inp with
    | nil => simp at h; simp_all
    | cons x xs =>
      simp only at h
      split at h
      · have := popExceptFrom_none o _ m m' (x :: xs) inp' h
        simp_all
      · simp at h

/-! ### character-reference sub-tokenizer -/

/-- a char-ref step result with more input appended -/
def CRRes.ext (r : CRRes) (e : Str) : CRRes :=
  match r with
  | .error x => .error x
  | .ok (m, i, cr, st) => .ok (m, i ++ e, cr, st)

theorem unconsumeNumeric_ext (m : Mach) (inp e : Str) (cr : CharRefSt) :
    unconsumeNumeric m (inp ++ e) cr = (unconsumeNumeric m inp cr).ext e := by
  simp [unconsumeNumeric, CRRes.ext, List.append_assoc]

theorem finishNumericStatus_ext (o : Opts) (m : Mach) (inp e : Str) (cr : CharRefSt) :
    finishNumericStatus o m (inp ++ e) cr = (finishNumericStatus o m inp cr).ext e := by
  unfold finishNumericStatus
  split <;> simp [CRRes.ext]

theorem finishNamed_ext (o : Opts) (m : Mach) (inp e : Str) (cr : CharRefSt) (ec : Option Char) :
    finishNamed o m (inp ++ e) cr ec = (finishNamed o m inp cr ec).ext e := by
  unfold finishNamed
  repeat' split
  all_goals
    first
      | (simp [CRRes.ext, List.append_assoc]; done)
      | (dsimp only; split <;> simp [CRRes.ext, List.append_assoc])

/-- **stuck ⇒ nothing happened** -/
theorem crStep_stuck (o : Opts) (m : Mach) (inp : Str) (cr : CharRefSt) (h : peek m inp = none) :
    crStep o m inp cr = .ok (m, inp, cr, .stuck) := by
  unfold crStep; simp [h]

/-- **monotone**: once a character can be peeked the step does not depend on what follows -/
theorem crStep_mono (o : Opts) (m : Mach) (inp e : Str) (cr : CharRefSt) (c : Char)
    (h : peek m inp = some c) :
    crStep o m (inp ++ e) cr = (crStep o m inp cr).ext e := by
  have hp := peek_mono m inp e c h
  have hd := discardChar_mono m inp e c h
  unfold crStep
  simp only [h, hp, hd]
  repeat' split
  all_goals
    first
      | rfl
      | simp [CRRes.ext, unconsumeNumeric_ext, finishNumericStatus_ext, finishNamed_ext, List.append_assoc]

end H5V.Model.HtmlTok
