import H5V.Lemmas.XmlRTAttr
import H5V.Lemmas.XmlSerFixed
/-!
C17, tokenizer half, part 9: the tokenizer model on the rendering of a list of serializer events
(`XmlSer.renderEv` with `SerCfg.fixed`).  `EvLex` is what the text of one event must satisfy lexically
to be read back (names without blanks / `>` / `/` / `=`, no U+0000, comment and PI texts that do not
contain their own terminator, lower-case doctype names); `evToks` what the tokenizer model then
delivers (text one character per token; everything else exactly `XmlSer.lexEv`).
-/
namespace H5V.Lemmas.XmlRT
open H5V.Model.XmlTB H5V.Model.XmlSer H5V.Lemmas.XmlSerFixed

/-- raw attributes of a start-tag event: names as written, values before escaping -/
def rawAttrs (decls : SMap) (attrs : List Attr) : List (Str × Str) :=
  decls.map (fun d => (declName d.1, d.2)) ++ attrs.map (fun a => (rawName a.name, a.value))

/-- the lexical side conditions under which the text of an event is read back as that event -/
def EvLex : Ev → Prop
  | .startTag n decls attrs =>
    TagNameLex (rawName n) ∧ ∀ a ∈ rawAttrs decls attrs, AttrNameLex a.1 ∧ ∀ c ∈ a.2, c ≠ '\x00'
  | .endTag n => TagNameLex (rawName n)
  | .text s => s ≠ [] ∧ ∀ c ∈ s, c ≠ '\x00'
  | .comment s => CommentLex s
  | .pi t d => PiLex t d
  | .doctype n => ∀ x ∈ n, DtCh x

/-- what the tokenizer model delivers for one event (parse errors dropped) -/
def evToks : Ev → List Token
  | .text s => s.map (fun c => .chars [c])
  | e => (lexEv SerCfg.fixed LexCfg.fixed e).toList

def isTextEv : Ev → Bool
  | .text _ => true
  | _ => false

theorem render_start (n : QName) (decls : SMap) (attrs : List Attr) :
    renderEv SerCfg.fixed (.startTag n decls attrs) =
      '<' :: rawName n ++ attrsText (rawAttrs decls attrs) ++ ['>'] := by
  show '<' :: rawName n ++
      (decls.map (fun d => ' ' :: declName d.1 ++ '=' :: '"' :: declValue SerCfg.fixed d.2 ++ ['"'])).flatten ++
      (attrs.map (fun a => ' ' :: rawName a.name ++ '=' :: '"' :: escape SerCfg.fixed true a.value ++ ['"'])).flatten ++
      ['>'] = _
  have e1 : decls.map (fun d => ' ' :: declName d.1 ++ '=' :: '"' :: declValue SerCfg.fixed d.2 ++ ['"']) =
      (decls.map (fun d => (declName d.1, d.2))).map attrText := by
    rw [List.map_map]; apply List.map_congr_left; intro d _; rfl
  have e2 : attrs.map (fun a => ' ' :: rawName a.name ++ '=' :: '"' :: escape SerCfg.fixed true a.value ++ ['"']) =
      (attrs.map (fun a => (rawName a.name, a.value))).map attrText := by
    rw [List.map_map]; apply List.map_congr_left; intro a _; rfl
  rw [e1, e2]
  simp only [attrsText, rawAttrs, List.map_append, List.flatten_append, List.cons_append, List.append_assoc]

theorem render_end (n : QName) : renderEv SerCfg.fixed (.endTag n) = '<' :: '/' :: rawName n ++ ['>'] := rfl
theorem render_text (s : Str) : renderEv SerCfg.fixed (.text s) = escape SerCfg.fixed false s := rfl
theorem render_comment (s : Str) :
    renderEv SerCfg.fixed (.comment s) = '<' :: '!' :: '-' :: '-' :: (s ++ ['-', '-', '>']) := by
  show "<!--".toList ++ s ++ "-->".toList = _
  have e1 : "<!--".toList = ['<', '!', '-', '-'] := by decide
  have e2 : "-->".toList = ['-', '-', '>'] := by decide
  rw [e1, e2]; simp
theorem render_pi (t d : Str) : renderEv SerCfg.fixed (.pi t d) = '<' :: '?' :: t ++ ' ' :: d ++ ['?', '>'] := rfl
theorem render_doctype (n : Str) :
    renderEv SerCfg.fixed (.doctype n) =
      '<' :: '!' :: 'D' :: 'O' :: 'C' :: 'T' :: 'Y' :: 'P' :: 'E' :: ' ' :: (n ++ ['>']) := by
  show "<!DOCTYPE ".toList ++ n ++ ['>'] = _
  have e1 : "<!DOCTYPE ".toList = ['<', '!', 'D', 'O', 'C', 'T', 'Y', 'P', 'E', ' '] := by decide
  rw [e1]; simp

theorem start_tok (n : QName) (decls : SMap) (attrs : List Attr) :
    Token.tag ⟨.start, cvName (Model.XmlTok.processQName (rawName n)), (finAll (rawAttrs decls attrs)).map cvAttr⟩ =
      .tag (finishTag LexCfg.fixed.tok ⟨.start, rawName n,
        decls.map (fun d => ⟨declName d.1, lexAttrValue LexCfg.fixed (declValue SerCfg.fixed d.2)⟩) ++
        attrs.map (fun a => ⟨rawName a.name, lexAttrValue LexCfg.fixed (escape SerCfg.fixed true a.value)⟩)⟩) := by
  rw [cvName_processQName, finAll_eq]
  unfold finishTag
  congr 3
  simp only [rawAttrs, List.map_append, List.map_map]
  congr 1
  · apply List.map_congr_left
    intro d _
    show _ = RawAttr.mk _ _
    have : declValue SerCfg.fixed d.2 = escape SerCfg.fixed true d.2 := rfl
    rw [this, lexAttrValue_fixed]; rfl
  · apply List.map_congr_left
    intro a _
    show _ = RawAttr.mk _ _
    rw [lexAttrValue_fixed]; rfl

theorem okHead_render (e : Ev) (he : EvLex e) (x : Str) : OkHead (renderEv SerCfg.fixed e ++ x) := by
  cases e with
  | startTag n decls attrs => rw [render_start]; exact okHead_cons _ _ (by decide) (by decide)
  | endTag n => rw [render_end]; exact okHead_cons _ _ (by decide) (by decide)
  | text s =>
    obtain ⟨hne, hs⟩ := he
    rw [render_text]
    cases s with
    | nil => exact absurd rfl hne
    | cons c t =>
      simp only [escape, List.map_cons, List.flatten_cons, List.append_assoc]
      exact okHead_escapeChar false c (hs c (by simp)) _
  | comment s => rw [render_comment]; exact okHead_cons _ _ (by decide) (by decide)
  | pi t d => rw [render_pi]; exact okHead_cons _ _ (by decide) (by decide)
  | doctype n => rw [render_doctype]; exact okHead_cons _ _ (by decide) (by decide)

/-- **one event** -/
theorem ev_run (o : Model.XmlTok.Opts) (ho : o.exactErrors = false) (m : Model.XmlTok.Mach) (e : Ev) (rest : Str)
    (he : EvLex e) (hrest : isTextEv e = true → OkHead rest) (h : Ctl m .data) (hn : Clean m) :
    ∃ m', Reach o m (renderEv SerCfg.fixed e ++ rest) m' rest ∧ Ctl m' .data ∧ Clean m' ∧
      cvOut m'.out = cvOut m.out ++ evToks e := by
  cases e with
  | startTag n decls attrs =>
    obtain ⟨h1, h2⟩ := he
    obtain ⟨m', r, c, cl, ot⟩ := start_tag_run o ho m (rawName n) (rawAttrs decls attrs) rest h hn h1 h2
    refine ⟨m', ?_, c, cl, ?_⟩
    · rw [render_start]; simpa using r
    · rw [ot, start_tok]; rfl
  | endTag n =>
    obtain ⟨m', r, c, cl, ot⟩ := end_tag_run o ho m (rawName n) rest h hn he
    refine ⟨m', ?_, c, cl, ?_⟩
    · rw [render_end]; simpa using r
    · rw [ot, cvName_processQName]; rfl
  | text s =>
    obtain ⟨m', r, c, cl, ot⟩ := text_run o ho rest (hrest rfl) s m he.2 h hn
    exact ⟨m', by rw [render_text]; exact r, c, cl, ot⟩
  | comment s =>
    obtain ⟨m', r, c, cl, ot⟩ := comment_run o ho m s rest h hn he
    refine ⟨m', ?_, c, cl, ot⟩
    rw [render_comment]; simpa using r
  | pi t d =>
    obtain ⟨m', r, c, cl, ot⟩ := pi_run o ho m t d rest h hn he
    refine ⟨m', ?_, c, cl, ot⟩
    rw [render_pi]; simpa using r
  | doctype n =>
    obtain ⟨m', r, c, cl, ot⟩ := doctype_run o ho m n rest h hn he
    refine ⟨m', ?_, c, cl, ot⟩
    rw [render_doctype]; simpa using r

/-- does the list end in a text event? -/
def endsInText : List Ev → Bool
  | [] => false
  | [e] => isTextEv e
  | _ :: rest => endsInText rest

/-- **a list of events** -/
theorem evs_run (o : Model.XmlTok.Opts) (ho : o.exactErrors = false) (rest : Str) :
    ∀ (evs : List Ev) (m : Model.XmlTok.Mach), (∀ e ∈ evs, EvLex e) → (endsInText evs = true → OkHead rest) →
      Ctl m .data → Clean m →
      ∃ m', Reach o m (render SerCfg.fixed evs ++ rest) m' rest ∧ Ctl m' .data ∧ Clean m' ∧
        cvOut m'.out = cvOut m.out ++ (evs.map evToks).flatten := by
  intro evs
  induction evs with
  | nil => intro m _ _ h hn; exact ⟨m, by simpa [render] using Reach.refl _ _, h, hn, by simp⟩
  | cons e es ih =>
    intro m hl hr h hn
    have he := hl e (by simp)
    have hl' : ∀ x ∈ es, EvLex x := fun x hx => hl x (by simp [hx])
    have hhead : isTextEv e = true → OkHead (render SerCfg.fixed es ++ rest) := by
      intro _
      cases es with
      | nil => simpa [render] using hr (by simpa [endsInText])
      | cons e2 es2 =>
        simp only [render, List.map_cons, List.flatten_cons, List.append_assoc]
        exact okHead_render e2 (hl e2 (by simp)) _
    obtain ⟨m1, r1, c1, n1, o1⟩ := ev_run o ho m e (render SerCfg.fixed es ++ rest) he hhead h hn
    obtain ⟨m2, r2, c2, n2, o2⟩ := ih m1 hl' (by
      intro hh; apply hr
      cases es with
      | nil => simp [endsInText] at hh
      | cons e2 es2 => simpa [endsInText] using hh) c1 n1
    refine ⟨m2, ?_, c2, n2, ?_⟩
    · simp only [render, List.map_cons, List.flatten_cons, List.append_assoc]
      exact Reach.trans r1 r2
    · rw [o2, o1]; simp

end H5V.Lemmas.XmlRT
