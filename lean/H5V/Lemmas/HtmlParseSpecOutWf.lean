import H5V.Lemmas.HtmlTokOptE
import H5V.Lemmas.HtmlTokOut
/-!
Well-formedness of the OUTPUT of the HTML tokenizer model, for every sink policy and every input:

1. every tag token delivered has a tag name without ASCII upper-case letters and pairwise distinct attribute
   names;
2. no character token delivered contains U+0000;
3. the end-of-file token is delivered exactly once, as the very last token (`feed_finish_outWf`).

The proof is a traversal of the transition tables with the register invariant `WfM`:
the tag-name register has no `A`–`Z`, the attribute register has distinct names, the `temp_buf` register has no
U+0000 (also while it is the look-ahead stash of `eat`: a stash is a proper prefix of a keyword), and the log
is well-formed and EOF-free.
-/
namespace H5V.Lemmas.ParseSpec
open H5V.Model.HtmlTok

/-- a well-formed delivered token -/
def TokWfT : Token → Prop
  | .tag t => (∀ c ∈ t.name, ¬ ('A' ≤ c ∧ c ≤ 'Z')) ∧ (t.attrs.map (·.name)).Nodup
  | .chars x => '\x00' ∉ x
  | _ => True

/-- every token of the log is well-formed and there is no end-of-file token in it -/
def OutWf (out : Out) : Prop := ∀ p ∈ out, TokWfT p.1 ∧ p.1 ≠ .eof

/-- not an ASCII upper-case letter -/
def NoUpC (c : Char) : Prop := ¬ ('A' ≤ c ∧ c ≤ 'Z')

instance (c : Char) : Decidable (NoUpC c) := by unfold NoUpC; infer_instance

/-- no ASCII upper-case letter -/
def NoUp (s : Str) : Prop := ∀ c ∈ s, ¬ ('A' ≤ c ∧ c ≤ 'Z')

/-- the register invariant -/
def WfM (m : Mach) : Prop :=
  NoUp m.tagName ∧ (m.tagAttrs.map (·.name)).Nodup ∧ '\x00' ∉ m.tempBuf ∧ OutWf m.out

/-! ### characters -/

theorem ow_char_le_iff (a b : Char) : a ≤ b ↔ a.toNat ≤ b.toNat := by
  rw [Char.le_def, UInt32.le_iff_toNat_le]; rfl

theorem ow_ofNat_toNat_small : ∀ n, n < 91 → (Char.ofNat (n + 32)).toNat = n + 32 := by decide

theorem noUpC_shift {c : Char} (h : 'A' ≤ c ∧ c ≤ 'Z') : NoUpC (Char.ofNat (c.toNat + 32)) := by
  unfold NoUpC
  simp only [ow_char_le_iff, Char.reduceToNat] at h ⊢
  rw [ow_ofNat_toNat_small _ (by omega)]
  omega

theorem shift_ne_zero {c : Char} (h : 'A' ≤ c ∧ c ≤ 'Z') : Char.ofNat (c.toNat + 32) ≠ '\x00' := by
  intro e
  have e2 := congrArg Char.toNat e
  simp only [ow_char_le_iff, Char.reduceToNat] at h e2
  rw [ow_ofNat_toNat_small _ (by omega)] at e2
  omega

theorem toAsciiLower_noUp (c : Char) : NoUpC (toAsciiLower c) := by
  unfold toAsciiLower
  split
  · rename_i h; exact noUpC_shift h
  · rename_i h; exact h

theorem lal_noUp {c cl : Char} (h : lowerAsciiLetter c = some cl) : NoUpC cl := by
  unfold lowerAsciiLetter at h
  split at h
  · rename_i h1
    simp only [Option.some.injEq] at h; subst h
    unfold NoUpC
    simp only [ow_char_le_iff, Char.reduceToNat] at h1 ⊢
    omega
  · split at h
    · rename_i h1
      simp only [Option.some.injEq] at h; subst h
      exact noUpC_shift h1
    · cases h

theorem lal_src_ne {c cl : Char} (h : lowerAsciiLetter c = some cl) : c ≠ '\x00' := by
  intro e; subst e
  have : lowerAsciiLetter '\x00' = none := by decide
  rw [this] at h; cases h

theorem lal_ne {c cl : Char} (h : lowerAsciiLetter c = some cl) : cl ≠ '\x00' := by
  unfold lowerAsciiLetter at h
  split at h
  · rename_i h1
    simp only [Option.some.injEq] at h; subst h
    intro e; subst e; revert h1; decide
  · split at h
    · rename_i h1
      simp only [Option.some.injEq] at h; subst h
      exact shift_ne_zero h1
    · cases h

/-! ### the log -/

theorem OutWf_nil : OutWf [] := by intro p hp; cases hp

theorem OutWf_cons {out : Out} (h : OutWf out) (t : Token) (l : Nat) (ht : TokWfT t) (hne : t ≠ .eof) :
    OutWf ((t, l) :: out) := by
  intro p hp
  rcases List.mem_cons.mp hp with rfl | hp
  · exact ⟨ht, hne⟩
  · exact h p hp

/-! ### helper lemmas: one per `go!` shorthand -/

theorem WfM_emit {m : Mach} (h : WfM m) (t : Token) (ht : TokWfT t) (hne : t ≠ .eof) : WfM (emit m t) :=
  ⟨h.1, h.2.1, h.2.2.1, OutWf_cons h.2.2.2 t m.line ht hne⟩

theorem WfM_emitErr {m : Mach} (h : WfM m) (s : String) : WfM (emitErr m s) :=
  WfM_emit h _ trivial (by intro e; cases e)
theorem WfM_emitErrL {m : Mach} (h : WfM m) (s : Str) : WfM (emit m (.error s)) :=
  WfM_emit h _ trivial (by intro e; cases e)
theorem WfM_emitPause {m : Mach} (h : WfM m) (b : Bool) : WfM (emit m (.pause b)) :=
  WfM_emit h _ trivial (by intro e; cases e)

theorem WfM_emitChar {m : Mach} (h : WfM m) (c : Char) : WfM (emitChar m c) := by
  unfold emitChar
  split
  · exact WfM_emit h _ trivial (by intro e; cases e)
  · rename_i hc
    refine WfM_emit h _ ?_ (by intro e; cases e)
    show '\x00' ∉ [c]
    intro hm
    rcases List.mem_cons.mp hm with e | e
    · exact hc e.symm
    · cases e

theorem WfM_emitChars {m : Mach} (h : WfM m) (b : Str) (hb : '\x00' ∉ b) : WfM (emitChars m b) :=
  WfM_emit h _ hb (by intro e; cases e)

theorem WfM_badChar {m : Mach} (h : WfM m) (o : Opts) : WfM (badChar o m) := by
  unfold badChar; split
  · exact WfM_emitErr h _
  · exact WfM_emitErrL h _

theorem WfM_badEof {m : Mach} (h : WfM m) (o : Opts) : WfM (badEof o m) := by
  unfold badEof; split <;> exact WfM_emitErr h _

theorem WfM_to {m : Mach} (h : WfM m) (s : State) : WfM (to s m) := h
theorem WfM_reconsumeTo {m : Mach} (h : WfM m) (s : State) : WfM (reconsumeTo s m) := h

theorem WfM_discardTag {m : Mach} (h : WfM m) : WfM (discardTag m) :=
  ⟨(by intro c hc; cases hc), List.nodup_nil, h.2.2.1, h.2.2.2⟩

theorem WfM_pushTag {m : Mach} (h : WfM m) (c : Char) (hc : NoUpC c) : WfM (pushTag c m) := by
  refine ⟨?_, h.2.1, h.2.2.1, h.2.2.2⟩
  intro x hx
  rcases List.mem_append.mp hx with hx | hx
  · exact h.1 x hx
  · rcases List.mem_cons.mp hx with rfl | hx
    · exact hc
    · cases hx

theorem WfM_createTag {m : Mach} (h : WfM m) (k : TagKind) (c : Char) (hc : NoUpC c) : WfM (createTag k c m) := by
  refine ⟨?_, List.nodup_nil, h.2.2.1, h.2.2.2⟩
  intro x hx
  rcases List.mem_cons.mp hx with rfl | hx
  · exact hc
  · cases hx

theorem WfM_pushTemp {m : Mach} (h : WfM m) (c : Char) (hc : c ≠ '\x00') : WfM (pushTemp c m) := by
  refine ⟨h.1, h.2.1, ?_, h.2.2.2⟩
  intro hx
  rcases List.mem_append.mp hx with hx | hx
  · exact h.2.2.1 hx
  · rcases List.mem_cons.mp hx with e | hx
    · exact hc e.symm
    · cases hx

theorem WfM_clearTemp {m : Mach} (h : WfM m) : WfM (clearTemp m) :=
  ⟨h.1, h.2.1, (by intro hx; cases hx), h.2.2.2⟩

theorem WfM_setTempBuf {m : Mach} (h : WfM m) (s : Str) (hs : '\x00' ∉ s) : WfM (m.setTempBuf s) :=
  ⟨h.1, h.2.1, hs, h.2.2.2⟩

theorem WfM_emitTempBuf {m : Mach} (h : WfM m) : WfM (emitTempBuf m) := by
  unfold emitTempBuf
  exact WfM_emitChars (m := { m with tempBuf := [] }) ⟨h.1, h.2.1, (by intro hx; cases hx), h.2.2.2⟩ _ h.2.2.1

theorem WfM_pushName {m : Mach} (h : WfM m) (c : Char) : WfM (pushName c m) := h
theorem WfM_pushValue {m : Mach} (h : WfM m) (c : Char) : WfM (pushValue c m) := h
theorem WfM_appendValue {m : Mach} (h : WfM m) (s : Str) : WfM (appendValue s m) := h
theorem WfM_pushComment {m : Mach} (h : WfM m) (c : Char) : WfM (pushComment c m) := h
theorem WfM_appendComment {m : Mach} (h : WfM m) (s : String) : WfM (appendComment s m) := h
theorem WfM_clearComment {m : Mach} (h : WfM m) : WfM (clearComment m) := h
theorem WfM_createDoctype {m : Mach} (h : WfM m) : WfM (createDoctype m) := h
theorem WfM_pushDoctypeName {m : Mach} (h : WfM m) (c : Char) : WfM (pushDoctypeName c m) := h
theorem WfM_pushDoctypeId {m : Mach} (h : WfM m) (k : DoctypeIdKind) (c : Char) : WfM (pushDoctypeId k c m) := by
  cases k <;> exact h
theorem WfM_clearDoctypeId {m : Mach} (h : WfM m) (k : DoctypeIdKind) : WfM (clearDoctypeId k m) := by
  cases k <;> exact h
theorem WfM_forceQuirks {m : Mach} (h : WfM m) : WfM (forceQuirks m) := h
theorem WfM_selfClosing {m : Mach} (h : WfM m) : WfM { m with tagSelfClosing := true } := h
theorem WfM_setIgnoreLf {m : Mach} (h : WfM m) (x : Bool) : WfM (m.setIgnoreLf x) := h
theorem WfM_setReconsume {m : Mach} (h : WfM m) (x : Bool) : WfM (m.setReconsume x) := h
theorem WfM_setCharRef {m : Mach} (h : WfM m) (x : Option CharRefSt) : WfM (m.setCharRef x) := h
theorem WfM_setAtEof {m : Mach} (h : WfM m) (x : Bool) : WfM (m.setAtEof x) := h
theorem WfM_setDiscardBom {m : Mach} (h : WfM m) (x : Bool) : WfM (m.setDiscardBom x) := h
theorem WfM_bumpLine {m : Mach} (h : WfM m) : WfM m.bumpLine := h
theorem WfM_setCurrentChar {m : Mach} (h : WfM m) (x : Char) : WfM (m.setCurrentChar x) := h

theorem WfM_emitComment {m : Mach} (h : WfM m) : WfM (emitComment m) := by
  unfold emitComment
  exact WfM_emit (m := { m with comment := [] }) h _ trivial (by intro e; cases e)

theorem WfM_emitDoctype {m : Mach} (h : WfM m) : WfM (emitDoctype m) := by
  unfold emitDoctype
  exact WfM_emit (m := { m with doctype := {} }) h _ trivial (by intro e; cases e)

theorem WfM_ite (c : Prop) [Decidable c] {a b : Mach} (ha : WfM a) (hb : WfM b) : WfM (if c then a else b) := by
  split <;> assumption

theorem WfM_finishAttribute {m : Mach} (h : WfM m) : WfM (finishAttribute m) := by
  obtain ⟨h1, h2, h3, h4⟩ := h
  unfold finishAttribute
  split
  · exact ⟨h1, h2, h3, h4⟩
  · dsimp only
    split
    · exact WfM_emitErr (m := { m with attrName := [] }) ⟨h1, h2, h3, h4⟩ _
    · rename_i hany
      refine ⟨h1, ?_, h3, h4⟩
      show ((m.tagAttrs ++ [Attr.mk m.attrName m.attrValue]).map Attr.name).Nodup
      rw [List.map_append, List.nodup_append]
      refine ⟨h2, List.nodup_cons.mpr ⟨(by intro hx; cases hx), List.nodup_nil⟩, ?_⟩
      intro a ha b hb e
      rcases List.mem_cons.mp hb with rfl | hb
      · apply hany
        rw [List.any_eq_true]
        obtain ⟨x, hx, rfl⟩ := List.mem_map.mp ha
        exact ⟨x, hx, by simpa using e⟩
      · cases hb

theorem WfM_createAttr {m : Mach} (h : WfM m) (c : Char) : WfM (createAttr c m) := by
  unfold createAttr
  exact WfM_finishAttribute h

theorem WfM_tagPrologue {m : Mach} (h : WfM m) : WfM (tagPrologue m) := by
  have h1 := WfM_finishAttribute h
  unfold tagPrologue
  dsimp only
  generalize finishAttribute m = x at h1
  split
  · exact h1
  · split
    · split
      · exact WfM_emitErr (WfM_emitErr h1 _) _
      · exact WfM_emitErr h1 _
    · split
      · exact WfM_emitErr h1 _
      · exact h1

theorem WfM_applySinkRes {m : Mach} (h : WfM m) (r : SinkRes) : WfM (applySinkRes m r).1 := by
  cases r with
  | continue_ => exact h
  | plaintext => exact h
  | script => exact WfM_emitPause (WfM_to h _) _
  | rawData k => exact h
  | indicator => exact WfM_emitPause h _

theorem WfM_emitCurrentTag {m : Mach} (h : WfM m) (pol : Pol) : WfM (emitCurrentTag pol m).1 := by
  have h1 := WfM_tagPrologue h
  unfold emitCurrentTag
  dsimp only
  generalize tagPrologue m = x at h1
  apply WfM_applySinkRes
  refine WfM_emit (m := takeTag x) ⟨(by intro c hc; cases hc), List.nodup_nil, h1.2.2.1, h1.2.2.2⟩ _ ?_
    (by intro e; cases e)
  exact ⟨h1.1, h1.2.1⟩

theorem WfM_emitTag {m : Mach} (h : WfM m) (pol : Pol) (s : State) : WfM (emitTag pol s m).1 :=
  WfM_emitCurrentTag (WfM_to h s) pol

theorem WfM_consumeCharRef {m : Mach} (h : WfM m) : WfM (consumeCharRef m).1 := by
  unfold consumeCharRef
  split
  · exact h
  · exact h

/-! ### the transition tables -/

/-- close a table arm by chaining the helper lemmas; the side goals are facts about the character pushed -/
macro "wf_chain" h:ident : tactic =>
  `(tactic| (repeat' (first
      | exact $h
      | with_reducible apply WfM_to | with_reducible apply WfM_reconsumeTo | with_reducible apply WfM_discardTag
      | with_reducible apply WfM_createTag | with_reducible apply WfM_pushTag
      | with_reducible apply WfM_pushTemp | with_reducible apply WfM_clearTemp | with_reducible apply WfM_pushName
      | with_reducible apply WfM_pushValue | with_reducible apply WfM_appendValue
      | with_reducible apply WfM_pushComment | with_reducible apply WfM_appendComment
      | with_reducible apply WfM_clearComment | with_reducible apply WfM_createDoctype
      | with_reducible apply WfM_pushDoctypeName | with_reducible apply WfM_pushDoctypeId
      | with_reducible apply WfM_clearDoctypeId | with_reducible apply WfM_forceQuirks
      | with_reducible apply WfM_emitChar | with_reducible apply WfM_emitChars | with_reducible apply WfM_badChar
      | with_reducible apply WfM_badEof | with_reducible apply WfM_emitTempBuf
      | with_reducible apply WfM_emitComment | with_reducible apply WfM_emitDoctype
      | with_reducible apply WfM_createAttr | with_reducible apply WfM_finishAttribute
      | with_reducible apply WfM_emitTag | with_reducible apply WfM_consumeCharRef
      | with_reducible apply WfM_selfClosing | with_reducible apply WfM_ite
      | assumption
      | exact toAsciiLower_noUp _
      | (apply lal_noUp; assumption)
      | (apply lal_src_ne; assumption)
      | (apply lal_ne; assumption)
      | decide)))

set_option maxHeartbeats 1600000 in
/-- the `get_char!` table -/
theorem transChar_wf (o : Opts) (pol : Pol) {m : Mach} (h : WfM m) (c : Char) : WfM (transChar o pol m c).1 := by
  unfold transChar
  split <;> (repeat' split) <;> (try dsimp only) <;> wf_chain h

/-- a read result of `pop_except_from`: a run contains no U+0000 -/
def SetResOk : SetRes → Prop
  | .fromSet _ => True
  | .notFromSet b => '\x00' ∉ b

set_option maxHeartbeats 1600000 in
/-- the `pop_except_from` table -/
theorem transSet_wf (o : Opts) (pol : Pol) {m : Mach} (h : WfM m) (r : SetRes) (hr : SetResOk r) :
    WfM (transSet o pol m r).1 := by
  unfold transSet
  split <;> (repeat' split) <;> (try dsimp only) <;> wf_chain h

/-! ### the reader -/

theorem WfM_discardChar {m : Mach} (h : WfM m) (inp : Str) : WfM (discardChar m inp).1 := by
  unfold discardChar; split <;> exact h

/-- the chain with the setters of the reader -/
macro "wf_rd" h:ident : tactic =>
  `(tactic| (repeat' (first
      | exact $h
      | with_reducible apply WfM_setCurrentChar | with_reducible apply WfM_setIgnoreLf
      | with_reducible apply WfM_setReconsume | with_reducible apply WfM_setCharRef
      | with_reducible apply WfM_setAtEof | with_reducible apply WfM_setDiscardBom
      | with_reducible apply WfM_bumpLine | with_reducible apply WfM_emitErrL | with_reducible apply WfM_emitErr
      | with_reducible apply WfM_discardChar | with_reducible apply WfM_to
      | with_reducible apply WfM_clearComment | with_reducible apply WfM_clearTemp
      | with_reducible apply WfM_badChar)))

theorem foldChar_wf (o : Opts) {m : Mach} (h : WfM m) (c : Char) : WfM (foldChar o m c).2 := by
  unfold foldChar
  dsimp only
  split <;> split <;> split <;> wf_rd h

theorem preprocess_wf (o : Opts) {m : Mach} (h : WfM m) (c : Char) (inp : Str) :
    WfM (preprocess o m c inp).2.1 := by
  unfold preprocess
  split
  · split
    · cases inp with
      | nil => exact h
      | cons y ys => exact foldChar_wf o (WfM_setIgnoreLf h false) y
    · exact foldChar_wf o (WfM_setIgnoreLf h false) c
  · exact foldChar_wf o h c

theorem getChar_wf (o : Opts) {m : Mach} (h : WfM m) (inp : Str) : WfM (getChar o m inp).2.1 := by
  unfold getChar
  split
  · exact h
  · cases inp with
    | nil => exact h
    | cons c rest => exact preprocess_wf o h c rest

/-- an optional read result of `pop_except_from` -/
def OptSetOk : Option SetRes → Prop
  | none => True
  | some r => SetResOk r

theorem OptSetOk_map (x : Option Char) : OptSetOk (x.map .fromSet) := by
  cases x <;> trivial

theorem single_notin {c : Char} {S : List Char} (hS : S.contains '\x00' = true) (hc : ¬ S.contains c = true) :
    '\x00' ∉ [c] := by
  intro hm
  rcases List.mem_cons.mp hm with e | e
  · subst e; exact hc hS
  · cases e

theorem popExceptFrom_wf (o : Opts) (S : List Char) (hS : S.contains '\x00' = true) {m : Mach} (h : WfM m)
    (inp : Str) : WfM (popExceptFrom o S m inp).2.1 ∧ OptSetOk (popExceptFrom o S m inp).1 := by
  unfold popExceptFrom
  split
  · exact ⟨getChar_wf o h inp, OptSetOk_map _⟩
  · cases inp with
    | nil => exact ⟨h, trivial⟩
    | cons c rest =>
      dsimp only
      split
      · exact ⟨preprocess_wf o h c rest, OptSetOk_map _⟩
      · rename_i hc
        exact ⟨h, single_notin hS hc⟩

theorem readData_wf (o : Opts) {m : Mach} (h : WfM m) (inp : Str) :
    WfM (readData o m inp).2.1 ∧ OptSetOk (readData o m inp).1 := by
  unfold readData
  split
  · exact popExceptFrom_wf o _ (by decide) h inp
  · cases inp with
    | nil => exact ⟨h, trivial⟩
    | cons c rest =>
      dsimp only
      split
      · exact popExceptFrom_wf o _ (by decide) h (c :: rest)
      · rename_i hc
        refine ⟨?_, single_notin (S := simdFirst) (by decide) hc⟩
        split <;> exact h

theorem eatSkipLf_wf {m : Mach} (h : WfM m) (inp : Str) : WfM (eatSkipLf m inp).1 := by
  unfold eatSkipLf discardChar
  repeat' split
  all_goals exact h

theorem eatCmp_none_mem (eq : Char → Char → Bool) : ∀ (s pat : Str), eatCmp eq s pat = none →
    ∀ c ∈ s, ∃ p ∈ pat, eq c p = true := by
  intro s
  induction s with
  | nil => intro pat _ c hc; cases hc
  | cons x xs ih =>
    intro pat h c hc
    cases pat with
    | nil => simp [eatCmp] at h
    | cons p ps =>
      simp only [eatCmp] at h
      split at h
      · rename_i hxp
        rcases List.mem_cons.mp hc with rfl | hc
        · exact ⟨p, List.mem_cons_self, hxp⟩
        · obtain ⟨q, hq, hq2⟩ := ih ps h c hc
          exact ⟨q, List.mem_cons_of_mem _ hq, hq2⟩
      · cases h

/-- `eat` with a keyword no character of which matches U+0000: the look-ahead stash is U+0000-free -/
theorem eat_wf {m : Mach} (h : WfM m) (inp pat : Str) (eq : Char → Char → Bool)
    (hp : ∀ p ∈ pat, eq '\x00' p = false) : WfM (eat m inp pat eq).2.1 := by
  rw [eat_eq_core]
  have hs := eatSkipLf_wf h inp
  generalize (eatSkipLf m inp).2 = i1
  generalize (eatSkipLf m inp).1 = m1 at hs
  unfold eatCore
  split
  · exact WfM_setTempBuf hs [] (by intro hx; cases hx)
  · exact WfM_setTempBuf hs [] (by intro hx; cases hx)
  · rename_i hnone
    split
    · exact WfM_setTempBuf hs [] (by intro hx; cases hx)
    · refine WfM_setTempBuf hs _ ?_
      intro hm
      obtain ⟨p, hp1, hp2⟩ := eatCmp_none_mem eq _ _ hnone _ hm
      rw [hp p hp1] at hp2
      cases hp2

/-! ### step results -/

/-- the machine of a step result is well-formed -/
def RWf : R → Prop
  | .cont m _ => WfM m
  | .suspend m _ => WfM m
  | .script m _ => WfM m
  | .indicator m _ => WfM m
  | .panic _ => True

theorem RWf_ofSig {x : Mach × Sig} (h : WfM x.1) (i : Str) : RWf (ofSig x i) := by
  obtain ⟨a, b⟩ := x
  cases b <;> first | exact h | trivial

theorem contChar_wf (o : Opts) (pol : Pol) (r : Option Char × Mach × Str) (h : WfM r.2.1) :
    RWf (contChar o pol r) := by
  obtain ⟨c, m1, i1⟩ := r
  cases c with
  | none => exact h
  | some c => exact RWf_ofSig (transChar_wf o pol h c) i1

theorem contSet_wf (o : Opts) (pol : Pol) (r : Option SetRes × Mach × Str) (h : WfM r.2.1) (hr : OptSetOk r.1) :
    RWf (contSet o pol r) := by
  obtain ⟨c, m1, i1⟩ := r
  cases c with
  | none => exact h
  | some c => exact RWf_ofSig (transSet_wf o pol h c hr) i1

/-! ### the character-reference sub-tokenizer -/

/-- the machine of a char-ref step result is well-formed -/
def CRWf : CRRes → Prop
  | .ok v => WfM v.1
  | .error _ => True

theorem CRWf_ok {m : Mach} (h : WfM m) (i : Str) (c : CharRefSt) (s : CRStatus) : CRWf (.ok (m, i, c, s)) := h

theorem WfM_numericErr {m : Mach} (h : WfM m) (o : Opts) (n : Nat) : WfM (numericErr o m n) := by
  unfold numericErr; split
  · exact WfM_emitErrL h _
  · exact WfM_emitErr h _

theorem WfM_nameErr {m : Mach} (h : WfM m) (o : Opts) (nb : Str) : WfM (nameErr o m nb) := by
  unfold nameErr; split
  · exact WfM_emitErrL h _
  · exact WfM_emitErr h _

theorem finishNumericStatus_wf (o : Opts) {m : Mach} (h : WfM m) (inp : Str) (cr : CharRefSt) :
    CRWf (finishNumericStatus o m inp cr) := by
  unfold finishNumericStatus finishNumeric
  dsimp only
  generalize numericValue cr = v
  obtain ⟨v1, v2⟩ := v
  cases v1 <;> cases v2 <;> first | trivial | exact WfM_numericErr h _ _ | exact h

theorem namedDecision_wf {m : Mach} (hm : WfM m) (cr : CharRefSt) (nb : Str) (c1 c2 : Nat) (m1 : Mach) (chars : Str)
    (h : namedDecision m cr nb c1 c2 = .ok (some (m1, chars))) : WfM m1 := by
  unfold namedDecision at h
  dsimp only at h
  repeat' split at h
  all_goals
    first
      | (simp at h; done)
      | (simp only [Except.ok.injEq, Option.some.injEq, Prod.mk.injEq] at h
         obtain ⟨h1, _⟩ := h
         subst h1
         first
           | exact hm
           | exact WfM_setIgnoreLf (WfM_emitErr hm _) false)

theorem finishNamed_wf (o : Opts) {m : Mach} (h : WfM m) (inp : Str) (cr : CharRefSt) (e : Option Char) :
    CRWf (finishNamed o m inp cr e) := by
  unfold finishNamed
  split
  · trivial
  · split
    · dsimp only
      (repeat' split) <;> first | exact h | exact WfM_nameErr h _ _
    · split
      · trivial
      · exact h
      · rename_i hnd
        exact namedDecision_wf h _ _ _ _ _ _ hnd

theorem crStep_wf (o : Opts) {m : Mach} (h : WfM m) (inp : Str) (cr : CharRefSt) : CRWf (crStep o m inp cr) := by
  unfold crStep unconsumeNumeric
  dsimp only
  split
  · exact h
  · split <;> (repeat' split) <;>
      first
      | trivial
      | exact h
      | exact WfM_discardChar h _
      | exact WfM_emitErr h _
      | exact finishNumericStatus_wf o (WfM_discardChar h _) _ _
      | exact finishNumericStatus_wf o (WfM_emitErr h _) _ _
      | exact finishNamed_wf o (WfM_discardChar h _) _ _ _
      | exact WfM_nameErr (WfM_discardChar h _) _ _

theorem foldl_emitChar_wf (cs : Str) : ∀ {m : Mach}, WfM m → WfM (cs.foldl emitChar m) := by
  induction cs with
  | nil => intro m h; exact h
  | cons c cs ih => intro m h; exact ih (WfM_emitChar h c)

theorem foldl_pushValue_wf (cs : Str) : ∀ {m : Mach}, WfM m → WfM (cs.foldl (fun m c => pushValue c m) m) := by
  induction cs with
  | nil => intro m h; exact h
  | cons c cs ih => intro m h; exact ih (WfM_pushValue h c)

theorem processCharRef_wf {m : Mach} (h : WfM m) (chars : Str) : WfM (processCharRef m chars).1 := by
  unfold processCharRef
  dsimp only
  split
  · exact foldl_emitChar_wf _ h
  · exact foldl_emitChar_wf _ h
  · exact foldl_pushValue_wf _ h
  · exact h

theorem stepCharRef_wf (o : Opts) {m : Mach} (h : WfM m) (inp : Str) (cr : CharRefSt) :
    RWf (stepCharRef o m inp cr) := by
  unfold stepCharRef
  have h1 := crStep_wf o h inp cr
  generalize crStep o m inp cr = r at h1
  cases r with
  | error e => trivial
  | ok v =>
    obtain ⟨m1, i1, c1, s1⟩ := v
    cases s1 with
    | stuck => exact h1
    | progress => exact h1
    | done chars =>
      dsimp only
      exact RWf_ofSig (x := ((processCharRef m1 chars).1.setCharRef none, _))
        (WfM_setCharRef (processCharRef_wf h1 chars) none) i1

/-! ### `peek`/`discard_char` and `eat` states -/

theorem stepBav_wf (o : Opts) (pol : Pol) {m : Mach} (h : WfM m) (inp : Str) : RWf (stepBav o pol m inp) := by
  unfold stepBav
  cases peek m inp with
  | none => exact h
  | some c =>
    dsimp only
    have hm : WfM (if m.ignoreLf = true then m.setIgnoreLf false else m) := by
      split <;> exact h
    generalize (if m.ignoreLf = true then m.setIgnoreLf false else m) = m' at hm
    split
    · exact WfM_discardChar hm inp
    · split
      · have hg := getChar_wf o hm inp
        generalize getChar o m' inp = r at hg
        obtain ⟨c1, m1, i1⟩ := r
        cases c1 <;> exact hg
      · repeat' split
        all_goals
          first
          | exact WfM_discardChar hm inp
          | exact WfM_to (WfM_discardChar hm inp) _
          | exact WfM_to hm _
          | exact RWf_ofSig (WfM_emitTag (WfM_badChar (WfM_discardChar hm inp) o) pol _) _

theorem stepMdo_wf (o : Opts) (pol : Pol) {m : Mach} (h : WfM m) (inp : Str) : RWf (stepMdo o pol m inp) := by
  unfold stepMdo
  have e1 := eat_wf h inp kwDashDash eqExact (by decide)
  generalize eat m inp kwDashDash eqExact = r1 at e1
  obtain ⟨x1, m1, i1⟩ := r1
  cases x1 with
  | none => exact e1
  | some t1 =>
    cases t1 with
    | true => exact e1
    | false =>
      dsimp only
      have e2 := eat_wf e1 i1 kwDoctype eqCi (by decide)
      generalize eat m1 i1 kwDoctype eqCi = r2 at e2
      obtain ⟨x2, m2, i2⟩ := r2
      cases x2 with
      | none => exact e2
      | some t2 =>
        cases t2 with
        | true => exact e2
        | false =>
          dsimp only
          split
          · have e3 := eat_wf e2 i2 kwCdata eqExact (by decide)
            generalize eat m2 i2 kwCdata eqExact = r3 at e3
            obtain ⟨x3, m3, i3⟩ := r3
            cases x3 with
            | none => exact e3
            | some t3 =>
              cases t3 with
              | true => exact WfM_to (WfM_clearTemp e3) _
              | false => exact WfM_to (WfM_clearComment (WfM_badChar e3 o)) _
          · exact WfM_to (WfM_clearComment (WfM_badChar e2 o)) _

theorem stepAdn_wf (o : Opts) (pol : Pol) {m : Mach} (h : WfM m) (inp : Str) : RWf (stepAdn o pol m inp) := by
  unfold stepAdn
  have e1 := eat_wf h inp kwPublic eqCi (by decide)
  generalize eat m inp kwPublic eqCi = r1 at e1
  obtain ⟨x1, m1, i1⟩ := r1
  cases x1 with
  | none => exact e1
  | some t1 =>
    cases t1 with
    | true => exact e1
    | false =>
      dsimp only
      have e2 := eat_wf e1 i1 kwSystem eqCi (by decide)
      generalize eat m1 i1 kwSystem eqCi = r2 at e2
      obtain ⟨x2, m2, i2⟩ := r2
      cases x2 with
      | none => exact e2
      | some t2 =>
        cases t2 with
        | true => exact e2
        | false =>
          dsimp only
          exact contChar_wf o pol (getChar o m2 i2) (getChar_wf o e2 i2)

/-! ### one step, `run`, `feed` -/

theorem setOf_zero {s : State} (h : readKind s = .popExcept) : (setOf s).contains '\x00' = true := by
  cases s with
  | rawData k =>
    cases k with
    | scriptDataEscaped k2 => cases k2 <;> decide
    | _ => decide
  | plaintext => decide
  | attributeValue k => cases k <;> decide
  | _ => cases h

/-- **one `Tokenizer::step` preserves the register invariant** -/
theorem step_wf (o : Opts) (pol : Pol) {m : Mach} (h : WfM m) (inp : Str) : RWf (step o pol m inp) := by
  cases hcr : m.charRef with
  | some cr =>
    rw [step_kind_charRef o pol m inp cr hcr]
    exact stepCharRef_wf o h inp cr
  | none =>
    cases hrk : readKind m.state with
    | getChar =>
      rw [step_getChar o pol m inp hcr hrk]
      exact contChar_wf o pol _ (getChar_wf o h inp)
    | popExcept =>
      rw [step_popExcept o pol m inp hcr hrk]
      have hp := popExceptFrom_wf o (setOf m.state) (setOf_zero hrk) h inp
      exact contSet_wf o pol _ hp.1 hp.2
    | dataSimd =>
      rw [step_dataSimd o pol m inp hcr hrk]
      have hp := readData_wf o h inp
      exact contSet_wf o pol _ hp.1 hp.2
    | peekBav =>
      rw [step_kind_bav o pol m inp hcr hrk]
      exact stepBav_wf o pol h inp
    | eatMdo =>
      rw [step_kind_mdo o pol m inp hcr hrk]
      exact stepMdo_wf o pol h inp
    | eatAdn =>
      rw [step_kind_adn o pol m inp hcr hrk]
      exact stepAdn_wf o pol h inp

/-- the machine of a run result is well-formed -/
def RunWf : RunRes → Prop
  | .done m _ => WfM m
  | .script m _ => WfM m
  | .indicator m _ => WfM m
  | .panic _ => True
  | .outOfFuel => True

theorem run_wf (o : Opts) (pol : Pol) : ∀ (fuel : Nat) {m : Mach}, WfM m → ∀ inp : Str,
    RunWf (run o pol fuel m inp) := by
  intro fuel
  induction fuel with
  | zero => intro m _ inp; trivial
  | succ n ih =>
    intro m h inp
    unfold run
    have hs := step_wf o pol h inp
    generalize step o pol m inp = r at hs
    cases r with
    | cont m1 i1 => exact ih hs i1
    | suspend m1 i1 => exact hs
    | script m1 i1 => exact hs
    | indicator m1 i1 => exact hs
    | panic e => trivial

theorem feedBom_wf {m : Mach} (h : WfM m) (inp : Str) : WfM (feedBom m inp).1 := by
  unfold feedBom
  cases inp with
  | nil => exact h
  | cons c rest =>
    dsimp only
    split <;> exact h

theorem feed_wf (o : Opts) (pol : Pol) {m : Mach} (h : WfM m) (inp chunk : Str) :
    RunWf (feed o pol m inp chunk) := by
  unfold feed
  dsimp only
  split
  · exact h
  · exact run_wf o pol _ (feedBom_wf h _) _

/-! ### end of input -/

/-- the log is the EOF token on top of a well-formed EOF-free log -/
def EofOut (out : Out) : Prop := ∃ l rest, out = (Token.eof, l) :: rest ∧ OutWf rest

/-- result of an `eof_step` -/
def EofWf (x : Mach × EofSig) : Prop :=
  match x.2 with
  | .cont => WfM x.1
  | .done => EofOut x.1.out
  | .panic _ => True

theorem EofWf_cont {m : Mach} (h : WfM m) : EofWf (m, .cont) := h
theorem EofWf_done {m : Mach} (h : WfM m) : EofWf (emit m .eof, .done) := ⟨m.line, m.out, rfl, h.2.2.2⟩

set_option maxHeartbeats 1600000 in
/-- the `eof_step` table: `Continue` preserves the invariant, `Done` pushes exactly the EOF token -/
theorem transEof_wf (o : Opts) {m : Mach} (h : WfM m) : EofWf (transEof o m) := by
  unfold transEof
  split <;> (try dsimp only) <;>
    first
    | exact EofWf_done h
    | (apply EofWf_cont; wf_chain h)

theorem eofLoop_wf (o : Opts) : ∀ (n : Nat) {m : Mach}, WfM m → ∀ mf, eofLoop o n m = .ok mf → EofOut mf.out := by
  intro n
  induction n with
  | zero => intro m _ mf e; cases e
  | succ n ih =>
    intro m h mf e
    unfold eofLoop at e
    have ht := transEof_wf o h
    generalize transEof o m = r at ht e
    obtain ⟨m1, s1⟩ := r
    cases s1 with
    | cont => exact ih ht mf e
    | done =>
      simp only [Except.ok.injEq] at e
      subst e
      exact ht
    | panic x => cases e

theorem crEofOnceE_wf (o : Opts) {m : Mach} (h : WfM m) (inp : Str) (cr : CharRefSt) :
    CRWf (crEofOnceE o m inp cr) := by
  unfold crEofOnceE unconsumeNumeric
  split <;> (repeat' split) <;>
    first
    | trivial
    | exact h
    | exact WfM_emitErr h _
    | exact finishNumericStatus_wf o (WfM_emitErr h _) _ _
    | exact finishNamed_wf o h _ _ _

/-- result of the char-ref tokenizer's `end_of_file` -/
def CEWf : Except String (Mach × Str × Str) → Prop
  | .ok v => WfM v.1
  | .error _ => True

theorem crEofLast_wf {r : CRRes} (h : CRWf r) : CEWf (crEofLast r) := by
  cases r with
  | error e => trivial
  | ok v =>
    obtain ⟨m1, i1, c1, s1⟩ := v
    cases s1 <;> exact h

theorem crEofDrive_wf (o : Opts) {r : CRRes} (h : CRWf r) : CEWf (crEofDrive o r) := by
  cases r with
  | error e => trivial
  | ok v =>
    obtain ⟨m1, i1, c1, s1⟩ := v
    cases s1 with
    | stuck => exact h
    | done chars => exact h
    | progress => exact crEofLast_wf (crEofOnceE_wf o h _ _)

theorem crEof_wf (o : Opts) {m : Mach} (h : WfM m) (inp : Str) (cr : CharRefSt) : CEWf (crEof o m inp cr) := by
  rw [crEof_eqE]
  exact crEofDrive_wf o (crEofOnceE_wf o h inp cr)

theorem finishPreE_wf (o : Opts) {m : Mach} (h : WfM m) (mi : Mach × Str) (e : finishPreE o m = .ok mi) :
    WfM mi.1 := by
  unfold finishPreE at e
  split at e
  · simp only [Except.ok.injEq] at e
    subst e; exact h
  · rename_i cr _
    have hc := crEof_wf o h [] cr
    generalize crEof o m [] cr = r at hc e
    cases r with
    | error x => cases e
    | ok v =>
      obtain ⟨m1, i1, ch⟩ := v
      dsimp only at e
      have hp := processCharRef_wf (WfM_setCharRef (m := m1) hc none) ch
      generalize processCharRef (m1.setCharRef none) ch = p at hp e
      obtain ⟨p1, p2⟩ := p
      cases p2 with
      | cont =>
        simp only [Except.ok.injEq] at e
        subst e; exact hp
      | _ => cases e

theorem finishPost_wf (o : Opts) (pol : Pol) (mi : Mach × Str) (h : WfM mi.1) (mf : Mach)
    (e : finishPost o pol mi = .ok mf) : EofOut mf.out := by
  unfold finishPost at e
  dsimp only at e
  have hr := run_wf o pol (fuelFor (mi.1.setAtEof true) mi.2) (WfM_setAtEof h true) mi.2
  generalize run o pol (fuelFor (mi.1.setAtEof true) mi.2) (mi.1.setAtEof true) mi.2 = r at hr e
  cases r with
  | done m1 i1 =>
    dsimp only at e
    split at e
    · cases e
    · exact eofLoop_wf o 8 hr mf e
  | script m1 i1 => cases e
  | indicator m1 i1 => cases e
  | panic x => cases e
  | outOfFuel => cases e

/-- `Tokenizer::end` from a machine satisfying the register invariant -/
theorem finish_wf (o : Opts) (pol : Pol) {m : Mach} (h : WfM m) (mf : Mach) (e : finish o pol m = .ok mf) :
    EofOut mf.out := by
  rw [finish_eqE] at e
  have hp := finishPreE_wf o h
  generalize finishPreE o m = r at hp e
  cases r with
  | error x => cases e
  | ok mi => exact finishPost_wf o pol mi (hp mi rfl) mf e

theorem WfM_fresh (st : State) (last : Option Str) (bom : Bool) :
    WfM { state := st, lastStartTag := last, discardBom := bom } :=
  ⟨(by intro c hc; cases hc), List.nodup_nil, (by intro hx; cases hx), OutWf_nil⟩

/-- `Tokenizer::feed` from a fresh tokenizer (any start state `st`, last start tag, BOM flag), then
`Tokenizer::end`: the log is the EOF token on top of a well-formed EOF-free log -/
theorem feed_finish_outWf (o : Opts) (pol : Pol) (st : State) (last : Option Str) (bom : Bool) (s : Str)
    (m1 : Mach) (i1 : Str) (mf : Mach)
    (h1 : feed o pol { state := st, lastStartTag := last, discardBom := bom } [] s = .done m1 i1)
    (h2 : finish o pol m1 = .ok mf) :
    ∃ l rest, mf.out = (Token.eof, l) :: rest ∧ OutWf rest := by
  have hf := feed_wf o pol (WfM_fresh st last bom) [] s
  rw [h1] at hf
  exact finish_wf o pol hf mf h2

/-- corollary: every token of the final log is well-formed -/
theorem feed_finish_tokWf (o : Opts) (pol : Pol) (st : State) (last : Option Str) (bom : Bool) (s : Str)
    (m1 : Mach) (i1 : Str) (mf : Mach)
    (h1 : feed o pol { state := st, lastStartTag := last, discardBom := bom } [] s = .done m1 i1)
    (h2 : finish o pol m1 = .ok mf) :
    ∀ p ∈ mf.out, TokWfT p.1 := by
  obtain ⟨l, rest, e, hw⟩ := feed_finish_outWf o pol st last bom s m1 i1 mf h1 h2
  rw [e]
  intro p hp
  rcases List.mem_cons.mp hp with rfl | hp
  · trivial
  · exact (hw p hp).1

end H5V.Lemmas.ParseSpec
