import H5V.Lemmas.HtmlTBMetaBase
import H5V.Lemmas.HtmlTBReachAttr
/-!
C18 (`trace_handles` reports every node still needed), tree-builder side, part 1: the vocabulary.

* `held s` — every handle in a handle-holding field of the builder (the fields `trace_handles`
  visits: `doc_handle`, `open_elems`, `active_formatting`, `head_elem`, `form_elem`, `context_elem`);
* `opArgs op` / `outRets out` — the handles a sink call is given / gives back;
* `ArgsOK K calls` — every handle given to the sink in `calls` (newest first) is known beforehand
  (`K`) or was given back by an earlier call of `calls`;
* `PV c m R` — the provenance judgement: if the handles held by the builder and the handles in flight
  (`c`) are known, then `m` only passes known handles to the sink, the handles the builder holds
  afterwards are known, and so are the handles `R a` in the value `a` it returns —
  "known" growing with everything the sink returns on the way.
-/
namespace H5V.Props.C18
open H5V.Model.Dom (Id QualName Attr NodeOrText SinkOp Output ElementFlags QuirksMode Dom)
open H5V.Model.HtmlTB
open H5V.Lemmas.TBM

/-! ## handles -/

/-- the element handles in the list of active formatting elements -/
def afIds : List FormatEntry → List Id
  | [] => []
  | .element h _ :: rest => h :: afIds rest
  | .marker :: rest => afIds rest

/-- every handle the builder holds: exactly the fields `trace_handles` reports -/
def held (s : State) : List Id :=
  s.docHandle :: (s.openElems ++ (afIds s.activeFormatting ++ (s.headElem.toList ++ (s.formElem.toList ++
    s.contextElem.toList))))

def childIds : NodeOrText → List Id
  | .node id => [id]
  | .text _ => []

/-- the handles a sink call is given -/
def opArgs : SinkOp → List Id
  | .elemName t => [t]
  | .append p c => p :: childIds c
  | .appendBasedOnParentNode e p c => e :: p :: childIds c
  | .markScriptAlreadyStarted n => [n]
  | .pop n => [n]
  | .getTemplateContents t => [t]
  | .sameNode x y => [x, y]
  | .appendBeforeSibling s c => s :: childIds c
  | .addAttrsIfMissing t _ => [t]
  | .associateWithForm t f n p => t :: f :: n :: p.toList
  | .removeFromParent t => [t]
  | .reparentChildren n np => [n, np]
  | .isMathmlAnnotationXmlIntegrationPoint t => [t]
  | .allowDeclarativeShadowRoots p => [p]
  | .attachDeclarativeShadow l t _ => [l, t]
  | .maybeCloneAnOptionIntoSelectedcontent o => [o]
  | .parseError _ => []
  | .getDocument => []
  | .createElement _ _ _ => []
  | .createComment _ => []
  | .createPi _ _ => []
  | .appendDoctypeToDocument _ _ _ => []
  | .setQuirksMode _ => []
  | .setCurrentLine _ => []

/-- the handle a sink call gives back -/
def outRets : Output → List Id
  | .node id => [id]
  | _ => []

/-- all handles given back by the calls of a trace -/
def rets : List (SinkOp × Output) → List Id
  | [] => []
  | c :: tr => outRets c.2 ++ rets tr

theorem rets_append (a b : List (SinkOp × Output)) : rets (a ++ b) = rets a ++ rets b := by
  induction a with
  | nil => rfl
  | cons c tr ih => simp [rets, ih]

/-- every argument of every call (newest first) is known (`K`) or was returned by an earlier call -/
def ArgsOK (K : Id → Prop) : List (SinkOp × Output) → Prop
  | [] => True
  | c :: tr => (∀ h ∈ opArgs c.1, K h ∨ h ∈ rets tr) ∧ ArgsOK K tr

theorem ArgsOK.mono {K K' : Id → Prop} (hk : ∀ h, K h → K' h) : ∀ {tr : List (SinkOp × Output)}, ArgsOK K tr → ArgsOK K' tr
  | [], _ => trivial
  | _ :: _, ⟨h1, h2⟩ => ⟨fun h hm => (h1 h hm).imp (hk h) id, ArgsOK.mono hk h2⟩

theorem ArgsOK.append {K : Id → Prop} {n1 : List (SinkOp × Output)} (h1 : ArgsOK K n1) :
    ∀ {n2 : List (SinkOp × Output)}, ArgsOK (fun h => K h ∨ h ∈ rets n1) n2 → ArgsOK K (n2 ++ n1)
  | [], _ => h1
  | c :: tr, ⟨ha, hb⟩ => by
    refine ⟨?_, ArgsOK.append h1 hb⟩
    intro h hm
    show K h ∨ h ∈ rets (tr ++ n1)
    rw [rets_append]
    rcases ha h hm with (hk | hr) | hr
    · exact Or.inl hk
    · exact Or.inr (List.mem_append_right _ hr)
    · exact Or.inr (List.mem_append_left _ hr)

/-! ## the judgement -/

/-- what a successful run of `m` from `s` guarantees relative to the known handles `K` -/
structure Post (K : Id → Prop) (s s' : State) (R : List Id) : Prop where
  ex : ∃ new, s'.traceRev = new ++ s.traceRev ∧ ArgsOK K new ∧
    (∀ h ∈ held s', K h ∨ h ∈ rets new) ∧ (∀ h ∈ R, K h ∨ h ∈ rets new)

/-- the judgement for runs that start in the state `s0` (needed where the model puts back a
modified copy of the state it has just read: `let s ← getS; … set { s with … }`) -/
structure PVat {α : Type} (s0 : State) (c : List Id) (m : M α) (R : α → List Id) : Prop where
  h : ∀ (K : Id → Prop) (a : α) (s' : State), m s0 = .ok (a, s') →
    (∀ h ∈ held s0, K h) → (∀ h ∈ c, K h) → Post K s0 s' (R a)

/-- provenance: with the held handles and the handles in flight `c` known, `m` passes only known
handles to the sink; afterwards the held handles and the handles `R a` of the answer are known -/
structure PV {α : Type} (c : List Id) (m : M α) (R : α → List Id) : Prop where
  h : ∀ s, PVat s c m R

/-- no handles in the answer -/
abbrev nil {α : Type} : α → List Id := fun _ => []

theorem PV.at {α : Type} {c : List Id} {m : M α} {R : α → List Id} (h : PV c m R) (s : State) : PVat s c m R := h.h s

theorem PVat.bind {α β : Type} {s : State} {c : List Id} {m : M α} {f : α → M β} {R : α → List Id}
    {R' : β → List Id} (h1 : PVat s c m R) (h2 : ∀ a, PV (R a ++ c) (f a) R') : PVat s c (m >>= f) R' := by
  constructor
  intro K b s'' e hh hc
  obtain ⟨a, s', e1, e2⟩ := bind_ok.mp e
  obtain ⟨n1, t1, a1, k1, r1⟩ := (h1.h K a s' e1 hh hc).ex
  have hc' : ∀ h ∈ R a ++ c, K h ∨ h ∈ rets n1 := by
    intro h hm
    rcases List.mem_append.mp hm with hm | hm
    · exact r1 h hm
    · exact Or.inl (hc h hm)
  obtain ⟨n2, t2, a2, k2, r2⟩ := (((h2 a).h s').h (fun h => K h ∨ h ∈ rets n1) b s'' e2 k1 hc').ex
  refine ⟨n2 ++ n1, by rw [t2, t1, List.append_assoc], a1.append a2, ?_, ?_⟩
  · intro h hm
    rw [rets_append]
    rcases k2 h hm with (hk | hr) | hr
    · exact Or.inl hk
    · exact Or.inr (List.mem_append_right _ hr)
    · exact Or.inr (List.mem_append_left _ hr)
  · intro h hm
    rw [rets_append]
    rcases r2 h hm with (hk | hr) | hr
    · exact Or.inl hk
    · exact Or.inr (List.mem_append_right _ hr)
    · exact Or.inr (List.mem_append_left _ hr)

theorem PV.bind {α β : Type} {c : List Id} {m : M α} {f : α → M β} {R : α → List Id} {R' : β → List Id}
    (h1 : PV c m R) (h2 : ∀ a, PV (R a ++ c) (f a) R') : PV c (m >>= f) R' :=
  ⟨fun s => (h1.h s).bind h2⟩

theorem PV.pure {α : Type} {c : List Id} {a : α} {R : α → List Id} (h : ∀ x ∈ R a, x ∈ c) :
    PV c (Pure.pure a : M α) R := by
  constructor
  intro s
  constructor
  intro K b s' e hh hc
  obtain ⟨rfl, rfl⟩ := pure_ok.mp e
  exact ⟨[], rfl, trivial, fun x hx => Or.inl (hh x hx), fun x hx => Or.inl (hc x (h x hx))⟩

theorem PV.pureBind {α β : Type} {c : List Id} {a : α} {f : α → M β} {R' : β → List Id} (h : PV c (f a) R') :
    PV c ((Pure.pure a : M α) >>= f) R' := by
  constructor
  intro s
  constructor
  intro K b s'' e hh hc
  obtain ⟨a', s', e1, e2⟩ := bind_ok.mp e
  obtain ⟨rfl, rfl⟩ := pure_ok.mp e1
  exact (h.h _).h K _ _ e2 hh hc

theorem PV.iteH {α : Type} {c : List Id} {p : Prop} [Decidable p] {a b : M α} {R : α → List Id}
    (h1 : p → PV c a R) (h2 : ¬ p → PV c b R) : PV c (if p then a else b) R := by
  by_cases hp : p
  · simp only [hp, if_true]; exact h1 hp
  · simp only [hp, if_false]; exact h2 hp

theorem PVat.iteH {α : Type} {s : State} {c : List Id} {p : Prop} [Decidable p] {a b : M α} {R : α → List Id}
    (h1 : p → PVat s c a R) (h2 : ¬ p → PVat s c b R) : PVat s c (if p then a else b) R := by
  by_cases hp : p
  · simp only [hp, if_true]; exact h1 hp
  · simp only [hp, if_false]; exact h2 hp

theorem PV.throw {α : Type} {c : List Id} {R : α → List Id} (e : String) : PV c (throw e : M α) R :=
  ⟨fun _ => ⟨fun _ _ _ h => absurd h throw_ok⟩⟩

theorem PV.panicAt {α : Type} {c : List Id} {R : α → List Id} (x y z : String) : PV c (panicAt x y z : M α) R :=
  ⟨fun _ => ⟨fun _ _ _ h => absurd h throw_ok⟩⟩

theorem PV.fuelOut {α : Type} {c : List Id} {R : α → List Id} (w : String) : PV c (fuelOut w : M α) R :=
  ⟨fun _ => ⟨fun _ _ _ h => absurd h throw_ok⟩⟩

/-- more handles in flight never hurt -/
theorem PV.weaken {α : Type} {c c' : List Id} {m : M α} {R : α → List Id} (h : PV c m R)
    (hs : ∀ x ∈ c, x ∈ c') : PV c' m R :=
  ⟨fun s => ⟨fun K a s' e hh hc => (h.h s).h K a s' e hh (fun x hx => hc x (hs x hx))⟩⟩

/-- handles of the answer: fewer claimed, or claimed because they were in flight anyway -/
theorem PV.remember {α : Type} {c : List Id} {m : M α} {R R' : α → List Id} (h : PV c m R)
    (hs : ∀ a, ∀ x ∈ R' a, x ∈ R a ∨ x ∈ c) : PV c m R' :=
  ⟨fun s => ⟨fun K a s' e hh hc => by
    obtain ⟨n, t, ao, k, r⟩ := ((h.h s).h K a s' e hh hc).ex
    refine ⟨n, t, ao, k, fun x hx => ?_⟩
    rcases hs a x hx with h1 | h1
    · exact r x h1
    · exact Or.inl (hc x h1)⟩⟩

theorem PV.forget {α : Type} {c : List Id} {m : M α} {R R' : α → List Id} (h : PV c m R)
    (hs : ∀ a, ∀ x ∈ R' a, x ∈ R a) : PV c m R' :=
  h.remember fun a x hx => Or.inl (hs a x hx)

/-! ### primitives -/

/-- reading the state: what follows knows the handles it holds, and that it *is* the current state -/
theorem PV.getS_bind {β : Type} {c : List Id} {f : State → M β} {R : β → List Id}
    (h : ∀ s, PVat s (held s ++ c) (f s) R) : PV c (getS >>= f) R := by
  constructor
  intro s
  constructor
  intro K b s'' e hh hc
  obtain ⟨a, s', e1, e2⟩ := bind_ok.mp e
  obtain ⟨rfl, rfl⟩ := getS_ok.mp e1
  refine (h _).h K b s'' e2 hh ?_
  intro x hx
  rcases List.mem_append.mp hx with hx | hx
  · exact hh x hx
  · exact hc x hx

theorem PVat.getS_bind {β : Type} {s0 : State} {c : List Id} {f : State → M β} {R : β → List Id}
    (h : ∀ s, PVat s (held s ++ c) (f s) R) : PVat s0 c (getS >>= f) R := (PV.getS_bind h).h s0

theorem pv_getS {c : List Id} : PV c getS held :=
  ⟨fun s => ⟨fun K a s' e hh _ => by
    obtain ⟨rfl, rfl⟩ := getS_ok.mp e
    exact ⟨[], rfl, trivial, fun x hx => Or.inl (hh x hx), fun x hx => Or.inl (hh x hx)⟩⟩⟩

theorem pv_modS {c : List Id} {f : State → State} (ht : ∀ s, (f s).traceRev = s.traceRev)
    (hf : ∀ s, ∀ x ∈ held (f s), x ∈ held s ∨ x ∈ c) : PV c (modS f) nil :=
  ⟨fun s => ⟨fun K _ s' e hh hc => by
    rw [modS_ok.mp e]
    refine ⟨[], by rw [ht]; rfl, trivial, fun x hx => Or.inl ?_, fun _ hx => nomatch hx⟩
    rcases hf s x hx with h1 | h1
    · exact hh x h1
    · exact hc x h1⟩⟩

/-- putting back a modified copy of the state just read -/
theorem PVat.put {s : State} {c : List Id} {x : State} (ht : x.traceRev = s.traceRev)
    (hx : ∀ y ∈ held x, y ∈ c) : PVat s c (set x : M Unit) nil :=
  ⟨fun K _ s' e _ hc => by
    rw [set_ok.mp e]
    exact ⟨[], by rw [ht]; rfl, trivial, fun y hy => Or.inl (hc y (hx y hy)), fun _ h => nomatch h⟩⟩

theorem PVat.put_bind {β : Type} {s : State} {c : List Id} {x : State} {f : Unit → M β} {R : β → List Id}
    (ht : x.traceRev = s.traceRev) (hx : ∀ y ∈ held x, y ∈ c) (h : ∀ u, PV c (f u) R) :
    PVat s c ((set x : M Unit) >>= f) R :=
  (PVat.put ht hx).bind fun u => (h u).weaken fun _ hy => by simpa using hy

/-- one sink call: its arguments must be in flight; what it gives back is known from then on -/
theorem pv_sink {c : List Id} (op : SinkOp) (h : ∀ x ∈ opArgs op, x ∈ c) : PV c (sink op) outRets :=
  ⟨fun s => ⟨fun K out s' e hh hc => by
    obtain ⟨d, _, rfl⟩ := sink_ok.mp e
    refine ⟨[(op, out)], rfl, ⟨fun x hx => Or.inl (hc x (h x hx)), trivial⟩, fun x hx => Or.inl (hh x hx), ?_⟩
    intro x hx
    exact Or.inr (by simpa [rets] using hx)⟩⟩

theorem PVat.of_bind {α β : Type} {s : State} {c : List Id} {m : M α} {f : α → M β} {R : β → List Id}
    (h : PV c (m >>= f) R) : PVat s c (m >>= f) R := h.h s

/-! ### handles of an answer, by type (used where the first computation of a bind is not a call of a
helper but an inline `if` / `match`) -/

/-- the handle that is the answer -/
abbrev one : Id → List Id := fun a => [a]

theorem PV.bindU {β : Type} {c : List Id} {m : M Unit} {f : Unit → M β} {R' : β → List Id}
    (h1 : PV c m nil) (h2 : ∀ a, PV (nil a ++ c) (f a) R') : PV c (m >>= f) R' := h1.bind h2
theorem PV.bindB {β : Type} {c : List Id} {m : M Bool} {f : Bool → M β} {R' : β → List Id}
    (h1 : PV c m nil) (h2 : ∀ a, PV (nil a ++ c) (f a) R') : PV c (m >>= f) R' := h1.bind h2
theorem PV.bindT {β : Type} {c : List Id} {m : M Tag} {f : Tag → M β} {R' : β → List Id}
    (h1 : PV c m nil) (h2 : ∀ a, PV (nil a ++ c) (f a) R') : PV c (m >>= f) R' := h1.bind h2
theorem PV.bindI {β : Type} {c : List Id} {m : M Id} {f : Id → M β} {R' : β → List Id}
    (h1 : PV c m one) (h2 : ∀ a, PV (one a ++ c) (f a) R') : PV c (m >>= f) R' := h1.bind h2
theorem PV.bindO {β : Type} {c : List Id} {m : M (Option Id)} {f : Option Id → M β} {R' : β → List Id}
    (h1 : PV c m Option.toList) (h2 : ∀ a, PV (a.toList ++ c) (f a) R') : PV c (m >>= f) R' := h1.bind h2

/-! ### join points: the continuation `have __do_jp := fun r => …` of a `do` block is walked once;
its calls are discharged from the hypothesis (weakened to the handles in flight at the call) -/

theorem PV.withJp {α β : Type} {c : List Id} {R : β → List Id} {m : M β} (Ra : α → List Id) (jp : α → M β)
    (hk : ∀ r, PV (Ra r ++ c) (jp r) R)
    (hb : (∀ c' r, (∀ x ∈ Ra r ++ c, x ∈ c') → PV c' (jp r) R) → PV c m R) : PV c m R :=
  hb (fun _ r hs => (hk r).weaken hs)

theorem PVat.withJp {α β : Type} {s : State} {c : List Id} {R : β → List Id} {m : M β} (Ra : α → List Id)
    (jp : α → M β) (hk : ∀ r, PV (Ra r ++ c) (jp r) R)
    (hb : (∀ c' r, (∀ x ∈ Ra r ++ c, x ∈ c') → PV c' (jp r) R) → PVat s c m R) : PVat s c m R :=
  hb (fun _ r hs => (hk r).weaken hs)

/-! ### membership -/

@[pv_mem] theorem mem_afIds {x : Id} : ∀ {af : List FormatEntry}, x ∈ afIds af ↔ ∃ t, FormatEntry.element x t ∈ af
  | [] => by simp [afIds]
  | .marker :: rest => by simp [afIds, mem_afIds (af := rest)]
  | .element h t :: rest => by
    simp only [afIds, List.mem_cons, mem_afIds (af := rest), FormatEntry.element.injEq]
    constructor
    · rintro (rfl | ⟨t', h'⟩)
      · exact ⟨t, Or.inl ⟨rfl, rfl⟩⟩
      · exact ⟨t', Or.inr h'⟩
    · rintro ⟨t', (⟨rfl, _⟩ | h')⟩
      · exact Or.inl rfl
      · exact Or.inr ⟨t', h'⟩

theorem mem_held {s : State} {x : Id} : x ∈ held s ↔
    x = s.docHandle ∨ x ∈ s.openElems ∨ x ∈ afIds s.activeFormatting ∨ s.headElem = some x ∨
      s.formElem = some x ∨ s.contextElem = some x := by
  simp [held, Option.mem_toList]

theorem mem_of_head? {α : Type} {l : List α} {h : α} (e : l.head? = some h) : h ∈ l := by
  cases l with
  | nil => cases e
  | cons a t => cases e; simp

theorem mem_of_mem_dropLast {α : Type} {l : List α} {h : α} (e : h ∈ l.dropLast) : h ∈ l :=
  (List.dropLast_sublist l).subset e

theorem mem_of_mem_insertIdx {α : Type} {l : List α} {i : Nat} {a b : α} (e : a ∈ l.insertIdx i b) :
    a = b ∨ a ∈ l := by
  by_cases hi : i ≤ l.length
  · exact (List.mem_insertIdx hi).mp e
  · rw [List.insertIdx_of_length_lt (by omega)] at e
    exact Or.inr e

theorem mem_insertIdx_of_mem {α : Type} {l : List α} {i : Nat} {a b : α} (hi : i ≤ l.length) (e : a ∈ l) :
    a ∈ l.insertIdx i b := (List.mem_insertIdx hi).mpr (Or.inr e)

/-- the side conditions are membership statements between lists built from `++`, `::`, `held`,
`Option.toList`.  Fast path: `simp` with the hypotheses; slow path: unfold `held` and call `grind`
with the forward facts about `head?`, `getLast?`, `take`, `eraseIdx`, … -/
syntax "mem_heavy0" : tactic
macro_rules
  | `(tactic| mem_heavy0) => `(tactic|
      (intros
       try simp only [pv_mem, mem_held, List.mem_append, List.mem_cons, List.mem_singleton, List.not_mem_nil, Option.mem_toList,
         List.mem_reverse, opArgs, outRets, childIds, nil, one, or_false, false_or, Option.toList_some,
         Option.toList_none] at *
       first | done | grind [mem_of_head?, List.mem_of_getLast?, mem_of_mem_dropLast, List.mem_of_mem_take,
         List.mem_of_mem_drop, List.mem_of_mem_eraseIdx, List.mem_or_eq_of_mem_set, mem_of_mem_insertIdx]))

/-- extended later (forward facts about entries read from the builder's lists) -/
syntax "mem_heavy" : tactic
macro_rules
  | `(tactic| mem_heavy) => `(tactic| mem_heavy0)


/-! ### forward facts: a handle read from a field of the builder is held -/

/-- the handle of an entry -/
def feH : FormatEntry → List Id
  | .element h _ => [h]
  | .marker => []
@[pv_mem] theorem feH_element (h : Id) (t : Tag) : feH (.element h t) = [h] := rfl
@[pv_mem] theorem feH_marker : feH .marker = [] := rfl

/-- entries read from the builder's list are held -/
theorem feH_of_getElem? {s : State} {i : Nat} {e : FormatEntry} (h : s.activeFormatting[i]? = some e) :
    ∀ x ∈ feH e, x ∈ held s := by
  intro x hx
  cases e with
  | marker => cases hx
  | element h' t =>
    simp only [feH_element, List.mem_singleton] at hx
    subst hx
    exact mem_held.mpr (Or.inr (Or.inr (Or.inl (mem_afIds.mpr ⟨t, List.mem_of_getElem? h⟩))))

theorem feH_of_getLast? {s : State} {e : FormatEntry} (h : s.activeFormatting.getLast? = some e) :
    ∀ x ∈ feH e, x ∈ held s := by
  intro x hx
  cases e with
  | marker => cases hx
  | element h' t =>
    simp only [feH_element, List.mem_singleton] at hx
    subst hx
    exact mem_held.mpr (Or.inr (Or.inr (Or.inl (mem_afIds.mpr ⟨t, List.mem_of_getLast? h⟩))))

/-- the formatting element found in the list of active formatting elements is held -/
theorem find_afEndToMarker_held {s : State} {p : Nat × Id × Tag → Bool} {i : Nat} {h : Id} {t : Tag}
    (e : (afEndToMarker s.activeFormatting).find? p = some (i, h, t)) : h ∈ held s := by
  have hm := List.mem_of_find?_eq_some e
  have aux : ∀ (l : List (FormatEntry × Nat)), (i, h, t) ∈ afEndToMarkerAux l → (FormatEntry.element h t, i) ∈ l := by
    intro l
    induction l with
    | nil => intro hx; cases hx
    | cons a rest ih =>
      obtain ⟨fe, j⟩ := a
      cases fe with
      | marker => intro hx; cases hx
      | element h' t' =>
        intro hx
        simp only [afEndToMarkerAux, List.mem_cons, Prod.mk.injEq] at hx
        rcases hx with ⟨rfl, rfl, rfl⟩ | hx
        · exact List.mem_cons_self
        · exact List.mem_cons_of_mem _ (ih hx)
  have h2 := aux _ hm
  rw [List.mem_reverse, List.mem_zipIdx_iff_getElem?] at h2
  exact mem_held.mpr (Or.inr (Or.inr (Or.inl (mem_afIds.mpr ⟨t, List.mem_of_getElem? h2⟩))))


theorem held_of_getLast? {s : State} {h : Id} (e : s.openElems.getLast? = some h) : h ∈ held s :=
  mem_held.mpr (Or.inr (Or.inl (List.mem_of_getLast? e)))
theorem held_of_head? {s : State} {h : Id} (e : s.openElems.head? = some h) : h ∈ held s :=
  mem_held.mpr (Or.inr (Or.inl (mem_of_head? e)))
theorem held_of_getElem? {s : State} {i : Nat} {h : Id} (e : s.openElems[i]? = some h) : h ∈ held s :=
  mem_held.mpr (Or.inr (Or.inl (List.mem_of_getElem? e)))
theorem held_of_headElem {s : State} {h : Id} (e : s.headElem = some h) : h ∈ held s :=
  mem_held.mpr (Or.inr (Or.inr (Or.inr (Or.inl e))))
theorem held_of_formElem {s : State} {h : Id} (e : s.formElem = some h) : h ∈ held s :=
  mem_held.mpr (Or.inr (Or.inr (Or.inr (Or.inr (Or.inl e)))))
theorem held_of_contextElem {s : State} {h : Id} (e : s.contextElem = some h) : h ∈ held s :=
  mem_held.mpr (Or.inr (Or.inr (Or.inr (Or.inr (Or.inr e)))))

/-- run after a `match` on a field of the builder has been split: records that the handle read is held -/
syntax "fwd_tac" : tactic
macro_rules
  | `(tactic| fwd_tac) => `(tactic|
      ((try (have hfw := held_of_getLast? ‹List.getLast? (State.openElems _) = some _›))
       (try (have hfw := held_of_head? ‹List.head? (State.openElems _) = some _›))
       (try (have hfw := held_of_getElem? ‹(State.openElems _)[_]? = some _›))
       (try (have hfw := held_of_headElem ‹State.headElem _ = some _›))
       (try (have hfw := held_of_formElem ‹State.formElem _ = some _›))
       (try (have hfw := held_of_contextElem ‹State.contextElem _ = some _›))
       (try (have hfw := feH_of_getElem? ‹(State.activeFormatting _)[_]? = some _›))
       (try (have hfw := feH_of_getLast? ‹(State.activeFormatting _).getLast? = some _›))
       (try (have hfw := find_afEndToMarker_held ‹List.find? _ (afEndToMarker _) = some _›))))

/-- `∀ x ∈ c, x ∈ a₁ ++ (a₂ ++ … ++ c)`: the handles in flight only grow at the front -/
syntax "suffix_tac" : tactic
macro_rules
  | `(tactic| suffix_tac) => `(tactic|
      (intro x hx
       repeat (first | exact hx | apply List.mem_append_right)
       done))

/-- the handle-holding fields one by one -/
theorem held_of_fields {s s' : State} {c : List Id} (hd : s'.docHandle = s.docHandle)
    (ho : ∀ x ∈ s'.openElems, x ∈ s.openElems ∨ x ∈ c)
    (ha : ∀ x t, FormatEntry.element x t ∈ s'.activeFormatting →
      (∃ t', FormatEntry.element x t' ∈ s.activeFormatting) ∨ x ∈ c)
    (hh : ∀ x, s'.headElem = some x → s.headElem = some x ∨ x ∈ c)
    (hf : ∀ x, s'.formElem = some x → s.formElem = some x ∨ x ∈ c)
    (hc : ∀ x, s'.contextElem = some x → s.contextElem = some x ∨ x ∈ c) :
    ∀ x ∈ held s', x ∈ held s ∨ x ∈ c := by
  intro x hx
  simp only [mem_held, mem_afIds] at hx ⊢
  rcases hx with hx | hx | ⟨t, hx⟩ | hx | hx | hx
  · exact Or.inl (Or.inl (hx.trans hd))
  · exact (ho x hx).imp (fun h => Or.inr (Or.inl h)) id
  · exact (ha x t hx).imp (fun h => Or.inr (Or.inr (Or.inl h))) id
  · exact (hh x hx).imp (fun h => Or.inr (Or.inr (Or.inr (Or.inl h)))) id
  · exact (hf x hx).imp (fun h => Or.inr (Or.inr (Or.inr (Or.inr (Or.inl h))))) id
  · exact (hc x hx).imp (fun h => Or.inr (Or.inr (Or.inr (Or.inr (Or.inr h))))) id

theorem held_of_fields_app {s s' : State} {c : List Id} (hd : s'.docHandle = s.docHandle)
    (ho : ∀ x ∈ s'.openElems, x ∈ s.openElems ∨ x ∈ c)
    (ha : ∀ x t, FormatEntry.element x t ∈ s'.activeFormatting →
      (∃ t', FormatEntry.element x t' ∈ s.activeFormatting) ∨ x ∈ c)
    (hh : ∀ x, s'.headElem = some x → s.headElem = some x ∨ x ∈ c)
    (hf : ∀ x, s'.formElem = some x → s.formElem = some x ∨ x ∈ c)
    (hc : ∀ x, s'.contextElem = some x → s.contextElem = some x ∨ x ∈ c) :
    ∀ x ∈ held s', x ∈ held s ++ c :=
  fun x hx => List.mem_append.mpr (held_of_fields hd ho ha hh hf hc x hx)

syntax "mem_tac" : tactic

/-- one field of the builder after an update: unchanged, or one of the list operations of the model -/
syntax "field_tac" : tactic
macro_rules
  | `(tactic| field_tac) => `(tactic|
      first
        | exact fun _ h => Or.inl h
        | exact fun _ _ h => Or.inl ⟨_, h⟩
        | exact fun _ h => Or.inl (List.mem_of_mem_take h)
        | exact fun _ h => Or.inl (List.mem_of_mem_drop h)
        | exact fun _ h => Or.inl (mem_of_mem_dropLast h)
        | exact fun _ h => Or.inl (List.mem_of_mem_eraseIdx h)
        | exact fun _ _ h => Or.inl ⟨_, List.mem_of_mem_eraseIdx h⟩
        | (intro x hx; cases hx; done)
        | (intro x hx
           rcases List.mem_append.mp hx with h1 | h1
           · exact Or.inl h1
           · refine Or.inr ?_
             rw [List.mem_singleton] at h1
             subst h1
             mem_tac)
        | (intro x hx
           rcases List.mem_or_eq_of_mem_set hx with h1 | h1
           · exact Or.inl h1
           · refine Or.inr ?_
             subst h1
             mem_tac)
        | (intro x hx
           rcases mem_of_mem_insertIdx hx with h1 | h1
           · refine Or.inr ?_
             subst h1
             mem_tac
           · exact Or.inl h1)
        | (intro x t hx
           rcases List.mem_append.mp hx with h1 | h1
           · exact Or.inl ⟨_, h1⟩
           · refine Or.inr ?_
             rw [List.mem_singleton] at h1
             first
               | (cases h1; done)
               | (cases h1; mem_tac))
        | (intro x t hx
           rcases List.mem_or_eq_of_mem_set hx with h1 | h1
           · exact Or.inl ⟨_, h1⟩
           · refine Or.inr ?_
             cases h1
             mem_tac)
        | (intro x t hx
           rcases mem_of_mem_insertIdx hx with h1 | h1
           · refine Or.inr ?_
             cases h1
             mem_tac
           · exact Or.inl ⟨_, h1⟩)
        | (intro x hx
           cases hx
           refine Or.inr ?_
           mem_tac))

/-- what the builder holds after a field update -/
syntax "held_tac" : tactic
macro_rules
  | `(tactic| held_tac) => `(tactic|
      first
        | (intro s; exact fun _ h => Or.inl h)
        | ((first | (intro s; refine held_of_fields rfl ?_ ?_ ?_ ?_ ?_) | refine held_of_fields_app rfl ?_ ?_ ?_ ?_ ?_) <;>
            field_tac))

macro_rules
  | `(tactic| mem_tac) => `(tactic|
      first
        | suffix_tac
        | (simp only [pv_mem, opArgs, childIds, nil, one, outRets, List.forall_mem_cons, List.mem_append, List.mem_cons,
            List.mem_singleton, List.not_mem_nil, List.mem_reverse, Option.mem_toList, Option.toList_some,
            Option.toList_none, false_imp_iff, implies_true, forall_eq, forall_eq_or_imp, or_false, false_or, true_or,
            or_true, and_true, true_and, and_self, reduceCtorEq, Option.some.injEq, *]; done)
        | ((try (have hm1 := List.mem_of_getLast? ‹List.getLast? _ = some _›))
           (try (have hm2 := mem_of_head? ‹List.head? _ = some _›))
           (try (have hm3 := List.mem_of_getElem? ‹(_ : List Id)[_]? = some _›))
           simp +contextual only [pv_mem, mem_held, opArgs, childIds, nil, one, outRets, List.forall_mem_cons, List.mem_append,
            List.mem_cons, List.mem_singleton, List.not_mem_nil, List.mem_reverse, Option.mem_toList, Option.toList_some,
            Option.toList_none, false_imp_iff, implies_true, forall_eq, forall_eq_or_imp, or_false, false_or, true_or,
            or_true, and_true, true_and, and_self, reduceCtorEq, Option.some.injEq, or_imp, forall_and, *]
           done)
        | mem_heavy)

/-! ### the walk -/

/-- calls of helpers whose judgement has been proved (extended by `macro_rules` after each lemma) -/
syntax "pv_leaf" : tactic
macro_rules
  | `(tactic| pv_leaf) => `(tactic| fail "pv_leaf: no registered judgement applies")

syntax "pv_step" : tactic
macro_rules
  | `(tactic| pv_step) => `(tactic|
    first
      | with_reducible exact PV.throw _
      | with_reducible exact PV.panicAt _ _ _
      | with_reducible exact PV.fuelOut _
      | ((with_reducible apply PV.pure); mem_tac)
      | pv_leaf
      | with_reducible apply PV.pureBind
      | with_reducible apply PV.getS_bind
      | with_reducible apply PVat.getS_bind
      | ((with_reducible apply PVat.put_bind); rfl; first | held_tac | mem_tac)
      | ((with_reducible apply PVat.put); rfl; first | held_tac | mem_tac)
      | ((with_reducible apply PV.bind); pv_leaf)
      | with_reducible apply PV.bindU
      | with_reducible apply PV.bindB
      | with_reducible apply PV.bindT
      | with_reducible apply PV.bindI
      | with_reducible apply PV.bindO
      | with_reducible apply PV.iteH
      | with_reducible apply PVat.iteH
      | with_reducible apply PVat.of_bind
      | (extract_lets +onlyGivenNames jp
         first
           | refine PV.withJp one jp ?_ ?_
           | refine PV.withJp Option.toList jp ?_ ?_
           | refine PV.withJp nil jp ?_ ?_
           | refine PVat.withJp one jp ?_ ?_
           | refine PVat.withJp Option.toList jp ?_ ?_
           | refine PVat.withJp nil jp ?_ ?_
         (intro r; dsimp only [jp])
         rotate_left
         (intro hjp; clear_value jp)
         rotate_right)
      | intro _
      | (split <;> fwd_tac)
      | dsimp only
      | with_reducible apply PV.at
      | ((with_reducible apply_assumption -exfalso -intro -symm) <;> mem_tac))

syntax "pv_walk" : tactic
macro_rules
  | `(tactic| pv_walk) => `(tactic| repeat' pv_step)

/-- field updates that touch no handle-holding field -/
theorem pv_modS_free {c : List Id} {f : State → State} (ht : ∀ s, (f s).traceRev = s.traceRev)
    (hf : ∀ s, held (f s) = held s) : PV c (modS f) nil :=
  pv_modS ht fun s x hx => Or.inl (hf s ▸ hx)

end H5V.Props.C18
