import H5V.Lemmas.HtmlTBSkelShapeHead
/-!
C06, second invariant layer, part 21: InHead (the current node is `head`).
-/
namespace H5V.Props.C06
open H5V.Model.Dom hiding Str
open H5V.Model.HtmlTB hiding Str
open H5V.Lemmas.Dom
set_option synthInstance.maxSize 4096

/-- the current node is an element other than the root, neither a foster-parenting target nor a template -/
structure Inner (s : State) (r t : Id) : Prop where
  last : s.openElems.getLast? = some t
  ne : t ≠ r
  nf : fosterTarget (nm s.dom t) = false
  nt : nm s.dom t ≠ hN "template"

/-- `insert_element` without pushing, below such a node -/
theorem insertNoPush_inner {s s' : State} {r t : Id} {up : List Id} {ph : Phase} {ns name : Str} {attrs : List Attr}
    {dup : Bool} {el : Id} (hc : Core s r up ph) (hi : Inner s r t)
    (e : insertElement false ns name attrs dup s = .ok (el, s')) :
    Core s' r up ph ∧ SameNames s.dom s'.dom up ∧ DomOnly s s' := by
  obtain ⟨s5, hs', hres⟩ := insertElement_res hc hi.last hi.nf hi.nt e
  simp only [Bool.false_eq_true, if_false] at hs'
  subst hs'
  obtain ⟨hc5, hsn, _⟩ := hc.insInner hres hi.ne
  exact ⟨hc5, hsn, hres.dom⟩

/-- `insert_element` with pushing, below such a node: the pieces from which the caller builds the invariant -/
theorem insertPush_inner {s s' : State} {r t : Id} {up : List Id} {ph : Phase} {ns name : Str} {attrs : List Attr}
    {dup : Bool} {el : Id} (hc : Core s r up ph) (hi : Inner s r t) (hpk : PushOk s ⟨ns, name⟩)
    (e : insertElement true ns name attrs dup s = .ok (el, s')) :
    Core s' r (up ++ [el]) ph ∧ SameNames s.dom s'.dom up ∧ nm s'.dom el = ⟨ns, name⟩ ∧
      s'.headElem = s.headElem ∧ s'.mode = s.mode ∧ s'.origMode = s.origMode ∧
      s'.openElems = s.openElems ++ [el] := by
  obtain ⟨s5, hs', hres⟩ := insertElement_res hc hi.last hi.nf hi.nt e
  simp only [if_true] at hs'
  subst hs'
  obtain ⟨_, hsn, hpush⟩ := hc.insInner hres hi.ne
  obtain ⟨f1, f2, f3, f4, _⟩ := hres.fields
  exact ⟨hpush hpk, hsn, hres.nmel, f2, f3, f4, by show s5.openElems ++ [el] = _; rw [f1]⟩

instance (s : Str) : NR (pure (.encodingIndicator s) : M ProcessResult) :=
  ⟨fun _ res _ e => by rw [← (pure_ok.mp e).1]; exact ⟨(by intro m t h; cases h), (by intro t h; cases h)⟩⟩

/-- entering the Text mode from a mode other than Text / InTableText -/
theorem toRawTextMode_shape {s s' : State} {r x : Id} {up0 : List Id} {ph : Phase} {k : H5V.Model.HtmlTok.RawKind}
    {res : ProcessResult} (hc : Core s r (up0 ++ [x]) ph) (h1 : s.mode ≠ .text) (h2 : s.mode ≠ .inTableText)
    (hfit : Fits s.dom s.headElem s.mode up0 ph)
    (hx : htmlIn (nm s.dom x) ["table", "tbody", "tfoot", "thead", "tr", "template"] = false)
    (hxns : (nm s.dom x).ns = nsHtml)
    (e : toRawTextMode k s = .ok (res, s')) : Good r s' ∧ NoRe res := by
  unfold toRawTextMode at e
  obtain ⟨u, s1, e1, e2⟩ := bind_ok.mp e
  obtain ⟨rfl, rfl⟩ := pure_ok.mp e2
  rw [modS_ok.mp e1]
  refine ⟨Good.mk' ⟨hc.modes rfl (by intro o ho; cases ho; exact isLate_of_fits hfit), ?_⟩,
    ⟨(by intro m t h; cases h), (by intro t h; cases h)⟩⟩
  show FitsM _ (up0 ++ [x]) ph
  unfold FitsM
  exact ⟨s.mode, up0, x, rfl, rfl, h1, h2, hfit, hx, hxns⟩


/-- the outcome of the arms of the InHead rules that do not change the mode (except into Text) -/
inductive HeadOut (r : Id) (s : State) (up : List Id) (ph : Phase) (s' : State) (res : ProcessResult) : Prop
  | same : Core s' r up ph → SameNames s.dom s'.dom up → s'.headElem = s.headElem → s'.mode = s.mode →
      s'.origMode = s.origMode → s'.openElems = s.openElems → NoRe res → HeadOut r s up ph s' res
  | text (el : Id) : Core s' r (up ++ [el]) ph → SameNames s.dom s'.dom up → s'.headElem = s.headElem →
      s'.mode = .text → s'.origMode = some s.mode → s'.openElems = s.openElems ++ [el] →
      keepName (nm s'.dom el) = false ∧ (nm s'.dom el).ns = nsHtml → NoRe res →
      HeadOut r s up ph s' res

/-- `parse_raw_data` below an inner node -/
theorem head_raw {s s' : State} {r t : Id} {up : List Id} {ph : Phase} {tag : Tag} {k : H5V.Model.HtmlTok.RawKind}
    {res : ProcessResult} (hc : Core s r up ph) (hi : Inner s r t) (hk : keepName ⟨nsHtml, tag.name⟩ = false)
    (e : parseRawData tag k s = .ok (res, s')) : HeadOut r s up ph s' res := by
  unfold parseRawData at e
  obtain ⟨el, s1, e1, e2⟩ := bind_ok.mp e
  unfold insertElementFor at e1
  obtain ⟨hc1, hsn, hnm, hh, hm, ho, hst⟩ := insertPush_inner hc hi (PushOk.of_plain hk) e1
  unfold toRawTextMode at e2
  obtain ⟨u, s2, e3, e4⟩ := bind_ok.mp e2
  obtain ⟨rfl, rfl⟩ := pure_ok.mp e4
  rw [modS_ok.mp e3]
  refine .text el (hc1.modes rfl (by intro o ho'; cases ho'; exact hc1.late.ml.mode)) hsn hh rfl
    (by show some s1.mode = _; rw [hm]) hst ?_ ⟨(by intro m t h; cases h), (by intro t h; cases h)⟩
  show keepName (nm s1.dom el) = false ∧ (nm s1.dom el).ns = nsHtml
  rw [hnm]
  exact ⟨hk, rfl⟩

/-- the `<script>` arm below an inner node -/
theorem head_script {s s' : State} {r t : Id} {up : List Id} {ph : Phase} {tag : Tag} {res : ProcessResult}
    (hc : Core s r up ph) (hi : Inner s r t)
    (e : (createElementWithFlags (htmlQual "script".toList) tag.attrs tag.hadDup >>= fun elem =>
      (isFragment >>= fun b => if b = true then sinkUnit (.markScriptAlreadyStarted elem) >>= fun _ =>
          insertAppropriately (.node elem) none >>= fun _ => push elem >>= fun _ => toRawTextMode .scriptData
        else insertAppropriately (.node elem) none >>= fun _ => push elem >>= fun _ => toRawTextMode .scriptData)) s
      = .ok (res, s')) : HeadOut r s up ph s' res := by
  obtain ⟨el, s1, e1, e2⟩ := bind_ok.mp e
  obtain ⟨hc1, hdo1, hchg1, hfresh1, hel1, hnm1, hnol1⟩ := createElement_core hc e1
  obtain ⟨_, hpar1, hkids1, htxt1, htc1, _, _, _, _⟩ := createElement_adj hc.late hc.adj e1
  obtain ⟨fr, s2, e3, e4⟩ := bind_ok.mp e2
  have q2 : QS s1 s2 := IsQ.q _ _ _ e3
  have hc2 := hc1.qs q2
  -- the tail from a state that differs from s2 by queries only
  have tail : ∀ s3 : State, QS s2 s3 →
      (insertAppropriately (.node el) none >>= fun _ => push el >>= fun _ => toRawTextMode .scriptData) s3
        = .ok (res, s') → HeadOut r s up ph s' res := by
    intro s3 q3 e5
    have q13 := q2.trans q3
    have hc3 := hc1.qs q13
    obtain ⟨_, s4, e6, e7⟩ := bind_ok.mp e5
    unfold insertAppropriately at e6
    obtain ⟨ip, s4', e8, e9⟩ := bind_ok.mp e6
    have hn3 : ∀ y, s.dom.isElement y = true → nm s3.dom y = nm s.dom y := fun y hy => by
      rw [q13.nm, nm_chg hchg1 hy]
    have hte : s.dom.isElement t = true := hc.late.st.oe t (mem_of_getLast?' hi.last)
    have hl3 : s3.openElems.getLast? = some t := by rw [q13.openElems, hdo1]; exact hi.last
    obtain ⟨q4, hip⟩ := apfi_plain e8 hl3 (by rw [hn3 t hte]; exact hi.nf) (by rw [hn3 t hte]; exact hi.nt)
    subst hip
    have hc4 := hc3.qs q4
    have hq14 := q13.trans q4
    have hnol4 : ∀ q, el ∉ s4'.dom.childrenOf q := fun q => by
      rw [childrenOf_of_nodes hq14.nodes]; exact hnol1 q
    have hel4 : s4'.dom.isElement el = true := by rw [isElement_of_nodes hq14.nodes]; exact hel1
    have hte4 : s4'.dom.isElement t = true := by
      rw [isElement_of_nodes hq14.nodes]; exact hchg1.isElement hte
    have hipok : IpOk s4'.dom (.lastChild t) :=
      ⟨ne_zero_of_isElement hc4.late.base hte4, isContainer_of_isElement hte4⟩
    obtain ⟨hl5, hext5, hk05, hdo5⟩ := insertAt_spec (child := .node el) hc4.late hipok
      (Loose.childOk ⟨hel4, hnol4 0⟩) e9
    have htel : t ≠ el := by
      intro h0
      have : t < s.dom.size := lt_of_isElement hte
      rw [h0] at this
      exact Nat.lt_irrefl _ (Nat.lt_of_lt_of_le this hfresh1)
    have hrs : RS r s4'.dom s4.dom :=
      insertAt_rs (child := .node el) (ip := .lastChild t) hc4.late.base hc4.rtu hi.ne ⟨hnol4 r, fun p hp => by
        simp only [InsertionPoint.nodes] at hp
        rcases hp with rfl | hp
        · exact htel
        · cases hp⟩ e9
    have hst4' : s4'.openElems = s.openElems := by rw [hq14.openElems, hdo1]
    have hfr' : el ∉ s4'.openElems := by
      rw [hst4']; intro hm
      exact Nat.lt_irrefl _ (Nat.lt_of_lt_of_le (lt_of_isElement (hc.late.st.oe el hm)) hfresh1)
    have htlt : t < s.dom.size := lt_of_isElement hte
    have hcand : ∀ p, (InsertionPoint.lastChild t).nodes.1 = p ∨ (InsertionPoint.lastChild t).nodes.2 = some p →
        p ≠ el := by
      intro p hp
      simp only [InsertionPoint.nodes] at hp
      rcases hp with rfl | hp
      · exact htel
      · cases hp
    obtain ⟨hadj5, hadj5p⟩ := insertAt_new_adj (el := el) hc4.late hipok hc4.adj hfr'
      (by rw [parentOf_of_nodes hq14.nodes]; exact hpar1)
      (by rw [isText_of_data (d := s1.dom) (by unfold Dom.dataOf; rw [hq14.nodes])]; exact htxt1)
      (by rw [childrenOf_of_nodes hq14.nodes]; exact hkids1)
      (fun tc htc => by
        rw [tc_of_nodes hq14.nodes] at htc
        obtain ⟨h1, h2⟩ := htc1 tc htc
        refine ⟨by rw [childrenOf_of_nodes hq14.nodes]; exact h1, fun p hp => ?_⟩
        simp only [InsertionPoint.nodes] at hp
        rcases hp with rfl | hp
        · exact Nat.ne_of_lt (Nat.lt_of_lt_of_le htlt h2)
        · cases hp)
      hcand
      (hc4.no_open_before_plain (by rw [hst4']; exact hi.last)) e9
    have hoe54 : s4.openElems = s4'.openElems := by rw [hdo5]
    have hc5 : Core s4 r up ph := hc4.transfer hl5 hext5.chg hrs (by rw [hk05]; exact hc4.rdoc)
      (by rw [hdo5]) (by rw [hdo5]) (by rw [hdo5]) (by rw [hdo5]) (by rw [hdo5]) (by rw [hoe54]; exact hadj5)
    obtain ⟨_, s6, e10, e11⟩ := bind_ok.mp e7
    unfold push at e10
    have hs6 := modS_ok.mp e10
    have hst4 : s4.openElems = s.openElems := by
      rw [hdo5]; show s4'.openElems = _; rw [hq14.openElems, hdo1]
    have hnm5 : nm s4.dom el = hN "script" := by
      rw [nm_chg hext5.chg hel4, hq14.nm]; exact hnm1
    have hfr : el ∉ s4.openElems := by
      rw [hst4]; intro hm
      exact Nat.lt_irrefl _ (Nat.lt_of_lt_of_le (lt_of_isElement (hc.late.st.oe el hm)) hfresh1)
    have hc6 : Core s6 r (up ++ [el]) ph := by
      rw [hs6]
      exact hc5.push ⟨hext5.chg.isElement hel4, by rw [hk05]; exact hnol4 0⟩ hfr (by rw [hnm5]; decide)
        (by rw [hoe54]; exact hadj5p)
    have hchg : Chg s.dom s4.dom := (hchg1.trans (SameSk.of_nodes hq14.nodes).chg).trans hext5.chg
    have hfields : s4.headElem = s.headElem ∧ s4.mode = s.mode ∧ s4.origMode = s.origMode := by
      have h5 := hdo5; have h14 := hq14.rest; have h1 := hdo1
      refine ⟨?_, ?_, ?_⟩ <;> rw [h5, h14, h1]
    unfold toRawTextMode at e11
    obtain ⟨u, s7, e12, e13⟩ := bind_ok.mp e11
    obtain ⟨rfl, rfl⟩ := pure_ok.mp e13
    rw [modS_ok.mp e12]
    refine .text el (hc6.modes rfl (by intro o ho'; cases ho'; exact hc6.late.ml.mode)) ?_ ?_ rfl ?_ ?_ ?_
      ⟨(by intro m t h; cases h), (by intro t h; cases h)⟩
    · intro y hy
      show nm s6.dom y = _
      rw [hs6]
      exact hc.sameNames hchg y hy
    · show s6.headElem = _; rw [hs6]; exact hfields.1
    · show some s6.mode = _; rw [hs6]; show some s4.mode = _; rw [hfields.2.1]
    · show s6.openElems = _; rw [hs6]; show s4.openElems ++ [el] = _; rw [hst4]
    · show keepName (nm s6.dom el) = false ∧ (nm s6.dom el).ns = nsHtml
      rw [hs6]; show keepName (nm s4.dom el) = false ∧ (nm s4.dom el).ns = nsHtml
      rw [hnm5]; exact ⟨by decide, rfl⟩
  rcases ite_run e4 with ⟨_, e4⟩ | ⟨_, e4⟩
  · obtain ⟨_, s3, e5, e6⟩ := bind_ok.mp e4
    exact tail s3 (qs_sinkUnit e5) e6
  · exact tail s2 (QS.refl _) e4


theorem ps_bind {α β : Type} {m : M α} {f : α → M β} (h1 : PS m) (h2 : ∀ a, PS (f a)) : PS (m >>= f) :=
  inferInstance
theorem nr_bind {α : Type} {m : M α} {f : α → M ProcessResult} (h : ∀ a, NR (f a)) : NR (m >>= f) := inferInstance

/-- the start tags that the InHead rules answer with an insertion -/
def isHeadInsertTag (tag : Tag) : Bool :=
  tag.isStart ["base", "basefont", "bgsound", "link", "meta"] || tag.isStart ["title"] ||
    tag.isStart ["noframes", "style", "noscript"] || tag.isStart ["script"]

/-- the arms of the InHead rules that the callers treat themselves -/
inductive HeadSpecial (tok : Token) (s s' : State) (res : ProcessResult) : Prop
  | split (text : Str) : tok = .chars .notSplit text → res = .splitWhitespace text → s' = s → HeadSpecial tok s s' res
  | noscript (tag : Tag) : tok = .tag tag → tag.isStart ["noframes", "style", "noscript"] = true →
      isName tag.name "noscript" = true →
      (insertElementFor tag >>= fun _ => setMode .inHeadNoscript >>= fun _ => pure ProcessResult.done) s = .ok (res, s') →
      HeadSpecial tok s s' res
  | endHead (tag : Tag) : tok = .tag tag → tag.isEnd ["head"] = true →
      (pop >>= fun _ => setMode .afterHead >>= fun _ => pure ProcessResult.done) s = .ok (res, s') →
      HeadSpecial tok s s' res
  | anyElse : (∀ tag, tok = .tag tag → isHeadInsertTag tag = false ∧ tag.isStart ["html"] = false) →
      (∀ text, tok ≠ .chars .whitespace text) → (∀ text, tok ≠ .comment text) →
      (pop >>= fun _ => pure (ProcessResult.reprocess .afterHead tok)) s = .ok (res, s') → HeadSpecial tok s s' res
  | tmpl (tag : Tag) : tok = .tag tag → (tag.isStart ["template"] = true ∨ tag.isEnd ["template"] = true) →
      HeadSpecial tok s s' res

theorem isStart_false_of_isEnd {tag : Tag} {l l' : List String} (h : tag.isEnd l = true) : tag.isStart l' = false := by
  unfold Tag.isEnd at h
  unfold Tag.isStart
  simp only [Bool.and_eq_true, beq_iff_eq] at h
  rw [h.1]; rfl

theorem isStart_name {tag : Tag} {l l' : List String} (h : tag.isStart l = true)
    (hl : ∀ a ∈ l, a ∉ l') : tag.isStart l' = false := by
  obtain ⟨a, ha, hn, hk⟩ := name_of_isStart h
  unfold Tag.isStart isOneOf
  simp only [Bool.and_eq_false_iff, List.any_eq_false, beq_iff_eq]
  right
  intro b hb hbn
  have : b = a := by
    have h2 : b.toList = a.toList := by rw [hbn, hn]
    exact String.ext h2
  exact hl a ha (this ▸ hb)

set_option maxHeartbeats 1600000 in
/-- the InHead rules below an inner node: either one of the arms treated by the caller, or an
insertion / a query that keeps the shape (possibly entering the Text mode) -/
theorem stepInHead_cases {s s' : State} {r t : Id} {up : List Id} {ph : Phase} {tok : Token} [ht : TokW tok]
    {res : ProcessResult} (hc : Core s r up ph) (hi : Inner s r t) (e : stepInHead tok s = .ok (res, s')) :
    HeadOut r s up ph s' res ∨ HeadSpecial tok s s' res := by
  unfold stepInHead at e
  have anyElse : (∀ tag, tok = .tag tag → isHeadInsertTag tag = false ∧ tag.isStart ["html"] = false) →
      (∀ text, tok ≠ .chars .whitespace text) → (∀ text, tok ≠ .comment text) →
      (pop >>= fun _ => pure (ProcessResult.reprocess .afterHead tok)) s = .ok (res, s') →
      HeadOut r s up ph s' res ∨ HeadSpecial tok s s' res := fun h1 h2 h3 e0 => Or.inr (.anyElse h1 h2 h3 e0)
  cases tok with
  | chars st text =>
    cases st with
    | notSplit =>
      dsimp only at e
      obtain ⟨rfl, rfl⟩ := pure_ok.mp e
      exact Or.inr (.split text rfl rfl rfl)
    | whitespace =>
      dsimp only at e
      obtain ⟨h1, rfl, hdo, hsn⟩ := appendText_core hc hi.last hi.nf hi.nt (ht.ne _ _ rfl) (fun h0 => absurd h0 hi.ne) e
      exact Or.inl (.same h1 hsn (by rw [hdo]) (by rw [hdo]) (by rw [hdo]) (by rw [hdo]) noRe_done)
    | notWhitespace =>
      dsimp only at e
      exact anyElse (by intro tag h; cases h) (by intro t h; cases h) (by intro t h; cases h) e
  | comment text =>
    dsimp only at e
    obtain ⟨h1, rfl, hdo, hsn⟩ := appendComment_core hc hi.last hi.nf hi.nt e
    exact Or.inl (.same h1 hsn (by rw [hdo]) (by rw [hdo]) (by rw [hdo]) (by rw [hdo]) noRe_done)
  | eof =>
    dsimp only at e
    exact anyElse (by intro tag h; cases h) (by intro t h; cases h) (by intro t h; cases h) e
  | nullChar =>
    dsimp only at e
    exact anyElse (by intro tag h; cases h) (by intro t h; cases h) (by intro t h; cases h) e
  | tag tag =>
    dsimp only at e
    rcases ite_run e with ⟨h1, e⟩ | ⟨h1, e⟩
    · -- <html>
      obtain ⟨h2, hsn, hm, ho, hh⟩ := (inferInstance : PS (inBodyHtml tag)).p s r up ph res s' hc e
      rw [done_of_inBodyHtml e]
      exact Or.inl (.same h2 hsn hh hm ho (by rw [h2.stack, hc.stack]) noRe_done)
    · have bf : ∀ {b : Bool}, ¬ b = true → b = false := fun {b} h => by
        cases b
        · rfl
        · exact absurd rfl h
      rcases ite_run e with ⟨h2, e⟩ | ⟨h2, e⟩
      · -- base, basefont, bgsound, link, meta
        obtain ⟨el, s1, e1, e2⟩ := bind_ok.mp e
        unfold insertAndPopElementFor at e1
        obtain ⟨hc1, hsn1, hdo1⟩ := insertNoPush_inner hc hi e1
        have key : ∀ K : M ProcessResult, PS K → NR K → K s1 = .ok (res, s') → HeadOut r s up ph s' res := by
          intro K hps hnr eK
          obtain ⟨a1, a2, a3, a4, a5⟩ := hps.p s1 r up ph res s' hc1 eK
          exact .same a1 (fun y hy => by rw [a2 y hy, hsn1 y hy]) (by rw [a5, hdo1]) (by rw [a3, hdo1]) (by rw [a4, hdo1])
            (by rw [a1.stack, hc.stack]) (hnr.h _ _ _ eK)
        refine Or.inl (key _ ?_ ?_ e2)
        · repeat' (first | exact inferInstance | split | (with_reducible apply ps_bind inferInstance) | intro _)
        · repeat' (first | exact inferInstance | split | (with_reducible apply nr_bind) | intro _)
      · rcases ite_run e with ⟨h3, e⟩ | ⟨h3, e⟩
        · exact Or.inl (head_raw hc hi (plain_of_isStart h3 (by decide)).h e)
        · rcases ite_run e with ⟨h4, e⟩ | ⟨h4, e⟩
          · rw [getS_bind] at e
            rcases ite_run e with ⟨h5, e⟩ | ⟨h5, e⟩
            · refine Or.inr (.noscript tag rfl h4 ?_ e)
              simp only [Bool.and_eq_true] at h5
              exact h5.2
            · exact Or.inl (head_raw hc hi (plain_of_isStart h4 (by decide)).h e)
          · rcases ite_run e with ⟨h5, e⟩ | ⟨h5, e⟩
            · exact Or.inl (head_script hc hi e)
            · have hnot : isHeadInsertTag tag = false ∧ tag.isStart ["html"] = false := by
                unfold isHeadInsertTag
                rw [bf h1, bf h2, bf h3, bf h4, bf h5]
                exact ⟨rfl, rfl⟩
              rcases ite_run e with ⟨h6, e⟩ | ⟨h6, e⟩
              · exact Or.inr (.endHead tag rfl h6 e)
              · rcases ite_run e with ⟨h7, e⟩ | ⟨h7, e⟩
                · exact anyElse (by intro t ht'; cases ht'; exact hnot) (by intro t h; cases h) (by intro t h; cases h) e
                · rcases ite_run e with ⟨h8, e⟩ | ⟨h8, e⟩
                  · exact Or.inr (.tmpl tag rfl (Or.inl h8))
                  · rcases ite_run e with ⟨h9, e⟩ | ⟨h9, e⟩
                    · exact Or.inr (.tmpl tag rfl (Or.inr h9))
                    · rcases ite_run e with ⟨h10, e⟩ | ⟨h10, e⟩
                      · obtain ⟨q, rfl⟩ := qs_unexpected e
                        exact Or.inl (.same (hc.qs q) (fun y _ => q.nm y) (by rw [q.rest]) q.mode (by rw [q.rest])
                          q.openElems noRe_done)
                      · exact anyElse (by intro t ht'; cases ht'; exact hnot) (by intro t h; cases h)
                          (by intro t h; cases h) e


/-! ### InHead -/

/-- the template arms of the InHead rules, as used in mode `m` (treated separately) -/
def TmplOk (m : Mode) : Prop :=
  ∀ (tag : Tag) (r : Id) (s : State) (res : ProcessResult) (s' : State),
    Good r s → s.mode = m → (tag.isStart ["template"] = true ∨ tag.isEnd ["template"] = true) →
    stepInHead (.tag tag) s = .ok (res, s') → Out r s' res

theorem inner_head {s : State} {r h : Id} {ph : Phase} (hc : Core s r [h] ph) (hn : nm s.dom h = hN "head") :
    Inner s r h :=
  ⟨by rw [hc.stack]; rfl, hc.up_ne_root (by simp), by rw [hn]; decide, by rw [hn]; decide⟩

theorem modeOk_inHead (T : TmplOk .inHead) : ModeOk .inHead := by
  intro tok ht r s res s' hg hm e
  obtain ⟨up, ph, hs, _⟩ := id hg
  have hf := hs.fits
  unfold FitsM at hf
  rw [hm] at hf
  obtain ⟨h, hh, rfl, rfl⟩ : ∃ h, s.headElem = some h ∧ up = [h] ∧ ph = .p1 := hf
  have hc := hs.core
  have hhn : nm s.dom h = hN "head" := by
    obtain ⟨h', e1, _, e3⟩ := hc.elems; rw [hh] at e1; cases e1; exact e3
  have hi := inner_head hc hhn
  have e' : stepInHead tok s = .ok (res, s') := e
  rcases stepInHead_cases hc hi e' with ho | hsp
  · cases ho with
    | same hc' hsn hhd hmd hod hoe hnr =>
      refine Out.of_good (Good.mk' ⟨hc', ?_⟩) hnr
      exact fitsM_of_fits (by decide) (by decide) (hmd.trans hm) ⟨h, by rw [hhd]; exact hh, rfl, rfl⟩
    | text el hc' hsn hhd hmd hod hoe hx hnr =>
      refine Out.of_good (Good.mk' ⟨hc', ?_⟩) hnr
      unfold FitsM
      rw [hmd]
      exact ⟨.inHead, [h], el, by rw [hod, hm], rfl, by decide, by decide, ⟨h, by rw [hhd]; exact hh, rfl, rfl⟩,
        not_in_of_keepName_false hx.1 (by decide), hx.2⟩
  · cases hsp with
    | split text h1 h2 h3 => subst h2; subst h3; exact hg
    | noscript tag h1 h2 h3 e0 =>
      obtain ⟨el, s1, e1, e2⟩ := bind_ok.mp e0
      obtain ⟨_, s2, e3, e4⟩ := bind_ok.mp e2
      obtain ⟨rfl, rfl⟩ := pure_ok.mp e4
      unfold insertElementFor at e1
      obtain ⟨hc1, hsn, hnm, hhd, hmd, hod, hst⟩ := insertPush_inner hc hi
        (PushOk.of_plain (plain_of_isStart h2 (by decide)).h) e1
      unfold setMode at e3
      rw [modS_ok.mp e3]
      refine Good.mk' ⟨hc1.modes rfl hc1.late.ml.orig, ?_⟩
      show FitsM { s1 with mode := .inHeadNoscript } ([h] ++ [el]) .p1
      unfold FitsM
      refine ⟨h, el, by show s1.headElem = _; rw [hhd]; exact hh, rfl, rfl, ?_⟩
      show nm s1.dom el = _
      rw [hnm]
      obtain ⟨a, ha, hn', _⟩ := name_of_isStart h2
      have : tag.name = "noscript".toList := by
        have h3' := h3; unfold isName at h3'; exact (beq_iff_eq.mp h3').symm
      rw [this]; rfl
    | endHead tag h1 h2 e0 =>
      obtain ⟨x, s1, e1, e2⟩ := bind_ok.mp e0
      obtain ⟨_, s2, e3, e4⟩ := bind_ok.mp e2
      obtain ⟨rfl, rfl⟩ := pure_ok.mp e4
      have p1 := pop_sem e1
      have hx : x = h := by
        have := p1.stack
        rw [hc.stack, show [r, h] = [r] ++ [h] from rfl] at this
        obtain ⟨_, hz⟩ := List.append_inj' this rfl
        simpa using hz.symm
      subst hx
      have hc1 : Core s1 r [] .p1 := hc.pr p1 rfl
      unfold setMode at e3
      rw [modS_ok.mp e3]
      exact Good.mk' ⟨hc1.modes rfl hc1.late.ml.orig, by unfold FitsM; exact ⟨rfl, rfl⟩⟩
    | anyElse h1 h2 h3 e0 =>
      obtain ⟨x, s1, e1, e2⟩ := bind_ok.mp e0
      obtain ⟨rfl, rfl⟩ := pure_ok.mp e2
      have p1 := pop_sem e1
      have hx : x = h := by
        have := p1.stack
        rw [hc.stack, show [r, h] = [r] ++ [h] from rfl] at this
        obtain ⟨_, hz⟩ := List.append_inj' this rfl
        simpa using hz.symm
      subst hx
      have hc1 : Core s1 r [] .p1 := hc.pr p1 rfl
      exact ⟨Good.mk' ⟨hc1.modes rfl hc1.late.ml.orig, by unfold FitsM; exact ⟨rfl, rfl⟩⟩, ht⟩
    | tmpl tag h1 h2 =>
      subst h1
      exact T tag r s res s' hg hm h2 e'

end H5V.Props.C06
