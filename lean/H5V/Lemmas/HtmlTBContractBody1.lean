import H5V.Lemmas.HtmlTBContractSimple
/-!
# TreeSink contract for the HTML tree builder, part 10a: leaves and special arms of the "in body" rules

* facts about `Tag.isStart` / `Tag.isEnd` (`start_sub`, `end_sub`);
* leaves: `cp_addAttrs` (`<body>`), `cps_removeFromParent` (`<frameset>`);
* `satcv_findOption` — a valued specification of the `</option>` search, and the two halves of the `</option>`
  arm (`cpsp_findOption_bind`, `satc_optionMirror`), proved at the `SatC` level because the selectedcontent
  mirror needs the *name* of the handle it is called with;
* `cb_clearForm` (`</form>`: the state written back);
* `bs_walk` — a leaner variant of the rule walker `rs_walk`;
* `arm_input`, `arm_hr`, `arm_select`, `arm_option`, `arm_optgroup`, `arm_rbRtc`, `arm_rpRt` — the arms of
  `stepInBody` whose `do` block contains many copies of its tail, with the code as `dsimp only` leaves it.
-/
namespace H5V.Lemmas.TBC
open H5V.Model.HtmlTB
open H5V.Model.Dom (Id QualName Attr NodeOrText SinkOp Output ElementFlags QuirksMode Dom NodeData Node Contract)
open H5V.Lemmas.TBSafe (IsEl nm sigOf Ext nm_ext fmtNames namedP)
variable {d0 : Dom}

/-! ### tag tests -/

theorem isOneOf_sub' {n : Str} {l1 l2 : List String} (hs : ∀ x ∈ l1, x ∈ l2) (h : isOneOf n l1 = true) :
    isOneOf n l2 = true := by
  unfold isOneOf at *
  rw [List.any_eq_true] at *
  obtain ⟨x, hx, hxn⟩ := h
  exact ⟨x, hs x hx, hxn⟩

theorem start_sub {tag : Tag} {l l2 : List String} (h : tag.isStart l = true)
    (hs : ∀ x ∈ l, x ∈ l2 := by decide) : isOneOf tag.name l2 = true := by
  simp only [Tag.isStart, Bool.and_eq_true] at h
  exact isOneOf_sub' hs h.2

theorem end_sub {tag : Tag} {l l2 : List String} (h : tag.isEnd l = true)
    (hs : ∀ x ∈ l, x ∈ l2 := by decide) : isOneOf tag.name l2 = true := by
  simp only [Tag.isEnd, Bool.and_eq_true] at h
  exact isOneOf_sub' hs h.2

theorem attrsOk_nil : AttrsOk [] := ⟨(fun _ h => by cases h), List.nodup_nil⟩

/-! ### leaves -/

/-- `add_attrs_if_missing(node, attrs)` (the `<body>` arm) -/
theorem cp_addAttrs {c : List Id} {node : Id} {attrs : List Attr} (hn : node ∈ c)
    (ha : Dom.attrKeysNodup attrs = true) : CP d0 c (sinkUnit (.addAttrsIfMissing node attrs)) (fun _ => []) :=
  cp_sinkUnit_nt rfl (fun _ _ hc => contract_addAttrs (hc node hn) ha)

macro_rules
  | `(tactic| cp_leaf) =>
    `(tactic| with_reducible exact cp_addAttrs (by ctx_mem) (attrKeysNodup_of_attrsOk (by assumption)))

/-- `remove_from_parent(body)` (the `<frameset>` arm): not tree-neutral, but the stack-order invariant
survives because parents are only removed -/
theorem cps_removeFromParent {c : List Id} {t : Id} (ht : t ∈ c) :
    CPS d0 c (sinkUnit (.removeFromParent t)) (fun _ => []) := by
  intro s hcb hsa hc
  refine (satc_removeFromParent_shrink hcb hsa (hc t ht)).mono ?_
  rintro _ s' ⟨h2, hsa'⟩
  exact ⟨h2.cb, hsa', h2.ext, CtxOk.nil _⟩

/-! ### `</option>`: the search for an open `option`, with the name of what it finds -/

theorem loc_of_namedP {d : Dom} {name : Str} {h : Id} (hn : namedP d name h = true) : (nm d h).loc = name := by
  unfold namedP at hn
  simp only [Bool.and_eq_true, beq_iff_eq] at hn
  exact hn.2

theorem satcv_findOption : ∀ (l : List Id) (s : State), CB d0 s → (∀ x ∈ l, IsEl s.dom x) →
    SatC (findOption l) s (fun r s' => Q2 d0 s s' ∧
      ∀ o, r = some o → o ∈ l ∧ namedP s.dom "option".toList o = true) := by
  intro l
  induction l with
  | nil =>
    intro s hcb _
    unfold H5V.Model.HtmlTB.findOption
    exact satc_pure ⟨Q2.refl hcb, fun o h => by cases h⟩
  | cons e rest ih =>
    intro s hcb hall
    unfold H5V.Model.HtmlTB.findOption
    refine (satcv_htmlElemNamed hcb (hall e List.mem_cons_self)).bind ?_
    rintro b s1 ⟨rfl, hq⟩
    refine satc_ite (fun hb => ?_) (fun hb => ?_)
    · refine satc_pure ⟨hq, ?_⟩
      intro o ho
      cases ho
      exact ⟨List.mem_cons_self, hb⟩
    · have hall1 : ∀ x ∈ rest, IsEl s1.dom x := fun x hx => (hall x (List.mem_cons_of_mem _ hx)).ext hq.ext
      refine (ih s1 hq.cb hall1).mono ?_
      rintro r s2 ⟨hq2, hr⟩
      refine ⟨hq.trans hq2, ?_⟩
      intro o ho
      obtain ⟨h1, h2⟩ := hr o ho
      refine ⟨List.mem_cons_of_mem _ h1, ?_⟩
      unfold namedP at h2 ⊢
      rw [nm_ext hq.ext (hall o (List.mem_cons_of_mem _ h1))] at h2
      exact h2

/-- the first half of the `</option>` arm: the continuation runs from a state in which the handle found
is an element whose local name is `option` -/
theorem cpsp_findOption_bind {c : List Id} {tag : Tag} {β : Type} {k : Option Id → M β} {P : β → Prop}
    (hk : ∀ r s, CB d0 s → SAnc s.dom s.openElems →
      (∀ o, r = some o → IsEl s.dom o ∧ (nm s.dom o).loc = "option".toList) →
      SatC (k r) s (fun a s' => CB d0 s' ∧ SAnc s'.dom s'.openElems ∧ Ext s.dom s'.dom ∧ P a)) :
    CPSP d0 c (do
      let st ← getS
      let r ← findOption st.openElems
      processEndTagInBody tag
      k r) (fun _ => []) P := by
  intro s hcb hsa hc
  refine satc_getS_bind ?_
  refine (satcv_findOption s.openElems s hcb hcb.h.open_el).bind ?_
  rintro r s1 ⟨hq1, hr⟩
  have hsa1 : SAnc s1.dom s1.openElems := hsa.grow hcb.d.inv.wf hcb.h.lt hq1.g
  refine ((cp_toCPS (cp_processEndTagInBody (c := []))) s1 hq1.cb hsa1 (CtxOk.nil _)).bind ?_
  rintro _ s2 ⟨hcb2, hsa2, he2, _⟩
  have he : Ext s.dom s2.dom := hq1.ext.trans he2
  refine (hk r s2 hcb2 hsa2 ?_).mono ?_
  · intro o ho
    obtain ⟨hol, hnm⟩ := hr o ho
    have hoel : IsEl s.dom o := hcb.h.open_el o hol
    refine ⟨hoel.ext he, ?_⟩
    rw [nm_ext he hoel]
    exact loc_of_namedP hnm
  · rintro a s3 ⟨h1, h2, h3, h4⟩
    exact ⟨h1, h2, he.trans h3, CtxOk.nil _, h4⟩

/-- the second half: `maybe_clone_an_option_into_selectedcontent` unless the option is still open -/
theorem satc_optionMirror {o : Id} {s : State} {tok : Token} (hcb : CB d0 s) (hsa : SAnc s.dom s.openElems)
    (ho : IsEl s.dom o) (hn : (nm s.dom o).loc = "option".toList) :
    SatC (do
      let st ← getS
      let b ← anySameNode o st.openElems
      if (!b) = true then do
          sinkUnit (SinkOp.maybeCloneAnOptionIntoSelectedcontent o)
          pure ProcessResult.done
        else pure ProcessResult.done) s
      (fun a s' => CB d0 s' ∧ SAnc s'.dom s'.openElems ∧ Ext s.dom s'.dom ∧ ResLate tok a) := by
  refine satc_getS_bind ?_
  have hctx : CtxOk (o :: s.openElems) s := by
    intro x hx
    rcases List.mem_cons.mp hx with rfl | hx
    · exact ho
    · exact hcb.h.open_el x hx
  refine ((cp_anySameNode (c := o :: s.openElems) List.mem_cons_self s.openElems
    (fun y hy => List.mem_cons_of_mem _ hy)) s hcb hctx).bind ?_
  rintro b s1 ⟨hcb1, hg1, _⟩
  have hsa1 : SAnc s1.dom s1.openElems := hsa.grow hcb.d.inv.wf hcb.h.lt hg1
  refine satc_ite (fun _ => ?_) (fun _ => satc_pure ⟨hcb1, hsa1, hg1.ext, trivial⟩)
  refine (satc_maybeCloneOption hcb1 hsa1 (ho.ext hg1.ext) (by rw [nm_ext hg1.ext ho]; exact hn)).bind ?_
  rintro _ s2 ⟨ht, hsa2⟩
  exact satc_pure ⟨ht.cb, hsa2, hg1.ext.trans ht.ext, trivial⟩

/-! ### `</form>`: the state written back keeps the invariants -/

theorem cb_clearForm {s : State} (hcb : CB d0 s) (hsa : SAnc s.dom s.openElems) :
    CB d0 { s with formElem := none } ∧
      SAnc ({ s with formElem := none } : State).dom ({ s with formElem := none } : State).openElems ∧
      Ext s.dom ({ s with formElem := none } : State).dom :=
  ⟨hcb.of_shrink rfl rfl rfl (fun _ h => h) (fun _ h => h) (fun _ h => h) (fun _ h => by cases h) (fun _ h => h)
    ⟨hcb.l.mode, hcb.l.orig, hcb.l.tm⟩, hsa, Ext.refl _⟩

/-! ### a leaner rule walker

`rs_step` tries the delegation leaves (`exact BodyH.cpsp …`: the unifier unfolds whole rules before it fails)
at every node; here the structural rules come first, so that the leaves are tried at the leaves only. -/

syntax "bs_step" : tactic
macro_rules
  | `(tactic| bs_step) => `(tactic|
    first
      | with_reducible intro _
      | with_reducible refine cpsp_ite ?_ ?_
      | with_reducible refine cpsp_reset_bind (fun _ _ => ?_)
      | with_reducible refine cpsp_getS_bind ?_
      | ((with_reducible apply cpsp_bind_cp); focus (cp_walk; done))
      | (with_reducible refine cpsp_pure_nil _ ?_) <;> rs_res
      | rs_leaf
      | dsimp only)

syntax "bs_walk" : tactic
macro_rules
  | `(tactic| bs_walk) => `(tactic| repeat' bs_step)

/-! ### arms with many copies of their tail (the `do` elaborator duplicates continuations): proved on their own -/

/-- the `<input>` arm of `stepInBody` -/
theorem arm_input {c : List Id} {tag : Tag} {tok : Token} (ha : AttrsOk tag.attrs) :
    CPSP d0 c
    (do
      let __do_lift ← contextIsSelect "rules.rs:823"
      if __do_lift = true then do
          let _ ← unexpected
          pure ProcessResult.done
        else do
          let __do_lift ← inScopeNamed defaultScope "select"
          if __do_lift = true then do
              let _ ← unexpected
              let _ ← popUntilNamed "select"
              reconstructActiveFormattingElements
              let _ ← insertAndPopElementFor tag
              if (!isTypeHidden tag) = true then do
                  setFramesetOk false
                  pure ProcessResult.doneAckSelfClosing
                else pure ProcessResult.doneAckSelfClosing
            else do
              reconstructActiveFormattingElements
              let _ ← insertAndPopElementFor tag
              if (!isTypeHidden tag) = true then do
                  setFramesetOk false
                  pure ProcessResult.doneAckSelfClosing
                else pure ProcessResult.doneAckSelfClosing)
    (fun _ => []) (ResLate tok) := by
  bs_walk

/-- the `<hr>` arm of `stepInBody` -/
theorem arm_hr {c : List Id} {tag : Tag} {tok : Token} (ha : AttrsOk tag.attrs) :
    CPSP d0 c
    (do
      closePElementInButtonScope
      let __do_lift ← inScopeNamed defaultScope "select"
      if __do_lift = true then do
          generateImpliedEndTags cursoryImpliedEnd
          let __do_lift ← inScopeNamed defaultScope "option"
          if __do_lift = true then do
              let nested ← pure true
              if nested = true then do
                  parseError "hr in option"
                  let _ ← insertAndPopElementFor tag
                  setFramesetOk false
                  pure ProcessResult.doneAckSelfClosing
                else do
                  let _ ← insertAndPopElementFor tag
                  setFramesetOk false
                  pure ProcessResult.doneAckSelfClosing
            else do
              let nested ← inScopeNamed defaultScope "optgroup"
              if nested = true then do
                  parseError "hr in option"
                  let _ ← insertAndPopElementFor tag
                  setFramesetOk false
                  pure ProcessResult.doneAckSelfClosing
                else do
                  let _ ← insertAndPopElementFor tag
                  setFramesetOk false
                  pure ProcessResult.doneAckSelfClosing
        else do
          let _ ← insertAndPopElementFor tag
          setFramesetOk false
          pure ProcessResult.doneAckSelfClosing)
    (fun _ => []) (ResLate tok) := by
  bs_walk

/-- the `<select>` arm of `stepInBody` -/
theorem arm_select {c : List Id} {tag : Tag} {tok : Token} (ha : AttrsOk tag.attrs) :
    CPSP d0 c
    (do
      let __do_lift ← contextIsSelect "rules.rs:903"
      if __do_lift = true then do
          let _ ← unexpected
          pure ProcessResult.done
        else do
          let __do_lift ← inScopeNamed defaultScope "select"
          if __do_lift = true then do
              let _ ← unexpected
              let _ ← popUntilNamed "select"
              pure ProcessResult.done
            else do
              reconstructActiveFormattingElements
              let _ ← insertElementFor tag
              setFramesetOk false
              pure ProcessResult.done)
    (fun _ => []) (ResLate tok) := by
  bs_walk

/-- the `<option>` arm of `stepInBody` -/
theorem arm_option {c : List Id} {tag : Tag} {tok : Token} (ha : AttrsOk tag.attrs) :
    CPSP d0 c
    (do
      let __do_lift ← inScopeNamed defaultScope "select"
      if __do_lift = true then do
          generateImpliedEndExcept "optgroup".toList
          let __do_lift ← inScopeNamed defaultScope "option"
          if __do_lift = true then do
              parseError "nested options"
              reconstructActiveFormattingElements
              let _ ← insertElementFor tag
              pure ProcessResult.done
            else do
              reconstructActiveFormattingElements
              let _ ← insertElementFor tag
              pure ProcessResult.done
        else do
          let __do_lift ← currentNodeNamed "option"
          if __do_lift = true then do
              let _ ← pop
              reconstructActiveFormattingElements
              let _ ← insertElementFor tag
              pure ProcessResult.done
            else do
              reconstructActiveFormattingElements
              let _ ← insertElementFor tag
              pure ProcessResult.done)
    (fun _ => []) (ResLate tok) := by
  bs_walk

/-- the `<optgroup>` arm of `stepInBody` -/
theorem arm_optgroup {c : List Id} {tag : Tag} {tok : Token} (ha : AttrsOk tag.attrs) :
    CPSP d0 c
    (do
      let __do_lift ← inScopeNamed defaultScope "select"
      if __do_lift = true then do
          generateImpliedEndTags cursoryImpliedEnd
          let __do_lift ← inScopeNamed defaultScope "option"
          if __do_lift = true then do
              let nested ← pure true
              if nested = true then do
                  parseError "nested options"
                  reconstructActiveFormattingElements
                  let _ ← insertElementFor tag
                  pure ProcessResult.done
                else do
                  reconstructActiveFormattingElements
                  let _ ← insertElementFor tag
                  pure ProcessResult.done
            else do
              let nested ← inScopeNamed defaultScope "optgroup"
              if nested = true then do
                  parseError "nested options"
                  reconstructActiveFormattingElements
                  let _ ← insertElementFor tag
                  pure ProcessResult.done
                else do
                  reconstructActiveFormattingElements
                  let _ ← insertElementFor tag
                  pure ProcessResult.done
        else do
          let __do_lift ← currentNodeNamed "option"
          if __do_lift = true then do
              let _ ← pop
              reconstructActiveFormattingElements
              let _ ← insertElementFor tag
              pure ProcessResult.done
            else do
              reconstructActiveFormattingElements
              let _ ← insertElementFor tag
              pure ProcessResult.done)
    (fun _ => []) (ResLate tok) := by
  bs_walk

/-- the `<rb>`, `<rtc>` arm of `stepInBody` -/
theorem arm_rbRtc {c : List Id} {tag : Tag} {tok : Token} (ha : AttrsOk tag.attrs) :
    CPSP d0 c
    (do
      let __do_lift ← inScopeNamed defaultScope "ruby"
      if __do_lift = true then do
          generateImpliedEndTags cursoryImpliedEnd
          let __do_lift ← currentNodeNamed "ruby"
          if (!__do_lift) = true then do
              let _ ← unexpected
              let _ ← insertElementFor tag
              pure ProcessResult.done
            else do
              let _ ← insertElementFor tag
              pure ProcessResult.done
        else do
          let __do_lift ← currentNodeNamed "ruby"
          if (!__do_lift) = true then do
              let _ ← unexpected
              let _ ← insertElementFor tag
              pure ProcessResult.done
            else do
              let _ ← insertElementFor tag
              pure ProcessResult.done)
    (fun _ => []) (ResLate tok) := by
  bs_walk

/-- the `<rp>`, `<rt>` arm of `stepInBody` -/
theorem arm_rpRt {c : List Id} {tag : Tag} {tok : Token} (ha : AttrsOk tag.attrs) :
    CPSP d0 c
    (do
      let __do_lift ← inScopeNamed defaultScope "ruby"
      if __do_lift = true then do
          generateImpliedEndExcept "rtc".toList
          let __do_lift ← currentNodeNamed "rtc"
          if __do_lift = true then do
              let ok ← pure true
              if (!ok) = true then do
                  let _ ← unexpected
                  let _ ← insertElementFor tag
                  pure ProcessResult.done
                else do
                  let _ ← insertElementFor tag
                  pure ProcessResult.done
            else do
              let ok ← currentNodeNamed "ruby"
              if (!ok) = true then do
                  let _ ← unexpected
                  let _ ← insertElementFor tag
                  pure ProcessResult.done
                else do
                  let _ ← insertElementFor tag
                  pure ProcessResult.done
        else do
          let __do_lift ← currentNodeNamed "rtc"
          if __do_lift = true then do
              let ok ← pure true
              if (!ok) = true then do
                  let _ ← unexpected
                  let _ ← insertElementFor tag
                  pure ProcessResult.done
                else do
                  let _ ← insertElementFor tag
                  pure ProcessResult.done
            else do
              let ok ← currentNodeNamed "ruby"
              if (!ok) = true then do
                  let _ ← unexpected
                  let _ ← insertElementFor tag
                  pure ProcessResult.done
                else do
                  let _ ← insertElementFor tag
                  pure ProcessResult.done)
    (fun _ => []) (ResLate tok) := by
  bs_walk

end H5V.Lemmas.TBC
