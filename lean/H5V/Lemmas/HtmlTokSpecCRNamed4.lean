import H5V.Lemmas.HtmlTokSpecCRNamed3
/-!
# C01 simulation — named character references (layer L3b), part 4: `finish_named` against the
specification's decision (shared by `step` and `end`)
-/
set_option linter.unusedSimpArgs false
namespace H5V.Lemmas.HtmlTokSpec
open H5V.Model.HtmlTok
open H5V.Spec.HtmlTokenizer (St Tok Emit Tree Switch Ctl ReturnSt normalizeNewlinesFrom normalizeNewlines)
open H5V.Props.C14

/-! ## a `;` only ends an identifier of the table -/

def crnSemiLast : Bool :=
  Gen.Entities.firstLetters.all (fun c => (Gen.Entities.bucket c).all (fun r => r.1.dropLast.all (· != 59)))

theorem crnSemiLast_true : crnSemiLast = true := by decide +kernel

/-- a full match that does not end with `;` is alphanumeric throughout -/
theorem crn_lag_alnum (p : Str) (v : Nat × Nat) (hv : entityLookup p = some v) (hv0 : v.1 ≠ 0)
    (hlast : p.getLast? ≠ some ';') : ∀ c ∈ p, lagCh c = true := by
  have hrun := lookup_runCh p v hv
  obtain ⟨c0, rest0, hmap, r, hr, hr1, _⟩ := crn_lookup_full hv hv0
  have ht := crnSemiLast_true
  simp only [crnSemiLast, List.all_eq_true] at ht
  have hrow := ht c0 (bucket_letter c0 r hr) r hr
  rw [hr1, ← hmap] at hrow
  intro c hc
  have hne : c ≠ ';' := by
    rintro rfl
    rcases List.eq_nil_or_concat p with hp | ⟨pre, a, hp⟩
    · rw [hp] at hc; simp at hc
    · rw [List.concat_eq_append] at hp
      rw [hp] at hrow hlast hc
      simp only [List.map_append, List.map_cons, List.map_nil, List.dropLast_concat] at hrow
      simp only [List.getLast?_concat] at hlast
      rcases List.mem_append.mp hc with hc | hc
      · have := hrow ';'.toNat (List.mem_map_of_mem hc)
        exact absurd this (by decide)
      · simp only [List.mem_singleton] at hc
        exact hlast (by rw [hc])
  have := hrun c hc
  unfold runCh at this
  unfold lagCh
  simp only [Bool.or_eq_true, decide_eq_true_eq] at this ⊢
  rcases this with h | h
  · exact Or.inl (Or.inl h)
  · exact absurd h hne

/-! ## the machine `finish_named` hands over -/

theorem crn_base_self (m : Mach) (x : Option CharRefSt) (hil : m.ignoreLf = false) (hcr : m.charRef = x) :
    m = crnBase m m.out false x := by
  cases m
  simp only at hil hcr
  subst hil hcr
  rfl

theorem crn_base_out (m : Mach) (o' : Out) (x : Option CharRefSt) (hil : m.ignoreLf = false) (hcr : m.charRef = x) :
    ({ m with out := o' } : Mach) = crnBase m o' false x := by
  cases m
  simp only at hil hcr
  subst hil hcr
  rfl

theorem crn_base_lf (m : Mach) (x : Option CharRefSt) (hcr : m.charRef = x) :
    m.setIgnoreLf false = crnBase m m.out false x := by
  cases m
  simp only at hcr
  subst hcr
  rfl

theorem crn_base_err_lf (m : Mach) (msg : String) (x : Option CharRefSt) (hcr : m.charRef = x) :
    (emitErr m msg).setIgnoreLf false = crnBase m ((Token.error msg.toList, m.line) :: m.out) false x := by
  cases m
  simp only at hcr
  subst hcr
  rfl

theorem crn_tinv_of_step (o : Opts) (pol : Pol) {m : Mach} {inp : Str} {cr : CharRefSt} (ht : TInv m)
    (hcr : m.charRef = some cr) {m' : Mach} {inp' : Str} (heq : stepCharRef o m inp cr = .cont m' inp') :
    TInv m' :=
  step_tinv o pol m inp ht m' inp' (by rw [step_kind_charRef o pol m inp cr hcr, heq]; rfl)

/-- a `Done` answer of the sub-tokenizer inside `step` -/
theorem crn_stepOk_done (o : Opts) (pol : Pol) (tree : Tree) {m : Mach} {inp : Str} {t : Tok} {rest : Str}
    {cr : CharRefSt} (h : RelCore m inp t rest) (hcr : m.charRef = some cr) (o' : Out)
    (hfl : flat o' = flat m.out) (chars inp2 : Str) (cr2 : CharRefSt)
    (hstep : crStep o m inp cr = .ok (crnBase m o' false (some cr), inp2, cr2, .done chars))
    (hnul : isAttrValueState m.state = false → ∀ c ∈ crnEff chars, c ≠ '\x00')
    (hgoal : TInv (crnFin m o' false (some cr) chars) →
      Reach tree t rest (fun t' rest' => Rel (crnFin m o' false (some cr) chars) inp2 t' rest')) :
    StepOk tree t rest (stepCharRef o m inp cr) := by
  have hcont := (crn_regCore_done h hcr o' false (some cr) hfl chars hnul _ (Or.inl rfl)).1
  have heq : stepCharRef o m inp cr = .cont (crnFin m o' false (some cr) chars) inp2 := by
    rw [crn_stepCharRef_eq, hstep]
    simp only [crnOfRes]
    rw [hcont]
    rfl
  rw [heq]
  exact hgoal (crn_tinv_of_step o pol h.tinv hcr heq)

/-- a `Done` answer of the sub-tokenizer inside `end` -/
theorem crn_eof_done (o : Opts) (tree : Tree) {m : Mach} {t : Tok} {rest : Str}
    {cr : CharRefSt} (h : RelCore m [] t rest) (hcr : m.charRef = some cr) (o' : Out)
    (chars inp2 : Str)
    (he' : crEof o m [] cr = .ok (crnBase m o' false (some cr), inp2, chars))
    (hgoal : TInv (crnFin m o' false none chars) →
      Reach tree t rest (fun t' rest' => Rel (crnFin m o' false none chars) inp2 t' rest'))
    (m1 : Mach) (inp1 chars1 : Str) (he : crEof o m [] cr = .ok (m1, inp1, chars1))
    (m2 : Mach) (hp : processCharRef (m1.setCharRef none) chars1 = (m2, .cont)) :
    Reach tree t rest (fun t' rest' => Rel m2 inp1 t' rest') := by
  have hti := (finish_charRef_inv o m cr h.tinv.linv hcr m1 inp1 chars1 he).1
  rw [he'] at he
  simp only [Except.ok.injEq, Prod.mk.injEq] at he
  obtain ⟨e1, e2, e3⟩ := he
  subst e1 e2 e3
  have hb : (crnBase m o' false (some cr)).setCharRef none = crnBase m o' false none := rfl
  rw [hb] at hp hti
  have hm2 : crnFin m o' false none chars = m2 := by
    unfold crnFin
    rw [hp]
    apply crn_setCharRef_self
    have := processCharRef_charRef (crnBase m o' false none) chars
    rw [hp] at this
    exact this
  rw [hp] at hti
  rw [hm2] at hgoal
  exact hgoal hti

theorem crn_chars_nonul {c1 c2 : Nat} (hv1 : isValidScalar c1 = true) (hv2 : isValidScalar c2 = true)
    (h10 : c1 ≠ 0) : ∀ c ∈ crnEff (crnChars c1 c2), c ≠ '\x00' := by
  have heff : crnEff (crnChars c1 c2) = crnChars c1 c2 := by
    unfold crnEff crnChars; split <;> rfl
  intro c hc
  rw [heff] at hc
  unfold crnChars at hc
  split at hc
  · simp at hc; subst hc; exact crn_ofNat_ne_nul c1 hv1 h10
  · rename_i h20
    simp at hc
    rcases hc with hc | hc
    · subst hc; exact crn_ofNat_ne_nul c1 hv1 h10
    · subst hc; exact crn_ofNat_ne_nul c2 hv2 h20

theorem crn_inAttr_eq {m : Mach} {inp : Str} {t : Tok} {rest : Str} {cr : CharRefSt}
    (h : RelCore m inp t rest) (hcr : m.charRef = some cr) : cr.inAttr = t.returnState.inAttribute := by
  obtain ⟨hret, hrs, hia, _⟩ := h.crRel hcr
  rcases crn_ret_cases hret hrs with ⟨_, h1, h2⟩ | ⟨_, _, h1, h2⟩ <;> rw [hia, h1, h2]

set_option maxHeartbeats 1600000 in
/-- **`finish_named` against the named character reference state** of the specification: the buffer is
`nb ++ e` (`e` = the character that left the map, or nothing at the end of input), `rem` the unread
input -/
theorem crn_finish_sim (o : Opts) (ho : o.exactErrors = false) (tree : Tree) {m : Mach} {inp : Str} {t : Tok}
    {rest : Str} {cr : CharRefSt} (h : RelCore m inp t rest) (hcr : m.charRef = some cr)
    (hst : cr.state = .named) (nb : Str) (hb : cr.nameBuf = some nb)
    (x : Option CharRefSt) (e rem : Str) (ec : Option Char)
    (hrest : rest = nb ++ normalizeNewlinesFrom false (e ++ rem))
    (hlong : ∀ q, q <+: nb ++ normalizeNewlinesFrom false (e ++ rem) → nb.length < q.length → ¬ Walk.isKey q)
    (hdec : ∀ ia last, crnDec ia last (nb ++ e)[nb.length]? =
      crnDec ia last (nb ++ normalizeNewlinesFrom false (e ++ rem))[nb.length]?)
    (hec : cr.nameMatch = none → ∀ c, ec = some c → isAsciiAlnum c = false) :
    ∃ o' chars inp2 cr2, flat o' = flat m.out ∧
      finishNamed o m rem { cr with nameBuf := some (nb ++ e) } ec =
        .ok (crnBase m o' false (some cr), inp2, cr2, .done chars) ∧
      (isAttrValueState m.state = false → ∀ c ∈ crnEff chars, c ≠ '\x00') ∧
      (TInv (crnFin m o' false x chars) →
        Reach tree t rest (fun t' rest' => Rel (crnFin m o' false x chars) inp2 t' rest')) := by
  obtain ⟨hil, hrec, hlines⟩ := h.tinv.linv.cr cr hcr
  have hplain : ∀ c ∈ nb, isBrk c = false := by
    have := hlines.plain; rw [hb] at this; exact this
  have hg := h.crg cr hcr
  rw [hst] at hg
  obtain ⟨_, hbest⟩ := hg nb hb
  have hlnr := crn_lnr_of_best hbest hlong
  rw [← hrest] at hlnr
  have hstn : cr.state = .named ∨ cr.state = .bogusName := Or.inl hst
  have hia := crn_inAttr_eq h hcr
  have hm_or : cr.nameMatch = none ∨ ∃ c1 c2, cr.nameMatch = some (c1, c2) := by
    cases cr.nameMatch with
    | none => exact Or.inl rfl
    | some v => exact Or.inr ⟨v.1, v.2, rfl⟩
  rcases hm_or with hm | ⟨c1, c2, hm⟩
  · rw [hm] at hlnr
    simp only [Option.map_none] at hlnr
    obtain ⟨o', hfl, hfin⟩ := crn_finishNamed_giveup o ho m rem { cr with nameBuf := some (nb ++ e) } (nb ++ e) ec
      rfl hm (hec hm)
    rw [crn_base_out m o' (some cr) hil hcr] at hfin
    refine ⟨o', [], (nb ++ e) ++ rem, _, hfl, hfin, ?_, ?_⟩
    · intro _ c hc; simp [crnEff] at hc; subst hc; decide
    · intro hti
      refine crn_done_none tree h hcr hstn o' x hfl _ hlnr ?_ hti
      rw [hrest, List.append_assoc, crn_norm_plain nb _ hplain]
  · rw [hm] at hlnr hbest
    simp only [Option.map_some] at hlnr
    obtain ⟨b1, b2, b3, b4⟩ := hbest.1 (c1, c2) rfl
    obtain ⟨hv1, hv2⟩ := entityLookup_valid _ _ b3 b4
    simp only at b4 hv1 hv2
    have hlen2 : cr.nameLen ≤ (nb ++ e).length := by simp; omega
    have hfin := crn_finishNamed_match o m rem { cr with nameBuf := some (nb ++ e) } (nb ++ e) ec c1 c2
      rfl hm b1 hlen2 hv1 hv2
    simp only at hfin
    -- the two decisions agree
    have hlast : (nb ++ e)[cr.nameLen - 1]? = nb[cr.nameLen - 1]? :=
      List.getElem?_append_left (by omega)
    have hnext : ∀ ia last, crnDec ia last (nb ++ e)[cr.nameLen]? =
        crnDec ia last (nb ++ normalizeNewlinesFrom false (e ++ rem))[cr.nameLen]? := by
      intro ia last
      by_cases hlt : cr.nameLen < nb.length
      · rw [List.getElem?_append_left hlt, List.getElem?_append_left hlt]
      · have : cr.nameLen = nb.length := by omega
        rw [this]; exact hdec ia last
    have hspec := crn_exc_eq t.returnState.inAttribute nb (normalizeNewlinesFrom false (e ++ rem)) cr.nameLen b1 b2
    rw [← hrest] at hspec
    rw [hlast, hnext, ← hrest] at hfin
    have hnl : ((nb.take cr.nameLen).map Char.toNat).length = cr.nameLen := by simp; omega
    have hdrop : rest.drop cr.nameLen =
        normalizeNewlinesFrom false (nb.drop cr.nameLen ++ (e ++ rem)) := by
      rw [hrest, List.drop_append_of_le_length b2,
        crn_norm_plain _ _ (fun c hc => hplain c (List.mem_of_mem_drop hc))]
    by_cases hd : crnDec cr.inAttr nb[cr.nameLen - 1]? rest[cr.nameLen]? = true
    · simp only [hd, if_true] at hfin
      conv at hfin => rhs; rw [crn_base_self m (some cr) hil hcr]
      refine ⟨m.out, [], (nb ++ e) ++ rem, _, rfl, hfin, ?_, ?_⟩
      · intro _ c hc; simp [crnEff] at hc; subst hc; decide
      · intro hti
        have hsplit : (nb ++ e) ++ rem = nb.take cr.nameLen ++ (nb.drop cr.nameLen ++ (e ++ rem)) := by
          rw [← List.append_assoc (nb.take cr.nameLen), List.take_append_drop, List.append_assoc]
        rw [hsplit]
        have hlastne : (nb.take cr.nameLen).getLast? ≠ some ';' := by
          have : (nb.take cr.nameLen).getLast? = nb[cr.nameLen - 1]? := by
            rw [List.getLast?_eq_getElem?, List.length_take, Nat.min_eq_left b2, List.getElem?_take]
            simp; omega
          rw [this]
          intro hx
          rw [hx] at hd
          simp [crnDec] at hd
        refine crn_done_exc tree h hcr hstn m.out x rfl (nb.take cr.nameLen) _ _ c1 c2 hlnr
          (by rw [hspec, ← hia]; exact hd) ?_ ?_ (crn_lag_alnum _ _ b3 b4 hlastne) (by rw [hnl]; exact hdrop) hti
        · rw [hnl, hrest, List.take_append_of_le_length b2]
        · intro hx
          have h0 : (nb.take cr.nameLen).length = 0 := by rw [hx]; rfl
          rw [List.length_take, Nat.min_eq_left b2] at h0
          omega
    · simp only [hd, Bool.false_eq_true, if_false] at hfin
      have hd' : crnDec cr.inAttr nb[cr.nameLen - 1]? rest[cr.nameLen]? = false := by
        simpa using hd
      have hdropF : (nb ++ e).drop cr.nameLen ++ rem = nb.drop cr.nameLen ++ (e ++ rem) := by
        rw [List.drop_append_of_le_length b2, List.append_assoc]
      by_cases hsemi : nb[cr.nameLen - 1]? = some ';'
      · simp only [hsemi, if_true] at hfin
        rw [crn_base_lf m (some cr) hcr, hdropF] at hfin
        refine ⟨m.out, crnChars c1 c2, _, _, rfl, hfin, fun _ => crn_chars_nonul hv1 hv2 b4, ?_⟩
        intro hti
        exact crn_done_val tree h hcr hstn m.out x rfl _ _ c1 c2 hlnr (by rw [hspec, ← hia]; exact hd')
          (by rw [hnl]; exact hdrop) hv1 hv2 b4 hti
      · simp only [hsemi, if_false] at hfin
        rw [crn_base_err_lf m _ (some cr) hcr, hdropF] at hfin
        refine ⟨(Token.error "Character reference does not end with semicolon".toList, m.line) :: m.out,
          crnChars c1 c2, _, _, by simp, hfin, fun _ => crn_chars_nonul hv1 hv2 b4, ?_⟩
        intro hti
        exact crn_done_val tree h hcr hstn _ x (by simp) _ _ c1 c2 hlnr (by rw [hspec, ← hia]; exact hd')
          (by rw [hnl]; exact hdrop) hv1 hv2 b4 hti

end H5V.Lemmas.HtmlTokSpec
