import H5V.Lemmas.DomText2
import H5V.Lemmas.DomKinds
/-! "No adjacent text siblings" is preserved by every sink call except the three that can detach a node. -/
namespace H5V.Lemmas.Dom
open H5V.Model.Dom

theorem NoAdjacentText.congr {d d' : Dom} (hn : NoAdjacentText d) (hc : ∀ x, d'.childrenOf x = d.childrenOf x)
    (ht : ∀ p, ∀ x ∈ d.childrenOf p, d'.isText x = d.isText x) : NoAdjacentText d' := by
  intro p
  rw [hc, noAdj_congr (ht p)]; exact hn p

theorem NoAdjacentText.alloc {d : Dom} (hw : WF d) (hn : NoAdjacentText d) (data : NodeData) :
    NoAdjacentText (d.alloc data).1 := by
  refine hn.congr (childrenOf_alloc d data) ?_
  intro p x hx
  exact isText_congr (by rw [dataOf_alloc]; simp [Nat.ne_of_lt (child_valid hw hx)])

/-- a non-text node inserted at index `i` of `P`'s child list, data untouched -/
theorem NoAdjacentText.insertNode {d d' : Dom} (hn : NoAdjacentText d) {P c : Id} {i : Nat}
    (hch : ∀ x, d'.childrenOf x = if x = P then insertAt (d.childrenOf P) i c else d.childrenOf x)
    (hd : ∀ x, d'.dataOf x = d.dataOf x) (hc : d.isText c = false) : NoAdjacentText d' := by
  intro q
  rw [hch, noAdj_congr (isT := d.isText) (fun x _ => isText_congr (hd x))]
  by_cases hq : q = P
  · subst hq
    simp only [if_true]
    unfold insertAt
    have htd := noAdj_take_drop (hn q) i
    rw [noAdj_append, noAdj_cons, htd.1, htd.2]
    simp [headT, hc]
  · simp only [hq, if_false]; exact hn q

theorem NoAdjacentText.appendBeforeSibling_node {d d' : Dom} (hn : NoAdjacentText d) {s c : Id}
    (hc : d.contractAppendBeforeSibling s (.node c) = true) (hpc : d.parentOf c = none)
    (h : d.appendBeforeSibling s (.node c) = .ok d') : NoAdjacentText d' := by
  obtain ⟨P, i, hpar, _, _, hm⟩ := appendBeforeSibling_ok h
  simp only at hm
  simp only [Dom.contractAppendBeforeSibling, hpar, Dom.childOk, Bool.and_eq_true] at hc
  obtain ⟨d1, hr, _, _, _, _, hch, hd, _, _⟩ := insertAtIndex_ok hm
  rcases removeFromParent_ok hr with ⟨_, he⟩ | ⟨p', _, hpar', _⟩
  · subst he
    exact hn.insertNode hch hd (isText_of_insertable hc.2.1.2.1.1)
  · rw [hpc] at hpar'; cases hpar'

end H5V.Lemmas.Dom
