import H5V.Spec.HtmlTokenizer
import H5V.Lemmas.HtmlTokTerm
import H5V.Props.C14
/-!
# C01 — simulation of the WHATWG tokenization algorithm by the model of html5ever's tokenizer:
definitions (layer L0)

* `stOf`   : html5ever's (parametrised) tokenizer states ↦ the 80 states of the standard
* `flat`   : the model's output in the canonical form of the comparison (parse errors, pause markers,
             EOF and line numbers dropped, character tokens exploded into single characters)
* `Steps`  : `k ≥ 0` steps of the specification
* `RelCore`/`Rel` : the simulation relation between a model configuration `(m, inp)` and a
             specification configuration `(t, rest)`
-/
namespace H5V.Lemmas.HtmlTokSpec
open H5V.Model.HtmlTok
open H5V.Spec.HtmlTokenizer (St Tok Emit Tree Switch Ctl ReturnSt normalizeNewlinesFrom normalizeNewlines
  dedupAttrs)

/-- the specification's step function -/
abbrev sstep := @H5V.Spec.HtmlTokenizer.step

/-! ## states -/

/-- html5ever state ↦ state of the standard (the two states without counterpart are mapped to
junk and excluded by `Std`) -/
def stOf : State → St
  | .data => .data
  | .plaintext => .plaintext
  | .tagOpen => .tagOpen
  | .endTagOpen => .endTagOpen
  | .tagName => .tagName
  | .rawData .rcdata => .rcdata
  | .rawData .rawtext => .rawtext
  | .rawData .scriptData => .scriptData
  | .rawData (.scriptDataEscaped .escaped) => .scriptDataEscaped
  | .rawData (.scriptDataEscaped .doubleEscaped) => .scriptDataDoubleEscaped
  | .rawLessThanSign .rcdata => .rcdataLessThanSign
  | .rawLessThanSign .rawtext => .rawtextLessThanSign
  | .rawLessThanSign .scriptData => .scriptDataLessThanSign
  | .rawLessThanSign (.scriptDataEscaped .escaped) => .scriptDataEscapedLessThanSign
  | .rawLessThanSign (.scriptDataEscaped .doubleEscaped) => .scriptDataDoubleEscapedLessThanSign
  | .rawEndTagOpen .rcdata => .rcdataEndTagOpen
  | .rawEndTagOpen .rawtext => .rawtextEndTagOpen
  | .rawEndTagOpen .scriptData => .scriptDataEndTagOpen
  | .rawEndTagOpen (.scriptDataEscaped .escaped) => .scriptDataEscapedEndTagOpen
  | .rawEndTagOpen (.scriptDataEscaped .doubleEscaped) => .scriptDataEscapedEndTagOpen   -- junk
  | .rawEndTagName .rcdata => .rcdataEndTagName
  | .rawEndTagName .rawtext => .rawtextEndTagName
  | .rawEndTagName .scriptData => .scriptDataEndTagName
  | .rawEndTagName (.scriptDataEscaped .escaped) => .scriptDataEscapedEndTagName
  | .rawEndTagName (.scriptDataEscaped .doubleEscaped) => .scriptDataEscapedEndTagName   -- junk
  | .scriptDataEscapeStart .escaped => .scriptDataEscapeStart
  | .scriptDataEscapeStart .doubleEscaped => .scriptDataDoubleEscapeStart
  | .scriptDataEscapeStartDash => .scriptDataEscapeStartDash
  | .scriptDataEscapedDash .escaped => .scriptDataEscapedDash
  | .scriptDataEscapedDash .doubleEscaped => .scriptDataDoubleEscapedDash
  | .scriptDataEscapedDashDash .escaped => .scriptDataEscapedDashDash
  | .scriptDataEscapedDashDash .doubleEscaped => .scriptDataDoubleEscapedDashDash
  | .scriptDataDoubleEscapeEnd => .scriptDataDoubleEscapeEnd
  | .beforeAttributeName => .beforeAttributeName
  | .attributeName => .attributeName
  | .afterAttributeName => .afterAttributeName
  | .beforeAttributeValue => .beforeAttributeValue
  | .attributeValue .unquoted => .attributeValueUnquoted
  | .attributeValue .singleQuoted => .attributeValueSingleQuoted
  | .attributeValue .doubleQuoted => .attributeValueDoubleQuoted
  | .afterAttributeValueQuoted => .afterAttributeValueQuoted
  | .selfClosingStartTag => .selfClosingStartTag
  | .bogusComment => .bogusComment
  | .markupDeclarationOpen => .markupDeclarationOpen
  | .commentStart => .commentStart
  | .commentStartDash => .commentStartDash
  | .comment => .comment
  | .commentLessThanSign => .commentLessThanSign
  | .commentLessThanSignBang => .commentLessThanSignBang
  | .commentLessThanSignBangDash => .commentLessThanSignBangDash
  | .commentLessThanSignBangDashDash => .commentLessThanSignBangDashDash
  | .commentEndDash => .commentEndDash
  | .commentEnd => .commentEnd
  | .commentEndBang => .commentEndBang
  | .doctype => .doctype
  | .beforeDoctypeName => .beforeDoctypeName
  | .doctypeName => .doctypeName
  | .afterDoctypeName => .afterDoctypeName
  | .afterDoctypeKeyword .pub => .afterDoctypePublicKeyword
  | .afterDoctypeKeyword .sys => .afterDoctypeSystemKeyword
  | .beforeDoctypeIdentifier .pub => .beforeDoctypePublicIdentifier
  | .beforeDoctypeIdentifier .sys => .beforeDoctypeSystemIdentifier
  | .doctypeIdentifierDoubleQuoted .pub => .doctypePublicIdentifierDoubleQuoted
  | .doctypeIdentifierDoubleQuoted .sys => .doctypeSystemIdentifierDoubleQuoted
  | .doctypeIdentifierSingleQuoted .pub => .doctypePublicIdentifierSingleQuoted
  | .doctypeIdentifierSingleQuoted .sys => .doctypeSystemIdentifierSingleQuoted
  | .afterDoctypeIdentifier .pub => .afterDoctypePublicIdentifier
  | .afterDoctypeIdentifier .sys => .afterDoctypeSystemIdentifier
  | .betweenDoctypePublicAndSystemIdentifiers => .betweenDoctypePublicAndSystemIdentifiers
  | .bogusDoctype => .bogusDoctype
  | .cdataSection => .cdataSection
  | .cdataSectionBracket => .cdataSectionBracket
  | .cdataSectionEnd => .cdataSectionEnd

/-- the html5ever states that correspond to a state of the standard: all but
`RawEndTagOpen/RawEndTagName(ScriptDataEscaped(DoubleEscaped))` (unreachable except through
`TokenizerOpts.initial_state`) -/
def Std (s : State) : Prop :=
  s ≠ .rawEndTagOpen (.scriptDataEscaped .doubleEscaped) ∧
  s ≠ .rawEndTagName (.scriptDataEscaped .doubleEscaped)

instance (s : State) : Decidable (Std s) := by unfold Std; infer_instance

/-- the states a character reference returns to -/
def isRet : State → Bool
  | .data | .rawData .rcdata | .attributeValue _ => true
  | _ => false

/-- the tag registers (kind, name, self-closing flag, attributes) are live -/
def isTagSt : State → Bool
  | .tagName | .beforeAttributeName | .attributeName | .afterAttributeName | .beforeAttributeValue
  | .attributeValue _ | .afterAttributeValueQuoted | .selfClosingStartTag | .rawEndTagName _ => true
  | _ => false

/-- states that presuppose a current attribute (they append to it, or lead to a state that does) -/
def needsCur : State → Bool
  | .attributeName | .afterAttributeName | .beforeAttributeValue | .attributeValue _ => true
  | _ => false

/-- `temp_buf` is the standard's temporary buffer -/
def usesTemp : State → Bool
  | .rawEndTagOpen _ | .rawEndTagName _ | .scriptDataEscapeStart .doubleEscaped
  | .scriptDataDoubleEscapeEnd => true
  | _ => false

def usesComment : State → Bool
  | .bogusComment | .commentStart | .commentStartDash | .comment | .commentLessThanSign
  | .commentLessThanSignBang | .commentLessThanSignBangDash | .commentLessThanSignBangDashDash
  | .commentEndDash | .commentEnd | .commentEndBang => true
  | _ => false

def usesDoctype : State → Bool
  | .doctypeName | .afterDoctypeName | .afterDoctypeKeyword _ | .beforeDoctypeIdentifier _
  | .doctypeIdentifierDoubleQuoted _ | .doctypeIdentifierSingleQuoted _ | .afterDoctypeIdentifier _
  | .betweenDoctypePublicAndSystemIdentifiers | .bogusDoctype => true
  | _ => false

/-- in the CDATA section states html5ever collects the text in `temp_buf` and hands it over at the
end; the standard emits character by character -/
def isCdata : State → Bool
  | .cdataSection | .cdataSectionBracket | .cdataSectionEnd => true
  | _ => false

def cdataBuf (m : Mach) : Str := if isCdata m.state then m.tempBuf else []

/-! ## canonical form of the output -/

/-- a token of the model as the emits of the specification (in emission order) -/
def flatTok : Token → List Emit
  | .chars s => s.map .char
  | .nullChar => [.null]
  | .tag t => [.tag t]
  | .comment s => [.comment s]
  | .doctype d => [.doctype d]
  | .eof | .error _ | .pause _ => []

/-- the model's output, newest first (like `Tok.out`) -/
def flat : Out → List Emit
  | [] => []
  | (tok, _) :: out => (flatTok tok).reverse ++ flat out

/-! ## steps of the specification -/

/-- `k ≥ 0` steps of the specification none of which emits the end-of-file token -/
inductive Steps (tree : Tree) : Tok → Str → Tok → Str → Prop
  | refl (t : Tok) (rest : Str) : Steps tree t rest t rest
  | step {t : Tok} {rest : Str} {t1 : Tok} {n : Nat} {t' : Tok} {rest' : Str} :
      sstep tree t rest = (t1, .advance n) → Steps tree t1 (rest.drop n) t' rest' →
      Steps tree t rest t' rest'

/-- executable: `k` steps -/
def specN (tree : Tree) : Nat → Tok → Str → Option (Tok × Str)
  | 0, t, rest => some (t, rest)
  | k + 1, t, rest =>
    match sstep tree t rest with
    | (t1, .advance n) => specN tree k t1 (rest.drop n)
    | (_, .stop) => none

/-! ## the relation -/

/-- attributes: html5ever keeps the finished attributes de-duplicated plus the current one in two
registers; the standard keeps all of them (the last is the current one) and de-duplicates when the
tag is emitted -/
def AttrR (ta : List Attr) (hd : Bool) (an av : Str) (L : List Attr) : Prop :=
  (∀ a ∈ L, a.name ≠ []) ∧
  ta = dedupAttrs L.dropLast ∧
  hd = ((dedupAttrs L.dropLast).length != L.dropLast.length) ∧
  an = (L.getLast?.map (·.name)).getD [] ∧
  av = (L.getLast?.map (·.value)).getD []

instance (ta : List Attr) (hd : Bool) (an av : Str) (L : List Attr) : Decidable (AttrR ta hd an av L) := by
  unfold AttrR; infer_instance

def AttrRel (m : Mach) (t : Tok) : Prop :=
  AttrR m.tagAttrs m.tagHadDup m.attrName m.attrValue t.attrs

instance (m : Mach) (t : Tok) : Decidable (AttrRel m t) := by unfold AttrRel; infer_instance

/-- the registers of the token under construction, by state class -/
def RegRel (m : Mach) (t : Tok) : Prop :=
  m.lastStartTag = t.lastStartTag ∧
  (isTagSt m.state = true →
    m.tagKind = t.tagKind ∧ m.tagName = t.tagName ∧ m.tagSelfClosing = t.selfClosing ∧ AttrRel m t) ∧
  (isTagSt m.state = false → m.tagAttrs = [] ∧ m.attrName = [] ∧ m.attrValue = []) ∧
  (needsCur m.state = true → t.attrs ≠ []) ∧
  (usesTemp m.state = true → m.tempBuf = t.temporaryBuffer) ∧
  (usesComment m.state = true → m.comment = t.comment) ∧
  (usesDoctype m.state = true → m.doctype = t.doctype) ∧
  -- the raw end tag name states (the only tag states that use the temporary buffer): no attributes yet
  (isTagSt m.state = true ∧ usesTemp m.state = true → t.attrs = []) ∧
  -- html5ever's comment register is empty outside the comment states (`emit_current_comment` takes it;
  -- the EOF arm of markup declaration open relies on this)
  (usesComment m.state = false → m.comment = [])

instance (m : Mach) (t : Tok) : Decidable (RegRel m t) := by unfold RegRel; infer_instance

/-- what has been emitted -/
def OutRel (m : Mach) (t : Tok) : Prop :=
  t.out = (cdataBuf m).reverse.map Emit.char ++ flat m.out

instance (m : Mach) (t : Tok) : Decidable (OutRel m t) := by unfold OutRel; infer_instance

/-- what is still to be read: a pending `reconsume`, then the stash of the look-ahead machinery
and the unread input, newline-normalised -/
def InpRel (m : Mach) (inp : Str) (rest : Str) : Prop :=
  rest = rc m ++ normalizeNewlinesFrom m.ignoreLf (stash m ++ inp)

instance (m : Mach) (inp rest : Str) : Decidable (InpRel m inp rest) := by unfold InpRel; infer_instance

/-- states of the specification that behave like the state `stOf s` except for parse errors:
* the ambiguous ampersand state is the return state as long as alphanumerics arrive, and reconsumes
  in it otherwise (html5ever un-consumes the name and reads it again in the return state);
* the comment less-than sign states only exist to report nested comments (html5ever's comment start
  states go straight to its comment state on `<`). -/
def altSt (s : State) (t : Tok) : Prop :=
  (t.state = .ambiguousAmpersand ∧ isRet s = true ∧ t.returnState.toSt = stOf s) ∨
  (s = .comment ∧ (t.state = .commentLessThanSign ∨ t.state = .commentLessThanSignBang)) ∨
  (s = .commentEndDash ∧ t.state = .commentLessThanSignBangDash) ∨
  (s = .commentEnd ∧ t.state = .commentLessThanSignBangDashDash)

instance (s : State) (t : Tok) : Decidable (altSt s t) := by unfold altSt; infer_instance

/-- numeric base of a character reference in progress -/
def crBase (cr : CharRefSt) : Nat := if cr.hexMarker.isSome then 16 else 10

/-- the u32 accumulator with its overflow latch against the standard's unbounded
character reference code (the invariant of `C14.accum_inv`) -/
def NumRel (cr : CharRefSt) (code : Nat) : Prop :=
  if cr.numTooBig then code > 0x10FFFF else cr.num = code ∧ code ≤ 0x10FFFF + 15

instance (cr : CharRefSt) (code : Nat) : Decidable (NumRel cr code) := by unfold NumRel; infer_instance

def crFresh (cr : CharRefSt) : Prop :=
  cr.num = 0 ∧ cr.numTooBig = false ∧ cr.seenDigit = false ∧ cr.hexMarker = none ∧
  cr.nameBuf = none ∧ cr.nameMatch = none ∧ cr.nameLen = 0

instance (cr : CharRefSt) : Decidable (crFresh cr) := by unfold crFresh; infer_instance

def amp : Str := ['&']

/-- state of the specification for a numeric reference of base 16 / 10 -/
def numStart (cr : CharRefSt) : St :=
  if cr.hexMarker.isSome then .hexadecimalCharacterReferenceStart else .decimalCharacterReferenceStart
def numSt (cr : CharRefSt) : St :=
  if cr.hexMarker.isSome then .hexadecimalCharacterReference else .decimalCharacterReference

/-- no identifier of the table is a prefix of any text that starts with `nb` -/
def Dead (nb : Str) : Prop :=
  ∀ s, H5V.Spec.HtmlTokenizer.longestNamedReference (nb ++ s) = none

/-- the decidable part of the character-reference relation, by sub-state -/
def CRStD (cr : CharRefSt) (t : Tok) (rest : Str) : CRState → Prop
  | .begin => t.state = .characterReference ∧ crFresh cr
  | .octothorpe =>
    t.state = .numericCharacterReference ∧ t.temporaryBuffer = ['&', '#'] ∧ crFresh cr
  | .numeric b =>
    b = crBase cr ∧ cr.nameBuf = none ∧
    (if cr.seenDigit then t.state = numSt cr ∧ NumRel cr t.characterReferenceCode
     else t.state = numStart cr ∧ t.temporaryBuffer = ['&', '#'] ++ cr.hexMarker.toList ∧
          cr.num = 0 ∧ cr.numTooBig = false ∧ t.characterReferenceCode = 0)
  | .numericSemicolon =>
    cr.nameBuf = none ∧ t.state = numSt cr ∧ NumRel cr t.characterReferenceCode ∧
    (rest.head?.bind fun c => toDigit c (crBase cr)) = none
  | .named => t.state = .namedCharacterReference ∧ t.temporaryBuffer = amp ∧ cr.nameBuf ≠ none
  | .bogusName => t.state = .namedCharacterReference ∧ t.temporaryBuffer = amp ∧ cr.nameBuf ≠ none ∧
      cr.nameMatch = none

instance (cr : CharRefSt) (t : Tok) (rest : Str) (s : CRState) : Decidable (CRStD cr t rest s) := by
  cases s <;> (simp only [CRStD]; infer_instance)

/-- the non-decidable part: the match registers of a named reference in progress -/
def CRStG (cr : CharRefSt) : CRState → Prop
  | .named => ∀ nb, cr.nameBuf = some nb →
      (nb = [] ∨ (entityLookup nb).isSome = true) ∧ H5V.Props.C14.Walk.Best nb cr.nameMatch cr.nameLen
  | .bogusName => ∀ nb, cr.nameBuf = some nb → Dead nb
  | _ => True

/-- character reference in progress (decidable part) -/
def CRRelD (m : Mach) (cr : CharRefSt) (t : Tok) (rest : Str) : Prop :=
  isRet m.state = true ∧ t.returnState.toSt = stOf m.state ∧ cr.inAttr = isAttrValueState m.state ∧
  CRStD cr t rest cr.state

instance (m : Mach) (cr : CharRefSt) (t : Tok) (rest : Str) : Decidable (CRRelD m cr t rest) := by
  unfold CRRelD; infer_instance

/-- the state of the specification -/
def StRelD (m : Mach) (t : Tok) (rest : Str) : Prop :=
  match m.charRef with
  | none => t.state = stOf m.state ∨ altSt m.state t
  | some cr => CRRelD m cr t rest

instance (m : Mach) (t : Tok) (rest : Str) : Decidable (StRelD m t rest) := by
  unfold StRelD; split <;> infer_instance

/-- the decidable part of the relation -/
def RelD (m : Mach) (inp : Str) (t : Tok) (rest : Str) : Prop :=
  Std m.state ∧ StRelD m t rest ∧ RegRel m t ∧ OutRel m t ∧ InpRel m inp rest

instance (m : Mach) (inp : Str) (t : Tok) (rest : Str) : Decidable (RelD m inp t rest) := by
  unfold RelD; infer_instance

/-- **the simulation relation** (without lag): decidable part + the invariants of the model
(`TInv`: no-panic, line and termination invariants of the reader) + the match registers of a named
character reference -/
structure RelCore (m : Mach) (inp : Str) (t : Tok) (rest : Str) : Prop where
  d : RelD m inp t rest
  tinv : TInv m
  crg : ∀ cr, m.charRef = some cr → CRStG cr cr.state

/-! ### lag

When html5ever gives up a character reference it un-consumes what it read (`#`, `#x`, the name) and
reads it again as ordinary text of the return state; the standard flushes those characters at once.
`lag` is that text: at the front of the model's input, already processed by the specification. All
its characters are plain text in every state in which a lag occurs. -/

def lagCh (c : Char) : Bool := isAsciiAlnum c || c = '#' || c = '['

/-- the states in which a lag occurs: the return states of character references, and the bogus
comment state (`<![CDATA[` outside foreign content: the standard consumes the seven characters and
starts the comment with them, html5ever starts an empty comment and reads them again) -/
def isLagSt : State → Bool
  | .data | .rawData .rcdata | .attributeValue _ | .bogusComment => true
  | _ => false

/-- the model after reading `lag` in its state -/
def absorb (m : Mach) (lag : Str) : Mach :=
  if lag = [] then m
  else if isAttrValueState m.state then appendValue lag m
  else if m.state = .bogusComment then { m with comment := m.comment ++ lag }
  else emitChars m lag

def LagOk (m : Mach) (lag : Str) : Prop :=
  lag = [] ∨ (isLagSt m.state = true ∧ m.charRef = none ∧ m.reconsume = false ∧ m.ignoreLf = false ∧
    ∀ c ∈ lag, lagCh c = true)

instance (m : Mach) (lag : Str) : Decidable (LagOk m lag) := by unfold LagOk; infer_instance

/-- **the simulation relation** -/
def Rel (m : Mach) (inp : Str) (t : Tok) (rest : Str) : Prop :=
  ∃ lag inp0, inp = lag ++ inp0 ∧ LagOk m lag ∧ RelCore (absorb m lag) inp0 t rest

theorem RelCore.toRel {m : Mach} {inp : Str} {t : Tok} {rest : Str} (h : RelCore m inp t rest) :
    Rel m inp t rest :=
  ⟨[], inp, rfl, Or.inl rfl, by simpa [absorb] using h⟩

/-! ### policies -/

/-- what html5ever does with the sink's answer, as the tokenizer-state switch of the standard's
tree construction stage -/
def switchOf : SinkRes → Switch
  | .continue_ => .none
  | .plaintext => .plaintext
  | .rawData .rcdata => .rcdata
  | .rawData .rawtext => .rawtext
  | .rawData .scriptData => .scriptData
  | .rawData (.scriptDataEscaped .escaped) => .scriptDataEscaped
  | .rawData (.scriptDataEscaped .doubleEscaped) => .scriptDataDoubleEscaped
  | .script => .data
  | .indicator => .none

/-- the sink policy `pol` of the model and the tree-construction feedback `tree` of the
specification give the same answers on corresponding token histories (the specification's history
is the canonical form `flat` of the model's token log — so the policy may depend on everything
delivered so far, but not on parse errors, line numbers or the way text is cut into character
tokens), and the sink never pauses the tokenizer (no Script / EncodingIndicator answers):
* the tokenizer-state switch after a tag token (the specification passes the history *including* the
  tag just emitted, html5ever's sink is asked before the token is logged);
* the answer to "is there an adjusted current node that is not in the HTML namespace" (CDATA). -/
structure PolTree (pol : Pol) (tree : Tree) : Prop where
  noPause : ∀ out tag, pol.onTag out tag ≠ .script ∧ pol.onTag out tag ≠ .indicator
  onTag : ∀ out tag, tree.onTag (Emit.tag tag :: flat out) tag = switchOf (pol.onTag out tag)
  cdata : ∀ out, tree.foreign (flat out) = pol.cdataOk out

end H5V.Lemmas.HtmlTokSpec
