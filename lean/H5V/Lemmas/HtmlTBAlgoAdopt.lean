import H5V.Lemmas.HtmlTBAlgoReconstruct
import H5V.Lemmas.HtmlTBAlgoNoah
import H5V.Lemmas.HtmlTBAlgoPop
/-!
(o) the adoption agency algorithm: the model's `adoptionAgency` / `aaOuterStep` / `aaInner` against
`Spec.TreeAlgo2.adoptionAgency` / `outerRound` / `innerLoop`.
-/
namespace H5V.Lemmas.HtmlTBAlgo
open H5V.Model.HtmlTB
open H5V.Model.Dom (Id SinkOp Output Dom QualName Attr NodeOrText ElementFlags NodeData)
open H5V.Lemmas.Dom
open H5V.Lemmas.HtmlTBSpec (NamesOk toName)
open H5V.Spec.TreeAlgo2
open H5V.Spec.TreeAlgo (Name)

/-! ### positions -/

theorem tot_positionInAFLoop (x : Id) : ∀ (l : List FormatEntry) (i : Nat) (s : State),
    Tot (positionInAFLoop x l i) s (QueryQ s ((listPos x (absList l)).map (· + i))) := by
  intro l
  induction l with
  | nil => intro i s; exact tot_pure ⟨rfl, SameTB.refl _, rfl⟩
  | cons e rest ih =>
    intro i s
    cases e with
    | marker =>
      unfold positionInAFLoop
      refine tot_conseq (ih (i + 1) s) fun a s' c _ ⟨h1, h2, h3⟩ => ⟨?_, h2, h3⟩
      rw [h1]
      simp only [absList, List.map_cons, absEntry, listPos, Option.map_map]
      congr 1; funext k; simp; omega
    | element h t =>
      unfold positionInAFLoop
      refine tot_query_query (tot_sameNode s h x) fun s1 c1 _ _ => ?_
      simp only [absList, List.map_cons, absEntry, listPos]
      by_cases hx : h = x
      · subst hx; simp only [beq_self_eq_true, if_true]
        exact tot_pure ⟨by simp, SameTB.refl _, rfl⟩
      · have : (h == x) = false := by simpa using hx
        simp only [this, Bool.false_eq_true, if_false, hx]
        refine tot_conseq (ih (i + 1) s1) fun a s' c _ ⟨h1, h2, h3⟩ => ⟨?_, h2, h3⟩
        rw [h1]
        simp only [absList, Option.map_map]
        congr 1; funext k; simp; omega

theorem tot_positionInAF (s : State) (x : Id) :
    Tot (positionInActiveFormatting x) s (QueryQ s (listPos x (absList s.activeFormatting))) := by
  unfold positionInActiveFormatting
  refine tot_getS_bind ?_
  refine tot_conseq (tot_positionInAFLoop x s.activeFormatting 0 s) fun a s' c _ ⟨h1, h2, h3⟩ => ⟨?_, h2, h3⟩
  rw [h1]; simp

theorem listPos_spec (x : Id) : ∀ (l : List FormatEntry) (i : Nat), listPos x (absList l) = some i →
    ∃ t, l[i]? = some (.element x t) := by
  intro l
  induction l with
  | nil => intro i h; simp [absList, listPos] at h
  | cons e rest ih =>
    intro i h
    cases e with
    | marker =>
      simp only [absList, List.map_cons, absEntry, listPos, Option.map_eq_some_iff] at h
      obtain ⟨j, hj, rfl⟩ := h
      obtain ⟨t, ht⟩ := ih j hj
      exact ⟨t, by simpa using ht⟩
    | element h' t' =>
      simp only [absList, List.map_cons, absEntry, listPos] at h
      by_cases hx : h' = x
      · subst hx; simp at h; subst h; exact ⟨t', rfl⟩
      · simp only [hx, if_false, Option.map_eq_some_iff] at h
        obtain ⟨j, hj, rfl⟩ := h
        obtain ⟨t, ht⟩ := ih j hj
        exact ⟨t, by simpa using ht⟩

theorem lastPos_ids (f : Id → Bool) (d d' : Dom) (l : List Id) :
    lastPos (fun e => f e.id) (absStack d l) = lastPos (fun e => f e.id) (absStack d' l) := by
  induction l with
  | nil => rfl
  | cons a r ihl => simp only [absStack, List.map_cons, lastPos] at ihl ⊢; rw [ihl]; rfl

theorem tot_rpositionLoop (p : Id → M Bool) (f : Id → Bool) (hp : ∀ n s, Tot (p n) s (QueryQ s (f n))) :
    ∀ (lr : List Id) (s : State),
    Tot (rpositionLoop p lr lr.length) s (QueryQ s (lastPos (fun e => f e.id) (absStack s.dom lr.reverse))) := by
  intro lr
  induction lr with
  | nil => intro s; exact tot_pure ⟨rfl, SameTB.refl _, rfl⟩
  | cons n rest ih =>
    intro s
    unfold rpositionLoop
    refine tot_query_query (hp n s) fun s1 c1 he1 _ => ?_
    have e : absStack s.dom (n :: rest).reverse = absStack s.dom rest.reverse ++ [elemOf s.dom n] := by
      simp [absStack]
    rw [e, lastPos_snoc]
    have e2 : f (elemOf s.dom n).id = f n := rfl
    rw [e2]
    have elen : (absStack s.dom rest.reverse).length = rest.length := by simp [absStack]
    by_cases hx : f n = true
    · simp only [hx, if_true, elen, List.length_cons, Nat.add_sub_cancel]
      exact tot_pure ⟨rfl, SameTB.refl _, rfl⟩
    · simp only [hx, Bool.false_eq_true, if_false, List.length_cons, Nat.add_sub_cancel]
      refine tot_conseq (ih s1) fun a s' c _ ⟨h1, h2, h3⟩ => ⟨?_, h2, h3⟩
      rw [h1]; exact lastPos_ids f _ _ _

/-- `open_elems.iter().rposition(|n| same_node(n, x))` is the position of `x` in the stack -/
theorem tot_rposition (s : State) (x : Id) :
    Tot (rposition (fun n => sameNode n x)) s (QueryQ s (stackPos x (absStack s.dom s.openElems))) := by
  unfold rposition
  refine tot_getS_bind ?_
  have := tot_rpositionLoop (fun n => sameNode n x) (fun n => n == x) (fun n s => tot_sameNode s n x) s.openElems.reverse s
  simp only [List.length_reverse, List.reverse_reverse] at this
  exact this

theorem tot_rposition' (s : State) (x : Id) :
    Tot (rposition (fun n => sameNode x n)) s (QueryQ s (stackPos x (absStack s.dom s.openElems))) := by
  unfold rposition
  refine tot_getS_bind ?_
  have := tot_rpositionLoop (fun n => sameNode x n) (fun n => n == x)
    (fun n s => by have := tot_sameNode s x n; rwa [show (x == n) = (n == x) from BEq.comm] at this) s.openElems.reverse s
  simp only [List.length_reverse, List.reverse_reverse] at this
  exact this

theorem stackPos_lt {x : Id} {d : Dom} {l : List Id} {i : Nat} (h : stackPos x (absStack d l) = some i) :
    i < l.length ∧ l[i]? = some x := by
  unfold stackPos at h
  have h1 := lastPos_lt _ _ _ h
  obtain ⟨e, he, hp⟩ := lastPos_spec _ _ _ h
  simp only [absStack, List.length_map] at h1
  refine ⟨h1, ?_⟩
  simp only [absStack, List.getElem?_map, Option.map_eq_some_iff] at he
  obtain ⟨y, hy, rfl⟩ := he
  have : y = x := by simpa [elemOf] using hp
  rw [hy, this]

/-- `remove_from_stack` -/
theorem tot_removeFromStack (s : State) (x : Id) :
    Tot (removeFromStack x) s (fun _ s' calls =>
      s' = { s with openElems := match stackPos x (absStack s.dom s.openElems) with
                                | some p => s.openElems.eraseIdx p | none => s.openElems,
                    dom := s'.dom, traceRev := s'.traceRev } ∧ edits calls = []) := by
  unfold removeFromStack
  refine tot_query_bind (tot_rposition' s x) fun s1 c1 _ hs1 hc1 => ?_
  cases hp : stackPos x (absStack s.dom s.openElems) with
  | none =>
    simp only []
    refine tot_pure ⟨?_, by simp [hc1]⟩
    unfold SameTB at hs1; exact hs1
  | some p =>
    simp only []
    refine tot_bind (tot_modS rfl rfl ?_)
    refine tot_conseq (tot_sinkUnit _ trivial) fun _ s2 c2 _ ⟨d', out, ha, hs2, hc2⟩ => ?_
    have hd : d' = s1.dom := by
      unfold Dom.apply Dom.applyV at ha; simp at ha; exact ha.1.symm
    refine ⟨?_, ?_⟩
    · rw [hs2]; simp only [afterCall]; rw [hs1.openElems]; unfold SameTB at hs1; rw [hs1]
    · rw [edits_append, hc1, hc2]; rfl

theorem tot_afRemove (s : State) (i : Nat) (site : String) (hi : i < s.activeFormatting.length) :
    Tot (afRemove i site) s (fun _ s' calls =>
      s' = { s with activeFormatting := s.activeFormatting.eraseIdx i } ∧ calls = []) := by
  unfold afRemove
  refine tot_getS_bind ?_
  simp only [hi, if_true]
  unfold setAF
  exact tot_modS rfl rfl ⟨rfl, rfl⟩

/-! ### scope, furthest block -/

theorem defaultScope_eq (n : EName) : defaultScope n = Spec.TreeAlgo.defaultScopeList (toName n) :=
  (H5V.Lemmas.HtmlTBSpec.scope_sets_eq_spec n).1

theorem tot_inScopeLoop_node (d0 : Dom) (x : Id) : ∀ (l : List Id) (s : State), ElemsOk d0 l → Stable d0 s.dom →
    Tot (inScopeLoop defaultScope (fun n => sameNode n x) l) s
      (QueryQ s (hasNodeInScope x Spec.TreeAlgo.defaultScopeList (absStack d0 l))) := by
  intro l
  induction l with
  | nil => intro s _ _; exact tot_pure ⟨rfl, SameTB.refl _, rfl⟩
  | cons n rest ih =>
    intro s hok hst
    unfold inScopeLoop
    refine tot_query_query (tot_sameNode s n x) fun s1 c1 he1 _ => ?_
    simp only [absStack, List.map_cons, hasNodeInScope]
    have e0 : (elemOf d0 n).id = n := rfl
    rw [e0]
    by_cases hx : n = x
    · subst hx; simp only [beq_self_eq_true, if_true]
      exact tot_pure ⟨rfl, SameTB.refl _, rfl⟩
    · have : (n == x) = false := by simpa using hx
      simp only [this, Bool.false_eq_true, if_false, hx]
      refine tot_query_query (tot_elemName' s1 n) fun s2 c2 he2 _ => ?_
      have hn : nameOf s1.dom n = nameOf d0 n := nameOf_stable (hst.trans he1.stable) (hok n (List.mem_cons_self ..))
      rw [hn, defaultScope_eq]
      have e1 : toName (nameOf d0 n) = (elemOf d0 n).name := rfl
      rw [e1]
      by_cases hsc : Spec.TreeAlgo.defaultScopeList (elemOf d0 n).name = true
      · simp only [hsc, if_true]; exact tot_pure ⟨rfl, SameTB.refl _, rfl⟩
      · simp only [hsc, Bool.false_eq_true, if_false]
        exact ih s2 (fun y hy => hok y (List.mem_cons_of_mem _ hy)) ((hst.trans he1.stable).trans he2.stable)

theorem tot_inScope_node (s : State) (x : Id) (hok : ElemsOk s.dom s.openElems) :
    Tot (inScope defaultScope (fun n => sameNode n x)) s
      (QueryQ s (hasNodeInScope x Spec.TreeAlgo.defaultScopeList (absStack s.dom s.openElems).reverse)) := by
  unfold inScope
  refine tot_getS_bind ?_
  rw [absStack_reverse]
  exact tot_inScopeLoop_node s.dom x s.openElems.reverse s (fun y hy => hok y (List.mem_reverse.mp hy)) (Stable.refl _)

/-- the model's furthest-block search as a pure function of the names -/
def ffbPure (d : Dom) : List Id → Nat → Option (Nat × Id)
  | [], _ => none
  | e :: rest, i => if isSpecial (elemOf d e) then some (i, e) else ffbPure d rest (i + 1)

theorem specialTag_eq (d : Dom) (h : Id) : specialTag (nameOf d h) = isSpecial (elemOf d h) :=
  pop_specialTag_eq _

theorem tot_findFurthestBlock (d0 : Dom) : ∀ (l : List Id) (i : Nat) (s : State), ElemsOk d0 l → Stable d0 s.dom →
    Tot (findFurthestBlock l i) s (QueryQ s (ffbPure d0 l i)) := by
  intro l
  induction l with
  | nil => intro i s _ _; exact tot_pure ⟨rfl, SameTB.refl _, rfl⟩
  | cons e rest ih =>
    intro i s hok hst
    unfold findFurthestBlock
    refine tot_query_query (tot_elemIn s e specialTag) fun s1 c1 he1 _ => ?_
    rw [nameOf_stable hst (hok e (List.mem_cons_self ..)), specialTag_eq]
    simp only [ffbPure]
    by_cases hsp : isSpecial (elemOf d0 e) = true
    · simp only [hsp, if_true]; exact tot_pure ⟨rfl, SameTB.refl _, rfl⟩
    · simp only [hsp, Bool.false_eq_true, if_false]
      exact ih (i + 1) s1 (fun y hy => hok y (List.mem_cons_of_mem _ hy)) (hst.trans he1.stable)

theorem ffbPure_eq (d : Dom) : ∀ (l : List Id) (i : Nat),
    ffbPure d l i = ((absStack d l).findIdx? isSpecial).bind fun j => ((absStack d l)[j]?).map fun e => (i + j, e.id) := by
  intro l
  induction l with
  | nil => intro i; rfl
  | cons e rest ih =>
    intro i
    simp only [ffbPure, absStack, List.map_cons, List.findIdx?_cons]
    by_cases hsp : isSpecial (elemOf d e) = true
    · simp only [hsp, if_true, Option.bind_some, List.getElem?_cons_zero, Option.map_some]; rfl
    · simp only [hsp, Bool.false_eq_true, if_false]
      rw [ih (i + 1)]
      simp only [absStack]
      cases h : List.findIdx? isSpecial (List.map (elemOf d) rest) with
      | none => simp
      | some j =>
        simp only [Option.map_some, Option.bind_some, List.getElem?_cons_succ]
        congr 1; funext x; congr 1; omega

theorem tot_positionSameNode (x : Id) : ∀ (l : List Id) (i : Nat) (s : State),
    Tot (positionSameNode x l i) s (QueryQ s ((l.findIdx? (fun n => n == x)).map (· + i))) := by
  intro l
  induction l with
  | nil => intro i s; exact tot_pure ⟨rfl, SameTB.refl _, rfl⟩
  | cons n rest ih =>
    intro i s
    unfold positionSameNode
    refine tot_query_query (tot_sameNode s n x) fun s1 c1 _ _ => ?_
    simp only [List.findIdx?_cons]
    by_cases hx : (n == x) = true
    · simp only [hx, if_true]; exact tot_pure ⟨by simp, SameTB.refl _, rfl⟩
    · simp only [hx, Bool.false_eq_true, if_false]
      refine tot_conseq (ih (i + 1) s1) fun a s' c _ ⟨h1, h2, h3⟩ => ⟨?_, h2, h3⟩
      rw [h1]; simp only [Option.map_map]; congr 1; funext k; simp; omega

/-! ### the inner loop, cut into chunks -/

def aiAfterBookmark (fmtElem furthestBlock : Id) (nodeIndex innerCounter : Nat) (lastNode newElement : Id)
    (bookmark : Bookmark) : M (Id × Bookmark) := do
  sinkUnit (.removeFromParent lastNode)
  sinkUnit (.append newElement (.node lastNode))
  aaInner fmtElem furthestBlock nodeIndex innerCounter newElement bookmark

def aiAfterTag (fmtElem furthestBlock : Id) (nodeIndex innerCounter : Nat) (lastNode : Id) (bookmark : Bookmark)
    (nfi : Nat) (tag : Tag) : M (Id × Bookmark) := do
  let newElement ← createElementWithFlags (htmlQual tag.name) tag.attrs tag.hadDup
  modS fun s => { s with
    openElems := s.openElems.set nodeIndex newElement,
    activeFormatting := s.activeFormatting.set nfi (.element newElement tag) }
  let bookmark ← if ← sameNode lastNode furthestBlock then pure (Bookmark.insertAfter newElement) else pure bookmark
  aiAfterBookmark fmtElem furthestBlock nodeIndex innerCounter lastNode newElement bookmark

def aiRemove (fmtElem furthestBlock : Id) (nodeIndex innerCounter : Nat) (lastNode : Id) (bookmark : Bookmark) :
    M (Id × Bookmark) := do
  modS fun s => { s with openElems := s.openElems.eraseIdx nodeIndex }
  aaInner fmtElem furthestBlock nodeIndex innerCounter lastNode bookmark

def aiAfterNode (fmtElem furthestBlock : Id) (nodeIndex innerCounter : Nat) (lastNode : Id) (bookmark : Bookmark)
    (node : Id) : M (Id × Bookmark) := do
  if ← sameNode node fmtElem then pure (lastNode, bookmark)
  else if innerCounter > 3 then
    match ← positionInActiveFormatting node with
    | some position => afRemove position "mod.rs:817"
    | none => pure ()
    aiRemove fmtElem furthestBlock nodeIndex innerCounter lastNode bookmark
  else
    match ← positionInActiveFormatting node with
    | none => aiRemove fmtElem furthestBlock nodeIndex innerCounter lastNode bookmark
    | some nfi =>
      let tag ← match (← getS).activeFormatting[nfi]? with
        | some (.element h t) => do
          if !(← sameNode h node) then
            panicAt "assert" "mod.rs:831" "assert!(self.sink.same_node(h, &node))"
          pure t
        | some .marker => panicAt "marker-in-aa" "mod.rs:834" "Found marker during adoption agency"
        | none => panicAt "index-oob" "mod.rs:829" "active_formatting[node_formatting_index]"
      aiAfterTag fmtElem furthestBlock nodeIndex innerCounter lastNode bookmark nfi tag

theorem aaInner_succ (fmtElem furthestBlock : Id) (nodeIndex innerCounter : Nat) (lastNode : Id) (bookmark : Bookmark) :
    aaInner fmtElem furthestBlock (nodeIndex + 1) innerCounter lastNode bookmark = (do
      let node ← match (← getS).openElems[nodeIndex]? with
        | some n => pure n
        | none => panicAt "index-oob" "mod.rs:807" "open_elems[node_index]"
      aiAfterNode fmtElem furthestBlock nodeIndex (innerCounter + 1) lastNode bookmark node) := rfl

/-! ### list helpers -/

theorem map_eraseIdx' {α β : Type} (f : α → β) (l : List α) (i : Nat) : (l.eraseIdx i).map f = (l.map f).eraseIdx i := by
  apply List.ext_getElem?
  intro j
  simp only [List.getElem?_map, List.getElem?_eraseIdx]
  split <;> rfl

theorem map_insertIdx' {α β : Type} (f : α → β) (l : List α) (i : Nat) (x : α) :
    (l.insertIdx i x).map f = (l.map f).insertIdx i (f x) := by
  apply List.ext_getElem?
  intro j
  simp only [List.getElem?_map, List.getElem?_insertIdx, List.length_map]
  split
  · rfl
  · split
    · split <;> rfl
    · rfl

theorem absStack_eraseIdx (d : Dom) (l : List Id) (i : Nat) : absStack d (l.eraseIdx i) = (absStack d l).eraseIdx i :=
  map_eraseIdx' _ _ _

theorem absList_eraseIdx (af : List FormatEntry) (i : Nat) : absList (af.eraseIdx i) = (absList af).eraseIdx i :=
  map_eraseIdx' _ _ _

theorem absList_insertIdx (af : List FormatEntry) (i : Nat) (e : FormatEntry) :
    absList (af.insertIdx i e) = (absList af).insertIdx i (absEntry e) := map_insertIdx' _ _ _ _

theorem absStack_getElem? (d : Dom) (l : List Id) (i : Nat) : (absStack d l)[i]? = (l[i]?).map (elemOf d) := by
  simp [absStack]

theorem absStack_set {d d' : Dom} {l : List Id} (hok : ElemsOk d l) (hs : Stable d d') (i : Nat) (new : Id) :
    absStack d' (l.set i new) = (absStack d l).set i (elemOf d' new) := by
  unfold absStack
  rw [List.map_set]
  congr 1
  exact absStack_stable hok hs

theorem listPos_isSome_of_mem (x : Id) : ∀ (l : List FormatEntry) (t : Tag), FormatEntry.element x t ∈ l →
    ∃ i, listPos x (absList l) = some i := by
  intro l
  induction l with
  | nil => intro t h; cases h
  | cons e rest ih =>
    intro t h
    cases e with
    | marker =>
      rcases List.mem_cons.mp h with h | h
      · cases h
      · obtain ⟨i, hi⟩ := ih t h
        exact ⟨i + 1, by simp [absList, absEntry, listPos] at hi ⊢; exact hi⟩
    | element h' t' =>
      by_cases hx : h' = x
      · exact ⟨0, by simp [absList, absEntry, listPos, hx]⟩
      · rcases List.mem_cons.mp h with h | h
        · cases h; exact absurd rfl hx
        · obtain ⟨i, hi⟩ := ih t h
          exact ⟨i + 1, by simp [absList, absEntry, listPos, hx] at hi ⊢; exact hi⟩

theorem mem_eraseIdx_of_ne {α : Type} {l : List α} {i : Nat} {a b : α} (ha : a ∈ l) (hi : l[i]? = some b) (hne : a ≠ b) :
    a ∈ l.eraseIdx i := by
  rw [List.mem_eraseIdx_iff_getElem?]
  obtain ⟨j, hj⟩ := List.getElem?_of_mem ha
  refine ⟨j, ?_, hj⟩
  intro hji; subst hji
  rw [hi] at hj; cases hj; exact hne rfl

theorem mem_set_of_ne {α : Type} {l : List α} {i : Nat} {a b c : α} (ha : a ∈ l) (hi : l[i]? = some b) (hne : a ≠ b) :
    a ∈ l.set i c := by
  obtain ⟨j, hj⟩ := List.getElem?_of_mem ha
  have hji : i ≠ j := by
    intro h; subst h; rw [hi] at hj; cases hj; exact hne rfl
  apply List.mem_of_getElem? (i := j)
  rw [List.getElem?_set]; simp [hji, hj]

/-- every listed element is a node of the sink, was created for a token whose tag name is not in
the special category, and — if it is on the stack — has the element type (HTML, that tag name) -/
def AFOk (d : Dom) (stack : List Id) (af : List FormatEntry) : Prop :=
  ∀ h t, FormatEntry.element h t ∈ af → (h : Nat) < d.size ∧
    Spec.TreeAlgo.inTable Spec.TreeTables.special ⟨Spec.TreeAlgo.nsHtml, t.name⟩ = false ∧
    (h ∈ stack → nameOf d h = ⟨nsHtml, t.name⟩)

theorem AFOk.mono {d d' : Dom} {st st' : List Id} {af af' : List FormatEntry} (h : AFOk d st af) (hok : ElemsOk d st)
    (hs : Stable d d') (hst : ∀ x ∈ st', x ∈ st) (haf : ∀ e ∈ af', e ∈ af) : AFOk d' st' af' := by
  intro h1 t1 hm
  obtain ⟨a, b, c⟩ := h h1 t1 (haf _ hm)
  exact ⟨Nat.lt_of_lt_of_le a hs.size, b, fun hx => by rw [nameOf_stable hs (hok h1 (hst h1 hx))]; exact c (hst h1 hx)⟩

theorem AFOk.extend {d d' : Dom} {st st' : List Id} {af af' : List FormatEntry} {new : Id} {tag : Tag}
    (h : AFOk d st af) (hok : ElemsOk d st) (hs : Stable d d')
    (hst : ∀ x ∈ st', x ∈ st ∨ x = new) (haf : ∀ e ∈ af', e ∈ af ∨ e = FormatEntry.element new tag)
    (htag : Spec.TreeAlgo.inTable Spec.TreeTables.special ⟨Spec.TreeAlgo.nsHtml, tag.name⟩ = false)
    (hfresh : d.size ≤ new) (hlt : (new : Nat) < d'.size)
    (hnm : nameOf d' new = ⟨nsHtml, tag.name⟩) : AFOk d' st' af' := by
  intro h1 t1 hm
  rcases haf _ hm with hold | hnew
  · obtain ⟨a, b, c⟩ := h h1 t1 hold
    refine ⟨Nat.lt_of_lt_of_le a hs.size, b, fun hx => ?_⟩
    rcases hst h1 hx with hx' | hx'
    · rw [nameOf_stable hs (hok h1 hx')]; exact c hx'
    · subst hx'; exact absurd a (Nat.not_lt.mpr hfresh)
  · cases hnew
    exact ⟨hlt, htag, fun _ => hnm⟩

/-- the model's bookmark as the standard's -/
def absBm : H5V.Model.HtmlTB.Bookmark → Spec.TreeAlgo2.Bookmark Id
  | .replace _ => .atFormattingElement
  | .insertAfter h => .after h

/-- the bookmark is the formatting element's own place, or sits after a listed node created by
this run of the algorithm -/
def BmOk (fe : Id) (n0 : Nat) (af : List FormatEntry) : H5V.Model.HtmlTB.Bookmark → Prop
  | .replace h => h = fe
  | .insertAfter x => n0 ≤ x ∧ ∃ t, FormatEntry.element x t ∈ af

/-- the invariant of the inner loop: `pfe` is the position of the formatting element, `idx` the
position below which the loop has already worked, `n0` the size of the arena at the start -/
structure InnerInv (fe fb : Id) (n0 pfe idx : Nat) (s : State) (bm : H5V.Model.HtmlTB.Bookmark) : Prop where
  elems : ElemsOk s.dom s.openElems
  size : n0 ≤ s.dom.size
  fe_at : s.openElems[pfe]? = some fe
  pfe_lt : pfe < idx
  not_fe : ∀ p, pfe < p → s.openElems[p]? ≠ some fe
  old : ∀ p (y : Id), p < idx → s.openElems[p]? = some y → (y : Nat) < n0
  fb_below : ∃ q, idx ≤ q ∧ s.openElems[q]? = some fb
  fe_listed : ∃ t, FormatEntry.element fe t ∈ s.activeFormatting
  bm_ok : BmOk fe n0 s.activeFormatting bm
  af_ok : AFOk s.dom s.openElems s.activeFormatting

/-- what the inner loop guarantees -/
def InnerPost (fe fb : Id) (n0 pfe idx counter : Nat) (lastNode : Id) (bm : H5V.Model.HtmlTB.Bookmark) (s : State) :
    Id × H5V.Model.HtmlTB.Bookmark → State → List Call → Prop :=
  fun r s' calls => ∃ ids L,
    (∀ tc, TcOk s'.dom tc → edits calls = L.map (editCall tc)) ∧
    (∀ rest log0, Spec.TreeAlgo2.innerLoop tagCtx fe fb idx counter lastNode (absBm bm) (absState s (ids ++ rest) log0)
        = some (absState s' rest (log0 ++ L), r.1, absBm r.2)) ∧
    SameButStackList s s' ∧ ElemsOk s'.dom s'.openElems ∧
    s'.openElems.take (pfe + 1) = s.openElems.take (pfe + 1) ∧
    (∃ q, pfe < q ∧ s'.openElems[q]? = some fb) ∧
    (∀ p, pfe < p → s'.openElems[p]? ≠ some fe) ∧
    (∃ t, FormatEntry.element fe t ∈ s'.activeFormatting) ∧ BmOk fe n0 s'.activeFormatting r.2 ∧
    (∀ x ∈ ids, s.dom.size ≤ x) ∧ AFOk s'.dom s'.openElems s'.activeFormatting

theorem adoptionInnerLimit_eq : Spec.TreeTables.adoptionInnerLimit = 3 := rfl

/-- the `remove node from the stack and continue` branches -/
theorem tot_aiRemove (fe fb : Id) (n0 pfe idx : Nat)
    (ih : ∀ (s : State) (counter : Nat) (lastNode : Id) (bm : H5V.Model.HtmlTB.Bookmark), InnerInv fe fb n0 pfe idx s bm →
      Tot (aaInner fe fb idx counter lastNode bm) s (InnerPost fe fb n0 pfe idx counter lastNode bm s))
    (s : State) (counter : Nat) (lastNode : Id) (bm : H5V.Model.HtmlTB.Bookmark) (node : Id)
    (_hnode : s.openElems[idx]? = some node) (_hne : node ≠ fe) (hpfe : pfe < idx)
    (hinv : InnerInv fe fb n0 pfe (idx + 1) s bm) :
    Tot (aiRemove fe fb idx counter lastNode bm) s (fun r s' calls => ∃ ids L,
      (∀ tc, TcOk s'.dom tc → edits calls = L.map (editCall tc)) ∧
      (∀ rest log0, Spec.TreeAlgo2.innerLoop tagCtx fe fb idx counter lastNode (absBm bm)
          ({ absState s (ids ++ rest) log0 with stack := (absStack s.dom s.openElems).eraseIdx idx })
          = some (absState s' rest (log0 ++ L), r.1, absBm r.2)) ∧
      SameButStackList s s' ∧ ElemsOk s'.dom s'.openElems ∧
      s'.openElems.take (pfe + 1) = s.openElems.take (pfe + 1) ∧
      (∃ q, pfe < q ∧ s'.openElems[q]? = some fb) ∧
      (∀ p, pfe < p → s'.openElems[p]? ≠ some fe) ∧
      (∃ t, FormatEntry.element fe t ∈ s'.activeFormatting) ∧ BmOk fe n0 s'.activeFormatting r.2 ∧
      (∀ x ∈ ids, s.dom.size ≤ x) ∧ AFOk s'.dom s'.openElems s'.activeFormatting) := by
  unfold aiRemove
  refine tot_bind (tot_modS rfl rfl ?_)
  generalize hs2 : ({ s with openElems := s.openElems.eraseIdx idx } : State) = s2
  have hopen2 : s2.openElems = s.openElems.eraseIdx idx := by rw [← hs2]
  have hdom2 : s2.dom = s.dom := by rw [← hs2]
  have haf2 : s2.activeFormatting = s.activeFormatting := by rw [← hs2]
  have hinv2 : InnerInv fe fb n0 pfe idx s2 bm := by
    refine ⟨?_, ?_, ?_, hpfe, ?_, ?_, ?_, ?_, ?_, ?_⟩
    · rw [hdom2, hopen2]; intro x hx
      exact hinv.elems x ((List.eraseIdx_sublist _ _).subset hx)
    · rw [hdom2]; exact hinv.size
    · rw [hopen2, List.getElem?_eraseIdx]; simp only [hpfe, if_true]; exact hinv.fe_at
    · intro p hp
      rw [hopen2, List.getElem?_eraseIdx]
      by_cases h : p < idx
      · simp only [h, if_true]; exact hinv.not_fe p hp
      · simp only [h, if_false]; exact hinv.not_fe (p + 1) (by omega)
    · intro p y hp hy
      rw [hopen2, List.getElem?_eraseIdx] at hy
      simp only [hp, if_true] at hy
      exact hinv.old p y (by omega) hy
    · obtain ⟨q, hq, hqf⟩ := hinv.fb_below
      refine ⟨q - 1, by omega, ?_⟩
      rw [hopen2, List.getElem?_eraseIdx]
      have : ¬ (q - 1 < idx) := by omega
      simp only [this, if_false]
      rw [show q - 1 + 1 = q by omega]; exact hqf
    · rw [haf2]; exact hinv.fe_listed
    · rw [haf2]; exact hinv.bm_ok
    · rw [hdom2, hopen2, haf2]
      exact hinv.af_ok.mono hinv.elems (Stable.refl _) (fun x hx => (List.eraseIdx_sublist _ _).subset hx) (fun e he => he)
  refine tot_conseq (ih s2 counter lastNode bm hinv2) fun r s3 c3 _ ⟨ids, L, hL, hspec, hS3, hok3, htake, hfb, hnfe, hfel, hbm, hfresh, hafok⟩ => ?_
  refine ⟨ids, L, ?_, ?_, ?_, hok3, ?_, hfb, hnfe, hfel, hbm, ?_, hafok⟩
  · intro tc htc; simpa using hL tc htc
  · intro rest log0
    have := hspec rest log0
    have e : absState s2 (ids ++ rest) log0
        = { absState s (ids ++ rest) log0 with stack := (absStack s.dom s.openElems).eraseIdx idx } := by
      simp only [absState, hopen2, hdom2, haf2, absStack_eraseIdx]
      rw [← hs2]
    rw [← e]; exact this
  · unfold SameButStackList at hS3 ⊢
    rw [hS3, ← hs2]
  · rw [htake, hopen2]
    apply List.ext_getElem?
    intro j
    simp only [List.getElem?_take, List.getElem?_eraseIdx]
    by_cases hj : j < pfe + 1
    · have : j < idx := by omega
      simp [hj, this]
    · simp [hj]
  · intro x hx; have := hfresh x hx; rw [hdom2] at this; exact this

/-- a sink call that answers `unit` -/
theorem tot_sinkUnit_unit {op : SinkOp} (s : State) (ht : Tame op)
    (hu : ∀ d d' out, Dom.apply d op = .ok (d', out) → out = .unit) :
    Tot (sinkUnit op) s (fun _ s' calls => SameTB s s' ∧ calls = [(op, .unit)]) := by
  refine tot_conseq (tot_sinkUnit s ht) fun _ s' calls _ ⟨d', out, ha, hs, hc⟩ => ?_
  have := hu _ _ _ ha
  subst this
  exact ⟨hs ▸ SameTB.afterCall .., hc⟩

theorem unit_removeFromParent (x : Id) : ∀ d d' out, Dom.apply d (.removeFromParent x) = .ok (d', out) → out = .unit := by
  intro d d' out h
  unfold Dom.apply Dom.applyV at h
  simp only [bind, Except.bind] at h
  split at h <;> simp at h
  exact h.2.symm

theorem unit_append (p : Id) (c : NodeOrText) : ∀ d d' out, Dom.apply d (.append p c) = .ok (d', out) → out = .unit :=
  fun _ _ _ h => apply_insertOp_out (ip := .lastChild p) h

theorem unit_reparentChildren (a b : Id) : ∀ d d' out, Dom.apply d (.reparentChildren a b) = .ok (d', out) → out = .unit := by
  intro d d' out h
  unfold Dom.apply Dom.applyV at h
  simp only [bind, Except.bind] at h
  split at h <;> simp at h
  exact h.2.symm

/-- the abstract state after step 13.6 -/
def stReplace (s : State) (idx nfi : Nat) (new : Id) (tag : Tag) (supply : List Id) (log : List (Edit Id Tag)) :
    PState Id Tag :=
  { absState s supply log with
    stack := (absStack s.dom s.openElems).set idx ⟨new, ⟨nsHtml, tag.name⟩⟩
    list := (absList s.activeFormatting).set nfi (.element new tag) }

/-- steps 13.6–13.9 and the rest of the loop -/
theorem tot_aiAfterTag (fe fb : Id) (n0 pfe idx : Nat)
    (ih : ∀ (s : State) (counter : Nat) (lastNode : Id) (bm : H5V.Model.HtmlTB.Bookmark), InnerInv fe fb n0 pfe idx s bm →
      Tot (aaInner fe fb idx counter lastNode bm) s (InnerPost fe fb n0 pfe idx counter lastNode bm s))
    (s : State) (counter : Nat) (lastNode : Id) (bm : H5V.Model.HtmlTB.Bookmark) (node : Id) (nfi : Nat) (tag : Tag)
    (hnode : s.openElems[idx]? = some node) (hne : node ≠ fe) (hpfe : pfe < idx)
    (hentry : s.activeFormatting[nfi]? = some (.element node tag))
    (hinv : InnerInv fe fb n0 pfe (idx + 1) s bm) :
    Tot (aiAfterTag fe fb idx counter lastNode bm nfi tag) s (fun r s' calls => ∃ new ids L,
      (∀ tc, TcOk s'.dom tc → edits calls = L.map (editCall tc)) ∧
      (∀ rest log0, Spec.TreeAlgo2.innerLoop tagCtx fe fb idx counter new
          (if lastNode = fb then .after new else absBm bm)
          (stReplace s idx nfi new tag (ids ++ rest)
            (log0 ++ [Edit.create new nsHtml tag, Edit.remove lastNode, Edit.insert (.lastChildOf new) lastNode]))
          = some (absState s' rest (log0 ++ L), r.1, absBm r.2)) ∧
      SameButStackList s s' ∧ ElemsOk s'.dom s'.openElems ∧
      s'.openElems.take (pfe + 1) = s.openElems.take (pfe + 1) ∧
      (∃ q, pfe < q ∧ s'.openElems[q]? = some fb) ∧
      (∀ p, pfe < p → s'.openElems[p]? ≠ some fe) ∧
      (∃ t, FormatEntry.element fe t ∈ s'.activeFormatting) ∧ BmOk fe n0 s'.activeFormatting r.2 ∧
      s.dom.size ≤ new ∧ (∀ x ∈ ids, s.dom.size ≤ x) ∧ AFOk s'.dom s'.openElems s'.activeFormatting) := by
  have hfe_old : (fe : Nat) < n0 := hinv.old pfe fe (by omega) hinv.fe_at
  have hnode_old : (node : Nat) < n0 := hinv.old idx node (by omega) hnode
  have hnfi : nfi < s.activeFormatting.length := by
    have := List.getElem?_eq_some_iff.mp hentry; exact this.1
  unfold aiAfterTag
  refine tot_bind (tot_conseq (tot_createElementWithFlags s nsHtml tag) fun new s1 c1 he1 ⟨hs1, hc1, hfresh, hel, hnm⟩ => ?_)
  subst hc1
  refine tot_bind (tot_modS rfl rfl ?_)
  generalize hs2 : ({ s1 with openElems := s1.openElems.set idx new,
                              activeFormatting := s1.activeFormatting.set nfi (.element new tag) } : State) = s2
  have hopen2 : s2.openElems = s.openElems.set idx new := by rw [← hs2, hs1.openElems]
  have haf2 : s2.activeFormatting = s.activeFormatting.set nfi (.element new tag) := by rw [← hs2, hs1.activeFormatting]
  have hdom2 : s2.dom = s1.dom := by rw [← hs2]
  have hS2 : SameButStackList s s2 := by
    unfold SameButStackList; rw [← hs2]; unfold SameTB at hs1; rw [hs1]
  have hst1 : Stable s.dom s1.dom := he1.stable
  have hnew_ne_fe : new ≠ fe := Nat.ne_of_gt (Nat.lt_of_lt_of_le hfe_old (Nat.le_trans hinv.size hfresh))
  -- the bookmark
  refine tot_query_bind (tot_sameNode s2 lastNode fb) fun s3 c3 he3 hs3 hc3 => ?_
  generalize hbm' : (if (lastNode == fb) = true then H5V.Model.HtmlTB.Bookmark.insertAfter new else bm) = bm'
  have hjp : ∀ b : Bool, (if b = true then (pure (H5V.Model.HtmlTB.Bookmark.insertAfter new) : M _) >>=
        (fun bookmark => aiAfterBookmark fe fb idx counter lastNode new bookmark)
      else pure bm >>= fun bookmark => aiAfterBookmark fe fb idx counter lastNode new bookmark)
      = aiAfterBookmark fe fb idx counter lastNode new (if b = true then .insertAfter new else bm) := by
    intro b; cases b <;> rfl
  rw [hjp, hbm']
  unfold aiAfterBookmark
  refine tot_bind (tot_conseq (tot_sinkUnit_unit s3 trivial (unit_removeFromParent lastNode)) fun _ s4 c4 he4 ⟨hs4, hc4⟩ => ?_)
  subst hc4
  refine tot_bind (tot_conseq (tot_sinkUnit_unit s4 trivial (unit_append new (.node lastNode))) fun _ s5 c5 he5 ⟨hs5, hc5⟩ => ?_)
  subst hc5
  have hS25 : SameTB s2 s5 := (hs3.trans hs4).trans hs5
  have hst25 : Stable s2.dom s5.dom := (he3.stable.trans he4.stable).trans he5.stable
  have hst5 : Stable s.dom s5.dom := by
    refine hst1.trans ?_; rw [← hdom2]; exact hst25
  have hopen5 : s5.openElems = s.openElems.set idx new := by rw [hS25.openElems, hopen2]
  have haf5 : s5.activeFormatting = s.activeFormatting.set nfi (.element new tag) := by rw [hS25.activeFormatting, haf2]
  have hel5 : s5.dom.isElement new = true := isElement_stable hst25 (by rw [hdom2]; exact hel)
  have hnm5 : nameOf s5.dom new = ⟨nsHtml, tag.name⟩ := by
    rw [nameOf_stable hst25 (by rw [hdom2]; exact hel), hdom2]; exact hnm
  have hmem_new : FormatEntry.element new tag ∈ s.activeFormatting.set nfi (.element new tag) := by
    apply List.mem_of_getElem? (i := nfi)
    rw [List.getElem?_set]; simp [hnfi]
  have hinv5 : InnerInv fe fb n0 pfe idx s5 bm' := by
    refine ⟨?_, ?_, ?_, hpfe, ?_, ?_, ?_, ?_, ?_, ?_⟩
    · rw [hopen5]; intro x hx
      rcases List.mem_or_eq_of_mem_set hx with h | h
      · exact isElement_stable hst5 (hinv.elems x h)
      · subst h; exact hel5
    · exact Nat.le_trans hinv.size hst5.size
    · rw [hopen5, List.getElem?_set]
      have : ¬ idx = pfe := by omega
      simp only [this, if_false]; exact hinv.fe_at
    · intro p hp
      rw [hopen5, List.getElem?_set]
      by_cases h : idx = p
      · simp only [h, if_true]; split
        · intro hc; cases hc; exact hnew_ne_fe rfl
        · intro hc; cases hc
      · simp only [h, if_false]; exact hinv.not_fe p hp
    · intro p y hp hy
      rw [hopen5, List.getElem?_set] at hy
      have : ¬ idx = p := by omega
      simp only [this, if_false] at hy
      exact hinv.old p y (by omega) hy
    · obtain ⟨q, hq, hqf⟩ := hinv.fb_below
      refine ⟨q, by omega, ?_⟩
      rw [hopen5, List.getElem?_set]
      have : ¬ idx = q := by omega
      simp only [this, if_false]; exact hqf
    · obtain ⟨t, ht⟩ := hinv.fe_listed
      rw [haf5]
      exact ⟨t, mem_set_of_ne ht hentry (by intro h; cases h; exact hne rfl)⟩
    · rw [haf5, ← hbm']
      by_cases hl : (lastNode == fb) = true
      · simp only [hl, if_true, BmOk]
        exact ⟨Nat.le_trans hinv.size hfresh, tag, hmem_new⟩
      · simp only [hl, Bool.false_eq_true, if_false]
        have := hinv.bm_ok
        cases bm with
        | replace h => exact this
        | insertAfter x =>
          obtain ⟨hx, t, ht⟩ := this
          exact ⟨hx, t, mem_set_of_ne ht hentry (by intro h; cases h; exact absurd hnode_old (Nat.not_lt.mpr hx))⟩
    · rw [hopen5, haf5]
      exact hinv.af_ok.extend hinv.elems hst5 (fun x hx => List.mem_or_eq_of_mem_set hx)
        (fun e he => List.mem_or_eq_of_mem_set he) (hinv.af_ok node tag (List.mem_of_getElem? hentry)).2.1 hfresh
        (isElement_lt hel5) hnm5
  refine tot_conseq (ih s5 counter new bm' hinv5) fun r s6 c6 he6 ⟨ids, L, hL, hspec, hS6, hok6, htake, hfb, hnfe, hfel, hbm, hfresh6, hafok⟩ => ?_
  have hst6 : Stable s.dom s6.dom := hst5.trans he6.stable
  refine ⟨new, ids, [Edit.create new nsHtml tag, Edit.remove lastNode, Edit.insert (.lastChildOf new) lastNode] ++ L,
    ?_, ?_, ?_, hok6, ?_, hfb, hnfe, hfel, hbm, hfresh, ?_, hafok⟩
  · intro tc htc
    simp only [List.nil_append, edits_append, hc3, hL tc htc, List.map_append, List.map_cons, List.map_nil]
    rfl
  · intro rest log0
    have hb : (if lastNode = fb then Spec.TreeAlgo2.Bookmark.after new else absBm bm) = absBm bm' := by
      rw [← hbm']
      by_cases hl : lastNode = fb
      · simp [hl, absBm]
      · have : (lastNode == fb) = false := by simpa using hl
        simp [hl, this]
    rw [hb]
    have e : stReplace s idx nfi new tag (ids ++ rest)
        (log0 ++ [Edit.create new nsHtml tag, Edit.remove lastNode, Edit.insert (.lastChildOf new) lastNode])
        = absState s5 (ids ++ rest) (log0 ++ [Edit.create new nsHtml tag, Edit.remove lastNode, Edit.insert (.lastChildOf new) lastNode]) := by
      simp only [stReplace, absState, hopen5, haf5, absList_set, absEntry]
      rw [absStack_set hinv.elems hst5]
      have : elemOf s5.dom new = ⟨new, ⟨nsHtml, tag.name⟩⟩ := by simp only [elemOf, hnm5]; rfl
      rw [this]
      have hf : s5.fosterParenting = s.fosterParenting := by rw [hS25.fosterParenting, ← hs2, hs1.fosterParenting]
      have hfm : s5.formElem = s.formElem := by rw [hS25.formElem, ← hs2, hs1.formElem]
      rw [hf, hfm]
    rw [e, hspec rest _, List.append_assoc]
  · unfold SameButStackList at hS6 hS2 ⊢
    unfold SameTB at hS25
    rw [hS6, hS25, hS2]
  · rw [htake, hopen5]
    apply List.ext_getElem?
    intro j
    simp only [List.getElem?_take, List.getElem?_set]
    by_cases hj : j < pfe + 1
    · have : ¬ idx = j := by omega
      simp [hj, this]
    · simp [hj]
  · intro x hx
    exact Nat.le_trans hst5.size (hfresh6 x hx)

/-! ### the spec's inner loop, case by case -/
section SpecInner
variable {N T : Type} [DecidableEq N]

theorem innerLoop_exit (cx : Ctx T) (fe fb : N) (idx c : Nat) (ln : N) (bm : Spec.TreeAlgo2.Bookmark N) (st : PState N T)
    (nd : Elem N) (h1 : st.stack[idx]? = some nd) (h2 : nd.id = fe) :
    innerLoop cx fe fb (idx + 1) c ln bm st = some (st, ln, bm) := by
  simp only [innerLoop, h1, h2, if_true]

theorem innerLoop_both (cx : Ctx T) (fe fb : N) (idx c : Nat) (ln : N) (bm : Spec.TreeAlgo2.Bookmark N) (st : PState N T)
    (nd : Elem N) (i : Nat) (h1 : st.stack[idx]? = some nd) (h2 : nd.id ≠ fe) (h3 : c + 1 > 3)
    (h4 : listPos nd.id st.list = some i) :
    innerLoop cx fe fb (idx + 1) c ln bm st
      = innerLoop cx fe fb idx (c + 1) ln bm { st with list := st.list.eraseIdx i, stack := st.stack.eraseIdx idx } := by
  have ha : Spec.TreeAlgo.innerLoopAction (c + 1) true = .removeFromBoth := by
    simp [Spec.TreeAlgo.innerLoopAction, adoptionInnerLimit_eq]; omega
  simp only [innerLoop, h1, h2, if_false, h4, Option.isSome_some, ha]

theorem innerLoop_stackOnly (cx : Ctx T) (fe fb : N) (idx c : Nat) (ln : N) (bm : Spec.TreeAlgo2.Bookmark N) (st : PState N T)
    (nd : Elem N) (h1 : st.stack[idx]? = some nd) (h2 : nd.id ≠ fe) (h4 : listPos nd.id st.list = none) :
    innerLoop cx fe fb (idx + 1) c ln bm st
      = innerLoop cx fe fb idx (c + 1) ln bm { st with stack := st.stack.eraseIdx idx } := by
  have ha : Spec.TreeAlgo.innerLoopAction (c + 1) false = .removeFromStack := by
    simp [Spec.TreeAlgo.innerLoopAction]
  simp only [innerLoop, h1, h2, if_false, h4, Option.isSome_none, ha]

theorem innerLoop_replace (cx : Ctx T) (fe fb : N) (idx c : Nat) (ln : N) (bm : Spec.TreeAlgo2.Bookmark N) (st : PState N T)
    (nd : Elem N) (i : Nat) (x : N) (tok : T) (n : N) (sup : List N)
    (h1 : st.stack[idx]? = some nd) (h2 : nd.id ≠ fe) (h3 : ¬ c + 1 > 3)
    (h4 : listPos nd.id st.list = some i) (h5 : st.list[i]? = some (.element x tok)) (h6 : st.supply = n :: sup) :
    innerLoop cx fe fb (idx + 1) c ln bm st
      = innerLoop cx fe fb idx (c + 1) n (if ln = fb then .after n else bm)
          { st with supply := sup, list := st.list.set i (.element n tok),
                    stack := st.stack.set idx ⟨n, ⟨Spec.TreeAlgo.nsHtml, cx.tokName tok⟩⟩,
                    log := st.log ++ [.create n Spec.TreeAlgo.nsHtml tok, .remove ln, .insert (.lastChildOf n) ln] } := by
  have ha : Spec.TreeAlgo.innerLoopAction (c + 1) true = .replaceWithNewElement := by
    simp [Spec.TreeAlgo.innerLoopAction, adoptionInnerLimit_eq]; omega
  simp only [innerLoop, h1, h2, if_false, h4, Option.isSome_some, ha, h5, PState.newNode, h6, Option.bind_some]

end SpecInner

theorem InnerInv.sameTB {fe fb : Id} {n0 pfe idx : Nat} {s s1 : State} {bm : H5V.Model.HtmlTB.Bookmark}
    (h : InnerInv fe fb n0 pfe idx s bm) (hs : SameTB s s1) (hst : Stable s.dom s1.dom) : InnerInv fe fb n0 pfe idx s1 bm := by
  have ho := hs.openElems
  have ha := hs.activeFormatting
  exact ⟨by rw [ho]; exact h.elems.stable hst, Nat.le_trans h.size hst.size, by rw [ho]; exact h.fe_at, h.pfe_lt,
    by rw [ho]; exact h.not_fe, by rw [ho]; exact h.old, by rw [ho]; exact h.fb_below, by rw [ha]; exact h.fe_listed,
    by rw [ha]; exact h.bm_ok, by rw [ho, ha]; exact h.af_ok.mono h.elems hst (fun _ hx => hx) (fun _ he => he)⟩

/-- removing the entry of a node above the formatting element from the list keeps the invariant -/
theorem InnerInv.eraseList {fe fb : Id} {n0 pfe idx : Nat} {s : State} {bm : H5V.Model.HtmlTB.Bookmark}
    (h : InnerInv fe fb n0 pfe idx s bm) {i : Nat} {node : Id} {t : Tag} (hi : s.activeFormatting[i]? = some (.element node t))
    (hne : node ≠ fe) (hold : (node : Nat) < n0) :
    InnerInv fe fb n0 pfe idx { s with activeFormatting := s.activeFormatting.eraseIdx i } bm := by
  refine ⟨h.elems, h.size, h.fe_at, h.pfe_lt, h.not_fe, h.old, h.fb_below, ?_, ?_,
    h.af_ok.mono h.elems (Stable.refl _) (fun _ hx => hx) (fun e he => (List.eraseIdx_sublist _ _).subset he)⟩
  · obtain ⟨t', ht'⟩ := h.fe_listed
    exact ⟨t', mem_eraseIdx_of_ne ht' hi (by intro hh; cases hh; exact hne rfl)⟩
  · have := h.bm_ok
    cases bm with
    | replace x => exact this
    | insertAfter x =>
      obtain ⟨hx, t', ht'⟩ := this
      exact ⟨hx, t', mem_eraseIdx_of_ne ht' hi (by intro hh; cases hh; exact absurd hold (Nat.not_lt.mpr hx))⟩

/-- **(o, steps 13.1–13.9)** the inner loop of the adoption agency algorithm -/
theorem tot_aaInner (fe fb : Id) (n0 pfe : Nat) : ∀ (idx : Nat) (s : State) (counter : Nat) (lastNode : Id)
    (bm : H5V.Model.HtmlTB.Bookmark), InnerInv fe fb n0 pfe idx s bm →
    Tot (aaInner fe fb idx counter lastNode bm) s (InnerPost fe fb n0 pfe idx counter lastNode bm s) := by
  intro idx
  induction idx with
  | zero => intro s counter lastNode bm hinv; exact absurd hinv.pfe_lt (Nat.not_lt_zero _)
  | succ idx ih =>
    intro s counter lastNode bm hinv
    rw [aaInner_succ]
    refine tot_getS_bind ?_
    obtain ⟨node, hnode⟩ : ∃ node, s.openElems[idx]? = some node := by
      obtain ⟨q, hq, hqf⟩ := hinv.fb_below
      have hlen : q < s.openElems.length := (List.getElem?_eq_some_iff.mp hqf).1
      exact ⟨_, List.getElem?_eq_getElem (by omega)⟩
    rw [hnode]
    refine tot_bind (tot_pure ?_)
    unfold aiAfterNode
    refine tot_query_bind (tot_sameNode s node fe) fun s1 c1 he1 hs1 hc1 => ?_
    have hst1 := he1.stable
    have hinv1 := hinv.sameTB hs1 hst1
    have hnode1 : s1.openElems[idx]? = some node := by rw [hs1.openElems]; exact hnode
    have habs1 : ∀ sup log, absState s1 sup log = absState s sup log := fun sup log => absState_sameTB hs1 hst1 hinv.elems sup log
    have hstk : ∀ sup log, (absState s sup log).stack[idx]? = some (elemOf s.dom node) := by
      intro sup log; simp only [absState, absStack_getElem?, hnode, Option.map_some]
    by_cases hnf : node = fe
    · -- 13.3: break
      subst hnf
      simp only [beq_self_eq_true, if_true]
      have hpi : pfe = idx := by
        rcases Nat.lt_or_ge pfe idx with h | h
        · exact absurd hnode (hinv.not_fe idx h)
        · have := hinv.pfe_lt; omega
      refine tot_pure ⟨[], [], ?_, ?_, ?_, ?_, ?_, ?_, ?_, ?_, ?_, ?_, hinv1.af_ok⟩
      · intro tc _; simp [hc1]
      · intro rest log0
        simp only [List.nil_append, List.append_nil]
        rw [innerLoop_exit tagCtx node fb idx counter lastNode (absBm bm) _ _ (hstk _ _) rfl, habs1]
      · unfold SameButStackList; unfold SameTB at hs1; rw [hs1]
      · exact hinv1.elems
      · rw [hs1.openElems]
      · obtain ⟨q, hq, hqf⟩ := hinv1.fb_below
        exact ⟨q, by omega, hqf⟩
      · exact hinv1.not_fe
      · exact hinv1.fe_listed
      · exact hinv1.bm_ok
      · intro x hx; cases hx
    · -- the node is not the formatting element
      have hbeq : (node == fe) = false := by simpa using hnf
      simp only [hbeq, Bool.false_eq_true, if_false]
      have hpfe : pfe < idx := by
        rcases Nat.lt_or_ge pfe idx with h | h
        · exact h
        · have h1 := hinv.pfe_lt
          have : pfe = idx := by omega
          subst this
          rw [hinv.fe_at] at hnode; cases hnode; exact absurd rfl hnf
      have hnode_old : (node : Nat) < n0 := hinv.old idx node (by omega) hnode
      have hnid : (elemOf s.dom node).id ≠ fe := hnf
      -- wrap a result for `s1` (or a state that differs from it in the list) up for `s`
      have wrap : ∀ (s1' : State) (c2 : List Call) (ids : List Id) (L : List (Edit Id Tag)) (r : Id × H5V.Model.HtmlTB.Bookmark)
          (s' : State) (c3 : List Call), edits c2 = [] → s1'.openElems = s.openElems → Stable s.dom s1'.dom →
          SameButStackList s s1' →
          (∀ tc, TcOk s'.dom tc → edits c3 = L.map (editCall tc)) →
          (∀ rest log0, Spec.TreeAlgo2.innerLoop tagCtx fe fb (idx + 1) counter lastNode (absBm bm) (absState s (ids ++ rest) log0)
            = some (absState s' rest (log0 ++ L), r.1, absBm r.2)) →
          SameButStackList s1' s' → ElemsOk s'.dom s'.openElems →
          s'.openElems.take (pfe + 1) = s1'.openElems.take (pfe + 1) →
          (∃ q, pfe < q ∧ s'.openElems[q]? = some fb) → (∀ p, pfe < p → s'.openElems[p]? ≠ some fe) →
          (∃ t, FormatEntry.element fe t ∈ s'.activeFormatting) → BmOk fe n0 s'.activeFormatting r.2 →
          (∀ x ∈ ids, s1'.dom.size ≤ x) → AFOk s'.dom s'.openElems s'.activeFormatting →
          InnerPost fe fb n0 pfe (idx + 1) counter lastNode bm s r s' (c1 ++ (c2 ++ c3)) := by
        intro s1' c2 ids L r s' c3 hc2 hopen hst hS1 hL hspec hS hok htake hfb hnfe hfel hbm hfresh hafok
        refine ⟨ids, L, ?_, hspec, ?_, hok, ?_, hfb, hnfe, hfel, hbm, ?_, hafok⟩
        · intro tc htc; rw [edits_append, edits_append, hc1, hc2, hL tc htc]; rfl
        · unfold SameButStackList at hS hS1 ⊢; rw [hS, hS1]
        · rw [htake, hopen]
        · intro x hx; exact Nat.le_trans hst.size (hfresh x hx)
      by_cases hgt : counter + 1 > 3
      · -- 13.4, 13.5
        simp only [hgt, if_true]
        refine tot_query_bind (tot_positionInAF s1 node) fun s2 c2 he2 hs2 hc2 => ?_
        rw [hs1.activeFormatting]
        have hst2 : Stable s.dom s2.dom := hst1.trans he2.stable
        have hS2 : SameTB s s2 := hs1.trans hs2
        have hinv2 := hinv.sameTB hS2 hst2
        have hnode2 : s2.openElems[idx]? = some node := by rw [hS2.openElems]; exact hnode
        cases hpos : listPos node (absList s.activeFormatting) with
        | none =>
          simp only []
          refine tot_conseq (tot_aiRemove fe fb n0 pfe idx ih s2 (counter + 1) lastNode bm node hnode2 hnf hpfe hinv2)
            fun r s' c3 _ ⟨ids, L, hL, hspec, hS, hok, htake, hfb, hnfe, hfel, hbm, hfresh, hafok⟩ => ?_
          have := wrap s2 c2 ids L r s' c3 hc2 hS2.openElems hst2
            (by unfold SameButStackList; unfold SameTB at hS2; rw [hS2]) hL ?_ hS hok htake hfb hnfe hfel hbm hfresh hafok
          · simpa using this
          · intro rest log0
            rw [innerLoop_stackOnly tagCtx fe fb idx counter lastNode (absBm bm) _ _ (hstk _ _) hnid (by simp only [absState]; exact hpos)]
            have := hspec rest log0
            rw [absState_sameTB hS2 hst2 hinv.elems, hS2.openElems, absStack_stable hinv.elems hst2] at this
            exact this
        | some i =>
          simp only []
          obtain ⟨t, hentry⟩ := listPos_spec node s.activeFormatting i hpos
          have hi : i < s.activeFormatting.length := (List.getElem?_eq_some_iff.mp hentry).1
          refine tot_bind (tot_conseq (tot_afRemove s2 i "mod.rs:817" (by rw [hS2.activeFormatting]; exact hi))
            fun _ s3 c3 _ ⟨hs3, hc3⟩ => ?_)
          subst hc3
          rw [hS2.activeFormatting] at hs3
          have hopen3 : s3.openElems = s.openElems := by rw [hs3]; exact hS2.openElems
          have hdom3 : s3.dom = s2.dom := by rw [hs3]
          have haf3 : s3.activeFormatting = s.activeFormatting.eraseIdx i := by rw [hs3]
          have hinv3 : InnerInv fe fb n0 pfe (idx + 1) s3 bm := by
            have := hinv2.eraseList (i := i) (node := node) (t := t) (by rw [hS2.activeFormatting]; exact hentry) hnf hnode_old
            rw [hS2.activeFormatting] at this; rw [hs3]; exact this
          refine tot_conseq (tot_aiRemove fe fb n0 pfe idx ih s3 (counter + 1) lastNode bm node (by rw [hopen3]; exact hnode) hnf hpfe hinv3)
            fun r s' c4 _ ⟨ids, L, hL, hspec, hS, hok, htake, hfb, hnfe, hfel, hbm, hfresh, hafok⟩ => ?_
          have := wrap s3 (c2 ++ []) ids L r s' c4 (by simp [hc2]) hopen3 (by rw [hdom3]; exact hst2)
            (by unfold SameButStackList; rw [hs3]; unfold SameTB at hS2; rw [hS2]) hL ?_ hS hok htake hfb hnfe hfel hbm hfresh hafok
          · simpa using this
          · intro rest log0
            rw [innerLoop_both tagCtx fe fb idx counter lastNode (absBm bm) _ _ i (hstk _ _) hnid hgt (by simp only [absState]; exact hpos)]
            have := hspec rest log0
            have e : ({ absState s3 (ids ++ rest) log0 with stack := (absStack s3.dom s3.openElems).eraseIdx idx } : PState Id Tag)
                = { absState s (ids ++ rest) log0 with list := (absList s.activeFormatting).eraseIdx i,
                                                       stack := (absStack s.dom s.openElems).eraseIdx idx } := by
              simp only [absState, hopen3, hdom3, haf3, absList_eraseIdx, absStack_stable hinv.elems hst2]
              rw [hs3]; simp only []
              rw [hS2.fosterParenting, hS2.formElem]
            rw [e] at this; exact this
      · -- 13.5, 13.6–13.9
        simp only [hgt, if_false]
        refine tot_query_bind (tot_positionInAF s1 node) fun s2 c2 he2 hs2 hc2 => ?_
        rw [hs1.activeFormatting]
        have hst2 : Stable s.dom s2.dom := hst1.trans he2.stable
        have hS2 : SameTB s s2 := hs1.trans hs2
        have hinv2 := hinv.sameTB hS2 hst2
        have hnode2 : s2.openElems[idx]? = some node := by rw [hS2.openElems]; exact hnode
        cases hpos : listPos node (absList s.activeFormatting) with
        | none =>
          simp only []
          refine tot_conseq (tot_aiRemove fe fb n0 pfe idx ih s2 (counter + 1) lastNode bm node hnode2 hnf hpfe hinv2)
            fun r s' c3 _ ⟨ids, L, hL, hspec, hS, hok, htake, hfb, hnfe, hfel, hbm, hfresh, hafok⟩ => ?_
          have := wrap s2 c2 ids L r s' c3 hc2 hS2.openElems hst2
            (by unfold SameButStackList; unfold SameTB at hS2; rw [hS2]) hL ?_ hS hok htake hfb hnfe hfel hbm hfresh hafok
          · simpa using this
          · intro rest log0
            rw [innerLoop_stackOnly tagCtx fe fb idx counter lastNode (absBm bm) _ _ (hstk _ _) hnid (by simp only [absState]; exact hpos)]
            have := hspec rest log0
            rw [absState_sameTB hS2 hst2 hinv.elems, hS2.openElems, absStack_stable hinv.elems hst2] at this
            exact this
        | some nfi =>
          simp only []
          obtain ⟨t, hentry⟩ := listPos_spec node s.activeFormatting nfi hpos
          refine tot_getS_bind ?_
          rw [hS2.activeFormatting, hentry]
          simp only []
          refine tot_query_bind (tot_sameNode s2 node node) fun s3 c3 he3 hs3 hc3 => ?_
          simp only [beq_self_eq_true, Bool.not_true, Bool.false_eq_true, if_false]
          refine tot_bind (tot_pure ?_)
          have hst3 : Stable s.dom s3.dom := hst2.trans he3.stable
          have hS3 : SameTB s s3 := hS2.trans hs3
          have hinv3 := hinv.sameTB hS3 hst3
          refine tot_conseq (tot_aiAfterTag fe fb n0 pfe idx ih s3 (counter + 1) lastNode bm node nfi t
              (by rw [hS3.openElems]; exact hnode) hnf hpfe (by rw [hS3.activeFormatting]; exact hentry) hinv3)
            fun r s' c4 _ ⟨new, ids, L, hL, hspec, hS, hok, htake, hfb, hnfe, hfel, hbm, hnew, hfresh, hafok⟩ => ?_
          have := wrap s3 (c2 ++ c3) (new :: ids) L r s' c4 (by rw [edits_append, hc2, hc3]; rfl) hS3.openElems hst3
            (by unfold SameButStackList; unfold SameTB at hS3; rw [hS3]) hL ?_ hS hok htake hfb hnfe hfel hbm
            (by intro x hx; rcases List.mem_cons.mp hx with rfl | hx; exact hnew; exact hfresh x hx) hafok
          · simpa [List.append_assoc] using this
          · intro rest log0
            have hentry' : (absState s (new :: ids ++ rest) log0).list[nfi]? = some (.element node t) := by
              simp only [absState, absList_getElem?, hentry, Option.map_some, absEntry]
            rw [innerLoop_replace tagCtx fe fb idx counter lastNode (absBm bm) _ _ nfi node t new (ids ++ rest)
              (hstk _ _) hnid hgt (by simp only [absState]; exact hpos) hentry' rfl]
            have := hspec rest log0
            have e : stReplace s3 idx nfi new t (ids ++ rest)
                (log0 ++ [Edit.create new nsHtml t, Edit.remove lastNode, Edit.insert (.lastChildOf new) lastNode])
                = { absState s (new :: ids ++ rest) log0 with
                      supply := ids ++ rest,
                      list := (absState s (new :: ids ++ rest) log0).list.set nfi (.element new t),
                      stack := (absState s (new :: ids ++ rest) log0).stack.set idx ⟨new, ⟨Spec.TreeAlgo.nsHtml, tagCtx.tokName t⟩⟩,
                      log := (absState s (new :: ids ++ rest) log0).log ++
                        [.create new Spec.TreeAlgo.nsHtml t, .remove lastNode, .insert (.lastChildOf new) lastNode] } := by
              simp only [stReplace, absState, hS3.openElems, hS3.activeFormatting, hS3.fosterParenting, hS3.formElem,
                absStack_stable hinv.elems hst3]
              rfl
            rw [← e]; exact this

end H5V.Lemmas.HtmlTBAlgo
