import H5V.Lemmas.HtmlTBSkelInv
/-!
C06 (skeleton invariant), part 4: the helper algorithms of `tree_builder/mod.rs` that make no
mutating sink call are `Quiet` (stack inspection, scope tests, popping, the list of active
formatting elements, reset-the-insertion-mode, `is_foreign`, …).
-/
namespace H5V.Props.C06
open H5V.Model.Dom hiding Str
open H5V.Model.HtmlTB hiding Str
open H5V.Lemmas.Dom

theorem getS_bind {β : Type} (f : State → M β) (s : State) : (getS >>= f) s = f s s := rfl

/-! ### state updates -/


theorem qrel_oe {s : State} {l : List Id} (h : l.Sublist s.openElems) : QRel s { s with openElems := l } :=
  ⟨SameSk.refl _, h, rfl, rfl, rfl, rfl, rfl, fun _ _ h => h, Or.inl rfl, fun h => h⟩

theorem qrel_af {s : State} {af : List FormatEntry}
    (h : ∀ x t, FormatEntry.element x t ∈ af → FormatEntry.element x t ∈ s.activeFormatting) :
    QRel s { s with activeFormatting := af } :=
  ⟨SameSk.refl _, List.Sublist.refl _, rfl, rfl, rfl, rfl, rfl, h, Or.inl rfl, fun h => h⟩

instance (m : Mode) [h : LateMode m] : Quiet (setMode m) :=
  quiet_modS fun s hml =>
    ⟨⟨SameSk.refl _, List.Sublist.refl _, rfl, rfl, rfl, rfl, rfl, fun _ _ h => h, Or.inl rfl, fun h => h⟩,
     ⟨h.h, hml.orig, hml.tm⟩⟩

theorem quiet_setMode (m : Mode) (h : isLate m = true) : Quiet (setMode m) :=
  haveI : LateMode m := ⟨h⟩; inferInstance

instance : Quiet (setFramesetOk false) :=
  quiet_modS fun s hml =>
    ⟨⟨SameSk.refl _, List.Sublist.refl _, rfl, rfl, rfl, rfl, rfl, fun _ _ h => h, Or.inl rfl,
      fun h => by cases h⟩, ml_same hml rfl rfl rfl⟩

instance : Quiet pushMarker :=
  quiet_modS fun s hml =>
    ⟨qrel_af (by intro x t h; simpa using h), ml_same hml rfl rfl rfl⟩

instance : Quiet clearActiveFormattingToMarker :=
  quiet_modS fun s hml => by
    refine ⟨qrel_af ?_, ml_same hml rfl rfl rfl⟩
    have key : ∀ (l : List FormatEntry) x t, FormatEntry.element x t ∈ clearToMarkerRev l → FormatEntry.element x t ∈ l := by
      intro l
      induction l with
      | nil => intro x t h; simp [clearToMarkerRev] at h
      | cons e rest ih =>
        intro x t h
        cases e with
        | marker => simp only [clearToMarkerRev] at h; exact List.mem_cons_of_mem _ h
        | element y u => simp only [clearToMarkerRev] at h; exact List.mem_cons_of_mem _ (ih x t h)
    intro x t h
    have := key _ x t (List.mem_reverse.mp h)
    exact List.mem_reverse.mp this

instance (m : Mode) [h : LateMode m] : Quiet (setTemplateMode m) :=
  quiet_modS fun s hml =>
    ⟨⟨SameSk.refl _, List.Sublist.refl _, rfl, rfl, rfl, rfl, rfl, fun _ _ h => h, Or.inl rfl, fun h => h⟩,
     ⟨hml.mode, hml.orig, by
        intro m' hm'
        simp only [List.mem_append, List.mem_singleton] at hm'
        rcases hm' with hm' | rfl
        · exact hml.tm m' ((List.dropLast_sublist _).subset hm')
        · exact h.h⟩⟩

/-! ### accessors -/

instance (h : Id) (n : Str) : Quiet (htmlElemNamedS h n) := by unfold htmlElemNamedS; tb_walk
instance (h : Id) (n : String) : Quiet (htmlElemNamed h n) := by unfold htmlElemNamed; infer_instance
instance (h : Id) (set : EName → Bool) : Quiet (elemIn h set) := by unfold elemIn; tb_walk
instance : Quiet currentNode := by unfold currentNode; tb_walk
instance : Quiet adjustedCurrentNode := by unfold adjustedCurrentNode; tb_walk
instance (set : EName → Bool) : Quiet (currentNodeIn set) := by unfold currentNodeIn; tb_walk
instance (n : Str) : Quiet (currentNodeNamedS n) := by unfold currentNodeNamedS; tb_walk
instance (n : String) : Quiet (currentNodeNamed n) := by unfold currentNodeNamed; infer_instance
instance : Quiet htmlElem := by unfold htmlElem; tb_walk
instance : Quiet htmlElemFn := by unfold htmlElemFn; tb_walk
instance : Quiet isFragment := by unfold isFragment; tb_walk
instance : Quiet pendingTableTextEmpty := by unfold pendingTableTextEmpty; tb_walk

instance : Quiet pop := by
  constructor
  intro s0 a s' hml e2
  unfold pop at e2
  rw [getS_bind] at e2
  cases hl : s0.openElems.getLast? with
  | none => simp only [hl] at e2; exact absurd e2 panicAt_ok
  | some x =>
    simp only [hl] at e2
    obtain ⟨u, s2, e3, e4⟩ := bind_ok.mp e2
    rw [set_ok.mp e3] at e4
    have hq : Quiet (sinkUnit (.pop x) >>= fun _ => (Pure.pure x : M Id)) := inferInstance
    have hml2 : ML { s0 with openElems := s0.openElems.dropLast } := ml_same hml rfl rfl rfl
    obtain ⟨q, m⟩ := hq.q _ _ _ hml2 e4
    exact ⟨(qrel_oe (List.dropLast_sublist _)).trans q, m⟩

instance : Quiet popSilently := by
  constructor
  intro s0 a s' hml e2
  unfold popSilently at e2
  rw [getS_bind] at e2
  cases hl : s0.openElems.getLast? with
  | none => simp only [hl] at e2; obtain ⟨_, rfl⟩ := pure_ok.mp e2; exact ⟨QRel.refl _, hml⟩
  | some x =>
    simp only [hl] at e2
    obtain ⟨u, s2, e3, e4⟩ := bind_ok.mp e2
    rw [set_ok.mp e3] at e4
    obtain ⟨_, rfl⟩ := pure_ok.mp e4
    exact ⟨qrel_oe (List.dropLast_sublist _), ml_same hml rfl rfl rfl⟩

instance : Quiet unexpected := by unfold unexpected; tb_walk

instance (m : QuirksMode) : Quiet (setQuirksMode m) := by
  unfold setQuirksMode
  refine Quiet.bind (quiet_modS fun s hml => ?_) (fun _ => inferInstance)
  exact ⟨⟨SameSk.refl _, List.Sublist.refl _, rfl, rfl, rfl, rfl, rfl, fun _ _ h => h, Or.inl rfl, fun h => h⟩,
    ml_same hml rfl rfl rfl⟩

instance (k : H5V.Model.HtmlTok.RawKind) : Quiet (toRawTextMode k) := by
  unfold toRawTextMode
  refine Quiet.bind (quiet_modS fun s hml => ?_) (fun _ => inferInstance)
  exact ⟨⟨SameSk.refl _, List.Sublist.refl _, rfl, rfl, rfl, rfl, rfl, fun _ _ h => h, Or.inl rfl, fun h => h⟩,
    ⟨rfl, by intro m hm; cases hm; exact hml.mode, hml.tm⟩⟩

/-! ### insertion point (queries only) -/

theorem quiet_fosterLoop : ∀ (l : List Id), Quiet (fosterLoop l)
  | [] => by unfold fosterLoop; tb_walk
  | e :: rest => by
    haveI := quiet_fosterLoop rest
    unfold fosterLoop; tb_walk
instance (l : List Id) : Quiet (fosterLoop l) := quiet_fosterLoop l

instance (o : Option Id) : Quiet (appropriatePlaceForInsertion o) := by
  unfold appropriatePlaceForInsertion; tb_walk

theorem quiet_anyHtmlElemNamed (n : String) : ∀ (l : List Id), Quiet (anyHtmlElemNamed n l)
  | [] => by unfold anyHtmlElemNamed; tb_walk
  | e :: rest => by
    haveI := quiet_anyHtmlElemNamed n rest
    unfold anyHtmlElemNamed; tb_walk
instance (n : String) (l : List Id) : Quiet (anyHtmlElemNamed n l) := quiet_anyHtmlElemNamed n l

instance (n : String) : Quiet (inHtmlElemNamed n) := by unfold inHtmlElemNamed; tb_walk

/-! ### scope, implied end tags, popping -/

theorem quiet_inScopeLoop (scope : EName → Bool) (pred : Id → M Bool) (hp : ∀ n, Quiet (pred n)) :
    ∀ (l : List Id), Quiet (inScopeLoop scope pred l)
  | [] => by unfold inScopeLoop; tb_walk
  | e :: rest => by
    haveI := quiet_inScopeLoop scope pred hp rest
    unfold inScopeLoop; tb_walk
instance (scope : EName → Bool) (pred : Id → M Bool) [hp : ∀ n, Quiet (pred n)] (l : List Id) :
    Quiet (inScopeLoop scope pred l) := quiet_inScopeLoop scope pred hp l

instance (scope : EName → Bool) (pred : Id → M Bool) [∀ n, Quiet (pred n)] : Quiet (inScope scope pred) := by
  unfold inScope; tb_walk
instance (scope : EName → Bool) (n : Str) : Quiet (inScopeNamedS scope n) := by unfold inScopeNamedS; infer_instance
instance (scope : EName → Bool) (n : String) : Quiet (inScopeNamed scope n) := by unfold inScopeNamed; infer_instance

theorem quiet_generateImpliedEndTagsLoop (set : EName → Bool) : ∀ (fuel : Nat), Quiet (generateImpliedEndTagsLoop set fuel)
  | 0 => by unfold generateImpliedEndTagsLoop; tb_walk
  | n + 1 => by
    haveI := quiet_generateImpliedEndTagsLoop set n
    unfold generateImpliedEndTagsLoop; tb_walk
instance (set : EName → Bool) (fuel : Nat) : Quiet (generateImpliedEndTagsLoop set fuel) :=
  quiet_generateImpliedEndTagsLoop set fuel
instance (set : EName → Bool) : Quiet (generateImpliedEndTags set) := by unfold generateImpliedEndTags; tb_walk
instance (e : Str) : Quiet (generateImpliedEndExcept e) := by unfold generateImpliedEndExcept; infer_instance

theorem quiet_popUntilCurrentLoop (set : EName → Bool) : ∀ (fuel : Nat), Quiet (popUntilCurrentLoop set fuel)
  | 0 => by unfold popUntilCurrentLoop; tb_walk
  | n + 1 => by
    haveI := quiet_popUntilCurrentLoop set n
    unfold popUntilCurrentLoop; tb_walk
instance (set : EName → Bool) (fuel : Nat) : Quiet (popUntilCurrentLoop set fuel) := quiet_popUntilCurrentLoop set fuel
instance (set : EName → Bool) : Quiet (popUntilCurrent set) := by unfold popUntilCurrent; tb_walk

theorem quiet_popUntilLoop (pred : EName → Bool) : ∀ (fuel n : Nat), Quiet (popUntilLoop pred fuel n)
  | 0, _ => by unfold popUntilLoop; tb_walk
  | f + 1, n => by
    haveI := fun k => quiet_popUntilLoop pred f k
    unfold popUntilLoop; tb_walk
instance (pred : EName → Bool) (fuel n : Nat) : Quiet (popUntilLoop pred fuel n) := quiet_popUntilLoop pred fuel n
instance (pred : EName → Bool) : Quiet (popUntil pred) := by unfold popUntil; tb_walk
instance (n : Str) : Quiet (popUntilNamedS n) := by unfold popUntilNamedS; infer_instance
instance (n : String) : Quiet (popUntilNamed n) := by unfold popUntilNamed; infer_instance
instance (n : Str) : Quiet (expectToCloseS n) := by unfold expectToCloseS; tb_walk
instance (n : String) : Quiet (expectToClose n) := by unfold expectToClose; infer_instance
instance : Quiet closePElement := by unfold closePElement; tb_walk
instance : Quiet closePElementInButtonScope := by unfold closePElementInButtonScope; tb_walk

theorem quiet_checkBodyEndLoop : ∀ (l : List Id), Quiet (checkBodyEndLoop l)
  | [] => by unfold checkBodyEndLoop; tb_walk
  | e :: rest => by
    haveI := quiet_checkBodyEndLoop rest
    unfold checkBodyEndLoop; tb_walk
instance (l : List Id) : Quiet (checkBodyEndLoop l) := quiet_checkBodyEndLoop l
instance : Quiet checkBodyEnd := by unfold checkBodyEnd; tb_walk
instance : Quiet bodyElem := by unfold bodyElem; tb_walk

theorem quiet_rpositionLoop (p : Id → M Bool) (hp : ∀ n, Quiet (p n)) :
    ∀ (l : List Id) (len : Nat), Quiet (rpositionLoop p l len)
  | [], _ => by unfold rpositionLoop; tb_walk
  | e :: rest, len => by
    haveI := fun k => quiet_rpositionLoop p hp rest k
    unfold rpositionLoop; tb_walk
instance (p : Id → M Bool) [hp : ∀ n, Quiet (p n)] (l : List Id) (len : Nat) : Quiet (rpositionLoop p l len) :=
  quiet_rpositionLoop p hp l len
instance (p : Id → M Bool) [∀ n, Quiet (p n)] : Quiet (rposition p) := by unfold rposition; tb_walk

theorem quiet_modS_oe (f : List Id → List Id) (hf : ∀ l, (f l).Sublist l) :
    Quiet (modS fun s => { s with openElems := f s.openElems }) :=
  quiet_modS fun s hml => ⟨qrel_oe (hf _), ml_same hml rfl rfl rfl⟩

theorem eraseIdx_sublist' (l : List Id) (i : Nat) : (l.eraseIdx i).Sublist l := List.eraseIdx_sublist l i

instance (k : Nat) : Quiet (modS fun s => { s with openElems := s.openElems.take k }) :=
  quiet_modS_oe (fun l => l.take k) (fun l => List.take_sublist _ l)
instance (k : Nat) : Quiet (modS fun s => { s with openElems := s.openElems.eraseIdx k }) :=
  quiet_modS_oe (fun l => l.eraseIdx k) (fun l => List.eraseIdx_sublist l _)

instance (e : Id) : Quiet (removeFromStack e) := by
  unfold removeFromStack
  tb_walk

/-! ### the list of active formatting elements -/

theorem quiet_positionInAFLoop (e : Id) : ∀ (l : List FormatEntry) (i : Nat), Quiet (positionInAFLoop e l i)
  | [], _ => by unfold positionInAFLoop; tb_walk
  | .marker :: rest, i => by
    unfold positionInAFLoop; exact quiet_positionInAFLoop e rest (i + 1)
  | .element h t :: rest, i => by
    haveI := fun k => quiet_positionInAFLoop e rest k
    unfold positionInAFLoop; tb_walk
instance (e : Id) (l : List FormatEntry) (i : Nat) : Quiet (positionInAFLoop e l i) := quiet_positionInAFLoop e l i
instance (e : Id) : Quiet (positionInActiveFormatting e) := by unfold positionInActiveFormatting; tb_walk

theorem mem_eraseIdx {α : Type} {l : List α} {i : Nat} {x : α} (h : x ∈ l.eraseIdx i) : x ∈ l :=
  (List.eraseIdx_sublist l i).subset h

instance (i : Nat) (site : String) : Quiet (afRemove i site) := by
  constructor
  intro s0 a s' hml e
  unfold afRemove at e
  rw [getS_bind] at e
  by_cases hi : i < s0.activeFormatting.length
  · simp only [hi, if_true] at e
    unfold setAF at e
    rw [modS_ok.mp e]
    exact ⟨qrel_af (fun x t h => mem_eraseIdx h), ml_same hml rfl rfl rfl⟩
  · simp only [hi, if_false] at e
    exact absurd e panicAt_ok

theorem quiet_anySameNodeRev (n : Id) : ∀ (l : List Id), Quiet (anySameNodeRev n l)
  | [] => by unfold anySameNodeRev; tb_walk
  | e :: rest => by
    haveI := quiet_anySameNodeRev n rest
    unfold anySameNodeRev; tb_walk
instance (n : Id) (l : List Id) : Quiet (anySameNodeRev n l) := quiet_anySameNodeRev n l
instance (e : FormatEntry) : Quiet (isMarkerOrOpen e) := by
  cases e <;> (unfold isMarkerOrOpen; tb_walk)

theorem quiet_reconstructRewind : ∀ (i : Nat), Quiet (reconstructRewind i)
  | 0 => by unfold reconstructRewind; tb_walk
  | n + 1 => by
    haveI := quiet_reconstructRewind n
    unfold reconstructRewind; tb_walk
instance (i : Nat) : Quiet (reconstructRewind i) := quiet_reconstructRewind i

/-! ### "any other end tag", searches -/

theorem quiet_endTagSearch (name : Str) : ∀ (l : List Id) (len : Nat), Quiet (endTagSearch name l len)
  | [], _ => by unfold endTagSearch; tb_walk
  | e :: rest, len => by
    haveI := fun k => quiet_endTagSearch name rest k
    unfold endTagSearch; tb_walk
instance (name : Str) (l : List Id) (len : Nat) : Quiet (endTagSearch name l len) := quiet_endTagSearch name l len

instance (tag : Tag) : Quiet (processEndTagInBody tag) := by
  unfold processEndTagInBody
  tb_walk

theorem quiet_findFurthestBlock : ∀ (l : List Id) (i : Nat), Quiet (findFurthestBlock l i)
  | [], _ => by unfold findFurthestBlock; tb_walk
  | e :: rest, i => by
    haveI := fun k => quiet_findFurthestBlock rest k
    unfold findFurthestBlock; tb_walk
instance (l : List Id) (i : Nat) : Quiet (findFurthestBlock l i) := quiet_findFurthestBlock l i

theorem quiet_positionSameNode (x : Id) : ∀ (l : List Id) (i : Nat), Quiet (positionSameNode x l i)
  | [], _ => by unfold positionSameNode; tb_walk
  | e :: rest, i => by
    haveI := fun k => quiet_positionSameNode x rest k
    unfold positionSameNode; tb_walk
instance (x : Id) (l : List Id) (i : Nat) : Quiet (positionSameNode x l i) := quiet_positionSameNode x l i

theorem quiet_findAInAF : ∀ (l : List (Nat × Id × Tag)), Quiet (findAInAF l)
  | [] => by unfold findAInAF; tb_walk
  | (_, n, _) :: rest => by
    haveI := quiet_findAInAF rest
    unfold findAInAF; tb_walk
instance (l : List (Nat × Id × Tag)) : Quiet (findAInAF l) := quiet_findAInAF l

/-! ### reset the insertion mode -/

theorem quiet_resetLoop : ∀ (l : List Id) (len : Nat), Quiet (resetLoop l len)
  | [], _ => by unfold resetLoop; tb_walk
  | e :: rest, len => by
    haveI := fun k => quiet_resetLoop rest k
    unfold resetLoop; tb_walk
instance (l : List Id) (len : Nat) : Quiet (resetLoop l len) := quiet_resetLoop l len
instance : Quiet resetInsertionMode := by unfold resetInsertionMode; tb_walk

instance : Quiet closeTheCell := by unfold closeTheCell; tb_walk

/-! ### foreign content -/

instance (t : Token) : Quiet (isForeign t) := by unfold isForeign; tb_walk

theorem quiet_popToIntegrationPointLoop : ∀ (fuel : Nat), Quiet (popToIntegrationPointLoop fuel)
  | 0 => by unfold popToIntegrationPointLoop; tb_walk
  | n + 1 => by
    haveI := quiet_popToIntegrationPointLoop n
    unfold popToIntegrationPointLoop; tb_walk
instance (fuel : Nat) : Quiet (popToIntegrationPointLoop fuel) := quiet_popToIntegrationPointLoop fuel

/-! ### the answer of reset-the-insertion-mode is a late mode -/

/-- the answer is a late mode -/
structure LateRet (m : M Mode) : Prop where
  h : ∀ s a s', ML s → m s = .ok (a, s') → isLate a = true

theorem LateRet.bind {α : Type} {m : M α} {f : α → M Mode} (h1 : Quiet m) (h2 : ∀ a, LateRet (f a)) :
    LateRet (m >>= f) := by
  constructor
  intro s b s'' hml h
  obtain ⟨a, s', e1, e2⟩ := bind_ok.mp h
  exact (h2 a).h s' b s'' (h1.q s a s' hml e1).2 e2

theorem LateRet.ofGetS {f : State → M Mode} (h : ∀ s, ML s → LateRet (f s)) : LateRet (getS >>= f) := by
  constructor
  intro s b s'' hml e
  rw [getS_bind] at e
  exact (h s hml).h s b s'' hml e

theorem LateRet.pure (m : Mode) (h : isLate m = true) : LateRet (pure m) := by
  constructor
  intro s b s' _ e
  obtain ⟨rfl, _⟩ := pure_ok.mp e
  exact h

theorem LateRet.ite {c : Prop} [Decidable c] {a b : M Mode} (h1 : LateRet a) (h2 : LateRet b) :
    LateRet (if c then a else b) := by
  by_cases hc : c
  · simp only [hc, if_true]; exact h1
  · simp only [hc, if_false]; exact h2

theorem LateRet.throw (e : String) : LateRet (throw e) := ⟨fun _ _ _ _ h => absurd h throw_ok⟩

theorem mem_of_getLast?' {α : Type} {l : List α} {x : α} (h : l.getLast? = some x) : x ∈ l := by
  rw [List.getLast?_eq_some_iff] at h
  obtain ⟨ys, rfl⟩ := h
  simp

theorem lateRet_resetLoop : ∀ (l : List Id) (len : Nat), LateRet (resetLoop l len)
  | [], _ => by unfold resetLoop; exact LateRet.pure _ rfl
  | e :: rest, len => by
    have ih := fun k => lateRet_resetLoop rest k
    unfold resetLoop
    apply LateRet.ofGetS
    intro s hml
    repeat' (first
      | with_reducible apply LateRet.bind inferInstance
      | with_reducible apply LateRet.ite
      | intro _
      | exact ih _
      | exact LateRet.pure _ rfl
      | exact LateRet.throw _
      | split)
    rename_i heq
    exact LateRet.pure _ (hml.tm _ (mem_of_getLast?' heq))

theorem lateRet_resetInsertionMode : LateRet resetInsertionMode := by
  unfold resetInsertionMode
  exact LateRet.bind inferInstance (fun _ => lateRet_resetLoop _ _)

/-- continuing after reset-the-insertion-mode: the continuation may assume a late mode -/
theorem Quiet.resetBind {β : Type} {f : Mode → M β} (h : ∀ m, LateMode m → Quiet (f m)) :
    Quiet (resetInsertionMode >>= f) := by
  constructor
  intro s b s'' hml e
  obtain ⟨a, s', e1, e2⟩ := bind_ok.mp e
  have hq : Quiet resetInsertionMode := inferInstance
  obtain ⟨q1, m1⟩ := hq.q s a s' hml e1
  have hl := lateRet_resetInsertionMode.h s a s' hml e1
  obtain ⟨q2, m2⟩ := (h a ⟨hl⟩).q s' b s'' m1 e2
  exact ⟨q1.trans q2, m2⟩

instance (priority := high) {β : Type} (f : Mode → M β) [h : ∀ m, [LateMode m] → Quiet (f m)] :
    Quiet (resetInsertionMode >>= f) := Quiet.resetBind (fun m hm => @h m hm)

macro_rules
  | `(tactic| tb_step) => `(tactic| with_reducible apply Quiet.resetBind)

end H5V.Props.C06
