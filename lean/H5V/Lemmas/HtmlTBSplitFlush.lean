import H5V.Lemmas.HtmlTBSplitTerm
import H5V.Lemmas.HtmlTBSplitRun
/-!
C03 lifted to the tree — layer 5: the in-table-text rule respects `Sim` (`inTableText_ok`): flushing
pending table text that was collected in different pieces gives `Sim` states, because flushing a list
of pieces is the same as flushing their concatenation (`flushFoster_cat`, `flushPlain_cat`).
With it the hypothesis `InTableTextOK` of the congruence lemmas is discharged.
-/
namespace H5V.Lemmas.TBSplit
open H5V.Model.Dom (Id QualName Attr NodeOrText SinkOp Output ElementFlags QuirksMode Dom)
open H5V.Model.HtmlTok (TagKind RawKind)
open H5V.Model.HtmlTB

/-- two computations are related: `Sim` states in, `Sim` states (and equal answers) out -/
def RelM {α : Type} (m1 m2 : M α) : Prop := ∀ s t, Sim s t → RelR (fun _ => True) (m1 s) (m2 t)

theorem RelM.of_resp {α : Type} {Q : α → Prop} {m : M α} (h : RespQ Q m) : RelM m m := respQ_resp h

theorem RelM.symm {α : Type} {m1 m2 : M α} (h : RelM m1 m2) : RelM m2 m1 :=
  fun s t hst => (h t s hst.symm).symm

theorem RelM.trans {α : Type} {m1 m2 m3 : M α} (h : RelM m1 m2) (h' : RelM m2 m3) : RelM m1 m3 :=
  fun s t hst => (h s s hst.left).trans (h' s t hst)

theorem RelM.bind {α β : Type} {m1 m2 : M α} {f1 f2 : α → M β} (h : RelM m1 m2) (hf : ∀ a, RelM (f1 a) (f2 a)) :
    RelM (m1 >>= f1) (m2 >>= f2) := by
  intro s t hst
  have h0 := h s t hst
  rw [bind_apply, bind_apply]
  cases hs : m1 s with
  | error e =>
    rw [hs] at h0
    cases ht : m2 t with
    | error e' => trivial
    | ok q => rw [ht] at h0; exact h0.elim
  | ok p =>
    rw [hs] at h0
    cases ht : m2 t with
    | error e' => rw [ht] at h0; exact h0.elim
    | ok q =>
      rw [ht] at h0
      obtain ⟨a, s'⟩ := p; obtain ⟨b, t'⟩ := q
      obtain ⟨h1, _, hs'⟩ := h0
      subst h1
      exact hf a s' t' hs'

/-- `Done => k`, anything else => "not prepared to handle this!" -/
def expectDone (k : M Unit) (r : ProcessResult) : M Unit :=
  match r with
  | .done => k
  | _ => panicAt "not-prepared" "rules.rs:1163" "not prepared to handle this!"

/-- `flushPendingFoster` on one piece -/
def fosterUnit (st : SplitStatus) (z : Str) : M Unit :=
  fosterParentInBody (.chars st z) >>= expectDone (pure ())

theorem flushFoster_cons (st : SplitStatus) (z : Str) (rest : List (SplitStatus × Str)) :
    flushPendingFoster ((st, z) :: rest) =
      fosterParentInBody (.chars st z) >>= expectDone (flushPendingFoster rest) := by
  rw [flushPendingFoster]
  rfl

/-- the foster-parented in-body rule ignores the split status -/
theorem fosterParentInBody_status (st st' : SplitStatus) (z : Str) :
    fosterParentInBody (.chars st z) = fosterParentInBody (.chars st' z) := by
  funext s
  rw [fosterParentInBody_apply, fosterParentInBody_apply, stepInBody_chars_eq, stepInBody_chars_eq]

/-- two pieces, foster parented, against their concatenation -/
theorem fosterTwo (st st' st'' : SplitStatus) {x y : Str} :
    RelM (fosterParentInBody (.chars st x) >>= expectDone (fosterUnit st' y))
      (fosterUnit st'' (x ++ y)) := by
  intro s t hst
  rw [bind_apply]
  obtain ⟨h1, h2⟩ := fbody_add_sim (x := x) (y := y) hst.good st
  have hresp : RelR (fun _ => True) (fosterUnit st (x ++ y) s) (fosterUnit st'' (x ++ y) t) := by
    have : Resp (fosterUnit st (x ++ y)) := by
      unfold fosterUnit
      refine respQ_bind (fosterParentInBody_chars_done st (x ++ y)) ?_
      intro r hr; subst hr; exact resp_pure ()
    have h3 := this s t hst
    have h4 : fosterUnit st (x ++ y) = fosterUnit st'' (x ++ y) := by
      unfold fosterUnit; rw [fosterParentInBody_status st st'']
    rw [h4] at h3 ⊢
    exact h3
  refine RelR.trans ?_ hresp
  unfold fosterUnit
  rw [bind_apply]
  cases hx : fosterParentInBody (.chars st x) s with
  | error e =>
    obtain ⟨e', he'⟩ := h1 e hx
    rw [he']; trivial
  | ok v =>
    obtain ⟨r, s1⟩ := v
    obtain ⟨hr, hg1, _, hu⟩ := h2 r s1 hx
    subst hr
    show RelR _ (fosterUnit st' y s1) _
    unfold fosterUnit
    rw [bind_apply]
    have := hu s1 st' hg1.sim
    cases hL : fosterParentInBody (.chars st (x ++ y)) s with
    | error e =>
      rw [hL] at this
      cases hR : fosterParentInBody (.chars st' y) s1 with
      | error e' => trivial
      | ok w => rw [hR] at this; exact this.elim
    | ok w =>
      obtain ⟨rl, sl⟩ := w
      rw [hL] at this
      cases hR : fosterParentInBody (.chars st' y) s1 with
      | error e' => rw [hR] at this; exact this.elim
      | ok w' =>
        obtain ⟨rr, sr⟩ := w'
        rw [hR] at this
        obtain ⟨h1', h2', h3'⟩ := this
        subst h1'; subst h2'
        exact ⟨rfl, trivial, h3'.symm⟩

theorem fosterUnit_resp (st : SplitStatus) (z : Str) : Resp (fosterUnit st z) := by
  unfold fosterUnit
  refine respQ_bind (fosterParentInBody_chars_done st z) ?_
  intro r hr; subst hr; exact resp_pure ()

/-- **flushing pieces = flushing the concatenation** (foster parented) -/
theorem flushFoster_cat : ∀ (l : List (SplitStatus × Str)), l ≠ [] → (∀ p ∈ l, p.2 ≠ []) →
    RelM (flushPendingFoster l) (fosterUnit .notSplit (l.flatMap (·.2)))
  | [], h, _ => (h rfl).elim
  | [(st, z)], _, _ => by
    rw [flushFoster_cons]
    simp only [List.flatMap_cons, List.flatMap_nil, List.append_nil]
    have h0 : flushPendingFoster [] = pure () := by rw [flushPendingFoster]
    rw [h0, fosterParentInBody_status st .notSplit]
    exact RelM.of_resp (fosterUnit_resp .notSplit z)
  | (st, z) :: p2 :: rest, _, hne => by
    rw [flushFoster_cons]
    simp only [List.flatMap_cons]
    have ih := flushFoster_cat (p2 :: rest) (by simp) (fun p hp => hne p (List.mem_cons_of_mem _ hp))
    simp only [List.flatMap_cons] at ih
    refine RelM.trans ?_ (fosterTwo st .notSplit .notSplit (x := z) (y := p2.2 ++ rest.flatMap (·.2)))
    refine RelM.bind (RelM.of_resp (fosterParentInBody_chars_done st z)) ?_
    intro r
    cases r <;> first | exact ih | exact RelM.of_resp (panicAt_resp (Q := fun _ => True) _ _ _)

theorem flushFoster_rel {l1 l2 : List (SplitStatus × Str)} (h : PendRel l1 l2) :
    RelM (flushPendingFoster l1) (flushPendingFoster l2) := by
  have he := pendEmpty_eq h
  cases l1 with
  | nil =>
    cases l2 with
    | nil => rw [flushPendingFoster]; exact RelM.of_resp (resp_pure ())
    | cons b bs => simp at he
  | cons a as =>
    cases l2 with
    | nil => simp at he
    | cons b bs =>
      have h1 := flushFoster_cat (a :: as) (by simp) h.ne1
      have h2 := flushFoster_cat (b :: bs) (by simp) h.ne2
      rw [h.cat] at h1
      exact h1.trans h2.symm

/-! ### the plain flush -/

theorem FA_false_eq (z : Str) : FA false z = appendText z := by
  funext s
  rw [FA_apply]
  rfl

theorem plainTwo {x y : Str} :
    RelM (appendText x >>= fun _ => appendText y) (appendText (x ++ y)) := by
  intro s t hst
  rw [bind_apply]
  obtain ⟨h1, h2⟩ := fa_add_sim false (x := x) (y := y) hst.good
  simp only [FA_false_eq] at h1 h2
  have hresp := respQ_resp (appendText_resp (x ++ y)) s t hst
  refine RelR.trans ?_ hresp
  cases hx : appendText x s with
  | error e =>
    obtain ⟨e', he'⟩ := h1 e hx
    rw [he']; trivial
  | ok v =>
    obtain ⟨r, s1⟩ := v
    obtain ⟨hr, hg1, hu⟩ := h2 r s1 hx
    simp only
    exact ((hu s1 hg1.sim).symm).mono (fun _ _ => trivial)

theorem flushPlain_cons (st : SplitStatus) (z : Str) (rest : List (SplitStatus × Str)) :
    flushPendingPlain ((st, z) :: rest) = (do let _ ← appendText z; flushPendingPlain rest) := by
  rw [flushPendingPlain]

/-- `append_text` with the answer dropped -/
def plainUnit (z : Str) : M Unit := do let _ ← appendText z; pure ()

theorem plainUnit_resp (z : Str) : Resp (plainUnit z) := by
  unfold plainUnit; resp_auto

theorem flushPlain_cat : ∀ (l : List (SplitStatus × Str)), l ≠ [] → (∀ p ∈ l, p.2 ≠ []) →
    RelM (flushPendingPlain l) (plainUnit (l.flatMap (·.2)))
  | [], h, _ => (h rfl).elim
  | [(st, z)], _, _ => by
    rw [flushPlain_cons]
    simp only [List.flatMap_cons, List.flatMap_nil, List.append_nil]
    have h0 : flushPendingPlain [] = pure () := by rw [flushPendingPlain]
    rw [h0]
    exact RelM.of_resp (plainUnit_resp z)
  | (st, z) :: p2 :: rest, _, hne => by
    rw [flushPlain_cons]
    simp only [List.flatMap_cons]
    have ih := flushPlain_cat (p2 :: rest) (by simp) (fun p hp => hne p (List.mem_cons_of_mem _ hp))
    simp only [List.flatMap_cons] at ih
    -- `append_text z; append_text (rest…)` against `append_text (z ++ rest…)`
    have h2 : RelM (appendText z >>= fun _ => plainUnit (p2.2 ++ rest.flatMap (·.2)))
        (plainUnit (z ++ (p2.2 ++ rest.flatMap (·.2)))) := by
      have := RelM.bind (plainTwo (x := z) (y := p2.2 ++ rest.flatMap (·.2)))
        (f1 := fun _ => (pure () : M Unit)) (f2 := fun _ => pure ()) (fun _ => RelM.of_resp (resp_pure ()))
      unfold plainUnit
      simpa only [bind_assoc] using this
    refine RelM.trans ?_ h2
    exact RelM.bind (RelM.of_resp (appendText_resp z)) (fun _ => ih)

theorem flushPlain_rel {l1 l2 : List (SplitStatus × Str)} (h : PendRel l1 l2) :
    RelM (flushPendingPlain l1) (flushPendingPlain l2) := by
  have he := pendEmpty_eq h
  cases l1 with
  | nil =>
    cases l2 with
    | nil => rw [flushPendingPlain]; exact RelM.of_resp (resp_pure ())
    | cons b bs => simp at he
  | cons a as =>
    cases l2 with
    | nil => simp at he
    | cons b bs =>
      have h1 := flushPlain_cat (a :: as) (by simp) h.ne1
      have h2 := flushPlain_cat (b :: bs) (by simp) h.ne2
      rw [h.cat] at h1
      exact h1.trans h2.symm

/-! ### the in-table-text rule -/

theorem sim_clearPend {s t : State} (h : Sim s t) :
    Sim { s with pendingTableText := [] } { t with pendingTableText := [] } := by
  obtain ⟨hi, tr, cl, er, pt, rfl, _⟩ := h
  exact ⟨hi, tr, cl, er, [], rfl, PendRel.rfl' (by intro p hp; cases hp)⟩

/-- `orig_mode.take().unwrap()`, then `Reprocess(mode, token)` -/
theorem takeOrig_resp (tok : Token) :
    RespQ (ResOK tok) (getS >>= fun s => match s.origMode with
      | none => panicAt "unwrap-none" "rules.rs:1172" "orig_mode.take().unwrap()"
      | some m => (set { s with origMode := none } : M PUnit) >>= fun _ => pure (.reprocess m tok)) :=
  respQ_takeOrig _ _ _ (fun s _ => { s with origMode := none }) (fun m => pure (.reprocess m tok))
    (fun _ _ _ _ _ _ => rfl) (fun _ _ h => h) (fun _ _ => rfl) (fun _ => respQ_pure (Or.inl rfl))

theorem tableTextOther_resp (tok : Token) :
    RespQ (ResOK tok) (getS >>= fun s0 =>
      (modS fun s => { s with pendingTableText := [] }) >>= fun _ =>
      if cns s0.pendingTableText = true then
        parseError "Non-space table text" >>= fun _ => flushPendingFoster s0.pendingTableText >>= fun _ =>
          (getS >>= fun s => match s.origMode with
            | none => panicAt "unwrap-none" "rules.rs:1172" "orig_mode.take().unwrap()"
            | some m => (set { s with origMode := none } : M PUnit) >>= fun _ => pure (.reprocess m tok))
      else
        flushPendingPlain s0.pendingTableText >>= fun _ =>
          (getS >>= fun s => match s.origMode with
            | none => panicAt "unwrap-none" "rules.rs:1172" "orig_mode.take().unwrap()"
            | some m => (set { s with origMode := none } : M PUnit) >>= fun _ => pure (.reprocess m tok))) := by
  refine respQ_getS_bind_diag ?_
  intro s t hst
  have hp := hst.pend
  refine relR_bind (P := fun _ => True) ?_ ?_
  · exact ⟨rfl, trivial, sim_clearPend hst⟩
  · intro _ s' t' _ hs't'
    rw [hp.cns]
    cases cns t.pendingTableText with
    | true =>
      simp only [if_true]
      refine relR_bind (parseError_resp _ s' t' hs't') ?_
      intro _ s2 t2 _ h2
      refine relR_bind (flushFoster_rel hp s2 t2 h2) ?_
      intro _ s3 t3 _ h3
      exact takeOrig_resp tok s3 t3 h3
    | false =>
      simp only [Bool.false_eq_true, if_false]
      refine relR_bind (flushPlain_rel hp s' t' hs't') ?_
      intro _ s3 t3 _ h3
      exact takeOrig_resp tok s3 t3 h3

/-- **the hypothesis of the congruence lemmas holds** -/
theorem inTableText_ok : InTableTextOK := by
  intro token ht
  cases token with
  | nullChar => exact respQ_done_ok unexpected_done
  | chars st x =>
    simp only [stepInTableText]
    exact respQ_bind (P := fun _ => True) (pend_push_resp st x ht) (fun _ _ => respQ_pure trivial)
  | tag t => exact tableTextOther_resp (.tag t)
  | comment c => exact tableTextOther_resp (.comment c)
  | eof => exact tableTextOther_resp .eof

/-- `orig_mode.take().unwrap()`, answering the mode -/
theorem takeOrigMode_resp :
    Resp (getS >>= fun s => match s.origMode with
      | none => (panicAt "unwrap-none" "rules.rs:1172" "orig_mode.take().unwrap()" : M Mode)
      | some m => (set { s with origMode := none } : M PUnit) >>= fun _ => pure m) := by
  refine respQ_getS_bind_diag ?_
  intro a b hab
  have ho := hab.origMode
  rw [← ho]
  cases a.origMode with
  | none => trivial
  | some m =>
    exact relR_set_bind (sim_of_comm (g := fun s => { s with origMode := none })
      (fun _ _ _ _ _ => rfl) (fun _ h => h) (fun _ => rfl) hab) (resp_pure m)

/-- `flush_pending_table_text`: the same flush, answering the original insertion mode -/
theorem flushText_ok : FlushTextOK := by
  show Resp flushPendingTableText
  have key : Resp (getS >>= fun s0 =>
      (modS fun s => { s with pendingTableText := [] }) >>= fun _ =>
      if cns s0.pendingTableText = true then
        parseError "Non-space table text" >>= fun _ => flushPendingFoster s0.pendingTableText >>= fun _ =>
          (getS >>= fun s => match s.origMode with
            | none => (panicAt "unwrap-none" "rules.rs:1172" "orig_mode.take().unwrap()" : M Mode)
            | some m => (set { s with origMode := none } : M PUnit) >>= fun _ => pure m)
      else
        flushPendingPlain s0.pendingTableText >>= fun _ =>
          (getS >>= fun s => match s.origMode with
            | none => (panicAt "unwrap-none" "rules.rs:1172" "orig_mode.take().unwrap()" : M Mode)
            | some m => (set { s with origMode := none } : M PUnit) >>= fun _ => pure m)) := by
    refine respQ_getS_bind_diag ?_
    intro s t hst
    have hp := hst.pend
    refine relR_bind (P := fun _ => True) ?_ ?_
    · exact ⟨rfl, trivial, sim_clearPend hst⟩
    · intro _ s' t' _ hs't'
      rw [hp.cns]
      cases cns t.pendingTableText with
      | true =>
        simp only [if_true]
        refine relR_bind (parseError_resp _ s' t' hs't') ?_
        intro _ s2 t2 _ h2
        refine relR_bind (flushFoster_rel hp s2 t2 h2) ?_
        intro _ s3 t3 _ h3
        exact takeOrigMode_resp s3 t3 h3
      | false =>
        simp only [Bool.false_eq_true, if_false]
        refine relR_bind (flushPlain_rel hp s' t' hs't') ?_
        intro _ s3 t3 _ h3
        exact takeOrigMode_resp s3 t3 h3
  exact key

end H5V.Lemmas.TBSplit
