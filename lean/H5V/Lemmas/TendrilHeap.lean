import H5V.Lemmas.TendrilBasic
/-!
How each shape of heap update (the effect of a primitive) carries `WF` and `abs` over.
All lemmas have the tendril being operated on at the head of the list and an arbitrary `rest`.
-/
namespace H5V.Lemmas.Tendril
open H5V.Model.Tendril

/-! ## lookups -/

theorem getElem?_set_self' {l : List Buf} {id : Nat} {b b' : Buf} (hb : l[id]? = some b) :
    (l.set id b')[id]? = some b' := by
  have := (List.getElem?_eq_some_iff.mp hb).1
  simp [this]

theorem getElem?_set_ne' {l : List Buf} {id j : Nat} {b' : Buf} (hne : j ≠ id) :
    (l.set id b')[j]? = l[j]? := by
  simp [Ne.symm hne]

theorem lookup_set {l : List Buf} {id j : Nat} {b b' c : Buf} (hb : l[id]? = some b)
    (hc : (l.set id b')[j]? = some c) : (j = id ∧ c = b') ∨ (j ≠ id ∧ l[j]? = some c) := by
  by_cases hj : j = id
  · subst hj; rw [getElem?_set_self' hb] at hc; exact Or.inl ⟨rfl, (Option.some.inj hc).symm⟩
  · rw [getElem?_set_ne' hj] at hc; exact Or.inr ⟨hj, hc⟩

theorem lookup_append {l : List Buf} {nb c : Buf} {j : Nat} (hc : (l ++ [nb])[j]? = some c) :
    (j = l.length ∧ c = nb) ∨ (j < l.length ∧ l[j]? = some c) := by
  rw [List.getElem?_append] at hc
  split at hc
  · exact Or.inr ⟨by assumption, hc⟩
  · rename_i hlt
    have : j - l.length = 0 := by
      cases hj : j - l.length with
      | zero => rfl
      | succ k => simp [hj] at hc
    simp [this] at hc
    exact Or.inl ⟨by omega, hc.symm⟩

theorem lookup_lt {l : List Buf} {j : Nat} {c : Buf} (h : l[j]? = some c) : j < l.length :=
  (List.getElem?_eq_some_iff.mp h).1

/-! ## `abs` only depends on the data of the buffer a tendril refers to -/

theorem abs_congr {h h' : Heap} {u : T}
    (hd : ∀ id, u.bufId? = some id → (h'.bufs[id]?).map Buf.data = (h.bufs[id]?).map Buf.data) :
    abs h' u = abs h u := by
  cases u with
  | inline bs => rfl
  | owned id len cap =>
    have := hd id rfl
    simp only [abs]
    cases h1 : h'.bufs[id]? <;> cases h2 : h.bufs[id]? <;> simp_all
  | shared id off len =>
    have := hd id rfl
    simp only [abs]
    cases h1 : h'.bufs[id]? <;> cases h2 : h.bufs[id]? <;> simp_all

theorem abs_set_other {h : Heap} {id : Nat} {b' : Buf} {tr : List Event} {u : T}
    (hne : u.bufId? ≠ some id) : abs ⟨h.bufs.set id b', tr⟩ u = abs h u := by
  apply abs_congr
  intro j hj
  have : j ≠ id := by rintro rfl; exact hne hj
  simp [getElem?_set_ne' this]

theorem abs_set_data {h : Heap} {id : Nat} {b b' : Buf} {tr : List Event} (u : T)
    (hb : h.bufs[id]? = some b) (hd : b'.data = b.data) : abs ⟨h.bufs.set id b', tr⟩ u = abs h u := by
  apply abs_congr
  intro j _
  by_cases hj : j = id
  · subst hj; simp [getElem?_set_self' hb, hb, hd]
  · simp [getElem?_set_ne' hj]

theorem abs_append {h : Heap} {l : List Buf} {tr : List Event} {u : T} (w : TWF h u) :
    abs ⟨h.bufs ++ l, tr⟩ u = abs h u := by
  apply abs_congr
  intro j hj
  have := w.lt hj
  simp [List.getElem?_append, this]

theorem abs_trace {bufs : List Buf} {tr tr' : List Event} (u : T) :
    abs ⟨bufs, tr⟩ u = abs ⟨bufs, tr'⟩ u := by
  cases u <;> rfl

/-! ## `TWF` under heap updates -/

theorem TWF.set_other {h : Heap} {id : Nat} {b' : Buf} {tr : List Event} {t : T} (w : TWF h t)
    (hne : t.bufId? ≠ some id) : TWF ⟨h.bufs.set id b', tr⟩ t := by
  cases t with
  | inline bs => exact w
  | owned i len cap =>
    have : i ≠ id := by rintro rfl; exact hne rfl
    obtain ⟨b, hb, r⟩ := w
    exact ⟨b, by simpa [getElem?_set_ne' this] using hb, r⟩
  | shared i off len =>
    have : i ≠ id := by rintro rfl; exact hne rfl
    obtain ⟨b, hb, r⟩ := w
    exact ⟨b, by simpa [getElem?_set_ne' this] using hb, r⟩

/-- a buffer update that keeps liveness, capacities and does not shrink the data keeps every
tendril well-formed -/
theorem TWF.set_compat {h : Heap} {id : Nat} {b b' : Buf} {tr : List Event} {t : T} (w : TWF h t)
    (hb : h.bufs[id]? = some b) (hl : b'.live = b.live) (hc : b'.cap = b.cap)
    (hh : b.hdrCap = b.cap → b'.hdrCap = b'.cap) (hd : b.data.length ≤ b'.data.length) :
    TWF ⟨h.bufs.set id b', tr⟩ t := by
  by_cases hne : t.bufId? = some id
  · cases t with
    | inline bs => exact w
    | owned i len cap =>
      simp [T.bufId?] at hne; subst hne
      obtain ⟨b0, hb0, h1, h2, h3⟩ := w
      rw [hb] at hb0; cases hb0
      exact ⟨b', getElem?_set_self' hb, by rw [hl]; exact h1, by rw [hc]; exact h2, by omega⟩
    | shared i off len =>
      simp [T.bufId?] at hne; subst hne
      obtain ⟨b0, hb0, h1, h2, h3⟩ := w
      rw [hb] at hb0; cases hb0
      exact ⟨b', getElem?_set_self' hb, by rw [hl]; exact h1, hh h2, by omega⟩
  · exact w.set_other hne

theorem TWF.append {h : Heap} {l : List Buf} {tr : List Event} {t : T} (w : TWF h t) :
    TWF ⟨h.bufs ++ l, tr⟩ t := by
  cases t with
  | inline bs => exact w
  | owned i len cap =>
    obtain ⟨b, hb, r⟩ := w
    exact ⟨b, by rw [List.getElem?_append_left (lookup_lt hb)]; exact hb, r⟩
  | shared i off len =>
    obtain ⟨b, hb, r⟩ := w
    exact ⟨b, by rw [List.getElem?_append_left (lookup_lt hb)]; exact hb, r⟩

theorem TWF.trace {bufs : List Buf} {tr tr' : List Event} {t : T} (w : TWF ⟨bufs, tr⟩ t) :
    TWF ⟨bufs, tr'⟩ t := by
  cases t <;> exact w

/-! ## the monitor follows the heap -/

theorem proj_getElem? (h : Heap) (id : Nat) :
    (proj h)[id]? = (h.bufs[id]?).map (fun b => (b.cap, b.live)) := by
  simp [proj]

theorem proj_set {h : Heap} {id : Nat} {b' : Buf} {tr : List Event} :
    proj ⟨h.bufs.set id b', tr⟩ = (proj h).set id (b'.cap, b'.live) := by
  simp [proj, List.map_set]

theorem proj_set_same {h : Heap} {id : Nat} {b b' : Buf} {tr : List Event} (hb : h.bufs[id]? = some b)
    (hc : b'.cap = b.cap) (hl : b'.live = b.live) : proj ⟨h.bufs.set id b', tr⟩ = proj h := by
  rw [proj_set]
  apply List.ext_getElem?
  intro j
  by_cases hj : j = id
  · subst hj
    have hlt : j < (proj h).length := by simp [proj]; exact lookup_lt hb
    rw [List.getElem?_set_self hlt, proj_getElem?, hb, hc, hl]; rfl
  · rw [List.getElem?_set_ne (Ne.symm hj)]

theorem proj_append {h : Heap} {nb : Buf} {tr : List Event} :
    proj ⟨h.bufs ++ [nb], tr⟩ = proj h ++ [(nb.cap, nb.live)] := by
  simp [proj]

theorem proj_length (h : Heap) : (proj h).length = h.bufs.length := by simp [proj]

theorem run_cons {e : Event} {tr : List Event} {m : Mon} (h : Mon.run tr = some m) :
    Mon.run (e :: tr) = m.step e := by
  simp [Mon.run, h]

/-! ## `WF` under the heap updates the primitives perform -/

/-- generic single-buffer update -/
theorem WF.update {h : Heap} {ts ts' : List T} {id : Nat} {b b' : Buf} {tr : List Event}
    (w : WF h ts) (hb : h.bufs[id]? = some b) (hok : BufOK b')
    (htwf : ∀ t ∈ ts', TWF ⟨h.bufs.set id b', tr⟩ t)
    (hrefs : ∀ j, j ≠ id → refs ts' j = refs ts j)
    (hlive : b'.live = true → b'.refcount = refs ts' id ∧ 0 < refs ts' id)
    (hdead : b'.live = false → refs ts' id = 0)
    (hexcl : ∀ i len cap, T.owned i len cap ∈ ts' → refs ts' i = 1)
    (hled : Mon.run tr = some (proj ⟨h.bufs.set id b', tr⟩)) :
    WF ⟨h.bufs.set id b', tr⟩ ts' where
  twf := htwf
  bufs j c hc := by
    rcases lookup_set hb hc with ⟨_, rfl⟩ | ⟨_, h2⟩
    · exact hok
    · exact w.bufs j c h2
  live j c hc hl := by
    rcases lookup_set hb hc with ⟨rfl, rfl⟩ | ⟨hj, h2⟩
    · exact hlive hl
    · rw [hrefs j hj]; exact w.live j c h2 hl
  dead j c hc hl := by
    rcases lookup_set hb hc with ⟨rfl, rfl⟩ | ⟨hj, h2⟩
    · exact hdead hl
    · rw [hrefs j hj]; exact w.dead j c h2 hl
  excl := hexcl
  ledger := hled

theorem refs_cons_same {t t' : T} {rest : List T} (h : t'.bufId? = t.bufId?) (j : Nat) :
    refs (t' :: rest) j = refs (t :: rest) j := by
  simp [refs_cons, h]

/-- replacing the head by another view of the same buffer (or inline by inline), heap unchanged -/
theorem WF.replace_head {h : Heap} {t t' : T} {rest : List T} (w : WF h (t :: rest))
    (hid : t'.bufId? = t.bufId?) (htwf : TWF h t')
    (hown : ∀ i len cap, t' = .owned i len cap → ∃ len', t = .owned i len' cap) :
    WF h (t' :: rest) where
  twf u hu := by
    rcases List.mem_cons.mp hu with rfl | hu
    · exact htwf
    · exact w.twf u (List.mem_cons_of_mem _ hu)
  bufs := w.bufs
  live j c hc hl := by rw [refs_cons_same hid]; exact w.live j c hc hl
  dead j c hc hl := by rw [refs_cons_same hid]; exact w.dead j c hc hl
  excl i len cap hm := by
    rw [refs_cons_same hid]
    rcases List.mem_cons.mp hm with h1 | h1
    · obtain ⟨len', rfl⟩ := hown i len cap h1.symm
      exact w.excl i len' cap (List.mem_cons_self ..)
    · exact w.excl i len cap (List.mem_cons_of_mem _ h1)
  ledger := w.ledger

theorem refs_cons_inline (bs : List UInt8) (rest : List T) (j : Nat) :
    refs (.inline bs :: rest) j = refs rest j := by
  simp [refs_cons, T.bufId?]

/-- an inline tendril can be added … -/
theorem WF.cons_inline {h : Heap} {ts : List T} {bs : List UInt8} (w : WF h ts) (hl : bs.length ≤ 8) :
    WF h (.inline bs :: ts) where
  twf u hu := by
    rcases List.mem_cons.mp hu with rfl | hu
    · exact hl
    · exact w.twf u hu
  bufs := w.bufs
  live j c hc hl := by rw [refs_cons_inline]; exact w.live j c hc hl
  dead j c hc hl := by rw [refs_cons_inline]; exact w.dead j c hc hl
  excl i len cap hm := by
    rw [refs_cons_inline]
    rcases List.mem_cons.mp hm with h1 | h1
    · cases h1
    · exact w.excl i len cap h1
  ledger := w.ledger

/-- … and removed -/
theorem WF.tail_inline {h : Heap} {ts : List T} {bs : List UInt8} (w : WF h (.inline bs :: ts)) :
    WF h ts where
  twf u hu := w.twf u (List.mem_cons_of_mem _ hu)
  bufs := w.bufs
  live j c hc hl := by have := w.live j c hc hl; rwa [refs_cons_inline] at this
  dead j c hc hl := by have := w.dead j c hc hl; rwa [refs_cons_inline] at this
  excl i len cap hm := by
    have := w.excl i len cap (List.mem_cons_of_mem _ hm); rwa [refs_cons_inline] at this
  ledger := w.ledger

/-- facts about the head when it is owned -/
theorem WF.owned_head {h : Heap} {id len cap : Nat} {rest : List T}
    (w : WF h (.owned id len cap :: rest)) :
    ∃ b, h.bufs[id]? = some b ∧ b.live = true ∧ b.cap = cap ∧ len ≤ b.data.length ∧ BufOK b ∧
      b.refcount = 1 ∧ refs rest id = 0 := by
  obtain ⟨b, hb, hl, hc, hlen⟩ := w.twf _ (List.mem_cons_self ..)
  have hex := w.excl id len cap (List.mem_cons_self ..)
  have hlv := (w.live id b hb hl).1
  refine ⟨b, hb, hl, hc, hlen, w.bufs id b hb, by omega, ?_⟩
  simp [refs_cons, T.bufId?] at hex
  exact hex

/-- facts about the head when it is shared -/
theorem WF.shared_head {h : Heap} {id off len : Nat} {rest : List T}
    (w : WF h (.shared id off len :: rest)) :
    ∃ b, h.bufs[id]? = some b ∧ b.live = true ∧ b.hdrCap = b.cap ∧ off + len ≤ b.data.length ∧
      BufOK b ∧ b.refcount = refs rest id + 1 ∧
      (∀ i l c, T.owned i l c ∈ rest → i ≠ id) := by
  obtain ⟨b, hb, hl, hc, hlen⟩ := w.twf _ (List.mem_cons_self ..)
  have hlv := (w.live id b hb hl).1
  refine ⟨b, hb, hl, hc, hlen, w.bufs id b hb, ?_, ?_⟩
  · simpa [refs_cons, T.bufId?] using hlv
  · rintro i l c hm rfl
    have := w.excl i l c (List.mem_cons_of_mem _ hm)
    have hp := refs_pos_of_mem hm (id := i) rfl
    simp [refs_cons, T.bufId?] at this
    omega

/-- `make_buf_shared`: the owned head becomes a shared view at offset 0 -/
theorem WF.make_shared {h : Heap} {id len cap : Nat} {rest : List T} {b : Buf}
    (w : WF h (.owned id len cap :: rest)) (hb : h.bufs[id]? = some b) :
    WF ⟨h.bufs.set id { b with hdrCap := cap }, h.trace⟩ (.shared id 0 len :: rest) := by
  obtain ⟨b0, hb0, hl, hc, hlen, hok, hrc, hr0⟩ := w.owned_head
  rw [hb] at hb0; cases hb0
  refine w.update hb hok ?_ (fun j _ => refs_cons_same rfl j) ?_ ?_ ?_ ?_
  · intro u hu
    rcases List.mem_cons.mp hu with rfl | hu
    · exact ⟨_, getElem?_set_self' hb, hl, hc.symm, by simpa using hlen⟩
    · exact (w.twf u (List.mem_cons_of_mem _ hu)).set_compat hb rfl rfl (fun _ => hc.symm) (Nat.le_refl _)
  · intro _
    have := w.live id b hb hl
    simpa [refs_cons, T.bufId?] using this
  · intro hd; simp [hl] at hd
  · intro i l c hm
    rcases List.mem_cons.mp hm with h1 | h1
    · cases h1
    · have := w.excl i l c (List.mem_cons_of_mem _ h1)
      simpa [refs_cons, T.bufId?] using this
  · rw [proj_set_same hb (by rfl) (by rfl)]; exact w.ledger

/-- `incref` + a new shared view of the head's buffer -/
theorem WF.incref_view {h : Heap} {id off len off' len' : Nat} {rest : List T} {b : Buf}
    (w : WF h (.shared id off len :: rest)) (hb : h.bufs[id]? = some b)
    (hv : off' + len' ≤ b.data.length) :
    WF ⟨h.bufs.set id { b with refcount := b.refcount + 1 }, .incref id b.refcount :: h.trace⟩
      (.shared id off len :: .shared id off' len' :: rest) := by
  obtain ⟨b0, hb0, hl, hc, hlen, hok, hrc, hno⟩ := w.shared_head
  rw [hb] at hb0; cases hb0
  refine w.update hb hok ?_ ?_ ?_ ?_ ?_ ?_
  · intro u hu
    have key : ∀ u, TWF h u → TWF ⟨h.bufs.set id { b with refcount := b.refcount + 1 },
        .incref id b.refcount :: h.trace⟩ u :=
      fun u hu => hu.set_compat hb rfl rfl (fun x => x) (Nat.le_refl _)
    rcases List.mem_cons.mp hu with rfl | hu
    · exact key _ (w.twf _ (List.mem_cons_self ..))
    rcases List.mem_cons.mp hu with rfl | hu
    · exact ⟨_, getElem?_set_self' hb, hl, hc, hv⟩
    · exact key _ (w.twf u (List.mem_cons_of_mem _ hu))
  · intro j hj
    have : ¬ (id = j) := fun e => hj e.symm
    simp [refs_cons, T.bufId?, this]
  · intro _
    simp [refs_cons, T.bufId?, hrc]
  · intro hd; simp [hl] at hd
  · intro i l c hm
    rcases List.mem_cons.mp hm with h1 | h1
    · cases h1
    rcases List.mem_cons.mp h1 with h1 | h1
    · cases h1
    · have := w.excl i l c (List.mem_cons_of_mem _ h1)
      have hne := hno i l c h1
      have : ¬ (id = i) := fun e => hne e.symm
      simp_all [refs_cons, T.bufId?]
  · rw [run_cons w.ledger, proj_set_same hb (by rfl) (by rfl)]
    simp [Mon.step, proj_getElem?, hb, hl]

/-- `decrement()` answered > 1: the head's reference is gone, the buffer stays -/
theorem WF.decref_head {h : Heap} {id off len : Nat} {rest : List T} {b : Buf}
    (w : WF h (.shared id off len :: rest)) (hb : h.bufs[id]? = some b) (hne : b.refcount ≠ 1) :
    WF ⟨h.bufs.set id { b with refcount := b.refcount - 1 }, .decref id b.refcount :: h.trace⟩ rest := by
  obtain ⟨b0, hb0, hl, hc, hlen, hok, hrc, hno⟩ := w.shared_head
  rw [hb] at hb0; cases hb0
  refine w.update hb hok ?_ ?_ ?_ ?_ ?_ ?_
  · intro u hu
    exact (w.twf u (List.mem_cons_of_mem _ hu)).set_compat hb rfl rfl (fun x => x) (Nat.le_refl _)
  · intro j hj
    have : ¬ (id = j) := fun e => hj e.symm
    simp [refs_cons, T.bufId?, this]
  · intro _
    simp only []
    omega
  · intro hd; simp [hl] at hd
  · intro i l c hm
    have := w.excl i l c (List.mem_cons_of_mem _ hm)
    have hne := hno i l c hm
    have : ¬ (id = i) := fun e => hne e.symm
    simp_all [refs_cons, T.bufId?]
  · rw [run_cons w.ledger, proj_set_same hb (by rfl) (by rfl)]
    simp [Mon.step, proj_getElem?, hb, hl]

/-- `decrement()` answered 1, then `destroy` -/
theorem WF.decref_free_head {h : Heap} {id off len : Nat} {rest : List T} {b : Buf}
    (w : WF h (.shared id off len :: rest)) (hb : h.bufs[id]? = some b) (heq : b.refcount = 1) :
    WF ⟨h.bufs.set id { b with refcount := 0, live := false },
        .free id b.cap :: .decref id b.refcount :: h.trace⟩ rest := by
  obtain ⟨b0, hb0, hl, hc, hlen, hok, hrc, hno⟩ := w.shared_head
  rw [hb] at hb0; cases hb0
  have hr0 : refs rest id = 0 := by omega
  refine w.update hb hok ?_ ?_ ?_ ?_ ?_ ?_
  · intro u hu
    apply (w.twf u (List.mem_cons_of_mem _ hu)).set_other
    intro hid
    have := refs_pos_of_mem hu hid
    omega
  · intro j hj
    have : ¬ (id = j) := fun e => hj e.symm
    simp [refs_cons, T.bufId?, this]
  · intro hd; simp at hd
  · intro _; exact hr0
  · intro i l c hm
    have := w.excl i l c (List.mem_cons_of_mem _ hm)
    have hne := hno i l c hm
    have : ¬ (id = i) := fun e => hne e.symm
    simp_all [refs_cons, T.bufId?]
  · have h1 : Mon.run (.decref id b.refcount :: h.trace) = some (proj h) := by
      rw [run_cons w.ledger]; simp [Mon.step, proj_getElem?, hb, hl]
    rw [run_cons h1, proj_set]
    simp [Mon.step, proj_getElem?, hb, hl]

/-- `destroy` of the owned head -/
theorem WF.free_owned_head {h : Heap} {id len cap : Nat} {rest : List T} {b : Buf}
    (w : WF h (.owned id len cap :: rest)) (hb : h.bufs[id]? = some b) :
    WF ⟨h.bufs.set id { b with live := false }, .free id cap :: h.trace⟩ rest := by
  obtain ⟨b0, hb0, hl, hc, hlen, hok, hrc, hr0⟩ := w.owned_head
  rw [hb] at hb0; cases hb0
  refine w.update hb hok ?_ ?_ ?_ ?_ ?_ ?_
  · intro u hu
    apply (w.twf u (List.mem_cons_of_mem _ hu)).set_other
    intro hid
    have := refs_pos_of_mem hu hid
    omega
  · intro j hj
    have : ¬ (id = j) := fun e => hj e.symm
    simp [refs_cons, T.bufId?, this]
  · intro hd; simp at hd
  · intro _; exact hr0
  · intro i l c hm
    have := w.excl i l c (List.mem_cons_of_mem _ hm)
    have : ¬ (id = i) := by
      rintro rfl
      have := refs_pos_of_mem hm (id := id) rfl
      omega
    simp_all [refs_cons, T.bufId?]
  · rw [run_cons w.ledger, proj_set]
    simp [Mon.step, proj_getElem?, hb, hl, hc]

/-- a write into the owned head's buffer (`pos` inside the initialised prefix, end inside the
capacity); the head's length becomes the end of the write -/
theorem WF.write_owned_head {h : Heap} {id len cap pos : Nat} {bytes : List UInt8} {rest : List T}
    {b : Buf} (w : WF h (.owned id len cap :: rest)) (hb : h.bufs[id]? = some b)
    (hp : pos ≤ b.data.length) (he : pos + bytes.length ≤ cap) :
    WF ⟨h.bufs.set id { b with data := b.data.take pos ++ bytes },
        .write id pos (pos + bytes.length) :: h.trace⟩ (.owned id (pos + bytes.length) cap :: rest) := by
  obtain ⟨b0, hb0, hl, hc, hlen, hok, hrc, hr0⟩ := w.owned_head
  rw [hb] at hb0; cases hb0
  have hdl : (b.data.take pos ++ bytes).length = pos + bytes.length := by
    simp [List.length_take, Nat.min_eq_left hp]
  refine w.update hb ⟨by simp only [hdl]; omega, hok.2.1, hok.2.2⟩ ?_
    (fun j _ => refs_cons_same rfl j) ?_ ?_ ?_ ?_
  · intro u hu
    rcases List.mem_cons.mp hu with rfl | hu
    · exact ⟨_, getElem?_set_self' hb, hl, hc, by simp only [hdl]; omega⟩
    · apply (w.twf u (List.mem_cons_of_mem _ hu)).set_other
      intro hid
      have := refs_pos_of_mem hu hid
      omega
  · intro _
    have := w.live id b hb hl
    simpa [refs_cons, T.bufId?] using this
  · intro hd; simp [hl] at hd
  · intro i l c hm
    rcases List.mem_cons.mp hm with h1 | h1
    · cases h1
      simpa [refs_cons, T.bufId?] using w.excl id len cap (List.mem_cons_self ..)
    · have := w.excl i l c (List.mem_cons_of_mem _ h1)
      simpa [refs_cons, T.bufId?] using this
  · rw [run_cons w.ledger, proj_set_same hb (by rfl) (by rfl)]
    simp [Mon.step, proj_getElem?, hb, hl]
    omega

/-- a one-byte store inside the owned head -/
theorem WF.poke_owned_head {h : Heap} {id len cap pos : Nat} {v : UInt8} {rest : List T}
    {b : Buf} (w : WF h (.owned id len cap :: rest)) (hb : h.bufs[id]? = some b)
    (hp : pos < b.data.length) :
    WF ⟨h.bufs.set id { b with data := b.data.set pos v }, .write id pos (pos + 1) :: h.trace⟩
      (.owned id len cap :: rest) := by
  obtain ⟨b0, hb0, hl, hc, hlen, hok, hrc, hr0⟩ := w.owned_head
  rw [hb] at hb0; cases hb0
  refine w.update hb ⟨by simpa using hok.1, hok.2.1, hok.2.2⟩ ?_
    (fun j _ => rfl) ?_ ?_ ?_ ?_
  · intro u hu
    exact (w.twf u hu).set_compat hb rfl rfl (fun x => x) (by simp)
  · intro _; exact w.live id b hb hl
  · intro hd; simp [hl] at hd
  · exact w.excl
  · rw [run_cons w.ledger, proj_set_same hb (by rfl) (by rfl)]
    have := hok.1
    simp [Mon.step, proj_getElem?, hb, hl]
    omega

/-- `with_capacity` + the first write: a new owned tendril appears -/
theorem WF.alloc_owned {h : Heap} {ts : List T} {x : List UInt8} {c : Nat} (w : WF h ts)
    (hx : x.length ≤ c) (hc16 : 16 ≤ c) (hcm : c ≤ 4294967295) :
    WF ⟨h.bufs ++ [⟨x, c, 0, 1, true⟩],
        .write h.bufs.length 0 (0 + x.length) :: .alloc h.bufs.length c :: h.trace⟩
      (.owned h.bufs.length x.length c :: ts) where
  twf u hu := by
    rcases List.mem_cons.mp hu with rfl | hu
    · exact ⟨⟨x, c, 0, 1, true⟩, by simp, rfl, rfl, Nat.le_refl _⟩
    · exact (w.twf u hu).append
  bufs j d hd := by
    rcases lookup_append hd with ⟨_, rfl⟩ | ⟨_, h2⟩
    · exact ⟨hx, hc16, hcm⟩
    · exact w.bufs j d h2
  live j d hd hl := by
    rcases lookup_append hd with ⟨rfl, rfl⟩ | ⟨hlt, h2⟩
    · simp [refs_cons, T.bufId?, w.refs_fresh (Nat.le_refl _)]
    · have : ¬ (h.bufs.length = j) := by omega
      simpa [refs_cons, T.bufId?, this] using w.live j d h2 hl
  dead j d hd hl := by
    rcases lookup_append hd with ⟨rfl, rfl⟩ | ⟨hlt, h2⟩
    · simp at hl
    · have : ¬ (h.bufs.length = j) := by omega
      simpa [refs_cons, T.bufId?, this] using w.dead j d h2 hl
  excl i l cc hm := by
    rcases List.mem_cons.mp hm with h1 | h1
    · cases h1
      simp [refs_cons, T.bufId?, w.refs_fresh (Nat.le_refl _)]
    · have hlt := (w.twf _ h1).lt (id := i) rfl
      have : ¬ (h.bufs.length = i) := by omega
      simpa [refs_cons, T.bufId?, this] using w.excl i l cc h1
  ledger := by
    have h1 : Mon.run (.alloc h.bufs.length c :: h.trace) = some (proj h ++ [(c, true)]) := by
      rw [run_cons w.ledger]; simp [Mon.step, proj_length]
    rw [run_cons h1, proj_append]
    have : (proj h ++ [(c, true)])[h.bufs.length]? = some (c, true) := by
      simp [List.getElem?_append, proj_length]
    simp [Mon.step, this]
    omega

/-- `realloc` of the owned head: fresh id, old block released -/
theorem WF.realloc_owned_head {h : Heap} {id len cap nc : Nat} {rest : List T} {b : Buf}
    (w : WF h (.owned id len cap :: rest)) (hb : h.bufs[id]? = some b)
    (hge : cap ≤ nc) (hcm : nc ≤ 4294967295) :
    WF ⟨h.bufs.set id { b with live := false } ++ [{ b with cap := nc }],
        .free id cap :: .alloc h.bufs.length nc :: h.trace⟩ (.owned h.bufs.length len nc :: rest) := by
  obtain ⟨b0, hb0, hl, hc, hlen, hok, hrc, hr0⟩ := w.owned_head
  rw [hb] at hb0; cases hb0
  have hidlt := lookup_lt hb
  have hnoref : ∀ u ∈ rest, u.bufId? ≠ some id := by
    intro u hu hid
    have := refs_pos_of_mem hu hid
    omega
  have hfresh : ∀ u ∈ rest, ∀ j, u.bufId? = some j → j < h.bufs.length := by
    intro u hu j hj
    exact (w.twf u (List.mem_cons_of_mem _ hu)).lt hj
  have hrf : refs rest h.bufs.length = 0 := by
    unfold refs
    rw [List.countP_eq_zero]
    intro u hu
    simp only [beq_iff_eq]
    intro hj
    have := hfresh u hu _ hj
    omega
  constructor
  · intro u hu
    rcases List.mem_cons.mp hu with rfl | hu
    · exact ⟨{ b with cap := nc }, by simp [List.getElem?_append], hl, rfl, hlen⟩
    · have h1 := (w.twf u (List.mem_cons_of_mem _ hu)).set_other (id := id)
        (b' := { b with live := false }) (tr := h.trace) (hnoref u hu)
      exact TWF.append (l := [{ b with cap := nc }]) h1
  · intro j d hd
    rcases lookup_append hd with ⟨_, rfl⟩ | ⟨_, h2⟩
    · exact ⟨by simp only []; have := hok.1; omega, by simp only []; have := hok.2.1; omega, hcm⟩
    · rcases lookup_set hb h2 with ⟨_, rfl⟩ | ⟨_, h3⟩
      · exact hok
      · exact w.bufs j d h3
  · intro j d hd hlv
    rcases lookup_append hd with ⟨hj, rfl⟩ | ⟨hlt, h2⟩
    · simp only [List.length_set] at hj
      subst hj
      simp [refs_cons, T.bufId?, hrf, hrc]
    · simp only [List.length_set] at hlt
      rcases lookup_set hb h2 with ⟨_, rfl⟩ | ⟨hj, h3⟩
      · simp at hlv
      · have h4 := w.live j d h3 hlv
        have e1 : ¬ (id = j) := fun e => hj e.symm
        have e2 : ¬ (h.bufs.length = j) := by omega
        simpa [refs_cons, T.bufId?, e1, e2] using h4
  · intro j d hd hlv
    rcases lookup_append hd with ⟨hj, rfl⟩ | ⟨hlt, h2⟩
    · simp [hl] at hlv
    · simp only [List.length_set] at hlt
      have e2 : ¬ (h.bufs.length = j) := by omega
      rcases lookup_set hb h2 with ⟨rfl, rfl⟩ | ⟨hj, h3⟩
      · simp [refs_cons, T.bufId?, e2, hr0]
      · have h4 := w.dead j d h3 hlv
        have e1 : ¬ (id = j) := fun e => hj e.symm
        simpa [refs_cons, T.bufId?, e1, e2] using h4
  · intro i l c hm
    rcases List.mem_cons.mp hm with h1 | h1
    · cases h1
      simp [refs_cons, T.bufId?, hrf]
    · have h4 := w.excl i l c (List.mem_cons_of_mem _ h1)
      have hlt := hfresh _ h1 i rfl
      have e1 : ¬ (id = i) := by
        rintro rfl; exact hnoref _ h1 rfl
      have e2 : ¬ (h.bufs.length = i) := by omega
      simpa [refs_cons, T.bufId?, e1, e2] using h4
  · have h1 : Mon.run (.alloc h.bufs.length nc :: h.trace) = some (proj h ++ [(nc, true)]) := by
      rw [run_cons w.ledger]; simp [Mon.step, proj_length]
    rw [run_cons h1]
    have h2 : (proj h ++ [(nc, true)])[id]? = some (b.cap, true) := by
      rw [List.getElem?_append_left (by rw [proj_length]; exact hidlt), proj_getElem?, hb, ← hl]; rfl
    simp only [Mon.step, h2, hc, ↓reduceIte]
    congr 1
    simp only [proj, List.map_append, List.map_set, List.map_cons, List.map_nil]
    rw [List.set_append]
    simp [hidlt, hl, hc]

end H5V.Lemmas.Tendril
