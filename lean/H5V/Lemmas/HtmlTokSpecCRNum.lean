import H5V.Lemmas.HtmlTokSpecCRNum5
set_option linter.unusedSimpArgs false
set_option linter.unusedVariables false
/-!
# C01 simulation — layer L3a, character references (start and numeric): the two theorems

* `stepCharRef_sim_num`: one `Tokenizer::step` inside a character reference whose sub-state is `Begin`,
  `Octothorpe`, `Numeric(base)` or `NumericSemicolon` is simulated by `k ≥ 0` steps of the
  specification (states 13.2.5.72, 13.2.5.75–80);
* `crEof_sim_num`: the same for `end_of_file` of the character-reference tokenizer followed by
  `process_char_ref` (what `Tokenizer::end` does first when a reference is pending).
-/
namespace H5V.Lemmas.HtmlTokSpec
open H5V.Model.HtmlTok
open H5V.Spec.HtmlTokenizer (St Tok Emit Tree Switch Ctl ReturnSt normalizeNewlinesFrom)

/-- **one step of the model inside a character reference (start and numeric sub-states)** -/
theorem stepCharRef_sim_num (o : Opts) (ho : o.exactErrors = false) (pol : Pol) (tree : Tree)
    (m : Mach) (inp : Str) (t : Tok) (rest : Str) (h : RelCore m inp t rest) (cr : CharRefSt)
    (hcr : m.charRef = some cr)
    (hst : cr.state = .begin ∨ cr.state = .octothorpe ∨ (∃ b, cr.state = .numeric b) ∨ cr.state = .numericSemicolon) :
    StepOk tree t rest (stepCharRef o m inp cr) := by
  rcases hst with hst | hst | ⟨b, hst⟩ | hst
  · exact crnum_begin o ho pol tree m inp t rest h cr hcr hst
  · exact crnum_octothorpe o ho pol tree m inp t rest h cr hcr hst
  · exact crnum_numeric o ho pol tree m inp t rest h cr hcr b hst
  · exact crnum_numericSemicolon o ho pol tree m inp t rest h cr hcr hst

/-! ## end of input with a reference pending -/

theorem crnum_eof_m2_nil {m0 : Mach} (hret : isRet m0.state = true) (m2 : Mach)
    (hp : processCharRef (m0.setCharRef none) [] = (m2, .cont)) : m2 = (delivM m0 ['&']).setCharRef none := by
  rw [crnum_processCharRef_nil (by simpa using hret), delivM_setCharRef] at hp
  simp only [Prod.mk.injEq, and_true] at hp
  exact hp.symm

theorem crnum_eof_m2 {m0 : Mach} (hret : isRet m0.state = true) (cs : Str) (hne : cs ≠ [])
    (h0 : ∀ c ∈ cs, c ≠ '\x00') (m2 : Mach)
    (hp : processCharRef (m0.setCharRef none) cs = (m2, .cont)) : m2 = (delivM m0 cs).setCharRef none := by
  rw [crnum_processCharRef (by simpa using hret) cs hne h0, delivM_setCharRef] at hp
  simp only [Prod.mk.injEq, and_true] at hp
  exact hp.symm

/-- the digits are over at the end of input: (reconsume in) the numeric character reference end
state, then that state's step -/
theorem crnum_eof_finish (o : Opts) (ho : o.exactErrors = false) (tree : Tree) {m : Mach} {t : Tok} {cr : CharRefSt}
    (c : CRCtx m t cr) (hts : t.state = numSt cr) (hnr : NumRel cr t.characterReferenceCode)
    (m1 : Mach) (inp1 chars : Str)
    (he : finishNumericStatus o (emitErr m "EOF in numeric character reference") [] cr = .ok (m1, inp1, cr, .done chars))
    (m2 : Mach) (hp : processCharRef (m1.setCharRef none) chars = (m2, .cont)) (ht2 : TInv m2) :
    Reach tree t [] (fun t' rest' => Rel m2 inp1 t' rest') := by
  rw [crnum_finishNumericStatus o _ [] cr _ hnr] at he
  simp only [Except.ok.injEq, Prod.mk.injEq, true_and, CRStatus.done.injEq] at he
  obtain ⟨e1, e2, e3⟩ := he
  subst e1 e2 e3
  have hm2 := crnum_eof_m2 (crnum_finishNumeric_ret o ho c _ (ErrOnly.emitErr m _)) _ (by simp)
    (by simpa using crnum_char_ne_nul _) m2 hp
  subst hm2
  refine Reach.stepEq (crnum_spec_other tree t cr [] hts (by simp) (by simp)) ?_
  have := crnum_finish o ho tree c hnr _ (ErrOnly.emitErr m "EOF in numeric character reference") [] ht2
  simpa using this

/-- **`end_of_file` of the character-reference tokenizer (start and numeric sub-states)** -/
theorem crEof_sim_num (o : Opts) (ho : o.exactErrors = false) (tree : Tree)
    (m : Mach) (t : Tok) (rest : Str) (h : RelCore m [] t rest) (cr : CharRefSt) (hcr : m.charRef = some cr)
    (hst : cr.state = .begin ∨ cr.state = .octothorpe ∨ (∃ b, cr.state = .numeric b) ∨ cr.state = .numericSemicolon)
    (m1 : Mach) (inp1 chars : Str) (he : crEof o m [] cr = .ok (m1, inp1, chars))
    (m2 : Mach) (hp : processCharRef (m1.setCharRef none) chars = (m2, .cont)) :
    Reach tree t rest (fun t' rest' => Rel m2 inp1 t' rest') := by
  obtain ⟨c, hd, hrest⟩ := crnum_ctx h hcr
  have ht2 : TInv m2 := by
    have := (finish_charRef_inv o m cr h.tinv.linv hcr m1 inp1 chars he).1
    rw [hp] at this; exact this
  have hnb : cr.nameBuf = none := by
    apply c.lines.noBuf
    · rcases hst with hst | hst | ⟨b, hst⟩ | hst <;> rw [hst] <;> simp
    · rcases hst with hst | hst | ⟨b, hst⟩ | hst <;> rw [hst] <;> simp
  rw [hnb] at hrest
  simp only [Option.getD_none, List.nil_append, crnum_norm_nil] at hrest
  subst hrest
  rw [crEof_eq] at he
  unfold crEofOnce at he
  rcases hst with hst | hst | ⟨b, hst⟩ | hst
  · -- `&` at the very end
    rw [hst] at hd
    obtain ⟨hts, hf⟩ := hd
    simp only [hst, Except.ok.injEq, Prod.mk.injEq] at he
    obtain ⟨e1, e2, e3⟩ := he
    subst e1 e2 e3
    have hm2 := crnum_eof_m2_nil c.ret m2 hp
    subst hm2
    refine Reach.stepEq (t1 := finT t ['&'] t.characterReferenceCode) (n := 0) ?_ (Reach.done ?_)
    · rw [crnum_sstep_begin tree t [] hts]
      exact crnum_begin_other t none (by simp)
    · have := c.done ['&'] [] [] t.characterReferenceCode (by simp) ht2
      simpa using this
  · -- `&#` at the very end
    rw [hst] at hd
    obtain ⟨hts, htb, hf⟩ := hd
    simp only [hst, Except.ok.injEq, Prod.mk.injEq] at he
    obtain ⟨e1, e2, e3⟩ := he
    subst e1 e2 e3
    have c' := c.errOnly (ErrOnly.emitErr m "EOF after '#' in character reference")
    have hm2 := crnum_eof_m2_nil c'.ret m2 hp
    subst hm2
    refine Reach.stepEq (t1 := crTok t .decimalCharacterReferenceStart t.temporaryBuffer 0) (n := 0) ?_ ?_
    · rw [crnum_sstep_num tree t [] hts]
      exact crnum_num_other t none (by simp) (by simp)
    refine Reach.stepEq (t1 := finT t t.temporaryBuffer 0) (n := 0) ?_ (Reach.done ?_)
    · rw [crnum_sstep_decStart tree _ _ rfl]
      have := crnum_decStart_other (crTok t .decimalCharacterReferenceStart t.temporaryBuffer 0) none rfl
      simpa using this
    · have := c'.done ['&'] ['#'] [] 0 (by decide) ht2
      rw [htb]
      simpa using this
  · rw [hst] at hd
    obtain ⟨hb, _, hd⟩ := hd
    simp only [hst] at he
    cases hsd : cr.seenDigit with
    | false =>
      -- `&#` / `&#x` without digits at the very end
      simp only [hsd, Bool.false_eq_true, if_false] at hd
      obtain ⟨hts, htb, hn0, hbig, hc0⟩ := hd
      simp only [hsd, Bool.not_false, if_true, crnum_unconsumeNumeric, Except.ok.injEq, Prod.mk.injEq] at he
      obtain ⟨e1, e2, e3⟩ := he
      subst e1 e2 e3
      have c' := c.errOnly (ErrOnly.emitErr m "Numeric character reference without digits")
      have hm2 := crnum_eof_m2_nil c'.ret m2 hp
      subst hm2
      refine Reach.stepEq (crnum_spec_start_other tree t cr [] hts (by simp)) (Reach.done ?_)
      have := c'.done ['&'] ('#' :: cr.hexMarker.toList) [] t.characterReferenceCode
        (crnum_lag_ok (c.tinv.crt cr hcr)) ht2
      rw [htb]
      simpa using this
    | true =>
      simp only [hsd, if_true] at hd
      obtain ⟨hts, hnr⟩ := hd
      simp only [hsd, Bool.not_true, Bool.false_eq_true, if_false] at he
      cases hfs : finishNumericStatus o (emitErr m "EOF in numeric character reference") [] cr with
      | error e => rw [hfs] at he; simp at he
      | ok v =>
        obtain ⟨mx, ix, crx, stx⟩ := v
        have hfs' := hfs
        rw [crnum_finishNumericStatus o _ [] cr _ hnr] at hfs'
        simp only [Except.ok.injEq, Prod.mk.injEq] at hfs'
        obtain ⟨_, _, e3, e4⟩ := hfs'
        subst e3 e4
        rw [hfs] at he
        simp only [Except.ok.injEq, Prod.mk.injEq] at he
        obtain ⟨e1, e2, e3⟩ := he
        subst e1 e2 e3
        exact crnum_eof_finish o ho tree c hts hnr _ _ _ hfs m2 hp ht2
  · rw [hst] at hd
    obtain ⟨_, hts, hnr, _⟩ := hd
    simp only [hst] at he
    cases hfs : finishNumericStatus o (emitErr m "EOF in numeric character reference") [] cr with
    | error e => rw [hfs] at he; simp at he
    | ok v =>
      obtain ⟨mx, ix, crx, stx⟩ := v
      have hfs' := hfs
      rw [crnum_finishNumericStatus o _ [] cr _ hnr] at hfs'
      simp only [Except.ok.injEq, Prod.mk.injEq] at hfs'
      obtain ⟨_, _, e3, e4⟩ := hfs'
      subst e3 e4
      rw [hfs] at he
      simp only [Except.ok.injEq, Prod.mk.injEq] at he
      obtain ⟨e1, e2, e3⟩ := he
      subst e1 e2 e3
      exact crnum_eof_finish o ho tree c hts hnr _ _ _ hfs m2 hp ht2

end H5V.Lemmas.HtmlTokSpec
