import H5V.Lemmas.XmlTBHContractFns
import H5V.Lemmas.HtmlTBAlgoBase
import H5V.Lemmas.XmlTB
/-!
# Bridge between the two models of xml5ever's tree builder

`H5V.Model.XmlTB` (tree-valued, zipper; the model C16 is proved for) and `H5V.Model.XmlTBH`
(handle-level, every `TreeSink` call recorded; the model tied to the Rust by the `xmltb` trace
correspondence) are related by the simulation `BSim`:

* same phase, same namespace stack, same `doctype_seen`;
* the stacks of open elements correspond entry by entry: the handle is an element node of the arena whose
  qualified name **and attribute list** are those of the frame (`IsElem`, `Match`);
* the `create_element` calls recorded in the trace — name, attributes **and flags**, newest first — are
  the `created` list of the tree-valued model (`createOps`, `crop`).

The simulation is proved by *partial correctness* (`PC`): whenever both models return normally on the
same token, `BSim` is re-established.  That neither model panics is C16 (`step_inv`) and C05
(`sat_processToken`); it is not needed here.

Sink side: only `Stable` (element data survive every call the builder makes, `HtmlTBAlgoBase`) and the
shape of the answers of `create_element` / `elem_name` are used.
-/
namespace H5V.Lemmas.XmlTBHBridge
open H5V.Model.Dom (Id SinkOp Output Dom NodeOrText NodeData QualName Attr ElementFlags)
open H5V.Model.XmlTB (QName Tag TagKind Token TbCfg Bound Phase Created NsMap Err pushesMap sameExpanded sScript)
open H5V.Model.XmlTBH
open H5V.Lemmas.XmlTBH (bind_ok pure_ok getS_ok modS_ok throw_ok sink_ok nameOf Named apply_elemName
  createElement_fresh nameOf_of_data)
open H5V.Lemmas.HtmlTBAlgo (Stable Tame)

/-- the state of the tree-valued model -/
abbrev TState := H5V.Model.XmlTB.State
abbrev XAttr := H5V.Model.XmlTB.Attr

/-! ## partial correctness in the monad `M` -/

/-- if `m`, started in `h`, returns normally, the answer and the final state satisfy `Q` -/
def PC {α : Type} (m : M α) (h : State) (Q : α → State → Prop) : Prop :=
  ∀ a h', m h = .ok (a, h') → Q a h'

theorem pc_pure {α : Type} {a : α} {h : State} {Q : α → State → Prop} (hq : Q a h) : PC (pure a) h Q := by
  intro b h' e
  obtain ⟨rfl, rfl⟩ := pure_ok.mp e
  exact hq

theorem pc_bind {α β : Type} {m : M α} {f : α → M β} {h : State} {Q : β → State → Prop}
    (hm : PC m h (fun a h1 => PC (f a) h1 Q)) : PC (m >>= f) h Q := by
  intro b h' e
  obtain ⟨a, h1, e1, e2⟩ := bind_ok.mp e
  exact hm a h1 e1 b h' e2

theorem pc_seq {α β : Type} {m : M α} {f : α → M β} {h : State} {P : α → State → Prop} {Q : β → State → Prop}
    (hm : PC m h P) (hf : ∀ a h1, P a h1 → PC (f a) h1 Q) : PC (m >>= f) h Q :=
  pc_bind (fun a h1 e => hf a h1 (hm a h1 e))

theorem pc_mono {α : Type} {m : M α} {h : State} {P Q : α → State → Prop} (hm : PC m h P)
    (hq : ∀ a h', P a h' → Q a h') : PC m h Q := fun a h' e => hq a h' (hm a h' e)

theorem pc_read_bind {β : Type} {f : State → M β} {h : State} {Q : β → State → Prop}
    (hf : PC (f h) h Q) : PC (getS >>= f) h Q := by
  intro b h' e
  obtain ⟨a, h1, e1, e2⟩ := bind_ok.mp e
  obtain ⟨rfl, rfl⟩ := getS_ok.mp e1
  exact hf b h' e2

theorem pc_modify_bind {β : Type} {g : State → State} {f : Unit → M β} {h : State} {Q : β → State → Prop}
    (hf : PC (f ()) (g h) Q) : PC (modS g >>= f) h Q := by
  intro b h' e
  obtain ⟨a, h1, e1, e2⟩ := bind_ok.mp e
  have := modS_ok.mp e1
  subst this
  exact hf b h' e2

theorem pc_modify {g : State → State} {h : State} {Q : Unit → State → Prop} (hq : Q () (g h)) :
    PC (modS g) h Q := by
  intro a h' e
  have := modS_ok.mp e
  subst this
  exact hq

theorem pc_throw {α : Type} {e : String} {h : State} {Q : α → State → Prop} : PC (throw e : M α) h Q :=
  fun _ _ e' => absurd e' throw_ok

/-! ## the `create_element` calls of a trace; what a computation may do to the state -/

/-- what a `create_element` call carries: name, attributes, flags -/
abbrev CrOp := QualName × List Attr × ElementFlags

def crOf : SinkOp × Output → Option CrOp
  | (.createElement n a f, _) => some (n, a, f)
  | _ => none

/-- the `create_element` calls of a trace (newest first, as the trace is) -/
def createOps (tr : List (SinkOp × Output)) : List CrOp := tr.filterMap crOf

/-- the control fields are untouched, the data of every element node survive, the trace has grown by the
`create_element` calls `cs` (newest first) and any number of other calls -/
structure Eff (h h' : State) (cs : List CrOp) : Prop where
  opened : h'.opened = h.opened
  ns : h'.nsStack = h.nsStack
  phase : h'.phase = h.phase
  dts : h'.doctypeSeen = h.doctypeSeen
  stable : Stable h.dom h'.dom
  created : createOps h'.traceRev = cs ++ createOps h.traceRev

theorem Eff.refl (h : State) : Eff h h [] := ⟨rfl, rfl, rfl, rfl, Stable.refl _, rfl⟩

theorem Eff.trans {a b c : State} {c1 c2 : List CrOp} (h1 : Eff a b c1) (h2 : Eff b c c2) : Eff a c (c2 ++ c1) :=
  ⟨h2.opened.trans h1.opened, h2.ns.trans h1.ns, h2.phase.trans h1.phase, h2.dts.trans h1.dts,
   h1.stable.trans h2.stable, by rw [h2.created, h1.created, List.append_assoc]⟩

theorem Eff.trans0 {a b c : State} {cs : List CrOp} (h1 : Eff a b []) (h2 : Eff b c cs) : Eff a c cs := by
  have := h1.trans h2
  rwa [List.append_nil] at this

theorem Eff.trans1 {a b c : State} {cs : List CrOp} (h1 : Eff a b cs) (h2 : Eff b c []) : Eff a c cs :=
  h1.trans h2

/-- one sink call -/
theorem pc_sink {op : SinkOp} {h : State} (ht : Tame op) : PC (sink op) h (fun out h' =>
    Eff h h' (crOf (op, out)).toList ∧ ∃ d, h.dom.apply op = .ok (d, out) ∧ h'.dom = d) := by
  intro out h' e
  obtain ⟨d, ha, rfl⟩ := sink_ok.mp e
  refine ⟨⟨rfl, rfl, rfl, rfl, Stable.apply ht ha, ?_⟩, d, ha, rfl⟩
  show ((op, out) :: h.traceRev).filterMap crOf = _
  rw [List.filterMap_cons]
  cases crOf (op, out) <;> rfl

/-- computations that make no `create_element` call and leave the control fields alone -/
def Quiet {α : Type} (m : M α) : Prop := ∀ h, PC m h (fun _ h' => Eff h h' [])

theorem quiet_pure {α : Type} (a : α) : Quiet (pure a : M α) := fun h => pc_pure (Eff.refl h)

theorem quiet_throw {α : Type} (e : String) : Quiet (throw e : M α) := fun _ => pc_throw

theorem quiet_bind {α β : Type} {m : M α} {f : α → M β} (hm : Quiet m) (hf : ∀ a, Quiet (f a)) :
    Quiet (m >>= f) := fun h =>
  pc_seq (hm h) fun a h1 e1 => pc_mono (hf a h1) fun _ _ e2 => e1.trans0 e2

theorem quiet_read_bind {β : Type} {f : State → M β} (hf : ∀ st, Quiet (f st)) : Quiet (getS >>= f) :=
  fun h => pc_read_bind (hf h h)

theorem quiet_sink {op : SinkOp} (ht : Tame op) (hc : ∀ out, crOf (op, out) = none) : Quiet (sink op) := by
  intro h
  refine pc_mono (pc_sink ht) ?_
  rintro out h' ⟨he, _⟩
  rw [hc out] at he
  exact he

theorem quiet_sinkUnit {op : SinkOp} (ht : Tame op) (hc : ∀ out, crOf (op, out) = none) :
    Quiet (sinkUnit op) := by
  unfold sinkUnit
  exact quiet_bind (quiet_sink ht hc) fun _ => quiet_pure _

theorem quiet_sinkNode {op : SinkOp} (ht : Tame op) (hc : ∀ out, crOf (op, out) = none) :
    Quiet (sinkNode op) := by
  unfold sinkNode
  refine quiet_bind (quiet_sink ht hc) fun out => ?_
  cases out
  case node id => exact quiet_pure _
  all_goals exact quiet_throw _

theorem quiet_parseErr (e : Err) : Quiet (parseErr e) := quiet_sinkUnit trivial (fun _ => rfl)

theorem quiet_parseErrs : ∀ es : List Err, Quiet (parseErrs es)
  | [] => quiet_pure _
  | e :: rest => by
    unfold parseErrs
    exact quiet_bind (quiet_parseErr e) fun _ => quiet_parseErrs rest

theorem quiet_currentNode (site : String) : Quiet (currentNode site) := by
  unfold currentNode
  refine quiet_read_bind fun st => ?_
  cases st.opened with
  | nil => exact quiet_throw _
  | cons x xs => exact quiet_pure _

theorem quiet_appendToDoc (c : Id) : Quiet (getS >>= fun st => sinkUnit (.append st.docHandle (.node c))) :=
  quiet_read_bind fun _ => quiet_sinkUnit trivial (fun _ => rfl)

theorem quiet_appendCommentToDoc (t : List Char) : Quiet (appendCommentToDoc t) := by
  unfold appendCommentToDoc
  exact quiet_bind (quiet_sinkNode trivial (fun _ => rfl)) fun c => quiet_appendToDoc c

theorem quiet_appendPiToDoc (t d : List Char) : Quiet (appendPiToDoc t d) := by
  unfold appendPiToDoc
  exact quiet_bind (quiet_sinkNode trivial (fun _ => rfl)) fun c => quiet_appendToDoc c

theorem quiet_appendCommentToTag (t : List Char) : Quiet (appendCommentToTag t) := by
  unfold appendCommentToTag
  exact quiet_bind (quiet_currentNode _) fun _ =>
    quiet_bind (quiet_sinkNode trivial (fun _ => rfl)) fun _ => quiet_sinkUnit trivial (fun _ => rfl)

theorem quiet_appendPiToTag (t d : List Char) : Quiet (appendPiToTag t d) := by
  unfold appendPiToTag
  exact quiet_bind (quiet_currentNode _) fun _ =>
    quiet_bind (quiet_sinkNode trivial (fun _ => rfl)) fun _ => quiet_sinkUnit trivial (fun _ => rfl)

theorem quiet_insertAppropriately (c : NodeOrText) : Quiet (insertAppropriately c) := by
  unfold insertAppropriately
  exact quiet_bind (quiet_currentNode _) fun _ => quiet_sinkUnit trivial (fun _ => rfl)

theorem quiet_appendText (t : List Char) : Quiet (appendText t) := quiet_insertAppropriately _

theorem quiet_appendDoctypeToDoc (n p s : Option (List Char)) : Quiet (appendDoctypeToDoc n p s) :=
  quiet_sinkUnit trivial (fun _ => rfl)

theorem quiet_popAll : ∀ l : List Id, Quiet (popAll l)
  | [] => quiet_pure _
  | x :: rest => by
    unfold popAll
    exact quiet_bind (quiet_sinkUnit trivial (fun _ => rfl)) fun _ => quiet_popAll rest

/-! ## element nodes and the correspondence of the two stacks -/

/-- `x` is an element node of the arena with the qualified name `n` and the attribute list `as` -/
def IsElem (d : Dom) (n : QName) (as : List XAttr) (x : Id) : Prop :=
  ∃ tc ip, d.dataOf x = some (.element (toQual n) (as.map toAttr) tc ip)

theorem IsElem.stable {d d' : Dom} {n : QName} {as : List XAttr} {x : Id} (h : IsElem d n as x)
    (hs : Stable d d') : IsElem d' n as x := by
  obtain ⟨tc, ip, hd⟩ := h
  exact ⟨tc, ip, (hs.data x (H5V.Lemmas.XmlTBH.isElement_of_data hd)).trans hd⟩

theorem IsElem.nameOf {d : Dom} {n : QName} {as : List XAttr} {x : Id} (h : IsElem d n as x) :
    nameOf d x = some (n.ns, n.loc) := by
  obtain ⟨tc, ip, hd⟩ := h
  exact nameOf_of_data hd

theorem IsElem.named_iff {d : Dom} {n nm : QName} {as : List XAttr} {x : Id} (h : IsElem d n as x) :
    Named d nm x ↔ sameExpanded n nm = true := by
  unfold Named sameExpanded
  rw [h.nameOf]
  simp only [Option.some.injEq, Prod.mk.injEq, Bool.and_eq_true, beq_iff_eq]

/-- the frames of the tree-valued model (name and attributes; top first) against the handles -/
def Match (d : Dom) : List (QName × List XAttr) → List Id → Prop
  | [], [] => True
  | f :: fs, x :: xs => IsElem d f.1 f.2 x ∧ Match d fs xs
  | [], _ :: _ => False
  | _ :: _, [] => False

theorem Match.stable {d d' : Dom} (hs : Stable d d') : ∀ {fs : List (QName × List XAttr)} {xs : List Id},
    Match d fs xs → Match d' fs xs
  | [], [], _ => trivial
  | _ :: _, _ :: _, ⟨h1, h2⟩ => ⟨h1.stable hs, Match.stable hs h2⟩
  | [], _ :: _, h => h.elim
  | _ :: _, [], h => h.elim

theorem Match.length {d : Dom} : ∀ {fs : List (QName × List XAttr)} {xs : List Id},
    Match d fs xs → fs.length = xs.length
  | [], [], _ => rfl
  | _ :: _, _ :: _, ⟨_, h2⟩ => by simp [Match.length h2]
  | [], _ :: _, h => h.elim
  | _ :: _, [], h => h.elim

theorem Match.nil_left {d : Dom} {xs : List Id} (h : Match d [] xs) : xs = [] := by
  cases xs with
  | nil => rfl
  | cons _ _ => exact h.elim

theorem Match.nil_right {d : Dom} {fs : List (QName × List XAttr)} (h : Match d fs []) : fs = [] := by
  cases fs with
  | nil => rfl
  | cons _ _ => exact h.elim

theorem Match.cons_left {d : Dom} {f : QName × List XAttr} {fs : List (QName × List XAttr)} {xs : List Id}
    (h : Match d (f :: fs) xs) : ∃ x rest, xs = x :: rest ∧ IsElem d f.1 f.2 x ∧ Match d fs rest := by
  cases xs with
  | nil => exact h.elim
  | cons x rest => exact ⟨x, rest, rfl, h.1, h.2⟩

theorem Match.any_iff {d : Dom} (nm : QName) : ∀ {fs : List (QName × List XAttr)} {xs : List Id},
    Match d fs xs → ((∃ x ∈ xs, Named d nm x) ↔ fs.any (fun f => sameExpanded f.1 nm) = true)
  | [], [], _ => by simp
  | f :: fs, x :: xs, ⟨h1, h2⟩ => by
    have ih := Match.any_iff nm h2
    simp only [List.any_cons, Bool.or_eq_true, ← ih, ← h1.named_iff (nm := nm)]
    constructor
    · rintro ⟨y, hy, hn⟩
      rcases List.mem_cons.mp hy with rfl | hy
      · exact Or.inl hn
      · exact Or.inr ⟨y, hy, hn⟩
    · rintro (hn | ⟨y, hy, hn⟩)
      · exact ⟨x, List.mem_cons_self, hn⟩
      · exact ⟨y, List.mem_cons_of_mem _ hy, hn⟩
  | [], _ :: _, h => h.elim
  | _ :: _, [], h => h.elim

theorem Match.all_named {d : Dom} : ∀ {fs : List (QName × List XAttr)} {xs : List Id},
    Match d fs xs → ∀ x ∈ xs, ∃ p, nameOf d x = some p
  | [], [], _ => fun _ hx => nomatch hx
  | _ :: _, _ :: _, ⟨h1, h2⟩ => fun y hy => by
    rcases List.mem_cons.mp hy with rfl | hy
    · exact ⟨_, h1.nameOf⟩
    · exact Match.all_named h2 y hy
  | [], _ :: _, h => h.elim
  | _ :: _, [], h => h.elim

/-! ## the simulation relation -/

/-- name and attributes of the open elements of the tree-valued model, top first -/
def frames (s : TState) : List (QName × List XAttr) := s.opened.map (fun f => (f.name, f.attrs))

/-- what `create_element(&self.sink, name, attrs)` hands to the sink for a bound tag: the converted name
and attributes and the flags `markup5ever::interface::create_element` computes from them -/
def crop (n : QName) (as : List XAttr) : CrOp :=
  (toQual n, as.map toAttr, elementFlags (toQual n) (as.map toAttr))

/-- **the simulation** between the tree-valued and the handle-level model -/
structure BSim (s : TState) (h : State) : Prop where
  phase : s.phase = h.phase
  ns : s.nsStack = h.nsStack
  dts : s.doctypeSeen = h.doctypeSeen
  opened : Match h.dom (frames s) h.opened
  created : createOps h.traceRev = s.created.map (fun c => crop c.name c.attrs)

/-- a quiet computation on the handle side against a change of the tree-valued state that leaves the
compared fields alone -/
theorem BSim.eff {s s1 : TState} {h h1 : State} (hb : BSim s h) (he : Eff h h1 [])
    (hp : s1.phase = s.phase) (hn : s1.nsStack = s.nsStack) (hd : s1.doctypeSeen = s.doctypeSeen)
    (hf : frames s1 = frames s) (hc : s1.created = s.created) : BSim s1 h1 :=
  ⟨by rw [hp, he.phase]; exact hb.phase, by rw [hn, he.ns]; exact hb.ns, by rw [hd, he.dts]; exact hb.dts,
   by rw [hf, he.opened]; exact hb.opened.stable he.stable,
   by rw [he.created, hc]; exact hb.created⟩

theorem BSim.quiet {s : TState} {h h1 : State} (hb : BSim s h) (he : Eff h h1 []) : BSim s h1 :=
  hb.eff he rfl rfl rfl rfl rfl

theorem BSim.opened_nil_iff {s : TState} {h : State} (hb : BSim s h) : s.opened = [] ↔ h.opened = [] := by
  constructor
  · intro h0
    have := hb.opened
    rw [frames, h0] at this
    exact this.nil_left
  · intro h0
    have := hb.opened
    rw [h0] at this
    have := this.nil_right
    cases hs : s.opened with
    | nil => rfl
    | cons f r => rw [frames, hs] at this; cases this

/-! ## sink answers -/

theorem nameOf_stable {d d' : Dom} (hs : Stable d d') {x : Id} {p : List Char × List Char}
    (hn : nameOf d x = some p) : nameOf d' x = some p := by
  have he : d.isElement x = true := by
    unfold nameOf at hn
    unfold Dom.isElement
    cases hd : d.dataOf x with
    | none => simp [hd] at hn
    | some v => cases v <;> simp_all
  unfold nameOf at hn ⊢
  rw [hs.data x he]
  exact hn

theorem named_stable_iff {d d' : Dom} (hs : Stable d d') {x : Id} (nm : QName)
    (hx : ∃ p, nameOf d x = some p) : Named d' nm x ↔ Named d nm x := by
  obtain ⟨p, hp⟩ := hx
  unfold Named
  rw [hp, nameOf_stable hs hp]

theorem pc_currentNode (site : String) (h : State) :
    PC (currentNode site) h (fun x h' => h' = h ∧ ∃ rest, h.opened = x :: rest) := by
  unfold currentNode
  refine pc_read_bind ?_
  cases h.opened with
  | nil => exact pc_throw
  | cons x xs => exact pc_pure ⟨rfl, xs, rfl⟩

/-- `elem_name` of an element node answers its expanded name -/
theorem pc_elemName {h : State} {x : Id} {p : List Char × List Char} (hn : nameOf h.dom x = some p) :
    PC (elemName x) h (fun q h' => q = p ∧ Eff h h' []) := by
  unfold elemName
  refine pc_seq (pc_sink trivial) ?_
  rintro out h1 ⟨he, d, ha, _⟩
  rw [apply_elemName hn] at ha
  cases ha
  exact pc_pure ⟨rfl, he⟩

theorem pc_createElementOp (name : QualName) (attrs : List Attr) (flags : ElementFlags) (h : State) :
    PC (sinkNode (.createElement name attrs flags)) h (fun c h' => Eff h h' [(name, attrs, flags)] ∧
      ∃ tc, h'.dom.dataOf c = some (.element name attrs tc flags.mathmlIP)) := by
  unfold sinkNode
  refine pc_seq (pc_sink trivial) ?_
  rintro out h1 ⟨he, d, ha, hd⟩
  have hrfl : h.dom.apply (.createElement name attrs flags) =
      .ok ((h.dom.createElement name attrs flags).1, .node (h.dom.createElement name attrs flags).2) := rfl
  rw [hrfl] at ha
  cases ha
  obtain ⟨_, tc, h2⟩ := createElement_fresh h.dom name attrs flags
  refine pc_pure ⟨he, tc, ?_⟩
  rw [hd]
  exact h2

/-- `create_element`: one call with the converted name, attributes and the computed flags; the answer is
an element node carrying that name and those attributes -/
theorem pc_createElement (b : Bound) (h : State) :
    PC (createElement b) h (fun c h' => Eff h h' [crop b.name b.attrs] ∧ IsElem h'.dom b.name b.attrs c) :=
  pc_mono (pc_createElementOp (toQual b.name) (b.attrs.map toAttr)
    (elementFlags (toQual b.name) (b.attrs.map toAttr)) h) (fun _ _ ⟨he, tc, hd⟩ => ⟨he, tc, _, hd⟩)

theorem pc_anyNamed (nm : QName) : ∀ (l : List Id) (h : State), (∀ x ∈ l, ∃ p, nameOf h.dom x = some p) →
    PC (anyNamed nm l) h (fun b h' => Eff h h' [] ∧ (b = true ↔ ∃ x ∈ l, Named h.dom nm x)) := by
  intro l
  induction l with
  | nil => intro h _; exact pc_pure ⟨Eff.refl h, by simp⟩
  | cons a rest ih =>
    intro h hl
    obtain ⟨p, hp⟩ := hl a List.mem_cons_self
    unfold anyNamed
    refine pc_seq (pc_elemName hp) ?_
    intro q h1 hqe
    obtain ⟨hq, he⟩ := hqe
    subst q
    show PC (if (p.1 == nm.ns && p.2 == nm.loc) = true then pure true else anyNamed nm rest) h1 _
    by_cases hb : (p.1 == nm.ns && p.2 == nm.loc) = true
    · rw [if_pos hb]
      refine pc_pure ⟨he, iff_of_true rfl ⟨a, List.mem_cons_self, ?_⟩⟩
      simp only [Bool.and_eq_true, beq_iff_eq] at hb
      unfold Named
      rw [hp, ← hb.1, ← hb.2]
    · rw [if_neg hb]
      have hl1 : ∀ x ∈ rest, ∃ p, nameOf h1.dom x = some p := fun x hx => by
        obtain ⟨q, hq⟩ := hl x (List.mem_cons_of_mem _ hx)
        exact ⟨q, nameOf_stable he.stable hq⟩
      have hna : ¬ Named h.dom nm a := by
        intro hn
        unfold Named at hn
        rw [hp] at hn
        simp only [Option.some.injEq] at hn
        rw [hn] at hb
        simp at hb
      refine pc_mono (ih h1 hl1) ?_
      rintro b h2 ⟨he2, hb2⟩
      refine ⟨he.trans0 he2, hb2.trans ?_⟩
      constructor
      · rintro ⟨x, hx, hn⟩
        exact ⟨x, List.mem_cons_of_mem _ hx,
          (named_stable_iff he.stable nm (hl x (List.mem_cons_of_mem _ hx))).mp hn⟩
      · rintro ⟨x, hx, hn⟩
        rcases List.mem_cons.mp hx with rfl | hx
        · exact absurd hn hna
        · exact ⟨x, hx, (named_stable_iff he.stable nm (hl x (List.mem_cons_of_mem _ hx))).mpr hn⟩

theorem pc_tagInOpenElems (nm : QName) (h : State) (hl : ∀ x ∈ h.opened, ∃ p, nameOf h.dom x = some p) :
    PC (tagInOpenElems nm) h (fun b h' => Eff h h' [] ∧ (b = true ↔ ∃ x ∈ h.opened, Named h.dom nm x)) := by
  unfold tagInOpenElems
  refine pc_read_bind ?_
  refine pc_mono (pc_anyNamed nm h.opened.reverse h (fun x hx => hl x (List.mem_reverse.mp hx))) ?_
  rintro b h' ⟨he, hb⟩
  refine ⟨he, hb.trans ?_⟩
  constructor
  · rintro ⟨x, hx, hn⟩; exact ⟨x, List.mem_reverse.mp hx, hn⟩
  · rintro ⟨x, hx, hn⟩; exact ⟨x, List.mem_reverse.mpr hx, hn⟩

theorem pc_currentNodeIs {h : State} {x : Id} {xs : List Id} {n : QName} {as : List XAttr} (nm : QName)
    (ho : h.opened = x :: xs) (hx : IsElem h.dom n as x) :
    PC (currentNodeIs nm) h (fun b h' => b = sameExpanded n nm ∧ Eff h h' []) := by
  unfold currentNodeIs
  refine pc_seq (pc_currentNode _ h) ?_
  rintro y _ ⟨rfl, rest, ho'⟩
  rw [ho] at ho'
  cases ho'
  refine pc_seq (pc_elemName hx.nameOf) ?_
  rintro _ h1 ⟨rfl, he⟩
  exact pc_pure ⟨rfl, he⟩

/-! ## the tree-valued side, function by function -/

theorem exc_map_ok {ε α β : Type} {x : Except ε α} {f : α → β} {b : β} (e : x.map f = .ok b) :
    ∃ a, x = .ok a ∧ b = f a := by
  cases x with
  | error _ => cases e
  | ok a => cases e; exact ⟨a, rfl, rfl⟩

theorem exc_bind_ok {ε α β : Type} {x : Except ε α} {f : α → Except ε β} {b : β} (e : x.bind f = .ok b) :
    ∃ a, x = .ok a ∧ f a = .ok b := by
  cases x with
  | error _ => cases e
  | ok a => exact ⟨a, rfl, e⟩

/-- the fields `BSim` compares are equal -/
structure TEq (s s1 : TState) : Prop where
  phase : s1.phase = s.phase
  ns : s1.nsStack = s.nsStack
  dts : s1.doctypeSeen = s.doctypeSeen
  fr : frames s1 = frames s
  created : s1.created = s.created

theorem TEq.refl (s : TState) : TEq s s := ⟨rfl, rfl, rfl, rfl, rfl⟩

theorem TEq.err (s : TState) (es : List Err) : TEq s (s.err es) := ⟨rfl, rfl, rfl, rfl, rfl⟩

theorem TEq.appendDoc (s : TState) (n : H5V.Model.XmlTB.Node) : TEq s (s.appendDoc n) := by
  unfold H5V.Model.XmlTB.State.appendDoc
  split <;> exact ⟨rfl, rfl, rfl, rfl, rfl⟩

theorem BSim.teq {s s1 : TState} {h h1 : State} (hb : BSim s h) (ht : TEq s s1) (he : Eff h h1 []) :
    BSim s1 h1 := hb.eff he ht.phase ht.ns ht.dts ht.fr ht.created

theorem xappendCur {s s1 : TState} {upd : List H5V.Model.XmlTB.Node → List H5V.Model.XmlTB.Node}
    (e : H5V.Model.XmlTB.appendCur s upd = .ok s1) : TEq s s1 ∧ s.opened ≠ [] := by
  unfold H5V.Model.XmlTB.appendCur at e
  cases ho : s.opened with
  | nil => rw [ho] at e; cases e
  | cons f rest =>
    rw [ho] at e
    cases e
    exact ⟨⟨rfl, rfl, rfl, by rw [frames, frames, ho]; rfl, rfl⟩, fun h => nomatch h⟩

theorem xpop {s s1 : TState} (e : H5V.Model.XmlTB.pop s = .ok s1) :
    ∃ f rest, frames s = f :: rest ∧ frames s1 = rest ∧ s1.nsStack = s.nsStack.tail ∧ s1.phase = s.phase ∧
      s1.doctypeSeen = s.doctypeSeen ∧ s1.created = s.created := by
  unfold H5V.Model.XmlTB.pop at e
  cases ho : s.opened with
  | nil => rw [ho] at e; cases e
  | cons f rest =>
    cases rest with
    | nil =>
      rw [ho] at e
      cases e
      exact ⟨(f.name, f.attrs), [], by rw [frames, ho]; rfl, rfl, rfl, rfl, rfl, rfl⟩
    | cons g r =>
      rw [ho] at e
      cases e
      exact ⟨(f.name, f.attrs), (g :: r).map (fun f => (f.name, f.attrs)), by rw [frames, ho]; rfl,
        rfl, rfl, rfl, rfl, rfl⟩

theorem xinsertTag {s s1 : TState} {b : Bound} (e : H5V.Model.XmlTB.insertTag s b = .ok s1) :
    s.opened ≠ [] ∧ frames s1 = (b.name, b.attrs) :: frames s ∧ s1.created = ⟨b.name, b.attrs⟩ :: s.created ∧
      s1.nsStack = s.nsStack ∧ s1.phase = s.phase ∧ s1.doctypeSeen = s.doctypeSeen := by
  unfold H5V.Model.XmlTB.insertTag at e
  cases ho : s.opened with
  | nil => rw [ho] at e; cases e
  | cons f rest =>
    rw [ho] at e
    cases e
    exact ⟨fun h => (nomatch h), by rw [frames, frames, ho]; rfl, rfl, rfl, rfl, rfl⟩

theorem xpopUntil_cases {nm : QName} {n : Nat} {s s1 : TState}
    (e : H5V.Model.XmlTB.popUntil nm n s = .ok s1) :
    ∃ f rest, s.opened = f :: rest ∧
      ((sameExpanded f.name nm = true ∧ s1 = s) ∨
       (sameExpanded f.name nm = false ∧ ∃ n' s2, n = n' + 1 ∧ H5V.Model.XmlTB.pop s = .ok s2 ∧
          H5V.Model.XmlTB.popUntil nm n' s2 = .ok s1)) := by
  cases n with
  | zero =>
    unfold H5V.Model.XmlTB.popUntil at e
    cases ho : s.opened with
    | nil => rw [ho] at e; cases e
    | cons f rest =>
      rw [ho] at e
      refine ⟨f, rest, rfl, ?_⟩
      by_cases hm : sameExpanded f.name nm = true
      · simp only [hm, if_true] at e
        cases e
        exact Or.inl ⟨hm, rfl⟩
      · simp only [hm] at e
        cases e
  | succ n' =>
    unfold H5V.Model.XmlTB.popUntil at e
    cases ho : s.opened with
    | nil => rw [ho] at e; cases e
    | cons f rest =>
      rw [ho] at e
      refine ⟨f, rest, rfl, ?_⟩
      by_cases hm : sameExpanded f.name nm = true
      · simp only [hm, if_true] at e
        cases e
        exact Or.inl ⟨hm, rfl⟩
      · simp only [hm] at e
        obtain ⟨s2, e1, e2⟩ := exc_bind_ok e
        exact Or.inr ⟨by simpa using hm, n', s2, rfl, e1, e2⟩

/-! ## the stack-changing functions, pairwise -/

theorem sim_pop {s s1 : TState} {h : State} (hb : BSim s h) (e : H5V.Model.XmlTB.pop s = .ok s1) :
    PC pop h (fun _ h1 => BSim s1 h1) := by
  obtain ⟨f, rest, hf, hf1, hn1, hp1, hd1, hc1⟩ := xpop e
  have hm := hb.opened
  rw [hf] at hm
  obtain ⟨x, xs, ho, hx, hms⟩ := hm.cons_left
  unfold pop
  refine pc_modify_bind (pc_read_bind ?_)
  simp only [ho]
  refine pc_modify_bind ?_
  refine pc_seq (quiet_sinkUnit (op := .pop x) trivial (fun _ => rfl) _) ?_
  intro _ h2 he
  refine pc_pure ?_
  exact ⟨by rw [hp1, he.phase]; exact hb.phase, by rw [hn1, he.ns, hb.ns], by rw [hd1, he.dts]; exact hb.dts,
    by rw [hf1, he.opened]; exact hms.stable he.stable, by rw [he.created, hc1]; exact hb.created⟩

theorem BSim.top {s : TState} {h : State} (hb : BSim s h) {f : H5V.Model.XmlTB.Frame}
    {rest : List H5V.Model.XmlTB.Frame} (ho : s.opened = f :: rest) :
    ∃ x xs, h.opened = x :: xs ∧ IsElem h.dom f.name f.attrs x := by
  have hm := hb.opened
  rw [frames, ho] at hm
  obtain ⟨x, xs, hxo, hx, _⟩ := hm.cons_left
  exact ⟨x, xs, hxo, hx⟩

theorem sim_popUntil (nm : QName) : ∀ (n m : Nat) {s s1 : TState} {h : State}, BSim s h →
    H5V.Model.XmlTB.popUntil nm n s = .ok s1 → PC (popUntil nm m) h (fun _ h1 => BSim s1 h1) := by
  intro n
  induction n with
  | zero =>
    intro m s s1 h hb e
    obtain ⟨f, rest, ho, hc⟩ := xpopUntil_cases e
    rcases hc with ⟨hm, rfl⟩ | ⟨_, n', _, hn, _⟩
    · cases m with
      | zero => unfold popUntil; exact pc_throw
      | succ m =>
        obtain ⟨x, xs, hxo, hx⟩ := hb.top ho
        unfold popUntil
        refine pc_seq (pc_currentNodeIs nm hxo hx) ?_
        rintro b h1 ⟨rfl, he⟩
        rw [if_pos hm]
        exact pc_pure (hb.quiet he)
    · cases hn
  | succ n ih =>
    intro m s s1 h hb e
    obtain ⟨f, rest, ho, hc⟩ := xpopUntil_cases e
    cases m with
    | zero => unfold popUntil; exact pc_throw
    | succ m =>
      obtain ⟨x, xs, hxo, hx⟩ := hb.top ho
      unfold popUntil
      refine pc_seq (pc_currentNodeIs nm hxo hx) ?_
      rintro b h1 ⟨rfl, he⟩
      rcases hc with ⟨hm, rfl⟩ | ⟨hm, n', s2, hn, e1, e2⟩
      · rw [if_pos hm]
        exact pc_pure (hb.quiet he)
      · rw [if_neg (by rw [hm]; exact Bool.false_ne_true)]
        cases hn
        refine pc_seq (sim_pop (hb.quiet he) e1) ?_
        intro _ h2 hb2
        exact ih m hb2 e2

theorem sim_closeTag {s s1 : TState} {h : State} (nm : QName) (hb : BSim s h)
    (e : H5V.Model.XmlTB.closeTag s nm = .ok s1) : PC (closeTag nm) h (fun _ h1 => BSim s1 h1) := by
  unfold H5V.Model.XmlTB.closeTag at e
  cases ho : s.opened with
  | nil => rw [ho] at e; cases e
  | cons f rest =>
    obtain ⟨x, xs, hxo, hx⟩ := hb.top ho
    rw [ho] at e
    simp only [] at e
    generalize hs0 : (if f.name.loc ≠ nm.loc then s.err [Err.currentMismatch] else s) = s0 at e
    have ht : TEq s s0 := by
      subst hs0
      split
      · exact TEq.err s _
      · exact TEq.refl s
    have hop : s0.opened.any (fun g => sameExpanded g.name nm) =
        (frames s).any (fun f => sameExpanded f.1 nm) := by
      rw [← ht.fr, frames, List.any_map]
      rfl
    have hlen : s0.opened.length = h.opened.length := by
      have := hb.opened.length
      rw [← ht.fr, frames, List.length_map] at this
      exact this
    unfold closeTag
    refine pc_seq (pc_currentNode _ h) ?_
    rintro y _ ⟨rfl, rest', ho'⟩
    rw [hxo] at ho'
    cases ho'
    refine pc_seq (pc_elemName hx.nameOf) ?_
    rintro _ h1 ⟨rfl, he1⟩
    show PC ((if (f.name.loc != nm.loc) = true then parseErr .currentMismatch else pure ()) >>= _) h1 _
    have hmid : PC (if (f.name.loc != nm.loc) = true then parseErr .currentMismatch else pure ()) h1
        (fun _ h2 => Eff h1 h2 []) := by
      by_cases hc : (f.name.loc != nm.loc) = true
      · rw [if_pos hc]; exact quiet_parseErr _ h1
      · rw [if_neg hc]; exact quiet_pure _ h1
    refine pc_seq hmid ?_
    intro _ h2 he2
    have hb2 : BSim s0 h2 := hb.teq ht (he1.trans0 he2)
    refine pc_seq (pc_tagInOpenElems nm h2 hb2.opened.all_named) ?_
    rintro b h3 ⟨he3, hb3⟩
    have hb3' : BSim s0 h3 := hb2.quiet he3
    have hbe : b = s0.opened.any (fun g => sameExpanded g.name nm) := by
      have h1' := hb3.trans (hb2.opened.any_iff nm)
      rw [ht.fr, ← hop] at h1'
      cases b <;> cases hq : s0.opened.any (fun g => sameExpanded g.name nm) <;> simp_all
    subst hbe
    by_cases hany : s0.opened.any (fun g => sameExpanded g.name nm) = true
    · rw [if_pos hany] at e
      rw [if_pos hany]
      obtain ⟨s2, e1, e2⟩ := exc_bind_ok e
      refine pc_read_bind (pc_seq (sim_popUntil nm _ _ hb3' e1) ?_)
      intro _ h4 hb4
      refine pc_seq (sim_pop hb4 e2) ?_
      intro _ h5 hb5
      exact pc_pure hb5
    · rw [if_neg hany] at e
      rw [if_neg hany]
      cases e
      exact pc_pure hb3'

theorem sim_insertTag {s s1 : TState} {h : State} {b : Bound} (hb : BSim s h)
    (e : H5V.Model.XmlTB.insertTag s b = .ok s1) : PC (insertTag b) h (fun _ h1 => BSim s1 h1) := by
  obtain ⟨_, hf1, hc1, hn1, hp1, hd1⟩ := xinsertTag e
  unfold insertTag
  refine pc_seq (pc_createElement b h) ?_
  rintro c h1 ⟨he1, hc⟩
  refine pc_seq (quiet_insertAppropriately _ h1) ?_
  intro _ h2 he2
  have he := he1.trans1 he2
  unfold push
  refine pc_modify ?_
  exact ⟨by rw [hp1]; exact hb.phase.trans he.phase.symm, by rw [hn1]; exact hb.ns.trans he.ns.symm,
    by rw [hd1]; exact hb.dts.trans he.dts.symm,
    by rw [hf1]
       exact ⟨hc.stable he2.stable, by rw [he.opened]; exact hb.opened.stable he.stable⟩,
    by rw [hc1, List.map_cons, ← hb.created]; exact he.created⟩

/-- `process_namespaces` against `applyNs` -/
theorem applyNs_dts (cfg : TbCfg) (s : TState) (t : Tag) :
    (H5V.Model.XmlTB.applyNs cfg s t).1.doctypeSeen = s.doctypeSeen := by
  unfold H5V.Model.XmlTB.applyNs
  simp only []
  split <;> rfl

theorem applyNs_frames (cfg : TbCfg) (s : TState) (t : Tag) :
    frames (H5V.Model.XmlTB.applyNs cfg s t).1 = frames s := by
  unfold frames
  rw [H5V.Lemmas.XmlTB.applyNs_opened]

theorem sim_processNamespaces (cfg : TbCfg) (t : Tag) {s : TState} {h : State} (hb : BSim s h) :
    PC (processNamespaces cfg t) h (fun b h' =>
      b = H5V.Model.XmlTB.processNamespaces cfg s.nsStack t ∧ BSim (H5V.Model.XmlTB.applyNs cfg s t).1 h') := by
  unfold processNamespaces
  refine pc_read_bind ?_
  show PC (parseErrs _ >>= _) h _
  refine pc_seq (quiet_parseErrs _ h) ?_
  intro _ h1 he
  have hb1 : BSim s h1 := hb.quiet he
  rw [← hb.ns]
  by_cases hp : pushesMap t.kind (H5V.Model.XmlTB.processNamespaces cfg s.nsStack t).name = true
  · simp only [hp, if_true]
    refine pc_modify_bind (pc_pure ⟨rfl, ?_⟩)
    exact ⟨by rw [H5V.Lemmas.XmlTB.applyNs_phase]; exact hb1.phase,
      by rw [H5V.Lemmas.XmlTB.applyNs_nsStack, if_pos hp, hb1.ns],
      by rw [applyNs_dts]; exact hb1.dts,
      by rw [applyNs_frames]; exact hb1.opened,
      by rw [H5V.Lemmas.XmlTB.applyNs_created]; exact hb1.created⟩
  · simp only [hp]
    refine pc_bind (pc_pure (pc_pure ⟨rfl, ?_⟩))
    exact ⟨by rw [H5V.Lemmas.XmlTB.applyNs_phase]; exact hb1.phase,
      by rw [H5V.Lemmas.XmlTB.applyNs_nsStack, if_neg hp, hb1.ns],
      by rw [applyNs_dts]; exact hb1.dts,
      by rw [applyNs_frames]; exact hb1.opened,
      by rw [H5V.Lemmas.XmlTB.applyNs_created]; exact hb1.created⟩

/-! ## creating an element -/

theorem Match.cons {d : Dom} {n : QName} {as : List XAttr} {x : Id} {fs : List (QName × List XAttr)} {xs : List Id}
    (h1 : IsElem d n as x) (h2 : Match d fs xs) : Match d ((n, as) :: fs) (x :: xs) := ⟨h1, h2⟩

theorem created_cons {h0 h3 : State} {s1 : TState} {n : QName} {as : List XAttr} {cr : List Created}
    (he : createOps h3.traceRev = [crop n as] ++ createOps h0.traceRev)
    (hb : createOps h0.traceRev = s1.created.map (fun c => crop c.name c.attrs))
    (hcr : cr = ⟨n, as⟩ :: s1.created) : createOps h3.traceRev = cr.map (fun c => crop c.name c.attrs) := by
  subst hcr
  rw [he, hb]
  rfl

theorem BSim.setPhase {s : TState} {h : State} (hb : BSim s h) (p : Phase) :
    BSim { s with phase := p } { h with phase := p } := ⟨rfl, hb.ns, hb.dts, hb.opened, hb.created⟩

/-- one `create_element`, nothing pushed -/
theorem BSim.created1 {s1 s' : TState} {h1 h' : State} {n : QName} {as : List XAttr} (hb : BSim s1 h1)
    (he : Eff h1 h' [crop n as]) (hp : s'.phase = s1.phase) (hn : s'.nsStack = s1.nsStack)
    (hd : s'.doctypeSeen = s1.doctypeSeen) (hf : frames s' = frames s1)
    (hc : s'.created = ⟨n, as⟩ :: s1.created) : BSim s' h' :=
  ⟨by rw [hp, he.phase]; exact hb.phase, by rw [hn, he.ns]; exact hb.ns, by rw [hd, he.dts]; exact hb.dts,
   by rw [hf, he.opened]; exact hb.opened.stable he.stable, created_cons he.created hb.created hc⟩

/-- one `create_element`, the new element pushed -/
theorem BSim.created_push {s1 s' : TState} {h1 h' : State} {n : QName} {as : List XAttr} {c : Id}
    (hb : BSim s1 h1) (he : Eff h1 h' [crop n as]) (hc : IsElem h'.dom n as c) (hp : s'.phase = s1.phase)
    (hn : s'.nsStack = s1.nsStack) (hd : s'.doctypeSeen = s1.doctypeSeen)
    (hf : frames s' = (n, as) :: frames s1) (hcr : s'.created = ⟨n, as⟩ :: s1.created) :
    BSim s' { h' with opened := c :: h'.opened } :=
  ⟨by rw [hp]; exact hb.phase.trans he.phase.symm, by rw [hn]; exact hb.ns.trans he.ns.symm,
   by rw [hd]; exact hb.dts.trans he.dts.symm,
   by rw [hf]; exact Match.cons hc (by rw [he.opened]; exact hb.opened.stable he.stable),
   created_cons he.created hb.created hcr⟩

theorem pc_appendTagToDoc (b : Bound) (h : State) :
    PC (appendTagToDoc b) h (fun c h' => Eff h h' [crop b.name b.attrs] ∧ IsElem h'.dom b.name b.attrs c) := by
  unfold appendTagToDoc
  refine pc_seq (pc_createElement b h) ?_
  rintro c h1 ⟨he1, hc⟩
  refine pc_read_bind ?_
  refine pc_seq (quiet_sinkUnit (op := .append h1.docHandle (.node c)) trivial (fun _ => rfl) h1) ?_
  intro _ h2 he2
  exact pc_pure ⟨he1.trans1 he2, hc.stable he2.stable⟩

/-! ## `step`, phase by phase -/

/-- what `step` leaves: the simulation — for `Reprocess` (always `(End, Eof)`) once the phase is set -/
def StepPostB (s' : TState) (r : StepResult) (h1 : State) : Prop :=
  match r with
  | .reprocess p t => p = .end_ ∧ t = .eof ∧ BSim s' { h1 with phase := .end_ }
  | _ => BSim s' h1

theorem pc_done {s' : TState} {h : State} {m : M Unit} (hm : PC m h (fun _ h1 => BSim s' h1)) :
    PC (m >>= fun _ => pure StepResult.done) h (StepPostB s') :=
  pc_seq hm fun _ _ hb => pc_pure hb

theorem pc_peDone {s : TState} {h : State} (hb : BSim s h) (e : Err) (es : List Err) :
    PC (parseErr e >>= fun _ => pure StepResult.done) h (StepPostB (s.err es)) :=
  pc_done (pc_mono (quiet_parseErr e h) fun _ _ he => hb.teq (TEq.err s es) he)

theorem sim_endIf {s : TState} {h : State} (hb : BSim s h) :
    PC endIfNoOpenElems h (fun _ h' => BSim (H5V.Model.XmlTB.setEndIfEmpty s) h') := by
  unfold endIfNoOpenElems
  refine pc_modify ?_
  unfold H5V.Model.XmlTB.setEndIfEmpty
  have h1 : s.opened.isEmpty = h.opened.isEmpty := by
    have := hb.opened_nil_iff
    cases hs : s.opened <;> cases hh : h.opened <;> simp_all
  by_cases hq : h.opened.isEmpty = true
  · rw [if_pos (h1.trans hq), if_pos hq]
    exact ⟨rfl, hb.ns, hb.dts, hb.opened, hb.created⟩
  · rw [if_neg (by rw [h1]; exact hq), if_neg hq]
    exact hb

theorem bsim_stepStart (cfg : TbCfg) {s s' : TState} {h : State} (hb : BSim s h) (hp : s.phase = .start)
    (tok : Token) (e : H5V.Model.XmlTB.step cfg s tok = .ok s') : PC (step cfg .start tok) h (StepPostB s') := by
  unfold H5V.Model.XmlTB.step at e
  simp only [hp] at e
  cases tok with
  | tag t =>
    obtain ⟨k, n, as⟩ := t
    cases k with
    | start =>
      cases e
      show PC (processNamespaces cfg ⟨.start, n, as⟩ >>= _) h _
      refine pc_seq (sim_processNamespaces cfg _ hb) ?_
      rintro b h1 ⟨rfl, hb1⟩
      unfold setPhase
      refine pc_modify_bind ?_
      refine pc_seq (pc_appendTagToDoc _ _) ?_
      rintro c h3 ⟨he3, hc3⟩
      unfold push
      refine pc_modify_bind (pc_pure ?_)
      exact BSim.created_push (hb1.setPhase .main) he3 hc3 rfl rfl rfl rfl rfl
    | empty =>
      cases e
      show PC (processNamespaces cfg ⟨.empty, n, as⟩ >>= _) h _
      refine pc_seq (sim_processNamespaces cfg _ hb) ?_
      rintro b h1 ⟨rfl, hb1⟩
      unfold setPhase
      refine pc_modify_bind ?_
      refine pc_seq (pc_appendTagToDoc _ _) ?_
      rintro c h3 ⟨he3, hc3⟩
      refine pc_seq (quiet_sinkUnit (op := .pop c) trivial (fun _ => rfl) h3) ?_
      intro _ h4 he4
      refine pc_pure ?_
      exact BSim.created1 (hb1.setPhase .end_) (he3.trans1 he4) rfl rfl rfl rfl rfl
    | end_ => cases e; exact pc_peDone hb _ _
    | short => cases e; exact pc_peDone hb _ _
  | doctype n p sy =>
    show PC (getS >>= _) h _
    refine pc_read_bind (pc_modify_bind ?_)
    have hb0 : BSim { s with doctypeSeen := true } { h with doctypeSeen := true } :=
      ⟨hb.phase, hb.ns, rfl, hb.opened, hb.created⟩
    refine pc_bind ?_
    by_cases hs : s.doctypeSeen = true
    · have hs' : h.doctypeSeen = true := hb.dts ▸ hs
      simp only [hs, if_true] at e
      cases e
      simp only [hs', if_true]
      refine pc_mono (quiet_parseErr _ _) ?_
      intro _ h2 he
      refine pc_pure ?_
      exact hb0.eff he rfl rfl hs rfl rfl
    · have hs' : ¬ h.doctypeSeen = true := hb.dts ▸ hs
      simp only [hs] at e
      cases e
      simp only [hs']
      refine pc_mono (quiet_appendDoctypeToDoc _ _ _ _) ?_
      intro _ h2 he
      refine pc_pure ?_
      have hb0' : BSim { s with phase := .start, doctypeSeen := true } { h with doctypeSeen := true } :=
        ⟨hp.symm.trans hb.phase, hb.ns, rfl, hb.opened, hb.created⟩
      exact hb0'.teq (TEq.appendDoc _ _) he
  | comment c =>
    cases e
    show PC (appendCommentToDoc c >>= _) h _
    exact pc_done (pc_mono (quiet_appendCommentToDoc c h) fun _ _ he => hb.teq (TEq.appendDoc _ _) he)
  | pi t d =>
    cases e
    show PC (appendPiToDoc t d >>= _) h _
    exact pc_done (pc_mono (quiet_appendPiToDoc t d h) fun _ _ he => hb.teq (TEq.appendDoc _ _) he)
  | chars cs =>
    show PC (if (!H5V.Model.XmlTB.anyNotWhitespace cs) = true then pure StepResult.done else _) h _
    by_cases hw : (!H5V.Model.XmlTB.anyNotWhitespace cs) = true
    · simp only [hw, if_true] at e
      cases e
      rw [if_pos hw]
      exact pc_pure hb
    · simp only [hw] at e
      cases e
      rw [if_neg hw]
      exact pc_peDone hb _ _
  | nullChar => cases e; exact pc_peDone hb _ _
  | eof =>
    cases e
    show PC (parseErr .eofInStart >>= _) h _
    refine pc_seq (quiet_parseErr _ h) ?_
    intro _ h1 he
    exact pc_pure ⟨rfl, rfl, (hb.teq (TEq.err s _) he).setPhase .end_⟩

theorem bsim_stepMain (cfg : TbCfg) {s s' : TState} {h : State} (hb : BSim s h) (hp : s.phase = .main)
    (tok : Token) (e : H5V.Model.XmlTB.step cfg s tok = .ok s') : PC (step cfg .main tok) h (StepPostB s') := by
  unfold H5V.Model.XmlTB.step at e
  simp only [hp] at e
  cases tok with
  | tag t =>
    obtain ⟨k, n, as⟩ := t
    cases k with
    | start =>
      have e' : H5V.Model.XmlTB.insertTag (H5V.Model.XmlTB.applyNs cfg s ⟨.start, n, as⟩).1
          (H5V.Model.XmlTB.processNamespaces cfg s.nsStack ⟨.start, n, as⟩) = .ok s' := e
      show PC (processNamespaces cfg ⟨.start, n, as⟩ >>= _) h _
      refine pc_seq (sim_processNamespaces cfg _ hb) ?_
      rintro b h1 ⟨rfl, hb1⟩
      exact pc_done (sim_insertTag hb1 e')
    | empty =>
      have e' : (if (H5V.Model.XmlTB.processNamespaces cfg s.nsStack ⟨.empty, n, as⟩).name.loc = sScript then
          (H5V.Model.XmlTB.insertTag (H5V.Model.XmlTB.applyNs cfg s ⟨.empty, n, as⟩).1
            (H5V.Model.XmlTB.processNamespaces cfg s.nsStack ⟨.empty, n, as⟩)).bind
            (fun s1 => H5V.Model.XmlTB.closeTag s1 (H5V.Model.XmlTB.processNamespaces cfg s.nsStack ⟨.empty, n, as⟩).name)
        else
          (H5V.Model.XmlTB.appendCur (H5V.Model.XmlTB.applyNs cfg s ⟨.empty, n, as⟩).1
            (fun k => .elem (H5V.Model.XmlTB.processNamespaces cfg s.nsStack ⟨.empty, n, as⟩).name
              (H5V.Model.XmlTB.processNamespaces cfg s.nsStack ⟨.empty, n, as⟩).attrs [] :: k)).map
            (fun s1 => { s1 with created := ⟨(H5V.Model.XmlTB.processNamespaces cfg s.nsStack ⟨.empty, n, as⟩).name,
              (H5V.Model.XmlTB.processNamespaces cfg s.nsStack ⟨.empty, n, as⟩).attrs⟩ :: s1.created })) = .ok s' := e
      show PC (processNamespaces cfg ⟨.empty, n, as⟩ >>= _) h _
      refine pc_seq (sim_processNamespaces cfg _ hb) ?_
      rintro b h1 ⟨rfl, hb1⟩
      by_cases hsc : (H5V.Model.XmlTB.processNamespaces cfg s.nsStack ⟨.empty, n, as⟩).name.loc = sScript
      · rw [if_pos hsc] at e'
        simp only [hsc, if_true]
        obtain ⟨s2, e1, e2⟩ := exc_bind_ok e'
        refine pc_seq (sim_insertTag hb1 e1) ?_
        intro _ h2 hb2
        refine pc_seq (pc_currentNode _ h2) ?_
        rintro y _ ⟨rfl, _⟩
        refine pc_seq (sim_closeTag _ hb2 e2) ?_
        intro _ h3 hb3
        exact pc_pure hb3
      · rw [if_neg hsc] at e'
        simp only [hsc, if_false]
        obtain ⟨s2, e1, rfl⟩ := exc_map_ok e'
        obtain ⟨ht, _⟩ := xappendCur e1
        refine pc_done ?_
        unfold appendTag
        refine pc_seq (pc_createElement _ h1) ?_
        rintro c h2 ⟨he2, hc⟩
        refine pc_seq (quiet_insertAppropriately _ h2) ?_
        intro _ h3 he3
        refine pc_mono (quiet_sinkUnit (op := .pop c) trivial (fun _ => rfl) h3) ?_
        intro _ h4 he4
        exact BSim.created1 hb1 ((he2.trans1 he3).trans1 he4) ht.phase ht.ns ht.dts ht.fr
          (by rw [← ht.created])
    | end_ =>
      have e' : (H5V.Model.XmlTB.closeTag (H5V.Model.XmlTB.applyNs cfg s ⟨.end_, n, as⟩).1
          (H5V.Model.XmlTB.processNamespaces cfg s.nsStack ⟨.end_, n, as⟩).name).map
            H5V.Model.XmlTB.setEndIfEmpty = .ok s' := e
      obtain ⟨s2, e1, rfl⟩ := exc_map_ok e'
      show PC (processNamespaces cfg ⟨.end_, n, as⟩ >>= _) h _
      refine pc_seq (sim_processNamespaces cfg _ hb) ?_
      rintro b h1 ⟨rfl, hb1⟩
      by_cases hsc : (H5V.Model.XmlTB.processNamespaces cfg s.nsStack ⟨.end_, n, as⟩).name.loc = sScript
      · simp only [hsc, if_true]
        refine pc_seq (pc_currentNode _ h1) ?_
        rintro y _ ⟨rfl, _⟩
        refine pc_seq (sim_closeTag _ hb1 e1) ?_
        intro _ h2 hb2
        refine pc_seq (sim_endIf hb2) ?_
        intro _ h3 hb3
        exact pc_pure hb3
      · simp only [hsc, if_false]
        refine pc_seq (sim_closeTag _ hb1 e1) ?_
        intro _ h2 hb2
        refine pc_seq (sim_endIf hb2) ?_
        intro _ h3 hb3
        exact pc_pure hb3
    | short =>
      obtain ⟨s2, e1, rfl⟩ := exc_map_ok e
      show PC (pop >>= _) h _
      refine pc_seq (sim_pop hb e1) ?_
      intro _ h1 hb1
      refine pc_seq (sim_endIf hb1) ?_
      intro _ h2 hb2
      exact pc_pure hb2
  | doctype n p sy => cases e; exact pc_peDone hb _ _
  | comment c =>
    obtain ⟨ht, _⟩ := xappendCur e
    show PC (appendCommentToTag c >>= _) h _
    exact pc_done (pc_mono (quiet_appendCommentToTag c h) fun _ _ he => hb.teq ht he)
  | pi t d =>
    obtain ⟨ht, _⟩ := xappendCur e
    show PC (appendPiToTag t d >>= _) h _
    exact pc_done (pc_mono (quiet_appendPiToTag t d h) fun _ _ he => hb.teq ht he)
  | chars cs =>
    obtain ⟨ht, _⟩ := xappendCur e
    show PC (appendText cs >>= _) h _
    exact pc_done (pc_mono (quiet_appendText cs h) fun _ _ he => hb.teq ht he)
  | nullChar => cases e; exact pc_pure ⟨rfl, rfl, hb.setPhase .end_⟩
  | eof => cases e; exact pc_pure ⟨rfl, rfl, hb.setPhase .end_⟩

theorem bsim_stepEnd (cfg : TbCfg) {s s' : TState} {h : State} (hb : BSim s h) (hp : s.phase = .end_)
    (tok : Token) (e : H5V.Model.XmlTB.step cfg s tok = .ok s') : PC (step cfg .end_ tok) h (StepPostB s') := by
  unfold H5V.Model.XmlTB.step at e
  simp only [hp] at e
  cases tok with
  | tag t => cases e; exact pc_peDone hb _ _
  | doctype n p sy => cases e; exact pc_peDone hb _ _
  | comment c =>
    cases e
    show PC (appendCommentToDoc c >>= _) h _
    exact pc_done (pc_mono (quiet_appendCommentToDoc c h) fun _ _ he => hb.teq (TEq.appendDoc _ _) he)
  | pi t d =>
    cases e
    show PC (appendPiToDoc t d >>= _) h _
    exact pc_done (pc_mono (quiet_appendPiToDoc t d h) fun _ _ he => hb.teq (TEq.appendDoc _ _) he)
  | chars cs =>
    show PC (if (!H5V.Model.XmlTB.anyNotWhitespace cs) = true then pure StepResult.done else _) h _
    by_cases hw : (!H5V.Model.XmlTB.anyNotWhitespace cs) = true
    · simp only [hw, if_true] at e
      cases e
      rw [if_pos hw]
      exact pc_pure hb
    · simp only [hw] at e
      cases e
      rw [if_neg hw]
      exact pc_peDone hb _ _
  | nullChar => cases e; exact pc_peDone hb _ _
  | eof => cases e; exact pc_pure hb

theorem bsim_stepAny (cfg : TbCfg) {s s' : TState} {h : State} (hb : BSim s h) (tok : Token)
    (e : H5V.Model.XmlTB.step cfg s tok = .ok s') : PC (step cfg h.phase tok) h (StepPostB s') := by
  rw [← hb.phase]
  cases hp : s.phase with
  | start => exact bsim_stepStart cfg hb hp tok e
  | main => exact bsim_stepMain cfg hb hp tok e
  | end_ => exact bsim_stepEnd cfg hb hp tok e

/-! ## `process_token`, whole runs -/

/-- one input of the handle-level model, seen by the tree-valued one: a tokenizer `ParseError` is only
forwarded to the sink and changes nothing -/
def stepInput (cfg : TbCfg) (s : TState) : Input → Except String TState
  | .token t => H5V.Model.XmlTB.step cfg s t
  | .parseError _ => .ok s

/-- the tokens among the inputs -/
def tokensOf : List Input → List Token
  | [] => []
  | .token t :: rest => t :: tokensOf rest
  | .parseError _ :: rest => tokensOf rest

theorem bsim_processToken_pc (cfg : TbCfg) {s s' : TState} {h : State} (hb : BSim s h) (inp : Input)
    (e : stepInput cfg s inp = .ok s') : PC (processToken cfg inp) h (fun _ h' => BSim s' h') := by
  cases inp with
  | parseError msg =>
    cases e
    show PC (sinkUnit (.parseError msg) >>= _) h _
    refine pc_seq (quiet_sinkUnit (op := .parseError msg) trivial (fun _ => rfl) h) ?_
    intro _ h1 he
    exact pc_pure (hb.quiet he)
  | token tok =>
    have e' : H5V.Model.XmlTB.step cfg s tok = .ok s' := e
    show PC (processToCompletion cfg 2 tok) h _
    unfold processToCompletion
    refine pc_read_bind ?_
    refine pc_seq (bsim_stepAny cfg hb tok e') ?_
    intro r h1 hr
    cases r with
    | done => exact pc_pure hr
    | script n => exact pc_pure hr
    | reprocess p t =>
      obtain ⟨rfl, rfl, hb1⟩ := hr
      show PC (setPhase .end_ >>= _) h1 _
      unfold setPhase
      refine pc_modify_bind ?_
      unfold processToCompletion
      refine pc_read_bind ?_
      show PC (step cfg .end_ .eof >>= _) _ _
      rw [show step cfg .end_ .eof = (pure StepResult.done : M StepResult) from rfl]
      exact pc_bind (pc_pure (pc_pure hb1))

theorem run_tokensOf_cons_token (cfg : TbCfg) (s : TState) (t : Token) (rest : List Input) :
    H5V.Model.XmlTB.run cfg s (tokensOf (.token t :: rest)) =
      (H5V.Model.XmlTB.step cfg s t).bind (fun s1 => H5V.Model.XmlTB.run cfg s1 (tokensOf rest)) := rfl

theorem bsim_processTokens_pc (cfg : TbCfg) : ∀ (toks : List Input) {s s' : TState} {h : State}, BSim s h →
    H5V.Model.XmlTB.run cfg s (tokensOf toks) = .ok s' →
    PC (processTokens cfg toks) h (fun _ h' => BSim s' h') := by
  intro toks
  induction toks with
  | nil =>
    intro s s' h hb e
    cases e
    exact pc_pure hb
  | cons inp rest ih =>
    intro s s' h hb e
    unfold processTokens
    cases inp with
    | parseError msg =>
      refine pc_seq (bsim_processToken_pc cfg hb (.parseError msg) rfl) ?_
      intro _ h1 hb1
      exact ih hb1 e
    | token t =>
      rw [run_tokensOf_cons_token] at e
      obtain ⟨s1, e1, e2⟩ := exc_bind_ok e
      refine pc_seq (bsim_processToken_pc cfg hb (.token t) e1) ?_
      intro _ h1 hb1
      exact ih hb1 e2

/-- `XmlTreeBuilder::new` against the initial state of the tree-valued model -/
theorem bsim_newTB : PC newTB State.init (fun _ h => BSim H5V.Model.XmlTB.State.init h) := by
  unfold newTB
  refine pc_seq (quiet_sinkNode (op := .getDocument) trivial (fun _ => rfl) State.init) ?_
  intro doc h1 he
  refine pc_modify ?_
  refine ⟨he.phase.symm, he.ns.symm, he.dts.symm, ?_, he.created⟩
  show Match h1.dom [] h1.opened
  rw [he.opened]
  exact trivial

/-- `end()` makes no `create_element` call -/
theorem pc_finish (h : State) : PC finish h (fun _ h' => createOps h'.traceRev = createOps h.traceRev) := by
  unfold finish
  refine pc_read_bind (pc_modify_bind ?_)
  exact pc_mono (quiet_popAll h.opened _) fun _ _ he => he.created

/-- `new`, the inputs, `end()`: the `create_element` calls are the `created` list of the tree-valued run -/
theorem bsim_parseAll_pc (cfg : TbCfg) (toks : List Input) {s' : TState}
    (e : H5V.Model.XmlTB.run cfg H5V.Model.XmlTB.State.init (tokensOf toks) = .ok s') :
    PC (parseAll cfg toks) State.init
      (fun _ h' => createOps h'.traceRev = s'.created.map (fun c => crop c.name c.attrs)) := by
  unfold parseAll
  refine pc_seq bsim_newTB ?_
  intro _ h1 hb1
  refine pc_seq (bsim_processTokens_pc cfg toks hb1 e) ?_
  intro _ h2 hb2
  refine pc_mono (pc_finish h2) ?_
  intro _ h3 hc
  rw [hc]
  exact hb2.created

end H5V.Lemmas.XmlTBHBridge
