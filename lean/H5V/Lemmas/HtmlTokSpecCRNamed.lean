import H5V.Lemmas.HtmlTokSpecCRNamed4
/-!
# C01 simulation — named character references (layer L3b): one `step` of the model inside a named
character reference (`stepCharRef_sim_named`) and `Tokenizer::end` inside one (`crEof_sim_named`)
against the named character reference state of the specification
-/
set_option linter.unusedSimpArgs false
namespace H5V.Lemmas.HtmlTokSpec
open H5V.Model.HtmlTok
open H5V.Spec.HtmlTokenizer (St Tok Emit Tree Switch Ctl ReturnSt normalizeNewlinesFrom normalizeNewlines)
open H5V.Props.C14

/-- the specification's input while a name is being read: the buffer, then the normalised rest -/
theorem crn_rest_eq {m : Mach} {inp : Str} {t : Tok} {rest : Str} {cr : CharRefSt}
    (h : RelCore m inp t rest) (hcr : m.charRef = some cr) (nb : Str) (hb : cr.nameBuf = some nb) :
    rest = nb ++ normalizeNewlinesFrom false inp := by
  obtain ⟨hil, hrec, hlines⟩ := h.tinv.linv.cr cr hcr
  have hplain : ∀ c ∈ nb, isBrk c = false := by
    have := hlines.plain; rw [hb] at this; exact this
  have hi := h.inp
  unfold InpRel at hi
  have hs1 : stash m = nb := by unfold stash; rw [hcr]; simp [hb]
  rw [hi, rc_false hrec, hil, hs1, crn_norm_plain nb _ hplain]
  rfl

/-- no input: the sub-tokenizer is stuck, the step suspends -/
theorem crn_stuck (o : Opts) (tree : Tree) {m : Mach} {t : Tok} {rest : Str} {cr : CharRefSt}
    (h : RelCore m [] t rest) (hcr : m.charRef = some cr) :
    StepOk tree t rest (stepCharRef o m [] cr) := by
  have hrec := (h.tinv.linv.cr cr hcr).2.1
  have hst : crStep o m [] cr = .ok (m, [], cr, .stuck) := by
    unfold crStep peek
    simp [hrec]
  rw [crn_stepCharRef_eq, hst]
  simp only [crnOfRes, stepOk_suspend]
  rw [crn_setCharRef_self m _ hcr]
  exact h.toRel

theorem crn_best_step {nb : Str} {mt : Option (Nat × Nat)} {len : Nat} (hb : Walk.Best nb mt len) (c : Char)
    (v : Nat × Nat) (hl : entityLookup (nb ++ [c]) = some v) :
    (v.1 ≠ 0 → Walk.Best (nb ++ [c]) (some v) (nb ++ [c]).length) ∧
    (¬ v.1 ≠ 0 → Walk.Best (nb ++ [c]) mt len) := by
  constructor
  · intro hv
    have := (Walk.walk_best [c] nb mt len hb (nb ++ [c]) (some v) (nb ++ [c]).length true
      (by simp [Walk.walk, hl, hv])).2.2.2 rfl
    exact this.1
  · intro hv
    have := (Walk.walk_best [c] nb mt len hb (nb ++ [c]) mt len true
      (by simp [Walk.walk, hl, hv])).2.2.2 rfl
    exact this.1

set_option maxHeartbeats 1600000 in
/-- sub-state `named`, a character is available -/
theorem crn_step_named (o : Opts) (ho : o.exactErrors = false) (pol : Pol) (tree : Tree) {m : Mach} {c : Char}
    {inp' : Str} {t : Tok} {rest : Str} {cr : CharRefSt} (h : RelCore m (c :: inp') t rest)
    (hcr : m.charRef = some cr) (hst : cr.state = .named) (nb : Str) (hb : cr.nameBuf = some nb) :
    StepOk tree t rest (stepCharRef o m (c :: inp') cr) := by
  obtain ⟨hil, hrec, hlines⟩ := h.tinv.linv.cr cr hcr
  have hpk : peek m (c :: inp') = some c := by unfold peek; simp [hrec]
  have hd : discardChar m (c :: inp') = (m, inp') := by unfold discardChar; simp [hrec]
  have hwalk := Walk.C14_walk_is_do_named o m (c :: inp') cr nb c hst hb hpk
  rw [hd] at hwalk
  have hg := h.crg cr hcr
  rw [hst] at hg
  obtain ⟨_, hbest⟩ := hg nb hb
  cases hl : entityLookup (nb ++ [c]) with
  | some v =>
    rw [hl] at hwalk
    simp only at hwalk
    obtain ⟨hbs1, hbs2⟩ := crn_best_step hbest c v hl
    by_cases hv : v.1 ≠ 0
    · rw [if_pos hv] at hwalk
      have heq : stepCharRef o m (c :: inp') cr =
          .cont (m.setCharRef (some { cr with nameBuf := some (nb ++ [c]), nameMatch := some v,
                                              nameLen := (nb ++ [c]).length })) inp' := by
        rw [crn_stepCharRef_eq, hwalk]; rfl
      rw [heq]
      refine Reach.done (RelCore.toRel (crn_progress h hcr (Or.inl hst) nb hb _ rfl rfl (Or.inl hst) ?_
        (crn_tinv_of_step o pol h.tinv hcr heq)))
      change CRStG _ cr.state
      rw [hst]
      intro nb' hnb'
      simp only [Option.some.injEq] at hnb'
      subst hnb'
      exact ⟨Or.inr (by rw [hl]; rfl), hbs1 hv⟩
    · rw [if_neg hv] at hwalk
      have heq : stepCharRef o m (c :: inp') cr =
          .cont (m.setCharRef (some { cr with nameBuf := some (nb ++ [c]) })) inp' := by
        rw [crn_stepCharRef_eq, hwalk]; rfl
      rw [heq]
      refine Reach.done (RelCore.toRel (crn_progress h hcr (Or.inl hst) nb hb _ rfl rfl (Or.inl hst) ?_
        (crn_tinv_of_step o pol h.tinv hcr heq)))
      change CRStG _ cr.state
      rw [hst]
      intro nb' hnb'
      simp only [Option.some.injEq] at hnb'
      subst hnb'
      exact ⟨Or.inr (by rw [hl]; rfl), hbs2 hv⟩
  | none =>
    rw [hl] at hwalk
    simp only at hwalk
    by_cases hnm : cr.nameMatch = none ∧ isAsciiAlnum c = true
    · -- nothing matched, the name goes on: bogus name
      rw [crn_finishNamed_bogus o m inp' { cr with nameBuf := some (nb ++ [c]) } (nb ++ [c]) c rfl hnm.1 hnm.2] at hwalk
      have heq : stepCharRef o m (c :: inp') cr =
          .cont (m.setCharRef (some { cr with nameBuf := some (nb ++ [c]), state := .bogusName })) inp' := by
        rw [crn_stepCharRef_eq, hwalk]; rfl
      rw [heq]
      refine Reach.done (RelCore.toRel (crn_progress h hcr (Or.inl hst) nb hb _ rfl rfl
        (Or.inr ⟨rfl, hnm.1⟩) ?_ (crn_tinv_of_step o pol h.tinv hcr heq)))
      intro nb' hnb'
      simp only [Option.some.injEq] at hnb'
      subst hnb'
      rw [hnm.1] at hbest
      exact crn_dead_of_best hbest hl
    · -- the reference is finished
      have hrest := crn_rest_eq h hcr nb hb
      have hnorm : normalizeNewlinesFrom false (c :: inp') =
          foldCh c :: normalizeNewlinesFrom (decide (c = '\r')) inp' := norm_fold false c inp' (by simp)
      obtain ⟨o', chars, inp2, cr2, hfl, hfin, hnul, hgoal⟩ :=
        crn_finish_sim o ho tree h hcr hst nb hb (some cr) [c] inp' (some c) hrest
          (by
            show ∀ q, q <+: nb ++ normalizeNewlinesFrom false (c :: inp') → _
            rw [hnorm]
            exact crn_long_of_none (crn_lookup_fold hl) _)
          (by
            intro ia last
            show crnDec ia last (nb ++ [c])[nb.length]? =
              crnDec ia last (nb ++ normalizeNewlinesFrom false (c :: inp'))[nb.length]?
            rw [hnorm]
            simp [crn_dec_fold])
          (by
            intro hm c' hc'
            simp only [Option.some.injEq] at hc'
            subst hc'
            cases ha : isAsciiAlnum c with
            | false => rfl
            | true => exact absurd ⟨hm, ha⟩ hnm)
      exact crn_stepOk_done o pol tree h hcr o' hfl chars inp2 cr2 (hwalk.trans hfin) hnul hgoal

theorem crn_crStep_bogus (o : Opts) (m : Mach) (c : Char) (inp' : Str) (cr : CharRefSt) (nb : Str)
    (hst : cr.state = .bogusName) (hb : cr.nameBuf = some nb) (hrec : m.reconsume = false) :
    crStep o m (c :: inp') cr =
      if isAsciiAlnum c = true then .ok (m, inp', { cr with nameBuf := some (nb ++ [c]) }, .progress)
      else .ok (if c = ';' then nameErr o m (nb ++ [c]) else m, (nb ++ [c]) ++ inp',
                { cr with nameBuf := none }, .done []) := by
  unfold crStep peek discardChar
  simp only [hrec, Bool.false_eq_true, if_false, List.head?_cons, hst, hb, List.tail_cons]

set_option maxHeartbeats 1600000 in
/-- sub-state `bogusName`, a character is available -/
theorem crn_step_bogus (o : Opts) (ho : o.exactErrors = false) (pol : Pol) (tree : Tree) {m : Mach} {c : Char}
    {inp' : Str} {t : Tok} {rest : Str} {cr : CharRefSt} (h : RelCore m (c :: inp') t rest)
    (hcr : m.charRef = some cr) (hst : cr.state = .bogusName) (nb : Str) (hb : cr.nameBuf = some nb) :
    StepOk tree t rest (stepCharRef o m (c :: inp') cr) := by
  obtain ⟨hil, hrec, hlines⟩ := h.tinv.linv.cr cr hcr
  have hstep := crn_crStep_bogus o m c inp' cr nb hst hb hrec
  have hg := h.crg cr hcr
  rw [hst] at hg
  have hdead : Dead nb := hg nb hb
  have hnm : cr.nameMatch = none := by
    obtain ⟨_, _, _, hd⟩ := h.crRel hcr
    rw [hst] at hd
    exact hd.2.2.2
  by_cases ha : isAsciiAlnum c = true
  · simp only [ha, if_true] at hstep
    have heq : stepCharRef o m (c :: inp') cr =
        .cont (m.setCharRef (some { cr with nameBuf := some (nb ++ [c]) })) inp' := by
      rw [crn_stepCharRef_eq, hstep]; rfl
    rw [heq]
    refine Reach.done (RelCore.toRel (crn_progress h hcr (Or.inr hst) nb hb _ rfl rfl
      (Or.inr ⟨hst, hnm⟩) ?_ (crn_tinv_of_step o pol h.tinv hcr heq)))
    change CRStG _ cr.state
    rw [hst]
    intro nb' hnb'
    simp only [Option.some.injEq] at hnb'
    subst hnb'
    exact crn_dead_append hdead c
  · simp only [ha, Bool.false_eq_true, if_false] at hstep
    have hrest := crn_rest_eq h hcr nb hb
    have hbase : ∃ o', flat o' = flat m.out ∧
        (if c = ';' then nameErr o m (nb ++ [c]) else m) = crnBase m o' false (some cr) := by
      by_cases hc : c = ';'
      · refine ⟨(Token.error "Invalid character reference".toList, m.line) :: m.out, by simp, ?_⟩
        rw [if_pos hc, ← crn_base_out m _ (some cr) hil hcr]
        unfold nameErr
        simp [ho, emitErr, emit]
      · exact ⟨m.out, rfl, by rw [if_neg hc]; exact crn_base_self m (some cr) hil hcr⟩
    obtain ⟨o', hfl, hb'⟩ := hbase
    rw [hb'] at hstep
    refine crn_stepOk_done o pol tree h hcr o' hfl [] _ _ hstep
      (fun _ c' hc' => by simp [crnEff] at hc'; subst hc'; decide) ?_
    intro hti
    refine crn_done_none tree h hcr (Or.inr hst) o' (some cr) hfl _ ?_ ?_ hti
    · rw [hrest]; exact hdead _
    · have hplain : ∀ x ∈ nb, isBrk x = false := by
        have := hlines.plain; rw [hb] at this; exact this
      rw [hrest, List.append_assoc, crn_norm_plain nb _ hplain]
      rfl

/-- **one step of the model inside a named character reference** against the specification -/
theorem stepCharRef_sim_named (o : Opts) (ho : o.exactErrors = false) (pol : Pol) (tree : Tree)
    (m : Mach) (inp : Str) (t : Tok) (rest : Str) (h : RelCore m inp t rest) (cr : CharRefSt)
    (hcr : m.charRef = some cr) (hst : cr.state = .named ∨ cr.state = .bogusName) :
    StepOk tree t rest (stepCharRef o m inp cr) := by
  have hsafe := h.tinv.linv.safe.crRegs cr hcr
  cases hnb : cr.nameBuf with
  | none => exact absurd hnb (hsafe.named hst)
  | some nb =>
    cases inp with
    | nil => exact crn_stuck o tree h hcr
    | cons c inp' =>
      rcases hst with hst | hst
      · exact crn_step_named o ho pol tree h hcr hst nb hnb
      · exact crn_step_bogus o ho pol tree h hcr hst nb hnb

set_option maxHeartbeats 1600000 in
/-- **`Tokenizer::end` inside a named character reference** against the specification -/
theorem crEof_sim_named (o : Opts) (ho : o.exactErrors = false) (tree : Tree)
    (m : Mach) (t : Tok) (rest : Str) (h : RelCore m [] t rest) (cr : CharRefSt) (hcr : m.charRef = some cr)
    (hst : cr.state = .named ∨ cr.state = .bogusName)
    (m1 : Mach) (inp1 chars : Str) (he : crEof o m [] cr = .ok (m1, inp1, chars))
    (m2 : Mach) (hp : processCharRef (m1.setCharRef none) chars = (m2, .cont)) :
    Reach tree t rest (fun t' rest' => Rel m2 inp1 t' rest') := by
  have hsafe := h.tinv.linv.safe.crRegs cr hcr
  obtain ⟨hil, hrec, hlines⟩ := h.tinv.linv.cr cr hcr
  cases hnb : cr.nameBuf with
  | none => exact absurd hnb (hsafe.named hst)
  | some nb =>
    have hplain : ∀ x ∈ nb, isBrk x = false := by
      have := hlines.plain; rw [hnb] at this; exact this
    have hrest : rest = nb := by
      have := crn_rest_eq h hcr nb hnb
      rw [norm_nil, List.append_nil] at this
      exact this
    rcases hst with hst | hst
    · have hcr' : ({ cr with nameBuf := some (nb ++ []) } : CharRefSt) = cr := by
        cases cr
        simp only at hnb
        subst hnb
        simp
      obtain ⟨o', chars', inp2, cr2, hfl, hfin, hnul, hgoal⟩ :=
        crn_finish_sim o ho tree h hcr hst nb hnb none [] [] none
          (by rw [hrest]; simp [norm_nil])
          (by
            intro q hq hlt
            have := hq.length_le
            simp [norm_nil] at this
            omega)
          (by intro ia last; simp [norm_nil])
          (by intro _ c hc; simp at hc)
      rw [hcr'] at hfin
      have he' : crEof o m [] cr = .ok (crnBase m o' false (some cr), inp2, chars') := by
        rw [crEof_eq]
        unfold crEofOnce
        simp only [hst]
        rw [hfin]
      exact crn_eof_done o tree h hcr o' chars' inp2 he' hgoal m1 inp1 chars he m2 hp
    · have hg := h.crg cr hcr
      rw [hst] at hg
      have hdead : Dead nb := hg nb hnb
      have he' : crEof o m [] cr = .ok (crnBase m m.out false (some cr), nb ++ [], []) := by
        rw [crEof_eq]
        unfold crEofOnce
        simp only [hst, hnb]
        rw [← crn_base_self m (some cr) hil hcr]
      refine crn_eof_done o tree h hcr m.out [] (nb ++ []) he' ?_ m1 inp1 chars he m2 hp
      intro hti
      refine crn_done_none tree h hcr (Or.inr hst) m.out none rfl _ ?_ ?_ hti
      · have := hdead []
        rw [hrest]; simpa using this
      · rw [hrest, crn_norm_plain_nil _ (by simpa using hplain)]
        simp

end H5V.Lemmas.HtmlTokSpec
