import H5V.Model.XmlTB
/-! Helper lemmas about the tree-builder model: `pop`, `popUntil`, `closeTag` seen through the list
of open element names and the namespace stack. -/
namespace H5V.Lemmas.XmlTB
open H5V.Model.XmlTB

/-- names of the open elements, top first -/
def names (s : State) : List QName := s.opened.map (·.name)

/-- everything `pop` leaves alone -/
structure SameRest (s s' : State) : Prop where
  phase : s'.phase = s.phase
  created : s'.created = s.created
  errors : s'.errors = s.errors
  docBefore : s'.docBefore = s.docBefore
  docAfter : s'.docAfter = s.docAfter

theorem SameRest.refl (s : State) : SameRest s s := ⟨rfl, rfl, rfl, rfl, rfl⟩
theorem SameRest.trans {a b c : State} (h1 : SameRest a b) (h2 : SameRest b c) : SameRest a c :=
  ⟨h2.phase.trans h1.phase, h2.created.trans h1.created, h2.errors.trans h1.errors,
   h2.docBefore.trans h1.docBefore, h2.docAfter.trans h1.docAfter⟩

theorem pop_spec (s : State) (h : s.opened ≠ []) :
    ∃ s', pop s = .ok s' ∧ names s' = (names s).tail ∧ s'.nsStack = s.nsStack.tail ∧ SameRest s s' := by
  unfold pop
  match hs : s.opened with
  | [] => exact absurd hs h
  | [f] => exact ⟨_, rfl, by simp [names, hs], rfl, ⟨rfl, rfl, rfl, rfl, rfl⟩⟩
  | f :: g :: rest => exact ⟨_, rfl, by simp [names, hs], rfl, ⟨rfl, rfl, rfl, rfl, rfl⟩⟩

theorem pop_error (s : State) (h : s.opened = []) : ∃ e, pop s = .error e := by
  unfold pop; simp [h]

/-- index of the first open element with the expanded name of `nm` -/
def firstMatch (nm : QName) : List QName → Option Nat
  | [] => none
  | n :: rest => if sameExpanded n nm then some 0 else (firstMatch nm rest).map (· + 1)

theorem firstMatch_isSome_iff (nm : QName) (l : List QName) :
    (firstMatch nm l).isSome = l.any (fun n => sameExpanded n nm) := by
  induction l with
  | nil => rfl
  | cons n rest ih =>
    simp only [firstMatch, List.any_cons]
    by_cases h : sameExpanded n nm = true
    · simp [h]
    · simp [h, ih]

theorem firstMatch_lt (nm : QName) (l : List QName) (k : Nat) (h : firstMatch nm l = some k) :
    k < l.length := by
  induction l generalizing k with
  | nil => simp [firstMatch] at h
  | cons n rest ih =>
    simp only [firstMatch] at h
    split at h
    · simp at h; subst h; simp
    · match hr : firstMatch nm rest with
      | none => simp [hr] at h
      | some j => simp [hr] at h; subst h; have := ih j hr; simp; omega

theorem popUntil_spec (nm : QName) (fuel : Nat) (s : State) (k : Nat)
    (hk : firstMatch nm (names s) = some k) (hf : k ≤ fuel) :
    ∃ s', popUntil nm fuel s = .ok s' ∧ names s' = (names s).drop k ∧
      s'.nsStack = s.nsStack.drop k ∧ SameRest s s' ∧ firstMatch nm (names s') = some 0 := by
  induction fuel generalizing s k with
  | zero =>
    have hk0 : k = 0 := by omega
    subst hk0
    unfold popUntil
    match hs : s.opened with
    | [] => simp [names, hs, firstMatch] at hk
    | f :: rest =>
      simp only [names, hs, List.map_cons, firstMatch] at hk
      split at hk
      · rename_i hm
        exact ⟨s, by simp [hm], by simp, by simp, SameRest.refl s, by simp [names, hs, firstMatch, hm]⟩
      · match hr : firstMatch nm (rest.map (·.name)) with
        | none => simp [hr] at hk
        | some j => simp [hr] at hk
  | succ n ih =>
    unfold popUntil
    match hs : s.opened with
    | [] => simp [names, hs, firstMatch] at hk
    | f :: rest =>
      simp only [names, hs, List.map_cons, firstMatch] at hk
      split at hk
      · rename_i hm
        simp at hk; subst hk
        exact ⟨s, by simp [hm], by simp, by simp, SameRest.refl s, by simp [names, hs, firstMatch, hm]⟩
      · rename_i hm
        match hr : firstMatch nm (rest.map (·.name)) with
        | none => simp [hr] at hk
        | some j =>
          simp [hr] at hk; subst hk
          obtain ⟨s1, hp, hn1, hns1, hsr1⟩ := pop_spec s (by simp [hs])
          have hn1' : names s1 = rest.map (·.name) := by rw [hn1]; simp [names, hs]
          obtain ⟨s2, hp2, hn2, hns2, hsr2, hfm⟩ := ih s1 j (by rw [hn1']; exact hr) (by omega)
          refine ⟨s2, ?_, ?_, ?_, hsr1.trans hsr2, hfm⟩
          · simp [hm, hp, Except.bind, hp2]
          · rw [hn2, hn1']; simp [names, hs]
          · simp [hns2, hns1]

@[simp] theorem names_err (s : State) (es : List Err) : names (s.err es) = names s := rfl
@[simp] theorem nsStack_err (s : State) (es : List Err) : (s.err es).nsStack = s.nsStack := rfl
@[simp] theorem phase_err (s : State) (es : List Err) : (s.err es).phase = s.phase := rfl
@[simp] theorem created_err (s : State) (es : List Err) : (s.err es).created = s.created := rfl
@[simp] theorem opened_err (s : State) (es : List Err) : (s.err es).opened = s.opened := rfl
@[simp] theorem root_err (s : State) (es : List Err) : (s.err es).root = s.root := rfl

/-- `close_tag` on the names and the namespace stack: an end tag whose expanded name is carried by
the `k`-th open element pops `k+1` elements and `k+1` namespace maps; otherwise nothing is popped. -/
theorem closeTag_spec (s : State) (nm : QName) (h : s.opened ≠ []) :
    ∃ s', closeTag s nm = .ok s' ∧ s'.phase = s.phase ∧ s'.created = s.created ∧
      match firstMatch nm (names s) with
      | some k => names s' = (names s).drop (k + 1) ∧ s'.nsStack = s.nsStack.drop (k + 1)
      | none => names s' = names s ∧ s'.nsStack = s.nsStack := by
  unfold closeTag
  match hs : s.opened with
  | [] => exact absurd hs h
  | f :: rest =>
    simp only []
    generalize hs0 : (if f.name.loc ≠ nm.loc then s.err [Err.currentMismatch] else s) = s0
    have hn0 : names s0 = names s := by subst hs0; split <;> simp
    have hns0 : s0.nsStack = s.nsStack := by subst hs0; split <;> simp
    have hph0 : s0.phase = s.phase := by subst hs0; split <;> simp
    have hcr0 : s0.created = s.created := by subst hs0; split <;> simp
    have hany : s0.opened.any (fun g => sameExpanded g.name nm) = (firstMatch nm (names s)).isSome := by
      rw [firstMatch_isSome_iff, ← hn0]; simp [names, List.any_map]; rfl
    match hfm : firstMatch nm (names s) with
    | none =>
      simp [hfm] at hany
      refine ⟨s0, ?_, hph0, hcr0, hn0, hns0⟩
      have : (s0.opened.any fun g => sameExpanded g.name nm) = false := by
        simpa [List.any_eq_false] using hany
      simp [this]
    | some k =>
      simp [hfm] at hany
      have hlt := firstMatch_lt nm (names s) k hfm
      have hlen : (names s).length = s0.opened.length := by rw [← hn0]; simp [names]
      obtain ⟨s1, hp1, hn1, hns1, hsr1, hfm1⟩ :=
        popUntil_spec nm s0.opened.length s0 k (by rw [hn0]; exact hfm) (by omega)
      have hne1 : s1.opened ≠ [] := by
        intro h0; simp [names, h0, firstMatch] at hfm1
      obtain ⟨s2, hp2, hn2, hns2, hsr2⟩ := pop_spec s1 hne1
      refine ⟨s2, ?_, ?_, ?_, ?_, ?_⟩
      · have : (s0.opened.any fun g => sameExpanded g.name nm) = true := by
          obtain ⟨g, hg, hgm⟩ := hany; exact List.any_eq_true.mpr ⟨g, hg, hgm⟩
        simp [this, hp1, Except.bind, hp2]
      · rw [hsr2.phase, hsr1.phase, hph0]
      · rw [hsr2.created, hsr1.created, hcr0]
      · rw [hn2, hn1, hn0]; simp
      · rw [hns2, hns1, hns0]; simp

/-! ### `applyNs` touches only the error list and (for start tags and `<script/>`) the stack -/
@[simp] theorem applyNs_snd (cfg : TbCfg) (s : State) (t : Tag) :
    (applyNs cfg s t).2 = processNamespaces cfg s.nsStack t := by
  unfold applyNs; rfl
@[simp] theorem applyNs_opened (cfg : TbCfg) (s : State) (t : Tag) :
    (applyNs cfg s t).1.opened = s.opened := by
  unfold applyNs; simp only []; split <;> rfl
@[simp] theorem applyNs_phase (cfg : TbCfg) (s : State) (t : Tag) :
    (applyNs cfg s t).1.phase = s.phase := by
  unfold applyNs; simp only []; split <;> rfl
@[simp] theorem applyNs_created (cfg : TbCfg) (s : State) (t : Tag) :
    (applyNs cfg s t).1.created = s.created := by
  unfold applyNs; simp only []; split <;> rfl
@[simp] theorem applyNs_root (cfg : TbCfg) (s : State) (t : Tag) :
    (applyNs cfg s t).1.root = s.root := by
  unfold applyNs; simp only []; split <;> rfl
theorem applyNs_nsStack (cfg : TbCfg) (s : State) (t : Tag) :
    (applyNs cfg s t).1.nsStack =
      if pushesMap t.kind (processNamespaces cfg s.nsStack t).name
      then (processNamespaces cfg s.nsStack t).map :: s.nsStack else s.nsStack := by
  unfold applyNs; simp only []; split <;> rfl
@[simp] theorem applyNs_names (cfg : TbCfg) (s : State) (t : Tag) :
    names (applyNs cfg s t).1 = names s := by
  simp [names]

/-! ### the qualified-name state machine (`qname.rs`) -/

theorem afterColon_noColon (v : Nat) (l : List Char) (h : ':' ∉ l) : afterColon v l = some v := by
  induction l with
  | nil => rfl
  | cons c rest ih =>
    have hc : c ≠ ':' := by intro e; subst e; simp at h
    have hr : ':' ∉ rest := by intro e; exact h (by simp [e])
    simp [afterColon, hc, ih hr]

theorem afterColon_some (v j : Nat) (l : List Char) (h : afterColon v l = some j) : ':' ∉ l ∧ j = v := by
  induction l with
  | nil => simp [afterColon] at h; exact ⟨by simp, h.symm⟩
  | cons c rest ih =>
    simp only [afterColon] at h
    split at h
    · simp at h
    · rename_i hc
      obtain ⟨h1, h2⟩ := ih h
      exact ⟨by simp [h1, Ne.symm hc], h2⟩

theorem inName_app (i : Nat) (pre post : List Char) (hpre : ':' ∉ pre) (hpost : post ≠ []) :
    inName i (pre ++ ':' :: post) = afterColon (i + pre.length) post := by
  induction pre generalizing i with
  | nil => simp [inName, hpost]
  | cons c rest ih =>
    have hc : c ≠ ':' := by intro e; subst e; simp at hpre
    have hr : ':' ∉ rest := by intro e; exact hpre (by simp [e])
    simp only [List.cons_append, inName, hc, false_and, ↓reduceIte]
    rw [ih (i + 1) hr]
    simp only [List.length_cons]
    congr 1; omega

theorem inName_some (i j : Nat) (l : List Char) (h : inName i l = some j) :
    ∃ pre post, l = pre ++ ':' :: post ∧ ':' ∉ pre ∧ post ≠ [] ∧ ':' ∉ post ∧ j = i + pre.length := by
  induction l generalizing i with
  | nil => simp [inName] at h
  | cons c rest ih =>
    simp only [inName] at h
    split at h
    · rename_i hc
      obtain ⟨rfl, hne⟩ := hc
      obtain ⟨h1, h2⟩ := afterColon_some _ _ _ h
      exact ⟨[], rest, rfl, by simp, hne, h1, by simp [h2]⟩
    · rename_i hc
      obtain ⟨pre, post, rfl, h1, h2, h3, h4⟩ := ih (i + 1) h
      have hcc : c ≠ ':' := by
        intro e; subst e
        apply hc
        refine ⟨rfl, ?_⟩
        simp
      exact ⟨c :: pre, post, rfl, by simp [h1, Ne.symm hcc], h2, h3, by simp [h4]; omega⟩

theorem take_app (pre post : List Char) : (pre ++ post).take pre.length = pre := by
  induction pre <;> simp [*]
theorem drop_app (pre : List Char) (x : Char) (post : List Char) :
    (pre ++ x :: post).drop (pre.length + 1) = post := by
  induction pre <;> simp [*]

theorem utf8Len_ge (s : Str) : s.length ≤ utf8Len s := by
  induction s with
  | nil => simp [utf8Len]
  | cons c rest ih =>
    have : 1 ≤ c.utf8Size := Char.utf8Size_pos c
    simp only [utf8Len, List.map_cons, List.sum_cons, List.length_cons] at ih ⊢
    omega


end H5V.Lemmas.XmlTB
