import H5V.Lemmas.HtmlRTTB1
/-!
C07 round trip, tree-builder half, part 2: the invariant `TBInv` (mode "in body", the stack is the
root plus a path of open elements of the class, the list of active formatting elements holds open
formatting elements in stack order, no foster parenting) and its preservation by a start tag, an end
tag and a character token — for ordinary elements ("any other start / end tag"), the plain block
elements (`close_p_element_in_button_scope` is a no-op: no `p` is open) and the formatting elements
`b`, `i`, … (Noah's Ark on the way in; on the way out the adoption agency algorithm finds no
furthest block, or — the entry having been dropped by Noah's Ark — takes its first shortcut).
-/
namespace H5V.Lemmas.HtmlRT
open H5V.Model.HtmlTB
open H5V.Model.Dom (Id SinkOp Output Dom NodeData NodeOrText)
open H5V.Lemmas.HtmlTBSpec

theorem setCurrentLine_apply (d : Dom) (l : Nat) : d.apply (.setCurrentLine l) = .ok (d, .unit) := rfl

theorem pop_apply (d : Dom) (e : Nat) : d.apply (.pop e) = .ok (d, .unit) := rfl

/-- the tree-builder token a tokenizer token becomes (tags, EOF, characters) -/
def tbTok (ignoreLf : Bool) : TokToken → Option Token
  | .tag t => some (.tag t)
  | .eof => some .eof
  | .chars x => charsToken ignoreLf x
  | _ => none

def isPlainTok : TokToken → Bool
  | .tag _ | .eof | .chars _ => true
  | _ => false

/-- `process_token`: line bookkeeping, `ignore_lf`, conversion; then `process_to_completion` -/
theorem processToken_frame (s s' : State) (tok : TokToken) (line : Nat) (r : SinkResult)
    (hp : isPlainTok tok = true)
    (h : Runs (match tbTok s.ignoreLf tok with
        | none => pure .continue_
        | some t => do let st ← getS; processToCompletion (ptcFuel st t) t []) { s with ignoreLf := false } r s') :
    Runs (processToken tok line) s r s' := by
  unfold processToken
  refine runs_getS_bind (fun tr => ?_)
  dsimp only
  have key : ∀ s0 : State, s0 = s → Runs (do
        let __do_lift ← getS
        have ignoreLf : Bool := __do_lift.ignoreLf
        modS fun s => { s with ignoreLf := false }
        match tbTok ignoreLf tok with
        | none => pure .continue_
        | some t => do let st ← getS; processToCompletion (ptcFuel st t) t []) s0 r s' := by
    intro s0 e; subst e
    refine runs_getS_bind (fun tr => ?_)
    dsimp only
    refine runs_modS_bind (fun tr => rfl) ?_
    exact h
  cases tok with
  | tag t =>
    simp only [pure_bind]
    split
    · exact runs_bind (runs_sinkUnit (setCurrentLine_apply _ _)) (key _ rfl)
    · exact key _ rfl
  | eof =>
    simp only [pure_bind]
    split
    · exact runs_bind (runs_sinkUnit (setCurrentLine_apply _ _)) (key _ rfl)
    · exact key _ rfl
  | chars x =>
    simp only [pure_bind]
    split
    · exact runs_bind (runs_sinkUnit (setCurrentLine_apply _ _)) (key _ rfl)
    · exact key _ rfl
  | _ => simp [isPlainTok] at hp

def noAck : Token → Bool
  | .tag t => !(t.selfClosing && t.kind == .startTag)
  | _ => true

/-- `process_to_completion` for a token the "in body" rules answer with `Done` -/
theorem ptc_done (s s' : State) (tok : Token) (hna : noAck tok = true)
    (hf : Query (isForeign tok) s false) (hmode : s.mode = .inBody)
    (hstep : Runs (stepInBody tok) s .done s') :
    Runs (do let st ← getS; processToCompletion (ptcFuel st tok) tok []) s .continue_ s' := by
  refine runs_getS_bind (fun tr => ?_)
  obtain ⟨k, hk⟩ : ∃ k, ptcFuel (withTr s tr) tok = k + 1 :=
    ⟨_, (Nat.succ_pred_eq_of_pos (by unfold ptcFuel; omega)).symm⟩
  rw [hk]
  unfold processToCompletion
  dsimp only
  refine runs_bind (Runs.of_query hf) ?_
  simp only [Bool.false_eq_true, if_false]
  refine runs_getS_bind (fun tr => ?_)
  have hm : (withTr s tr).mode = Mode.inBody := hmode
  rw [hm]
  refine runs_bind (show Runs (step .inBody tok) _ .done s' from hstep) ?_
  cases tok with
  | tag t =>
    have hsa : (t.selfClosing && t.kind == .startTag) = false := by
      simp only [noAck, Bool.not_eq_true'] at hna; exact hna
    simp only [hsa, Bool.false_eq_true, if_false]
    exact runs_pure _ _
  | _ =>
    simp only [Bool.false_eq_true, if_false]
    exact runs_pure _ _

/-! ### names -/

theorem isOneOf_append (n : Str) (a b : List String) : isOneOf n (a ++ b) = (isOneOf n a || isOneOf n b) := by
  simp [isOneOf, List.any_append]

/-- `n` is in none of the lists -/
def NotIn (n : Str) : List (List String) → Prop
  | [] => True
  | l :: r => isOneOf n l = false ∧ NotIn n r

theorem notIn_of_flatten (n : Str) (L : List (List String)) (h : isOneOf n L.flatten = false) : NotIn n L := by
  induction L with
  | nil => trivial
  | cons l r ih =>
    rw [List.flatten_cons, isOneOf_append, Bool.or_eq_false_iff] at h
    exact ⟨h.1, ih h.2⟩

theorem ordinary_notIn {n : Str} (h : ordinaryName n = true) : NotIn n startLists ∧ NotIn n endLists := by
  simp only [ordinaryName, Bool.and_eq_true, Bool.not_eq_true'] at h
  have h2 := h.2
  rw [specialNames, isOneOf_append, Bool.or_eq_false_iff] at h2
  exact ⟨notIn_of_flatten _ _ h2.1, notIn_of_flatten _ _ h2.2⟩

theorem isName_of_isOneOf {n : Str} {x : String} (h : isOneOf n [x] = false) : isName n x = false := by
  simpa [isOneOf, isName] using h

/-! ### the list of active formatting elements -/

def entryId : FormatEntry → Nat
  | .element h _ => h
  | .marker => 0

/-- the list of active formatting elements holds (some of) the open formatting elements, in stack
order, no markers -/
structure AFInv (s : State) : Prop where
  ent : ∀ e ∈ s.activeFormatting, ∃ h t, e = .element h t ∧ h ∈ s.openElems ∧ fmtName t.name = true ∧
    ∃ as p ch, s.dom.nodes[h]? = some ⟨elData t.name as, p, ch⟩
  sorted : (s.activeFormatting.map entryId).Pairwise (· < ·)

/-- the invariant survives changes that keep the list, keep its elements open and keep their nodes
elements of the same name -/
theorem AFInv.mono {s s' : State} (h : AFInv s) (haf : s'.activeFormatting = s.activeFormatting)
    (hopen : ∀ e ∈ s.activeFormatting, entryId e ∈ s.openElems → entryId e ∈ s'.openElems)
    (hdom : ∀ (x : Nat) (nm : Str) (as : List (Str × Str)) (p : Option Nat) (ch : List Nat),
      s.dom.nodes[x]? = some ⟨elData nm as, p, ch⟩ →
      ∃ as' p' ch', s'.dom.nodes[x]? = some ⟨elData nm as', p', ch'⟩) : AFInv s' := by
  refine ⟨?_, by rw [haf]; exact h.sorted⟩
  intro e he
  rw [haf] at he
  obtain ⟨x, t, rfl, hx, hf, as, p, ch, hn⟩ := h.ent e he
  obtain ⟨as', p', ch', hn'⟩ := hdom x t.name as p ch hn
  exact ⟨x, t, rfl, hopen _ he hx, hf, as', p', ch', hn'⟩

theorem sameNode_apply (d : Dom) (x y : Nat) : d.apply (.sameNode x y) = .ok (d, .bool (x == y)) := rfl

theorem query_sameNode (s : State) (x y : Nat) : Query (sameNode x y) s (x == y) := by
  intro tr
  refine ⟨(.sameNode x y, .bool (x == y)) :: tr, ?_⟩
  simp [sameNode, sinkBool, sink, withTr, sameNode_apply, StateT.run, bind, StateT.bind, Except.bind,
    pure, StateT.pure, Except.pure]

theorem anySameNodeRev_mem (s : State) (node : Nat) (l : List Nat) (h : node ∈ l) :
    Query (anySameNodeRev node l) s true := by
  induction l with
  | nil => simp at h
  | cons x rest ih =>
    simp only [anySameNodeRev]
    refine query_bind (query_sameNode s x node) ?_
    by_cases hx : x = node
    · simp only [hx, BEq.rfl, if_true]; exact query_pure _ _
    · have : (x == node) = false := by simpa using hx
      simp only [this, Bool.false_eq_true, if_false]
      exact ih (by simpa [Ne.symm hx] using h)

theorem elData_name_inj {n n' : Str} {as as' : List (Str × Str)} {p p' : Option Nat} {ch ch' : List Nat}
    (h : (some ⟨elData n as, p, ch⟩ : Option H5V.Model.Dom.Node) = some ⟨elData n' as', p', ch'⟩) : n = n' := by
  simp only [Option.some.injEq, H5V.Model.Dom.Node.mk.injEq, elData, NodeData.element.injEq, htmlQual,
    H5V.Model.Dom.QualName.mk.injEq] at h
  exact h.1.1.2.2

/-- `create + append` keeps every element node an element of the same name -/
theorem Pushed.keepsElems {d d' : Dom} {top : Nat} {ptop : H5V.Model.Dom.Node} {data : NodeData}
    (hp : Pushed d d' top ptop data) (htop : d.nodes[top]? = some ptop)
    (x : Nat) (nm : Str) (as : List (Str × Str)) (p : Option Nat) (ch : List Nat)
    (hx : d.nodes[x]? = some ⟨elData nm as, p, ch⟩) :
    ∃ as' p' ch', d'.nodes[x]? = some ⟨elData nm as', p', ch'⟩ := by
  have hlt := lt_of_get? hx
  by_cases hxt : x = top
  · subst hxt
    rw [htop] at hx
    cases hx
    exact ⟨as, p, _, hp.atTop⟩
  · exact ⟨as, p, ch, by rw [hp.frame x hxt (Nat.ne_of_lt hlt)]; exact hx⟩

/-! ### the invariant -/

/-- the state of the tree builder in the middle of an ordinary fragment: `lower` = the open
elements below the current node (root first), `top` = the current node, `tp`/`tid` its parent / id -/
structure TBInv (s : State) (lower : List Frame) (top : Frame) (tp tid : Nat) : Prop where
  low : Lower s.dom 0 2 lower tp tid
  topNode : s.dom.nodes[tid]? = some ⟨elData top.name top.attrs, some tp, childIds (tid + 1) top.cs⟩
  topRep : RepF s.dom tid (tid + 1) top.cs
  size : s.dom.nodes.size = tid + 1 + sizeF top.cs
  stack : s.openElems = openIds 2 lower ++ [tid]
  ctxNode : s.dom.nodes[1]? = some ⟨elData nDiv [], none, []⟩
  ctx : s.contextElem = some 1
  mode : s.mode = .inBody
  tm : s.templateModes = []
  afi : AFInv s
  foster : s.fosterParenting = false
  form : s.formElem = none
  ilf : s.ignoreLf = false
  notTemplate : ∀ f ∈ lower ++ [top], isName f.name "template" = false
  /-- no parse error has been reported to the sink -/
  errs : s.dom.errorsRev = []
  /-- no `p` element is open -/
  notP : ∀ f ∈ lower ++ [top], isName f.name "p" = false

theorem TBInv.two_le {s lower top tp tid} (h : TBInv s lower top tp tid) : 2 ≤ tid :=
  lower_le _ _ _ _ _ _ h.low

theorem TBInv.last {s lower top tp tid} (h : TBInv s lower top tp tid) : s.openElems.getLast? = some tid := by
  rw [h.stack]; simp

theorem elData_elemName {d : Dom} {i : Nat} {n : Str} {as p ch}
    (h : d.nodes[i]? = some ⟨elData n as, p, ch⟩) : d.elemName i = .ok (nsHtml, n) :=
  dom_elemName h

theorem elData_ip {d : Dom} {i : Nat} {n : Str} {as p ch}
    (h : d.nodes[i]? = some ⟨elData n as, p, ch⟩) : d.isMathmlAnnotationXmlIntegrationPoint i = .ok false := by
  simp [Dom.isMathmlAnnotationXmlIntegrationPoint, dom_get h, bind, Except.bind, elData]

/-- in an ordinary fragment nothing is ever dispatched to the foreign-content rules -/
theorem TBInv.notForeign {s lower top tp tid} (h : TBInv s lower top tp tid) (tok : Token) :
    Query (isForeign tok) s false := by
  have hne : ∀ (c : Nat) (n : Str) (as p ch), s.dom.nodes[c]? = some ⟨elData n as, p, ch⟩ →
      Spec.TreeAlgo.adjustedCurrentNode s.openElems.reverse s.contextElem = some c →
      Query (isForeign tok) s false := by
    intro c n as p ch hc hadj
    have := isForeign_query_pure s tok c ⟨nsHtml, n⟩ false hadj (elData_elemName hc) (elData_ip hc)
    have e : isForeignPure tok ⟨nsHtml, n⟩ false = false := by
      unfold isForeignPure
      by_cases he : (tok == Token.eof) = true
      · simp [he]
      · simp [he]
    rw [e] at this; exact this
  rw [h.stack, h.ctx] at hne
  cases hl : lower with
  | nil =>
    refine hne 1 nDiv [] none [] h.ctxNode ?_
    simp [hl, openIds, Spec.TreeAlgo.adjustedCurrentNode]
  | cons f rest =>
    refine hne tid top.name top.attrs _ _ h.topNode ?_
    simp only [hl, openIds, List.cons_append, List.reverse_append, List.reverse_cons, List.reverse_nil,
      List.nil_append, List.cons_append]
    cases hr : (openIds (2 + 1 + sizeF f.cs) rest).reverse with
    | nil => simp [Spec.TreeAlgo.adjustedCurrentNode]
    | cons a b => simp [Spec.TreeAlgo.adjustedCurrentNode]

theorem query_currentNode {s : State} {h : Nat} (hl : s.openElems.getLast? = some h) : Query currentNode s h := by
  unfold currentNode
  refine query_getS_bind (fun tr => ?_)
  simp only [withTr_openElems, hl]
  exact query_pure _ _

theorem query_htmlElemNamed {s : State} {i : Nat} {n : Str} {as p ch}
    (h : s.dom.nodes[i]? = some ⟨elData n as, p, ch⟩) (x : String) :
    Query (htmlElemNamed i x) s (n == x.toList) := by
  have := query_htmlElemNamedS (query_elemName (elData_elemName h)) x.toList
  simpa [htmlElemNamed] using this

theorem isName_eq (n : Str) (x : String) : (n == x.toList) = isName n x := by
  unfold isName; exact BEq.comm

/-- `appropriate_place_for_insertion(None)`: the current node -/
theorem TBInv.place {s lower top tp tid} (h : TBInv s lower top tp tid) :
    Query (appropriatePlaceForInsertion none) s (.lastChild tid) := by
  unfold appropriatePlaceForInsertion
  refine query_bind (query_currentNode h.last) ?_
  refine query_getS_bind (fun tr => ?_)
  simp only [withTr_foster, h.foster, Bool.false_eq_true, if_false]
  rw [pure_bind]
  simp only [Bool.not_false, if_true]
  refine query_bind (query_htmlElemNamed h.topNode "template") ?_
  rw [isName_eq, h.notTemplate top (by simp)]
  simp only [Bool.false_eq_true, if_false]
  exact query_pure _ _

theorem TBInv.noReconstruct {s lower top tp tid} (h : TBInv s lower top tp tid) :
    Query reconstructActiveFormattingElements s () := by
  unfold reconstructActiveFormattingElements
  refine query_getS_bind (fun tr => ?_)
  simp only [withTr_af]
  cases hl : s.activeFormatting.getLast? with
  | none => exact query_pure _ _
  | some last =>
    obtain ⟨x, t, rfl, hx, _⟩ := h.afi.ent last (List.mem_of_getLast? hl)
    simp only
    refine query_bind (a := true) ?_ (by simp only [if_true]; exact query_pure _ _)
    unfold isMarkerOrOpen
    refine query_getS_bind (fun tr => ?_)
    simp only [withTr_openElems]
    exact anySameNodeRev_mem s x _ (List.mem_reverse.mpr hx)

/-! ### start tag -/

theorem createFlags_eq (n : Str) (as : List (Str × Str)) (hn : isName n "template" = false) :
    createElementWithFlags { pfx := none, ns := nsHtml, loc := n } (tbAttrs as) false
      = sinkNode (.createElement (htmlQual n) (tbAttrs as) plainFlags) := by
  have h1 : (nsHtml == nsMathml) = false := by decide
  simp [createElementWithFlags, hn, h1, htmlQual, plainFlags]

theorem TBInv.insertFor {s lower top tp tid} (h : TBInv s lower top tp tid) (n : Str)
    (as : List (Str × Str)) (hn : isName n "template" = false) :
    ∃ d', Pushed s.dom d' tid ⟨elData top.name top.attrs, some tp, childIds (tid + 1) top.cs⟩ (elData n as) ∧
      Runs (insertElementFor (tbStart n as)) s s.dom.nodes.size
        { s with openElems := s.openElems ++ [s.dom.nodes.size], dom := d' } := by
  obtain ⟨d1, d', e1, e2, hp⟩ := dom_create_append s.dom tid _ n as h.topNode
  refine ⟨d', hp, ?_⟩
  unfold insertElementFor insertElement
  simp only [tbStart]
  refine runs_bind (Runs.of_query h.place) ?_
  dsimp only [InsertionPoint.nodes]
  refine runs_getS_bind (fun tr => ?_)
  rw [show (withTr s tr).formElem = none from h.form]
  simp only [Option.isSome_none, Bool.and_false, Bool.false_eq_true, if_false]
  rw [pure_bind, createFlags_eq n as hn]
  refine runs_bind (runs_sinkNode e1) ?_
  simp only [Bool.false_eq_true, if_false]
  refine runs_bind (s1 := { s with dom := d' }) (a := ()) ?_ ?_
  · exact runs_sinkUnit (s := { s with dom := d1 }) e2
  simp only [if_true]
  refine runs_bind (s1 := { s with openElems := s.openElems ++ [s.dom.nodes.size], dom := d' }) (a := ()) ?_ (runs_pure _ _)
  unfold push
  exact runs_modS (fun tr => rfl)

theorem sizeF_nil : sizeF [] = 0 := by simp [sizeF]

/-- a new open element that gets no entry: the list of active formatting elements stays valid -/
theorem TBInv.afi_pushed_same {s lower top tp tid} (h : TBInv s lower top tp tid) (d' : Dom) (data : NodeData)
    (hp : Pushed s.dom d' tid ⟨elData top.name top.attrs, some tp, childIds (tid + 1) top.cs⟩ data) :
    AFInv { s with openElems := s.openElems ++ [s.dom.nodes.size], dom := d' } :=
  h.afi.mono rfl (fun _ _ hx => List.mem_append_left _ hx) (hp.keepsElems h.topNode)

theorem TBInv.pushed {s lower top tp tid} (h : TBInv s lower top tp tid) (n : Str) (as : List (Str × Str))
    (hn : isName n "template" = false) (hnp : isName n "p" = false) (d' : Dom)
    (hp : Pushed s.dom d' tid ⟨elData top.name top.attrs, some tp, childIds (tid + 1) top.cs⟩ (elData n as))
    (af' : List FormatEntry)
    (s' : State) (hs' : s' = { s with openElems := s.openElems ++ [s.dom.nodes.size], activeFormatting := af',
                                      dom := d' })
    (hafi : AFInv s') :
    TBInv s' (lower ++ [top]) ⟨n, as, []⟩ tid s.dom.nodes.size := by
  subst hs'
  have h2 := h.two_le
  have hsz := h.size
  have hfr : ∀ i, i < s.dom.nodes.size → i ≠ tid → d'.nodes[i]? = s.dom.nodes[i]? :=
    fun i h1 h2 => hp.frame i h2 (Nat.ne_of_lt h1)
  have hlow : Lower d' 0 2 lower tp tid :=
    lower_frame s.dom d' 0 2 lower tp tid (fun i _ h2 => hfr i (by omega) (by omega)) h.low
  have hrep : RepF d' tid (tid + 1) top.cs :=
    repF_frame s.dom d' tid top.cs (tid + 1) (fun i h1 h2 => hfr i (by omega) (by omega)) h.topRep
  refine ⟨?_, ?_, ?_, ?_, ?_, ?_, h.ctx, h.mode, h.tm, hafi, h.foster, h.form, h.ilf, ?_,
    by show d'.errorsRev = []; rw [hp.errs]; exact h.errs, ?_⟩
  · have := lower_snoc d' 0 2 lower tp tid top hlow (by rw [hp.atTop, hsz]) hrep
    rw [hsz]; exact this
  · simpa [childIds] using hp.atNew
  · simp [RepF]
  · show d'.nodes.size = _
    rw [hp.size, sizeF_nil]
  · show s.openElems ++ [s.dom.nodes.size] = _
    rw [h.stack, openIds_snoc 2 lower top d' 0 tp tid hlow]
  · show d'.nodes[1]? = _
    rw [hfr 1 (by omega) (by omega)]; exact h.ctxNode
  · intro f hf
    simp only [List.mem_append, List.mem_singleton] at hf
    rcases hf with hf | rfl
    · exact h.notTemplate f (by simpa using hf)
    · exact hn
  · intro f hf
    simp only [List.mem_append, List.mem_singleton] at hf
    rcases hf with hf | rfl
    · exact h.notP f (by simpa using hf)
    · exact hnp

/-- **start tag** of an ordinary element: a new element becomes the last child of the current node
and the new current node; the sink answers `Continue` -/
theorem TBInv.startTag {s lower top tp tid} (h : TBInv s lower top tp tid) (n : Str) (as : List (Str × Str))
    (hn : ordinaryName n = true) :
    ∃ s', (∀ line, Runs (processToken (.tag (tbStart n as)) line) s .continue_ s') ∧
      TBInv s' (lower ++ [top]) ⟨n, as, []⟩ tid s.dom.nodes.size := by
  obtain ⟨hS, hE⟩ := ordinary_notIn hn
  simp only [NotIn, startLists, endLists] at hS hE
  have hnt : isName n "template" = false := isName_of_isOneOf hE.1
  have e : ({ s with ignoreLf := false } : State) = s := by
    have := h.ilf
    cases s; simp_all
  obtain ⟨d', hp, hrun⟩ := h.insertFor n as hnt
  have hnp : isName n "p" = false := isName_of_isOneOf hE.2.2.2.2.2.2.1
  refine ⟨_, fun line => ?_, h.pushed n as hnt hnp d' hp s.activeFormatting _ rfl (h.afi_pushed_same d' _ hp)⟩
  refine processToken_frame s _ _ line _ rfl ?_
  rw [e]
  simp only [tbTok]
  refine ptc_done _ _ _ (by simp [noAck, tbStart]) (h.notForeign _) h.mode ?_
  unfold stepInBody
  have hk : ((tbStart n as).kind == .startTag) = true := rfl
  have hk2 : ((tbStart n as).kind == .endTag) = false := rfl
  have hnm : (tbStart n as).name = n := rfl
  simp only [Tag.isStart, Tag.isEnd, hk, hk2, hnm, hS, hE, Bool.and_false, Bool.false_eq_true, if_false,
    Bool.or_false, if_true]
  refine runs_getS_bind (fun tr => ?_)
  simp only [isName_of_isOneOf hS.2.2.2.2.2.2.2.2.2.2.2.2.2.2.2.2.2.2.2.2.2.2.2.2.2.2.2.2.2.2.2.2.2.2.1,
    Bool.and_false, Bool.false_eq_true, if_false]
  refine runs_bind (Runs.of_query h.noReconstruct) ?_
  exact runs_bind hrun (runs_pure _ _)

/-! ### end tag -/

theorem eq_self_withIlf {s : State} (h : s.ignoreLf = false) : ({ s with ignoreLf := false } : State) = s := by
  cases s; simp_all

theorem TBInv.length {s lower top tp tid} (h : TBInv s lower top tp tid) :
    s.openElems.length = (openIds 2 lower).length + 1 := by
  rw [h.stack]; simp

/-- `process_end_tag_in_body` when the current node has the tag's name: it is popped -/
theorem TBInv.endTagInBody {s lower top tp tid} (h : TBInv s lower top tp tid) :
    Runs (processEndTagInBody (tbEnd top.name)) s () { s with openElems := openIds 2 lower } := by
  have hlen := h.length
  have hnm : (tbEnd top.name).name = top.name := rfl
  unfold processEndTagInBody
  rw [hnm]
  refine runs_getS_bind (fun tr => ?_)
  simp only [withTr_openElems]
  refine runs_bind (s1 := s) (a := some (some (s.openElems.length - 1))) (Runs.of_query ?_) ?_
  · rw [h.stack]
    simp only [List.reverse_append, List.reverse_cons, List.reverse_nil, List.nil_append, List.cons_append,
      endTagSearch]
    refine query_bind (query_htmlElemNamedS (query_elemName (elData_elemName h.topNode)) top.name) ?_
    simp only [BEq.rfl, Bool.and_self, if_true]
    exact query_pure _ _
  dsimp only
  refine runs_bind (s1 := s) (a := ()) (Runs.of_query ?_) ?_
  · unfold generateImpliedEndExcept generateImpliedEndTags
    refine query_getS_bind (fun tr => ?_)
    simp only [withTr_openElems, generateImpliedEndTagsLoop]
    refine query_getS_bind (fun tr => ?_)
    simp only [withTr_openElems, h.last]
    refine query_bind (query_elemName (elData_elemName h.topNode)) ?_
    simp only [impliedExcept, BEq.rfl, Bool.and_self, if_true, Bool.not_false]
    exact query_pure _ _
  refine runs_getS_bind (fun tr => ?_)
  simp only [withTr_openElems]
  have h0 : (s.openElems.length == 0) = false := by rw [hlen]; simp
  simp only [h0, Bool.false_eq_true, if_false, bne_self_eq_false]
  have := runs_modS (g := fun s1 : State => { s1 with openElems := s1.openElems.take (s.openElems.length - 1) })
    (s := s) (fun tr => rfl)
  have e : s.openElems.take (s.openElems.length - 1) = openIds 2 lower := by
    rw [h.stack]; simp
  simp only [e] at this
  exact this

/-- popping a current node that is not a formatting element keeps the list valid -/
theorem TBInv.afi_pop_same {s lower prev n as cs tp tid} (h : TBInv s (lower ++ [prev]) ⟨n, as, cs⟩ tp tid)
    (hnf : fmtName n = false) : AFInv { s with openElems := openIds 2 (lower ++ [prev]) } := by
  refine h.afi.mono rfl ?_ (fun x nm as p ch hx => ⟨as, p, ch, hx⟩)
  intro e he hx
  obtain ⟨x, t, rfl, _, hf, as', p', ch', hn⟩ := h.afi.ent e he
  rw [h.stack, List.mem_append, List.mem_singleton] at hx
  rcases hx with hx | hx
  · exact hx
  · exfalso
    simp only [entryId] at hx
    subst hx
    have := elData_name_inj (hn.symm.trans h.topNode)
    rw [this] at hf
    rw [hnf] at hf; cases hf

/-- closing the current node (no change of the arena): it becomes the last closed child of its parent -/
theorem TBInv.closeTop {s lower prev n as cs tp tid tp0 tid0} (h : TBInv s (lower ++ [prev]) ⟨n, as, cs⟩ tp tid)
    (hlow : Lower s.dom 0 2 lower tp0 tid0) (e1 : tp = tid0) (e2 : tid = tid0 + 1 + sizeF prev.cs)
    (hnode : s.dom.nodes[tid0]? = some ⟨elData prev.name prev.attrs, some tp0,
      childIds (tid0 + 1) prev.cs ++ [tid0 + 1 + sizeF prev.cs]⟩)
    (hrep : RepF s.dom tid0 (tid0 + 1) prev.cs) (af' : List FormatEntry)
    (hafi : AFInv { s with openElems := openIds 2 (lower ++ [prev]), activeFormatting := af' }) :
    TBInv { s with openElems := openIds 2 (lower ++ [prev]), activeFormatting := af' } lower
      ⟨prev.name, prev.attrs, prev.cs ++ [.elem n as cs]⟩ tp0 tid0 := by
  have hsz := h.size
  have htop := h.topNode
  have htr := h.topRep
  rw [e1] at htop
  refine ⟨hlow, ?_, ?_, ?_, ?_, h.ctxNode, h.ctx, h.mode, h.tm, hafi, h.foster, h.form, h.ilf, ?_, h.errs, ?_⟩
  · show s.dom.nodes[tid0]? = _
    rw [hnode, childIds_append]
    simp [childIds]
  · show RepF s.dom tid0 (tid0 + 1) (prev.cs ++ [HNode.elem n as cs])
    rw [repF_append]
    refine ⟨hrep, ?_⟩
    simp only [RepF, RepT, and_true]
    rw [← e2]
    exact ⟨htop, htr⟩
  · show s.dom.nodes.size = _
    rw [hsz, sizeF_append]
    simp only [sizeF, HNode.size] at *
    omega
  · show openIds 2 (lower ++ [prev]) = _
    exact openIds_snoc 2 lower prev s.dom 0 tp0 tid0 hlow
  · intro f hf
    simp only [List.mem_append, List.mem_singleton] at hf
    rcases hf with hf | rfl
    · exact h.notTemplate f (by simp [hf])
    · exact h.notTemplate prev (by simp)
  · intro f hf
    simp only [List.mem_append, List.mem_singleton] at hf
    rcases hf with hf | rfl
    · exact h.notP f (by simp [hf])
    · exact h.notP prev (by simp)

/-- **end tag** of the current node: it is closed and becomes the last closed child of its parent -/
theorem TBInv.endTag {s lower prev n as cs tp tid} (h : TBInv s (lower ++ [prev]) ⟨n, as, cs⟩ tp tid)
    (hn : ordinaryName n = true) :
    ∃ s' tp0 tid0, (∀ line, Runs (processToken (.tag (tbEnd n)) line) s .continue_ s') ∧
      TBInv s' lower ⟨prev.name, prev.attrs, prev.cs ++ [.elem n as cs]⟩ tp0 tid0 := by
  obtain ⟨hS, hE⟩ := ordinary_notIn hn
  simp only [NotIn, startLists, endLists] at hS hE
  obtain ⟨tp0, tid0, hlow, e1, e2, hnode, hrep⟩ := lower_snoc_inv _ _ _ _ _ _ _ h.low
  refine ⟨{ s with openElems := openIds 2 (lower ++ [prev]) }, tp0, tid0, fun line => ?_, ?_⟩
  · refine processToken_frame s _ _ line _ rfl ?_
    rw [eq_self_withIlf h.ilf]
    simp only [tbTok]
    refine ptc_done _ _ _ (by simp [noAck, tbEnd]) (h.notForeign _) h.mode ?_
    unfold stepInBody
    have hk : ((tbEnd n).kind == .startTag) = false := rfl
    have hk2 : ((tbEnd n).kind == .endTag) = true := rfl
    have hnm : (tbEnd n).name = n := rfl
    simp only [Tag.isStart, Tag.isEnd, hk, hk2, hnm, hS, hE, Bool.and_false, Bool.false_eq_true, if_false,
      Bool.or_false]
    exact runs_bind (h.endTagInBody) (runs_pure _ _)
  · exact h.closeTop hlow e1 e2 hnode hrep s.activeFormatting (h.afi_pop_same (show fmtName n = false from hS.2.2.2.2.2.2.2.2.2.2.2.2.2.1))

/-! ### plain block elements -/

/-- every open element is an HTML element of the arena whose name is the name of its frame -/
theorem lower_nodes (d : Dom) (p id : Nat) (l : List Frame) (tp tid : Nat) (h : Lower d p id l tp tid) :
    ∀ x ∈ openIds id l, ∃ f ∈ l, ∃ pp ch, d.nodes[x]? = some ⟨elData f.name f.attrs, pp, ch⟩ := by
  induction l generalizing p id with
  | nil => intro x hx; simp [openIds] at hx
  | cons g rest ih =>
    intro x hx
    simp only [Lower] at h
    simp only [openIds, List.mem_cons] at hx
    rcases hx with rfl | hx
    · exact ⟨g, by simp, _, _, h.1⟩
    · obtain ⟨f, hf, pp, ch, e⟩ := ih _ _ h.2.2 x hx
      exact ⟨f, by simp [hf], pp, ch, e⟩

theorem TBInv.openNodes {s lower top tp tid} (h : TBInv s lower top tp tid) :
    ∀ x ∈ s.openElems, ∃ f ∈ lower ++ [top], ∃ pp ch, s.dom.nodes[x]? = some ⟨elData f.name f.attrs, pp, ch⟩ := by
  intro x hx
  rw [h.stack, List.mem_append, List.mem_singleton] at hx
  rcases hx with hx | rfl
  · obtain ⟨f, hf, pp, ch, e⟩ := lower_nodes _ _ _ _ _ _ h.low x hx
    exact ⟨f, by simp [hf], pp, ch, e⟩
  · exact ⟨top, by simp, _, _, h.topNode⟩

/-- a scope search for a name no open element has fails -/
theorem inScopeLoop_absent (s : State) (scope : EName → Bool) (name : Str) (l : List Nat)
    (hl : ∀ x ∈ l, ∃ nm as pp ch, s.dom.nodes[x]? = some ⟨elData nm as, pp, ch⟩ ∧ (nm == name) = false) :
    Query (inScopeLoop scope (fun h => htmlElemNamedS h name) l) s false := by
  induction l with
  | nil => exact query_pure _ _
  | cons x rest ih =>
    obtain ⟨nm, as, pp, ch, hn, hne⟩ := hl x (by simp)
    simp only [inScopeLoop]
    refine query_bind (query_htmlElemNamedS (query_elemName (elData_elemName hn)) name) ?_
    simp only [hne, Bool.and_false, Bool.false_eq_true, if_false]
    refine query_bind (query_elemName (elData_elemName hn)) ?_
    split
    · exact query_pure _ _
    · exact ih (fun y hy => hl y (by simp [hy]))

theorem TBInv.noPInScope {s lower top tp tid} (h : TBInv s lower top tp tid) :
    Query closePElementInButtonScope s () := by
  have hp := h.notP
  unfold closePElementInButtonScope
  refine query_bind (a := false) ?_ (by simp only [Bool.false_eq_true, if_false]; exact query_pure _ _)
  unfold inScopeNamed inScopeNamedS inScope
  refine query_getS_bind (fun tr => ?_)
  simp only [withTr_openElems]
  refine inScopeLoop_absent s _ _ _ ?_
  intro x hx
  obtain ⟨f, hf, pp, ch, e⟩ := h.openNodes x (List.mem_reverse.mp hx)
  exact ⟨f.name, f.attrs, pp, ch, e, by rw [isName_eq]; exact hp f hf⟩

def blockStartList : List String :=
  ["address", "article", "aside", "blockquote", "center", "details", "dialog",
   "dir", "div", "dl", "fieldset", "figcaption", "figure", "footer", "header",
   "hgroup", "main", "nav", "ol", "p", "search", "section", "summary", "ul"]
def blockEndList : List String :=
  ["address", "article", "aside", "blockquote", "button", "center", "details",
   "dialog", "dir", "div", "dl", "fieldset", "figcaption", "figure", "footer",
   "header", "hgroup", "listing", "main", "menu", "nav", "ol", "pre", "search",
   "section", "select", "summary", "ul"]

def blockCheck (n : Str) : Bool :=
  !isOneOf n ["html"] &&
  !isOneOf n ["base", "basefont", "bgsound", "link", "meta", "noframes", "script", "style", "template", "title"] &&
  !isOneOf n ["body"] && !isOneOf n ["frameset"] && (isOneOf n ["address", "article", "aside", "blockquote", "center", "details", "dialog",
   "dir", "div", "dl", "fieldset", "figcaption", "figure", "footer", "header",
   "hgroup", "main", "nav", "ol", "p", "search", "section", "summary", "ul"] || isOneOf n ["menu"]) &&
  !isOneOf n ["template"] && isOneOf n ["address", "article", "aside", "blockquote", "button", "center", "details",
   "dialog", "dir", "div", "dl", "fieldset", "figcaption", "figure", "footer",
   "header", "hgroup", "listing", "main", "menu", "nav", "ol", "pre", "search",
   "section", "select", "summary", "ul"] && tagNameOk n && !isName n "p" && !isName n "template" &&
  !cursoryImpliedEnd ⟨nsHtml, n⟩ && !fmtName n

theorem blockCheck_all : blockNames.all (fun s => blockCheck s.toList) = true := by decide +kernel

theorem block_facts {n : Str} (h : blockName n = true) : blockCheck n = true := by
  unfold blockName isOneOf at h
  rw [List.any_eq_true] at h
  obtain ⟨s, hs, e⟩ := h
  have := List.all_eq_true.mp blockCheck_all s hs
  have e' : s.toList = n := by simpa using e
  rw [e'] at this
  exact this

/-- **start tag** of a plain block element: no `p` element is open, so it is just inserted -/
theorem TBInv.startTagBlock {s lower top tp tid} (h : TBInv s lower top tp tid) (n : Str) (as : List (Str × Str))
    (hn : blockName n = true) :
    ∃ s', (∀ line, Runs (processToken (.tag (tbStart n as)) line) s .continue_ s') ∧
      TBInv s' (lower ++ [top]) ⟨n, as, []⟩ tid s.dom.nodes.size := by
  have hb := block_facts hn
  simp only [blockCheck, Bool.and_eq_true, Bool.not_eq_true', Bool.or_eq_true] at hb
  obtain ⟨⟨⟨⟨⟨⟨⟨⟨⟨⟨⟨b1, b2⟩, b3⟩, b4⟩, b5⟩, b6⟩, b7⟩, b8⟩, b9⟩, b10⟩, b11⟩, b12⟩ := hb
  have e := eq_self_withIlf h.ilf
  obtain ⟨d', hpd, hrun⟩ := h.insertFor n as b10
  refine ⟨_, fun line => ?_, h.pushed n as b10 b9 d' hpd s.activeFormatting _ rfl (h.afi_pushed_same d' _ hpd)⟩
  refine processToken_frame s _ _ line _ rfl ?_
  rw [e]
  simp only [tbTok]
  refine ptc_done _ _ _ (by simp [noAck, tbStart]) (h.notForeign _) h.mode ?_
  unfold stepInBody
  have hk : ((tbStart n as).kind == .startTag) = true := rfl
  have hk2 : ((tbStart n as).kind == .endTag) = false := rfl
  have hnm : (tbStart n as).name = n := rfl
  have body : Runs (do closePElementInButtonScope; let _ ← insertElementFor (tbStart n as); pure ProcessResult.done)
      s .done _ := runs_bind (Runs.of_query h.noPInScope) (runs_bind hrun (runs_pure _ _))
  simp only [Tag.isStart, Tag.isEnd, hk, hk2, hnm, b1, b2, b3, b4, b6, Bool.and_false, Bool.false_eq_true, if_false,
    Bool.or_false, Bool.true_and]
  rcases b5 with b5 | b5
  · simp only [b5, if_true]; exact body
  · by_cases hb5 : isOneOf n ["address", "article", "aside", "blockquote", "center", "details", "dialog",
   "dir", "div", "dl", "fieldset", "figcaption", "figure", "footer", "header",
   "hgroup", "main", "nav", "ol", "p", "search", "section", "summary", "ul"] = true
    · simp only [hb5, if_true]; exact body
    · simp only [hb5, b5, if_true]; exact body

theorem runs_set (s st' : State) (tr : List (SinkOp × Output)) : Runs (set (withTr st' tr) : M Unit) s () st' := by
  intro tr''
  exact ⟨tr, rfl⟩

theorem runs_popSilently {s : State} {x : Nat} (hl : s.openElems.getLast? = some x) :
    Runs popSilently s (some x) { s with openElems := s.openElems.dropLast } := by
  unfold popSilently
  refine runs_getS_bind (fun tr => ?_)
  simp only [withTr_openElems, hl]
  refine runs_bind (s1 := { s with openElems := s.openElems.dropLast }) (a := ()) ?_ (runs_pure _ _)
  exact runs_set s { s with openElems := s.openElems.dropLast } tr

/-- **end tag** of a plain block element that is the current node -/
theorem TBInv.endTagBlock {s lower prev n as cs tp tid} (h : TBInv s (lower ++ [prev]) ⟨n, as, cs⟩ tp tid)
    (hn : blockName n = true) :
    ∃ s' tp0 tid0, (∀ line, Runs (processToken (.tag (tbEnd n)) line) s .continue_ s') ∧
      TBInv s' lower ⟨prev.name, prev.attrs, prev.cs ++ [.elem n as cs]⟩ tp0 tid0 := by
  have hb := block_facts hn
  simp only [blockCheck, Bool.and_eq_true, Bool.not_eq_true', Bool.or_eq_true] at hb
  obtain ⟨⟨⟨⟨⟨⟨⟨⟨⟨⟨⟨b1, b2⟩, b3⟩, b4⟩, b5⟩, b6⟩, b7⟩, b8⟩, b9⟩, b10⟩, b11⟩, b12⟩ := hb
  obtain ⟨tp0, tid0, hlow, e1, e2, hnode, hrep⟩ := lower_snoc_inv _ _ _ _ _ _ _ h.low
  have hlen := h.length
  have hdrop : s.openElems.dropLast = openIds 2 (lower ++ [prev]) := by rw [h.stack]; simp
  refine ⟨{ s with openElems := openIds 2 (lower ++ [prev]) }, tp0, tid0, fun line => ?_, ?_⟩
  · refine processToken_frame s _ _ line _ rfl ?_
    rw [eq_self_withIlf h.ilf]
    simp only [tbTok]
    refine ptc_done _ _ _ (by simp [noAck, tbEnd]) (h.notForeign _) h.mode ?_
    unfold stepInBody
    have hk : ((tbEnd n).kind == .startTag) = false := rfl
    have hk2 : ((tbEnd n).kind == .endTag) = true := rfl
    have hnm : (tbEnd n).name = n := rfl
    simp only [Tag.isStart, Tag.isEnd, hk, hk2, hnm, b1, b3, b6, b7, Bool.and_false, Bool.false_eq_true, if_false,
      Bool.or_false, Bool.true_and, Bool.false_and, if_true]
    -- in scope: the current node has the name
    refine runs_bind (s1 := s) (a := true) (Runs.of_query ?_) ?_
    · unfold inScopeNamedS inScope
      refine query_getS_bind (fun tr => ?_)
      rw [withTr_openElems, h.stack]
      simp only [List.reverse_append, List.reverse_cons, List.reverse_nil, List.nil_append, List.cons_append,
        inScopeLoop]
      refine query_bind (query_htmlElemNamedS (query_elemName (elData_elemName h.topNode)) n) ?_
      simp only [BEq.rfl, Bool.and_self, if_true]
      exact query_pure _ _
    simp only [Bool.not_true, Bool.false_eq_true, if_false]
    refine runs_bind (s1 := s) (a := ()) (Runs.of_query ?_) ?_
    · unfold generateImpliedEndTags
      refine query_getS_bind (fun tr => ?_)
      simp only [withTr_openElems, generateImpliedEndTagsLoop]
      refine query_getS_bind (fun tr => ?_)
      simp only [withTr_openElems, h.last]
      refine query_bind (query_elemName (elData_elemName h.topNode)) ?_
      simp only [b11, Bool.not_false, if_true]
      exact query_pure _ _
    refine runs_bind (s1 := { s with openElems := s.openElems.dropLast }) (a := ()) ?_ (by rw [hdrop]; exact runs_pure _ _)
    unfold expectToCloseS popUntilNamedS popUntil
    refine runs_bind (s1 := { s with openElems := s.openElems.dropLast }) (a := 1) ?_ ?_
    · refine runs_getS_bind (fun tr => ?_)
      simp only [withTr_openElems, popUntilLoop]
      refine runs_bind (runs_popSilently h.last) ?_
      dsimp only
      refine runs_bind (Runs.of_query (query_elemName (s := { s with openElems := s.openElems.dropLast })
        (elData_elemName h.topNode))) ?_
      simp only [BEq.rfl, Bool.and_self, if_true]
      exact runs_pure _ _
    · simp only [bne_self_eq_false, Bool.false_eq_true, if_false]
      exact runs_pure _ _
  · exact h.closeTop hlow e1 e2 hnode hrep s.activeFormatting (h.afi_pop_same b12)

/-! ### formatting elements -/

theorem AFInv.sublist {s : State} (h : AFInv s) (af' : List FormatEntry) (hsub : af'.Sublist s.activeFormatting) :
    AFInv { s with activeFormatting := af' } :=
  ⟨fun e he => h.ent e (hsub.subset he), h.sorted.sublist (hsub.map entryId)⟩

theorem TBInv.withAF {s lower top tp tid} (h : TBInv s lower top tp tid) (af' : List FormatEntry)
    (hsub : af'.Sublist s.activeFormatting) : TBInv { s with activeFormatting := af' } lower top tp tid :=
  ⟨h.low, h.topNode, h.topRep, h.size, h.stack, h.ctxNode, h.ctx, h.mode, h.tm, h.afi.sublist af' hsub, h.foster,
    h.form, h.ilf, h.notTemplate, h.errs, h.notP⟩

theorem afAux_index (l : List (FormatEntry × Nat)) :
    ∀ x ∈ afEndToMarkerAux l, ∃ e, (e, x.1) ∈ l := by
  induction l with
  | nil => intro x hx; simp [afEndToMarkerAux] at hx
  | cons a rest ih =>
    intro x hx
    obtain ⟨e, i⟩ := a
    cases e with
    | marker => simp [afEndToMarkerAux] at hx
    | element h t =>
      simp only [afEndToMarkerAux, List.mem_cons] at hx
      rcases hx with rfl | hx
      · exact ⟨.element h t, by simp⟩
      · obtain ⟨e', he'⟩ := ih x hx
        exact ⟨e', by simp [he']⟩

theorem afEndToMarker_index (af : List FormatEntry) (x : Nat × Nat × Tag) (hx : x ∈ afEndToMarker af) :
    x.1 < af.length := by
  obtain ⟨e, he⟩ := afAux_index _ x hx
  rw [List.mem_reverse] at he
  have := List.mem_zipIdx he
  simp at this
  omega

theorem runs_afRemove (s : State) (i : Nat) (hi : i < s.activeFormatting.length) (site : String) :
    Runs (afRemove i site) s () { s with activeFormatting := s.activeFormatting.eraseIdx i } := by
  unfold afRemove
  refine runs_getS_bind (fun tr => ?_)
  rw [if_pos (show i < (withTr s tr).activeFormatting.length from hi)]
  unfold setAF
  exact runs_modS (fun tr => rfl)

/-- every open element is a node of the arena -/
theorem TBInv.open_lt {s lower top tp tid} (h : TBInv s lower top tp tid) : ∀ x ∈ s.openElems, x < s.dom.nodes.size := by
  intro x hx
  obtain ⟨f, _, pp, ch, e⟩ := h.openNodes x hx
  exact lt_of_get? e

/-- the new formatting element: inserted, pushed, and entered at the end of the list -/
theorem TBInv.fmtInsert {s lower top tp tid} (h : TBInv s lower top tp tid) (n : Str) (as : List (Str × Str))
    (hnt : isName n "template" = false) (hnp : isName n "p" = false) (hf : fmtName n = true) :
    ∃ s', Runs (do
        let elem ← insertElement true nsHtml n (tbAttrs as) false
        modS fun s => { s with activeFormatting := s.activeFormatting ++ [.element elem (tbStart n as)] }
        pure elem : M Nat) s s.dom.nodes.size s' ∧
      TBInv s' (lower ++ [top]) ⟨n, as, []⟩ tid s.dom.nodes.size := by
  obtain ⟨d', hp, hrun⟩ := h.insertFor n as hnt
  let s1 : State := { s with openElems := s.openElems ++ [s.dom.nodes.size], dom := d' }
  let s2 : State := { s1 with activeFormatting := s.activeFormatting ++ [.element s.dom.nodes.size (tbStart n as)] }
  refine ⟨s2, ?_, ?_⟩
  · refine runs_bind (show Runs (insertElementFor (tbStart n as)) s _ s1 from hrun) ?_
    refine runs_bind (s1 := s2) (a := ()) ?_ (runs_pure _ _)
    exact runs_modS (s := s1) (fun tr => rfl)
  · refine h.pushed n as hnt hnp d' hp _ s2 rfl ?_
    have hold := h.afi_pushed_same d' _ hp
    refine ⟨?_, ?_⟩
    · intro e he
      have he' : e ∈ s.activeFormatting ++ [FormatEntry.element s.dom.nodes.size (tbStart n as)] := he
      rw [List.mem_append, List.mem_singleton] at he'
      rcases he' with he' | rfl
      · exact hold.ent e he'
      · exact ⟨_, _, rfl, by show _ ∈ s.openElems ++ [_]; simp, hf, as, some tid, [], hp.atNew⟩
    · show ((s.activeFormatting ++ [FormatEntry.element s.dom.nodes.size (tbStart n as)]).map entryId).Pairwise (· < ·)
      rw [List.map_append, List.pairwise_append]
      refine ⟨h.afi.sorted, by simp, ?_⟩
      intro a ha b hb
      simp only [List.map_cons, List.map_nil, List.mem_singleton, entryId] at hb
      subst hb
      rw [List.mem_map] at ha
      obtain ⟨e, he, rfl⟩ := ha
      obtain ⟨x, t, rfl, hx, _⟩ := h.afi.ent e he
      exact h.open_lt x hx

theorem TBInv.createFmt {s lower top tp tid} (h : TBInv s lower top tp tid) (n : Str) (as : List (Str × Str))
    (hnt : isName n "template" = false) (hnp : isName n "p" = false) (hf : fmtName n = true) :
    ∃ s', Runs (createFormattingElementFor (tbStart n as)) s s.dom.nodes.size s' ∧
      TBInv s' (lower ++ [top]) ⟨n, as, []⟩ tid s.dom.nodes.size := by
  unfold createFormattingElementFor
  have hnm : (tbStart n as).name = n := rfl
  have hat : (tbStart n as).attrs = tbAttrs as := rfl
  have hd : (tbStart n as).hadDup = false := rfl
  rw [hnm, hat, hd]
  generalize hms : (List.filter (fun (x : Nat × Nat × Tag) =>
      match x with | (_, _, old) => (tbStart n as).equivModuloAttrOrder old) (afEndToMarker s.activeFormatting)) = ms
  by_cases hlen : ms.length ≥ 3
  · obtain ⟨x, hx⟩ : ∃ x, ms.getLast? = some x := by
      cases hq : ms.getLast? with
      | some x => exact ⟨x, rfl⟩
      | none =>
        have : ms = [] := List.getLast?_eq_none_iff.mp hq
        rw [this] at hlen; simp at hlen
    have hmem : x ∈ afEndToMarker s.activeFormatting := by
      have := List.mem_of_getLast? hx
      rw [← hms] at this
      exact (List.mem_filter.mp this).1
    have hi := afEndToMarker_index _ x hmem
    have h1 := h.withAF (s.activeFormatting.eraseIdx x.1) (List.eraseIdx_sublist _ _)
    obtain ⟨s', hr, hi'⟩ := h1.fmtInsert n as hnt hnp hf
    refine ⟨s', ?_, hi'⟩
    refine runs_getS_bind (fun tr => ?_)
    simp only [withTr_af, hms, hlen, if_true, hx]
    obtain ⟨i, h2, t2⟩ := x
    simp only
    exact runs_bind (s1 := { s with activeFormatting := s.activeFormatting.eraseIdx i }) (a := ())
      (runs_afRemove s i hi _) hr
  · obtain ⟨s', hr, hi'⟩ := h.fmtInsert n as hnt hnp hf
    refine ⟨s', ?_, hi'⟩
    refine runs_getS_bind (fun tr => ?_)
    simp only [withTr_af, hms, hlen, if_false]
    exact hr

/-- what the rules need to know about a formatting-element name -/
def fmtCheck (n : Str) : Bool :=
  !isOneOf n ["html"] &&
  !isOneOf n ["base", "basefont", "bgsound", "link", "meta", "noframes", "script", "style", "template", "title"] &&
  !isOneOf n ["body"] && !isOneOf n ["frameset"] &&
  !isOneOf n ["address", "article", "aside", "blockquote", "center", "details", "dialog",
               "dir", "div", "dl", "fieldset", "figcaption", "figure", "footer", "header",
               "hgroup", "main", "nav", "ol", "p", "search", "section", "summary", "ul"] &&
  !isOneOf n ["menu"] && !isOneOf n ["h1", "h2", "h3", "h4", "h5", "h6"] && !isOneOf n ["pre", "listing"] &&
  !isOneOf n ["form"] && !isOneOf n ["li", "dd", "dt"] && !isOneOf n ["plaintext"] && !isOneOf n ["button"] &&
  !isOneOf n ["a"] &&
  isOneOf n ["b", "big", "code", "em", "font", "i", "s", "small", "strike", "strong", "tt", "u"] &&
  !isOneOf n ["template"] &&
  !isOneOf n ["address", "article", "aside", "blockquote", "button", "center", "details",
               "dialog", "dir", "div", "dl", "fieldset", "figcaption", "figure", "footer",
               "header", "hgroup", "listing", "main", "menu", "nav", "ol", "pre", "search",
               "section", "select", "summary", "ul"] &&
  !isOneOf n ["option"] && !isOneOf n ["p"] &&
  isOneOf n ["a", "b", "big", "code", "em", "font", "i", "nobr", "s", "small", "strike", "strong", "tt", "u"] &&
  tagNameOk n && !isName n "p" && !isName n "template" && !specialTag ⟨nsHtml, n⟩ && !isOneOf n ["nobr"]

theorem fmtCheck_all : fmtNames.all (fun s => fmtCheck s.toList) = true := by decide +kernel

theorem fmt_facts {n : Str} (h : fmtName n = true) : fmtCheck n = true := by
  unfold fmtName isOneOf at h
  rw [List.any_eq_true] at h
  obtain ⟨s, hs, e⟩ := h
  have := List.all_eq_true.mp fmtCheck_all s hs
  have e' : s.toList = n := by simpa using e
  rw [e'] at this
  exact this

/-- **start tag** of a formatting element -/
theorem TBInv.startTagFmt {s lower top tp tid} (h : TBInv s lower top tp tid) (n : Str) (as : List (Str × Str))
    (hn : fmtName n = true) :
    ∃ s', (∀ line, Runs (processToken (.tag (tbStart n as)) line) s .continue_ s') ∧
      TBInv s' (lower ++ [top]) ⟨n, as, []⟩ tid s.dom.nodes.size := by
  have hb := fmt_facts hn
  simp only [fmtCheck, Bool.and_eq_true, Bool.not_eq_true'] at hb
  obtain ⟨⟨⟨⟨⟨⟨⟨⟨⟨⟨⟨⟨⟨⟨⟨⟨⟨⟨⟨⟨⟨⟨⟨b1, b2⟩, b3⟩, b4⟩, b5⟩, b6⟩, b7⟩, b8⟩, b9⟩, b10⟩, b11⟩, b12⟩, b13⟩, b14⟩, b15⟩, b16⟩, b17⟩, b18⟩, b19⟩, b20⟩, b21⟩, b22⟩, b23⟩, b24⟩ := hb
  have e := eq_self_withIlf h.ilf
  obtain ⟨s', hrun, hi'⟩ := h.createFmt n as b22 b21 hn
  refine ⟨s', fun line => ?_, hi'⟩
  refine processToken_frame s _ _ line _ rfl ?_
  rw [e]
  simp only [tbTok]
  refine ptc_done _ _ _ (by simp [noAck, tbStart]) (h.notForeign _) h.mode ?_
  unfold stepInBody
  have hk : ((tbStart n as).kind == .startTag) = true := rfl
  have hk2 : ((tbStart n as).kind == .endTag) = false := rfl
  have hnm : (tbStart n as).name = n := rfl
  simp only [Tag.isStart, Tag.isEnd, hk, hk2, hnm, b1, b2, b3, b4, b5, b6, b7, b8, b9, b10, b11, b12, b13, b14,
    Bool.and_false, Bool.false_eq_true, if_false, Bool.true_and, if_true]
  exact runs_bind (Runs.of_query h.noReconstruct) (runs_bind hrun (runs_pure _ _))

/-! #### the end tag: adoption agency, "no furthest block" -/

theorem lower_ids_lt (d : Dom) (p id : Nat) (l : List Frame) (tp tid : Nat) (h : Lower d p id l tp tid) :
    ∀ x ∈ openIds id l, x < tid := by
  induction l generalizing p id with
  | nil => intro x hx; simp [openIds] at hx
  | cons g rest ih =>
    intro x hx
    simp only [Lower] at h
    simp only [openIds, List.mem_cons] at hx
    have hle := lower_le d _ _ rest tp tid h.2.2
    rcases hx with rfl | hx
    · omega
    · exact ih _ _ h.2.2 x hx

theorem TBInv.open_le {s lower top tp tid} (h : TBInv s lower top tp tid) : ∀ x ∈ s.openElems, x ≤ tid := by
  intro x hx
  rw [h.stack, List.mem_append, List.mem_singleton] at hx
  rcases hx with hx | rfl
  · exact Nat.le_of_lt (lower_ids_lt _ _ _ _ _ _ h.low x hx)
  · exact Nat.le_refl _

/-- popping the current node together with its entry (if any) keeps the list valid -/
theorem TBInv.afi_pop {s lower prev n as cs tp tid} (h : TBInv s (lower ++ [prev]) ⟨n, as, cs⟩ tp tid)
    (af' : List FormatEntry) (hsub : af'.Sublist s.activeFormatting) (hne : ∀ e ∈ af', entryId e ≠ tid) :
    AFInv { s with openElems := openIds 2 (lower ++ [prev]), activeFormatting := af' } := by
  refine ⟨?_, h.afi.sorted.sublist (hsub.map entryId)⟩
  intro e he
  obtain ⟨x, t, rfl, hx, hf, rest⟩ := h.afi.ent e (hsub.subset he)
  refine ⟨x, t, rfl, ?_, hf, rest⟩
  rw [h.stack, List.mem_append, List.mem_singleton] at hx
  rcases hx with hx | hx
  · exact hx
  · exact absurd hx (hne _ he)

/-- in a strictly increasing list the maximum can only be the last element -/
theorem sorted_max_last (l : List Nat) (m : Nat) (hs : l.Pairwise (· < ·)) (hle : ∀ x ∈ l, x ≤ m) (hm : m ∈ l) :
    ∃ l0, l = l0 ++ [m] ∧ ∀ x ∈ l0, x < m := by
  rcases List.eq_nil_or_concat l with h | ⟨l0, z, h⟩
  · rw [h] at hm; simp at hm
  · rw [List.concat_eq_append] at h
    subst h
    rw [List.pairwise_append] at hs
    have hz : ∀ a ∈ l0, a < z := fun a ha => hs.2.2 a ha z (by simp)
    rw [List.mem_append, List.mem_singleton] at hm
    rcases hm with hm | rfl
    · have := hz m hm; have := hle z (by simp); omega
    · exact ⟨l0, rfl, hz⟩

/-- the entry of the current node, if there is one, is the last entry -/
theorem TBInv.topEntry {s lower top tp tid} (h : TBInv s lower top tp tid)
    (hm : tid ∈ s.activeFormatting.map entryId) :
    ∃ af0 t, s.activeFormatting = af0 ++ [.element tid t] ∧ t.name = top.name ∧ ∀ e ∈ af0, entryId e < tid := by
  have hle : ∀ x ∈ s.activeFormatting.map entryId, x ≤ tid := by
    intro x hx
    rw [List.mem_map] at hx
    obtain ⟨e, he, rfl⟩ := hx
    obtain ⟨y, t, rfl, hy, _⟩ := h.afi.ent e he
    exact h.open_le y hy
  obtain ⟨l0, hl, hlt⟩ := sorted_max_last _ tid h.afi.sorted hle hm
  rcases List.eq_nil_or_concat s.activeFormatting with hnil | ⟨af0, e, hc⟩
  · rw [hnil] at hl; simp at hl
  · rw [List.concat_eq_append] at hc
    rw [hc, List.map_append, List.map_cons, List.map_nil] at hl
    have hlen : (af0.map entryId).length = l0.length := by
      have := congrArg List.length hl; simpa using this
    have hpre : af0.map entryId = l0 := List.append_inj_left hl hlen
    have hlast : entryId e = tid := by
      have := List.append_inj_right hl hlen; simpa using this
    obtain ⟨y, t, rfl, _, _, as', p', ch', hnode⟩ := h.afi.ent e (by rw [hc]; simp)
    simp only [entryId] at hlast
    subst hlast
    refine ⟨af0, t, hc, elData_name_inj (hnode.symm.trans h.topNode), ?_⟩
    intro e' he'
    exact hlt _ (by rw [← hpre]; exact List.mem_map_of_mem he')

theorem posAF_none (s : State) (x : Nat) : ∀ (l : List FormatEntry) (i : Nat),
    (∀ e ∈ l, ∃ h t, e = .element h t ∧ h ≠ x) → Query (positionInAFLoop x l i) s none := by
  intro l
  induction l with
  | nil => intro i _; exact query_pure _ _
  | cons e rest ih =>
    intro i hl
    obtain ⟨h, t, rfl, hne⟩ := hl e (by simp)
    simp only [positionInAFLoop]
    refine query_bind (query_sameNode s h x) ?_
    have : (h == x) = false := by simpa using hne
    simp only [this, Bool.false_eq_true, if_false]
    exact ih (i + 1) (fun e he => hl e (by simp [he]))

theorem posAF_last (s : State) (x : Nat) (t : Tag) : ∀ (l0 : List FormatEntry) (i : Nat),
    (∀ e ∈ l0, ∃ h t, e = .element h t ∧ h ≠ x) →
    Query (positionInAFLoop x (l0 ++ [.element x t]) i) s (some (i + l0.length)) := by
  intro l0
  induction l0 with
  | nil =>
    intro i _
    simp only [List.nil_append, positionInAFLoop]
    refine query_bind (query_sameNode s x x) ?_
    simp only [BEq.rfl, if_true, List.length_nil, Nat.add_zero]
    exact query_pure _ _
  | cons e rest ih =>
    intro i hl
    obtain ⟨h, t', rfl, hne⟩ := hl e (by simp)
    simp only [List.cons_append, positionInAFLoop]
    refine query_bind (query_sameNode s h x) ?_
    have : (h == x) = false := by simpa using hne
    simp only [this, Bool.false_eq_true, if_false]
    have := ih (i + 1) (fun e he => hl e (by simp [he]))
    simpa [Nat.add_assoc, Nat.add_comm 1] using this

theorem TBInv.currentNamed {s lower top tp tid} (h : TBInv s lower top tp tid) :
    Query (currentNodeNamedS top.name) s true := by
  unfold currentNodeNamedS
  refine query_bind (query_currentNode h.last) ?_
  have := query_htmlElemNamedS (query_elemName (elData_elemName h.topNode)) top.name
  simpa using this

theorem afEndToMarker_snoc (af0 : List FormatEntry) (x : Nat) (t : Tag) :
    afEndToMarker (af0 ++ [.element x t]) = (af0.length, x, t) :: afEndToMarker af0 := by
  simp [afEndToMarker, List.zipIdx_append, afEndToMarkerAux]

theorem eraseIdx_snoc (af0 : List FormatEntry) (e : FormatEntry) : (af0 ++ [e]).eraseIdx af0.length = af0 := by
  induction af0 with
  | nil => rfl
  | cons a r ih => simp [List.eraseIdx_cons_succ, ih]

/-- `adoption_agency(name)` when the current node is the formatting element of that name: it is
popped, and its entry (if Noah's Ark left it in the list) is removed -/
theorem TBInv.adoption {s lower prev n as cs tp tid} (h : TBInv s (lower ++ [prev]) ⟨n, as, cs⟩ tp tid)
    (hn : fmtName n = true) :
    ∃ af', af'.Sublist s.activeFormatting ∧ (∀ e ∈ af', entryId e ≠ tid) ∧
      Runs (adoptionAgency n) s () { s with openElems := openIds 2 (lower ++ [prev]), activeFormatting := af' } := by
  have hb := fmt_facts hn
  simp only [fmtCheck, Bool.and_eq_true, Bool.not_eq_true'] at hb
  have hspecial : specialTag ⟨nsHtml, n⟩ = false := hb.1.2
  have hdrop : s.openElems.dropLast = openIds 2 (lower ++ [prev]) := by rw [h.stack]; simp
  have hlen := h.length
  have hallElem : ∀ e ∈ s.activeFormatting, ∃ x t, e = .element x t := by
    intro e he; obtain ⟨x, t, rfl, _⟩ := h.afi.ent e he; exact ⟨x, t, rfl⟩
  unfold adoptionAgency
  by_cases hm : tid ∈ s.activeFormatting.map entryId
  · -- the entry is there: the outer loop, one iteration
    obtain ⟨af0, t, haf, htn, hlt⟩ := h.topEntry hm
    have htn' : t.name = n := htn
    have hne0 : ∀ e ∈ af0, ∃ x t', e = .element x t' ∧ x ≠ tid := by
      intro e he
      obtain ⟨x, t', rfl⟩ := hallElem e (by rw [haf]; simp [he])
      exact ⟨x, t', rfl, Nat.ne_of_lt (hlt _ he)⟩
    refine ⟨af0, by rw [haf]; exact List.sublist_append_left _ _, fun e he => Nat.ne_of_lt (hlt e he), ?_⟩
    refine runs_bind (Runs.of_query h.currentNamed) ?_
    simp only [if_true]
    refine runs_bind (Runs.of_query (query_currentNode h.last)) ?_
    refine runs_bind (s1 := s) (a := some (0 + af0.length)) (Runs.of_query ?_) ?_
    · unfold positionInActiveFormatting
      refine query_getS_bind (fun tr => ?_)
      rw [withTr_af, haf]
      exact posAF_last s tid t af0 0 hne0
    rw [pure_bind]
    simp only [Option.isNone_some, Bool.false_eq_true, if_false]
    -- aaOuter n 8
    show Runs (aaOuter n (7 + 1)) s () _
    simp only [aaOuter]
    refine runs_bind (s1 := { s with openElems := openIds 2 (lower ++ [prev]), activeFormatting := af0 }) (a := true)
      ?_ (by simp only [if_true]; exact runs_pure _ _)
    unfold aaOuterStep
    refine runs_getS_bind (fun tr => ?_)
    rw [withTr_af, haf, afEndToMarker_snoc]
    simp only [List.find?_cons, htn', BEq.rfl]
    -- rposition
    refine runs_bind (s1 := s) (a := some (s.openElems.length - 1)) (Runs.of_query ?_) ?_
    · unfold rposition
      refine query_getS_bind (fun tr => ?_)
      simp only [withTr_openElems]
      rw [h.stack]
      simp only [List.reverse_append, List.reverse_cons, List.reverse_nil, List.nil_append, List.cons_append,
        rpositionLoop]
      refine query_bind (query_sameNode s tid tid) ?_
      simp only [BEq.rfl, if_true]
      exact query_pure _ _
    simp only
    -- in scope
    refine runs_bind (s1 := s) (a := true) (Runs.of_query ?_) ?_
    · unfold inScope
      refine query_getS_bind (fun tr => ?_)
      simp only [withTr_openElems]
      rw [h.stack]
      simp only [List.reverse_append, List.reverse_cons, List.reverse_nil, List.nil_append, List.cons_append,
        inScopeLoop]
      refine query_bind (query_sameNode s tid tid) ?_
      simp only [BEq.rfl, if_true]
      exact query_pure _ _
    simp only [Bool.not_true, Bool.false_eq_true, if_false]
    refine runs_bind (Runs.of_query (query_currentNode h.last)) ?_
    refine runs_bind (Runs.of_query (query_sameNode s tid tid)) ?_
    simp only [BEq.rfl, Bool.not_true, Bool.false_eq_true, if_false]
    -- furthest block: none
    refine runs_getS_bind (fun tr => ?_)
    simp only [withTr_openElems]
    have hdropl : s.openElems.drop (s.openElems.length - 1) = [tid] := by
      rw [h.stack]; simp
    rw [hdropl]
    refine runs_bind (s1 := s) (a := none) (Runs.of_query ?_) ?_
    · simp only [findFurthestBlock]
      unfold elemIn
      refine query_bind (query_bind (query_elemName (elData_elemName h.topNode)) (query_pure _ _)) ?_
      simp only [hspecial, Bool.false_eq_true, if_false]
      exact query_pure _ _
    simp only
    have htake : s.openElems.take (s.openElems.length - 1) = openIds 2 (lower ++ [prev]) := by
      rw [h.stack]; simp
    refine runs_modS_bind (g := fun s1 : State => { s1 with openElems := s1.openElems.take (s.openElems.length - 1) })
      (fun tr => rfl) ?_
    simp only [htake]
    refine runs_bind (s1 := { s with openElems := openIds 2 (lower ++ [prev]), activeFormatting := af0 }) (a := ())
      ?_ (runs_pure _ _)
    have := runs_afRemove { s with openElems := openIds 2 (lower ++ [prev]) } af0.length
      (by show af0.length < s.activeFormatting.length; rw [haf]; simp) "mod.rs:784"
    have e2 : s.activeFormatting.eraseIdx af0.length = af0 := by rw [haf]; exact eraseIdx_snoc _ _
    simp only [e2] at this
    exact this
  · -- Noah's Ark removed the entry: "current node not in the list" shortcut
    have hne : ∀ e ∈ s.activeFormatting, ∃ x t, e = .element x t ∧ x ≠ tid := by
      intro e he
      obtain ⟨x, t, rfl⟩ := hallElem e he
      refine ⟨x, t, rfl, fun hx => hm ?_⟩
      rw [List.mem_map]; exact ⟨_, he, by simp [entryId, hx]⟩
    refine ⟨s.activeFormatting, List.Sublist.refl _, ?_, ?_⟩
    · intro e he
      obtain ⟨x, t, rfl, hx⟩ := hne e he
      exact hx
    refine runs_bind (Runs.of_query h.currentNamed) ?_
    simp only [if_true]
    refine runs_bind (Runs.of_query (query_currentNode h.last)) ?_
    refine runs_bind (s1 := s) (a := none) (Runs.of_query ?_) ?_
    · unfold positionInActiveFormatting
      refine query_getS_bind (fun tr => ?_)
      rw [withTr_af]
      exact posAF_none s tid _ 0 hne
    rw [pure_bind]
    simp only [Option.isNone_none, if_true]
    refine runs_bind (s1 := { s with openElems := openIds 2 (lower ++ [prev]) }) (a := tid) ?_ (runs_pure _ _)
    unfold pop
    refine runs_getS_bind (fun tr => ?_)
    simp only [withTr_openElems, h.last]
    refine runs_bind (s1 := { s with openElems := s.openElems.dropLast }) (a := ()) ?_ ?_
    · exact runs_set s { s with openElems := s.openElems.dropLast } tr
    rw [hdrop]
    exact runs_bind (runs_sinkUnit (pop_apply _ _)) (runs_pure _ _)

/-- **end tag** of a formatting element that is the current node -/
theorem TBInv.endTagFmt {s lower prev n as cs tp tid} (h : TBInv s (lower ++ [prev]) ⟨n, as, cs⟩ tp tid)
    (hn : fmtName n = true) :
    ∃ s' tp0 tid0, (∀ line, Runs (processToken (.tag (tbEnd n)) line) s .continue_ s') ∧
      TBInv s' lower ⟨prev.name, prev.attrs, prev.cs ++ [.elem n as cs]⟩ tp0 tid0 := by
  have hb := fmt_facts hn
  simp only [fmtCheck, Bool.and_eq_true, Bool.not_eq_true'] at hb
  obtain ⟨⟨⟨⟨⟨⟨⟨⟨⟨⟨⟨⟨⟨⟨⟨⟨⟨⟨⟨⟨⟨⟨⟨b1, b2⟩, b3⟩, b4⟩, b5⟩, b6⟩, b7⟩, b8⟩, b9⟩, b10⟩, b11⟩, b12⟩, b13⟩, b14⟩, b15⟩, b16⟩, b17⟩, b18⟩, b19⟩, b20⟩, b21⟩, b22⟩, b23⟩, b24⟩ := hb
  obtain ⟨tp0, tid0, hlow, e1, e2, hnode, hrep⟩ := lower_snoc_inv _ _ _ _ _ _ _ h.low
  obtain ⟨af', hsub, hne, hrun⟩ := h.adoption hn
  refine ⟨{ s with openElems := openIds 2 (lower ++ [prev]), activeFormatting := af' }, tp0, tid0, fun line => ?_, ?_⟩
  · refine processToken_frame s _ _ line _ rfl ?_
    rw [eq_self_withIlf h.ilf]
    simp only [tbTok]
    refine ptc_done _ _ _ (by simp [noAck, tbEnd]) (h.notForeign _) h.mode ?_
    unfold stepInBody
    have hk : ((tbEnd n).kind == .startTag) = false := rfl
    have hk2 : ((tbEnd n).kind == .endTag) = true := rfl
    have hnm : (tbEnd n).name = n := rfl
    simp only [Tag.isStart, Tag.isEnd, hk, hk2, hnm, b1, b3, b15, b16, b9, b17, b18, b10, b7, b19, Bool.and_false,
      Bool.false_eq_true, if_false, Bool.or_false, Bool.true_and, Bool.false_and, if_true]
    exact runs_bind hrun (runs_pure _ _)
  · exact h.closeTop hlow e1 e2 hnode hrep af' (h.afi_pop af' hsub hne)

/-! ### either kind of element -/

theorem elemNameOk_tagName {n : Str} (h : elemNameOk n = true) : tagNameOk n = true := by
  simp only [elemNameOk, Bool.or_eq_true] at h
  rcases h with (h | h) | h
  · simp only [ordinaryName, Bool.and_eq_true] at h; exact h.1
  · have hb := block_facts h
    simp only [blockCheck, Bool.and_eq_true] at hb
    exact hb.1.1.1.1.2
  · have hb := fmt_facts h
    simp only [fmtCheck, Bool.and_eq_true] at hb
    exact hb.1.1.1.1.2

theorem TBInv.startTagAny {s lower top tp tid} (h : TBInv s lower top tp tid) (n : Str) (as : List (Str × Str))
    (hn : elemNameOk n = true) :
    ∃ s', (∀ line, Runs (processToken (.tag (tbStart n as)) line) s .continue_ s') ∧
      TBInv s' (lower ++ [top]) ⟨n, as, []⟩ tid s.dom.nodes.size := by
  simp only [elemNameOk, Bool.or_eq_true] at hn
  rcases hn with (hn | hn) | hn
  · exact h.startTag n as hn
  · exact h.startTagBlock n as hn
  · exact h.startTagFmt n as hn

theorem TBInv.endTagAny {s lower prev n as cs tp tid} (h : TBInv s (lower ++ [prev]) ⟨n, as, cs⟩ tp tid)
    (hn : elemNameOk n = true) :
    ∃ s' tp0 tid0, (∀ line, Runs (processToken (.tag (tbEnd n)) line) s .continue_ s') ∧
      TBInv s' lower ⟨prev.name, prev.attrs, prev.cs ++ [.elem n as cs]⟩ tp0 tid0 := by
  simp only [elemNameOk, Bool.or_eq_true] at hn
  rcases hn with (hn | hn) | hn
  · exact h.endTag hn
  · exact h.endTagBlock hn
  · exact h.endTagFmt hn

/-! ### character tokens -/

/-- what `append(current node, text)` does to the closed children: extend a trailing text node or
add a new one -/
def appendTextF (cs : Forest) (x : Str) : Forest :=
  match cs.getLast? with
  | some (.text old) => cs.dropLast ++ [.text (old ++ x)]
  | _ => cs ++ [.text x]

theorem appendTextF_nil (x : Str) : appendTextF [] x = [.text x] := rfl
theorem appendTextF_elem (cs0 : Forest) (n as ch) (x : Str) :
    appendTextF (cs0 ++ [.elem n as ch]) x = cs0 ++ [.elem n as ch] ++ [.text x] := by
  simp [appendTextF]
theorem appendTextF_text (cs0 : Forest) (old x : Str) :
    appendTextF (cs0 ++ [.text old]) x = cs0 ++ [.text (old ++ x)] := by
  simp [appendTextF]

theorem getLast?_childIds (start : Nat) (cs0 : Forest) (t : HNode) :
    (childIds start (cs0 ++ [t])).getLast? = some (start + sizeF cs0) := by
  rw [childIds_append]; simp [childIds]

theorem repF_snoc_node {d : Dom} {p start : Nat} {cs0 : Forest} {t : HNode}
    (h : RepF d p start (cs0 ++ [t])) : RepT d p (start + sizeF cs0) t := by
  rw [repF_append] at h
  simpa [RepF] using h.2

/-- the sink call of `append_text` on the arena -/
theorem TBInv.appendDom {s lower top tp tid} (h : TBInv s lower top tp tid) (x : Str) :
    ∃ d', s.dom.apply (.append tid (.text x)) = .ok (d', .unit) ∧
      ∀ s', s'.dom = d' → s'.openElems = s.openElems → s'.contextElem = s.contextElem → s'.mode = s.mode →
        s'.templateModes = s.templateModes → s'.activeFormatting = s.activeFormatting →
        s'.fosterParenting = s.fosterParenting → s'.formElem = s.formElem → s'.ignoreLf = s.ignoreLf →
        TBInv s' lower ⟨top.name, top.attrs, appendTextF top.cs x⟩ tp tid := by
  have h2 := h.two_le
  have hsz := h.size
  have fin : ∀ (d' : Dom) (cs' : Forest),
      Lower d' 0 2 lower tp tid →
      d'.nodes[tid]? = some ⟨elData top.name top.attrs, some tp, childIds (tid + 1) cs'⟩ →
      RepF d' tid (tid + 1) cs' → d'.nodes.size = tid + 1 + sizeF cs' →
      d'.nodes[1]? = some ⟨elData nDiv [], none, []⟩ → d'.errorsRev = [] →
      (∀ (x : Nat) (nm : Str) (as : List (Str × Str)) (p : Option Nat) (ch : List Nat),
        s.dom.nodes[x]? = some ⟨elData nm as, p, ch⟩ →
        ∃ as' p' ch', d'.nodes[x]? = some ⟨elData nm as', p', ch'⟩) →
      ∀ s', s'.dom = d' → s'.openElems = s.openElems → s'.contextElem = s.contextElem → s'.mode = s.mode →
        s'.templateModes = s.templateModes → s'.activeFormatting = s.activeFormatting →
        s'.fosterParenting = s.fosterParenting → s'.formElem = s.formElem → s'.ignoreLf = s.ignoreLf →
        TBInv s' lower ⟨top.name, top.attrs, cs'⟩ tp tid := by
    intro d' cs' a1 a2 a3 a4 a5 a6 a7 s' e1 e2 e3 e4 e5 e6 e7 e8 e9
    subst e1
    refine ⟨a1, a2, a3, a4, by rw [e2]; exact h.stack, a5, by rw [e3]; exact h.ctx, by rw [e4]; exact h.mode,
      by rw [e5]; exact h.tm, h.afi.mono e6 (fun _ _ hx => by rw [e2]; exact hx) a7, by rw [e7]; exact h.foster, by rw [e8]; exact h.form,
      by rw [e9]; exact h.ilf, ?_, a6, ?_⟩
    · intro f hf
      simp only [List.mem_append, List.mem_singleton] at hf
      rcases hf with hf | rfl
      · exact h.notTemplate f (by simp [hf])
      · exact h.notTemplate top (by simp)
    · intro f hf
      simp only [List.mem_append, List.mem_singleton] at hf
      rcases hf with hf | rfl
      · exact h.notP f (by simp [hf])
      · exact h.notP top (by simp)
  -- a new text node
  have newCase : (childIds (tid + 1) top.cs).getLast? = none ∨
      (∃ hh q as tc ip p ch, (childIds (tid + 1) top.cs).getLast? = some hh ∧
        s.dom.nodes[hh]? = some ⟨.element q as tc ip, p, ch⟩) →
      appendTextF top.cs x = top.cs ++ [.text x] →
      ∃ d', s.dom.apply (.append tid (.text x)) = .ok (d', .unit) ∧
      ∀ s', s'.dom = d' → s'.openElems = s.openElems → s'.contextElem = s.contextElem → s'.mode = s.mode →
        s'.templateModes = s.templateModes → s'.activeFormatting = s.activeFormatting →
        s'.fosterParenting = s.fosterParenting → s'.formElem = s.formElem → s'.ignoreLf = s.ignoreLf →
        TBInv s' lower ⟨top.name, top.attrs, appendTextF top.cs x⟩ tp tid := by
    intro hlast happ
    obtain ⟨d', e, hp⟩ := dom_append_text_new s.dom tid _ x h.topNode hlast
    refine ⟨d', e, ?_⟩
    have hfr : ∀ i, i < s.dom.nodes.size → i ≠ tid → d'.nodes[i]? = s.dom.nodes[i]? :=
      fun i h1 h2 => hp.frame i h2 (Nat.ne_of_lt h1)
    rw [happ]
    refine fin d' _ ?_ ?_ ?_ ?_ ?_ (by rw [hp.errs]; exact h.errs) (hp.keepsElems h.topNode)
    · exact lower_frame s.dom d' 0 2 lower tp tid (fun i _ h2 => hfr i (by omega) (by omega)) h.low
    · rw [hp.atTop, childIds_append]; simp [childIds, hsz]
    · rw [repF_append]
      refine ⟨repF_frame s.dom d' tid top.cs (tid + 1) (fun i h1 h2 => hfr i (by omega) (by omega)) h.topRep, ?_⟩
      simp only [RepF, RepT, and_true]
      rw [← hsz]; exact hp.atNew
    · rw [hp.size, hsz, sizeF_append]; simp [sizeF, HNode.size]; omega
    · rw [hfr 1 (by omega) (by omega)]; exact h.ctxNode
  rcases List.eq_nil_or_concat top.cs with hnil | ⟨cs0, t, hcs⟩
  · refine newCase (Or.inl (by rw [hnil]; rfl)) (by rw [hnil]; rfl)
  · rw [List.concat_eq_append] at hcs
    cases t with
    | elem n as ch =>
      have hrep := h.topRep
      rw [hcs] at hrep
      have hnode := repF_snoc_node hrep
      simp only [RepT] at hnode
      refine newCase (Or.inr ⟨_, _, _, _, _, _, _, by rw [hcs]; exact getLast?_childIds _ _ _, hnode.1⟩) ?_
      rw [hcs, appendTextF_elem]
    | text old =>
      have hrep := h.topRep
      rw [hcs] at hrep
      have hnode := repF_snoc_node hrep
      simp only [RepT] at hnode
      have hlast : (childIds (tid + 1) top.cs).getLast? = some (tid + 1 + sizeF cs0) := by
        rw [hcs]; exact getLast?_childIds _ _ _
      obtain ⟨d', e, hs', hat, hfr, herr⟩ := dom_append_text_merge s.dom tid _ x old _ _ _ h.topNode hlast hnode
      refine ⟨d', e, ?_⟩
      have hszc : sizeF top.cs = sizeF cs0 + 1 := by rw [hcs, sizeF_append]; simp [sizeF, HNode.size]
      rw [hcs, appendTextF_text]
      refine fin d' _ ?_ ?_ ?_ ?_ ?_ (by rw [herr]; exact h.errs) (by
        intro x nm as' p' ch' hx
        refine ⟨as', p', ch', ?_⟩
        rw [hfr x (by
          intro e; subst e
          rw [hnode] at hx
          simp [elData] at hx)]
        exact hx)
      · exact lower_frame s.dom d' 0 2 lower tp tid (fun i _ h2 => hfr i (by omega)) h.low
      · rw [hfr tid (by omega), h.topNode, hcs, childIds_append, childIds_append]; simp [childIds]
      · rw [repF_append] at hrep ⊢
        refine ⟨repF_frame s.dom d' tid cs0 (tid + 1) (fun i h1 h2 => hfr i (by omega)) hrep.1, ?_⟩
        simp only [RepF, RepT, and_true]
        exact hat
      · rw [hs', hsz, hszc, sizeF_append]; simp [sizeF, HNode.size]
      · rw [hfr 1 (by omega)]; exact h.ctxNode

/-- **character token** (non-empty): the text is appended to the current node -/
theorem TBInv.chars {s lower top tp tid} (h : TBInv s lower top tp tid) (x : Str) (hx : x ≠ []) :
    ∃ s', (∀ line, Runs (processToken (.chars x) line) s .continue_ s') ∧
      TBInv s' lower ⟨top.name, top.attrs, appendTextF top.cs x⟩ tp tid := by
  obtain ⟨d', e, hinv⟩ := h.appendDom x
  refine ⟨{ s with framesetOk := if anyNotWhitespace x then false else s.framesetOk, dom := d' }, fun line => ?_,
    hinv _ rfl rfl rfl rfl rfl rfl rfl rfl rfl⟩
  refine processToken_frame s _ _ line _ rfl ?_
  rw [eq_self_withIlf h.ilf]
  have hct : charsToken s.ignoreLf x = some (.chars .notSplit x) := by
    rw [h.ilf]
    cases x with
    | nil => exact absurd rfl hx
    | cons c t => rfl
  simp only [tbTok, hct]
  refine ptc_done _ _ _ rfl (h.notForeign _) h.mode ?_
  unfold stepInBody
  dsimp only
  refine runs_bind (Runs.of_query h.noReconstruct) ?_
  have hpl : ∀ b : Bool, Query (appropriatePlaceForInsertion none) { s with framesetOk := b } (.lastChild tid) := by
    intro b
    have h' : TBInv { s with framesetOk := b } lower top tp tid :=
      ⟨h.low, h.topNode, h.topRep, h.size, h.stack, h.ctxNode, h.ctx, h.mode, h.tm, ⟨h.afi.ent, h.afi.sorted⟩, h.foster, h.form,
        h.ilf, h.notTemplate, h.errs, h.notP⟩
    exact h'.place
  have happ : ∀ b : Bool, Runs (appendText x) { s with framesetOk := b } .done { s with framesetOk := b, dom := d' } := by
    intro b
    unfold appendText insertAppropriately
    refine runs_bind (a := ()) (runs_bind (b := ()) (Runs.of_query (hpl b)) ?_) (runs_pure _ _)
    exact runs_sinkUnit (s := { s with framesetOk := b }) e
  by_cases hw : anyNotWhitespace x = true
  · simp only [hw, if_true]
    refine runs_bind (s1 := { s with framesetOk := false }) (a := ()) ?_ (happ false)
    exact runs_modS (g := fun s : State => { s with framesetOk := false }) (fun tr => rfl)
  · simp only [hw, Bool.false_eq_true, if_false]
    have := happ s.framesetOk
    exact this

/-! ### token runs -/

/-- the tokens are processed one after the other (whatever line numbers they carry), each answered
with `Continue` -/
inductive TokRuns : List TokToken → State → State → Prop
  | nil (s : State) : TokRuns [] s s
  | cons {t : TokToken} {ts : List TokToken} {s s1 s2 : State} :
      (∀ line, Runs (processToken t line) s .continue_ s1) → TokRuns ts s1 s2 → TokRuns (t :: ts) s s2

theorem TokRuns.append {a b : List TokToken} {s s1 s2 : State} (h1 : TokRuns a s s1) (h2 : TokRuns b s1 s2) :
    TokRuns (a ++ b) s s2 := by
  induction h1 with
  | nil _ => exact h2
  | cons h _ ih => exact .cons h (ih h2)

theorem TokRuns.single {t : TokToken} {s s1 : State} (h : ∀ line, Runs (processToken t line) s .continue_ s1) :
    TokRuns [t] s s1 := .cons h (.nil _)

/-- `processTokens` on a token run: no answer other than `Continue` is collected -/
theorem TokRuns.processTokens {toks : List TokToken} {s s' : State} (h : TokRuns toks s s')
    (lines : List Nat) (hl : lines.length = toks.length) (acc : List SinkResult) :
    Runs (H5V.Model.HtmlTB.processTokens (toks.zip lines) acc) s acc s' := by
  induction h generalizing lines with
  | nil s => simp only [List.zip_nil_left, H5V.Model.HtmlTB.processTokens]; exact runs_pure _ _
  | @cons t ts s s1 s2 h _ ih =>
    cases lines with
    | nil => simp at hl
    | cons l ls =>
      simp only [List.zip_cons_cons, H5V.Model.HtmlTB.processTokens]
      refine runs_bind (h l) ?_
      simp only [BEq.rfl, if_true]
      exact ih ls (by simpa using hl)

/-- a text arriving in pieces: the pieces are appended one after the other -/
theorem TBInv.pieces {s lower top tp tid} (h : TBInv s lower top tp tid) (ps : List Str) (hp : ∀ p ∈ ps, p ≠ []) :
    ∃ s', TokRuns (ps.map .chars) s s' ∧
      TBInv s' lower ⟨top.name, top.attrs, ps.foldl appendTextF top.cs⟩ tp tid := by
  induction ps generalizing s top with
  | nil => exact ⟨s, .nil _, h⟩
  | cons p ps ih =>
    obtain ⟨s1, hr, h1⟩ := h.chars p (hp p (by simp))
    obtain ⟨s2, hr2, h2⟩ := ih h1 (fun q hq => hp q (by simp [hq]))
    exact ⟨s2, .cons hr hr2, h2⟩

theorem foldl_appendTextF_text (cs0 : Forest) (old : Str) (ps : List Str) :
    ps.foldl appendTextF (cs0 ++ [.text old]) = cs0 ++ [.text (old ++ ps.flatten)] := by
  induction ps generalizing old with
  | nil => simp
  | cons p ps ih => simp [List.foldl_cons, appendTextF_text, ih]

/-- non-empty pieces after something that is not a text node make one new text node -/
theorem foldl_appendTextF_new (cs : Forest) (ps : List Str) (hne : ps ≠ [])
    (hl : ∀ old, cs.getLast? ≠ some (.text old)) :
    ps.foldl appendTextF cs = cs ++ [.text ps.flatten] := by
  cases ps with
  | nil => exact absurd rfl hne
  | cons p ps =>
    have : appendTextF cs p = cs ++ [.text p] := by
      unfold appendTextF
      split
      · rename_i old heq; exact absurd heq (hl old)
      · rfl
    rw [List.foldl_cons, this, foldl_appendTextF_text]; simp

/-! ### a whole forest -/

theorem noAdj_head {cs : Forest} {t : HNode} {ts : Forest} (h : noAdjText (cs ++ t :: ts) = true)
    (ht : t.isText = true) : ∀ old, cs.getLast? ≠ some (.text old) := by
  induction cs with
  | nil => intro old; simp
  | cons a cs ih =>
    intro old
    cases cs with
    | nil =>
      simp only [List.cons_append, List.nil_append, noAdjText, Bool.and_eq_true, Bool.not_eq_true'] at h
      simp only [List.getLast?_singleton, ne_eq, Option.some.injEq]
      intro e; subst e
      have h1 : (HNode.text old).isText = true := rfl
      rw [h1, ht] at h
      exact absurd h.1 (by decide)
    | cons b cs =>
      simp only [List.cons_append, noAdjText, Bool.and_eq_true] at h
      have := ih (by simpa using h.2) old
      simpa using this

theorem okNode_text {x : Str} (h : okNode (.text x) = true) : x ≠ [] := by
  simp only [okNode, Bool.and_eq_true, Bool.not_eq_true', List.isEmpty_eq_false_iff] at h
  exact h.1

mutual
theorem tb_node (split : Str → List Str) (hsp : GoodSplit split) :
    ∀ (t : HNode) (s : State) (lower : List Frame) (top : Frame) (tp tid : Nat),
      TBInv s lower top tp tid → okNode t = true →
      (t.isText = true → ∀ old, top.cs.getLast? ≠ some (.text old)) →
      ∃ s' tp' tid', TokRuns (tbTokens split t) s s' ∧
        TBInv s' lower ⟨top.name, top.attrs, top.cs ++ [t]⟩ tp' tid'
  | .text x, s, lower, top, tp, tid, h, hok, hadj => by
    have hx := okNode_text hok
    obtain ⟨hfl, hne⟩ := hsp x
    obtain ⟨s', hr, hi⟩ := h.pieces (split x) hne
    have hps : split x ≠ [] := by
      intro e; rw [e] at hfl; exact hx hfl.symm
    rw [foldl_appendTextF_new top.cs (split x) hps (hadj rfl), hfl] at hi
    exact ⟨s', tp, tid, by simpa [tbTokens] using hr, hi⟩
  | .elem n as ch, s, lower, top, tp, tid, h, hok, _ => by
    simp only [okNode, Bool.and_eq_true] at hok
    obtain ⟨⟨⟨hn, _⟩, hch⟩, hadj⟩ := hok
    obtain ⟨s1, hr1, h1⟩ := h.startTagAny n as hn
    obtain ⟨s2, tp2, tid2, hr2, h2⟩ := tb_forest split hsp ch s1 (lower ++ [top]) ⟨n, as, []⟩ _ _ h1 hch
      (by simpa using hadj)
    simp only [List.nil_append] at h2
    obtain ⟨s3, tp3, tid3, hr3, h3⟩ := h2.endTagAny hn
    refine ⟨s3, tp3, tid3, ?_, h3⟩
    simp only [tbTokens]
    exact .cons hr1 (hr2.append (.single hr3))
theorem tb_forest (split : Str → List Str) (hsp : GoodSplit split) :
    ∀ (f : Forest) (s : State) (lower : List Frame) (top : Frame) (tp tid : Nat),
      TBInv s lower top tp tid → okForest f = true → noAdjText (top.cs ++ f) = true →
      ∃ s' tp' tid', TokRuns (tbTokensF split f) s s' ∧
        TBInv s' lower ⟨top.name, top.attrs, top.cs ++ f⟩ tp' tid'
  | [], s, lower, top, tp, tid, h, _, _ => by
    refine ⟨s, tp, tid, by simpa [tbTokensF] using TokRuns.nil s, ?_⟩
    simpa using h
  | t :: ts, s, lower, top, tp, tid, h, hok, hadj => by
    simp only [okForest, Bool.and_eq_true] at hok
    obtain ⟨s1, tp1, tid1, hr1, h1⟩ := tb_node split hsp t s lower top tp tid h hok.1 (noAdj_head hadj)
    obtain ⟨s2, tp2, tid2, hr2, h2⟩ := tb_forest split hsp ts s1 lower ⟨top.name, top.attrs, top.cs ++ [t]⟩ _ _ h1
      hok.2 (by simpa using hadj)
    refine ⟨s2, tp2, tid2, by simpa [tbTokensF] using hr1.append hr2, ?_⟩
    simpa using h2
end

end H5V.Lemmas.HtmlRT
