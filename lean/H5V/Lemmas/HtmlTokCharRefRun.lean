import H5V.Lemmas.HtmlTokCharRefSpec
/-!
The character-reference sub-tokenizer of the model (`crStep` / `stepCharRef` / `crEof`) run phase by
phase on a text: `begin`, the `do_named` walk, `finish_named`, the bogus-name loop, `#`, the digit
loop, the semicolon, and the end-of-file variants. Every lemma is for an arbitrary machine `M` that
is not about to reconsume (`peek` then looks at the input); the sub-tokenizer state travels in
`M.setCharRef (some cr)`. Used by `H5V.Props.C14Run`.
-/
namespace H5V.Props.C14
open H5V H5V.Model.HtmlTok

/-! ### iterating `stepCharRef` -/

/-- `k` successive `Continue` steps while a character reference is pending -/
inductive Steps (o : Opts) : Mach → Str → Mach → Str → Nat → Prop
  | refl (m : Mach) (inp : Str) : Steps o m inp m inp 0
  | step {m : Mach} {inp : Str} {cr : CharRefSt} {m1 : Mach} {i1 : Str} {m2 : Mach} {i2 : Str} {k : Nat} :
      m.charRef = some cr → stepCharRef o m inp cr = .cont m1 i1 → Steps o m1 i1 m2 i2 k →
      Steps o m inp m2 i2 (k + 1)

theorem Steps.trans {o : Opts} {a b c : Mach} {ia ib ic : Str} {k l : Nat}
    (h1 : Steps o a ia b ib k) (h2 : Steps o b ib c ic l) : Steps o a ia c ic (l + k) := by
  induction h1 with
  | refl => exact h2
  | step hc hs _ ih => exact Steps.step hc hs (ih h2)

theorem Steps.one {o : Opts} {m : Mach} {inp : Str} {cr : CharRefSt} {m1 : Mach} {i1 : Str}
    (hc : m.charRef = some cr) (hs : stepCharRef o m inp cr = .cont m1 i1) : Steps o m inp m1 i1 1 :=
  Steps.step hc hs (Steps.refl _ _)

theorem Steps.cast {o : Opts} {a b : Mach} {ia ib : Str} {k l : Nat} (h : Steps o a ia b ib k) (e : k = l) :
    Steps o a ia b ib l := e ▸ h

/-! ### machine bookkeeping -/

@[simp] theorem setCR_setCR (M : Mach) (a b : Option CharRefSt) : (M.setCharRef a).setCharRef b = M.setCharRef b := rfl
@[simp] theorem setCR_reconsume (M : Mach) (a : Option CharRefSt) : (M.setCharRef a).reconsume = M.reconsume := rfl
@[simp] theorem setCR_charRef (M : Mach) (a : Option CharRefSt) : (M.setCharRef a).charRef = a := rfl

theorem setCR_self {m : Mach} {cr : Option CharRefSt} (h : m.charRef = cr) : m.setCharRef cr = m := by
  cases m; simp_all [Mach.setCharRef]

theorem peek_nr {M : Mach} (hr : M.reconsume = false) (inp : Str) : peek M inp = inp.head? := by
  simp [peek, hr]

theorem discard_nr {M : Mach} (hr : M.reconsume = false) (inp : Str) : discardChar M inp = (M, inp.tail) := by
  simp [discardChar, hr]

theorem stepCharRef_progress {o : Opts} {m : Mach} {inp : Str} {cr : CharRefSt} {m1 : Mach} {i1 : Str}
    {cr1 : CharRefSt} (h : crStep o m inp cr = .ok (m1, i1, cr1, .progress)) :
    stepCharRef o m inp cr = .cont (m1.setCharRef (some cr1)) i1 := by
  simp [stepCharRef, h]

theorem step_prog {o : Opts} {M : Mach} {inp : Str} {cr : CharRefSt} {i1 : Str} {cr1 : CharRefSt}
    (h : crStep o (M.setCharRef (some cr)) inp cr = .ok (M.setCharRef (some cr), i1, cr1, .progress)) :
    stepCharRef o (M.setCharRef (some cr)) inp cr = .cont (M.setCharRef (some cr1)) i1 := by
  rw [stepCharRef_progress h]; rfl

theorem stepCharRef_done {o : Opts} {m : Mach} {inp : Str} {cr : CharRefSt} {m1 : Mach} {i1 : Str}
    {cr1 : CharRefSt} {chars : Str} (h : crStep o m inp cr = .ok (m1, i1, cr1, .done chars)) :
    stepCharRef o m inp cr =
      ofSig ((processCharRef m1 chars).1.setCharRef none, (processCharRef m1 chars).2) i1 := by
  simp [stepCharRef, h]

theorem stepCharRef_stuck {o : Opts} {M : Mach} (hr : M.reconsume = false) (cr : CharRefSt) :
    stepCharRef o (M.setCharRef (some cr)) [] cr = .suspend (M.setCharRef (some cr)) [] := by
  have : peek (M.setCharRef (some cr)) [] = none := by rw [peek_nr (by simpa using hr)]; rfl
  simp [stepCharRef, crStep, this]

/-- the machine `m` with the tokens `errs` delivered (newest first), `ignore_lf = lf` and the
sub-tokenizer register `cr` -/
def pend (m : Mach) (errs : Out) (lf : Bool) (cr : Option CharRefSt) : Mach :=
  { m with out := errs ++ m.out, ignoreLf := lf, charRef := cr }

theorem pend_start (m : Mach) (cr : Option CharRefSt) : m.setCharRef cr = pend m [] m.ignoreLf cr := rfl
theorem pend_setCR (m : Mach) (e : Out) (lf : Bool) (a b : Option CharRefSt) :
    (pend m e lf a).setCharRef b = pend m e lf b := rfl
theorem pend_emit (m : Mach) (e : Out) (lf : Bool) (a : Option CharRefSt) (t : Token) :
    emit (pend m e lf a) t = pend m ((t, m.line) :: e) lf a := rfl
theorem pend_emitErr (m : Mach) (e : Out) (lf : Bool) (a : Option CharRefSt) (s : String) :
    emitErr (pend m e lf a) s = pend m ((.error s.toList, m.line) :: e) lf a := rfl
theorem pend_setLf (m : Mach) (e : Out) (lf : Bool) (a : Option CharRefSt) (b : Bool) :
    (pend m e lf a).setIgnoreLf b = pend m e b a := rfl

/-- the error token of `emit_name_error` -/
def nameErrTok (o : Opts) (nb : Str) : Token :=
  if o.exactErrors then .error ("Invalid character reference &".toList ++ nb)
  else .error "Invalid character reference".toList

theorem pend_nameErr (o : Opts) (m : Mach) (e : Out) (lf : Bool) (a : Option CharRefSt) (nb : Str) :
    nameErr o (pend m e lf a) nb = pend m ((nameErrTok o nb, m.line) :: e) lf a := by
  unfold nameErr nameErrTok; split <;> rfl

/-- the error token of `finish_numeric` -/
def numErrTok (o : Opts) (n : Nat) : Token :=
  if o.exactErrors then .error ("Invalid numeric character reference value 0x".toList ++ hex06 n)
  else .error "Invalid numeric character reference".toList

theorem pend_numericErr (o : Opts) (m : Mach) (e : Out) (lf : Bool) (a : Option CharRefSt) (n : Nat) :
    numericErr o (pend m e lf a) n = pend m ((numErrTok o n, m.line) :: e) lf a := by
  unfold numericErr numErrTok; split <;> rfl

theorem nameErrTok_isErr (o : Opts) (nb : Str) : ∃ msg, nameErrTok o nb = .error msg := by
  unfold nameErrTok; split <;> exact ⟨_, rfl⟩

theorem numErrTok_isErr (o : Opts) (n : Nat) : ∃ msg, numErrTok o n = .error msg := by
  unfold numErrTok; split <;> exact ⟨_, rfl⟩

/-! ### delivery (`process_char_ref`) -/

/-- the token a delivered character becomes in the data / RCDATA state -/
def charTok (c : Char) : Token := if c = '\x00' then .nullChar else .chars [c]

/-- where a reference may start: data / RCDATA (`inAttr = false`), an attribute value state
(`inAttr = true`) -/
def StartState (inAttr : Bool) (st : State) : Prop :=
  (inAttr = false ∧ (st = .data ∨ st = .rawData .rcdata)) ∨ (inAttr = true ∧ ∃ q, st = .attributeValue q)

/-- the machine after the reference is resolved: parse errors `errs` reported, then `chars`
appended to the attribute value resp. emitted one character token each (at the current line); the
sub-tokenizer is gone; nothing else changes (`lf` is the `ignore_lf` flag) -/
def deliver (inAttr : Bool) (m : Mach) (errs : Out) (lf : Bool) (chars : Str) : Mach :=
  if inAttr then
    { m with charRef := none, ignoreLf := lf, out := errs ++ m.out, attrValue := m.attrValue ++ chars }
  else
    { m with charRef := none, ignoreLf := lf,
             out := (chars.map (fun c => (charTok c, m.line))).reverse ++ (errs ++ m.out) }

theorem deliver_charRef (b : Bool) (m : Mach) (e : Out) (lf : Bool) (chars : Str) :
    (deliver b m e lf chars).charRef = none := by
  cases b <;> rfl

theorem emitChar_eq (m : Mach) (c : Char) : emitChar m c = emit m (charTok c) := by
  unfold emitChar charTok; split <;> rfl

theorem foldl_emitChar (chars : Str) (m : Mach) :
    chars.foldl emitChar m =
      { m with out := (chars.map (fun c => (charTok c, m.line))).reverse ++ m.out } := by
  induction chars generalizing m with
  | nil => rfl
  | cons c cs ih =>
    rw [List.foldl_cons, ih, emitChar_eq]
    simp [emit]

theorem foldl_pushValue (chars : Str) (m : Mach) :
    chars.foldl (fun m c => pushValue c m) m = { m with attrValue := m.attrValue ++ chars } := by
  induction chars generalizing m with
  | nil => simp
  | cons c cs ih =>
    rw [List.foldl_cons, ih]
    simp [pushValue]

theorem process_deliver (b : Bool) (M : Mach) (e : Out) (lf : Bool) (c : Option CharRefSt) (chars : Str)
    (inp : Str) (hs : StartState b M.state) :
    ofSig ((processCharRef (pend M e lf c) chars).1.setCharRef none,
           (processCharRef (pend M e lf c) chars).2) inp
      = .cont (deliver b M e lf (if chars.isEmpty then ['&'] else chars)) inp := by
  rcases hs with ⟨rfl, h | h⟩ | ⟨rfl, q, h⟩ <;>
    (cases M; simp only at h; subst h
     simp only [processCharRef, pend, foldl_emitChar, foldl_pushValue, ofSig]; rfl)

theorem process_deliver_eof (b : Bool) (M : Mach) (e : Out) (lf : Bool) (chars : Str)
    (hs : StartState b M.state) :
    processCharRef (pend M e lf none) chars =
      (deliver b M e lf (if chars.isEmpty then ['&'] else chars), .cont) := by
  rcases hs with ⟨rfl, h | h⟩ | ⟨rfl, q, h⟩ <;>
    (cases M; simp only at h; subst h
     simp only [processCharRef, pend, foldl_emitChar, foldl_pushValue]; rfl)

/-! ### `begin` -/

theorem begin_alnum (o : Opts) {M : Mach} (hr : M.reconsume = false) (cr : CharRefSt) (c : Char) (rest : Str)
    (hst : cr.state = .begin) (hc : isAsciiAlnum c = true) :
    stepCharRef o (M.setCharRef (some cr)) (c :: rest) cr =
      .cont (M.setCharRef (some { cr with state := .named, nameBuf := some [] })) (c :: rest) := by
  apply step_prog
  unfold crStep
  rw [peek_nr (by simpa using hr)]
  simp [hst, hc]

theorem begin_hash (o : Opts) {M : Mach} (hr : M.reconsume = false) (cr : CharRefSt) (rest : Str)
    (hst : cr.state = .begin) :
    stepCharRef o (M.setCharRef (some cr)) ('#' :: rest) cr =
      .cont (M.setCharRef (some { cr with state := .octothorpe })) rest := by
  apply step_prog
  unfold crStep
  rw [peek_nr (by simpa using hr), discard_nr (by simpa using hr)]
  simp [hst, isAsciiAlnum]

theorem begin_other (o : Opts) {M : Mach} (hr : M.reconsume = false) (cr : CharRefSt) (c : Char) (rest : Str)
    (hst : cr.state = .begin) (hc : isAsciiAlnum c = false) (hh : c ≠ '#') :
    crStep o (M.setCharRef (some cr)) (c :: rest) cr = .ok (M.setCharRef (some cr), c :: rest, cr, .done []) := by
  unfold crStep
  rw [peek_nr (by simpa using hr)]
  simp [hst, hc, hh]

/-! ### the `do_named` walk -/

structure NamedSt (cr : CharRefSt) (b : Bool) (nb : Str) (mt : Option (Nat × Nat)) (len : Nat) : Prop where
  st : cr.state = .named
  attr : cr.inAttr = b
  buf : cr.nameBuf = some nb
  mt : cr.nameMatch = mt
  len : cr.nameLen = len
  inmap : nb = [] ∨ (entityLookup nb).isSome = true

theorem named_step (o : Opts) {M : Mach} (hr : M.reconsume = false) {cr : CharRefSt} {b : Bool} {nb : Str}
    {mt : Option (Nat × Nat)} {len : Nat} (hn : NamedSt cr b nb mt len) (c : Char) (rest : Str)
    (v : Nat × Nat) (hl : entityLookup (nb ++ [c]) = some v) :
    ∃ cr', stepCharRef o (M.setCharRef (some cr)) (c :: rest) cr = .cont (M.setCharRef (some cr')) rest ∧
      NamedSt cr' b (nb ++ [c]) (if v.1 ≠ 0 then some v else mt) (if v.1 ≠ 0 then (nb ++ [c]).length else len) := by
  have hpk : peek (M.setCharRef (some cr)) (c :: rest) = some c := by
    rw [peek_nr (by simpa using hr)]; rfl
  have h := Walk.C14_walk_is_do_named o (M.setCharRef (some cr)) (c :: rest) cr nb c hn.st hn.buf hpk
  rw [hl, discard_nr (by simpa using hr)] at h
  dsimp only [List.tail_cons] at h
  refine ⟨_, by rw [stepCharRef_progress h]; rfl, ?_⟩
  by_cases hv : v.1 ≠ 0
  · simp only [if_pos hv]
    exact ⟨hn.st, hn.attr, rfl, rfl, rfl, Or.inr (by rw [hl]; rfl)⟩
  · simp only [if_neg hv]
    exact ⟨hn.st, hn.attr, rfl, hn.mt, hn.len, Or.inr (by rw [hl]; rfl)⟩

/-- the `do_named` steps of the model follow `Walk.walk` on the text -/
theorem named_loop (o : Opts) {M : Mach} (hr : M.reconsume = false) (b : Bool) (inp : Str) :
    ∀ (nb : Str) (mt : Option (Nat × Nat)) (len : Nat) (cr : CharRefSt), NamedSt cr b nb mt len →
    ∀ nb' mt' len' dry, Walk.walk nb mt len inp = (nb', mt', len', dry) →
      (dry = true → ∃ cr', Steps o (M.setCharRef (some cr)) inp (M.setCharRef (some cr')) [] inp.length ∧
          NamedSt cr' b nb' mt' len') ∧
      (dry = false → ∃ pre c post cr', inp = pre ++ c :: post ∧ nb' = nb ++ pre ++ [c] ∧
          entityLookup nb' = none ∧
          Steps o (M.setCharRef (some cr)) inp (M.setCharRef (some cr')) (c :: post) pre.length ∧
          NamedSt cr' b (nb ++ pre) mt' len') := by
  induction inp with
  | nil =>
    intro nb mt len cr hn nb' mt' len' dry h
    simp only [Walk.walk, Prod.mk.injEq] at h
    obtain ⟨h1, h2, h3, h4⟩ := h
    subst h1 h2 h3 h4
    exact ⟨fun _ => ⟨cr, Steps.refl _ _, hn⟩, fun h => by simp at h⟩
  | cons c rest ih =>
    intro nb mt len cr hn nb' mt' len' dry h
    simp only [Walk.walk] at h
    cases hl : entityLookup (nb ++ [c]) with
    | none =>
      rw [hl] at h
      simp only [Prod.mk.injEq] at h
      obtain ⟨h1, h2, h3, h4⟩ := h
      subst h1 h2 h3 h4
      refine ⟨fun h => by simp at h, fun _ => ⟨[], c, rest, cr, rfl, by simp, hl, Steps.refl _ _, ?_⟩⟩
      simpa using hn
    | some v =>
      rw [hl] at h
      simp only at h
      obtain ⟨cr1, hs1, hn1⟩ := named_step o hr hn c rest v hl
      have hstep := Steps.one (o := o) (setCR_charRef M (some cr)) hs1
      have key : ∀ mt2 len2, NamedSt cr1 b (nb ++ [c]) mt2 len2 →
          Walk.walk (nb ++ [c]) mt2 len2 rest = (nb', mt', len', dry) →
          (dry = true → ∃ cr', Steps o (M.setCharRef (some cr)) (c :: rest) (M.setCharRef (some cr')) []
              (c :: rest).length ∧ NamedSt cr' b nb' mt' len') ∧
          (dry = false → ∃ pre c' post cr', c :: rest = pre ++ c' :: post ∧ nb' = nb ++ pre ++ [c'] ∧
              entityLookup nb' = none ∧
              Steps o (M.setCharRef (some cr)) (c :: rest) (M.setCharRef (some cr')) (c' :: post) pre.length ∧
              NamedSt cr' b (nb ++ pre) mt' len') := by
        intro mt2 len2 hn2 hw
        obtain ⟨a1, a2⟩ := ih (nb ++ [c]) mt2 len2 cr1 hn2 nb' mt' len' dry hw
        constructor
        · intro hd
          obtain ⟨cr', hs, hn'⟩ := a1 hd
          exact ⟨cr', (hstep.trans hs).cast (by simp), hn'⟩
        · intro hd
          obtain ⟨pre, c', post, cr', e1, e2, e3, hs, hn'⟩ := a2 hd
          refine ⟨c :: pre, c', post, cr', by simp [e1], by simp [e2], e3,
            (hstep.trans hs).cast (by simp), ?_⟩
          simpa using hn'
      by_cases hv : v.1 ≠ 0
      · simp only [if_pos hv] at h hn1
        exact key _ _ hn1 h
      · simp only [if_neg hv] at h hn1
        exact key _ _ hn1 h

/-- the step on which the buffer leaves the map is `finish_named` -/
theorem named_last (o : Opts) {M : Mach} (hr : M.reconsume = false) {cr : CharRefSt} {b : Bool} {nb : Str}
    {mt : Option (Nat × Nat)} {len : Nat} (hn : NamedSt cr b nb mt len) (c : Char) (rest : Str)
    (hl : entityLookup (nb ++ [c]) = none) :
    crStep o (M.setCharRef (some cr)) (c :: rest) cr =
      finishNamed o (M.setCharRef (some cr)) rest { cr with nameBuf := some (nb ++ [c]) } (some c) := by
  have hpk : peek (M.setCharRef (some cr)) (c :: rest) = some c := by
    rw [peek_nr (by simpa using hr)]; rfl
  have h := Walk.C14_walk_is_do_named o (M.setCharRef (some cr)) (c :: rest) cr nb c hn.st hn.buf hpk
  rw [hl, discard_nr (by simpa using hr)] at h
  exact h

/-! ### `finish_named` -/

/-- no match, stopped by an ASCII alphanumeric: on to the bogus-name loop -/
theorem finishNamed_bogus (o : Opts) (m : Mach) (inp : Str) (cr : CharRefSt) (nbuf : Str) (c : Char)
    (hb : cr.nameBuf = some nbuf) (hm : cr.nameMatch = none) (hc : isAsciiAlnum c = true) :
    finishNamed o m inp cr (some c) = .ok (m, inp, { cr with state := .bogusName }, .progress) := by
  unfold finishNamed
  simp [hb, hm, hc]

/-- no match, stopped by something else: everything is given back; `;` is an error -/
theorem finishNamed_nomatch (o : Opts) (m : Mach) (inp : Str) (cr : CharRefSt) (nbuf : Str) (c : Char)
    (hb : cr.nameBuf = some nbuf) (hm : cr.nameMatch = none) (hc : isAsciiAlnum c = false) :
    finishNamed o m inp cr (some c) =
      .ok (if c = ';' ∧ nbuf.length > 1 then nameErr o m nbuf else m, nbuf ++ inp,
           { cr with nameBuf := none }, .done []) := by
  unfold finishNamed
  simp only [hb, hm, hc]
  by_cases h : c = ';' ∧ nbuf.length > 1
  · simp [h]
  · simp only [h, ↓reduceIte]
    have : (decide (c = ';') && decide (nbuf.length > 1)) = false := by
      rw [Bool.eq_false_iff]; simpa using h
    simp [this]

/-- no match at end of input -/
theorem finishNamed_nomatch_eof (o : Opts) (m : Mach) (inp : Str) (cr : CharRefSt) (nbuf : Str)
    (hb : cr.nameBuf = some nbuf) (hm : cr.nameMatch = none) :
    finishNamed o m inp cr none = .ok (m, nbuf ++ inp, { cr with nameBuf := none }, .done []) := by
  unfold finishNamed
  simp [hb, hm]

/-- the legacy-attribute test of §13.2.5.73 on the characters around the end of the match -/
def legacyKeep (inAttr : Bool) (last next : Option Char) : Bool :=
  inAttr && last != some ';' && (next == some '=' || next.any isAsciiAlnum)

theorem namedDecision_eq (m : Mach) (cr : CharRefSt) (nbuf : Str) (c1 c2 : Nat)
    (hlen : 0 < cr.nameLen) (hle : cr.nameLen ≤ nbuf.length)
    (hv1 : isValidScalar c1 = true) (hv2 : isValidScalar c2 = true) :
    namedDecision m cr nbuf c1 c2 =
      .ok (if legacyKeep cr.inAttr nbuf[cr.nameLen - 1]? nbuf[cr.nameLen]? = true then none
           else some ((if nbuf[cr.nameLen - 1]? = some ';' then m
                       else emitErr m "Character reference does not end with semicolon").setIgnoreLf false,
                      if c2 = 0 then [Char.ofNat c1] else [Char.ofNat c1, Char.ofNat c2])) := by
  unfold namedDecision
  have hne : cr.nameLen ≠ 0 := by omega
  have hlt : cr.nameLen - 1 < nbuf.length := by omega
  obtain ⟨lm, hlm⟩ : ∃ lm, nbuf[cr.nameLen - 1]? = some lm := ⟨nbuf[cr.nameLen - 1], List.getElem?_eq_getElem hlt⟩
  have hnx : (if cr.nameLen = nbuf.length then none else nbuf[cr.nameLen]?) = nbuf[cr.nameLen]? := by
    split
    · rename_i e; rw [List.getElem?_eq_none (by omega)]
    · rfl
  simp only [hne, ↓reduceIte, hlm, hnx, hv1, hv2, Bool.and_self, Bool.not_true, Bool.false_eq_true]
  unfold legacyKeep
  by_cases hsemi : lm = ';'
  · subst hsemi
    simp
  · have h1 : ((some lm : Option Char) != some ';') = true := by simp [hsemi]
    have h2 : ¬ ((some lm : Option Char) = some ';') := by simp [hsemi]
    simp only [hsemi, ↓reduceIte, h1, Bool.and_true, h2]
    cases hia : cr.inAttr with
    | false => simp
    | true =>
      simp only [Bool.true_and]
      by_cases he : nbuf[cr.nameLen]? = some '='
      · simp [he]
      · have he' : (nbuf[cr.nameLen]? == some '=') = false := by simpa using he
        simp only [he, he', Bool.false_or]
        cases hx : nbuf[cr.nameLen]? with
        | none => simp
        | some x =>
          cases hal : isAsciiAlnum x <;> simp [hal]

/-- `finish_named` with a match -/
theorem finishNamed_match (o : Opts) (m : Mach) (inp : Str) (cr : CharRefSt) (nbuf : Str) (ec : Option Char)
    (c1 c2 : Nat) (hb : cr.nameBuf = some nbuf) (hm : cr.nameMatch = some (c1, c2))
    (hlen : 0 < cr.nameLen) (hle : cr.nameLen ≤ nbuf.length)
    (hv1 : isValidScalar c1 = true) (hv2 : isValidScalar c2 = true) :
    finishNamed o m inp cr ec =
      if legacyKeep cr.inAttr nbuf[cr.nameLen - 1]? nbuf[cr.nameLen]? = true then
        .ok (m, nbuf ++ inp, { cr with nameBuf := none }, .done [])
      else
        .ok ((if nbuf[cr.nameLen - 1]? = some ';' then m
              else emitErr m "Character reference does not end with semicolon").setIgnoreLf false,
             nbuf.drop cr.nameLen ++ inp, cr,
             .done (if c2 = 0 then [Char.ofNat c1] else [Char.ofNat c1, Char.ofNat c2])) := by
  unfold finishNamed
  simp only [hb, hm, namedDecision_eq m cr nbuf c1 c2 hlen hle hv1 hv2]
  by_cases hk : legacyKeep cr.inAttr nbuf[cr.nameLen - 1]? nbuf[cr.nameLen]? = true <;>
    simp only [hk, ↓reduceIte] <;> rfl

/-! ### the bogus-name loop -/

structure BogusSt (cr : CharRefSt) (b : Bool) (nb : Str) : Prop where
  st : cr.state = .bogusName
  attr : cr.inAttr = b
  buf : cr.nameBuf = some nb

theorem bogus_loop (o : Opts) {M : Mach} (hr : M.reconsume = false) (b : Bool) (inp : Str) :
    ∀ (nb : Str) (cr : CharRefSt), BogusSt cr b nb →
      ∃ cr', Steps o (M.setCharRef (some cr)) inp (M.setCharRef (some cr')) (inp.dropWhile isAsciiAlnum)
          (inp.takeWhile isAsciiAlnum).length ∧ BogusSt cr' b (nb ++ inp.takeWhile isAsciiAlnum) := by
  induction inp with
  | nil => intro nb cr hb; exact ⟨cr, Steps.refl _ _, by simpa using hb⟩
  | cons c rest ih =>
    intro nb cr hb
    by_cases hc : isAsciiAlnum c = true
    · have hs : stepCharRef o (M.setCharRef (some cr)) (c :: rest) cr =
          .cont (M.setCharRef (some { cr with nameBuf := some (nb ++ [c]) })) rest := by
        apply step_prog
        unfold crStep
        rw [peek_nr (by simpa using hr), discard_nr (by simpa using hr)]
        simp [hb.st, hb.buf, hc]
      obtain ⟨cr', hs', hb'⟩ := ih (nb ++ [c]) { cr with nameBuf := some (nb ++ [c]) } ⟨hb.st, hb.attr, rfl⟩
      refine ⟨cr', ?_, ?_⟩
      · simp only [List.dropWhile_cons, List.takeWhile_cons, hc, ↓reduceIte, List.length_cons]
        exact (Steps.one (setCR_charRef M (some cr)) hs).trans hs'
      · simpa [List.takeWhile_cons, hc] using hb'
    · simp only [List.dropWhile_cons, List.takeWhile_cons, hc]
      exact ⟨cr, Steps.refl _ _, by simpa using hb⟩

theorem bogus_last (o : Opts) {M : Mach} (hr : M.reconsume = false) {cr : CharRefSt} {b : Bool} {nb : Str}
    (hb : BogusSt cr b nb) (f : Char) (post : Str) (hf : isAsciiAlnum f = false) :
    crStep o (M.setCharRef (some cr)) (f :: post) cr =
      .ok (if f = ';' then nameErr o (M.setCharRef (some cr)) (nb ++ [f]) else M.setCharRef (some cr),
           (nb ++ [f]) ++ post, { cr with nameBuf := none }, .done []) := by
  unfold crStep
  rw [peek_nr (by simpa using hr), discard_nr (by simpa using hr)]
  simp [hb.st, hb.buf, hf]

/-! ### numeric references -/

structure NumSt (cr : CharRefSt) (b : Bool) (base : Nat) (hex : Option Char) (acc : Nat × Bool) (seen : Bool) :
    Prop where
  st : cr.state = .numeric base
  attr : cr.inAttr = b
  hex : cr.hexMarker = hex
  num : cr.num = acc.1
  big : cr.numTooBig = acc.2
  seen : cr.seenDigit = seen

theorem octo_hex (o : Opts) {M : Mach} (hr : M.reconsume = false) (cr : CharRefSt) (c : Char) (rest : Str)
    (hst : cr.state = .octothorpe) (hc : c = 'x' ∨ c = 'X') :
    stepCharRef o (M.setCharRef (some cr)) (c :: rest) cr =
      .cont (M.setCharRef (some { cr with hexMarker := some c, state := .numeric 16 })) rest := by
  apply step_prog
  unfold crStep
  rw [peek_nr (by simpa using hr), discard_nr (by simpa using hr)]
  rcases hc with rfl | rfl <;> simp [hst]

theorem octo_dec (o : Opts) {M : Mach} (hr : M.reconsume = false) (cr : CharRefSt) (c : Char) (rest : Str)
    (hst : cr.state = .octothorpe) (hc : c ≠ 'x' ∧ c ≠ 'X') :
    stepCharRef o (M.setCharRef (some cr)) (c :: rest) cr =
      .cont (M.setCharRef (some { cr with hexMarker := none, state := .numeric 10 })) (c :: rest) := by
  apply step_prog
  unfold crStep
  rw [peek_nr (by simpa using hr)]
  simp [hst, hc.1, hc.2]

/-- the digit loop of `do_numeric` runs the accumulator `accum` over the digits -/
theorem digit_loop (o : Opts) {M : Mach} (hr : M.reconsume = false) (b : Bool) (base : Nat) (hex : Option Char)
    (inp : Str) :
    ∀ (acc : Nat × Bool) (seen : Bool) (cr : CharRefSt), NumSt cr b base hex acc seen →
      ∃ cr', Steps o (M.setCharRef (some cr)) inp (M.setCharRef (some cr'))
          (inp.dropWhile (fun c => (toDigit c base).isSome))
          (inp.takeWhile (fun c => (toDigit c base).isSome)).length ∧
        NumSt cr' b base hex
          (accum base ((inp.takeWhile (fun c => (toDigit c base).isSome)).filterMap (fun c => toDigit c base)) acc)
          (seen || !(inp.takeWhile (fun c => (toDigit c base).isSome)).isEmpty) := by
  induction inp with
  | nil => intro acc seen cr hn; exact ⟨cr, Steps.refl _ _, by simpa [accum] using hn⟩
  | cons c rest ih =>
    intro acc seen cr hn
    cases hd : toDigit c base with
    | none =>
      simp only [List.dropWhile_cons, List.takeWhile_cons, hd, Option.isSome_none, Bool.false_eq_true, ↓reduceIte]
      exact ⟨cr, Steps.refl _ _, by simpa [accum] using hn⟩
    | some d =>
      have hs : stepCharRef o (M.setCharRef (some cr)) (c :: rest) cr =
          .cont (M.setCharRef (some { cr with
              num := ((cr.num * base) % 4294967296 + d) % 4294967296,
              numTooBig := cr.numTooBig || (cr.num * base) % 4294967296 > 0x10FFFF,
              seenDigit := true })) rest := by
        apply step_prog
        unfold crStep
        rw [peek_nr (by simpa using hr), discard_nr (by simpa using hr)]
        simp [hn.st, hd]
      obtain ⟨acc1, acc2⟩ := acc
      obtain ⟨cr', hs', hn'⟩ := ih (((acc1 * base) % 4294967296 + d) % 4294967296,
            acc2 || decide ((acc1 * base) % 4294967296 > 0x10FFFF)) true
          { cr with
              num := ((cr.num * base) % 4294967296 + d) % 4294967296,
              numTooBig := cr.numTooBig || (cr.num * base) % 4294967296 > 0x10FFFF,
              seenDigit := true }
          ⟨hn.st, hn.attr, hn.hex,
           (by show (cr.num * base % 4294967296 + d) % 4294967296 = _; rw [hn.num]),
           (by show (cr.numTooBig || decide (cr.num * base % 4294967296 > 0x10FFFF)) = _; rw [hn.num, hn.big]),
           rfl⟩
      refine ⟨cr', ?_, ?_⟩
      · simp only [List.dropWhile_cons, List.takeWhile_cons, hd, Option.isSome_some, ↓reduceIte, List.length_cons]
        exact (Steps.one (setCR_charRef M (some cr)) hs).trans hs'
      · simp only [List.takeWhile_cons, hd, Option.isSome_some, ↓reduceIte, List.filterMap_cons, accum,
          List.isEmpty_cons, Bool.not_false, Bool.or_true]
        simpa using hn'

/-- no digit at all: `&#` / `&#x` stay text, with an error -/
theorem numeric_nodigits (o : Opts) {M : Mach} (hr : M.reconsume = false) {cr : CharRefSt} {b : Bool}
    {base : Nat} {hex : Option Char} {acc : Nat × Bool} (hn : NumSt cr b base hex acc false)
    (f : Char) (post : Str) (hf : toDigit f base = none) :
    crStep o (M.setCharRef (some cr)) (f :: post) cr =
      .ok (emitErr (M.setCharRef (some cr)) "Numeric character reference without digits",
           ('#' :: hex.toList) ++ (f :: post), cr, .done []) := by
  unfold crStep
  rw [peek_nr (by simpa using hr)]
  simp only [List.head?_cons, hn.st, hf, hn.seen, unconsumeNumeric, Bool.not_false, ↓reduceIte]
  rw [← hn.hex]
  cases cr.hexMarker <;> rfl

/-- digits ended: on to the semicolon state (same input) -/
theorem numeric_to_semi (o : Opts) {M : Mach} (hr : M.reconsume = false) {cr : CharRefSt} {b : Bool}
    {base : Nat} {hex : Option Char} {acc : Nat × Bool} (hn : NumSt cr b base hex acc true)
    (f : Char) (post : Str) (hf : toDigit f base = none) :
    stepCharRef o (M.setCharRef (some cr)) (f :: post) cr =
      .cont (M.setCharRef (some { cr with state := .numericSemicolon })) (f :: post) := by
  apply step_prog
  unfold crStep
  rw [peek_nr (by simpa using hr)]
  simp [hn.st, hf, hn.seen]

theorem finishNumericStatus_eq (o : Opts) (m : Mach) (inp : Str) (cr : CharRefSt) (v : Nat)
    (hbig : (decide (cr.num > 0x10FFFF) || cr.numTooBig) = true ↔ v > 0x10FFFF)
    (hval : v ≤ 0x10FFFF → cr.num = v) :
    finishNumericStatus o m inp cr =
      .ok (if (Spec.CharRef.numericEnd v).2 then numericErr o m cr.num else m, inp, cr,
           .done [Char.ofNat (Spec.CharRef.numericEnd v).1]) := by
  unfold finishNumericStatus
  rw [finishNumeric_spec o m cr v hbig hval]

theorem semi_step (o : Opts) {M : Mach} (hr : M.reconsume = false) (cr : CharRefSt) (f : Char) (post : Str)
    (hst : cr.state = .numericSemicolon) :
    crStep o (M.setCharRef (some cr)) (f :: post) cr =
      if f = ';' then finishNumericStatus o (M.setCharRef (some cr)) post cr
      else finishNumericStatus o
        (emitErr (M.setCharRef (some cr)) "Semicolon missing after numeric character reference") (f :: post) cr := by
  unfold crStep
  rw [peek_nr (by simpa using hr), discard_nr (by simpa using hr)]
  simp [hst]

/-! ### end of input (`CharRefTokenizer::end_of_file`) -/

/-- one round of the loop in `end_of_file` -/
def eofOnce (o : Opts) (m : Mach) (inp : Str) (cr : CharRefSt) : CRRes :=
  match cr.state with
  | .begin => .ok (m, inp, cr, .done [])
  | .numeric _ =>
    if !cr.seenDigit then unconsumeNumeric m inp cr
    else finishNumericStatus o (emitErr m "EOF in numeric character reference") inp cr
  | .numericSemicolon =>
    finishNumericStatus o (emitErr m "EOF in numeric character reference") inp cr
  | .named => finishNamed o m inp cr none
  | .bogusName =>
    match cr.nameBuf with
    | none => .error "unconsume_name: unwrap on None"
    | some nb => .ok (m, nb ++ inp, { cr with nameBuf := none }, .done [])
  | .octothorpe =>
    .ok (emitErr m "EOF after '#' in character reference", '#' :: inp, cr, .done [])

/-- when the first round is `Done`, that is the answer of `end_of_file` -/
theorem crEof_of_done (o : Opts) (m : Mach) (inp : Str) (cr : CharRefSt) (m1 : Mach) (i1 : Str)
    (cr1 : CharRefSt) (chars : Str) (h : eofOnce o m inp cr = .ok (m1, i1, cr1, .done chars)) :
    crEof o m inp cr = .ok (m1, i1, chars) := by
  have e : crEof o m inp cr =
      (match eofOnce o m inp cr with
       | .error e => .error e
       | .ok (m, inp, _, .done chars) => .ok (m, inp, chars)
       | .ok (m, inp, _, .stuck) => .ok (m, inp, [])
       | .ok (m, inp, cr, .progress) =>
         match eofOnce o m inp cr with
         | .error e => .error e
         | .ok (m, inp, _, .done chars) => .ok (m, inp, chars)
         | .ok (m, inp, _, _) => .ok (m, inp, [])) := rfl
  rw [e, h]

end H5V.Props.C14
