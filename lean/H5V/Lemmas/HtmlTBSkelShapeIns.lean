import H5V.Lemmas.HtmlTBSkelAdjEarly
/-!
C06, second invariant layer, part 8: insertion in the body-like modes never has the root as parent:
the appropriate place for insertion, `insert_element`, text and comment insertion preserve `Big`.
-/
namespace H5V.Props.C06
open H5V.Model.Dom hiding Str
open H5V.Model.HtmlTB hiding Str
open H5V.Lemmas.Dom

/-- where the foster-parenting loop over `l` (a final part of the reversed stack) ends -/
inductive FRes (s : State) (l : List Id) : InsertionPoint → Prop
  | tmpl (t tc : Id) : t ∈ l → s.dom.templateContentsOf t = some tc →
      (∃ pre post, l = pre ++ t :: post ∧ (∀ y ∈ pre, htmlIn (nm s.dom y) ["table", "template"] = false) ∧
        nm s.dom t = hN "template") →
      FRes s l (.lastChild tc)
  | table (pre post : List Id) (e p : Id) : l = pre ++ e :: p :: post → nm s.dom e = hN "table" →
      (∀ y ∈ pre, htmlIn (nm s.dom y) ["table", "template"] = false) →
      FRes s l (.tableFosterParenting e p)
  | bottom (h : Id) : s.openElems.head? = some h →
      (∀ y ∈ l, htmlIn (nm s.dom y) ["table", "template"] = false) → FRes s l (.lastChild h)

theorem FRes.cons {s : State} {l : List Id} {ip : InsertionPoint} (x : Id)
    (hx : htmlIn (nm s.dom x) ["table", "template"] = false) (h : FRes s l ip) : FRes s (x :: l) ip := by
  cases h with
  | tmpl t tc h1 h2 h3 =>
    obtain ⟨pre, post, hl, hpre, hnt⟩ := h3
    refine .tmpl t tc (List.mem_cons_of_mem _ h1) h2 ⟨x :: pre, post, by rw [hl]; rfl, ?_, hnt⟩
    intro y hy
    rcases List.mem_cons.mp hy with rfl | hy
    · exact hx
    · exact hpre y hy
  | table pre post e p h1 h2 h3 =>
    refine .table (x :: pre) post e p (by rw [h1]; rfl) h2 ?_
    intro y hy
    rcases List.mem_cons.mp hy with rfl | hy
    · exact hx
    · exact h3 y hy
  | bottom hh h1 h2 =>
    refine .bottom hh h1 ?_
    intro y hy
    simp only [List.mem_cons] at hy
    rcases hy with rfl | hy
    · exact hx
    · exact h2 y hy

theorem htmlIn_two_false {n : EName} {a b : String} (h1 : (n.ns == nsHtml && n.loc == a.toList) = false)
    (h2 : (n.ns == nsHtml && n.loc == b.toList) = false) : htmlIn n [a, b] = false := by
  unfold htmlIn isOneOf
  simp only [List.any_cons, List.any_nil, Bool.or_false, Bool.and_eq_false_iff, Bool.or_eq_false_iff] at *
  rcases h1 with h1 | h1
  · exact Or.inl h1
  · rcases h2 with h2 | h2
    · exact Or.inl h2
    · right
      constructor
      · simpa [BEq.comm] using h1
      · simpa [BEq.comm] using h2

theorem fosterLoop_sem : ∀ (l : List Id) (s s' : State) (ip : InsertionPoint),
    fosterLoop l s = .ok (ip, s') → QS s s' ∧ FRes s l ip
  | [], s, s', ip, e => by
    unfold fosterLoop at e
    obtain ⟨h, s1, e1, e2⟩ := bind_ok.mp e
    obtain ⟨rfl, rfl⟩ := pure_ok.mp e2
    unfold htmlElem at e1
    rw [getS_bind] at e1
    cases hh : s.openElems.head? with
    | none => simp only [hh] at e1; exact absurd e1 panicAt_ok
    | some x =>
      simp only [hh] at e1
      obtain ⟨rfl, rfl⟩ := pure_ok.mp e1
      exact ⟨QS.refl _, .bottom _ hh (by intro y hy; cases hy)⟩
  | el :: rest, s, s', ip, e => by
    unfold fosterLoop at e
    obtain ⟨b1, s1, e1, e2⟩ := bind_ok.mp e
    obtain ⟨q1, hb1, _⟩ := htmlElemNamed_sem e1
    by_cases h1 : b1 = true
    · simp only [h1, if_true] at e2
      obtain ⟨tc, s2, e3, e4⟩ := bind_ok.mp e2
      obtain ⟨rfl, rfl⟩ := pure_ok.mp e4
      obtain ⟨htc, q2⟩ := sinkNode_tc e3
      have q2' : QS s1 s2 := IsQ.q _ _ _ e3
      have hnt : nm s.dom el = hN "template" := by
        rw [hb1] at h1
        simp only [Bool.and_eq_true, beq_iff_eq] at h1
        have : nm s.dom el = ⟨(nm s.dom el).ns, (nm s.dom el).loc⟩ := rfl
        rw [this, h1.1, h1.2]; rfl
      refine ⟨q1.trans q2', .tmpl el tc (by simp) ?_ ⟨[], rest, rfl, (by intro y hy; cases hy), hnt⟩⟩
      unfold Dom.templateContentsOf at htc ⊢
      unfold Dom.dataOf at htc ⊢
      rw [← q1.nodes]; exact htc
    · simp only [h1] at e2
      obtain ⟨b2, s2, e3, e4⟩ := bind_ok.mp e2
      obtain ⟨q2, hb2, _⟩ := htmlElemNamed_sem e3
      have q12 := q1.trans q2
      by_cases h2 : b2 = true
      · simp only [h2, if_true] at e4
        cases rest with
        | nil => exact absurd e4 panicAt_ok
        | cons prev r =>
          obtain ⟨rfl, rfl⟩ := pure_ok.mp e4
          refine ⟨q12, .table [] r el prev rfl ?_ (by intro y hy; cases hy)⟩
          rw [hb2, q1.nm] at h2
          simp only [Bool.and_eq_true, beq_iff_eq] at h2
          have : nm s.dom el = ⟨(nm s.dom el).ns, (nm s.dom el).loc⟩ := rfl
          rw [this, h2.1, h2.2]; rfl
      · simp only [h2] at e4
        obtain ⟨q3, hres⟩ := fosterLoop_sem rest s2 s' ip e4
        refine ⟨q12.trans q3, ?_⟩
        have hx : htmlIn (nm s.dom el) ["table", "template"] = false := by
          refine htmlIn_two_false ?_ ?_
          · rw [hb2, q1.nm] at h2; simpa using h2
          · rw [hb1] at h1; simpa using h1
        -- transport the result from s2 to s
        have hres' : FRes s rest ip := by
          cases hres with
          | tmpl t tc h1' h2' h3' =>
            obtain ⟨pre, post, hl, hpre, hnt⟩ := h3'
            refine .tmpl t tc h1' ?_ ⟨pre, post, hl, fun y hy => by rw [← q12.nm]; exact hpre y hy,
              by rw [← q12.nm]; exact hnt⟩
            unfold Dom.templateContentsOf Dom.dataOf at h2' ⊢
            rw [← q12.nodes]; exact h2'
          | table pre post e' p h1' h2' h3' =>
            exact .table pre post e' p h1' (by rw [← q12.nm]; exact h2') (fun y hy => by rw [← q12.nm]; exact h3' y hy)
          | bottom hh h1' h2' =>
            exact .bottom hh (by rw [← q12.openElems]; exact h1') (fun y hy => by rw [← q12.nm]; exact h2' y hy)
        exact hres'.cons el hx

/-- the answer of `appropriate_place_for_insertion` for the target `t` -/
inductive ARes (s : State) (t : Id) : InsertionPoint → Prop
  | plain : ARes s t (.lastChild t)
  | tmpl (tc : Id) : s.dom.templateContentsOf t = some tc → nm s.dom t = hN "template" → ARes s t (.lastChild tc)
  | foster (ip : InsertionPoint) : s.fosterParenting = true → fosterTarget (nm s.dom t) = true →
      FRes s s.openElems.reverse ip → ARes s t ip

theorem tc_of_nodes {d d' : Dom} (h : d'.nodes = d.nodes) (x : Id) : d'.templateContentsOf x = d.templateContentsOf x := by
  unfold Dom.templateContentsOf Dom.dataOf; rw [h]

theorem FRes.qs {s s' : State} {l : List Id} {ip : InsertionPoint} (h : FRes s' l ip) (q : QS s s') : FRes s l ip := by
  cases h with
  | tmpl t tc h1 h2 h3 =>
    obtain ⟨pre, post, hl, hpre, hnt⟩ := h3
    exact .tmpl t tc h1 (by rw [← tc_of_nodes q.nodes]; exact h2)
      ⟨pre, post, hl, fun y hy => by rw [← q.nm]; exact hpre y hy, by rw [← q.nm]; exact hnt⟩
  | table pre post e p h1 h2 h3 =>
    exact .table pre post e p h1 (by rw [← q.nm]; exact h2) (fun y hy => by rw [← q.nm]; exact h3 y hy)
  | bottom hh h1 h2 => exact .bottom hh (by rw [← q.openElems]; exact h1) (fun y hy => by rw [← q.nm]; exact h2 y hy)

theorem apfiRest_sem {s s' : State} {target : Id} {ip : InsertionPoint} (e : apfiRest target s = .ok (ip, s')) :
    QS s s' ∧ ARes s target ip := by
  unfold apfiRest at e
  rw [getS_bind] at e
  have key : ∀ (foster : Bool) (s2 : State), QS s s2 →
      (foster = true → s.fosterParenting = true ∧ fosterTarget (nm s.dom target) = true) →
      (if (!foster) = true then do
          let __do_lift ← htmlElemNamed target "template"
          if __do_lift = true then do
              let contents ← sinkNode (SinkOp.getTemplateContents target)
              pure (InsertionPoint.lastChild contents)
            else pure (InsertionPoint.lastChild target)
        else do
          let __do_lift ← getS
          fosterLoop __do_lift.openElems.reverse) s2 = .ok (ip, s') → QS s s' ∧ ARes s target ip := by
    intro foster s2 q2 hfo e4
    cases foster with
    | false =>
      simp only [Bool.not_false, if_true] at e4
      obtain ⟨b, s3, e5, e6⟩ := bind_ok.mp e4
      have q3 : QS s2 s3 := IsQ.q _ _ _ e5
      by_cases hb : b = true
      · simp only [hb, if_true] at e6
        obtain ⟨tc, s4, e7, e8⟩ := bind_ok.mp e6
        obtain ⟨rfl, rfl⟩ := pure_ok.mp e8
        obtain ⟨htc, _⟩ := sinkNode_tc e7
        have q4 : QS s3 s4 := IsQ.q _ _ _ e7
        refine ⟨(q2.trans q3).trans q4, .tmpl tc ?_ ?_⟩
        · rw [← tc_of_nodes (q2.trans q3).nodes]; exact htc
        · obtain ⟨_, hb5, _⟩ := htmlElemNamed_sem e5
          rw [hb5, q2.nm] at hb
          simp only [Bool.and_eq_true, beq_iff_eq] at hb
          have : nm s.dom target = ⟨(nm s.dom target).ns, (nm s.dom target).loc⟩ := rfl
          rw [this, hb.1, hb.2]; rfl
      · simp only [hb] at e6
        obtain ⟨rfl, rfl⟩ := pure_ok.mp e6
        exact ⟨q2.trans q3, .plain⟩
    | true =>
      simp only [Bool.not_true, Bool.false_eq_true, if_false] at e4
      rw [getS_bind] at e4
      obtain ⟨q3, hres⟩ := fosterLoop_sem _ _ _ _ e4
      refine ⟨q2.trans q3, .foster ip (hfo rfl).1 (hfo rfl).2 ?_⟩
      have := hres.qs q2
      rw [q2.openElems] at this
      exact this
  by_cases hf : s.fosterParenting = true
  · simp only [hf, if_true] at e
    obtain ⟨foster, s2, e3, e4⟩ := bind_ok.mp e
    exact key foster s2 (IsQ.q _ _ _ e3) (fun hft => ⟨hf, by rw [← (elemIn_sem e3).2]; exact hft⟩) e4
  · simp only [hf] at e
    obtain ⟨foster, s2, e3, e4⟩ := bind_ok.mp e
    obtain ⟨rfl, rfl⟩ := pure_ok.mp e3
    exact key false s (QS.refl _) (by intro h; cases h) e4

theorem apfi_sem {s s' : State} {o : Option Id} {ip : InsertionPoint}
    (e : appropriatePlaceForInsertion o s = .ok (ip, s')) :
    QS s s' ∧ ∃ t, (match o with | some t' => t = t' | none => s.openElems.getLast? = some t) ∧ ARes s t ip := by
  rw [apfi_eq] at e
  obtain ⟨target, s1, e1, e2⟩ := bind_ok.mp e
  cases o with
  | some t =>
    simp only at e1
    obtain ⟨rfl, rfl⟩ := pure_ok.mp e1
    obtain ⟨q, h⟩ := apfiRest_sem e2
    exact ⟨q, _, rfl, h⟩
  | none =>
    simp only at e1
    obtain ⟨rfl, hl⟩ := currentNode_sem e1
    obtain ⟨q, h⟩ := apfiRest_sem e2
    exact ⟨q, _, hl, h⟩

/-- the insertion point does not have the root as parent -/
def IpR (r : Id) (d : Dom) : InsertionPoint → Prop
  | .lastChild p => p ≠ r
  | .tableFosterParenting e p => e ∉ d.childrenOf r ∧ p ≠ r
  | .beforeSibling _ => False

/-- the element children of the root have one of these names -/
theorem Core.rootKid_name {s : State} {r : Id} {up : List Id} {ph : Phase} (h : Core s r up ph) {c : Id}
    (hc : c ∈ s.dom.childrenOf r) (hel : s.dom.isElement c = true) :
    htmlIn (nm s.dom c) ["head", "body", "frameset", "noframes"] = true ∨ isFmtE (nm s.dom c) = true := by
  have hm : c ∈ rootElems s.dom r := List.mem_filter.mpr ⟨hc, hel⟩
  have he := h.elems
  cases ph with
  | p0 => rw [he.2] at hm; cases hm
  | p1 =>
    obtain ⟨hh, _, h2, h3⟩ := he
    rw [h2] at hm; simp at hm; subst hm
    rw [h3]; exact Or.inl (by decide)
  | pb b =>
    obtain ⟨hh, _, h2, h3, h4⟩ := he
    rw [h2] at hm; simp at hm
    rcases hm with rfl | rfl
    · rw [h3]; exact Or.inl (by decide)
    · rw [h4]; exact Or.inl (by decide)
  | pf fs =>
    obtain ⟨hh, ex, _, h2, h3, h4, h5⟩ := he
    rw [h2] at hm; simp at hm
    rcases hm with rfl | rfl | hm
    · rw [h3]; exact Or.inl (by decide)
    · rw [h4]; exact Or.inl (by decide)
    · rcases h5 c hm with h | h
      · rw [h]; exact Or.inl (by decide)
      · exact Or.inr h

theorem Core.table_not_rootKid {s : State} {r : Id} {up : List Id} {ph : Phase} (h : Core s r up ph) {e : Id}
    (hel : s.dom.isElement e = true) (hn : nm s.dom e = hN "table") : e ∉ s.dom.childrenOf r := by
  intro hc
  rcases h.rootKid_name hc hel with h1 | h1
  · rw [hn] at h1; revert h1; decide
  · rw [hn] at h1; revert h1; decide

theorem Core.tc_ne_root {s : State} {r : Id} {up : List Id} {ph : Phase} (h : Core s r up ph) {t tc : Id}
    (htc : s.dom.templateContentsOf t = some tc) : tc ≠ r := by
  rintro rfl
  have hdoc := (h.late.base.tcOk t tc htc).2
  have hel := h.late.st.oe tc h.root_mem
  unfold Dom.isElement at hel
  rw [hdoc] at hel; cases hel

theorem Core.up_ne_root {s : State} {r : Id} {up : List Id} {ph : Phase} (h : Core s r up ph) {x : Id} (hx : x ∈ up) :
    x ≠ r := by
  rintro rfl
  have := h.nodup
  rw [h.stack] at this
  exact (List.nodup_cons.mp this).1 hx

theorem BodyBase.ne_nil {d : Dom} {head : Option Id} {up : List Id} {ph : Phase} (h : BodyBase d head up ph) : up ≠ [] := by
  rcases h with ⟨b, u, h1, _⟩ | ⟨_, _, u, _, h1, _⟩ | ⟨t, u, h1, _⟩ <;> (rw [h1]; simp)

/-- the first element above the root is `body`, `head` or `template` -/
theorem Big.anchor_name {m : Mode} {r : Id} {ph : Phase} {s : State} {up : List Id} (hc : Core s r up ph)
    (hbb : BodyBase s.dom s.headElem up ph) :
    ∃ a up', up = a :: up' ∧ htmlIn (nm s.dom a) ["body", "head", "template"] = true := by
  rcases hbb with ⟨b, u, h1, h2, _⟩ | ⟨hh, t, u, h0, h1, _, h4⟩ | ⟨t, u, h1, h2, _⟩
  · subst h2
    obtain ⟨_, _, _, _, hb⟩ := hc.elems
    exact ⟨b, u, h1, by rw [hb]; decide⟩
  · subst h4
    obtain ⟨h', e1, _, e3⟩ := hc.elems
    rw [h0] at e1; cases e1
    exact ⟨hh, t :: u, h1, by rw [e3]; decide⟩
  · exact ⟨t, u, h1, by rw [h2]; decide⟩

/-- the predecessor of a non-first element of a list -/
theorem pred_of_mem {l : List Id} {t : Id} (ht : t ∈ l) (hh : l.head? ≠ some t) :
    ∃ pre p post, l = pre ++ p :: t :: post := by
  obtain ⟨a, b, hab⟩ := List.append_of_mem ht
  rcases nil_or_concat a with rfl | ⟨a0, p, rfl⟩
  · rw [hab] at hh; simp at hh
  · exact ⟨a0, p, b, by rw [hab]; simp⟩

/-- a foster-parenting target on a stack with the table grammar has a `table` or `template` on the stack -/
theorem tg_foster_witness {name : Id → EName} {l : List Id} {t : Id} (htg : TG name l) (hne : l ≠ [])
    (hhead : ∀ h, l.head? = some h → name h = hN "html") (ht : t ∈ l) (hf : fosterTarget (name t) = true) :
    ∃ x ∈ l, htmlIn (name x) ["table", "template"] = true := by
  have hnh : ∀ y, y ∈ l → name y ≠ hN "html" → l.head? ≠ some y := by
    intro y _ hy hh; exact hy (hhead y hh)
  obtain ⟨a, ha, hn⟩ := htmlIn_eq hf
  simp only [List.mem_cons, List.not_mem_nil, or_false] at ha
  -- the predecessor of a section element
  have sect : ∀ y, y ∈ l → htmlIn (name y) ["tbody", "tfoot", "thead"] = true →
      ∃ x ∈ l, htmlIn (name x) ["table", "template"] = true := by
    intro y hy hys
    obtain ⟨b, hb, hbn⟩ := htmlIn_eq hys
    obtain ⟨pre, p, post, hl⟩ := pred_of_mem hy (hnh y hy (by
      rw [hbn]; simp only [List.mem_cons, List.not_mem_nil, or_false] at hb
      rcases hb with rfl | rfl | rfl <;> decide))
    have hp := htg pre p y post hl
    refine ⟨p, by rw [hl]; simp, ?_⟩
    rw [hbn] at hp
    simp only [List.mem_cons, List.not_mem_nil, or_false] at hb
    rcases hb with rfl | rfl | rfl <;> exact hp
  rcases ha with rfl | rfl | rfl | rfl | rfl
  · exact ⟨t, ht, by rw [hn]; decide⟩
  · exact sect t ht (by rw [hn]; decide)
  · exact sect t ht (by rw [hn]; decide)
  · exact sect t ht (by rw [hn]; decide)
  · obtain ⟨pre, p, post, hl⟩ := pred_of_mem ht (hnh t ht (by rw [hn]; decide))
    have hp := htg pre p t post hl
    rw [hn] at hp
    have hp' : htmlIn (name p) ["tbody", "thead", "tfoot", "template"] = true := hp
    have hpm : p ∈ l := by rw [hl]; simp
    obtain ⟨b, hb, hbn⟩ := htmlIn_eq hp'
    simp only [List.mem_cons, List.not_mem_nil, or_false] at hb
    rcases hb with rfl | rfl | rfl | rfl
    · exact sect p hpm (by rw [hbn]; decide)
    · exact sect p hpm (by rw [hbn]; decide)
    · exact sect p hpm (by rw [hbn]; decide)
    · exact ⟨p, hpm, by rw [hbn]; decide⟩

/-- in the body-like modes the appropriate place for insertion is never below (or next to a child of) the root -/
theorem Big.ipR {m : Mode} {r : Id} {ph : Phase} {s : State} {t : Id} {ip : InsertionPoint} (h : Big m r ph s)
    (ht : t ∈ s.openElems ∧ t ≠ r) (ha : ARes s t ip) : IpR r s.dom ip := by
  obtain ⟨up, hc, hbb, _, hfp⟩ := h
  cases ha with
  | plain => exact ht.2
  | tmpl tc htc _ => exact hc.tc_ne_root htc
  | foster ip' hflag htgt hres =>
    cases hres with
    | tmpl t' tc _ htc => exact hc.tc_ne_root htc
    | table pre post e p hl hn =>
      obtain ⟨he, hp⟩ := mem_tail_of_reverse hl
      have hel := hc.late.st.oe e (List.mem_of_mem_tail he)
      refine ⟨hc.table_not_rootKid hel hn, ?_⟩
      rintro rfl
      -- p = r is the bottom: then e is the anchor, which is not a table
      obtain ⟨_, hsplit⟩ := getElem?_of_reverse_split (l := s.openElems) (pre := pre ++ [e]) (x := p) (post := post)
        (by rw [hl]; simp)
      rw [hc.stack] at hsplit
      have hpost : post = [] := by
        cases hpr : post.reverse with
        | nil => simpa using hpr
        | cons z zs =>
          rw [hpr] at hsplit
          simp only [List.cons_append, List.cons.injEq] at hsplit
          have : p ∈ up := by rw [hsplit.2]; simp
          exact absurd rfl (hc.up_ne_root this)
      subst hpost
      simp only [List.reverse_nil, List.nil_append, List.reverse_append, List.reverse_cons, List.cons.injEq,
        true_and] at hsplit
      obtain ⟨a, up', hup, han⟩ := Big.anchor_name (m := m) hc hbb
      rw [hup] at hsplit
      simp at hsplit
      rw [hsplit.1, hn] at han
      revert han; decide
    | bottom hh _ hall =>
      exfalso
      -- the target is one of table/tbody/tfoot/thead/tr: the table grammar puts a table or template below it
      obtain ⟨x, hx, hxn⟩ := tg_foster_witness hc.tg (by rw [hc.stack]; simp) (by rw [hc.stack]; simp [hc.root_name])
        ht.1 htgt
      have := hall x (List.mem_reverse.mpr hx)
      rw [hxn] at this; cases this

theorem exm_of_constrained {n : EName} (h : constrained n = true) : exm n = true := by
  unfold exm; rw [h]; rfl

/-- in the body-like modes no open element (outside `exm`) precedes the place where a node is inserted
for the current node: text put there does not land behind an open element -/
theorem Big.no_open_before {m : Mode} {r : Id} {ph : Phase} {s : State} {t : Id} {ip : InsertionPoint} (h : Big m r ph s)
    (ht : s.openElems.getLast? = some t) (ha : ARes s t ip) :
    ∀ P a b x, s.dom.childrenOf P = a ++ b → NodePos s.dom ip P b → x ∈ a → x ∈ s.openElems →
      exm (nm s.dom x) = false → False := by
  obtain ⟨up, hc, hbb, _, _⟩ := id h
  have hadj := hc.adj
  have htO : t ∈ s.openElems := mem_of_getLast?' ht
  intro P a b x hP hpos hxa hxO hxx
  have hxP : x ∈ s.dom.childrenOf P := by rw [hP]; exact List.mem_append_left _ hxa
  cases ha with
  | plain =>
    cases hpos with
    | last hb hip =>
      rcases hip with hip | ⟨e, hip, _⟩
      · have hPt : t = P := by injection hip
        rw [← hPt] at hxP
        exact not_before_last hc.nodup ht (hadj.pb t x hxP hxO htO)
      · cases hip
    | before e p b' hip _ _ _ => cases hip
  | tmpl tc htc htn =>
    cases hpos with
    | last hb hip =>
      rcases hip with hip | ⟨e, hip, _⟩
      · have hPt : tc = P := by injection hip
        rw [← hPt] at hxP
        exact not_before_last hc.nodup ht (hadj.pbt t tc x htc htn hxP hxO htO)
      · cases hip
    | before e p b' hip _ _ _ => cases hip
  | foster ip' hflag htgt hres =>
    cases hres with
    | tmpl t' tc ht' htc hsp =>
      obtain ⟨pre, post, hl, hpre, htn⟩ := hsp
      cases hpos with
      | last hb hip =>
        rcases hip with hip | ⟨e, hip, _⟩
        · have hPt : tc = P := by injection hip
          rw [← hPt] at hxP
          have ht'O : t' ∈ s.openElems := List.mem_reverse.mp ht'
          have hbf := hadj.pbt t' tc x htc htn hxP hxO ht'O
          have hxpre := mem_pre_of_before hc.nodup hl hbf
          have := pre_constrained hc.tg hl ht htgt hpre x hxpre
          rw [exm_of_constrained this] at hxx; cases hxx
        · cases hip
      | before e p b' hip _ _ _ => cases hip
    | table pre post e p hl hn hpre =>
      have heO : e ∈ s.openElems := List.mem_reverse.mp (by rw [hl]; simp)
      have hpO : p ∈ s.openElems := List.mem_reverse.mp (by rw [hl]; simp)
      cases hpos with
      | last hb hip =>
        rcases hip with hip | ⟨e', hip, hpe⟩
        · cases hip
        · have heq : e = e' ∧ p = P := by
            injection hip with h1 h2; exact ⟨h1, h2⟩
          rw [← heq.1] at hpe
          rw [← heq.2] at hxP
          -- x is a child of p, the element below the parentless table on the stack
          have hbf := hadj.pb p x hxP hxO hpO
          have hl' : s.openElems.reverse = (pre ++ [e]) ++ p :: post := by rw [hl]; simp
          have hxpre := mem_pre_of_before hc.nodup hl' hbf
          rcases List.mem_append.mp hxpre with h1 | h1
          · have := pre_constrained hc.tg hl ht htgt hpre x h1
            rw [exm_of_constrained this] at hxx; cases hxx
          · have hxe : x = e := by simpa using h1
            have := hadj.lk p x hxP
            rw [hxe, hpe] at this; cases this
      | before e' p' b' hip hpe hem hb =>
        have heq : e = e' := by injection hip
        rw [← heq] at hb
        -- x precedes the table among its siblings
        have hbfc : Before (s.dom.childrenOf P) x e := by
          rw [hP, hb]
          obtain ⟨a1, a2, ha⟩ := List.append_of_mem hxa
          rw [ha]
          have : a1 ++ x :: a2 ++ e :: b' = a1 ++ ([x] ++ (a2 ++ ([e] ++ b'))) := by simp
          rw [this]
          exact (List.Sublist.append (List.Sublist.refl [x])
            ((List.sublist_append_left [e] b').trans (List.sublist_append_right a2 _))).trans
            (List.sublist_append_right a1 _)
        have hbf := hadj.tb P x e hbfc hxO heO hxx hn
        have hxpre := mem_pre_of_before hc.nodup hl hbf
        have := pre_constrained hc.tg hl ht htgt hpre x hxpre
        rw [exm_of_constrained this] at hxx; cases hxx
    | bottom hh _ hall =>
      obtain ⟨y, hy, hyn⟩ := tg_foster_witness hc.tg (by rw [hc.stack]; simp) (by rw [hc.stack]; simp [hc.root_name])
        htO htgt
      have := hall y (List.mem_reverse.mpr hy)
      rw [hyn] at this; cases this

/-- `insert_element`, decomposed: place, (queries), create, (query), insert, push -/
theorem insertElement_run {s s' : State} {pushIt : Bool} {ns name : Str} {attrs : List Attr} {dup : Bool} {el : Id}
    (e : insertElement pushIt ns name attrs dup s = .ok (el, s')) :
    ∃ ip s1 s2 s3 s4 s5, appropriatePlaceForInsertion none s = .ok (ip, s1) ∧ QS s1 s2 ∧
      createElementWithFlags { ns := ns, loc := name } attrs dup s2 = .ok (el, s3) ∧ QS s3 s4 ∧
      H5V.Model.HtmlTB.insertAt ip (.node el) s4 = .ok ((), s5) ∧
      s' = (if pushIt then { s5 with openElems := s5.openElems ++ [el] } else s5) := by
  unfold insertElement at e
  obtain ⟨ip, s1, e1, e2⟩ := bind_ok.mp e
  have key : ∀ (fia : Bool) (s2 : State), QS s1 s2 →
      (do
        let elem ← createElementWithFlags { ns := ns, loc := name } attrs dup
        have __do_jp : Unit → M Id := fun __r => do
          H5V.Model.HtmlTB.insertAt ip (NodeOrText.node elem)
          have __do_jp : Unit → M Id := fun __r => pure elem
          if pushIt = true then do
              let __r ← push elem
              __do_jp __r
            else __do_jp ()
        if fia = true then do
            let __do_lift ← getS
            match __do_lift.formElem with
              | some form => do
                let __r ← sinkUnit (SinkOp.associateWithForm elem form ip.nodes.1 ip.nodes.2)
                __do_jp __r
              | none => do
                let __r ← panicAt "unwrap-none" "mod.rs:1401" "form_elem unwrap"
                __do_jp __r
          else __do_jp ()) s2 = .ok (el, s') →
      ∃ s3 s4 s5, createElementWithFlags { ns := ns, loc := name } attrs dup s2 = .ok (el, s3) ∧ QS s3 s4 ∧
        H5V.Model.HtmlTB.insertAt ip (.node el) s4 = .ok ((), s5) ∧
        s' = (if pushIt then { s5 with openElems := s5.openElems ++ [el] } else s5) := by
    intro fia s2 q2 e3
    obtain ⟨el', s3, e4, e5⟩ := bind_ok.mp e3
    have key2 : ∀ (s4 : State), QS s3 s4 →
        (do
          H5V.Model.HtmlTB.insertAt ip (NodeOrText.node el')
          have __do_jp : Unit → M Id := fun __r => pure el'
          if pushIt = true then do
              let __r ← push el'
              __do_jp __r
            else __do_jp ()) s4 = .ok (el, s') →
        el' = el ∧ ∃ s5, H5V.Model.HtmlTB.insertAt ip (.node el') s4 = .ok ((), s5) ∧
          s' = (if pushIt then { s5 with openElems := s5.openElems ++ [el'] } else s5) := by
      intro s4 q4 e6
      obtain ⟨u, s5, e7, e8⟩ := bind_ok.mp e6
      by_cases hp : pushIt = true
      · simp only [hp, if_true] at e8
        obtain ⟨u2, s6, e9, e10⟩ := bind_ok.mp e8
        obtain ⟨rfl, rfl⟩ := pure_ok.mp e10
        unfold push at e9
        exact ⟨rfl, s5, e7, by rw [modS_ok.mp e9]; simp [hp]⟩
      · simp only [hp] at e8
        obtain ⟨rfl, rfl⟩ := pure_ok.mp e8
        exact ⟨rfl, s5, e7, by simp [hp]⟩
    by_cases hf : fia = true
    · simp only [hf, if_true] at e5
      rw [getS_bind] at e5
      cases hform : s3.formElem with
      | none =>
        simp only [hform] at e5
        obtain ⟨_, _, e6, _⟩ := bind_ok.mp e5
        exact absurd e6 panicAt_ok
      | some form =>
        simp only [hform] at e5
        obtain ⟨u, s4, e6, e7⟩ := bind_ok.mp e5
        obtain ⟨rfl, s5, h1, h2⟩ := key2 s4 (qs_sinkUnit e6) e7
        exact ⟨s3, s4, s5, e4, qs_sinkUnit e6, h1, h2⟩
    · simp only [hf] at e5
      obtain ⟨rfl, s5, h1, h2⟩ := key2 s3 (QS.refl _) e5
      exact ⟨s3, s3, s5, e4, QS.refl _, h1, h2⟩
  simp only at e2
  rw [getS_bind] at e2
  by_cases hc : (formAssociatable { ns := ns, loc := name } && s1.formElem.isSome) = true
  · simp only [hc, if_true] at e2
    obtain ⟨b, s2, e3, e4⟩ := bind_ok.mp e2
    have q2 : QS s1 s2 := IsQ.q _ _ _ e3
    by_cases hb : b = true
    · simp only [hb, if_true] at e4
      obtain ⟨fia, s2', e5, e6⟩ := bind_ok.mp e4
      obtain ⟨rfl, rfl⟩ := pure_ok.mp e5
      obtain ⟨s3, s4, s5, h1, h2, h3, h4⟩ := key _ _ q2 e6
      exact ⟨ip, s1, s2, s3, s4, s5, e1, q2, h1, h2, h3, h4⟩
    · simp only [hb] at e4
      obtain ⟨fia, s2', e5, e6⟩ := bind_ok.mp e4
      obtain ⟨rfl, rfl⟩ := pure_ok.mp e5
      obtain ⟨s3, s4, s5, h1, h2, h3, h4⟩ := key _ _ q2 e6
      exact ⟨ip, s1, s2, s3, s4, s5, e1, q2, h1, h2, h3, h4⟩
  · simp only [hc] at e2
    obtain ⟨fia, s2', e5, e6⟩ := bind_ok.mp e2
    obtain ⟨rfl, rfl⟩ := pure_ok.mp e5
    obtain ⟨s3, s4, s5, h1, h2, h3, h4⟩ := key _ _ (QS.refl _) e6
    exact ⟨ip, s1, s1, s3, s4, s5, e1, QS.refl _, h1, h2, h3, h4⟩

/-- everything but the arena and the trace is unchanged -/
def DomOnly (s s' : State) : Prop := s' = { s with dom := s'.dom, traceRev := s'.traceRev }

theorem createElement_core {s s3 : State} {r : Id} {up : List Id} {ph : Phase} {name : QualName} {attrs : List Attr}
    {dup : Bool} {el : Id} (h : Core s r up ph) (e : createElementWithFlags name attrs dup s = .ok (el, s3)) :
    Core s3 r up ph ∧ DomOnly s s3 ∧ Chg s.dom s3.dom ∧ s.dom.size ≤ el ∧ s3.dom.isElement el = true ∧
      nm s3.dom el = ⟨name.ns, name.loc⟩ ∧ (∀ q, el ∉ s3.dom.childrenOf q) := by
  obtain ⟨hl3, _, _, _, hdo⟩ := createElementWithFlags_spec h.late e
  obtain ⟨f1, hb1, hc1, hk1, hfresh, hvalid, tc, ip, hdata⟩ := createElementWithFlags_any h.late.base e
  have hrs : RS r s.dom s3.dom := by
    unfold createElementWithFlags at e
    obtain ⟨hd1, _⟩ := sink_dom (sinkNode_ok.mp e)
    obtain ⟨hdom1, _⟩ := apply_createElement hd1
    rw [hdom1]
    exact rs_createElement r h.late.base _ _ _
  have hr := hdo
  refine ⟨h.transfer hl3 hc1 hrs (by rw [hk1]; exact h.rdoc) ?_ ?_ ?_ ?_ ?_ (createElement_adj h.late h.adj e).1,
    hdo, hc1, hfresh, ?_, ?_, ?_⟩
  · rw [hr]
  · rw [hr]
  · rw [hr]
  · rw [hr]
  · rw [hr]
  · unfold Dom.isElement; rw [hdata]
  · unfold nm; rw [hdata]
  · intro q hq
    rw [hk1] at hq
    exact Nat.lt_irrefl _ (Nat.lt_of_lt_of_le (h.late.base.kidsValid q el hq) hfresh)

/-- `insert_at` at a place that is not below the root -/
theorem insertAt_rs {s s' : State} {r : Id} {ip : InsertionPoint} {child : NodeOrText} {u : Unit}
    (hb : DomBase s.dom) (hu : RTU r s.dom) (hip : IpR r s.dom ip)
    (hch : match child with | .node c => c ∉ s.dom.childrenOf r ∧ (∀ p, ip.nodes.1 = p ∨ ip.nodes.2 = some p → p ≠ c) | .text _ => True)
    (e : H5V.Model.HtmlTB.insertAt ip child s = .ok (u, s')) : RS r s.dom s'.dom := by
  cases ip with
  | beforeSibling _ => exact absurd hip id
  | lastChild p =>
    unfold H5V.Model.HtmlTB.insertAt at e
    obtain ⟨out, hd, _⟩ := sinkUnit_dom e
    have ha := apply_append hd
    cases child with
    | node c => exact rs_append_node hb hip (hch.2 p (Or.inl rfl)) hch.1 ha
    | text t => exact rs_append_text hb hu hip ha
  | tableFosterParenting el p =>
    unfold H5V.Model.HtmlTB.insertAt at e
    obtain ⟨out, hd, _⟩ := sinkUnit_dom e
    have ha := apply_abopn hd
    cases child with
    | node c => exact rs_abopn (ch := .node c) hb hu hip.1 hip.2 hch.1 (fun c' hc' => by cases hc'; exact hch.2 p (Or.inr rfl)) ha
    | text t => exact rs_abopn (ch := .text t) hb hu hip.1 hip.2 trivial (fun c' hc' => by cases hc') ha

theorem constrained_of_keepName_false {n : EName} (h : keepName n = false) : constrained n = false := by
  cases hc : constrained n with
  | false => rfl
  | true => rw [keepName_constrained hc] at h; cases h

theorem not_in_of_keepName_false {n : EName} {l : List String} (h : keepName n = false)
    (hl : ∀ a ∈ l, keepName (hN a) = true) : htmlIn n l = false := by
  cases hc : htmlIn n l with
  | false => rfl
  | true => rw [keepName_of_htmlIn hc hl] at h; cases h

/-- may an element named `n` be pushed on top of the stack `l`: the table grammar allows it, and it
is none of `html body head frameset` -/
def PushOk (s : State) (n : EName) : Prop :=
  (∀ t, s.openElems.getLast? = some t → predOk n (nm s.dom t) = true) ∧
    htmlIn n ["html", "body", "head", "frameset"] = false ∧
    (n = hN "template" → tcount s.dom s.openElems + 1 ≤ s.templateModes.length)

theorem PushOk.of_plain {s : State} {n : EName} (hk : keepName n = false) : PushOk s n :=
  ⟨fun t _ => predOk_of_not_constrained (constrained_of_keepName_false hk), not_in_of_keepName_false hk (by decide),
   fun h => by rw [h, keepName_template] at hk; cases hk⟩

/-- pushing a fresh, loose element -/
theorem Core.pushG {s : State} {r : Id} {up : List Id} {ph : Phase} (h : Core s r up ph) {x : Id}
    (hx : Loose s.dom x) (hfresh : x ∉ s.openElems) (hk : PushOk s (nm s.dom x))
    (hadj : AdjD s.dom (s.openElems ++ [x])) :
    Core { s with openElems := s.openElems ++ [x] } r (up ++ [x]) ph := by
  refine ⟨h.late.push hx, by show s.openElems ++ [x] = _; rw [h.stack]; rfl, h.rdoc, ?_, ?_, h.afn, ?_, h.tmm, h.form,
    h.rtu, h.rnd, h.kids, h.elems, ?_, h.afx, hadj⟩
  · show (s.openElems ++ [x]).Nodup
    rw [List.nodup_append]
    exact ⟨h.nodup, by simp, by intro a ha b hb; simp at hb; subst hb; rintro rfl; exact hfresh ha⟩
  · show TG (nm s.dom) (s.openElems ++ [x])
    exact h.tg.snoc hk.1
  · show tcount s.dom (s.openElems ++ [x]) ≤ _
    unfold tcount
    rw [List.countP_append]
    cases hcn : (nm s.dom x == hN "template") with
    | false =>
      have : List.countP (fun x => nm s.dom x == hN "template") [x] = 0 := by simp [hcn]
      rw [this]; exact h.tc
    | true =>
      have : List.countP (fun x => nm s.dom x == hN "template") [x] = 1 := by simp [hcn]
      rw [this]
      exact hk.2.2 (beq_iff_eq.mp hcn)
  · intro y hy
    cases hup : up with
    | nil => rw [hup] at hy; simp at hy
    | cons a t =>
      rw [hup] at hy
      simp only [List.cons_append, List.tail_cons, List.mem_append, List.mem_singleton] at hy
      rcases hy with hy | rfl
      · exact h.bh y (by rw [hup]; exact hy)
      · exact bh_of4 hk.2.1

theorem Core.push {s : State} {r : Id} {up : List Id} {ph : Phase} (h : Core s r up ph) {x : Id}
    (hx : Loose s.dom x) (hfresh : x ∉ s.openElems) (hk : keepName (nm s.dom x) = false)
    (hadj : AdjD s.dom (s.openElems ++ [x])) :
    Core { s with openElems := s.openElems ++ [x] } r (up ++ [x]) ph :=
  h.pushG hx hfresh (PushOk.of_plain hk) hadj

theorem BodyBase.snoc {d : Dom} {head : Option Id} {up : List Id} {ph : Phase} (h : BodyBase d head up ph) {x : Id}
    (hx : ∀ hh, head = some hh → x ≠ hh) : BodyBase d head (up ++ [x]) ph := by
  rcases h with ⟨b, u, h1, h2, h3⟩ | ⟨hh, t, u, h0, h1, h2, h3⟩ | ⟨t, u, h1, h2, h3, h4⟩
  · refine Or.inl ⟨b, u ++ [x], by rw [h1]; rfl, h2, fun y hy hm => ?_⟩
    rcases List.mem_append.mp hm with hm | hm
    · exact h3 y hy hm
    · simp at hm; exact hx y hy hm.symm
  · exact Or.inr (Or.inl ⟨hh, t, u ++ [x], h0, by rw [h1]; rfl, h2, h3⟩)
  · refine Or.inr (Or.inr ⟨t, u ++ [x], by rw [h1]; rfl, h2, h3, fun y hy hm => ?_⟩)
    rcases List.mem_append.mp hm with hm | hm
    · exact h4 y hy hm
    · simp at hm; exact hx y hy hm.symm

theorem Need.mono {d : Dom} {m : Mode} {up up' : List Id} (h : Need d m up) (hs : ∀ x ∈ up, x ∈ up') : Need d m up' := by
  cases m <;> try exact h
  all_goals
    obtain ⟨x, hx, hh⟩ := h
    exact ⟨x, hs x hx, hh⟩

/-- the arena changed without touching the root, the stack is unchanged -/
theorem Big.dom {m : Mode} {r : Id} {ph : Phase} {s s' : State} (h : Big m r ph s) (hl : Late s')
    (hdo : DomOnly s s') (hc : Chg s.dom s'.dom) (hrs : RS r s.dom s'.dom)
    (hk0 : s'.dom.childrenOf 0 = s.dom.childrenOf 0) (hadj : AdjD s'.dom s'.openElems) : Big m r ph s' := by
  obtain ⟨up, hcore, hbb, hneed, hfp⟩ := h
  have hr := hdo
  have hcore' : Core s' r up ph := hcore.transfer hl hc hrs (by rw [hk0]; exact hcore.rdoc)
    (by rw [hr]) (by rw [hr]) (by rw [hr]) (by rw [hr]) (by rw [hr]) hadj
  have hsn := hcore.sameNames hc
  have hhead : s'.headElem = s.headElem := by rw [hr]
  have hfl : s'.fosterParenting = s.fosterParenting := by rw [hr]
  refine ⟨up, hcore', by rw [hhead]; exact hbb.congr hsn, hneed.congr hsn, ?_⟩
  intro hf
  rw [hfl] at hf
  obtain ⟨x, hx, hh⟩ := hfp hf
  exact ⟨x, hx, by rw [hsn x hx]; exact hh⟩

theorem Big.current {m : Mode} {r : Id} {ph : Phase} {s : State} (h : Big m r ph s) {t : Id}
    (hl : s.openElems.getLast? = some t) : t ∈ s.openElems ∧ t ≠ r := by
  obtain ⟨up, hc, hbb, _, _⟩ := h
  refine ⟨mem_of_getLast?' hl, ?_⟩
  have hne := hbb.ne_nil
  rw [hc.stack] at hl
  have : t ∈ up := by
    rcases nil_or_concat up with rfl | ⟨u0, z, rfl⟩
    · exact absurd rfl hne
    · have : (r :: (u0 ++ [z])).getLast? = some z := by
        rw [show r :: (u0 ++ [z]) = (r :: u0) ++ [z] from rfl, List.getLast?_append]
        simp
      rw [this] at hl; cases hl; simp
  exact hc.up_ne_root this

theorem Big.rtu {m : Mode} {r : Id} {ph : Phase} {s : State} (h : Big m r ph s) : RTU r s.dom := by
  obtain ⟨_, hc, _⟩ := h; exact hc.rtu

theorem Big.late {m : Mode} {r : Id} {ph : Phase} {s : State} (h : Big m r ph s) : Late s := by
  obtain ⟨_, hc, _⟩ := h; exact hc.late

theorem IpR.rs {r : Id} {d d' : Dom} {ip : InsertionPoint} (h : IpR r d ip) (hrs : RS r d d') : IpR r d' ip := by
  cases ip with
  | lastChild p => exact h
  | beforeSibling _ => exact h
  | tableFosterParenting e p => exact ⟨by rw [hrs.kids]; exact h.1, h.2⟩

theorem IpOk.nodes_lt {d : Dom} {ip : InsertionPoint} (h : IpOk d ip) :
    ∀ p, ip.nodes.1 = p ∨ ip.nodes.2 = some p → p < d.size := by
  cases ip with
  | lastChild q =>
    intro p hp
    simp only [InsertionPoint.nodes] at hp
    rcases hp with rfl | hp
    · exact lt_of_isContainer h.2
    · cases hp
  | beforeSibling _ => exact absurd h id
  | tableFosterParenting e q =>
    intro p hp
    simp only [InsertionPoint.nodes, Option.some.injEq] at hp
    rcases hp with rfl | rfl
    · exact lt_of_isElement h.1
    · exact lt_of_isElement h.2.2

/-- `insert_element` with a disposable name, in a body-like mode -/
theorem insertElement_gen {m : Mode} {r : Id} {ph : Phase} {s s' : State} {pushIt : Bool} {ns name : Str}
    {attrs : List Attr} {dup : Bool} {el : Id} (h : Big m r ph s)
    (hk : pushIt = true → PushOk s ⟨ns, name⟩)
    (e : insertElement pushIt ns name attrs dup s = .ok (el, s')) :
    Big m r ph s' ∧ s'.mode = s.mode ∧ s'.origMode = s.origMode ∧ nm s'.dom el = ⟨ns, name⟩ ∧
      s'.dom.isElement el = true ∧ s.dom.size ≤ el ∧
      s'.openElems = (if pushIt then s.openElems ++ [el] else s.openElems) ∧
      s'.activeFormatting = s.activeFormatting ∧ s'.formElem = s.formElem := by
  obtain ⟨ip, s1, s2, s3, s4, s5, e1, q12, e3, q34, e5, hs'⟩ := insertElement_run e
  -- the place
  obtain ⟨q1, t, ht, hares⟩ := apfi_sem e1
  obtain ⟨_, _, hipok1⟩ := apfi_spec h.late e1
  simp only at ht
  have hipr : IpR r s.dom ip := h.ipR (h.current ht) hares
  have hb1 : Big m r ph s2 := (h.qs q1).qs q12
  have q02 : QS s s2 := q1.trans q12
  have hipr2 : IpR r s2.dom ip := hipr.rs (RS.of_nodes q02.nodes)
  have hipok2 : IpOk s2.dom ip := hipok1.ext (SameSk.of_nodes q12.nodes).ext
  -- the new element
  obtain ⟨up, hc2, hbb2, hneed2, hfp2⟩ := hb1
  obtain ⟨hc3, hdo3, hchg3, hfresh3, hel3, hnm3, hnol3⟩ := createElement_core hc2 e3
  have hb3 : Big m r ph s3 := by
    have hsn := hc2.sameNames hchg3
    have hr := hdo3
    refine ⟨up, hc3, ?_, hneed2.congr hsn, ?_⟩
    · have : s3.headElem = s2.headElem := by rw [hr]
      rw [this]; exact hbb2.congr hsn
    · intro hf
      have : s3.fosterParenting = s2.fosterParenting := by rw [hr]
      rw [this] at hf
      obtain ⟨x, hx, hh⟩ := hfp2 hf
      exact ⟨x, hx, by rw [hsn x hx]; exact hh⟩
  have hb4 : Big m r ph s4 := hb3.qs q34
  have hrs23 : RS r s2.dom s3.dom := by
    unfold createElementWithFlags at e3
    obtain ⟨hd1, _⟩ := sink_dom (sinkNode_ok.mp e3)
    obtain ⟨hdom1, _⟩ := apply_createElement hd1
    rw [hdom1]
    exact rs_createElement r hc2.late.base _ _ _
  have hrs24 : RS r s2.dom s4.dom := hrs23.trans (RS.of_nodes q34.nodes)
  have hext24 : Ext s2.dom s4.dom := by
    obtain ⟨_, x, _⟩ := createElementWithFlags_spec hc2.late e3
    exact x.trans (SameSk.of_nodes q34.nodes).ext
  have hipr4 : IpR r s4.dom ip := hipr2.rs hrs24
  have hipok4 : IpOk s4.dom ip := hipok2.ext hext24
  have hnol4 : ∀ q, el ∉ s4.dom.childrenOf q := fun q => by rw [childrenOf_of_nodes q34.nodes]; exact hnol3 q
  have hel4 : s4.dom.isElement el = true := by rw [isElement_of_nodes q34.nodes]; exact hel3
  have hloose4 : Loose s4.dom el := ⟨hel4, hnol4 0⟩
  -- the insertion
  obtain ⟨hl5, hext5, hk05, hdo5⟩ := insertAt_spec (child := .node el) hb4.late hipok4 hloose4.childOk e5
  have hrs45 : RS r s4.dom s5.dom := by
    refine insertAt_rs (child := .node el) hb4.late.base hb4.rtu hipr4 ⟨hnol4 r, ?_⟩ e5
    intro p hp
    have := hipok2.nodes_lt p hp
    exact Nat.ne_of_lt (Nat.lt_of_lt_of_le this hfresh3)
  have hcand : ∀ p, ip.nodes.1 = p ∨ ip.nodes.2 = some p → p ≠ el := fun p hp =>
    Nat.ne_of_lt (Nat.lt_of_lt_of_le (hipok2.nodes_lt p hp) hfresh3)
  obtain ⟨_, hpar3, hkids3, htxt3, htc3, _, hch3, hpo3, hda3⟩ := createElement_adj hc2.late hc2.adj e3
  have hst4 : s4.openElems = s.openElems := by
    rw [q34.openElems, hdo3]; show s2.openElems = _; exact q02.openElems
  have hsz2 : s2.dom.size = s.dom.size := by simp [Dom.size, q02.nodes]
  have hel_nO : el ∉ s4.openElems := by
    rw [hst4]
    intro hm
    exact Nat.lt_irrefl _ (Nat.lt_of_lt_of_le (lt_of_isElement (h.late.st.oe el hm)) (by rw [← hsz2]; exact hfresh3))
  have hch4 : ∀ x, s4.dom.childrenOf x = s.dom.childrenOf x := fun x => by
    rw [childrenOf_of_nodes q34.nodes, hch3, childrenOf_of_nodes q02.nodes]
  obtain ⟨hadj5, hadj5p⟩ := insertAt_new_adj (el := el) hb4.late hipok4
    (by obtain ⟨_, hc4, _⟩ := id hb4; exact hc4.adj) hel_nO
    (by rw [parentOf_of_nodes q34.nodes]; exact hpar3)
    (by rw [isText_of_data (d := s3.dom) (by unfold Dom.dataOf; rw [q34.nodes])]; exact htxt3)
    (by rw [childrenOf_of_nodes q34.nodes]; exact hkids3)
    (fun tc htc => by
      rw [tc_of_nodes q34.nodes] at htc
      obtain ⟨h1, h2⟩ := htc3 tc htc
      refine ⟨by rw [childrenOf_of_nodes q34.nodes]; exact h1, fun p hp => ?_⟩
      exact Nat.ne_of_lt (Nat.lt_of_lt_of_le (hipok2.nodes_lt p hp) h2))
    hcand
    (fun P a b x hP hpos hxa hxO hxx => by
      refine h.no_open_before ht hares P a b x (by rw [← hch4]; exact hP) ?_ hxa (by rw [← hst4]; exact hxO) ?_
      · refine hpos.congr (fun y => (hch4 y).symm) (fun p hp => ?_)
        have hlt := hipok2.nodes_lt p hp
        rw [parentOf_of_nodes q34.nodes, hpo3 p hlt, parentOf_of_nodes q02.nodes]
      · have hxO' : x ∈ s.openElems := by rw [← hst4]; exact hxO
        have hlt : x < s2.dom.size := by rw [hsz2]; exact lt_of_isElement (h.late.st.oe x hxO')
        have : nm s4.dom x = nm s.dom x := by
          rw [nm_of_nodes q34.nodes, nm_of_data (hda3 x hlt), nm_of_nodes q02.nodes]
        rw [← this]; exact hxx)
    e5
  have hb5 : Big m r ph s5 := hb4.dom hl5 hdo5 hext5.chg hrs45 hk05 (by
    have : s5.openElems = s4.openElems := by rw [hdo5]
    rw [this]; exact hadj5)
  have hnm5 : nm s5.dom el = ⟨ns, name⟩ := by
    rw [nm_chg hext5.chg hel4, nm_of_nodes q34.nodes]; exact hnm3
  have hel5 : s5.dom.isElement el = true := hext5.chg.isElement hel4
  have hst5 : s5.openElems = s.openElems := by
    rw [hdo5]; show s4.openElems = _; rw [q34.openElems, hdo3]; show s2.openElems = _; exact q02.openElems
  have hsz : s.dom.size ≤ el := by
    have : s2.dom.size = s.dom.size := by simp [Dom.size, q02.nodes]
    rw [← this]; exact hfresh3
  have hmode5 : s5.mode = s.mode ∧ s5.origMode = s.origMode ∧ s5.activeFormatting = s.activeFormatting ∧
      s5.formElem = s.formElem := by
    have h5 := hdo5; have h3 := hdo3; have h34 := q34.rest; have h02 := q02.rest
    refine ⟨?_, ?_, ?_, ?_⟩ <;> (rw [h5, h34, h3, h02])
  by_cases hp : pushIt = true
  · simp only [hp, if_true] at hs' ⊢
    subst hs'
    obtain ⟨up5, hc5, hbb5, hneed5, hfp5⟩ := hb5
    have hfr : el ∉ s5.openElems := by
      rw [hst5]
      intro hm
      exact Nat.lt_irrefl _ (Nat.lt_of_lt_of_le (lt_of_isElement (h.late.st.oe el hm)) hsz)
    have hloose5 : Loose s5.dom el := ⟨hel5, by rw [hk05]; exact hnol4 0⟩
    have hchg05 : Chg s.dom s5.dom :=
      ((SameSk.of_nodes q02.nodes).chg.trans hchg3).trans ((SameSk.of_nodes q34.nodes).chg.trans hext5.chg)
    have hpk : PushOk s5 (nm s5.dom el) := by
      obtain ⟨hk1, hk2, hk3⟩ := hk hp
      rw [hnm5]
      refine ⟨fun t ht => ?_, hk2, fun hn => ?_⟩
      · rw [hst5] at ht
        rw [nm_chg hchg05 (h.late.st.oe t (mem_of_getLast?' ht))]
        exact hk1 t ht
      · have htm5 : s5.templateModes = s.templateModes := by
          have h5 := hdo5; have h3 := hdo3; have h34 := q34.rest; have h02 := q02.rest
          rw [h5, h34, h3, h02]
        rw [hst5, htm5, tcount_congr (SameNames.of_chg hchg05 h.late.st.oe)]
        exact hk3 hn
    have hcp := hc5.pushG hloose5 hfr hpk (by
      have : s5.openElems = s4.openElems := by rw [hdo5]
      rw [this]; exact hadj5p)
    refine ⟨⟨up5 ++ [el], hcp, ?_, hneed5.mono (fun x hx => List.mem_append_left _ hx), ?_⟩, hmode5.1, hmode5.2.1,
      hnm5, hel5, hsz, by show s5.openElems ++ [el] = _; rw [hst5], hmode5.2.2.1, hmode5.2.2.2⟩
    · refine hbb5.snoc (fun hh hhe => ?_)
      rintro rfl
      -- the head pointer is an old element
      have : s5.headElem = s.headElem := by
        have h5 := hdo5; have h3 := hdo3; have h34 := q34.rest; have h02 := q02.rest
        rw [h5, h34, h3, h02]
      have hhe' : s.headElem = some el := by rw [← this]; exact hhe
      exact Nat.lt_irrefl _ (Nat.lt_of_lt_of_le (lt_of_isElement (h.late.st.head el hhe').1) hsz)
    · intro hf
      obtain ⟨x, hx, hh⟩ := hfp5 hf
      exact ⟨x, List.mem_append_left _ hx, hh⟩
  · simp only [hp] at hs' ⊢
    subst hs'
    exact ⟨hb5, hmode5.1, hmode5.2.1, hnm5, hel5, hsz, hst5, hmode5.2.2.1, hmode5.2.2.2⟩

/-- `insert_element` with a disposable name, in a body-like mode -/
theorem insertElement_big {m : Mode} {r : Id} {ph : Phase} {s s' : State} {pushIt : Bool} {ns name : Str}
    {attrs : List Attr} {dup : Bool} {el : Id} (h : Big m r ph s) (hk : keepName ⟨ns, name⟩ = false)
    (e : insertElement pushIt ns name attrs dup s = .ok (el, s')) :
    Big m r ph s' ∧ s'.mode = s.mode ∧ s'.origMode = s.origMode ∧ nm s'.dom el = ⟨ns, name⟩ ∧
      s'.dom.isElement el = true ∧ s.dom.size ≤ el ∧
      s'.openElems = (if pushIt then s.openElems ++ [el] else s.openElems) ∧
      s'.activeFormatting = s.activeFormatting ∧ s'.formElem = s.formElem :=
  insertElement_gen h (fun _ => PushOk.of_plain hk) e

instance (pushIt : Bool) (name : Str) (attrs : List Attr) (dup : Bool) [hk : PlainStr name] :
    PB (insertElement pushIt nsHtml name attrs dup) :=
  ⟨fun m r ph s a s' hb e => by
    obtain ⟨h1, h2, h3, _⟩ := insertElement_big hb hk.h e
    exact ⟨h1, h2, h3⟩⟩

theorem keepName_foreign {ns name : Str} (h : (ns == nsHtml) = false) : keepName ⟨ns, name⟩ = false := by
  unfold keepName isStruct htmlIn
  simp [h]

instance (tag : Tag) [PlainStr tag.name] : PB (insertElementFor tag) := by unfold insertElementFor; infer_instance
instance (tag : Tag) [PlainStr tag.name] : PB (insertAndPopElementFor tag) := by unfold insertAndPopElementFor; infer_instance
instance (n : String) [PlainStr n.toList] : PB (insertPhantom n) := by unfold insertPhantom; infer_instance

/-- `insert_appropriately` of text, or of a node that is in no child list yet -/
theorem insertAppropriately_big {m : Mode} {r : Id} {ph : Phase} {s s' : State} {child : NodeOrText}
    {u : Unit} (h : Big m r ph s)
    (hch : match child with
      | .node c => (∀ q, c ∉ s.dom.childrenOf q) ∧ (∀ x, x < s.dom.size → s.dom.isContainer x = true → x ≠ c) ∧
          (s.dom.isElement c = true ∨ ∃ t, s.dom.dataOf c = some (.comment t)) ∧ s.dom.parentOf c = none ∧
          c ∉ s.openElems
      | .text t => t ≠ [])
    (e : insertAppropriately child none s = .ok (u, s')) :
    Big m r ph s' ∧ DomOnly s s' ∧ Chg s.dom s'.dom := by
  unfold insertAppropriately at e
  obtain ⟨ip, s1, e1, e2⟩ := bind_ok.mp e
  obtain ⟨q1, t, ht, hares⟩ := apfi_sem e1
  obtain ⟨_, _, hipok1⟩ := apfi_spec h.late e1
  simp only at ht
  have htr : t ∈ s.openElems ∧ t ≠ r := h.current ht
  have hipr : IpR r s.dom ip := h.ipR htr hares
  have hb1 : Big m r ph s1 := h.qs q1
  have hipr1 : IpR r s1.dom ip := hipr.rs (RS.of_nodes q1.nodes)
  have hk : ∀ x, s1.dom.childrenOf x = s.dom.childrenOf x := childrenOf_of_nodes q1.nodes
  have hsz : s1.dom.size = s.dom.size := by simp [Dom.size, q1.nodes]
  have hch1 : ChildOk s1.dom child := by
    cases child with
    | node c =>
      obtain ⟨h1, _, h3, _⟩ := hch
      refine ⟨by rw [hk]; exact h1 0, ?_⟩
      have hd : s1.dom.dataOf c = s.dom.dataOf c := by unfold Dom.dataOf; rw [q1.nodes]
      rw [hd]
      rcases h3 with h3 | ⟨t', h3⟩
      · exact not_doc_of_isElement h3
      · rw [h3]; simp
    | text t' => exact hch
  obtain ⟨hl2, hext2, hk02, hdo2⟩ := insertAt_spec hb1.late hipok1 hch1 e2
  have hrs : RS r s1.dom s'.dom := by
    refine insertAt_rs hb1.late.base hb1.rtu hipr1 ?_ e2
    cases child with
    | node c =>
      obtain ⟨h1, h2, _⟩ := hch
      refine ⟨by rw [hk]; exact h1 r, fun p hp => ?_⟩
      have hlt := hipok1.nodes_lt p hp
      rw [hsz] at hlt
      refine h2 p hlt ?_
      -- the parent candidates are containers
      cases ip with
      | lastChild q =>
        simp only [InsertionPoint.nodes] at hp
        rcases hp with rfl | hp
        · have := hipok1.2; unfold Dom.isContainer Dom.dataOf at this ⊢; rw [← q1.nodes]; exact this
        · cases hp
      | beforeSibling _ => exact absurd hipok1 id
      | tableFosterParenting e' q =>
        simp only [InsertionPoint.nodes, Option.some.injEq] at hp
        have he := hipok1.1; have hq := hipok1.2.2
        rw [isElement_of_nodes q1.nodes] at he hq
        rcases hp with rfl | rfl
        · exact isContainer_of_isElement he
        · exact isContainer_of_isElement hq
    | text t' => trivial
  have hadj1 : AdjD s1.dom s1.openElems := by obtain ⟨_, hc1, _⟩ := id hb1; exact hc1.adj
  have hno : ∀ P a b x, s1.dom.childrenOf P = a ++ b → NodePos s1.dom ip P b → x ∈ a → x ∈ s1.openElems →
      exm (nm s1.dom x) = false → False := fun P a b x hP hpos hxa hxO hxx =>
    h.no_open_before ht hares P a b x (by rw [← hk]; exact hP)
      (hpos.congr (fun y => (hk y).symm) (fun p _ => (parentOf_of_nodes q1.nodes p).symm)) hxa
      (by rw [← q1.openElems]; exact hxO) (by rw [← q1.nm]; exact hxx)
  have hadj' : AdjD s'.dom s'.openElems := by
    have hst : s'.openElems = s1.openElems := by rw [hdo2]
    rw [hst]
    cases child with
    | text t' =>
      refine insertAt_text_adj hb1.late hipok1 hadj1 hb1.late.st.oe (fun x hpx hxO hxx => ?_) e2
      obtain ⟨P, a, b, hP, hpos, hxa⟩ := hpx.pos
      exact hno P a b x hP hpos hxa hxO hxx
    | node c =>
      obtain ⟨_, h2, h3, h4, h5⟩ := hch
      have hd : s1.dom.dataOf c = s.dom.dataOf c := by unfold Dom.dataOf; rw [q1.nodes]
      refine (insertAt_node_adj hb1.late hipok1 hadj1 (by rw [q1.openElems]; exact h5)
        (by rw [parentOf_of_nodes q1.nodes]; exact h4) ?_ ?_ e2).1
      · rw [isText_of_data hd]
        rcases h3 with h3 | ⟨t', h3⟩
        · exact isText_false_of_isElement h3
        · unfold Dom.isText; rw [h3]
      · intro p hp
        have hlt := hipok1.nodes_lt p hp
        rw [hsz] at hlt
        refine h2 p hlt ?_
        cases ip with
        | lastChild q =>
          simp only [InsertionPoint.nodes] at hp
          rcases hp with rfl | hp
          · have := hipok1.2; unfold Dom.isContainer Dom.dataOf at this ⊢; rw [← q1.nodes]; exact this
          · cases hp
        | beforeSibling _ => exact absurd hipok1 id
        | tableFosterParenting e' q =>
          simp only [InsertionPoint.nodes, Option.some.injEq] at hp
          have he := hipok1.1; have hq := hipok1.2.2
          rw [isElement_of_nodes q1.nodes] at he hq
          rcases hp with rfl | rfl
          · exact isContainer_of_isElement he
          · exact isContainer_of_isElement hq
  have hb' : Big m r ph s' := hb1.dom hl2 hdo2 hext2.chg hrs hk02 hadj'
  refine ⟨hb', ?_, (SameSk.of_nodes q1.nodes).chg.trans hext2.chg⟩
  have h1 := q1.rest
  show s' = { s with dom := s'.dom, traceRev := s'.traceRev }
  rw [hdo2, h1]

instance (text : Str) [hne : NE text] : PB (appendText text) :=
  ⟨fun m r ph s a s' hb e => by
    unfold appendText at e
    obtain ⟨u, s1, e1, e2⟩ := bind_ok.mp e
    obtain ⟨_, rfl⟩ := pure_ok.mp e2
    obtain ⟨h1, hdo, _⟩ := insertAppropriately_big (child := .text text) hb hne.h e1
    exact ⟨h1, by rw [hdo], by rw [hdo]⟩⟩

instance (text : Str) : PB (appendComment text) :=
  ⟨fun m r ph s a s' hb e => by
    unfold appendComment at e
    obtain ⟨c, s1, e1, e2⟩ := bind_ok.mp e
    obtain ⟨u, s2, e3, e4⟩ := bind_ok.mp e2
    obtain ⟨_, rfl⟩ := pure_ok.mp e4
    obtain ⟨hl1, hext1, hc1, hcd1, hfresh1, hdo1⟩ := createComment_run hb.late e1
    -- the comment node is fresh
    have hd1 : s.dom.apply (.createComment text) = .ok (s1.dom, .node c) := (sink_dom (sinkNode_ok.mp e1)).1
    obtain ⟨hdom1, hout⟩ := apply_createComment hd1
    obtain ⟨_, _, hk1, hid, hs1, _⟩ := createComment_spec hb.late.base text
    rw [← hdom1] at hk1 hs1
    have hrs1 : RS r s.dom s1.dom := by rw [hdom1]; exact rs_alloc r hb.late.base _
    obtain ⟨hadj1, hpar1, htx1, hnO1⟩ := createComment_adj hb.late
      (by obtain ⟨_, hc0, _⟩ := id hb; exact hc0.adj) e1
    have hb1 : Big m r ph s1 := hb.dom hl1 hdo1 hext1.chg hrs1 (hk1 0) hadj1
    have hnol : ∀ q, c ∉ s1.dom.childrenOf q := fun q hq => by
      rw [hk1] at hq
      exact Nat.lt_irrefl _ (Nat.lt_of_lt_of_le (hb.late.base.kidsValid q _ hq) hfresh1)
    have hncont : ∀ x, x < s1.dom.size → s1.dom.isContainer x = true → x ≠ c := fun x _ hcx hxc => by
      subst hxc
      unfold Dom.isContainer at hcx; rw [hcd1] at hcx; cases hcx
    obtain ⟨h2, hdo2, _⟩ := insertAppropriately_big (child := .node c) hb1
      ⟨hnol, hncont, Or.inr ⟨text, hcd1⟩, hpar1, hnO1⟩ e3
    exact ⟨h2, by rw [hdo2, hdo1], by rw [hdo2, hdo1]⟩⟩

end H5V.Props.C06
