import H5V.Lemmas.HtmlTBSkelShapeScope
/-!
C06, second invariant layer, part 8: insertion in the body-like modes never has the root as parent:
the appropriate place for insertion, `insert_element`, text and comment insertion preserve `Big`.
-/
namespace H5V.Props.C06
open H5V.Model.Dom hiding Str
open H5V.Model.HtmlTB hiding Str
open H5V.Lemmas.Dom

/-- where the foster-parenting loop over `l` (a final part of the reversed stack) ends -/
inductive FRes (s : State) (l : List Id) : InsertionPoint → Prop
  | tmpl (t tc : Id) : t ∈ l → s.dom.templateContentsOf t = some tc → FRes s l (.lastChild tc)
  | table (pre post : List Id) (e p : Id) : l = pre ++ e :: p :: post → nm s.dom e = hN "table" →
      FRes s l (.tableFosterParenting e p)
  | bottom (h : Id) : s.openElems.head? = some h →
      (∀ y ∈ l, htmlIn (nm s.dom y) ["table", "template"] = false) → FRes s l (.lastChild h)

theorem FRes.cons {s : State} {l : List Id} {ip : InsertionPoint} (x : Id)
    (hx : htmlIn (nm s.dom x) ["table", "template"] = false) (h : FRes s l ip) : FRes s (x :: l) ip := by
  cases h with
  | tmpl t tc h1 h2 => exact .tmpl t tc (List.mem_cons_of_mem _ h1) h2
  | table pre post e p h1 h2 => exact .table (x :: pre) post e p (by rw [h1]; rfl) h2
  | bottom hh h1 h2 =>
    refine .bottom hh h1 ?_
    intro y hy
    simp only [List.mem_cons] at hy
    rcases hy with rfl | hy
    · exact hx
    · exact h2 y hy

theorem htmlIn_two_false {n : EName} {a b : String} (h1 : (n.ns == nsHtml && n.loc == a.toList) = false)
    (h2 : (n.ns == nsHtml && n.loc == b.toList) = false) : htmlIn n [a, b] = false := by
  unfold htmlIn isOneOf
  simp only [List.any_cons, List.any_nil, Bool.or_false, Bool.and_eq_false_iff, Bool.or_eq_false_iff] at *
  rcases h1 with h1 | h1
  · exact Or.inl h1
  · rcases h2 with h2 | h2
    · exact Or.inl h2
    · right
      constructor
      · simpa [BEq.comm] using h1
      · simpa [BEq.comm] using h2

theorem fosterLoop_sem : ∀ (l : List Id) (s s' : State) (ip : InsertionPoint),
    fosterLoop l s = .ok (ip, s') → QS s s' ∧ FRes s l ip
  | [], s, s', ip, e => by
    unfold fosterLoop at e
    obtain ⟨h, s1, e1, e2⟩ := bind_ok.mp e
    obtain ⟨rfl, rfl⟩ := pure_ok.mp e2
    unfold htmlElem at e1
    rw [getS_bind] at e1
    cases hh : s.openElems.head? with
    | none => simp only [hh] at e1; exact absurd e1 panicAt_ok
    | some x =>
      simp only [hh] at e1
      obtain ⟨rfl, rfl⟩ := pure_ok.mp e1
      exact ⟨QS.refl _, .bottom _ hh (by intro y hy; cases hy)⟩
  | el :: rest, s, s', ip, e => by
    unfold fosterLoop at e
    obtain ⟨b1, s1, e1, e2⟩ := bind_ok.mp e
    obtain ⟨q1, hb1, _⟩ := htmlElemNamed_sem e1
    by_cases h1 : b1 = true
    · simp only [h1, if_true] at e2
      obtain ⟨tc, s2, e3, e4⟩ := bind_ok.mp e2
      obtain ⟨rfl, rfl⟩ := pure_ok.mp e4
      obtain ⟨htc, q2⟩ := sinkNode_tc e3
      have q2' : QS s1 s2 := IsQ.q _ _ _ e3
      refine ⟨q1.trans q2', .tmpl el tc (by simp) ?_⟩
      unfold Dom.templateContentsOf at htc ⊢
      unfold Dom.dataOf at htc ⊢
      rw [← q1.nodes]; exact htc
    · simp only [h1] at e2
      obtain ⟨b2, s2, e3, e4⟩ := bind_ok.mp e2
      obtain ⟨q2, hb2, _⟩ := htmlElemNamed_sem e3
      have q12 := q1.trans q2
      by_cases h2 : b2 = true
      · simp only [h2, if_true] at e4
        cases rest with
        | nil => exact absurd e4 panicAt_ok
        | cons prev r =>
          obtain ⟨rfl, rfl⟩ := pure_ok.mp e4
          refine ⟨q12, .table [] r el prev rfl ?_⟩
          rw [hb2, q1.nm] at h2
          simp only [Bool.and_eq_true, beq_iff_eq] at h2
          have : nm s.dom el = ⟨(nm s.dom el).ns, (nm s.dom el).loc⟩ := rfl
          rw [this, h2.1, h2.2]; rfl
      · simp only [h2] at e4
        obtain ⟨q3, hres⟩ := fosterLoop_sem rest s2 s' ip e4
        refine ⟨q12.trans q3, ?_⟩
        have hx : htmlIn (nm s.dom el) ["table", "template"] = false := by
          refine htmlIn_two_false ?_ ?_
          · rw [hb2, q1.nm] at h2; simpa using h2
          · rw [hb1] at h1; simpa using h1
        -- transport the result from s2 to s
        have hres' : FRes s rest ip := by
          cases hres with
          | tmpl t tc h1' h2' =>
            refine .tmpl t tc h1' ?_
            unfold Dom.templateContentsOf Dom.dataOf at h2' ⊢
            rw [← q12.nodes]; exact h2'
          | table pre post e' p h1' h2' => exact .table pre post e' p h1' (by rw [← q12.nm]; exact h2')
          | bottom hh h1' h2' =>
            exact .bottom hh (by rw [← q12.openElems]; exact h1') (fun y hy => by rw [← q12.nm]; exact h2' y hy)
        exact hres'.cons el hx

/-- the answer of `appropriate_place_for_insertion` for the target `t` -/
inductive ARes (s : State) (t : Id) : InsertionPoint → Prop
  | plain : ARes s t (.lastChild t)
  | tmpl (tc : Id) : s.dom.templateContentsOf t = some tc → ARes s t (.lastChild tc)
  | foster (ip : InsertionPoint) : s.fosterParenting = true → FRes s s.openElems.reverse ip → ARes s t ip

theorem tc_of_nodes {d d' : Dom} (h : d'.nodes = d.nodes) (x : Id) : d'.templateContentsOf x = d.templateContentsOf x := by
  unfold Dom.templateContentsOf Dom.dataOf; rw [h]

theorem FRes.qs {s s' : State} {l : List Id} {ip : InsertionPoint} (h : FRes s' l ip) (q : QS s s') : FRes s l ip := by
  cases h with
  | tmpl t tc h1 h2 => exact .tmpl t tc h1 (by rw [← tc_of_nodes q.nodes]; exact h2)
  | table pre post e p h1 h2 => exact .table pre post e p h1 (by rw [← q.nm]; exact h2)
  | bottom hh h1 h2 => exact .bottom hh (by rw [← q.openElems]; exact h1) (fun y hy => by rw [← q.nm]; exact h2 y hy)

theorem apfiRest_sem {s s' : State} {target : Id} {ip : InsertionPoint} (e : apfiRest target s = .ok (ip, s')) :
    QS s s' ∧ ARes s target ip := by
  unfold apfiRest at e
  rw [getS_bind] at e
  have key : ∀ (foster : Bool) (s2 : State), QS s s2 → (foster = true → s.fosterParenting = true) →
      (if (!foster) = true then do
          let __do_lift ← htmlElemNamed target "template"
          if __do_lift = true then do
              let contents ← sinkNode (SinkOp.getTemplateContents target)
              pure (InsertionPoint.lastChild contents)
            else pure (InsertionPoint.lastChild target)
        else do
          let __do_lift ← getS
          fosterLoop __do_lift.openElems.reverse) s2 = .ok (ip, s') → QS s s' ∧ ARes s target ip := by
    intro foster s2 q2 hfo e4
    cases foster with
    | false =>
      simp only [Bool.not_false, if_true] at e4
      obtain ⟨b, s3, e5, e6⟩ := bind_ok.mp e4
      have q3 : QS s2 s3 := IsQ.q _ _ _ e5
      by_cases hb : b = true
      · simp only [hb, if_true] at e6
        obtain ⟨tc, s4, e7, e8⟩ := bind_ok.mp e6
        obtain ⟨rfl, rfl⟩ := pure_ok.mp e8
        obtain ⟨htc, _⟩ := sinkNode_tc e7
        have q4 : QS s3 s4 := IsQ.q _ _ _ e7
        refine ⟨(q2.trans q3).trans q4, .tmpl tc ?_⟩
        rw [← tc_of_nodes (q2.trans q3).nodes]; exact htc
      · simp only [hb] at e6
        obtain ⟨rfl, rfl⟩ := pure_ok.mp e6
        exact ⟨q2.trans q3, .plain⟩
    | true =>
      simp only [Bool.not_true, Bool.false_eq_true, if_false] at e4
      rw [getS_bind] at e4
      obtain ⟨q3, hres⟩ := fosterLoop_sem _ _ _ _ e4
      refine ⟨q2.trans q3, .foster ip (hfo rfl) ?_⟩
      have := hres.qs q2
      rw [q2.openElems] at this
      exact this
  by_cases hf : s.fosterParenting = true
  · simp only [hf, if_true] at e
    obtain ⟨foster, s2, e3, e4⟩ := bind_ok.mp e
    exact key foster s2 (IsQ.q _ _ _ e3) (fun _ => hf) e4
  · simp only [hf] at e
    obtain ⟨foster, s2, e3, e4⟩ := bind_ok.mp e
    obtain ⟨rfl, rfl⟩ := pure_ok.mp e3
    exact key false s (QS.refl _) (by intro h; cases h) e4

theorem apfi_sem {s s' : State} {o : Option Id} {ip : InsertionPoint}
    (e : appropriatePlaceForInsertion o s = .ok (ip, s')) :
    QS s s' ∧ ∃ t, (match o with | some t' => t = t' | none => s.openElems.getLast? = some t) ∧ ARes s t ip := by
  rw [apfi_eq] at e
  obtain ⟨target, s1, e1, e2⟩ := bind_ok.mp e
  cases o with
  | some t =>
    simp only at e1
    obtain ⟨rfl, rfl⟩ := pure_ok.mp e1
    obtain ⟨q, h⟩ := apfiRest_sem e2
    exact ⟨q, _, rfl, h⟩
  | none =>
    simp only at e1
    obtain ⟨rfl, hl⟩ := currentNode_sem e1
    obtain ⟨q, h⟩ := apfiRest_sem e2
    exact ⟨q, _, hl, h⟩

/-- the insertion point does not have the root as parent -/
def IpR (r : Id) (d : Dom) : InsertionPoint → Prop
  | .lastChild p => p ≠ r
  | .tableFosterParenting e p => e ∉ d.childrenOf r ∧ p ≠ r
  | .beforeSibling _ => False

/-- the element children of the root have one of these names -/
theorem Core.rootKid_name {s : State} {r : Id} {up : List Id} {ph : Phase} (h : Core s r up ph) {c : Id}
    (hc : c ∈ s.dom.childrenOf r) (hel : s.dom.isElement c = true) :
    htmlIn (nm s.dom c) ["head", "body", "frameset", "noframes"] = true ∨ isFmtE (nm s.dom c) = true := by
  have hm : c ∈ rootElems s.dom r := List.mem_filter.mpr ⟨hc, hel⟩
  have he := h.elems
  cases ph with
  | p0 => rw [he.2] at hm; cases hm
  | p1 =>
    obtain ⟨hh, _, h2, h3⟩ := he
    rw [h2] at hm; simp at hm; subst hm
    rw [h3]; exact Or.inl (by decide)
  | pb b =>
    obtain ⟨hh, _, h2, h3, h4⟩ := he
    rw [h2] at hm; simp at hm
    rcases hm with rfl | rfl
    · rw [h3]; exact Or.inl (by decide)
    · rw [h4]; exact Or.inl (by decide)
  | pf fs =>
    obtain ⟨hh, ex, _, h2, h3, h4, h5⟩ := he
    rw [h2] at hm; simp at hm
    rcases hm with rfl | rfl | hm
    · rw [h3]; exact Or.inl (by decide)
    · rw [h4]; exact Or.inl (by decide)
    · rcases h5 c hm with h | h
      · rw [h]; exact Or.inl (by decide)
      · exact Or.inr h

theorem Core.table_not_rootKid {s : State} {r : Id} {up : List Id} {ph : Phase} (h : Core s r up ph) {e : Id}
    (hel : s.dom.isElement e = true) (hn : nm s.dom e = hN "table") : e ∉ s.dom.childrenOf r := by
  intro hc
  rcases h.rootKid_name hc hel with h1 | h1
  · rw [hn] at h1; revert h1; decide
  · rw [hn] at h1; revert h1; decide

theorem Core.tc_ne_root {s : State} {r : Id} {up : List Id} {ph : Phase} (h : Core s r up ph) {t tc : Id}
    (htc : s.dom.templateContentsOf t = some tc) : tc ≠ r := by
  rintro rfl
  have hdoc := (h.late.base.tcOk t tc htc).2
  have hel := h.late.st.oe tc h.root_mem
  unfold Dom.isElement at hel
  rw [hdoc] at hel; cases hel

theorem Core.up_ne_root {s : State} {r : Id} {up : List Id} {ph : Phase} (h : Core s r up ph) {x : Id} (hx : x ∈ up) :
    x ≠ r := by
  rintro rfl
  have := h.nodup
  rw [h.stack] at this
  exact (List.nodup_cons.mp this).1 hx

theorem BodyBase.ne_nil {d : Dom} {head : Option Id} {up : List Id} {ph : Phase} (h : BodyBase d head up ph) : up ≠ [] := by
  rcases h with ⟨b, u, h1, _⟩ | ⟨_, _, u, _, h1, _⟩ | ⟨t, u, h1, _⟩ <;> (rw [h1]; simp)

/-- the first element above the root is `body`, `head` or `template` -/
theorem Big.anchor_name {m : Mode} {r : Id} {ph : Phase} {s : State} {up : List Id} (hc : Core s r up ph)
    (hbb : BodyBase s.dom s.headElem up ph) :
    ∃ a up', up = a :: up' ∧ htmlIn (nm s.dom a) ["body", "head", "template"] = true := by
  rcases hbb with ⟨b, u, h1, h2, _⟩ | ⟨hh, t, u, h0, h1, _, h4⟩ | ⟨t, u, h1, h2, _⟩
  · subst h2
    obtain ⟨_, _, _, _, hb⟩ := hc.elems
    exact ⟨b, u, h1, by rw [hb]; decide⟩
  · subst h4
    obtain ⟨h', e1, _, e3⟩ := hc.elems
    rw [h0] at e1; cases e1
    exact ⟨hh, t :: u, h1, by rw [e3]; decide⟩
  · exact ⟨t, u, h1, by rw [h2]; decide⟩

/-- in the body-like modes the appropriate place for insertion is never below (or next to a child of) the root -/
theorem Big.ipR {m : Mode} {r : Id} {ph : Phase} {s : State} {t : Id} {ip : InsertionPoint} (h : Big m r ph s)
    (ht : t ∈ s.openElems ∧ t ≠ r) (ha : ARes s t ip) : IpR r s.dom ip := by
  obtain ⟨up, hc, hbb, _, hfp⟩ := h
  cases ha with
  | plain => exact ht.2
  | tmpl tc htc => exact hc.tc_ne_root htc
  | foster ip' hflag hres =>
    cases hres with
    | tmpl t' tc _ htc => exact hc.tc_ne_root htc
    | table pre post e p hl hn =>
      obtain ⟨he, hp⟩ := mem_tail_of_reverse hl
      have hel := hc.late.st.oe e (List.mem_of_mem_tail he)
      refine ⟨hc.table_not_rootKid hel hn, ?_⟩
      rintro rfl
      -- p = r is the bottom: then e is the anchor, which is not a table
      obtain ⟨_, hsplit⟩ := getElem?_of_reverse_split (l := s.openElems) (pre := pre ++ [e]) (x := p) (post := post)
        (by rw [hl]; simp)
      rw [hc.stack] at hsplit
      have hpost : post = [] := by
        cases hpr : post.reverse with
        | nil => simpa using hpr
        | cons z zs =>
          rw [hpr] at hsplit
          simp only [List.cons_append, List.cons.injEq] at hsplit
          have : p ∈ up := by rw [hsplit.2]; simp
          exact absurd rfl (hc.up_ne_root this)
      subst hpost
      simp only [List.reverse_nil, List.nil_append, List.reverse_append, List.reverse_cons, List.cons.injEq,
        true_and] at hsplit
      obtain ⟨a, up', hup, han⟩ := Big.anchor_name (m := m) hc hbb
      rw [hup] at hsplit
      simp at hsplit
      rw [hsplit.1, hn] at han
      revert han; decide
    | bottom hh _ hall =>
      exfalso
      obtain ⟨x, hx, hxn⟩ := hfp hflag
      have := hall x (by rw [hc.stack]; simp [hx])
      rw [hxn] at this; cases this

/-- `insert_element`, decomposed: place, (queries), create, (query), insert, push -/
theorem insertElement_run {s s' : State} {pushIt : Bool} {ns name : Str} {attrs : List Attr} {dup : Bool} {el : Id}
    (e : insertElement pushIt ns name attrs dup s = .ok (el, s')) :
    ∃ ip s1 s2 s3 s4 s5, appropriatePlaceForInsertion none s = .ok (ip, s1) ∧ QS s1 s2 ∧
      createElementWithFlags { ns := ns, loc := name } attrs dup s2 = .ok (el, s3) ∧ QS s3 s4 ∧
      H5V.Model.HtmlTB.insertAt ip (.node el) s4 = .ok ((), s5) ∧
      s' = (if pushIt then { s5 with openElems := s5.openElems ++ [el] } else s5) := by
  unfold insertElement at e
  obtain ⟨ip, s1, e1, e2⟩ := bind_ok.mp e
  have key : ∀ (fia : Bool) (s2 : State), QS s1 s2 →
      (do
        let elem ← createElementWithFlags { ns := ns, loc := name } attrs dup
        have __do_jp : Unit → M Id := fun __r => do
          H5V.Model.HtmlTB.insertAt ip (NodeOrText.node elem)
          have __do_jp : Unit → M Id := fun __r => pure elem
          if pushIt = true then do
              let __r ← push elem
              __do_jp __r
            else __do_jp ()
        if fia = true then do
            let __do_lift ← getS
            match __do_lift.formElem with
              | some form => do
                let __r ← sinkUnit (SinkOp.associateWithForm elem form ip.nodes.1 ip.nodes.2)
                __do_jp __r
              | none => do
                let __r ← panicAt "unwrap-none" "mod.rs:1401" "form_elem unwrap"
                __do_jp __r
          else __do_jp ()) s2 = .ok (el, s') →
      ∃ s3 s4 s5, createElementWithFlags { ns := ns, loc := name } attrs dup s2 = .ok (el, s3) ∧ QS s3 s4 ∧
        H5V.Model.HtmlTB.insertAt ip (.node el) s4 = .ok ((), s5) ∧
        s' = (if pushIt then { s5 with openElems := s5.openElems ++ [el] } else s5) := by
    intro fia s2 q2 e3
    obtain ⟨el', s3, e4, e5⟩ := bind_ok.mp e3
    have key2 : ∀ (s4 : State), QS s3 s4 →
        (do
          H5V.Model.HtmlTB.insertAt ip (NodeOrText.node el')
          have __do_jp : Unit → M Id := fun __r => pure el'
          if pushIt = true then do
              let __r ← push el'
              __do_jp __r
            else __do_jp ()) s4 = .ok (el, s') →
        el' = el ∧ ∃ s5, H5V.Model.HtmlTB.insertAt ip (.node el') s4 = .ok ((), s5) ∧
          s' = (if pushIt then { s5 with openElems := s5.openElems ++ [el'] } else s5) := by
      intro s4 q4 e6
      obtain ⟨u, s5, e7, e8⟩ := bind_ok.mp e6
      by_cases hp : pushIt = true
      · simp only [hp, if_true] at e8
        obtain ⟨u2, s6, e9, e10⟩ := bind_ok.mp e8
        obtain ⟨rfl, rfl⟩ := pure_ok.mp e10
        unfold push at e9
        exact ⟨rfl, s5, e7, by rw [modS_ok.mp e9]; simp [hp]⟩
      · simp only [hp] at e8
        obtain ⟨rfl, rfl⟩ := pure_ok.mp e8
        exact ⟨rfl, s5, e7, by simp [hp]⟩
    by_cases hf : fia = true
    · simp only [hf, if_true] at e5
      rw [getS_bind] at e5
      cases hform : s3.formElem with
      | none =>
        simp only [hform] at e5
        obtain ⟨_, _, e6, _⟩ := bind_ok.mp e5
        exact absurd e6 panicAt_ok
      | some form =>
        simp only [hform] at e5
        obtain ⟨u, s4, e6, e7⟩ := bind_ok.mp e5
        obtain ⟨rfl, s5, h1, h2⟩ := key2 s4 (qs_sinkUnit e6) e7
        exact ⟨s3, s4, s5, e4, qs_sinkUnit e6, h1, h2⟩
    · simp only [hf] at e5
      obtain ⟨rfl, s5, h1, h2⟩ := key2 s3 (QS.refl _) e5
      exact ⟨s3, s3, s5, e4, QS.refl _, h1, h2⟩
  simp only at e2
  rw [getS_bind] at e2
  by_cases hc : (formAssociatable { ns := ns, loc := name } && s1.formElem.isSome) = true
  · simp only [hc, if_true] at e2
    obtain ⟨b, s2, e3, e4⟩ := bind_ok.mp e2
    have q2 : QS s1 s2 := IsQ.q _ _ _ e3
    by_cases hb : b = true
    · simp only [hb, if_true] at e4
      obtain ⟨fia, s2', e5, e6⟩ := bind_ok.mp e4
      obtain ⟨rfl, rfl⟩ := pure_ok.mp e5
      obtain ⟨s3, s4, s5, h1, h2, h3, h4⟩ := key _ _ q2 e6
      exact ⟨ip, s1, s2, s3, s4, s5, e1, q2, h1, h2, h3, h4⟩
    · simp only [hb] at e4
      obtain ⟨fia, s2', e5, e6⟩ := bind_ok.mp e4
      obtain ⟨rfl, rfl⟩ := pure_ok.mp e5
      obtain ⟨s3, s4, s5, h1, h2, h3, h4⟩ := key _ _ q2 e6
      exact ⟨ip, s1, s2, s3, s4, s5, e1, q2, h1, h2, h3, h4⟩
  · simp only [hc] at e2
    obtain ⟨fia, s2', e5, e6⟩ := bind_ok.mp e2
    obtain ⟨rfl, rfl⟩ := pure_ok.mp e5
    obtain ⟨s3, s4, s5, h1, h2, h3, h4⟩ := key _ _ (QS.refl _) e6
    exact ⟨ip, s1, s1, s3, s4, s5, e1, QS.refl _, h1, h2, h3, h4⟩

/-- everything but the arena and the trace is unchanged -/
def DomOnly (s s' : State) : Prop := s' = { s with dom := s'.dom, traceRev := s'.traceRev }

theorem createElement_core {s s3 : State} {r : Id} {up : List Id} {ph : Phase} {name : QualName} {attrs : List Attr}
    {dup : Bool} {el : Id} (h : Core s r up ph) (e : createElementWithFlags name attrs dup s = .ok (el, s3)) :
    Core s3 r up ph ∧ DomOnly s s3 ∧ Chg s.dom s3.dom ∧ s.dom.size ≤ el ∧ s3.dom.isElement el = true ∧
      nm s3.dom el = ⟨name.ns, name.loc⟩ ∧ (∀ q, el ∉ s3.dom.childrenOf q) := by
  obtain ⟨hl3, _, _, _, hdo⟩ := createElementWithFlags_spec h.late e
  obtain ⟨f1, hb1, hc1, hk1, hfresh, hvalid, tc, ip, hdata⟩ := createElementWithFlags_any h.late.base e
  have hrs : RS r s.dom s3.dom := by
    unfold createElementWithFlags at e
    obtain ⟨hd1, _⟩ := sink_dom (sinkNode_ok.mp e)
    obtain ⟨hdom1, _⟩ := apply_createElement hd1
    rw [hdom1]
    exact rs_createElement r h.late.base _ _ _
  have hr := hdo
  refine ⟨h.transfer hl3 hc1 hrs (by rw [hk1]; exact h.rdoc) ?_ ?_ ?_ ?_ ?_, hdo, hc1, hfresh, ?_, ?_, ?_⟩
  · rw [hr]
  · rw [hr]
  · rw [hr]
  · rw [hr]
  · rw [hr]
  · unfold Dom.isElement; rw [hdata]
  · unfold nm; rw [hdata]
  · intro q hq
    rw [hk1] at hq
    exact Nat.lt_irrefl _ (Nat.lt_of_lt_of_le (h.late.base.kidsValid q el hq) hfresh)

/-- `insert_at` at a place that is not below the root -/
theorem insertAt_rs {s s' : State} {r : Id} {ip : InsertionPoint} {child : NodeOrText} {u : Unit}
    (hb : DomBase s.dom) (hu : RTU r s.dom) (hip : IpR r s.dom ip)
    (hch : match child with | .node c => c ∉ s.dom.childrenOf r ∧ (∀ p, ip.nodes.1 = p ∨ ip.nodes.2 = some p → p ≠ c) | .text _ => True)
    (e : H5V.Model.HtmlTB.insertAt ip child s = .ok (u, s')) : RS r s.dom s'.dom := by
  cases ip with
  | beforeSibling _ => exact absurd hip id
  | lastChild p =>
    unfold H5V.Model.HtmlTB.insertAt at e
    obtain ⟨out, hd, _⟩ := sinkUnit_dom e
    have ha := apply_append hd
    cases child with
    | node c => exact rs_append_node hb hip (hch.2 p (Or.inl rfl)) hch.1 ha
    | text t => exact rs_append_text hb hu hip ha
  | tableFosterParenting el p =>
    unfold H5V.Model.HtmlTB.insertAt at e
    obtain ⟨out, hd, _⟩ := sinkUnit_dom e
    have ha := apply_abopn hd
    cases child with
    | node c => exact rs_abopn (ch := .node c) hb hu hip.1 hip.2 hch.1 (fun c' hc' => by cases hc'; exact hch.2 p (Or.inr rfl)) ha
    | text t => exact rs_abopn (ch := .text t) hb hu hip.1 hip.2 trivial (fun c' hc' => by cases hc') ha

end H5V.Props.C06
