import H5V.Lemmas.HtmlTBSkelShapeDef
/-!
C06, second invariant layer, part 4: arena-level frame facts relative to a fixed node `r` (the `html`
root): which sink calls leave the child list of `r` and the data of its text children alone.
`RTU r d`: a text child of `r` is in no other child list (so text merging elsewhere cannot touch it).
-/
namespace H5V.Props.C06
open H5V.Model.Dom hiding Str
open H5V.Model.HtmlTB hiding Str
open H5V.Lemmas.Dom

/-- a child of `r` has `r` as its parent pointer and is in no other child list -/
def RTU (r : Id) (d : Dom) : Prop :=
  ∀ c ∈ d.childrenOf r, d.parentOf c = some r ∧ ∀ q, c ∈ d.childrenOf q → q = r

/-- the call left `r` alone: same children, same text -/
structure RS (r : Id) (d d' : Dom) : Prop where
  kids : d'.childrenOf r = d.childrenOf r
  text : ∀ c ∈ d.childrenOf r, d.isText c = true → d'.dataOf c = d.dataOf c
  uniq : RTU r d → RTU r d'

theorem RS.refl (r : Id) (d : Dom) : RS r d d := ⟨rfl, fun _ _ _ => rfl, id⟩

theorem isText_of_data {d d' : Dom} {c : Id} (h : d'.dataOf c = d.dataOf c) : d'.isText c = d.isText c := by
  unfold Dom.isText; rw [h]

theorem RS.trans {r : Id} {a b c : Dom} (h1 : RS r a b) (h2 : RS r b c) : RS r a c := by
  refine ⟨h2.kids.trans h1.kids, ?_, fun h => h2.uniq (h1.uniq h)⟩
  intro x hx ht
  have hx' : x ∈ b.childrenOf r := by rw [h1.kids]; exact hx
  have hd := h1.text x hx ht
  rw [h2.text x hx' (by rw [isText_of_data hd]; exact ht), hd]

theorem RS.of_nodes {r : Id} {d d' : Dom} (h : d'.nodes = d.nodes) : RS r d d' := by
  have hk : ∀ x, d'.childrenOf x = d.childrenOf x := fun x => childrenOf_of_nodes h x
  have hd : ∀ x, d'.dataOf x = d.dataOf x := fun x => by unfold Dom.dataOf; rw [h]
  have hp : ∀ x, d'.parentOf x = d.parentOf x := fun x => by unfold Dom.parentOf; rw [h]
  refine ⟨hk r, fun c _ _ => hd c, ?_⟩
  intro hu c hc
  rw [hk] at hc
  refine ⟨by rw [hp]; exact (hu c hc).1, fun q hq => ?_⟩
  rw [hk] at hq
  exact (hu c hc).2 q hq

theorem Chg.isText_eq {d d' : Dom} (h : Chg d d') {x : Id} (hx : x < d.size) : d'.isText x = d.isText x := by
  have hs := (h.data x hx).skel
  unfold Dom.isText
  cases h1 : d.dataOf x <;> cases h2 : d'.dataOf x <;> simp [h1, h2] at hs ⊢
  rename_i v v'
  cases v <;> cases v' <;> simp [skelT] at hs <;> rfl

/-- generic: `r` keeps its list, its text children keep their data, its children keep their parent
pointer, and every new membership `c ∈ children q` is an old one, or `c` was not a child of `r`, or
`c` is a fresh node -/
theorem RS.of_effects {r : Id} {d d' : Dom} (hb : DomBase d)
    (hk : d'.childrenOf r = d.childrenOf r)
    (hd : ∀ c ∈ d.childrenOf r, d.isText c = true → d'.dataOf c = d.dataOf c)
    (hpar : ∀ c ∈ d.childrenOf r, d'.parentOf c = d.parentOf c)
    (hmem : ∀ q c, c ∈ d'.childrenOf q → c ∈ d.childrenOf q ∨ c ∉ d.childrenOf r ∨ d.size ≤ c) : RS r d d' := by
  refine ⟨hk, hd, ?_⟩
  intro hu c hcm
  rw [hk] at hcm
  refine ⟨by rw [hpar c hcm]; exact (hu c hcm).1, fun q hq => ?_⟩
  rcases hmem q c hq with h | h | h
  · exact (hu c hcm).2 q h
  · exact absurd hcm h
  · exact absurd (hb.kidsValid r c hcm) (Nat.not_lt.mpr h)

theorem rs_alloc (r : Id) {d : Dom} (hb : DomBase d) (v : NodeData) : RS r d (d.alloc v).1 := by
  refine RS.of_effects hb (childrenOf_alloc d v r) ?_ ?_ ?_
  · intro c hc _
    rw [dataOf_alloc]; simp [Nat.ne_of_lt (hb.kidsValid r c hc)]
  · intro c hc
    rw [parentOf_alloc]
  · intro q c hc; rw [childrenOf_alloc] at hc; exact Or.inl hc

theorem rs_createElement (r : Id) {d : Dom} (hb : DomBase d) (name : QualName) (attrs : List Attr) (flags : ElementFlags) :
    RS r d (d.createElement name attrs flags).1 := by
  unfold Dom.createElement
  by_cases hf : flags.template = true
  · simp only [hf, if_true]
    have hb1 : DomBase (d.alloc .document).1 := hb.alloc _ ⟨(by intro t h; cases h), (by intro n a tc ip h; cases h)⟩
    exact (rs_alloc r hb _).trans (rs_alloc r hb1 _)
  · simp only [hf]
    exact rs_alloc r hb _

theorem rs_append_node {r : Id} {d d' : Dom} (hb : DomBase d) {p c : Id} (hp : p ≠ r) (hpc : p ≠ c)
    (hcr : c ∉ d.childrenOf r) (h : d.append p (.node c) = .ok d') : RS r d d' := by
  rw [append_node_eq] at h
  obtain ⟨_, _, _, _, _, hpar, hk, hd, hs, _⟩ := appendRaw_ok h hpc
  refine RS.of_effects hb ?_ (fun c _ _ => hd c) ?_ ?_
  · rw [hk]; simp [Ne.symm hp]
  · intro c' hc'
    rw [hpar]
    have : c' ≠ c := by rintro rfl; exact hcr hc'
    simp [this]
  · intro q c' hc'
    rw [hk] at hc'
    by_cases hq : q = p
    · simp only [hq, if_true, List.mem_append, List.mem_singleton] at hc'
      rcases hc' with h1 | rfl
      · exact Or.inl (hq ▸ h1)
      · exact Or.inr (Or.inl hcr)
    · simp only [hq, if_false] at hc'; exact Or.inl hc'

theorem rs_append_text {r : Id} {d d' : Dom} (hb : DomBase d) (hu : RTU r d) {p : Id} {t : Str} (hp : p ≠ r)
    (h : d.append p (.text t) = .ok d') : RS r d d' := by
  obtain ⟨hplt, h1 | h2⟩ := append_text_ok h
  · obtain ⟨hl, old, hlast, hold, hsh, hd, hs⟩ := h1
    refine RS.of_effects hb (hsh.children r) ?_ (fun c _ => hsh.parent c)
      (fun q c hc => Or.inl (by rw [← hsh.children]; exact hc))
    intro c hc ht
    rw [hd]
    have : c ≠ hl := by
      rintro rfl
      exact hp ((hu c hc).2 p (mem_of_getLast?' hlast))
    simp [this]
  · obtain ⟨_, hraw⟩ := h2
    have hne : p ≠ d.size := Nat.ne_of_lt hplt
    obtain ⟨_, _, _, _, _, hpar, hk, hd, hs, _⟩ := appendRaw_ok hraw hne
    have hk' : ∀ x, d'.childrenOf x = if x = p then d.childrenOf p ++ [d.size] else d.childrenOf x := by
      intro x; rw [hk]; simp only [childrenOf_alloc]
    have hd' : ∀ x, d'.dataOf x = if x = d.size then some (.text t) else d.dataOf x := by
      intro x; rw [hd, dataOf_alloc]
    refine RS.of_effects hb ?_ ?_ ?_ ?_
    · rw [hk']; simp [Ne.symm hp]
    · intro c hc _; rw [hd']; simp [Nat.ne_of_lt (hb.kidsValid r c hc)]
    · intro c hc
      rw [hpar, parentOf_alloc]
      simp [Nat.ne_of_lt (hb.kidsValid r c hc)]
    · intro q c hc
      rw [hk'] at hc
      by_cases hq : q = p
      · simp only [hq, if_true, List.mem_append, List.mem_singleton] at hc
        rcases hc with h1 | rfl
        · exact Or.inl (hq ▸ h1)
        · exact Or.inr (Or.inr (Nat.le_refl _))
      · simp only [hq, if_false] at hc; exact Or.inl hc

theorem rs_removeFromParent {r : Id} {d d' : Dom} (hb : DomBase d) {t : Id} (ht : t ∉ d.childrenOf r)
    (h : d.removeFromParent t = .ok d') : RS r d d' := by
  rcases removeFromParent_ok h with ⟨_, he⟩ | ⟨p, i, _, hi, hpar, hk, hd, hs, _⟩
  · subst he; exact RS.refl r _
  · have hpr : p ≠ r := by rintro rfl; exact ht (mem_of_indexOf? hi)
    refine RS.of_effects hb ?_ (fun c _ _ => hd c) ?_ ?_
    · rw [hk]; simp [Ne.symm hpr]
    · intro c hc
      rw [hpar]
      have : c ≠ t := by rintro rfl; exact ht hc
      simp [this]
    · intro q c hc
      rw [hk] at hc
      by_cases hq : q = p
      · simp only [hq, if_true] at hc; exact Or.inl (hq ▸ mem_removeAt hc)
      · simp only [hq, if_false] at hc; exact Or.inl hc

theorem rs_insertAtIndex {r : Id} {d d' : Dom} (hb : DomBase d) {P c : Id} {i : Nat} (hP : P ≠ r)
    (hcr : c ∉ d.childrenOf r) (h : d.insertAtIndex P i c = .ok d') : RS r d d' := by
  obtain ⟨d1, hr, _, _, _, hpar, hk, hd, hs, _⟩ := insertAtIndex_ok h
  obtain ⟨hb1, _, _, _, _, _⟩ := removeFromParent_spec hb hr
  have r1 := rs_removeFromParent hb hcr hr
  have hcr1 : c ∉ d1.childrenOf r := by rw [r1.kids]; exact hcr
  refine r1.trans (RS.of_effects hb1 ?_ (fun c _ _ => hd c) ?_ ?_)
  · rw [hk]; simp [Ne.symm hP]
  · intro c' hc'
    rw [hpar]
    have : c' ≠ c := by rintro rfl; exact hcr1 hc'
    simp [this]
  · intro q c' hc'
    rw [hk] at hc'
    by_cases hq : q = P
    · simp only [hq, if_true] at hc'
      rcases mem_insertAt_iff.mp hc' with rfl | h1
      · exact Or.inr (Or.inl hcr1)
      · exact Or.inl (hq ▸ h1)
    · simp only [hq, if_false] at hc'; exact Or.inl hc'

/-- what may be inserted next to / below a node other than the root -/
def ChildOkR (r : Id) (d : Dom) : NodeOrText → Prop
  | .node c => c ∉ d.childrenOf r
  | .text _ => True

theorem rs_appendBeforeSibling {r : Id} {e d' : Dom} (he : DomBase e) (hu : RTU r e) {sib : Id} {ch : NodeOrText}
    (hs0 : sib ∉ e.childrenOf r) (hch : ChildOkR r e ch) (h : e.appendBeforeSibling sib ch = .ok d') : RS r e d' := by
  obtain ⟨P, i, _, hi, hPlt, hm⟩ := appendBeforeSibling_ok h
  have hsibP : sib ∈ e.childrenOf P := mem_of_indexOf? hi
  have hP : P ≠ r := by rintro rfl; exact hs0 hsibP
  cases ch with
  | node c => exact rs_insertAtIndex he hP hch hm
  | text t =>
    rcases hm with ⟨prev, old, hi0, hprev, hold, hsh, hd, hs⟩ | ⟨_, hins⟩
    · refine RS.of_effects he (hsh.children r) ?_ (fun c _ => hsh.parent c)
        (fun q c hc => Or.inl (by rw [← hsh.children]; exact hc))
      intro c hc ht
      rw [hd]
      have : c ≠ prev := by
        rintro rfl
        exact hP ((hu c hc).2 P (List.mem_of_getElem? hprev))
      simp [this]
    · obtain ⟨_, hpar, hk, hd, hs, _⟩ := insertAtIndex_fresh_ok hins
      refine RS.of_effects he ?_ ?_ ?_ ?_
      · rw [hk]; simp [Ne.symm hP]
      · intro c hc _; rw [hd]; simp [Nat.ne_of_lt (he.kidsValid r c hc)]
      · intro c hc; rw [hpar]; simp [Nat.ne_of_lt (he.kidsValid r c hc)]
      · intro q c hc
        rw [hk] at hc
        by_cases hq : q = P
        · simp only [hq, if_true] at hc
          rcases mem_insertAt_iff.mp hc with rfl | h1
          · exact Or.inr (Or.inr (Nat.le_refl _))
          · exact Or.inl (hq ▸ h1)
        · simp only [hq, if_false] at hc; exact Or.inl hc

theorem rs_appendBeforeSiblingV {b : Dom.BeforeSiblingVariant} {r : Id} {d d' : Dom} (hb : DomBase d) (hu : RTU r d)
    {sib : Id} {ch : NodeOrText} (hs0 : sib ∉ d.childrenOf r) (hch : ChildOkR r d ch)
    (h : d.appendBeforeSiblingV b sib ch = .ok d') : RS r d d' := by
  rcases appendBeforeSiblingV_ok h with h1 | ⟨c, d1, he, hr, h2⟩
  · exact rs_appendBeforeSibling hb hu hs0 hch h1
  · subst he
    obtain ⟨hb1, _, _, _, _, _⟩ := removeFromParent_spec hb hr
    have r1 := rs_removeFromParent hb hch hr
    exact r1.trans (rs_appendBeforeSibling hb1 (r1.uniq hu) (by rw [r1.kids]; exact hs0)
      (by show c ∉ d1.childrenOf r; rw [r1.kids]; exact hch) h2)

theorem rs_abopn {b : Dom.BeforeSiblingVariant} {r : Id} {d d' : Dom} (hb : DomBase d) (hu : RTU r d)
    {e p : Id} {ch : NodeOrText} (he0 : e ∉ d.childrenOf r) (hp : p ≠ r) (hch : ChildOkR r d ch)
    (hpc : ∀ c, ch = .node c → p ≠ c) (h : d.appendBasedOnParentNodeV b e p ch = .ok d') : RS r d d' := by
  unfold Dom.appendBasedOnParentNodeV at h
  simp only [bind, Except.bind] at h
  cases hg : d.get e with
  | error er => simp [hg] at h
  | ok en =>
    simp only [hg] at h
    by_cases hpar : en.parent.isSome = true
    · simp only [hpar, if_true] at h
      exact rs_appendBeforeSiblingV hb hu he0 hch h
    · simp only [hpar] at h
      cases ch with
      | node c => exact rs_append_node hb hp (hpc c rfl) hch h
      | text t => exact rs_append_text hb hu hp h

theorem rs_reparent {r : Id} {d d' : Dom} (hb : DomBase d) {n np : Id} (hn : n ≠ r) (hnp : np ≠ r)
    (h : d.reparentChildren n np = .ok d') : RS r d d' := by
  obtain ⟨_, _, _, hpar, hk, hd, hs, _⟩ := reparentChildren_ok h
  have hkr : d'.childrenOf r = d.childrenOf r := by rw [hk]; simp [Ne.symm hn, Ne.symm hnp]
  refine ⟨hkr, fun c _ _ => hd c, ?_⟩
  intro hu c hc
  rw [hkr] at hc
  have hcn : c ∉ d.childrenOf n := fun hm => hn ((hu c hc).2 n hm)
  refine ⟨by rw [hpar]; simp [hcn]; exact (hu c hc).1, fun q hq => ?_⟩
  rw [hk] at hq
  by_cases hqn : q = n
  · simp [hqn] at hq
  · by_cases hqp : q = np
    · subst hqp
      simp only [hqn, if_true, if_false, List.mem_append] at hq
      rcases hq with hq | hq
      · exact (hu c hc).2 q hq
      · exact absurd hq hcn
    · simp only [hqn, hqp, if_false] at hq
      exact (hu c hc).2 q hq

theorem rs_addAttrs {r : Id} {d d' : Dom} (hb : DomBase d) {t : Id} {attrs : List Attr}
    (h : d.addAttrsIfMissing t attrs = .ok d') : RS r d d' := by
  obtain ⟨name, ex, tc, ip, hdt, hsh, hd, hs⟩ := addAttrsIfMissing_ok h
  refine RS.of_effects hb (hsh.children r) ?_ (fun c _ => hsh.parent c)
    (fun q c hc => Or.inl (by rw [← hsh.children]; exact hc))
  intro c hc ht
  rw [hd]
  have : c ≠ t := by
    rintro rfl
    unfold Dom.isText at ht; rw [hdt] at ht; cases ht
  simp [this]

/-! ### calls that do change the child list of `r` -/

/-- appending a node that is in no child list yet below `r` -/
theorem root_append_node {r : Id} {d d' : Dom} {c : Id} (hrc : r ≠ c) (hfresh : ∀ q, c ∉ d.childrenOf q)
    (h : d.append r (.node c) = .ok d') :
    d'.childrenOf r = d.childrenOf r ++ [c] ∧ (∀ x, d'.dataOf x = d.dataOf x) ∧ d'.size = d.size ∧
      (∀ q, q ≠ r → d'.childrenOf q = d.childrenOf q) ∧ (RTU r d → RTU r d') := by
  rw [append_node_eq] at h
  obtain ⟨_, _, _, _, _, hpar, hk, hd, hs, _⟩ := appendRaw_ok h hrc
  refine ⟨by rw [hk]; simp, hd, hs, fun q hq => by rw [hk]; simp [hq], ?_⟩
  intro hu x hx
  rw [hk] at hx
  simp only [if_true, List.mem_append, List.mem_singleton] at hx
  rcases hx with hx | rfl
  · refine ⟨by rw [hpar]; have : x ≠ c := (by rintro rfl; exact hfresh r hx); simp [this]; exact (hu x hx).1, ?_⟩
    intro q hq
    rw [hk] at hq
    by_cases hqr : q = r
    · exact hqr
    · simp only [hqr, if_false] at hq; exact (hu x hx).2 q hq
  · refine ⟨by rw [hpar]; simp, ?_⟩
    intro q hq
    rw [hk] at hq
    by_cases hqr : q = r
    · exact hqr
    · simp only [hqr, if_false] at hq; exact absurd hq (hfresh q)

/-- appending text below `r`: merged into a text last child, or a fresh last child -/
theorem root_append_text {r : Id} {d d' : Dom} (hb : DomBase d) {t : Str} (h : d.append r (.text t) = .ok d') :
    (∀ q, q ≠ r → d'.childrenOf q = d.childrenOf q) ∧ (RTU r d → RTU r d') ∧
    ((∃ hl old, d'.childrenOf r = d.childrenOf r ∧ hl ∈ d.childrenOf r ∧ d.dataOf hl = some (.text old) ∧
        (∀ x, d'.dataOf x = if x = hl then some (.text (old ++ t)) else d.dataOf x) ∧ d'.size = d.size) ∨
     (d'.childrenOf r = d.childrenOf r ++ [d.size] ∧
        (∀ x, d'.dataOf x = if x = d.size then some (.text t) else d.dataOf x) ∧ d'.size = d.size + 1)) := by
  obtain ⟨hplt, h1 | h2⟩ := append_text_ok h
  · obtain ⟨hl, old, hlast, hold, hsh, hd, hs⟩ := h1
    refine ⟨fun q _ => hsh.children q, ?_, Or.inl ⟨hl, old, hsh.children r, mem_of_getLast?' hlast, hold, hd, hs⟩⟩
    intro hu x hx
    rw [hsh.children] at hx
    refine ⟨by rw [hsh.parent]; exact (hu x hx).1, fun q hq => ?_⟩
    rw [hsh.children] at hq
    exact (hu x hx).2 q hq
  · obtain ⟨_, hraw⟩ := h2
    have hne : r ≠ d.size := Nat.ne_of_lt hplt
    obtain ⟨_, _, _, _, _, hpar, hk, hd, hs, _⟩ := appendRaw_ok hraw hne
    have hk' : ∀ x, d'.childrenOf x = if x = r then d.childrenOf r ++ [d.size] else d.childrenOf x := by
      intro x; rw [hk]; simp only [childrenOf_alloc]
    have hd' : ∀ x, d'.dataOf x = if x = d.size then some (.text t) else d.dataOf x := by
      intro x; rw [hd, dataOf_alloc]
    refine ⟨fun q hq => by rw [hk']; simp [hq], ?_, Or.inr ⟨by rw [hk']; simp, hd', by rw [hs, size_alloc]⟩⟩
    intro hu x hx
    rw [hk'] at hx
    simp only [if_true, List.mem_append, List.mem_singleton] at hx
    have hnot : ∀ q, d.size ∉ d.childrenOf q := fun q hm => Nat.lt_irrefl _ (hb.kidsValid q _ hm)
    rcases hx with hx | rfl
    · have hxlt := hb.kidsValid r x hx
      refine ⟨by rw [hpar, parentOf_alloc]; simp [Nat.ne_of_lt hxlt]; exact (hu x hx).1, fun q hq => ?_⟩
      rw [hk'] at hq
      by_cases hqr : q = r
      · exact hqr
      · simp only [hqr, if_false] at hq; exact (hu x hx).2 q hq
    · refine ⟨by rw [hpar]; simp, fun q hq => ?_⟩
      rw [hk'] at hq
      by_cases hqr : q = r
      · exact hqr
      · simp only [hqr, if_false] at hq; exact absurd hq (hnot q)

theorem removeAt_indexOf_eq_erase : ∀ {l : List Id} {b : Id} {i : Nat}, indexOf? b l = some i → removeAt l i = l.erase b
  | [], b, i, h => by simp [indexOf?] at h
  | x :: xs, b, i, h => by
    unfold indexOf? at h
    by_cases hx : x = b
    · simp only [hx, if_true, Option.some.injEq] at h
      subst h; subst hx
      simp [removeAt]
    · simp only [hx, if_false] at h
      cases hi : indexOf? b xs with
      | none => simp [hi] at h
      | some j =>
        simp only [hi, Option.map_some, Option.some.injEq] at h
        subst h
        have ih := removeAt_indexOf_eq_erase hi
        unfold removeAt at ih ⊢
        simp only [List.take_succ_cons, List.drop_succ_cons, List.cons_append]
        rw [List.erase_cons_tail (by simpa using hx), ih]

/-- `remove_from_parent(b)` for a child `b` of `r` -/
theorem root_remove {r : Id} {d d' : Dom} (hu : RTU r d) (hnd : (d.childrenOf r).Nodup) {b : Id}
    (hb : b ∈ d.childrenOf r) (h : d.removeFromParent b = .ok d') :
    d'.childrenOf r = (d.childrenOf r).erase b ∧ (∀ x, d'.dataOf x = d.dataOf x) ∧ d'.size = d.size ∧
      (∀ q, q ≠ r → d'.childrenOf q = d.childrenOf q) ∧ RTU r d' := by
  rcases removeFromParent_ok h with ⟨hp, _⟩ | ⟨p, i, hp, hi, hpar, hk, hd, hs, _⟩
  · rw [(hu b hb).1] at hp; cases hp
  · have hpr : p = r := by rw [(hu b hb).1] at hp; cases hp; rfl
    subst hpr
    have hker : d'.childrenOf p = (d.childrenOf p).erase b := by rw [hk]; simp [removeAt_indexOf_eq_erase hi]
    refine ⟨hker, hd, hs, fun q hq => by rw [hk]; simp [hq], ?_⟩
    intro x hx
    rw [hker] at hx
    have hx0 : x ∈ d.childrenOf p := List.mem_of_mem_erase hx
    have hxb : x ≠ b := by rintro rfl; exact (List.Nodup.not_mem_erase hnd) hx
    refine ⟨by rw [hpar]; simp [hxb]; exact (hu x hx0).1, fun q hq => ?_⟩
    rw [hk] at hq
    by_cases hqr : q = p
    · exact hqr
    · simp only [hqr, if_false] at hq; exact (hu x hx0).2 q hq

end H5V.Props.C06
