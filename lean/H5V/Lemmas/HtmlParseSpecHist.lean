import H5V.Lemmas.HtmlParseSpecFinish
import H5V.Lemmas.HtmlParseSpecAgree2
/-!
Capstone, part: **the history of a successful joint parse** (`parse_hist`): `parseChunks … [s] = .ok jf` unfolded
into `Parser::process` (a `JRunsD`) and `Parser::finish` (`FinishData`), packaged as `ParseHist`: the log `Hf` of
everything the tokenizer delivered, the joint state `j3` after it, and the fact that the tokenizer model ALONE,
run under any pause-free history policy that agrees with the tree builder on the histories followed by at least
one more token, ends with exactly `Hf` in its `out` register.
-/
namespace H5V.Lemmas.ParseSpec
open H5V.Model.HtmlTok (Mach Pol Out Str feedBom NoPause)
open H5V.Model.HtmlTB (finishTB)
open H5V.Model.HtmlTB.Joint (JState absorb polOf)
open H5V.Lemmas.JointChunk
open H5V.Props.C03 (parseChunks Start)

/-- `parseChunks … [s]` = `Parser::process(s)` (a `JRunsD`, or nothing for the empty text), then `Parser::finish` -/
theorem parse_unfold {o : TOpts} {N : Nat} {m0 : Mach} {j0 : JState} {s : Str} {jf : JState} (hs : Start m0)
    (h : parseChunks o N m0 j0 [s] = .ok jf) :
    ∃ m1 j1 D1, ((s = [] ∧ m1 = m0 ∧ j1 = j0 ∧ D1 = []) ∨
        (s ≠ [] ∧ JRunsD o (feedBom m0 s).1 (feedBom m0 s).2 j0 m1 j1 D1)) ∧
      H5V.Model.HtmlTB.Joint.finish o m1 j1 = .ok jf := by
  unfold parseChunks at h
  simp only [H5V.Props.C03.feedChunks] at h
  cases hp : jprocessChunk o N m0 [] s j0 with
  | error e => rw [hp] at h; cases h
  | ok v =>
    obtain ⟨m1, i1, j1⟩ := v
    rw [hp] at h
    simp only at h
    cases N with
    | zero => rw [processChunk_zero] at hp; cases hp
    | succ N' =>
      rw [processChunk_succ, List.nil_append] at hp
      rw [processChunk_succ] at h
      by_cases hc : s = []
      · subst hc
        simp only [List.isEmpty_nil, if_true, Except.ok.injEq, Prod.mk.injEq] at hp
        obtain ⟨rfl, rfl, rfl⟩ := hp
        simp only [List.append_nil, List.isEmpty_nil, if_true, Bool.not_true, Bool.false_eq_true, if_false] at h
        exact ⟨_, _, [], Or.inl ⟨rfl, rfl, rfl, rfl⟩, h⟩
      · simp only [H5V.Props.C03.isEmpty_false hc, Bool.false_eq_true, if_false] at hp
        obtain ⟨hnil, hr⟩ := afterRun_sound o N' _ _ _ j0 m1 i1 j1 (H5V.Props.C03.jinv_feedBom hs hc) hp
        subst hnil
        simp only [List.append_nil, List.isEmpty_nil, if_true, Bool.not_true, Bool.false_eq_true, if_false] at h
        obtain ⟨D1, hD1⟩ := jrunsD_of_jrunsTo hr
        exact ⟨_, _, D1, Or.inr ⟨hc, hD1⟩, h⟩

/-- `Parser::process` of the whole text against `HtmlTok.feed` under any agreeing policy (empty text included) -/
theorem parse_feed {o : TOpts} {j0 : JState} {m0 : Mach} (hm0 : m0.out = []) {s : Str} {m1 : Mach} {j1 : JState}
    {D1 : Out}
    (h : (s = [] ∧ m1 = m0 ∧ j1 = j0 ∧ D1 = []) ∨ (s ≠ [] ∧ JRunsD o (feedBom m0 s).1 (feedBom m0 s).2 j0 m1 j1 D1)) :
    absorb D1.reverse j0 = .ok j1 ∧ m1.out = [] ∧
      ∀ pol', NoPause pol' → ∀ P, Agrees pol' j0 P → P D1 → ∀ M1 i1,
        H5V.Model.HtmlTok.feed o pol' m0 [] s = .done M1 i1 → M1 = sh D1 m1 ∧ i1 = [] := by
  rcases h with ⟨rfl, rfl, rfl, rfl⟩ | ⟨hne, hr⟩
  · refine ⟨rfl, hm0, fun pol' _ P _ _ M1 i1 hf => ?_⟩
    simp only [H5V.Model.HtmlTok.feed, List.append_nil, List.isEmpty_nil, if_true] at hf
    cases hf
    exact ⟨(sh_nil_of hm0).symm, rfl⟩
  · exact feed_star hm0 hne hr

/-- the history `Hf` of a finished joint parse of `s` (from the fresh tokenizer `m0`, joint state `j0`) -/
structure ParseHist (o : TOpts) (m0 : Mach) (j0 : JState) (s : Str) (jf : JState) (Hf : Out) (j3 : JState) : Prop where
  hist : absorb Hf.reverse j0 = .ok j3
  fin : finishTB.run j3.tb = .ok ((), jf.tb)
  res : jf.results = j3.results
  eofHead : ∃ l rest, Hf = (H5V.Model.HtmlTok.Token.eof, l) :: rest
  /-- the tokenizer model alone, under an agreeing pause-free policy, delivers `Hf` -/
  star : ∀ pol', NoPause pol' → ∀ P, Agrees pol' j0 P → (∀ X, Before Hf X → P X) → ∀ M1 i1 mf',
    H5V.Model.HtmlTok.feed o pol' m0 [] s = .done M1 i1 → H5V.Model.HtmlTok.finish o pol' M1 = .ok mf' → mf'.out = Hf

theorem before_of_eof {l : Nat} {rest X : Out} : Before ((H5V.Model.HtmlTok.Token.eof, l) :: rest ++ X) X := by
  refine ⟨(H5V.Model.HtmlTok.Token.eof, l) :: rest, rfl, ?_⟩
  rw [List.reverse_cons, convAll_append]
  simp [convAll, H5V.Model.HtmlTB.Joint.conv]

theorem before_suffix {Hf Y X : Out} (h : Before Hf (Y ++ X)) : Before Hf X := by
  obtain ⟨Z, hZ, hne⟩ := h
  refine ⟨Z ++ Y, by rw [hZ, List.append_assoc], ?_⟩
  rw [List.reverse_append, convAll_append]
  intro h0
  exact hne (List.append_eq_nil_iff.mp h0).2

/-- the parts of a successful joint parse, with its history -/
theorem parse_hist' {o : TOpts} {N : Nat} {m0 : Mach} {j0 : JState} {s : Str} {jf : JState} (hs : Start m0)
    (h : parseChunks o N m0 j0 [s] = .ok jf) :
    ∃ m1 j1 D1 Dp mx inp jx D2 m2 j2 m3 j3,
      ((s = [] ∧ m1 = m0 ∧ j1 = j0 ∧ D1 = []) ∨ (s ≠ [] ∧ JRunsD o (feedBom m0 s).1 (feedBom m0 s).2 j0 m1 j1 D1)) ∧
      FinishData o m1 j1 jf Dp mx inp jx D2 m2 j2 m3 j3 ∧
      ParseHist o m0 j0 s jf (m3.out ++ (D2 ++ (Dp ++ D1))) j3 := by
  have hm0 : m0.out = [] := hs.out
  obtain ⟨m1, j1, D1, hfeedJ, hfinJ⟩ := parse_unfold hs h
  obtain ⟨hH1, hm1, hfeed⟩ := parse_feed (o := o) hm0 hfeedJ
  obtain ⟨Dp, mx, inp, jx, D2, m2, j2, m3, j3, d⟩ := finish_data hfinJ
  obtain ⟨_, _, _, _, hHf, ⟨l, rest, he⟩⟩ := d.hist hm1 D1 hH1
  refine ⟨m1, j1, D1, Dp, mx, inp, jx, D2, m2, j2, m3, j3, hfeedJ, d,
    hHf, d.fin, d.res, ⟨l, rest ++ (D2 ++ (Dp ++ D1)), by rw [he]; rfl⟩, ?_⟩
  intro pol' hnp P hP hPB M1 i1 mf' hf1 hf2
  have hBr : Before (m3.out ++ (D2 ++ (Dp ++ D1))) (D2 ++ (Dp ++ D1)) := by rw [he]; exact before_of_eof
  have hB1 : Before (m3.out ++ (D2 ++ (Dp ++ D1))) D1 := by
    have := before_suffix (Y := D2 ++ Dp) (by rw [List.append_assoc]; exact hBr)
    exact this
  obtain ⟨rfl, _⟩ := hfeed pol' hnp P hP (hPB _ hB1) M1 i1 hf1
  exact d.star hm1 D1 hH1 pol' hnp P hP (hPB _ hBr) mf' hf2

theorem parse_hist {o : TOpts} {N : Nat} {m0 : Mach} {j0 : JState} {s : Str} {jf : JState} (hs : Start m0)
    (h : parseChunks o N m0 j0 [s] = .ok jf) : ∃ Hf j3, ParseHist o m0 j0 s jf Hf j3 := by
  obtain ⟨m1, j1, D1, Dp, mx, inp, jx, D2, m2, j2, m3, j3, _, _, ph⟩ := parse_hist' hs h
  exact ⟨_, _, ph⟩

end H5V.Lemmas.ParseSpec
