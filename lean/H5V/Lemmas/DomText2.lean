import H5V.Lemmas.DomText
import H5V.Lemmas.DomTree
/-! "No two adjacent text siblings" on arenas: which operations keep it, and exactly when removal / re-parenting break it. -/
namespace H5V.Lemmas.Dom
open H5V.Model.Dom

/-- no node has two adjacent text children -/
def NoAdjacentText (d : Dom) : Prop := ∀ p, noAdj d.isText (d.childrenOf p) = true

theorem isText_congr {d d' : Dom} {x : Id} (h : d'.dataOf x = d.dataOf x) : d'.isText x = d.isText x := by
  unfold Dom.isText; rw [h]

theorem isText_of_insertable {d : Dom} {c : Id} (h : d.isInsertable c = true) : d.isText c = false := by
  unfold Dom.isInsertable at h; unfold Dom.isText
  cases hd : d.dataOf c with
  | none => rfl
  | some v => cases v <;> simp_all

/-- a data change at a text node that keeps it a text node, nothing else changes -/
theorem NoAdjacentText.textChange {d d' : Dom} (hn : NoAdjacentText d) (hs : SameShape d d') {t : Id} {old new : Str}
    (ht : d.dataOf t = some (.text old))
    (hd : ∀ x, d'.dataOf x = if x = t then some (.text new) else d.dataOf x) : NoAdjacentText d' := by
  intro p
  rw [hs.children]
  rw [noAdj_congr (isT := d.isText)]
  · exact hn p
  · intro x _
    by_cases hx : x = t
    · subst hx; simp [Dom.isText, hd, ht]
    · exact isText_congr (by rw [hd]; simp [hx])

/-- a fresh node (id `d.size`) inserted at index `i` of `p`'s child list, everything else unchanged -/
theorem NoAdjacentText.insertFresh {d d' : Dom} (hw : WF d) (hn : NoAdjacentText d) {p : Id} {i : Nat} {data : NodeData}
    (hch : ∀ x, d'.childrenOf x = if x = p then insertAt (d.childrenOf p) i d.size else d.childrenOf x)
    (hd : ∀ x, d'.dataOf x = if x = d.size then some data else d.dataOf x)
    (hok : (lastT d.isText ((d.childrenOf p).take i) && d'.isText d.size) = false ∧
           (d'.isText d.size && headT d.isText ((d.childrenOf p).drop i)) = false) : NoAdjacentText d' := by
  have hold : ∀ q, ∀ x ∈ d.childrenOf q, d'.isText x = d.isText x := by
    intro q x hx
    have := child_valid hw hx
    exact isText_congr (by rw [hd]; simp [Nat.ne_of_lt this])
  intro q
  rw [hch]
  by_cases hq : q = p
  · subst hq
    simp only [if_true]
    unfold insertAt
    have htd := noAdj_take_drop (hn q) i
    have hmt : ∀ x ∈ (d.childrenOf q).take i, d'.isText x = d.isText x :=
      fun x hx => hold q x (List.mem_of_mem_take hx)
    have hmd : ∀ x ∈ (d.childrenOf q).drop i, d'.isText x = d.isText x :=
      fun x hx => hold q x (List.mem_of_mem_drop hx)
    rw [noAdj_append, noAdj_cons, noAdj_congr hmt, noAdj_congr hmd, lastT_congr hmt, htd.1, htd.2]
    have hh : headT d'.isText ((d.childrenOf q).drop i) = headT d.isText ((d.childrenOf q).drop i) := by
      unfold headT
      cases hl : ((d.childrenOf q).drop i).head? with
      | none => rfl
      | some x => exact hmd x (List.mem_of_head? hl)
    rw [hh]
    have hc1 : ∀ r, headT d'.isText (d.size :: r) = d'.isText d.size := fun _ => rfl
    rw [hc1]
    have h1 := hok.1
    have h2 := hok.2
    revert h1 h2
    cases lastT d.isText ((d.childrenOf q).take i) <;> cases d'.isText d.size <;>
      cases headT d.isText ((d.childrenOf q).drop i) <;> simp
  · simp only [hq, if_false]
    rw [noAdj_congr (hold q)]; exact hn q

theorem lastT_eq_false_of {d : Dom} {l : List Id}
    (h : ∀ hl, l.getLast? = some hl → d.isText hl = false) : lastT d.isText l = false := by
  unfold lastT
  cases hl : l.getLast? with
  | none => rfl
  | some x => exact h x hl

theorem insertAt_length (l : List Id) (x : Id) : insertAt l l.length x = l ++ [x] := by
  simp [insertAt]

/-- `append` keeps "no adjacent text siblings" (text is merged into a text last child) -/
theorem NoAdjacentText.append {d d' : Dom} (hw : WF d) (hn : NoAdjacentText d) {p : Id} {ch : NodeOrText}
    (hc : d.contractAppend p ch = true) (h : d.append p ch = .ok d') : NoAdjacentText d' := by
  simp only [Dom.contractAppend, Bool.and_eq_true] at hc
  cases ch with
  | text s =>
    obtain ⟨hp, h1 | h2⟩ := append_text_ok h
    · obtain ⟨hl, old, _, hdl, hs, hd, _⟩ := h1
      exact hn.textChange hs hdl hd
    · obtain ⟨_, hch, hd, _, _⟩ := allocAppend_ok hp h2.2
      refine hn.insertFresh hw (p := p) (i := (d.childrenOf p).length) (data := .text s) ?_ hd ?_
      · intro x; rw [hch, insertAt_length]
      · rw [List.take_length, List.drop_length, lastT_eq_false_of h2.1]
        simp [headT]
  | node c =>
    rw [append_node_eq] at h
    simp only [Dom.childOk, Bool.and_eq_true] at hc
    have hlt := lt_of_isContainer hc.1
    have hne : p ≠ c := by
      intro e; subst e
      have h3 := hc.2.2
      simp only [Bool.not_eq_true'] at h3
      unfold Dom.isAncOrSelf at h3
      cases hs : d.size with
      | zero => rw [hs] at hlt; exact Nat.not_lt_zero _ hlt
      | succ s => rw [hs] at h3; simp [Dom.ancestorsOrSelf] at h3
    obtain ⟨_, _, _, _, _, _, hch, hd, _, _⟩ := appendRaw_ok h hne
    have hct := isText_of_insertable hc.2.1.1
    intro q
    rw [hch, noAdj_congr (isT := d.isText) (fun x _ => isText_congr (hd x))]
    by_cases hq : q = p
    · subst hq
      simp only [if_true]
      rw [noAdj_append, hn q]
      simp [noAdj, headT, hct]
    · simp only [hq, if_false]; exact hn q

/-- `append_before_sibling` with text keeps "no adjacent text siblings": it merges into a text
previous sibling, and the reference sibling is not a text node by contract -/
theorem NoAdjacentText.appendBeforeSibling_text {d d' : Dom} (hw : WF d) (hn : NoAdjacentText d) {s : Id} {t : Str}
    (hc : d.contractAppendBeforeSibling s (.text t) = true) (h : d.appendBeforeSibling s (.text t) = .ok d') :
    NoAdjacentText d' := by
  obtain ⟨P, i, hpar, hi, hPlt, hm⟩ := appendBeforeSibling_ok h
  simp only [Dom.contractAppendBeforeSibling, hpar, Bool.and_eq_true] at hc
  have hsib := isText_of_insertable hc.1
  rcases hm with ⟨prev, old, _, _, hdl, hs, hd, _⟩ | ⟨hprev, h2⟩
  · exact hn.textChange hs hdl hd
  · obtain ⟨_, _, hch, hd, _, _⟩ := insertAtIndex_fresh_ok h2
    refine hn.insertFresh hw hch hd ⟨?_, ?_⟩
    · have : lastT d.isText ((d.childrenOf P).take i) = false := by
        rcases hprev with h0 | ⟨prev, hp1, hp2⟩
        · subst h0; simp [lastT]
        · by_cases h0 : i = 0
          · subst h0; simp [lastT]
          · rw [lastT_take (Nat.pos_of_ne_zero h0) hp1]; exact hp2
      rw [this]; rfl
    · have : headT d.isText ((d.childrenOf P).drop i) = false := by
        unfold headT
        rw [List.head?_drop, indexOf?_getElem hi]
        exact hsib
      rw [this]; simp

/-- **when `remove_from_parent` breaks "no adjacent text siblings"**: exactly when the removed node's
previous and next siblings are both text nodes -/
theorem removeFromParent_noAdjacentText_iff {d d' : Dom} (hn : NoAdjacentText d) {t p : Id} {i : Nat}
    (hpar : d.parentOf t = some p) (hi : indexOf? t (d.childrenOf p) = some i)
    (h : d.removeFromParent t = .ok d') :
    NoAdjacentText d' ↔ ¬ (lastT d.isText ((d.childrenOf p).take i) = true ∧
      headT d.isText ((d.childrenOf p).drop (i + 1)) = true) := by
  rcases removeFromParent_ok h with ⟨h0, _⟩ | ⟨p', i', hpar', hi', _, hch, hd, _, _⟩
  · rw [hpar] at h0; cases h0
  · rw [hpar] at hpar'; cases hpar'
    rw [hi] at hi'; cases hi'
    have htd := noAdj_take_drop (hn p)
    have key : noAdj d.isText (removeAt (d.childrenOf p) i) =
        !(lastT d.isText ((d.childrenOf p).take i) && headT d.isText ((d.childrenOf p).drop (i + 1))) := by
      unfold removeAt
      rw [noAdj_append, (htd i).1, (htd (i + 1)).2]; simp
    constructor
    · intro hn' hboth
      have := hn' p
      rw [hch, noAdj_congr (isT := d.isText) (fun x _ => isText_congr (hd x))] at this
      simp only [if_true] at this
      rw [key, hboth.1, hboth.2] at this
      cases this
    · intro hnot q
      rw [hch, noAdj_congr (isT := d.isText) (fun x _ => isText_congr (hd x))]
      by_cases hq : q = p
      · subst hq
        simp only [if_true]
        rw [key]
        cases h1 : lastT d.isText ((d.childrenOf q).take i) <;>
          cases h2 : headT d.isText ((d.childrenOf q).drop (i + 1)) <;> simp
        exact hnot ⟨h1, h2⟩
      · simp only [hq, if_false]; exact hn q

/-- **when `reparent_children` breaks "no adjacent text siblings"**: exactly when the new parent's
last child and the first moved child are both text nodes -/
theorem reparentChildren_noAdjacentText_iff {d d' : Dom} (hn : NoAdjacentText d) {n np : Id}
    (h : d.reparentChildren n np = .ok d') :
    NoAdjacentText d' ↔ ¬ (lastT d.isText (d.childrenOf np) = true ∧ headT d.isText (d.childrenOf n) = true) := by
  obtain ⟨hne, _, _, _, hch, hd, _, _⟩ := reparentChildren_ok h
  have key : noAdj d.isText (d.childrenOf np ++ d.childrenOf n) =
      !(lastT d.isText (d.childrenOf np) && headT d.isText (d.childrenOf n)) := by
    rw [noAdj_append, hn np, hn n]; simp
  have hnp : np ≠ n := fun e => hne e.symm
  constructor
  · intro hn' hboth
    have := hn' np
    rw [hch, noAdj_congr (isT := d.isText) (fun x _ => isText_congr (hd x))] at this
    simp only [hnp, if_false, if_true] at this
    rw [key, hboth.1, hboth.2] at this
    cases this
  · intro hnot q
    rw [hch, noAdj_congr (isT := d.isText) (fun x _ => isText_congr (hd x))]
    by_cases hq : q = n
    · simp [hq, noAdj]
    · by_cases hq2 : q = np
      · subst hq2
        simp only [hq, if_false, if_true]
        rw [key]
        cases h1 : lastT d.isText (d.childrenOf q) <;> cases h2 : headT d.isText (d.childrenOf n) <;> simp
        exact hnot ⟨h1, h2⟩
      · simp only [hq, hq2, if_false]; exact hn q

end H5V.Lemmas.Dom
