import H5V.Lemmas.HtmlTBReachAA
/-!
C18, tree-builder side, part 5: reset-the-insertion-mode, close-the-cell, foreign content.
-/
namespace H5V.Props.C18
open H5V.Model.Dom (Id QualName Attr NodeOrText SinkOp Output ElementFlags QuirksMode Dom)
open H5V.Model.HtmlTB
open H5V.Lemmas.TBM

set_option maxHeartbeats 1600000 in
theorem pv_resetLoop (l : List Id) : ∀ (c : List Id) (n : Nat), (∀ x ∈ l, x ∈ c) → PV c (resetLoop l n) nil := by
  induction l with
  | nil => intro c n _; unfold resetLoop; pv_walk
  | cons e rest ih =>
    intro c n hl
    have he : e ∈ c := hl e List.mem_cons_self
    have hr : ∀ x ∈ rest, x ∈ c := fun x hx => hl x (List.mem_cons_of_mem _ hx)
    unfold resetLoop
    refine PV.getS_bind fun s => ?_
    dsimp only
    split <;> fwd_tac <;> pv_walk
macro_rules | `(tactic| pv_leaf) => `(tactic| (with_reducible apply pv_resetLoop) <;> mem_tac)

theorem pv_resetInsertionMode {c : List Id} : PV c resetInsertionMode nil := by
  unfold resetInsertionMode; pv_walk
macro_rules | `(tactic| pv_leaf) => `(tactic| with_reducible exact pv_resetInsertionMode)

theorem pv_closeTheCell {c : List Id} : PV c closeTheCell nil := by unfold closeTheCell; pv_walk
macro_rules | `(tactic| pv_leaf) => `(tactic| with_reducible exact pv_closeTheCell)

theorem pv_enterForeign {c : List Id} (t : Tag) (ns : Str) : PV c (enterForeign t ns) prH := by
  unfold enterForeign; pv_walk
macro_rules | `(tactic| pv_leaf) => `(tactic| with_reducible exact pv_enterForeign _ _)

theorem pv_foreignStartTag {c : List Id} (t : Tag) : PV c (foreignStartTag t) prH := by
  unfold foreignStartTag; pv_walk
macro_rules | `(tactic| pv_leaf) => `(tactic| with_reducible exact pv_foreignStartTag _)

theorem pv_isForeign {c : List Id} (t : Token) : PV c (isForeign t) nil := by
  unfold isForeign; pv_walk
macro_rules | `(tactic| pv_leaf) => `(tactic| with_reducible exact pv_isForeign _)

theorem pv_popToIntegrationPointLoop : ∀ (c : List Id) (fuel : Nat), PV c (popToIntegrationPointLoop fuel) nil
  | c, 0 => by unfold popToIntegrationPointLoop; pv_walk
  | c, fuel + 1 => by
    have ih := fun c' => pv_popToIntegrationPointLoop c' fuel
    unfold popToIntegrationPointLoop; pv_walk
macro_rules | `(tactic| pv_leaf) => `(tactic| with_reducible exact pv_popToIntegrationPointLoop _ _)

end H5V.Props.C18
