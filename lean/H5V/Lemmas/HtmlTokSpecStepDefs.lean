import H5V.Lemmas.HtmlTokSpecTac
/-!
# C01 simulation — the goal of the step lemmas (`StepOk`) and the interface between the register part
(`RegCore`), the reader part (`InpRel`) and the whole relation (`RelCore`, `Rel`)
-/
set_option linter.unusedSimpArgs false
namespace H5V.Lemmas.HtmlTokSpec
open H5V.Model.HtmlTok
open H5V.Spec.HtmlTokenizer (St Tok Emit Tree Switch Ctl ReturnSt normalizeNewlinesFrom normalizeNewlines)

/-- the goal of a step lemma; `r` is the result of one `Tokenizer::step` of the model:
* Continue: the specification reaches, in `k ≥ 0` steps, a configuration related to the new one;
* Suspend (needs more input): nothing happens in the specification, the relation still holds;
* the sink never pauses the tokenizer (`PolTree`), and the model does not panic. -/
def StepOk (tree : Tree) (t : Tok) (rest : Str) : R → Prop
  | .cont m' inp' => Reach tree t rest (fun t' rest' => Rel m' inp' t' rest')
  | .suspend m' inp' => Rel m' inp' t rest
  | .script _ _ => False
  | .indicator _ _ => False
  | .panic _ => False

@[simp] theorem stepOk_cont (tree : Tree) (t : Tok) (rest : Str) (m' : Mach) (inp' : Str) :
    StepOk tree t rest (.cont m' inp') ↔ Reach tree t rest (fun t' rest' => Rel m' inp' t' rest') := Iff.rfl
@[simp] theorem stepOk_suspend (tree : Tree) (t : Tok) (rest : Str) (m' : Mach) (inp' : Str) :
    StepOk tree t rest (.suspend m' inp') ↔ Rel m' inp' t rest := Iff.rfl
@[simp] theorem stepOk_script (tree : Tree) (t : Tok) (rest : Str) (m' : Mach) (inp' : Str) :
    StepOk tree t rest (.script m' inp') ↔ False := Iff.rfl
@[simp] theorem stepOk_indicator (tree : Tree) (t : Tok) (rest : Str) (m' : Mach) (inp' : Str) :
    StepOk tree t rest (.indicator m' inp') ↔ False := Iff.rfl
@[simp] theorem stepOk_panic (tree : Tree) (t : Tok) (rest : Str) (e : String) :
    StepOk tree t rest (.panic e) ↔ False := Iff.rfl

/-! ## `RelCore` from and to its parts -/

theorem RelCore.std {m : Mach} {inp : Str} {t : Tok} {rest : Str} (h : RelCore m inp t rest) : Std m.state := h.d.1
theorem RelCore.st {m : Mach} {inp : Str} {t : Tok} {rest : Str} (h : RelCore m inp t rest) : StRelD m t rest := h.d.2.1
theorem RelCore.reg {m : Mach} {inp : Str} {t : Tok} {rest : Str} (h : RelCore m inp t rest) : RegRel m t := h.d.2.2.1
theorem RelCore.out {m : Mach} {inp : Str} {t : Tok} {rest : Str} (h : RelCore m inp t rest) : OutRel m t := h.d.2.2.2.1
theorem RelCore.inp {m : Mach} {inp : Str} {t : Tok} {rest : Str} (h : RelCore m inp t rest) : InpRel m inp rest :=
  h.d.2.2.2.2

/-- no character reference in progress: the register part -/
theorem RelCore.regCore {m : Mach} {inp : Str} {t : Tok} {rest : Str} (h : RelCore m inp t rest)
    (hcr : m.charRef = none) : RegCore m t := by
  refine ⟨h.std, ?_, hcr, h.reg, h.out⟩
  have := h.st
  unfold StRelD at this
  rw [hcr] at this
  exact this

theorem RelCore.ofRegCore {m : Mach} {inp : Str} {t : Tok} {rest : Str} (h : RegCore m t)
    (hi : InpRel m inp rest) (ht : TInv m) : RelCore m inp t rest := by
  refine ⟨⟨h.std, ?_, h.reg, h.out, hi⟩, ht, fun cr hc => ?_⟩
  · unfold StRelD; rw [h.cr]; exact h.st
  · rw [h.cr] at hc; simp at hc

/-- a character reference in progress: the parts -/
theorem RelCore.crRel {m : Mach} {inp : Str} {t : Tok} {rest : Str} (h : RelCore m inp t rest)
    {cr : CharRefSt} (hcr : m.charRef = some cr) : CRRelD m cr t rest := by
  have := h.st
  unfold StRelD at this
  rw [hcr] at this
  exact this

theorem RelCore.ofCR {m : Mach} {inp : Str} {t : Tok} {rest : Str} {cr : CharRefSt}
    (hcr : m.charRef = some cr) (hstd : Std m.state) (hc : CRRelD m cr t rest) (hg : CRStG cr cr.state)
    (hreg : RegRel m t) (hout : OutRel m t) (hi : InpRel m inp rest) (ht : TInv m) : RelCore m inp t rest := by
  refine ⟨⟨hstd, ?_, hreg, hout, hi⟩, ht, fun cr' hc' => ?_⟩
  · unfold StRelD; rw [hcr]; exact hc
  · rw [hcr] at hc'
    simp only [Option.some.injEq] at hc'
    subst hc'
    exact hg

/-- a lag only occurs in the lag states -/
theorem Rel.core_of_not_lag {m : Mach} {inp : Str} {t : Tok} {rest : Str} (h : Rel m inp t rest)
    (hl : isLagSt m.state = false ∨ m.charRef ≠ none ∨ m.reconsume = true ∨ m.ignoreLf = true) :
    RelCore m inp t rest := by
  obtain ⟨lag, inp0, hinp, hok, hc⟩ := h
  rcases hok with rfl | ⟨h1, h2, h3, h4, _⟩
  · simpa [absorb, hinp] using hc
  · rcases hl with hl | hl | hl | hl
    · rw [hl] at h1; simp at h1
    · exact absurd h2 hl
    · rw [hl] at h3; simp at h3
    · rw [hl] at h4; simp at h4

end H5V.Lemmas.HtmlTokSpec
