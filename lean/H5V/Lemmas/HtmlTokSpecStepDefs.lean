import H5V.Lemmas.HtmlTokSpecTac
/-!
# C01 simulation — the goal of the step lemmas (`StepOk`) and the interface between the register part
(`RegCore`), the reader part (`InpRel`) and the whole relation (`RelCore`, `Rel`)
-/
set_option linter.unusedSimpArgs false
namespace H5V.Lemmas.HtmlTokSpec
open H5V.Model.HtmlTok
open H5V.Spec.HtmlTokenizer (St Tok Emit Tree Switch Ctl ReturnSt normalizeNewlinesFrom normalizeNewlines)

/-- the goal of a step lemma; `r` is the result of one `Tokenizer::step` of the model:
* Continue: the specification reaches, in `k ≥ 0` steps, a configuration related to the new one;
* Suspend (needs more input): nothing happens in the specification, the relation still holds;
* the sink never pauses the tokenizer (`PolTree`), and the model does not panic. -/
def StepOk (tree : Tree) (t : Tok) (rest : Str) : R → Prop
  | .cont m' inp' => Reach tree t rest (fun t' rest' => Rel m' inp' t' rest')
  | .suspend m' inp' => Rel m' inp' t rest
  | .script _ _ => False
  | .indicator _ _ => False
  | .panic _ => False

@[simp] theorem stepOk_cont (tree : Tree) (t : Tok) (rest : Str) (m' : Mach) (inp' : Str) :
    StepOk tree t rest (.cont m' inp') ↔ Reach tree t rest (fun t' rest' => Rel m' inp' t' rest') := Iff.rfl
@[simp] theorem stepOk_suspend (tree : Tree) (t : Tok) (rest : Str) (m' : Mach) (inp' : Str) :
    StepOk tree t rest (.suspend m' inp') ↔ Rel m' inp' t rest := Iff.rfl
@[simp] theorem stepOk_script (tree : Tree) (t : Tok) (rest : Str) (m' : Mach) (inp' : Str) :
    StepOk tree t rest (.script m' inp') ↔ False := Iff.rfl
@[simp] theorem stepOk_indicator (tree : Tree) (t : Tok) (rest : Str) (m' : Mach) (inp' : Str) :
    StepOk tree t rest (.indicator m' inp') ↔ False := Iff.rfl
@[simp] theorem stepOk_panic (tree : Tree) (t : Tok) (rest : Str) (e : String) :
    StepOk tree t rest (.panic e) ↔ False := Iff.rfl

/-! ## `RelCore` from and to its parts -/

theorem RelCore.std {m : Mach} {inp : Str} {t : Tok} {rest : Str} (h : RelCore m inp t rest) : Std m.state := h.d.1
theorem RelCore.st {m : Mach} {inp : Str} {t : Tok} {rest : Str} (h : RelCore m inp t rest) : StRelD m t rest := h.d.2.1
theorem RelCore.reg {m : Mach} {inp : Str} {t : Tok} {rest : Str} (h : RelCore m inp t rest) : RegRel m t := h.d.2.2.1
theorem RelCore.out {m : Mach} {inp : Str} {t : Tok} {rest : Str} (h : RelCore m inp t rest) : OutRel m t := h.d.2.2.2.1
theorem RelCore.inp {m : Mach} {inp : Str} {t : Tok} {rest : Str} (h : RelCore m inp t rest) : InpRel m inp rest :=
  h.d.2.2.2.2

/-- no character reference in progress: the register part -/
theorem RelCore.regCore {m : Mach} {inp : Str} {t : Tok} {rest : Str} (h : RelCore m inp t rest)
    (hcr : m.charRef = none) : RegCore m t := by
  refine ⟨h.std, ?_, hcr, h.reg, h.out⟩
  have := h.st
  unfold StRelD at this
  rw [hcr] at this
  exact this

theorem RelCore.ofRegCore {m : Mach} {inp : Str} {t : Tok} {rest : Str} (h : RegCore m t)
    (hi : InpRel m inp rest) (ht : TInv m) : RelCore m inp t rest := by
  refine ⟨⟨h.std, ?_, h.reg, h.out, hi⟩, ht, fun cr hc => ?_⟩
  · unfold StRelD; rw [h.cr]; exact h.st
  · rw [h.cr] at hc; simp at hc

/-- a character reference in progress: the parts -/
theorem RelCore.crRel {m : Mach} {inp : Str} {t : Tok} {rest : Str} (h : RelCore m inp t rest)
    {cr : CharRefSt} (hcr : m.charRef = some cr) : CRRelD m cr t rest := by
  have := h.st
  unfold StRelD at this
  rw [hcr] at this
  exact this

theorem RelCore.ofCR {m : Mach} {inp : Str} {t : Tok} {rest : Str} {cr : CharRefSt}
    (hcr : m.charRef = some cr) (hstd : Std m.state) (hc : CRRelD m cr t rest) (hg : CRStG cr cr.state)
    (hreg : RegRel m t) (hout : OutRel m t) (hi : InpRel m inp rest) (ht : TInv m) : RelCore m inp t rest := by
  refine ⟨⟨hstd, ?_, hreg, hout, hi⟩, ht, fun cr' hc' => ?_⟩
  · unfold StRelD; rw [hcr]; exact hc
  · rw [hcr] at hc'
    simp only [Option.some.injEq] at hc'
    subst hc'
    exact hg

/-- a lag only occurs in the lag states -/
theorem Rel.core_of_not_lag {m : Mach} {inp : Str} {t : Tok} {rest : Str} (h : Rel m inp t rest)
    (hl : isLagSt m.state = false ∨ m.charRef ≠ none ∨ m.reconsume = true ∨ m.ignoreLf = true) :
    RelCore m inp t rest := by
  obtain ⟨lag, inp0, hinp, hok, hc⟩ := h
  rcases hok with rfl | ⟨h1, h2, h3, h4, _⟩
  · simpa [absorb, hinp] using hc
  · rcases hl with hl | hl | hl | hl
    · rw [hl] at h1; simp at h1
    · exact absurd h2 hl
    · rw [hl] at h3; simp at h3
    · rw [hl] at h4; simp at h4

/-! ## the model's invariant only looks at the control registers -/

theorem tinv_congr {m m' : Mach} (h : TInv m) (h1 : m'.state = m.state) (h2 : m'.charRef = m.charRef)
    (h3 : m'.tempBuf = m.tempBuf) (h4 : m'.reconsume = m.reconsume) (h5 : m'.ignoreLf = m.ignoreLf)
    (h6 : m'.currentChar = m.currentChar) : TInv m' := by
  have hstash : stash m' = stash m := stash_congr h1 h3 h2
  refine ⟨⟨⟨?_, ?_⟩, ?_, ?_, ?_, ?_, ?_, ?_⟩, ?_⟩
  · intro cr hc; rw [h1]; exact h.linv.safe.crState cr (by rw [← h2]; exact hc)
  · intro cr hc; exact h.linv.safe.crRegs cr (by rw [← h2]; exact hc)
  · intro hs; have := h.linv.eatOk (by rw [← h1]; exact hs)
    intro hil; rw [h3]; exact this (by rw [← h5]; exact hil)
  · intro a b c; rw [h3]; exact h.linv.nr (by rw [← h1]; exact a) (by rw [← h1]; exact b) (by rw [← h1]; exact c)
  · intro hs; rw [h4]; exact h.linv.peekNoRecon (by rw [← h1]; exact hs)
  · intro a b; rw [h6]; exact h.linv.ri (by rw [← h4]; exact a) (by rw [← h5]; exact b)
  · rw [hstash]; exact h.linv.stashOk
  · intro cr hc
    have := h.linv.cr cr (by rw [← h2]; exact hc)
    rw [h5, h4]; exact this
  · intro cr hc; exact h.crt cr (by rw [← h2]; exact hc)

theorem tinv_absorb {m : Mach} (h : TInv m) (lag : Str) : TInv (absorb m lag) := by
  unfold absorb
  split
  · exact h
  · split
    · exact tinv_congr h rfl rfl rfl rfl rfl rfl
    · split
      · exact tinv_congr h rfl rfl rfl rfl rfl rfl
      · exact tinv_congr h rfl rfl rfl rfl rfl rfl

theorem tinv_setAtEof {m : Mach} (h : TInv m) (b : Bool) : TInv (m.setAtEof b) :=
  tinv_congr h rfl rfl rfl rfl rfl rfl

end H5V.Lemmas.HtmlTokSpec
