import H5V.Lemmas.HtmlTBContractRules1
/-!
# TreeSink contract for the HTML tree builder, part 9: InHead and AfterHead

* `cpp_stepInHead` / `headH` — the "in head" rules at the `CPP` level (no `SAnc`);
* `rs_stepAfterHead` — the "after head" rules; the arm that runs `stepInHead` with the head element
  pushed on top of the stack is proved at the `SatC` level with a valued spec of `removeFromStack`.
-/
namespace H5V.Lemmas.TBC
open H5V.Model.HtmlTB
open H5V.Model.Dom (Id QualName Attr NodeOrText SinkOp Output ElementFlags QuirksMode Dom NodeData Node Contract)
open H5V.Lemmas.TBSafe (IsEl nm sigOf Ext)
variable {d0 : Dom}

/-! ### leaves for InHead -/

theorem cp_extractEncoding {c : List Id} {content : Str} :
    CP d0 c (extractEncoding content) (fun _ => []) := by
  unfold H5V.Model.HtmlTB.extractEncoding
  cases h : H5V.Model.Meta.extract (utf8Bytes content) with
  | error e =>
    dsimp only
    refine cp_throw (Or.inr (Or.inl ?_))
    rw [String.toList_append]; exact TBSafe.isPrefixOf_append _ _
  | ok o =>
    cases o with
    | none => exact cp_pure_nil _
    | some bytes =>
      dsimp only
      cases h2 : String.fromUTF8? (ByteArray.mk bytes.toArray) with
      | some s => exact cp_pure_nil _
      | none => exact cp_throw (Or.inl (by decide))

macro_rules | `(tactic| cp_leaf) => `(tactic| with_reducible exact cp_extractEncoding)

set_option maxHeartbeats 800000 in
theorem cpp_metaArm {c : List Id} {tag : Tag} {tok : Token} (ha : AttrsOk tag.attrs) :
    CPP d0 c (do
      let _ ← insertAndPopElementFor tag
      if !isName tag.name "meta" then pure .doneAckSelfClosing
      else
        match tag.getAttribute "charset" with
        | some charset => pure (.encodingIndicator charset)
        | none =>
          let isContentType := match tag.getAttribute "http-equiv" with
            | some v => eqIgnoreAsciiCase v "content-type".toList
            | none => false
          if isContentType then
            match tag.getAttribute "content" with
            | none => pure .doneAckSelfClosing
            | some content =>
              match ← extractEncoding content with
              | some enc => pure (.encodingIndicator enc)
              | none => pure .doneAckSelfClosing
          else pure .doneAckSelfClosing) (fun _ => []) (ResLate tok) := by
  refine cpp_bind (cp_insertAndPopElementFor (attrKeysNodup_of_attrsOk ha)) (fun _ => ?_)
  refine cpp_ite (fun _ => cpp_pure_nil _ trivial) (fun _ => ?_)
  cases h1 : tag.getAttribute "charset" with
  | some charset => exact cpp_pure_nil _ trivial
  | none =>
    dsimp only
    refine cpp_ite (fun _ => ?_) (fun _ => cpp_pure_nil _ trivial)
    cases h2 : tag.getAttribute "content" with
    | none => exact cpp_pure_nil _ trivial
    | some content =>
      dsimp only
      refine cpp_bind cp_extractEncoding (fun r => ?_)
      cases r with
      | none => exact cpp_pure_nil _ trivial
      | some enc => exact cpp_pure_nil _ trivial

/-- the `<script>` arm: the answer is `toRawTextMode`'s -/
theorem cpp_scriptArm {c : List Id} {tag : Tag} {P : ProcessResult → Prop} (ha : AttrsOk tag.attrs)
    (hp : P (.toRawData .scriptData)) :
    CPP d0 c (do
      let elem ← createElementWithFlags (htmlQual "script".toList) tag.attrs tag.hadDup
      if ← isFragment then sinkUnit (.markScriptAlreadyStarted elem)
      insertAppropriately (.node elem) none
      push elem
      toRawTextMode .scriptData) (fun _ => []) P := by
  refine cpp_of_cp_ok (cp_scriptArm (attrKeysNodup_of_attrsOk ha)) ?_
  intro s a s' h
  obtain ⟨elem, s1, _, h2⟩ := ok_bind h
  obtain ⟨b, s2, _, h3⟩ := ok_bind h2
  dsimp only at h3
  refine ok_ite (P := P) h3 ?_ ?_
  · intro s3 s4 r h4
    obtain ⟨_, s5, _, h5⟩ := ok_bind h4
    obtain ⟨_, s6, _, h6⟩ := ok_bind h5
    obtain ⟨_, s7, _, h7⟩ := ok_bind h6
    rw [res_toRawTextMode h7]; exact hp
  · intro s3 s4 r h4
    obtain ⟨_, s5, _, h5⟩ := ok_bind h4
    obtain ⟨_, s6, _, h6⟩ := ok_bind h5
    rw [res_toRawTextMode h6]; exact hp

/-- a tree-neutral sink query answering a Boolean -/
theorem cp_sinkBool_nt {c : List Id} {op : SinkOp} (hnt : nonTree op = true)
    (hc : ∀ s, CB d0 s → CtxOk c s → Contract s.dom op) : CP d0 c (sinkBool op) (fun _ => []) := by
  unfold sinkBool
  refine cp_bind (cp_sink_nt hnt hc) ?_
  intro out
  cases out <;> first | exact cp_pure_nil _ | exact cp_throw (Or.inl (by decide))

theorem contract_attach {d : Dom} {l t : Id} {attrs : List Attr} (hl : IsEl d l) (ht : IsEl d t)
    (ha : Dom.attrKeysNodup attrs = true) : Contract d (.attachDeclarativeShadow l t attrs) := by
  show (d.isElement l && d.isElement t && Dom.attrKeysNodup attrs) = true
  rw [isElement_of_isEl hl, isElement_of_isEl ht, ha]; rfl

/-- the tail of the declarative-shadow branch of `<template>` -/
theorem cpp_attachTail {c : List Id} {tag : Tag} {tok : Token} {shadowHost : Id} (ha : AttrsOk tag.attrs)
    (hs : shadowHost ∈ c) :
    CPP d0 c (do
      let template ← insertForeignElement tag nsHtml true
      let succeeded ← sinkBool (.attachDeclarativeShadow shadowHost template tag.attrs)
      if (!succeeded) = true then do
          let _ ← pop
          let _ ← insertElementFor tag
          pure ProcessResult.done
        else pure ProcessResult.done) (fun _ => []) (ResLate tok) := by
  have hk := attrKeysNodup_of_attrsOk ha
  refine cpp_bind (cp_insertForeignElement hk) (fun template => ?_)
  refine cpp_bind (R := fun _ => []) (cp_sinkBool_nt rfl (fun s hcb hc => ?_)) (fun b => ?_)
  · exact contract_attach (hc shadowHost (by simp [hs])) (hc template (by simp)) hk
  · rs_walk

set_option maxHeartbeats 800000 in
theorem cpp_templateStartArm {c : List Id} {tag : Tag} {tok : Token} (ha : AttrsOk tag.attrs) :
    CPP d0 c (do
      pushMarker
      setFramesetOk false
      setMode .inTemplate
      modS fun s => { s with templateModes := s.templateModes ++ [.inTemplate] }
      if ← shouldAttachDeclarativeShadow tag then
        let s ← getS
        let shadowHost ← match s.openElems.getLast? with
          | some h => pure h
          | none => panicAt "unwrap-none" "rules.rs:276" "open_elems.last().unwrap()"
        let shadowHost ←
          if s.contextElem.isSome && s.openElems.length == 1 then
            match s.contextElem with
            | some c => pure c
            | none => panicAt "unwrap-none" "rules.rs:278" "context_elem unwrap"
          else pure shadowHost
        let template ← insertForeignElement tag nsHtml true
        let succeeded ← sinkBool (.attachDeclarativeShadow shadowHost template tag.attrs)
        if !succeeded then
          let _ ← pop
          let _ ← insertElementFor tag
      else
        let _ ← insertElementFor tag
      pure .done) (fun _ => []) (ResLate tok) := by
  refine cpp_bind cp_pushMarker (fun _ => ?_)
  refine cpp_bind cp_setFramesetOk (fun _ => ?_)
  refine cpp_bind (cp_setMode (by decide)) (fun _ => ?_)
  refine cpp_bind (cp_modS_tmPush (by decide)) (fun _ => ?_)
  refine cpp_bind cp_shouldAttachDeclarativeShadow (fun b => ?_)
  refine cpp_ite (fun _ => ?_) (fun _ => by rs_walk)
  refine cpp_getS_bind (fun s0 => ?_)
  cases hl : s0.openElems.getLast? with
  | none =>
    dsimp only
    intro s hcb hc
    exact SatC.bind (Q := fun _ _ => False) (satc_panicAt (by decide)) (fun _ _ h => h.elim)
  | some h =>
    dsimp only
    simp only [pure_bind]
    refine cpp_ite (fun _ => ?_) (fun _ => ?_)
    · cases hx : s0.contextElem with
      | none =>
        dsimp only
        intro s hcb hc
        exact SatC.bind (Q := fun _ _ => False) (satc_panicAt (by decide)) (fun _ _ h => h.elim)
      | some cx =>
        dsimp only
        exact cpp_attachTail ha (mem_ctxElem hx)
    · exact cpp_attachTail ha (mem_open (List.mem_of_getLast? hl))

set_option maxHeartbeats 1600000 in
theorem cpp_stepInHead : ∀ tok, TokOk tok → CPP d0 [] (stepInHead tok) (fun _ => []) (ResLate tok) := by
  unfold H5V.Model.HtmlTB.stepInHead
  intro tok ht
  cases tok with
  | chars st text => cases st <;> (dsimp only; rs_walk)
  | tag tag =>
    have ha : AttrsOk tag.attrs := ht
    dsimp only
    refine cpp_ite (fun _ => ?_) (fun _ => ?_)
    · rs_walk
    refine cpp_ite (fun _ => ?_) (fun _ => ?_)
    · exact cpp_metaArm ha
    refine cpp_ite (fun _ => ?_) (fun _ => ?_)
    · rs_walk
    refine cpp_ite (fun _ => ?_) (fun _ => ?_)
    · rs_walk
    refine cpp_ite (fun _ => ?_) (fun _ => ?_)
    · exact cpp_scriptArm ha trivial
    refine cpp_ite (fun _ => ?_) (fun _ => ?_)
    · rs_walk
    refine cpp_ite (fun _ => ?_) (fun _ => ?_)
    · rs_walk
    refine cpp_ite (fun _ => ?_) (fun _ => ?_)
    · exact cpp_templateStartArm ha
    refine cpp_ite (fun _ => ?_) (fun _ => ?_)
    · rs_walk
    rs_walk
  | _ => dsimp only; rs_walk

theorem headH : HeadH d0 := cpp_stepInHead

/-! ### AfterHead -/

theorem sublist_snoc_cases {sub L : List Id} {h : Id} (hs : sub.Sublist (L ++ [h])) :
    sub.Sublist L ∨ ∃ l1, sub = l1 ++ [h] ∧ l1.Sublist L := by
  obtain ⟨l1, l2, e, h1, h2⟩ := List.sublist_append_iff.mp hs
  cases h2 with
  | cons _ h3 =>
    cases h3
    left; rw [e, List.append_nil]; exact h1
  | cons_cons _ h3 =>
    cases h3
    right; exact ⟨l1, e, h1⟩

/-- erasing the last occurrence of `h` from a sublist of `L ++ [h]` leaves a sublist of `L` -/
theorem sublist_snoc_erase {pre post L : List Id} {h : Id} (hs : (pre ++ h :: post).Sublist (L ++ [h]))
    (hn : h ∉ post) : (pre ++ post).Sublist L := by
  rcases sublist_snoc_cases hs with h1 | ⟨l1, e, h1⟩
  · exact (((List.sublist_cons_self h post).append_left pre)).trans h1
  · rcases List.eq_nil_or_concat post with rfl | ⟨p3, z, rfl⟩
    · have := (List.append_inj' e rfl).1
      rw [List.append_nil, this]; exact h1
    · exfalso
      have e' : (pre ++ h :: p3) ++ [z] = l1 ++ [h] := by simpa using e
      have hz : [z] = [h] := (List.append_inj' e' rfl).2
      have : z = h := by simpa using hz
      subst this
      exact hn (by simp)

/-- **`remove_from_stack`, valued**: the last occurrence of `elem` is erased -/
theorem satcv_removeFromStack {elem : Id} {s : State} (hcb : CB d0 s) (hel : IsEl s.dom elem) :
    SatC (removeFromStack elem) s (fun _ s' => CB d0 s' ∧ GrowRel s s' ∧
      ((elem ∉ s.openElems ∧ s'.openElems = s.openElems) ∨
       (∃ pre post, s.openElems = pre ++ elem :: post ∧ elem ∉ post ∧ s'.openElems = pre ++ post))) := by
  unfold removeFromStack
  refine (satcv_rposition (P := fun x => elem == x) hcb
    (fun x hx => answersC_sameNode_left hel (hcb.h.open_el x hx))).bind ?_
  rintro r s1 ⟨rfl, hq1⟩
  rcases TBSafe.rposL_spec (P := fun x => elem == x) s.openElems with ⟨h1, h2⟩ | ⟨pre, x, post, heq, h1, h2, h3⟩
  · rw [h1]
    refine satc_pure ⟨hq1.cb, hq1.g, Or.inl ⟨?_, hq1.openElems⟩⟩
    intro hmem
    have := h2 elem hmem
    simp at this
  · rw [h1]
    dsimp only
    have hx : elem = x := beq_iff_eq.mp h2
    subst hx
    refine satc_modS_bind ?_
    obtain ⟨hcb2, hg2⟩ := cb_dropStack hq1.cb (List.eraseIdx_sublist s1.openElems pre.length)
    refine satc_sinkUnit hcb2.d (contract_pop (hel.ext hq1.ext)) ?_
    intro d' out ha hd
    have hq3 := q2_of_nt hcb2 rfl ha hd
    refine ⟨hq3.cb, (hq1.g.trans hg2).trans hq3.g, Or.inr ⟨pre, post, heq, ?_, ?_⟩⟩
    · intro hm
      have := h3 elem hm
      simp at this
    · show s1.openElems.eraseIdx pre.length = pre ++ post
      rw [hq1.openElems, heq, TBSafe.eraseIdx_append_cons]

/-- (hypothesis of `rs_stepAfterHead`) the head pointer, if it is an HTML `template`, has `Document`
template contents — `HL.head` records `IsEl` only -/
def HeadTc (d0 : Dom) : Prop := ∀ s, CB d0 s → ∀ h, s.headElem = some h → TcDoc s.dom h

/-- the stack after `push head; stepInHead; remove_from_stack(head)` -/
theorem stack_after_headDeleg {L S2 S3 sub news : List Id} {head : Id} (e2 : S2 = sub ++ news)
    (hsub : sub.Sublist (L ++ [head])) (hnn : head ∉ news)
    (hst : (head ∉ S2 ∧ S3 = S2) ∨ (∃ pre post, S2 = pre ++ head :: post ∧ head ∉ post ∧ S3 = pre ++ post)) :
    ∃ sub', S3 = sub' ++ news ∧ sub'.Sublist L := by
  rcases hst with ⟨hnot, e3⟩ | ⟨pre, post, e2', hnpost, e3⟩
  · refine ⟨sub, by rw [e3, e2], ?_⟩
    rcases sublist_snoc_cases hsub with h1 | ⟨l1, e, _⟩
    · exact h1
    · exact (hnot (by rw [e2, e]; simp)).elim
  · rw [e2] at e2'
    rcases List.append_eq_append_iff.mp e2' with ⟨a', _, hn⟩ | ⟨c', hs, hp⟩
    · exact (hnn (by rw [hn]; simp)).elim
    · cases c' with
      | nil =>
        rw [List.nil_append] at hp
        exact (hnn (by rw [← hp]; simp)).elim
      | cons x c'' =>
        rw [List.cons_append] at hp
        obtain ⟨hx, hp'⟩ := List.cons.inj hp
        subst hx
        refine ⟨pre ++ c'', by rw [e3, hp', List.append_assoc], ?_⟩
        rw [hs] at hsub
        exact sublist_snoc_erase hsub (fun hm => hnpost (by rw [hp']; exact List.mem_append_left _ hm))

/-- the arm of AfterHead that runs the "in head" rules with the head element pushed -/
theorem satc_headDeleg (hH : HeadH d0) {tok : Token} (ht : TokOk tok) {s : State} {head : Id}
    (hcb : CB d0 s) (hsa : SAnc s.dom s.openElems) (hel : IsEl s.dom head) (htc : TcDoc s.dom head) :
    SatC (do
      push head
      let result ← stepInHead tok
      removeFromStack head
      pure result) s
      (fun a s' => CB d0 s' ∧ SAnc s'.dom s'.openElems ∧ Ext s.dom s'.dom ∧ CtxOk [] s' ∧ ResLate tok a) := by
  unfold H5V.Model.HtmlTB.push
  refine satc_modS_bind ?_
  have hcb1 := hcb.push hel htc
  refine (hH.cpp (c := []) ht _ hcb1 (CtxOk.nil _)).bind ?_
  rintro res s2 ⟨hcb2, g12, -, hres⟩
  refine (satcv_removeFromStack hcb2 (hel.ext g12.ext)).bind ?_
  rintro _ s3 ⟨hcb3, g23, hst⟩
  have g13 := g12.trans g23
  obtain ⟨sub, news, e2, hsub, hnews, hpw⟩ := g12.stack
  have hlt : head < s.dom.size := lt_of_isEl hel
  have hnn : head ∉ news := fun hm => Nat.lt_irrefl _ (Nat.lt_of_lt_of_le hlt (hnews head hm).1)
  obtain ⟨sub', e3, hsub'⟩ := stack_after_headDeleg e2 hsub hnn hst
  have g : GrowRel s s3 :=
    ⟨g13.ext, g13.kext, g13.size, g13.oldPar, g13.newPar,
      ⟨sub', news, e3, hsub', fun r hr => ⟨(hnews r hr).1, Nat.lt_of_lt_of_le (hnews r hr).2 g23.size⟩, hpw⟩⟩
  exact satc_pure ⟨hcb3, SAnc.grow hcb.d.inv.wf hcb.h.lt hsa g, g.ext, CtxOk.nil _, hres⟩

set_option maxHeartbeats 1600000 in
/-- relative to `HeadTc d0`, which is a field of `HL` (`headTc` below discharges it) -/
theorem rs_stepAfterHead (hH : HeadH d0) (hB : BodyH d0) (hT : HeadTc d0) :
    ∀ tok, TokOk tok → RS d0 tok (stepAfterHead tok) := by
  unfold H5V.Model.HtmlTB.stepAfterHead
  intro tok ht
  unfold RS
  cases tok with
  | chars st text => cases st <;> (dsimp only; rs_walk)
  | tag tag =>
    have ha : AttrsOk tag.attrs := ht
    dsimp only
    refine cpsp_ite (fun _ => ?_) (fun _ => ?_)
    · rs_walk
    refine cpsp_ite (fun _ => ?_) (fun _ => ?_)
    · rs_walk
    refine cpsp_ite (fun _ => ?_) (fun _ => ?_)
    · rs_walk
    refine cpsp_ite (fun _ => ?_) (fun _ => ?_)
    · refine cpsp_bind_cp cp_unexpected (fun _ => ?_)
      refine cpsp_getS_bind_at (fun s0 => ?_)
      intro hcb hsa hc
      cases hh : s0.headElem with
      | none => exact satc_panicAt (by decide)
      | some head =>
        dsimp only
        exact satc_headDeleg hH ht hcb hsa (hcb.h.head head hh) (hT s0 hcb head hh)
    rs_walk
  | _ => dsimp only; rs_walk

/-- the head element pointer names an element with Document template contents (or not a template) -/
theorem headTc : HeadTc d0 := fun _ hcb h hh => hcb.h.headTc h hh

theorem rs_stepAfterHead' (hH : HeadH d0) (hB : BodyH d0) : ∀ tok, TokOk tok → RS d0 tok (stepAfterHead tok) :=
  rs_stepAfterHead hH hB headTc

end H5V.Lemmas.TBC
