import H5V.Lemmas.HtmlTBSkelShapeEof
/-!
C06, second invariant layer, part 25: `reset_insertion_mode` — the mode it returns fits the stack.
-/
namespace H5V.Props.C06
open H5V.Model.Dom hiding Str
open H5V.Model.HtmlTB hiding Str
open H5V.Lemmas.Dom
set_option synthInstance.maxSize 4096

/-- the element names that decide the result of `reset_insertion_mode` -/
def resetKeyNames : List String :=
  ["td", "th", "tr", "tbody", "thead", "tfoot", "caption", "colgroup", "table", "template", "head", "body",
   "frameset", "html"]

def resetKey (n : EName) : Bool := htmlIn n resetKeyNames

/-- the result at the first deciding element (which is not the bottom of the stack, or is `html`) -/
def resetAt (tm : List Mode) (head : Option Id) (n : EName) : Option Mode :=
  if isOneOf n.loc ["td", "th"] then some .inCell
  else if isName n.loc "tr" then some .inRow
  else if isOneOf n.loc ["tbody", "thead", "tfoot"] then some .inTableBody
  else if isName n.loc "caption" then some .inCaption
  else if isName n.loc "colgroup" then some .inColumnGroup
  else if isName n.loc "table" then some .inTable
  else if isName n.loc "template" then tm.getLast?
  else if isName n.loc "head" then some .inHead
  else if isName n.loc "body" then some .inBody
  else if isName n.loc "frameset" then some .inFrameset
  else if isName n.loc "html" then (match head with | none => some .beforeHead | some _ => some .afterHead)
  else none

theorem resetKey_false_of {n : EName} (hns : (n.ns != nsHtml) = false)
    (h1 : isOneOf n.loc ["td", "th"] = false) (h2 : isName n.loc "tr" = false)
    (h3 : isOneOf n.loc ["tbody", "thead", "tfoot"] = false) (h4 : isName n.loc "caption" = false)
    (h5 : isName n.loc "colgroup" = false) (h6 : isName n.loc "table" = false) (h7 : isName n.loc "template" = false)
    (h8 : isName n.loc "head" = false) (h9 : isName n.loc "body" = false) (h10 : isName n.loc "frameset" = false)
    (h11 : isName n.loc "html" = false) : resetKey n = false := by
  unfold resetKey htmlIn resetKeyNames
  unfold isOneOf isName at *
  simp only [List.any_cons, List.any_nil, Bool.or_false, Bool.or_eq_false_iff] at h1 h3
  simp only [List.any_cons, List.any_nil, Bool.or_false, h1.1, h1.2, h2, h3.1, h3.2.1, h3.2.2, h4, h5, h6, h7, h8, h9,
    h10, h11, Bool.or_self, Bool.and_false]

theorem resetKey_of_name {n : EName} (hns : (n.ns != nsHtml) = false) {a : String} (ha : a ∈ resetKeyNames)
    (h : isName n.loc a = true) : resetKey n = true := by
  unfold resetKey htmlIn isOneOf
  have : (n.ns == nsHtml) = true := by
    cases hq : (n.ns == nsHtml) with
    | true => rfl
    | false => unfold bne at hns; rw [hq] at hns; cases hns
  rw [this, Bool.true_and, List.any_eq_true]
  exact ⟨a, ha, h⟩

theorem resetKey_ns {n : EName} (hns : (n.ns != nsHtml) = true) : resetKey n = false := by
  unfold resetKey htmlIn
  have : (n.ns == nsHtml) = false := by
    cases hq : (n.ns == nsHtml) with
    | false => rfl
    | true => unfold bne at hns; rw [hq] at hns; cases hns
  rw [this, Bool.false_and]

theorem isOneOf_2 {n : Str} {a b : String} (h : isOneOf n [a, b] = true) : isName n a = true ∨ isName n b = true := by
  unfold isOneOf isName at *
  simpa using h

theorem isOneOf_3 {n : Str} {a b c : String} (h : isOneOf n [a, b, c] = true) :
    isName n a = true ∨ isName n b = true ∨ isName n c = true := by
  unfold isOneOf isName at *
  simpa using h

set_option maxHeartbeats 1600000 in
/-- `reset_insertion_mode` over a stack whose bottom element is `html` (no context element):
the result is decided by the first element, from the top, whose name is one of `resetKeyNames` -/
theorem resetLoop_sem : ∀ (l : List Id) (s s' : State) (m : Mode), s.contextElem = none → l ≠ [] →
    (∀ z, l.getLast? = some z → nm s.dom z = hN "html") →
    resetLoop l l.length s = .ok (m, s') →
    QS s s' ∧ ∃ pre x post, l = pre ++ x :: post ∧ (∀ y ∈ pre, resetKey (nm s.dom y) = false) ∧
      resetKey (nm s.dom x) = true ∧ resetAt s.templateModes s.headElem (nm s.dom x) = some m
  | [], _, _, _, _, hne, _, _ => absurd rfl hne
  | [node], s, s', m, hctx, _, hlast, e => by
    have hn := hlast node rfl
    unfold resetLoop at e
    rw [getS_bind] at e
    have hl : (([node] : List Id).length - 1 == 0) = true := rfl
    rw [hctx] at e
    simp only [hl] at e
    obtain ⟨n, s1, e1, e2⟩ := bind_ok.mp e
    obtain ⟨q1, rfl, _⟩ := elemName_sem e1
    rw [hn] at e2
    have c0 : ((hN "html").ns != nsHtml) = false := by decide
    have c1 : isOneOf (hN "html").loc ["td", "th"] = false := by decide
    have c2 : isName (hN "html").loc "tr" = false := by decide
    have c3 : isOneOf (hN "html").loc ["tbody", "thead", "tfoot"] = false := by decide
    have c4 : isName (hN "html").loc "caption" = false := by decide
    have c5 : isName (hN "html").loc "colgroup" = false := by decide
    have c6 : isName (hN "html").loc "table" = false := by decide
    have c7 : isName (hN "html").loc "template" = false := by decide
    have c8 : isName (hN "html").loc "head" = false := by decide
    have c9 : isName (hN "html").loc "body" = false := by decide
    have c10 : isName (hN "html").loc "frameset" = false := by decide
    have c11 : isName (hN "html").loc "html" = true := by decide
    simp only [c0, c1, c2, c3, c4, c5, c6, c7, c8, c9, c10, c11, Bool.false_and, Bool.false_eq_true, if_false,
      if_true] at e2
    have e3 := e2
    refine ⟨?_, [], node, [], rfl, (by intro y hy; cases hy), by rw [hn]; decide, ?_⟩
    · cases hh : s.headElem with
      | none => rw [hh] at e3; obtain ⟨_, rfl⟩ := pure_ok.mp e3; exact q1
      | some h => rw [hh] at e3; obtain ⟨_, rfl⟩ := pure_ok.mp e3; exact q1
    · rw [hn]
      cases hh : s.headElem with
      | none =>
        rw [hh] at e3; obtain ⟨rfl, _⟩ := pure_ok.mp e3
        simp only [resetAt, c1, c2, c3, c4, c5, c6, c7, c8, c9, c10, c11, Bool.false_eq_true, if_false, if_true]
      | some h =>
        rw [hh] at e3; obtain ⟨rfl, _⟩ := pure_ok.mp e3
        simp only [resetAt, c1, c2, c3, c4, c5, c6, c7, c8, c9, c10, c11, Bool.false_eq_true, if_false, if_true]
  | node :: a :: t, s, s', m, hctx, _, hlast, e => by
    unfold resetLoop at e
    rw [getS_bind] at e
    have hl : ((node :: a :: t).length - 1 == 0) = false := rfl
    rw [hctx] at e
    simp only [hl] at e
    have hlen : (node :: a :: t).length - 1 = (a :: t).length := rfl
    rw [hlen] at e
    obtain ⟨n, s1, e1, e2⟩ := bind_ok.mp e
    obtain ⟨q1, rfl, _⟩ := elemName_sem e1
    have rec_ : resetLoop (a :: t) (a :: t).length s1 = .ok (m, s') → resetKey (nm s.dom node) = false →
        QS s s' ∧ ∃ pre x post, node :: a :: t = pre ++ x :: post ∧ (∀ y ∈ pre, resetKey (nm s.dom y) = false) ∧
          resetKey (nm s.dom x) = true ∧ resetAt s.templateModes s.headElem (nm s.dom x) = some m := by
      intro e3 hk
      have hctx1 : s1.contextElem = none := by rw [q1.rest]; exact hctx
      obtain ⟨q2, pre, x, post, h1, h2, h3, h4⟩ := resetLoop_sem (a :: t) s1 s' m hctx1 (by simp)
        (fun z hz => by rw [q1.nm]; exact hlast z (by simpa using hz)) e3
      refine ⟨q1.trans q2, node :: pre, x, post, by rw [h1]; rfl, ?_, by rw [← q1.nm]; exact h3, ?_⟩
      · intro y hy
        rcases List.mem_cons.mp hy with rfl | hy
        · exact hk
        · rw [← q1.nm]; exact h2 y hy
      · have : s1.templateModes = s.templateModes ∧ s1.headElem = s.headElem := by rw [q1.rest]; exact ⟨rfl, rfl⟩
        rw [← this.1, ← this.2, ← q1.nm]; exact h4
    have ret : ∀ (a0 : String), a0 ∈ resetKeyNames → ((nm s.dom node).ns != nsHtml) = false →
        isName (nm s.dom node).loc a0 = true →
        resetAt s.templateModes s.headElem (nm s.dom node) = some m → s' = s1 →
        QS s s' ∧ ∃ pre x post, node :: a :: t = pre ++ x :: post ∧ (∀ y ∈ pre, resetKey (nm s.dom y) = false) ∧
          resetKey (nm s.dom x) = true ∧ resetAt s.templateModes s.headElem (nm s.dom x) = some m := by
      intro a0 ha0 hns hnm hat hs
      rw [hs]
      exact ⟨q1, [], node, a :: t, rfl, (by intro y hy; cases hy), resetKey_of_name hns ha0 hnm, hat⟩
    rcases ite_run e2 with ⟨hns, e2⟩ | ⟨hns, e2⟩
    · exact rec_ e2 (resetKey_ns hns)
    have hns' : ((nm s.dom node).ns != nsHtml) = false := by simpa using hns
    simp only [Bool.not_false, Bool.and_true] at e2
    rcases ite_run e2 with ⟨h1, e2⟩ | ⟨h1, e2⟩
    · obtain ⟨rfl, rfl⟩ := pure_ok.mp e2
      rcases isOneOf_2 h1 with h | h
      · exact ret "td" (by decide) hns' h (by simp [resetAt, h1]) rfl
      · exact ret "th" (by decide) hns' h (by simp [resetAt, h1]) rfl
    have h1' : isOneOf (nm s.dom node).loc ["td", "th"] = false := by simpa using h1
    rcases ite_run e2 with ⟨h2, e2⟩ | ⟨h2, e2⟩
    · obtain ⟨rfl, rfl⟩ := pure_ok.mp e2
      exact ret "tr" (by decide) hns' h2 (by simp [resetAt, h1', h2]) rfl
    have h2' : isName (nm s.dom node).loc "tr" = false := by simpa using h2
    rcases ite_run e2 with ⟨h3, e2⟩ | ⟨h3, e2⟩
    · obtain ⟨rfl, rfl⟩ := pure_ok.mp e2
      rcases isOneOf_3 h3 with h | h | h
      · exact ret "tbody" (by decide) hns' h (by simp [resetAt, h1', h2', h3]) rfl
      · exact ret "thead" (by decide) hns' h (by simp [resetAt, h1', h2', h3]) rfl
      · exact ret "tfoot" (by decide) hns' h (by simp [resetAt, h1', h2', h3]) rfl
    have h3' : isOneOf (nm s.dom node).loc ["tbody", "thead", "tfoot"] = false := by simpa using h3
    rcases ite_run e2 with ⟨h4, e2⟩ | ⟨h4, e2⟩
    · obtain ⟨rfl, rfl⟩ := pure_ok.mp e2
      exact ret "caption" (by decide) hns' h4 (by simp [resetAt, h1', h2', h3', h4]) rfl
    have h4' : isName (nm s.dom node).loc "caption" = false := by simpa using h4
    rcases ite_run e2 with ⟨h5, e2⟩ | ⟨h5, e2⟩
    · obtain ⟨rfl, rfl⟩ := pure_ok.mp e2
      exact ret "colgroup" (by decide) hns' h5 (by simp [resetAt, h1', h2', h3', h4', h5]) rfl
    have h5' : isName (nm s.dom node).loc "colgroup" = false := by simpa using h5
    rcases ite_run e2 with ⟨h6, e2⟩ | ⟨h6, e2⟩
    · obtain ⟨rfl, rfl⟩ := pure_ok.mp e2
      exact ret "table" (by decide) hns' h6 (by simp [resetAt, h1', h2', h3', h4', h5', h6]) rfl
    have h6' : isName (nm s.dom node).loc "table" = false := by simpa using h6
    rcases ite_run e2 with ⟨h7, e2⟩ | ⟨h7, e2⟩
    · cases hgl : s.templateModes.getLast? with
      | none => rw [hgl] at e2; exact absurd e2 panicAt_ok
      | some m0 =>
        rw [hgl] at e2
        obtain ⟨rfl, rfl⟩ := pure_ok.mp e2
        exact ret "template" (by decide) hns' h7 (by simp [resetAt, h1', h2', h3', h4', h5', h6', h7, hgl]) rfl
    have h7' : isName (nm s.dom node).loc "template" = false := by simpa using h7
    rcases ite_run e2 with ⟨h8, e2⟩ | ⟨h8, e2⟩
    · simp only [if_true] at e2
      obtain ⟨rfl, rfl⟩ := pure_ok.mp e2
      exact ret "head" (by decide) hns' h8 (by simp [resetAt, h1', h2', h3', h4', h5', h6', h7', h8]) rfl
    have h8' : isName (nm s.dom node).loc "head" = false := by simpa using h8
    rcases ite_run e2 with ⟨h9, e2⟩ | ⟨h9, e2⟩
    · obtain ⟨rfl, rfl⟩ := pure_ok.mp e2
      exact ret "body" (by decide) hns' h9 (by simp [resetAt, h1', h2', h3', h4', h5', h6', h7', h8', h9]) rfl
    have h9' : isName (nm s.dom node).loc "body" = false := by simpa using h9
    rcases ite_run e2 with ⟨h10, e2⟩ | ⟨h10, e2⟩
    · obtain ⟨rfl, rfl⟩ := pure_ok.mp e2
      exact ret "frameset" (by decide) hns' h10 (by simp [resetAt, h1', h2', h3', h4', h5', h6', h7', h8', h9', h10]) rfl
    have h10' : isName (nm s.dom node).loc "frameset" = false := by simpa using h10
    rcases ite_run e2 with ⟨h11, e2⟩ | ⟨h11, e2⟩
    · cases hh : s.headElem with
      | none =>
        rw [hh] at e2; obtain ⟨rfl, rfl⟩ := pure_ok.mp e2
        have := ret "html" (by decide) hns' h11
          (by simp [resetAt, h1', h2', h3', h4', h5', h6', h7', h8', h9', h10', h11, hh]) rfl
        rw [hh] at this; exact this
      | some hd =>
        rw [hh] at e2; obtain ⟨rfl, rfl⟩ := pure_ok.mp e2
        have := ret "html" (by decide) hns' h11
          (by simp [resetAt, h1', h2', h3', h4', h5', h6', h7', h8', h9', h10', h11, hh]) rfl
        rw [hh] at this; exact this
    have h11' : isName (nm s.dom node).loc "html" = false := by simpa using h11
    exact rec_ e2 (resetKey_false_of hns' h1' h2' h3' h4' h5' h6' h7' h8' h9' h10' h11')


/-! ### the result fits the stack -/

/-- `reset_insertion_mode` in terms of the stack above the root -/
theorem reset_sem {s s' : State} {r : Id} {up : List Id} {ph : Phase} {m : Mode} (hc : Core s r up ph)
    (e : resetInsertionMode s = .ok (m, s')) :
    QS s s' ∧
      ((∃ a x b, up = a ++ x :: b ∧ (∀ y ∈ b, resetKey (nm s.dom y) = false) ∧ resetKey (nm s.dom x) = true ∧
          resetAt s.templateModes s.headElem (nm s.dom x) = some m) ∨
       ((∀ y ∈ up, resetKey (nm s.dom y) = false) ∧ resetAt s.templateModes s.headElem (hN "html") = some m)) := by
  unfold resetInsertionMode at e
  rw [getS_bind] at e
  have hlen : s.openElems.length = s.openElems.reverse.length := by simp
  rw [hlen] at e
  have hrev : s.openElems.reverse = up.reverse ++ [r] := by rw [hc.stack]; simp
  obtain ⟨q, pre, x, post, h1, h2, h3, h4⟩ := resetLoop_sem _ s s' m hc.late.st.ctx
    (by rw [hrev]; simp) (fun z hz => by
      rw [hrev] at hz
      have : z = r := by simpa using hz.symm
      rw [this]; exact hc.root_name) e
  refine ⟨q, ?_⟩
  rw [hrev] at h1
  rcases nil_or_concat post with rfl | ⟨p0, z, rfl⟩
  · -- x is the root
    have h5 : up.reverse ++ [r] = pre ++ [x] := h1
    obtain ⟨h6, h7⟩ := List.append_inj' h5 rfl
    have hx : x = r := by simpa using h7.symm
    subst hx
    right
    refine ⟨fun y hy => h2 y (by rw [← h6]; simpa using hy), ?_⟩
    rw [← hc.root_name]; exact h4
  · have h5 : up.reverse ++ [r] = (pre ++ x :: p0) ++ [z] := by rw [h1]; simp
    obtain ⟨h6, _⟩ := List.append_inj' h5 rfl
    left
    refine ⟨p0.reverse, x, pre.reverse, ?_, fun y hy => h2 y (by simpa using hy), h3, h4⟩
    have := congrArg List.reverse h6
    simpa using this

theorem resetAt_td (tm : List Mode) (head : Option Id) : resetAt tm head (hN "td") = some .inCell := rfl
theorem resetAt_th (tm : List Mode) (head : Option Id) : resetAt tm head (hN "th") = some .inCell := rfl
theorem resetAt_tr (tm : List Mode) (head : Option Id) : resetAt tm head (hN "tr") = some .inRow := rfl
theorem resetAt_tbody (tm : List Mode) (head : Option Id) : resetAt tm head (hN "tbody") = some .inTableBody := rfl
theorem resetAt_thead (tm : List Mode) (head : Option Id) : resetAt tm head (hN "thead") = some .inTableBody := rfl
theorem resetAt_tfoot (tm : List Mode) (head : Option Id) : resetAt tm head (hN "tfoot") = some .inTableBody := rfl
theorem resetAt_caption (tm : List Mode) (head : Option Id) : resetAt tm head (hN "caption") = some .inCaption := rfl
theorem resetAt_colgroup (tm : List Mode) (head : Option Id) :
    resetAt tm head (hN "colgroup") = some .inColumnGroup := rfl
theorem resetAt_table (tm : List Mode) (head : Option Id) : resetAt tm head (hN "table") = some .inTable := rfl
theorem resetAt_template (tm : List Mode) (head : Option Id) : resetAt tm head (hN "template") = tm.getLast? := rfl
theorem resetAt_head (tm : List Mode) (head : Option Id) : resetAt tm head (hN "head") = some .inHead := rfl
theorem resetAt_body (tm : List Mode) (head : Option Id) : resetAt tm head (hN "body") = some .inBody := rfl
theorem resetAt_frameset (tm : List Mode) (head : Option Id) :
    resetAt tm head (hN "frameset") = some .inFrameset := rfl
theorem resetAt_html (tm : List Mode) (h : Id) : resetAt tm (some h) (hN "html") = some .afterHead := rfl

theorem need_of_tmplMode {d : Dom} {m : Mode} {up : List Id} {x : Id} (hm : tmplModeOk m = true) (hx : x ∈ up)
    (hn : nm d x = hN "template") : isBL m = true ∧ Need d m up := by
  unfold tmplModeOk at hm
  simp only [Bool.or_eq_true, beq_iff_eq] at hm
  rcases hm with ((((rfl | rfl) | rfl) | rfl) | rfl) | rfl
  · exact ⟨rfl, x, hx, by rw [hn]; decide⟩
  · exact ⟨rfl, x, hx, by rw [hn]; decide⟩
  · exact ⟨rfl, trivial⟩
  · exact ⟨rfl, x, hx, by rw [hn]; decide⟩
  · exact ⟨rfl, x, hx, by rw [hn]; decide⟩
  · exact ⟨rfl, trivial⟩

/-- in the body phase the mode `reset_insertion_mode` returns is body-like, and what it needs is on
the stack -/
theorem reset_bl {s s' : State} {r : Id} {up : List Id} {ph : Phase} {m : Mode} (hc : Core s r up ph)
    (hbb : BodyBase s.dom s.headElem up ph) (e : resetInsertionMode s = .ok (m, s')) :
    QS s s' ∧ isBL m = true ∧ Need s.dom m up := by
  obtain ⟨q, hsem⟩ := reset_sem hc e
  refine ⟨q, ?_⟩
  -- the bottom of `up` is a key element
  have hbot : ∃ b0 u0, up = b0 :: u0 ∧ resetKey (nm s.dom b0) = true ∧
      (nm s.dom b0 = hN "body" ∨ nm s.dom b0 = hN "template" ∨
        (nm s.dom b0 = hN "head" ∧ ∃ t u1, u0 = t :: u1 ∧ nm s.dom t = hN "template")) := by
    rcases hbb with ⟨b, u, hu, rfl, _⟩ | ⟨hh, t, u, h0, hu, htn, rfl⟩ | ⟨t, u, hu, htn, rfl, _⟩
    · obtain ⟨_, _, _, _, hbn⟩ := hc.elems
      exact ⟨b, u, hu, by rw [hbn]; decide, Or.inl hbn⟩
    · obtain ⟨h', e1, _, e3⟩ := hc.elems
      rw [h0] at e1; cases e1
      exact ⟨hh, t :: u, hu, by rw [e3]; decide, Or.inr (Or.inr ⟨e3, t, u, rfl, htn⟩)⟩
    · exact ⟨t, u, hu, by rw [htn]; decide, Or.inr (Or.inl htn)⟩
  obtain ⟨b0, u0, hu0, hkb, hb0⟩ := hbot
  have hnpf : ¬ ph.isPf := hbb.notPf
  have hbh := hc.bh4 hnpf
  rcases hsem with ⟨a, x, b, hup, hb, hkx, hat⟩ | ⟨hall, _⟩
  · have hxup : x ∈ up := by rw [hup]; simp
    obtain ⟨nmx, hmem, hnx⟩ := htmlIn_eq hkx
    rw [hnx] at hat
    -- x is the bottom element or above it
    have hcase : (a = [] ∧ x = b0) ∨ x ∈ up.tail := by
      cases a with
      | nil => left; rw [hu0] at hup; simp at hup; exact ⟨rfl, hup.1.symm⟩
      | cons a0 a1 => right; rw [hup]; simp
    have nothead : nmx ≠ "head" := by
      rintro rfl
      rcases hcase with ⟨ha, hxb⟩ | htl
      · subst hxb; subst ha
        rcases hb0 with h | h | ⟨_, t, u1, hu1, htn⟩
        · rw [h] at hnx; revert hnx; decide
        · rw [h] at hnx; revert hnx; decide
        · -- the template above the head is a key element
          have : t ∈ b := by
            rw [hu0, hu1] at hup
            simp at hup
            rw [← hup]; simp
          have := hb t this
          rw [htn] at this; revert this; decide
      · have := hbh x htl
        rw [hnx] at this; revert this; decide
    have notbh : ∀ nme : String, nme ∈ ["html", "frameset"] → nmx ≠ nme := by
      intro nme hnme hq
      subst hq
      rcases hcase with ⟨_, hxb⟩ | htl
      · subst hxb
        simp only [List.mem_cons, List.not_mem_nil, or_false] at hnme
        rcases hb0 with h | h | ⟨h, _⟩ <;> rw [h] at hnx <;> rcases hnme with rfl | rfl <;> (revert hnx; decide)
      · have := hbh x htl
        rw [hnx] at this
        simp only [List.mem_cons, List.not_mem_nil, or_false] at hnme
        rcases hnme with rfl | rfl <;> (revert this; decide)
    unfold resetKeyNames at hmem
    simp only [List.mem_cons, List.not_mem_nil, or_false] at hmem
    rcases hmem with rfl | rfl | rfl | rfl | rfl | rfl | rfl | rfl | rfl | rfl | rfl | rfl | rfl | rfl
    · rw [resetAt_td] at hat; cases hat; exact ⟨rfl, x, hxup, by rw [hnx]; decide⟩
    · rw [resetAt_th] at hat; cases hat; exact ⟨rfl, x, hxup, by rw [hnx]; decide⟩
    · rw [resetAt_tr] at hat; cases hat; exact ⟨rfl, x, hxup, by rw [hnx]; decide⟩
    · rw [resetAt_tbody] at hat; cases hat; exact ⟨rfl, x, hxup, by rw [hnx]; decide⟩
    · rw [resetAt_thead] at hat; cases hat; exact ⟨rfl, x, hxup, by rw [hnx]; decide⟩
    · rw [resetAt_tfoot] at hat; cases hat; exact ⟨rfl, x, hxup, by rw [hnx]; decide⟩
    · rw [resetAt_caption] at hat; cases hat; exact ⟨rfl, trivial⟩
    · rw [resetAt_colgroup] at hat; cases hat; exact ⟨rfl, trivial⟩
    · rw [resetAt_table] at hat; cases hat; exact ⟨rfl, x, hxup, by rw [hnx]; decide⟩
    · rw [resetAt_template] at hat
      exact need_of_tmplMode (hc.tmm m (List.mem_of_getLast? hat)) hxup hnx
    · exact absurd rfl nothead
    · rw [resetAt_body] at hat; cases hat; exact ⟨rfl, trivial⟩
    · exact absurd rfl (notbh "frameset" (by simp))
    · exact absurd rfl (notbh "html" (by simp))
  · have := hall b0 (by rw [hu0]; simp)
    rw [hkb] at this; cases this

end H5V.Props.C06
