import H5V.Lemmas.HtmlTBSkelShapeIns2
/-!
C06, second invariant layer, part 20: steps that keep the invariant in every mode (`PS`), the Text mode,
BeforeHead.
-/
namespace H5V.Props.C06
open H5V.Model.Dom hiding Str
open H5V.Model.HtmlTB hiding Str
open H5V.Lemmas.Dom
set_option synthInstance.maxSize 4096

/-- `prog` keeps the core of the invariant, the stack, the names and the mode fields, whatever the mode -/
class PS {α : Type} (prog : M α) : Prop where
  p : ∀ s r up ph a s', Core s r up ph → prog s = .ok (a, s') →
    Core s' r up ph ∧ SameNames s.dom s'.dom up ∧ s'.mode = s.mode ∧ s'.origMode = s.origMode ∧
      s'.headElem = s.headElem

instance (priority := low) {α : Type} (m : M α) [h : IsQ m] : PS m :=
  ⟨fun s r up ph a s' hs e => by
    have q := h.q s a s' e
    exact ⟨hs.qs q, fun y _ => q.nm y, q.mode, by rw [q.rest], by rw [q.rest]⟩⟩
instance {α β : Type} (m : M α) (f : α → M β) [h1 : PS m] [h2 : ∀ a, PS (f a)] : PS (m >>= f) :=
  ⟨fun s r up ph b s'' hs e => by
    obtain ⟨a, s', e1, e2⟩ := bind_ok.mp e
    obtain ⟨a1, a2, a3, a4, a5⟩ := h1.p s r up ph a s' hs e1
    obtain ⟨b1, b2, b3, b4, b5⟩ := (h2 a).p s' r up ph b s'' a1 e2
    exact ⟨b1, fun y hy => by rw [b2 y hy, a2 y hy], b3.trans a3, b4.trans a4, b5.trans a5⟩⟩
instance {α : Type} (a : α) : PS (pure a : M α) :=
  ⟨fun s r up ph b s' hs e => by obtain ⟨_, rfl⟩ := pure_ok.mp e; exact ⟨hs, fun _ _ => rfl, rfl, rfl, rfl⟩⟩
instance {α : Type} (c : Prop) [Decidable c] (a b : M α) [h1 : PS a] [h2 : PS b] : PS (if c then a else b) := by
  by_cases hc : c
  · simp only [hc, if_true]; exact h1
  · simp only [hc, if_false]; exact h2

instance (t : Id) (attrs : List Attr) : PS (sinkUnit (.addAttrsIfMissing t attrs)) :=
  ⟨fun s r up ph a s' hs e => by
    obtain ⟨out, e⟩ := sinkUnit_ok.mp e
    obtain ⟨d, hd, rfl⟩ := sink_ok.mp e
    have hl := hs.late
    have hd' : s.dom.addAttrsIfMissing t attrs = .ok d := by
      have h' : s.dom.applyV Dom.cloneVariant Dom.beforeSiblingVariant (.addAttrsIfMissing t attrs) = .ok (d, out) := hd
      simp only [Dom.applyV, bind, Except.bind] at h'
      cases ha : s.dom.addAttrsIfMissing t attrs with
      | error e => simp [ha] at h'
      | ok d1 => simp [ha] at h'; rw [h'.1]
    obtain ⟨hb', hc', hk⟩ := addAttrsIfMissing_spec hl.base hd'
    exact ⟨hs.transfer (hl.dom hb' hc' (hk 0)).1 hc' (rs_addAttrs hl.base hd') (by rw [hk]; exact hs.rdoc)
      rfl rfl rfl rfl rfl (addAttrs_adj hs.adj hd'), hs.sameNames hc', rfl, rfl, rfl⟩⟩

instance (tag : Tag) : PS (inBodyHtml tag) := by unfold inBodyHtml; infer_instance

theorem PS.shape {α : Type} {prog : M α} (h : PS prog) {s s' : State} {r : Id} {up : List Id} {ph : Phase} {a : α}
    (hs : ShapeAt s r up ph) (e : prog s = .ok (a, s')) : ShapeAt s' r up ph ∧ s'.mode = s.mode := by
  obtain ⟨h1, h2, h3, h4, h5⟩ := h.p s r up ph a s' hs.core e
  exact ⟨⟨h1, hs.fits.transfer h2 h5 h3 h4⟩, h3⟩

/-- `Good` through a `PS` step -/
theorem Good.ps {α : Type} {prog : M α} [h : PS prog] {r : Id} {s s' : State} {a : α} (hg : Good r s)
    (e : prog s = .ok (a, s')) : Good r s' ∧ s'.mode = s.mode := by
  obtain ⟨up, ph, hs, _⟩ := hg
  obtain ⟨h1, h2⟩ := h.shape hs e
  exact ⟨⟨up, ph, h1, fun _ => FPok.triv _ _⟩, h2⟩

theorem Good.mk' {r : Id} {s : State} {up : List Id} {ph : Phase} (h : ShapeAt s r up ph) : Good r s :=
  ⟨up, ph, h, fun _ => FPok.triv _ _⟩


/-! ### the Text mode -/

theorem fitsM_of_fits {s : State} {om : Mode} {up : List Id} {ph : Phase} (h1 : om ≠ .text) (h2 : om ≠ .inTableText)
    (hm : s.mode = om) (h : Fits s.dom s.headElem om up ph) : FitsM s up ph := by
  unfold FitsM
  rw [hm]
  cases om <;> first | exact h | exact absurd rfl h1 | exact absurd rfl h2

theorem isLate_of_fits {d : Dom} {head : Option Id} {om : Mode} {up : List Id} {ph : Phase}
    (h : Fits d head om up ph) : isLate om = true := by
  cases om <;> first | rfl | exact absurd h id

/-- leaving the Text mode: the raw-text element is popped, the original mode is current again -/
theorem text_exit {s s3 : State} {r x : Id} {up0 : List Id} {ph : Phase} {om : Mode}
    (hs : ShapeAt s r (up0 ++ [x]) ph) (hom1 : om ≠ .text) (hom2 : om ≠ .inTableText)
    (hfit : Fits s.dom s.headElem om up0 ph) (p : PR s s3 [x]) :
    ShapeAt { s3 with origMode := none, mode := om } r up0 ph := by
  have hc3 : Core s3 r up0 ph := hs.core.pr p rfl
  have hnm : ∀ y, nm s3.dom y = nm s.dom y := nm_of_nodes p.nodes
  have hhead : s3.headElem = s.headElem := by rw [p.rest]
  refine ⟨hc3.modes (isLate_of_fits hfit) (by intro o ho; cases ho), ?_⟩
  refine fitsM_of_fits hom1 hom2 rfl ?_
  show Fits s3.dom s3.headElem om up0 ph
  rw [hhead]
  exact hfit.congr (fun y _ => hnm y)

theorem modeOk_text : ModeOk .text := by
  intro tok ht r s res s' hg hm e
  obtain ⟨up, ph, hs, _⟩ := hg
  have hf := hs.fits
  unfold FitsM at hf
  rw [hm] at hf
  obtain ⟨om, up0, x, ho, hup, hom1, hom2, hfit, hxn, _⟩ := hf
  subst hup
  have hc := hs.core
  have hlast : s.openElems.getLast? = some x := by
    rw [hc.stack, show r :: (up0 ++ [x]) = (r :: up0) ++ [x] from rfl, List.getLast?_append]; simp
  have hxr : x ≠ r := hc.up_ne_root (by simp)
  have hnf : fosterTarget (nm s.dom x) = false := by
    cases hq : fosterTarget (nm s.dom x) with
    | false => rfl
    | true =>
      obtain ⟨a, ha, heq⟩ := htmlIn_eq hq
      rw [heq] at hxn
      simp only [List.mem_cons, List.not_mem_nil, or_false] at ha
      rcases ha with rfl | rfl | rfl | rfl | rfl <;> (revert hxn; decide)
  have hnt : nm s.dom x ≠ hN "template" := by
    intro h0; rw [h0] at hxn; revert hxn; decide
  have e' : stepText tok s = .ok (res, s') := e
  unfold stepText at e'
  cases tok with
  | chars st text =>
    dsimp only at e'
    obtain ⟨h1, rfl, _⟩ := appendText_shape hs hlast hnf hnt (ht.ne _ _ rfl) (fun h0 => absurd h0 hxr) e'
    exact Good.mk' h1
  | eof =>
    dsimp only at e'
    obtain ⟨_, s1, e1, e2⟩ := bind_ok.mp e'
    have q1 := (qs_unexpected e1).1
    obtain ⟨b, s2, e3, e4⟩ := bind_ok.mp e2
    have q2 : QS s1 s2 := IsQ.q _ _ _ e3
    -- the optional `mark_script_already_started`
    have key : ∀ s3 : State, QS s s3 →
        (pop >>= fun _ => getS >>= fun s => match s.origMode with
          | none => panicAt "unwrap-none" "rules.rs:1023" "orig_mode.take().unwrap()"
          | some m => set { s with origMode := none } >>= fun _ => pure (ProcessResult.reprocess m Token.eof)) s3
          = .ok (res, s') → Out r s' res := by
      intro s3 q3 e5
      obtain ⟨y, s4, e6, e7⟩ := bind_ok.mp e5
      have p4 := pop_sem e6
      have hs3 := hs.qs q3
      have hy : y = x := by
        have := p4.stack
        rw [q3.openElems, hc.stack, show r :: (up0 ++ [x]) = (r :: up0) ++ [x] from rfl] at this
        obtain ⟨_, hz⟩ := List.append_inj' this rfl
        simpa using hz.symm
      subst hy
      rw [getS_bind] at e7
      have ho4 : s4.origMode = some om := by rw [p4.rest, q3.rest]; exact ho
      rw [ho4] at e7
      dsimp only at e7
      obtain ⟨_, s5, e8, e9⟩ := bind_ok.mp e7
      obtain ⟨rfl, rfl⟩ := pure_ok.mp e9
      have hs5 := set_ok.mp e8
      have hfit3 : Fits s3.dom s3.headElem om up0 ph := by
        have : s3.headElem = s.headElem := by rw [q3.rest]
        rw [this]
        exact hfit.congr (fun z _ => q3.nm z)
      have := text_exit hs3 hom1 hom2 hfit3 p4
      refine ⟨?_, inferInstance⟩
      rw [hs5]
      exact Good.mk' this
    rcases ite_run e4 with ⟨_, e4⟩ | ⟨_, e4⟩
    · rw [getS_bind] at e4
      cases hgl : s2.openElems.getLast? with
      | none =>
        rw [hgl] at e4; dsimp only at e4
        obtain ⟨_, _, h1, _⟩ := bind_ok.mp e4
        exact absurd h1 panicAt_ok
      | some c =>
        rw [hgl] at e4; dsimp only at e4
        obtain ⟨cur, s3, e5, e6⟩ := bind_ok.mp e4
        obtain ⟨rfl, rfl⟩ := pure_ok.mp e5
        obtain ⟨_, s4, e7, e8⟩ := bind_ok.mp e6
        have q4 : QS s2 s4 := qs_sinkUnit e7
        exact key s4 ((q1.trans q2).trans q4) e8
    · exact key s2 (q1.trans q2) e4
  | tag tag =>
    dsimp only at e'
    rcases ite_run e' with ⟨_, e'⟩ | ⟨_, e'⟩
    · obtain ⟨y, s4, e6, e7⟩ := bind_ok.mp e'
      have p4 := pop_sem e6
      have hy : y = x := by
        have := p4.stack
        rw [hc.stack, show r :: (up0 ++ [x]) = (r :: up0) ++ [x] from rfl] at this
        obtain ⟨_, hz⟩ := List.append_inj' this rfl
        simpa using hz.symm
      subst hy
      rw [getS_bind] at e7
      have ho4 : s4.origMode = some om := by rw [p4.rest]; exact ho
      rw [ho4] at e7
      dsimp only at e7
      obtain ⟨_, s5, e8, e9⟩ := bind_ok.mp e7
      have hs5 := set_ok.mp e8
      have hgood : Good r s5 := by
        rw [hs5]
        exact Good.mk' (text_exit hs hom1 hom2 hfit p4)
      rcases ite_run e9 with ⟨_, e9⟩ | ⟨_, e9⟩
      · obtain ⟨rfl, rfl⟩ := pure_ok.mp e9; exact hgood
      · obtain ⟨rfl, rfl⟩ := pure_ok.mp e9; exact hgood
    · exact absurd e' panicAt_ok
  | comment c => dsimp only at e'; exact absurd e' panicAt_ok
  | nullChar => dsimp only at e'; exact absurd e' panicAt_ok


/-! ### BeforeHead -/

theorem root_last {s : State} {r : Id} {ph : Phase} (hc : Core s r [] ph) :
    s.openElems.getLast? = some r ∧ fosterTarget (nm s.dom r) = false ∧ nm s.dom r ≠ hN "template" := by
  refine ⟨by rw [hc.stack]; rfl, by rw [hc.root_name]; decide, by rw [hc.root_name]; decide⟩

/-- the `head` element is inserted below the root: from BeforeHead to InHead -/
theorem beforeHead_insertHead {s s1 : State} {r el : Id} {attrs : List Attr} {dup : Bool}
    (hs : ShapeAt s r [] .p0) (e : insertElement true nsHtml "head".toList attrs dup s = .ok (el, s1)) :
    ShapeAt { s1 with headElem := some el, mode := .inHead } r [el] .p1 := by
  have hc := hs.core
  obtain ⟨hl, hnf, hnt⟩ := root_last hc
  obtain ⟨s5, hs1, hres⟩ := insertElement_res hc hl hnf hnt e
  simp only [if_true] at hs1
  obtain ⟨hre, _, hcore⟩ := hc.insRoot hres (by decide) (by decide)
  have he0 : rootElems s.dom r = [] := hc.elems.2
  have he1 : ElemsOk s5.dom (some el) r .p1 := ⟨el, rfl, by rw [hre, he0]; rfl, hres.nmel⟩
  have hcore' := hcore .p1 (some el) (by intro x hx; cases hx; exact ⟨hres.elel, hres.loose⟩)
    he1 (Afx.of_elems he1 (fun h => h))
  have hm := hcore'.modes (m' := .inHead) (om' := s5.origMode) rfl hres.late.ml.orig
  rw [hs1]
  exact ⟨hm, ⟨el, rfl, rfl, rfl⟩⟩

theorem modeOk_beforeHead : ModeOk .beforeHead := by
  intro tok ht r s res s' hg hm e
  obtain ⟨up, ph, hs, _⟩ := id hg
  have hf := hs.fits
  unfold FitsM at hf
  rw [hm] at hf
  obtain ⟨rfl, rfl⟩ : up = [] ∧ ph = .p0 := hf
  have hc := hs.core
  obtain ⟨hl, hnf, hnt⟩ := root_last hc
  have e' : stepBeforeHead tok s = .ok (res, s') := e
  unfold stepBeforeHead at e'
  -- "anything else"
  have anyElse : ∀ (t : Token), TokW t →
      (insertPhantom "head" >>= fun h => (modS fun s => { s with headElem := some h }) >>= fun _ =>
        pure (ProcessResult.reprocess .inHead t)) s = .ok (res, s') → Out r s' res := by
    intro t htw e0
    obtain ⟨el, s1, e1, e2⟩ := bind_ok.mp e0
    obtain ⟨_, s2, e3, e4⟩ := bind_ok.mp e2
    obtain ⟨rfl, rfl⟩ := pure_ok.mp e4
    rw [modS_ok.mp e3]
    unfold insertPhantom at e1
    have := beforeHead_insertHead hs e1
    exact ⟨Good.mk' this, htw⟩
  cases tok with
  | chars st text =>
    cases st with
    | notSplit => dsimp only at e'; obtain ⟨rfl, rfl⟩ := pure_ok.mp e'; exact hg
    | whitespace => dsimp only at e'; obtain ⟨rfl, rfl⟩ := pure_ok.mp e'; exact hg
    | notWhitespace => dsimp only at e'; exact anyElse _ ht e'
  | comment text =>
    dsimp only at e'
    obtain ⟨h1, rfl, _⟩ := appendComment_shape hs hl hnf hnt e'
    exact Good.mk' h1
  | eof => dsimp only at e'; exact anyElse _ ht e'
  | nullChar => dsimp only at e'; exact anyElse _ ht e'
  | tag tag =>
    dsimp only at e'
    rcases ite_run e' with ⟨h1, e'⟩ | ⟨h1, e'⟩
    · rw [stepInBody_html h1] at e'
      rw [done_of_inBodyHtml e']
      exact (hg.ps e').1
    · rcases ite_run e' with ⟨h2, e'⟩ | ⟨h2, e'⟩
      · obtain ⟨a, ha, hn, _⟩ := name_of_isStart h2
        simp only [List.mem_cons, List.not_mem_nil, or_false] at ha
        subst ha
        obtain ⟨el, s1, e1, e2⟩ := bind_ok.mp e'
        obtain ⟨_, s2, e3, e4⟩ := bind_ok.mp e2
        obtain ⟨_, s3, e5, e6⟩ := bind_ok.mp e4
        obtain ⟨rfl, rfl⟩ := pure_ok.mp e6
        unfold setMode at e5
        rw [modS_ok.mp e5, modS_ok.mp e3]
        unfold insertElementFor at e1
        rw [hn] at e1
        have := beforeHead_insertHead hs e1
        exact Good.mk' this
      · rcases ite_run e' with ⟨h3, e'⟩ | ⟨h3, e'⟩
        · exact anyElse _ ht e'
        · rcases ite_run e' with ⟨h4, e'⟩ | ⟨h4, e'⟩
          · obtain ⟨q, rfl⟩ := qs_unexpected e'
            exact hg.qs q
          · exact anyElse _ ht e'

end H5V.Props.C06
