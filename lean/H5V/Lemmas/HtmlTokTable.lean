import H5V.Model.HtmlTok
import H5V.Lemmas.HtmlTokFields
/-!
Facts about the transition tables (`transChar`, `transSet`, `transEof`, `emitCurrentTag`) that hold
for every state and character: which machine fields a transition can touch, and from where the
look-ahead states are entered. Proved by unfolding the table and splitting every arm.
-/
namespace H5V.Model.HtmlTok

/-! ### emit_current_tag -/

/-- the states the sink's answer to a tag token can leave the tokenizer in -/
def sinkState (s0 s : State) : Prop :=
  s = s0 ∨ s = .plaintext ∨ s = .data ∨ ∃ k, s = .rawData k

theorem applySinkRes_state (m : Mach) (r : SinkRes) : sinkState m.state (applySinkRes m r).1.state := by
  unfold applySinkRes sinkState
  cases r <;> simp

macro "sink_fields" : tactic =>
  `(tactic| (unfold applySinkRes; split <;> simp))

@[simp] theorem applySinkRes_tempBuf (m : Mach) (r : SinkRes) : (applySinkRes m r).1.tempBuf = m.tempBuf := by sink_fields
@[simp] theorem applySinkRes_reconsume (m : Mach) (r : SinkRes) : (applySinkRes m r).1.reconsume = m.reconsume := by sink_fields
@[simp] theorem applySinkRes_ignoreLf (m : Mach) (r : SinkRes) : (applySinkRes m r).1.ignoreLf = m.ignoreLf := by sink_fields
@[simp] theorem applySinkRes_atEof (m : Mach) (r : SinkRes) : (applySinkRes m r).1.atEof = m.atEof := by sink_fields
@[simp] theorem applySinkRes_charRef (m : Mach) (r : SinkRes) : (applySinkRes m r).1.charRef = m.charRef := by sink_fields
@[simp] theorem applySinkRes_line (m : Mach) (r : SinkRes) : (applySinkRes m r).1.line = m.line := by sink_fields
@[simp] theorem applySinkRes_currentChar (m : Mach) (r : SinkRes) : (applySinkRes m r).1.currentChar = m.currentChar := by sink_fields
@[simp] theorem applySinkRes_discardBom (m : Mach) (r : SinkRes) : (applySinkRes m r).1.discardBom = m.discardBom := by sink_fields

@[simp] theorem emitCurrentTag_tempBuf (pol : Pol) (m : Mach) : (emitCurrentTag pol m).1.tempBuf = m.tempBuf := by simp [emitCurrentTag]
@[simp] theorem emitCurrentTag_reconsume (pol : Pol) (m : Mach) : (emitCurrentTag pol m).1.reconsume = m.reconsume := by simp [emitCurrentTag]
@[simp] theorem emitCurrentTag_ignoreLf (pol : Pol) (m : Mach) : (emitCurrentTag pol m).1.ignoreLf = m.ignoreLf := by simp [emitCurrentTag]
@[simp] theorem emitCurrentTag_atEof (pol : Pol) (m : Mach) : (emitCurrentTag pol m).1.atEof = m.atEof := by simp [emitCurrentTag]
@[simp] theorem emitCurrentTag_charRef (pol : Pol) (m : Mach) : (emitCurrentTag pol m).1.charRef = m.charRef := by simp [emitCurrentTag]
@[simp] theorem emitCurrentTag_line (pol : Pol) (m : Mach) : (emitCurrentTag pol m).1.line = m.line := by simp [emitCurrentTag]
@[simp] theorem emitCurrentTag_currentChar (pol : Pol) (m : Mach) : (emitCurrentTag pol m).1.currentChar = m.currentChar := by simp [emitCurrentTag]
@[simp] theorem emitCurrentTag_discardBom (pol : Pol) (m : Mach) : (emitCurrentTag pol m).1.discardBom = m.discardBom := by simp [emitCurrentTag]

theorem emitCurrentTag_state (pol : Pol) (m : Mach) : sinkState m.state (emitCurrentTag pol m).1.state := by
  unfold emitCurrentTag
  have := applySinkRes_state (emit (takeTag (tagPrologue m)) (.tag (currentTag (tagPrologue m))))
    (pol.onTag (takeTag (tagPrologue m)).out (currentTag (tagPrologue m)))
  simpa using this

@[simp] theorem emitTag_tempBuf (pol : Pol) (s : State) (m : Mach) : (emitTag pol s m).1.tempBuf = m.tempBuf := by simp [emitTag]
@[simp] theorem emitTag_reconsume (pol : Pol) (s : State) (m : Mach) : (emitTag pol s m).1.reconsume = m.reconsume := by simp [emitTag]
@[simp] theorem emitTag_ignoreLf (pol : Pol) (s : State) (m : Mach) : (emitTag pol s m).1.ignoreLf = m.ignoreLf := by simp [emitTag]
@[simp] theorem emitTag_atEof (pol : Pol) (s : State) (m : Mach) : (emitTag pol s m).1.atEof = m.atEof := by simp [emitTag]
@[simp] theorem emitTag_charRef (pol : Pol) (s : State) (m : Mach) : (emitTag pol s m).1.charRef = m.charRef := by simp [emitTag]
@[simp] theorem emitTag_line (pol : Pol) (s : State) (m : Mach) : (emitTag pol s m).1.line = m.line := by simp [emitTag]
@[simp] theorem emitTag_currentChar (pol : Pol) (s : State) (m : Mach) : (emitTag pol s m).1.currentChar = m.currentChar := by simp [emitTag]
@[simp] theorem emitTag_discardBom (pol : Pol) (s : State) (m : Mach) : (emitTag pol s m).1.discardBom = m.discardBom := by simp [emitTag]

theorem emitTag_state (pol : Pol) (s : State) (m : Mach) : sinkState s (emitTag pol s m).1.state := by
  have := emitCurrentTag_state pol (to s m)
  simpa [emitTag] using this

/-! ### `transChar`: fields only the reader may touch are left alone -/

macro "table_fields" : tactic =>
  `(tactic| (unfold transChar; split <;> (repeat' split) <;> simp))

theorem transChar_ignoreLf (o : Opts) (pol : Pol) (m : Mach) (c : Char) :
    (transChar o pol m c).1.ignoreLf = m.ignoreLf := by table_fields

theorem transChar_atEof (o : Opts) (pol : Pol) (m : Mach) (c : Char) :
    (transChar o pol m c).1.atEof = m.atEof := by table_fields
theorem transChar_charRef (o : Opts) (pol : Pol) (m : Mach) (c : Char) :
    (transChar o pol m c).1.charRef = m.charRef := by table_fields
theorem transChar_line (o : Opts) (pol : Pol) (m : Mach) (c : Char) :
    (transChar o pol m c).1.line = m.line := by table_fields
theorem transChar_currentChar (o : Opts) (pol : Pol) (m : Mach) (c : Char) :
    (transChar o pol m c).1.currentChar = m.currentChar := by table_fields
theorem transChar_discardBom (o : Opts) (pol : Pol) (m : Mach) (c : Char) :
    (transChar o pol m c).1.discardBom = m.discardBom := by table_fields

/-! ### `transSet` -/

macro "ccr_fields" : tactic => `(tactic| (unfold consumeCharRef; split <;> simp))
@[simp] theorem consumeCharRef_state (m : Mach) : (consumeCharRef m).1.state = m.state := by ccr_fields
@[simp] theorem consumeCharRef_tempBuf (m : Mach) : (consumeCharRef m).1.tempBuf = m.tempBuf := by ccr_fields
@[simp] theorem consumeCharRef_reconsume (m : Mach) : (consumeCharRef m).1.reconsume = m.reconsume := by ccr_fields
@[simp] theorem consumeCharRef_ignoreLf (m : Mach) : (consumeCharRef m).1.ignoreLf = m.ignoreLf := by ccr_fields
@[simp] theorem consumeCharRef_atEof (m : Mach) : (consumeCharRef m).1.atEof = m.atEof := by ccr_fields
@[simp] theorem consumeCharRef_line (m : Mach) : (consumeCharRef m).1.line = m.line := by ccr_fields
@[simp] theorem consumeCharRef_currentChar (m : Mach) : (consumeCharRef m).1.currentChar = m.currentChar := by ccr_fields
@[simp] theorem consumeCharRef_discardBom (m : Mach) : (consumeCharRef m).1.discardBom = m.discardBom := by ccr_fields

macro "set_fields" : tactic =>
  `(tactic| (unfold transSet; split <;> (repeat' split) <;> simp))

theorem transSet_ignoreLf (o : Opts) (pol : Pol) (m : Mach) (r : SetRes) :
    (transSet o pol m r).1.ignoreLf = m.ignoreLf := by set_fields
theorem transSet_atEof (o : Opts) (pol : Pol) (m : Mach) (r : SetRes) :
    (transSet o pol m r).1.atEof = m.atEof := by set_fields
theorem transSet_line (o : Opts) (pol : Pol) (m : Mach) (r : SetRes) :
    (transSet o pol m r).1.line = m.line := by set_fields
theorem transSet_currentChar (o : Opts) (pol : Pol) (m : Mach) (r : SetRes) :
    (transSet o pol m r).1.currentChar = m.currentChar := by set_fields
theorem transSet_discardBom (o : Opts) (pol : Pol) (m : Mach) (r : SetRes) :
    (transSet o pol m r).1.discardBom = m.discardBom := by set_fields
theorem transSet_reconsume (o : Opts) (pol : Pol) (m : Mach) (r : SetRes) :
    (transSet o pol m r).1.reconsume = m.reconsume := by set_fields
theorem transSet_tempBuf (o : Opts) (pol : Pol) (m : Mach) (r : SetRes) :
    (transSet o pol m r).1.tempBuf = m.tempBuf := by set_fields

/-! ### where the look-ahead states are entered from -/

theorem sinkState_data_not_eat {s : State} (h : sinkState .data s) :
    s ≠ .markupDeclarationOpen ∧ s ≠ .afterDoctypeName ∧ s ≠ .tagOpen := by
  unfold sinkState at h
  rcases h with h | h | h | ⟨k, h⟩ <;> subst h <;> simp

theorem sinkState_data_not_unq {s : State} (h : sinkState .data s) :
    s ≠ .attributeValue .unquoted := by
  unfold sinkState at h
  rcases h with h | h | h | ⟨k, h⟩ <;> subst h <;> simp

/-- `transSet` never enters a look-ahead (`eat`) state nor `tagOpen` with a changed `reconsume` -/
theorem transSet_not_eat (o : Opts) (pol : Pol) (m : Mach) (r : SetRes)
    (hm : m.state ≠ .markupDeclarationOpen ∧ m.state ≠ .afterDoctypeName) :
    (transSet o pol m r).1.state ≠ .markupDeclarationOpen ∧
    (transSet o pol m r).1.state ≠ .afterDoctypeName := by
  unfold transSet
  split <;> (repeat' split) <;>
    (have h1 := sinkState_data_not_eat (emitTag_state pol .data m)
     simp_all)

/-- `transChar` enters `markupDeclarationOpen` only from `tagOpen` on `!`, never `tagOpen` nor the
unquoted attribute value state, and `afterDoctypeName` only with an empty temporary buffer or by
staying there -/
theorem transChar_enter (o : Opts) (pol : Pol) (m : Mach) (c : Char) :
    ((transChar o pol m c).1.state = .markupDeclarationOpen →
        (m.state = .tagOpen ∧ c = '!' ∧ (transChar o pol m c).1.tempBuf = m.tempBuf ∧
          (transChar o pol m c).1.reconsume = m.reconsume) ∨ (transChar o pol m c).1 = m) ∧
    ((transChar o pol m c).1.state = .afterDoctypeName →
        ((transChar o pol m c).1.reconsume = m.reconsume ∧
          ((transChar o pol m c).1.tempBuf = [] ∨
           (m.state = .afterDoctypeName ∧ (transChar o pol m c).1.tempBuf = m.tempBuf))) ∨
        (transChar o pol m c).1 = m) ∧
    ((transChar o pol m c).1.state = .tagOpen → (transChar o pol m c).1 = m) ∧
    ((transChar o pol m c).1.state = .attributeValue .unquoted → (transChar o pol m c).1 = m) := by
  unfold transChar
  split <;> (repeat' split) <;>
    (have h1 := sinkState_data_not_eat (emitTag_state pol .data m)
     have h2 := sinkState_data_not_eat (emitTag_state pol .data (clearTemp m))
     have h3 := sinkState_data_not_eat (emitTag_state pol .data { m with tagSelfClosing := true })
     have h1' := sinkState_data_not_unq (emitTag_state pol .data m)
     have h2' := sinkState_data_not_unq (emitTag_state pol .data (clearTemp m))
     have h3' := sinkState_data_not_unq (emitTag_state pol .data { m with tagSelfClosing := true })
     simp_all)

/-- `transSet` stays in / enters the unquoted attribute value state only from itself, and then
not on whitespace -/
theorem transSet_unq (o : Opts) (pol : Pol) (m : Mach) (r : SetRes)
    (h : (transSet o pol m r).1.state = .attributeValue .unquoted) :
    m.state = .attributeValue .unquoted ∧ ∀ c, r = .fromSet c → isWs c = false := by
  unfold transSet at h
  split at h <;> (repeat' split at h) <;>
    (have h1' := sinkState_data_not_unq (emitTag_state pol .data m)
     simp_all)

/-! ### `FromSet(c)` vs `NotFromSet([c])` for a character outside the set -/

theorem emitChar_setCurrentChar (m : Mach) (a c : Char) :
    emitChar (m.setCurrentChar a) c = (emitChar m c).setCurrentChar a := by
  unfold emitChar; split <;> rfl

/-- "`FromSet` can contain characters not in the set ... the fallback `FromSet` case should
always do the same thing as the `NotFromSet` case" — it does, in every state read with
`pop_except_from`, except that the unquoted-attribute state reports five characters as errors
only on the slow path (excluded here; that state is never entered with `ignore_lf` set).
The stale `current_char` is carried along untouched. -/
theorem transSet_dead (o : Opts) (pol : Pol) (m : Mach) (a x : Char)
    (hk : readKind m.state = .popExcept ∨ readKind m.state = .dataSimd)
    (hx : (setOf m.state).contains x = false)
    (hu : m.state ≠ .attributeValue .unquoted) :
    transSet o pol (m.setCurrentChar a) (.fromSet x) =
      ((transSet o pol m (.notFromSet [x])).1.setCurrentChar a,
       (transSet o pol m (.notFromSet [x])).2) := by
  cases hs : m.state with
  | data => simp [transSet, hs, setOf] at hx ⊢; simp [hx, emitChar_setCurrentChar, emitChars, emitChar]; rfl
  | plaintext => simp [transSet, hs, setOf] at hx ⊢; simp [hx, emitChar_setCurrentChar, emitChars, emitChar]; rfl
  | rawData k =>
    cases k with
    | scriptDataEscaped e =>
      cases e <;> (simp [transSet, hs, setOf] at hx ⊢; simp [hx, emitChar_setCurrentChar, emitChars, emitChar]; rfl)
    | _ => simp [transSet, hs, setOf] at hx ⊢; simp [hx, emitChar_setCurrentChar, emitChars, emitChar]; rfl
  | attributeValue k =>
    cases k with
    | unquoted => exact absurd hs hu
    | _ => simp [transSet, hs, setOf] at hx ⊢; simp [hx, pushValue, appendValue]; rfl
  | _ => simp [hs, readKind] at hk

/-- a `NotFromSet` run never changes the state nor starts a character reference, and the handler
does not look at `current_char` -/
theorem transSet_notFromSet (o : Opts) (pol : Pol) (m : Mach) (b : Str) :
    (transSet o pol m (.notFromSet b)).1.state = m.state ∧
    (transSet o pol m (.notFromSet b)).1.charRef = m.charRef ∧
    ∀ a, transSet o pol (m.setCurrentChar a) (.notFromSet b) =
      ((transSet o pol m (.notFromSet b)).1.setCurrentChar a, (transSet o pol m (.notFromSet b)).2) := by
  unfold transSet
  split <;> simp_all [emitChars, appendValue] <;> (try (intro a; rfl))

/-- every `pop_except_from` set contains CR and LF (so a run never contains a line break) -/
theorem setOf_crlf (s : State) (hk : readKind s = .popExcept ∨ readKind s = .dataSimd) :
    (setOf s).contains '\r' = true ∧ (setOf s).contains '\n' = true := by
  cases s with
  | data => decide
  | plaintext => decide
  | rawData k => cases k with
    | scriptDataEscaped e => cases e <;> decide
    | _ => decide
  | attributeValue k => cases k <;> decide
  | _ => simp [readKind] at hk

end H5V.Model.HtmlTok
