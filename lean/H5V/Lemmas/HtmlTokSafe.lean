import H5V.Lemmas.HtmlTokRuns
import H5V.Props.C14
/-!
No-panic invariant of the tokenizer model: every `assert!`/`unwrap`/`expect`/`panic!` site of
`tokenizer/mod.rs` and `char_ref/mod.rs` that the model represents as `.panic` is unreachable.
-/
namespace H5V.Model.HtmlTok
open H5V.Props.C14

/-- the sub-tokenizer's registers are consistent -/
structure CRSafe (cr : CharRefSt) : Prop where
  named : (cr.state = .named ∨ cr.state = .bogusName) → cr.nameBuf ≠ none
  matched : ∀ c1 c2, cr.nameMatch = some (c1, c2) →
    ∃ nb, cr.nameBuf = some nb ∧ 0 < cr.nameLen ∧ cr.nameLen ≤ nb.length ∧
      isValidScalar c1 = true ∧ isValidScalar c2 = true

/-- a character reference is only ever in progress in a state that can take its result -/
def crStateOk (s : State) : Prop :=
  s = .data ∨ s = .rawData .rcdata ∨ ∃ k, s = .attributeValue k

structure Safe (m : Mach) : Prop where
  crState : ∀ cr, m.charRef = some cr → crStateOk m.state
  crRegs : ∀ cr, m.charRef = some cr → CRSafe cr

theorem numericValue_ok (cr : CharRefSt) : ∃ c, (numericValue cr).1 = .ok c := by
  unfold numericValue
  dsimp only
  split
  · exact ⟨_, rfl⟩
  · rename_i h1
    split
    · exact ⟨_, rfl⟩
    · rename_i h2
      have hle : cr.num ≤ 0x10FFFF := by
        simp only [Bool.or_eq_true, decide_eq_true_eq, not_or] at h1; omega
      have hvalid : isValidScalar cr.num = true := by
        simp only [Bool.or_eq_true, decide_eq_true_eq, Bool.and_eq_true, not_or, not_and] at h2
        unfold isValidScalar; simp; omega
      split
      · rename_i h3
        have hi : cr.num - 0x80 ∈ List.range 32 := by
          simp only [Bool.and_eq_true, decide_eq_true_eq] at h3; simp; omega
        have hv := c1_entries_valid (cr.num - 0x80) hi
        split
        · rename_i r heq; simp [heq] at hv; simp [hv]
        · simp [hvalid]
        · rename_i heq; simp [heq] at hv
      · split
        · simp [hvalid]
        · split <;> simp [hvalid]

theorem finishNumericStatus_ok (o : Opts) (m : Mach) (inp : Str) (cr : CharRefSt) :
    ∃ m1 c, finishNumericStatus o m inp cr = .ok (m1, inp, cr, .done [c]) := by
  obtain ⟨c, hc⟩ := numericValue_ok cr
  unfold finishNumericStatus finishNumeric
  simp only [hc]
  exact ⟨_, c, rfl⟩

theorem bucket_letter (c : Nat) (r : Gen.Entities.Row) (hr : r ∈ Gen.Entities.bucket c) :
    c ∈ Gen.Entities.firstLetters := by
  by_cases h : c ∈ Gen.Entities.firstLetters
  · exact h
  · exfalso
    have hb : Gen.Entities.bucket c = [] := by
      simp only [Gen.Entities.firstLetters, List.mem_cons, List.not_mem_nil, or_false, not_or] at h
      unfold Gen.Entities.bucket
      simp [h]
    rw [hb] at hr
    exact absurd hr List.not_mem_nil

/-- a full match found by the walk carries Unicode scalar values -/
theorem entityLookup_valid (nb : Str) (mt : Nat × Nat) (h : entityLookup nb = some mt) (h0 : mt.1 ≠ 0) :
    isValidScalar mt.1 = true ∧ isValidScalar mt.2 = true := by
  unfold entityLookup entityLookupN at h
  cases hk : nb.map Char.toNat with
  | nil => rw [hk] at h; simp at h; rw [← h] at h0; simp at h0
  | cons c rest =>
    rw [hk] at h
    simp only at h
    split at h
    · rename_i r hfind
      simp only [Option.some.injEq] at h
      have hmem := List.mem_of_find?_eq_some hfind
      have hc := bucket_letter c r hmem
      have := C14_rows_wellformed c hc r hmem
      rw [← h]
      exact ⟨this.2.2.1, this.2.2.2⟩
    · split at h
      · simp only [Option.some.injEq] at h; rw [← h] at h0; simp at h0
      · simp at h

theorem namedDecision_ok (m : Mach) (cr : CharRefSt) (nb : Str) (c1 c2 : Nat)
    (h1 : 0 < cr.nameLen) (h2 : cr.nameLen ≤ nb.length)
    (hv : isValidScalar c1 = true ∧ isValidScalar c2 = true) :
    ∃ r, namedDecision m cr nb c1 c2 = .ok r := by
  unfold namedDecision
  dsimp only
  have hne : cr.nameLen ≠ 0 := by omega
  simp only [hne, ↓reduceIte]
  have hidx : cr.nameLen - 1 < nb.length := by omega
  rw [List.getElem?_eq_getElem hidx]
  dsimp only
  split
  · exact ⟨_, rfl⟩
  · simp [hv.1, hv.2]

theorem finishNamed_ok (o : Opts) (m : Mach) (inp : Str) (cr : CharRefSt) (ec : Option Char)
    (hs : CRSafe cr) (hnb : cr.nameBuf ≠ none) :
    ∃ r, finishNamed o m inp cr ec = .ok r := by
  unfold finishNamed
  cases hb : cr.nameBuf with
  | none => exact absurd hb hnb
  | some nb =>
    dsimp only
    cases hm : cr.nameMatch with
    | none =>
      dsimp only
      split
      · exact ⟨_, rfl⟩
      · exact ⟨_, rfl⟩
    | some mt =>
      obtain ⟨c1, c2⟩ := mt
      obtain ⟨nb', hnb', h1, h2, hv1, hv2⟩ := hs.matched c1 c2 hm
      rw [hb] at hnb'
      simp only [Option.some.injEq] at hnb'
      subst hnb'
      obtain ⟨r, hr⟩ := namedDecision_ok m cr nb c1 c2 h1 h2 ⟨hv1, hv2⟩
      dsimp only
      rw [hr]
      cases r with
      | none => exact ⟨_, rfl⟩
      | some v => obtain ⟨a, b⟩ := v; exact ⟨_, rfl⟩

/-- a char-ref step from consistent registers never panics, and leaves consistent registers
unless it finishes the reference -/
theorem crStep_safe (o : Opts) (m : Mach) (inp : Str) (cr : CharRefSt) (hs : CRSafe cr) :
    ∃ m1 i1 cr1 st, crStep o m inp cr = .ok (m1, i1, cr1, st) ∧ ((∀ chars, st ≠ .done chars) → CRSafe cr1) := by
  unfold crStep
  cases hpk : peek m inp with
  | none => exact ⟨_, _, _, _, rfl, fun _ => hs⟩
  | some c =>
    dsimp only
    cases hst : cr.state with
    | begin =>
      dsimp only
      split
      · refine ⟨_, _, _, _, rfl, fun _ => ⟨fun _ => by simp, fun c1 c2 hm => ?_⟩⟩
        simp only at hm
        obtain ⟨nb, hnb, _⟩ := hs.matched c1 c2 hm
        exact absurd hnb (by
          intro h; have := hs.matched c1 c2 hm; simp_all)
      · split
        · exact ⟨_, _, _, _, rfl, fun _ => ⟨fun h => by simp at h, fun c1 c2 hm => hs.matched c1 c2 hm⟩⟩
        · exact ⟨_, _, _, _, rfl, fun h => absurd rfl (h [])⟩
    | octothorpe =>
      dsimp only
      split
      · exact ⟨_, _, _, _, rfl, fun _ => ⟨fun h => by simp at h, fun c1 c2 hm => hs.matched c1 c2 hm⟩⟩
      · exact ⟨_, _, _, _, rfl, fun _ => ⟨fun h => by simp at h, fun c1 c2 hm => hs.matched c1 c2 hm⟩⟩
    | numeric base =>
      dsimp only
      split
      · exact ⟨_, _, _, _, rfl, fun _ => ⟨fun h => by simp [hst] at h, fun c1 c2 hm => hs.matched c1 c2 hm⟩⟩
      · split
        · exact ⟨_, _, _, _, rfl, fun h => absurd rfl (h [])⟩
        · exact ⟨_, _, _, _, rfl, fun _ => ⟨fun h => by simp at h, fun c1 c2 hm => hs.matched c1 c2 hm⟩⟩
    | numericSemicolon =>
      dsimp only
      split
      · obtain ⟨m1, c', h'⟩ := finishNumericStatus_ok o (discardChar m inp).1 (discardChar m inp).2 cr
        exact ⟨_, _, _, _, h', fun h => absurd rfl (h [c'])⟩
      · obtain ⟨m1, c', h'⟩ := finishNumericStatus_ok o
          (emitErr m "Semicolon missing after numeric character reference") inp cr
        exact ⟨_, _, _, _, h', fun h => absurd rfl (h [c'])⟩
    | named =>
      dsimp only
      cases hb : cr.nameBuf with
      | none => exact absurd hb (hs.named (Or.inl hst))
      | some nb =>
        dsimp only
        cases hl : entityLookup (nb ++ [c]) with
        | none =>
          dsimp only
          have hs' : CRSafe { cr with nameBuf := some (nb ++ [c]) } :=
            ⟨fun _ => by simp, fun c1 c2 hm => by
              obtain ⟨nb', hnb', h1, h2, hv⟩ := hs.matched c1 c2 hm
              rw [hb] at hnb'; simp only [Option.some.injEq] at hnb'; subst hnb'
              exact ⟨nb ++ [c], rfl, h1, by simp; omega, hv⟩⟩
          obtain ⟨r, hr⟩ := finishNamed_ok o (discardChar m inp).1 (discardChar m inp).2 _ (some c) hs' (by simp)
          obtain ⟨m1, i1, cr1, st⟩ := r
          refine ⟨m1, i1, cr1, st, hr, fun hnd => ?_⟩
          -- finish_named answers Progress only when it switches to bogusName, keeping the buffer
          unfold finishNamed at hr
          simp only at hr
          split at hr
          · dsimp only at hr
            split at hr
            · simp only [Except.ok.injEq, Prod.mk.injEq] at hr
              obtain ⟨_, _, h3, _⟩ := hr
              subst h3
              exact ⟨fun _ => by simp, fun c1 c2 hm => by simp_all⟩
            · simp only [Except.ok.injEq, Prod.mk.injEq] at hr
              exact absurd hr.2.2.2.symm (hnd [])
          · split at hr
            · simp at hr
            · simp only [Except.ok.injEq, Prod.mk.injEq] at hr
              exact absurd hr.2.2.2.symm (hnd [])
            · simp only [Except.ok.injEq, Prod.mk.injEq] at hr
              exact absurd hr.2.2.2.symm (hnd _)
        | some mt =>
          dsimp only
          split
          · rename_i h0
            have hv := entityLookup_valid (nb ++ [c]) mt hl h0
            refine ⟨_, _, _, _, rfl, fun _ => ⟨fun _ => by simp, fun c1 c2 hm => ?_⟩⟩
            simp only [Option.some.injEq] at hm
            subst hm
            exact ⟨nb ++ [c], rfl, by simp, by simp, hv⟩
          · refine ⟨_, _, _, _, rfl, fun _ => ⟨fun _ => by simp, fun c1 c2 hm => ?_⟩⟩
            obtain ⟨nb', hnb', h1, h2, hv⟩ := hs.matched c1 c2 hm
            rw [hb] at hnb'; simp only [Option.some.injEq] at hnb'; subst hnb'
            exact ⟨nb ++ [c], rfl, h1, by simp; omega, hv⟩
    | bogusName =>
      dsimp only
      cases hb : cr.nameBuf with
      | none => exact absurd hb (hs.named (Or.inr hst))
      | some nb =>
        dsimp only
        split
        · refine ⟨_, _, _, _, rfl, fun _ => ⟨fun _ => by simp, fun c1 c2 hm => ?_⟩⟩
          obtain ⟨nb', hnb', h1, h2, hv⟩ := hs.matched c1 c2 hm
          rw [hb] at hnb'; simp only [Option.some.injEq] at hnb'; subst hnb'
          exact ⟨nb ++ [c], rfl, h1, by simp; omega, hv⟩
        · exact ⟨_, _, _, _, rfl, fun h => absurd rfl (h [])⟩

end H5V.Model.HtmlTok
