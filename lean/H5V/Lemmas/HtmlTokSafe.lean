import H5V.Lemmas.HtmlTokRuns
import H5V.Props.C14
/-!
No-panic invariant of the tokenizer model: every `assert!`/`unwrap`/`expect`/`panic!` site of
`tokenizer/mod.rs` and `char_ref/mod.rs` that the model represents as `.panic` is unreachable.
-/
namespace H5V.Model.HtmlTok
open H5V.Props.C14

/-- the sub-tokenizer's registers are consistent -/
structure CRSafe (cr : CharRefSt) : Prop where
  named : (cr.state = .named ∨ cr.state = .bogusName) → cr.nameBuf ≠ none
  matchState : cr.nameMatch ≠ none → cr.state = .named
  matched : ∀ c1 c2, cr.nameMatch = some (c1, c2) →
    ∃ nb, cr.nameBuf = some nb ∧ 0 < cr.nameLen ∧ cr.nameLen ≤ nb.length ∧
      isValidScalar c1 = true ∧ isValidScalar c2 = true

/-- a character reference is only ever in progress in a state that can take its result -/
def crStateOk (s : State) : Prop :=
  s = .data ∨ s = .rawData .rcdata ∨ ∃ k, s = .attributeValue k

structure Safe (m : Mach) : Prop where
  crState : ∀ cr, m.charRef = some cr → crStateOk m.state
  crRegs : ∀ cr, m.charRef = some cr → CRSafe cr

theorem numericValue_ok (cr : CharRefSt) : ∃ c, (numericValue cr).1 = .ok c := by
  unfold numericValue
  dsimp only
  split
  · exact ⟨_, rfl⟩
  · rename_i h1
    split
    · exact ⟨_, rfl⟩
    · rename_i h2
      have hle : cr.num ≤ 0x10FFFF := by
        simp only [Bool.or_eq_true, decide_eq_true_eq, not_or] at h1; omega
      have hvalid : isValidScalar cr.num = true := by
        simp only [Bool.or_eq_true, decide_eq_true_eq, Bool.and_eq_true, not_or, not_and] at h2
        unfold isValidScalar; simp; omega
      split
      · rename_i h3
        have hi : cr.num - 0x80 ∈ List.range 32 := by
          simp only [Bool.and_eq_true, decide_eq_true_eq] at h3; simp; omega
        have hv := c1_entries_valid (cr.num - 0x80) hi
        split
        · rename_i r heq; simp [heq] at hv; simp [hv]
        · simp [hvalid]
        · rename_i heq; simp [heq] at hv
      · split
        · simp [hvalid]
        · split <;> simp [hvalid]

theorem finishNumericStatus_ok (o : Opts) (m : Mach) (inp : Str) (cr : CharRefSt) :
    ∃ m1 c, finishNumericStatus o m inp cr = .ok (m1, inp, cr, .done [c]) := by
  obtain ⟨c, hc⟩ := numericValue_ok cr
  unfold finishNumericStatus finishNumeric
  simp only [hc]
  exact ⟨_, c, rfl⟩

theorem bucket_letter (c : Nat) (r : Gen.Entities.Row) (hr : r ∈ Gen.Entities.bucket c) :
    c ∈ Gen.Entities.firstLetters := by
  by_cases h : c ∈ Gen.Entities.firstLetters
  · exact h
  · exfalso
    have hb : Gen.Entities.bucket c = [] := by
      simp only [Gen.Entities.firstLetters, List.mem_cons, List.not_mem_nil, or_false, not_or] at h
      unfold Gen.Entities.bucket
      simp [h]
    rw [hb] at hr
    exact absurd hr List.not_mem_nil

/-- a full match found by the walk carries Unicode scalar values -/
theorem entityLookup_valid (nb : Str) (mt : Nat × Nat) (h : entityLookup nb = some mt) (h0 : mt.1 ≠ 0) :
    isValidScalar mt.1 = true ∧ isValidScalar mt.2 = true := by
  unfold entityLookup entityLookupN at h
  cases hk : nb.map Char.toNat with
  | nil => rw [hk] at h; simp at h; rw [← h] at h0; simp at h0
  | cons c rest =>
    rw [hk] at h
    simp only at h
    split at h
    · rename_i r hfind
      simp only [Option.some.injEq] at h
      have hmem := List.mem_of_find?_eq_some hfind
      have hc := bucket_letter c r hmem
      have := C14_rows_wellformed c hc r hmem
      rw [← h]
      exact ⟨this.2.2.1, this.2.2.2⟩
    · split at h
      · simp only [Option.some.injEq] at h; rw [← h] at h0; simp at h0
      · simp at h

theorem namedDecision_ok (m : Mach) (cr : CharRefSt) (nb : Str) (c1 c2 : Nat)
    (h1 : 0 < cr.nameLen) (h2 : cr.nameLen ≤ nb.length)
    (hv : isValidScalar c1 = true ∧ isValidScalar c2 = true) :
    ∃ r, namedDecision m cr nb c1 c2 = .ok r := by
  unfold namedDecision
  dsimp only
  have hne : cr.nameLen ≠ 0 := by omega
  simp only [hne, ↓reduceIte]
  have hidx : cr.nameLen - 1 < nb.length := by omega
  rw [List.getElem?_eq_getElem hidx]
  simp only [hv.1, hv.2, Bool.and_self, Bool.not_true, Bool.false_eq_true, ↓reduceIte]
  (repeat' split) <;> exact ⟨_, rfl⟩

theorem finishNamed_ok (o : Opts) (m : Mach) (inp : Str) (cr : CharRefSt) (ec : Option Char)
    (hs : CRSafe cr) (hnb : cr.nameBuf ≠ none) :
    ∃ r, finishNamed o m inp cr ec = .ok r := by
  unfold finishNamed
  cases hb : cr.nameBuf with
  | none => exact absurd hb hnb
  | some nb =>
    dsimp only
    cases hm : cr.nameMatch with
    | none =>
      dsimp only
      (repeat' split) <;> exact ⟨_, rfl⟩
    | some mt =>
      obtain ⟨c1, c2⟩ := mt
      obtain ⟨nb', hnb', h1, h2, hv1, hv2⟩ := hs.matched c1 c2 hm
      rw [hb] at hnb'
      simp only [Option.some.injEq] at hnb'
      subst hnb'
      obtain ⟨r, hr⟩ := namedDecision_ok m cr nb c1 c2 h1 h2 ⟨hv1, hv2⟩
      dsimp only
      rw [hr]
      cases r with
      | none => exact ⟨_, rfl⟩
      | some v => obtain ⟨a, b⟩ := v; exact ⟨_, rfl⟩

/-- `finish_named` either finishes the reference, or (no match yet, alphanumeric end character)
switches to the bogus-name state keeping every register else -/
theorem finishNamed_progress (o : Opts) (m : Mach) (inp : Str) (cr : CharRefSt) (ec : Option Char)
    (m1 : Mach) (i1 : Str) (cr1 : CharRefSt) (st : CRStatus)
    (h : finishNamed o m inp cr ec = .ok (m1, i1, cr1, st)) :
    (∃ chars, st = .done chars) ∨ (cr1 = { cr with state := .bogusName } ∧ cr.nameMatch = none) := by
  unfold finishNamed at h
  repeat' split at h
  all_goals
    first
      | (simp at h; done)
      | (simp only [Except.ok.injEq, Prod.mk.injEq] at h
         obtain ⟨_, _, h3, h4⟩ := h
         first
           | exact Or.inl ⟨_, h4.symm⟩
           | (right; exact ⟨h3.symm, by assumption⟩))
      | (dsimp only at h
         split at h
         · simp only [Except.ok.injEq, Prod.mk.injEq] at h
           obtain ⟨_, _, h3, h4⟩ := h
           right; exact ⟨h3.symm, by assumption⟩
         · simp only [Except.ok.injEq, Prod.mk.injEq] at h
           exact Or.inl ⟨_, h.2.2.2.symm⟩)

theorem CRSafe.with_nameBuf {cr : CharRefSt} (hs : CRSafe cr) (nb : Str) (c : Char)
    (hb : cr.nameBuf = some nb) : CRSafe { cr with nameBuf := some (nb ++ [c]) } where
  named := fun _ => by simp
  matchState := fun h => hs.matchState h
  matched := fun c1 c2 hm => by
    obtain ⟨nb', hnb', h1, h2, hv⟩ := hs.matched c1 c2 hm
    rw [hb] at hnb'; simp only [Option.some.injEq] at hnb'; subst hnb'
    exact ⟨nb ++ [c], rfl, h1, by simp; omega, hv⟩

/-- a char-ref step from consistent registers never panics, and leaves consistent registers
unless it finishes the reference -/
theorem crStep_safe (o : Opts) (m : Mach) (inp : Str) (cr : CharRefSt) (hs : CRSafe cr) :
    ∃ m1 i1 cr1 st, crStep o m inp cr = .ok (m1, i1, cr1, st) ∧ ((∀ chars, st ≠ .done chars) → CRSafe cr1) := by
  have hnomatch : cr.state ≠ .named → cr.nameMatch = none := by
    intro hne
    cases hm : cr.nameMatch with
    | none => rfl
    | some v => exact absurd (hs.matchState (by simp [hm])) hne
  unfold crStep
  cases hpk : peek m inp with
  | none => exact ⟨_, _, _, _, rfl, fun _ => hs⟩
  | some c =>
    dsimp only
    split
    · -- begin
      rename_i hst
      have hnm := hnomatch (by rw [hst]; simp)
      split
      · exact ⟨_, _, _, _, rfl, fun _ => ⟨fun _ => by simp, fun h => by simp [hnm] at h,
          fun c1 c2 hm => by simp [hnm] at hm⟩⟩
      · split
        · exact ⟨_, _, _, _, rfl, fun _ => ⟨fun h => by simp at h, fun h => by simp [hnm] at h,
            fun c1 c2 hm => by simp [hnm] at hm⟩⟩
        · exact ⟨_, _, _, _, rfl, fun h => absurd rfl (h [])⟩
    · -- octothorpe
      rename_i hst
      have hnm := hnomatch (by rw [hst]; simp)
      split <;>
        exact ⟨_, _, _, _, rfl, fun _ => ⟨fun h => by simp at h, fun h => by simp [hnm] at h,
          fun c1 c2 hm => by simp [hnm] at hm⟩⟩
    · -- numeric
      rename_i base hst
      have hnm := hnomatch (by rw [hst]; simp)
      split
      · exact ⟨_, _, _, _, rfl, fun _ => ⟨fun h => by simp [hst] at h, fun h => by simp [hnm] at h,
          fun c1 c2 hm => by simp [hnm] at hm⟩⟩
      · split
        · exact ⟨_, _, _, _, rfl, fun h => absurd rfl (h [])⟩
        · exact ⟨_, _, _, _, rfl, fun _ => ⟨fun h => by simp at h, fun h => by simp [hnm] at h,
            fun c1 c2 hm => by simp [hnm] at hm⟩⟩
    · -- numericSemicolon
      split
      · obtain ⟨m1, c', h'⟩ := finishNumericStatus_ok o (discardChar m inp).1 (discardChar m inp).2 cr
        exact ⟨_, _, _, _, h', fun h => absurd rfl (h [c'])⟩
      · obtain ⟨m1, c', h'⟩ := finishNumericStatus_ok o
          (emitErr m "Semicolon missing after numeric character reference") inp cr
        exact ⟨_, _, _, _, h', fun h => absurd rfl (h [c'])⟩
    · -- named
      rename_i hst
      cases hb : cr.nameBuf with
      | none => exact absurd hb (hs.named (Or.inl hst))
      | some nb =>
        dsimp only
        have hs' := hs.with_nameBuf nb c hb
        cases hl : entityLookup (nb ++ [c]) with
        | none =>
          dsimp only
          obtain ⟨r, hr⟩ := finishNamed_ok o (discardChar m inp).1 (discardChar m inp).2 _ (some c) hs' (by simp)
          obtain ⟨m1, i1, cr1, st⟩ := r
          refine ⟨m1, i1, cr1, st, hr, fun hnd => ?_⟩
          rcases finishNamed_progress o _ _ _ _ m1 i1 cr1 st hr with ⟨chars, hd⟩ | ⟨hcr1, hnm⟩
          · exact absurd hd (hnd chars)
          · subst hcr1
            exact ⟨fun _ => by simp, fun h => by simp at hnm; simp [hnm] at h,
              fun c1 c2 hm => by simp at hnm hm; simp [hnm] at hm⟩
        | some mt =>
          dsimp only
          split
          · rename_i h0
            have hv := entityLookup_valid (nb ++ [c]) mt hl h0
            refine ⟨_, _, _, _, rfl, fun _ => ⟨fun _ => by simp, fun _ => by simpa using hst, fun c1 c2 hm => ?_⟩⟩
            simp only [Option.some.injEq] at hm
            subst hm
            exact ⟨nb ++ [c], rfl, by simp, by simp, hv⟩
          · exact ⟨_, _, _, _, rfl, fun _ => hs'⟩
    · -- bogusName
      rename_i hst
      cases hb : cr.nameBuf with
      | none => exact absurd hb (hs.named (Or.inr hst))
      | some nb =>
        dsimp only
        split
        · exact ⟨_, _, _, _, rfl, fun _ => hs.with_nameBuf nb c hb⟩
        · exact ⟨_, _, _, _, rfl, fun h => absurd rfl (h [])⟩

/-! ### the tables never panic when called from `step` -/

theorem applySinkRes_no_panic (m : Mach) (r : SinkRes) (e : String) : (applySinkRes m r).2 ≠ .panic e := by
  unfold applySinkRes; cases r <;> simp

theorem emitTag_no_panic (pol : Pol) (s : State) (m : Mach) (e : String) : (emitTag pol s m).2 ≠ .panic e := by
  unfold emitTag emitCurrentTag; exact applySinkRes_no_panic _ _ e

theorem transChar_no_panic (o : Opts) (pol : Pol) (m : Mach) (c : Char) (e : String)
    (hk : readKind m.state = .getChar ∨ m.state = .afterDoctypeName) :
    (transChar o pol m c).2 ≠ .panic e := by
  unfold transChar
  split <;> (repeat' split) <;>
    (have h1 := emitTag_no_panic pol .data m e
     have h2 := emitTag_no_panic pol .data (clearTemp m) e
     have h3 := emitTag_no_panic pol .data { m with tagSelfClosing := true } e
     simp_all [readKind])

theorem consumeCharRef_ok (m : Mach) (h : m.charRef = none) :
    consumeCharRef m = (m.setCharRef (some { inAttr := isAttrValueState m.state }), .cont) := by
  unfold consumeCharRef; simp [h, Mach.setCharRef]

/-- `transSet` either leaves `char_ref_tokenizer` alone or starts a fresh one, in a state that can
take its result and without changing the state; it never panics from a `pop_except_from` state -/
theorem transSet_charRef (o : Opts) (pol : Pol) (m : Mach) (r : SetRes) (hcr : m.charRef = none)
    (hk : readKind m.state = .popExcept ∨ readKind m.state = .dataSimd) :
    (∀ e, (transSet o pol m r).2 ≠ .panic e) ∧
    ((transSet o pol m r).1.charRef = none ∨
      ((transSet o pol m r).1.charRef = some { inAttr := isAttrValueState m.state } ∧
        crStateOk m.state ∧ (transSet o pol m r).1.state = m.state)) := by
  have hc := consumeCharRef_ok m hcr
  have h1 := fun e => emitTag_no_panic pol .data m e
  have he := emitTag_charRef pol .data m
  cases hs : m.state with
  | data => cases r <;> simp only [transSet, hs] <;> (repeat' split) <;> simp_all [crStateOk, isAttrValueState]
  | plaintext => cases r <;> simp only [transSet, hs] <;> (repeat' split) <;> simp_all [crStateOk, isAttrValueState]
  | rawData k =>
    cases k with
    | scriptDataEscaped e =>
      cases e <;> cases r <;> simp only [transSet, hs] <;> (repeat' split) <;> simp_all [crStateOk, isAttrValueState]
    | _ => cases r <;> simp only [transSet, hs] <;> (repeat' split) <;> simp_all [crStateOk, isAttrValueState]
  | attributeValue k =>
    cases k <;> cases r <;> simp only [transSet, hs] <;> (repeat' split) <;> simp_all [crStateOk, isAttrValueState]
  | _ => simp [hs, readKind] at hk

/-! ### `step` never panics and preserves `Safe` -/

theorem Safe.of_none {m : Mach} (h : m.charRef = none) : Safe m :=
  ⟨fun cr hcr => by rw [h] at hcr; simp at hcr, fun cr hcr => by rw [h] at hcr; simp at hcr⟩

theorem CRSafe.fresh (b : Bool) : CRSafe { inAttr := b } :=
  ⟨fun h => by simp at h, fun h => by simp at h, fun c1 c2 h => by simp at h⟩

theorem ofSig_panic (ms : Mach × Sig) (inp : Str) (e : String) (h : ofSig ms inp = .panic e) :
    ms.2 = .panic e := by
  unfold ofSig at h; split at h <;> simp_all

theorem processCharRef_no_panic (m : Mach) (chars : Str) (h : crStateOk m.state) (e : String) :
    (processCharRef m chars).2 ≠ .panic e := by
  unfold processCharRef
  dsimp only
  rcases h with h | h | ⟨k, h⟩ <;> simp [h]

theorem stepCharRef_safe (o : Opts) (m : Mach) (inp : Str) (cr : CharRefSt) (hs : Safe m)
    (hcr : m.charRef = some cr) :
    (∀ e, stepCharRef o m inp cr ≠ .panic e) ∧
    (∀ m', (stepCharRef o m inp cr).mach? = some m' → Safe m') := by
  obtain ⟨m1, i1, cr1, st, hc, hsafe⟩ := crStep_safe o m inp cr (hs.crRegs cr hcr)
  have hw := crStep_weaker o m m1 inp i1 cr cr1 st hc
  have hst : crStateOk m1.state := by rw [hw.1]; exact hs.crState cr hcr
  unfold stepCharRef
  rw [hc]
  cases st with
  | stuck =>
    refine ⟨fun e => by simp, fun m' h => ?_⟩
    simp only [R.mach?, Option.some.injEq] at h; subst h
    exact ⟨fun cr' h' => by simpa using hst, fun cr' h' => by
      simp only [setCharRef_charRef, Option.some.injEq] at h'; subst h'; exact hsafe (by simp)⟩
  | progress =>
    refine ⟨fun e => by simp, fun m' h => ?_⟩
    simp only [R.mach?, Option.some.injEq] at h; subst h
    exact ⟨fun cr' h' => by simpa using hst, fun cr' h' => by
      simp only [setCharRef_charRef, Option.some.injEq] at h'; subst h'; exact hsafe (by simp)⟩
  | done chars =>
    refine ⟨fun e h => ?_, fun m' h => ?_⟩
    · have h' : ofSig ((processCharRef m1 chars).1.setCharRef none, (processCharRef m1 chars).2) i1 = .panic e := h
      exact processCharRef_no_panic m1 chars hst e
        (ofSig_panic ((processCharRef m1 chars).1.setCharRef none, (processCharRef m1 chars).2) i1 e h')
    · have := ofSig_mach _ _ _ h
      subst this
      exact Safe.of_none (by simp)

theorem stepBav_charRef (o : Opts) (pol : Pol) (m : Mach) (inp : Str) :
    (∀ e, stepBav o pol m inp ≠ .panic e) ∧
    (∀ m', (stepBav o pol m inp).mach? = some m' → m'.charRef = m.charRef) := by
  unfold stepBav
  cases hpk : peek m inp with
  | none => exact ⟨fun e => by simp, fun m' h => by simp only [R.mach?, Option.some.injEq] at h; rw [← h]⟩
  | some c =>
    dsimp only
    have hm2 : (if m.ignoreLf = true then m.setIgnoreLf false else m).charRef = m.charRef := by
      split <;> simp
    generalize (if m.ignoreLf = true then m.setIgnoreLf false else m) = m2 at hm2
    have hd := (discardChar_weaker m2 inp).2.2.2.2.2
    constructor
    · intro e
      repeat' split
      all_goals
        first
          | (simp; done)
          | (intro h; exact emitTag_no_panic pol .data _ e (ofSig_panic _ _ e h))
    · intro m' h
      repeat' split at h
      all_goals
        first
          | (simp only [R.mach?, Option.some.injEq] at h
             subst h
             first
               | (simp [hd, hm2]; done)
               | (rename_i hgc; have := (getChar_fields o m2 _ inp _ _ hgc).2.2.2.1; rw [this, hm2])
               | (rename_i hgc
                  obtain ⟨_, _, g3⟩ := getChar_none o m2 _ inp _ hgc
                  rcases g3 with ⟨_, g4⟩ | ⟨_, _, g4⟩ <;> subst g4 <;> simp [hm2]))
          | (have := ofSig_mach _ _ _ h
             subst this
             simp [hd, hm2])

theorem stepMdo_charRef (o : Opts) (pol : Pol) (m : Mach) (inp : Str) :
    (∀ e, stepMdo o pol m inp ≠ .panic e) ∧
    (∀ m', (stepMdo o pol m inp).mach? = some m' → m'.charRef = m.charRef) := by
  unfold stepMdo
  cases h1 : eat m inp kwDashDash eqExact with
  | mk b1 r1 =>
    obtain ⟨m1, i1⟩ := r1
    have f1 := (eat_fields m m1 inp i1 _ _ b1 h1).2.1
    cases h2 : eat m1 i1 kwDoctype eqCi with
    | mk b2 r2 =>
      obtain ⟨m2, i2⟩ := r2
      have f2 := (eat_fields m1 m2 i1 i2 _ _ b2 h2).2.1
      cases h3 : eat m2 i2 kwCdata eqExact with
      | mk b3 r3 =>
        obtain ⟨m3, i3⟩ := r3
        have f3 := (eat_fields m2 m3 i2 i3 _ _ b3 h3).2.1
        constructor
        · intro e
          repeat' split
          all_goals simp
        · intro m' h
          repeat' split at h
          all_goals
            (simp only [R.mach?, Option.some.injEq] at h
             subst h
             simp_all)

theorem stepAdn_charRef (o : Opts) (pol : Pol) (m : Mach) (inp : Str) (hs : m.state = .afterDoctypeName) :
    (∀ e, stepAdn o pol m inp ≠ .panic e) ∧
    (∀ m', (stepAdn o pol m inp).mach? = some m' → m'.charRef = m.charRef) := by
  unfold stepAdn
  cases h1 : eat m inp kwPublic eqCi with
  | mk b1 r1 =>
    obtain ⟨m1, i1⟩ := r1
    have f1 := eat_fields m m1 inp i1 _ _ b1 h1
    cases b1 with
    | none => exact ⟨fun e => by simp, fun m' h => by simp only [R.mach?, Option.some.injEq] at h; rw [← h, f1.2.1]⟩
    | some b1 =>
      cases b1 with
      | true => exact ⟨fun e => by simp, fun m' h => by simp only [R.mach?, Option.some.injEq] at h; rw [← h]; simp [f1.2.1]⟩
      | false =>
        dsimp only
        cases h2 : eat m1 i1 kwSystem eqCi with
        | mk b2 r2 =>
          obtain ⟨m2, i2⟩ := r2
          have f2 := eat_fields m1 m2 i1 i2 _ _ b2 h2
          cases b2 with
          | none => exact ⟨fun e => by simp, fun m' h => by simp only [R.mach?, Option.some.injEq] at h; rw [← h, f2.2.1, f1.2.1]⟩
          | some b2 =>
            cases b2 with
            | true => exact ⟨fun e => by simp, fun m' h => by simp only [R.mach?, Option.some.injEq] at h; rw [← h]; simp [f2.2.1, f1.2.1]⟩
            | false =>
              dsimp only
              cases hgc : getChar o m2 i2 with
              | mk c3 r3 =>
                obtain ⟨m3, i3⟩ := r3
                cases c3 with
                | none =>
                  obtain ⟨_, _, g3⟩ := getChar_none o m2 m3 i2 i3 hgc
                  refine ⟨fun e => by simp, fun m' h => ?_⟩
                  simp only [R.mach?, Option.some.injEq] at h
                  subst h
                  rcases g3 with ⟨_, g4⟩ | ⟨_, _, g4⟩ <;> subst g4 <;> simp [f2.2.1, f1.2.1]
                | some c3 =>
                  have g := getChar_fields o m2 m3 i2 i3 c3 hgc
                  refine ⟨fun e h => ?_, fun m' h => ?_⟩
                  · exact transChar_no_panic o pol m3 c3 e (Or.inr (by rw [g.1, f2.1, f1.1, hs])) (ofSig_panic _ _ e h)
                  · have := ofSig_mach _ _ _ h
                    subst this
                    rw [transChar_charRef, g.2.2.2.1, f2.2.1, f1.2.1]

theorem step_safe (o : Opts) (pol : Pol) (m : Mach) (inp : Str) (hs : Safe m) :
    (∀ e, step o pol m inp ≠ .panic e) ∧ (∀ m', (step o pol m inp).mach? = some m' → Safe m') := by
  cases hcr : m.charRef with
  | some cr =>
    rw [step_kind_charRef o pol m inp cr hcr]
    exact stepCharRef_safe o m inp cr hs hcr
  | none =>
    cases hrk : readKind m.state with
    | getChar =>
      rw [step_getChar o pol m inp hcr hrk]
      cases hgc : getChar o m inp with
      | mk c r =>
        obtain ⟨m1, i1⟩ := r
        cases c with
        | none =>
          obtain ⟨_, _, g3⟩ := getChar_none o m m1 inp i1 hgc
          refine ⟨fun e => by simp [contChar], fun m' h => ?_⟩
          simp only [contChar, R.mach?, Option.some.injEq] at h; subst h
          rcases g3 with ⟨_, g4⟩ | ⟨_, _, g4⟩ <;> subst g4
          · exact hs
          · exact Safe.of_none (by simp [hcr])
        | some c =>
          obtain ⟨g1, _, _, g4, _⟩ := getChar_fields o m m1 inp i1 c hgc
          refine ⟨fun e h => ?_, fun m' h => ?_⟩
          · exact transChar_no_panic o pol m1 c e (Or.inl (by rw [g1]; exact hrk)) (ofSig_panic _ _ e h)
          · have := ofSig_mach _ _ _ h
            subst this
            exact Safe.of_none (by rw [transChar_charRef, g4, hcr])
    | popExcept =>
      rw [step_popExcept o pol m inp hcr hrk]
      cases hgc : popExceptFrom o (setOf m.state) m inp with
      | mk c r =>
        obtain ⟨m1, i1⟩ := r
        cases c with
        | none =>
          obtain ⟨_, _, g3⟩ := popExceptFrom_none o _ m m1 inp i1 hgc
          refine ⟨fun e => by simp [contSet], fun m' h => ?_⟩
          simp only [contSet, R.mach?, Option.some.injEq] at h; subst h
          rcases g3 with ⟨_, g4⟩ | ⟨_, _, g4⟩ <;> subst g4
          · exact hs
          · exact Safe.of_none (by simp [hcr])
        | some c =>
          obtain ⟨g1, _, _, g4, _⟩ := popExceptFrom_fields o _ m m1 inp i1 c hgc
          obtain ⟨hnp, hcase⟩ := transSet_charRef o pol m1 c (by rw [g4, hcr]) (Or.inl (by rw [g1]; exact hrk))
          refine ⟨fun e h => hnp e (ofSig_panic _ _ e h), fun m' h => ?_⟩
          have := ofSig_mach _ _ _ h
          subst this
          rcases hcase with hn | ⟨hsome, hok, hst⟩
          · exact Safe.of_none hn
          · exact ⟨fun cr' h' => by rw [hst]; exact hok, fun cr' h' => by
              rw [hsome] at h'; simp only [Option.some.injEq] at h'; subst h'; exact CRSafe.fresh _⟩
    | dataSimd =>
      rw [step_dataSimd o pol m inp hcr hrk]
      cases hgc : readData o m inp with
      | mk c r =>
        obtain ⟨m1, i1⟩ := r
        cases c with
        | none =>
          obtain ⟨_, _, g3⟩ := readData_none o m m1 inp i1 hgc
          refine ⟨fun e => by simp [contSet], fun m' h => ?_⟩
          simp only [contSet, R.mach?, Option.some.injEq] at h; subst h
          rcases g3 with ⟨_, g4⟩ | ⟨_, _, g4⟩ <;> subst g4
          · exact hs
          · exact Safe.of_none (by simp [hcr])
        | some c =>
          obtain ⟨g1, _, _, g4, _⟩ := readData_fields o m m1 inp i1 c hgc
          obtain ⟨hnp, hcase⟩ := transSet_charRef o pol m1 c (by rw [g4, hcr]) (Or.inr (by rw [g1]; exact hrk))
          refine ⟨fun e h => hnp e (ofSig_panic _ _ e h), fun m' h => ?_⟩
          have := ofSig_mach _ _ _ h
          subst this
          rcases hcase with hn | ⟨hsome, hok, hst⟩
          · exact Safe.of_none hn
          · exact ⟨fun cr' h' => by rw [hst]; exact hok, fun cr' h' => by
              rw [hsome] at h'; simp only [Option.some.injEq] at h'; subst h'; exact CRSafe.fresh _⟩
    | peekBav =>
      rw [step_kind_bav o pol m inp hcr hrk]
      obtain ⟨h1, h2⟩ := stepBav_charRef o pol m inp
      exact ⟨h1, fun m' h => Safe.of_none (by rw [h2 m' h, hcr])⟩
    | eatMdo =>
      rw [step_kind_mdo o pol m inp hcr hrk]
      obtain ⟨h1, h2⟩ := stepMdo_charRef o pol m inp
      exact ⟨h1, fun m' h => Safe.of_none (by rw [h2 m' h, hcr])⟩
    | eatAdn =>
      rw [step_kind_adn o pol m inp hcr hrk]
      obtain ⟨h1, h2⟩ := stepAdn_charRef o pol m inp (readKind_adn hrk)
      exact ⟨h1, fun m' h => Safe.of_none (by rw [h2 m' h, hcr])⟩

end H5V.Model.HtmlTok
